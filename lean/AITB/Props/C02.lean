/-
  C02 — Exact POMDP solvers compute the true finite-horizon value.

  Property theorems about `AITB.Model.POMDP` (all sizes, horizons, beliefs; no bounds).
  Helper lemmas on `sumTo`/`maxTo`/`mkVec` are reused from `AITB.Props.C01`.
-/
import AITB.Model.POMDP
import AITB.Props.C01
import AITB.Gen.C02Sites
import Mathlib.Algebra.Order.Field.Rat
import Mathlib.Algebra.BigOperators.Group.Finset.Basic
import Mathlib.Algebra.Order.BigOperators.Group.Finset
import Mathlib.Algebra.BigOperators.Ring.Finset
import Mathlib.Tactic.Ring
import Mathlib.Tactic.Linarith
import Mathlib.Tactic.FieldSimp
import Mathlib.Tactic.NormNum

namespace AITB.POMDP
open AITB.MDP (sumTo maxTo argmaxTo Vec Vec.get mkVec absR sumTo_eq sumTo_congr sumTo_le sumTo_add sumTo_mul_left mkVec_get maxTo_ge maxTo_attained maxTo_congr)

/-! ## `lmax`: the maximum of a non-empty list -/

theorem lmax_mem : ∀ (l : List Rat), l ≠ [] → lmax l ∈ l
  | [], h => absurd rfl h
  | [x], _ => by simp [lmax]
  | x :: y :: r, _ => by
    have ih := lmax_mem (y :: r) (by simp)
    unfold lmax
    split
    · exact List.mem_cons_self
    · exact List.mem_cons_of_mem _ ih

theorem lmax_ge : ∀ (l : List Rat) (x : Rat), x ∈ l → x ≤ lmax l
  | [], x, h => by simp at h
  | [y], x, h => by simp at h; simp [lmax, h]
  | y :: z :: r, x, h => by
    have ih := lmax_ge (z :: r)
    unfold lmax
    rcases List.mem_cons.mp h with h1 | h1
    · subst h1
      split
      · exact le_refl _
      · rename_i hlt; exact not_lt.mp hlt
    · have := ih x h1
      split
      · rename_i hlt; exact le_of_lt (lt_of_le_of_lt this hlt)
      · exact this

/-- characterisation used everywhere below: a member that bounds the list is its `lmax` -/
theorem lmax_eq_of (l : List Rat) (v : Rat) (hm : v ∈ l) (hb : ∀ x ∈ l, x ≤ v) : lmax l = v := by
  have h1 := lmax_ge l v hm
  have h2 := hb _ (lmax_mem l (List.ne_nil_of_mem hm))
  exact le_antisymm h2 h1

theorem lmax_append (l1 l2 : List Rat) (h1 : l1 ≠ []) (h2 : l2 ≠ []) :
    lmax (l1 ++ l2) = if lmax l1 < lmax l2 then lmax l2 else lmax l1 := by
  apply lmax_eq_of
  · split
    · exact List.mem_append_right _ (lmax_mem l2 h2)
    · exact List.mem_append_left _ (lmax_mem l1 h1)
  · intro x hx
    rcases List.mem_append.mp hx with h | h
    · have := lmax_ge l1 x h
      split
      · rename_i hlt; linarith
      · exact this
    · have := lmax_ge l2 x h
      split
      · exact this
      · rename_i hlt; linarith [not_lt.mp hlt]

theorem lmax_map_mul (c : Rat) (hc : 0 ≤ c) (l : List Rat) (h : l ≠ []) :
    lmax (l.map (fun x => c * x)) = c * lmax l := by
  apply lmax_eq_of
  · exact List.mem_map.mpr ⟨lmax l, lmax_mem l h, rfl⟩
  · intro x hx
    obtain ⟨y, hy, rfl⟩ := List.mem_map.mp hx
    exact mul_le_mul_of_nonneg_left (lmax_ge l y hy) hc

theorem lmax_map_add (c : Rat) (l : List Rat) (h : l ≠ []) :
    lmax (l.map (fun x => c + x)) = c + lmax l := by
  apply lmax_eq_of
  · exact List.mem_map.mpr ⟨lmax l, lmax_mem l h, rfl⟩
  · intro x hx
    obtain ⟨y, hy, rfl⟩ := List.mem_map.mp hx
    linarith [lmax_ge l y hy]

theorem lmax_congr_map {α : Type} (l : List α) (f g : α → Rat) (h : ∀ x ∈ l, f x = g x) :
    lmax (l.map f) = lmax (l.map g) := by
  rw [List.map_congr_left h]

/-- all sums `x + y`, `x ∈ l1`, `y ∈ l2` -/
def pairSums (l1 l2 : List Rat) : List Rat := l1.flatMap (fun x => l2.map (fun y => x + y))

theorem lmax_pairSums (l1 l2 : List Rat) (h1 : l1 ≠ []) (h2 : l2 ≠ []) :
    lmax (pairSums l1 l2) = lmax l1 + lmax l2 := by
  apply lmax_eq_of
  · exact List.mem_flatMap.mpr ⟨lmax l1, lmax_mem l1 h1, List.mem_map.mpr ⟨lmax l2, lmax_mem l2 h2, rfl⟩⟩
  · intro x hx
    obtain ⟨a, ha, hx⟩ := List.mem_flatMap.mp hx
    obtain ⟨b, hb, rfl⟩ := List.mem_map.mp hx
    linarith [lmax_ge l1 a ha, lmax_ge l2 b hb]

theorem pairSums_ne_nil (l1 l2 : List Rat) (h1 : l1 ≠ []) (h2 : l2 ≠ []) : pairSums l1 l2 ≠ [] := by
  intro h
  have : lmax l1 + lmax l2 ∈ pairSums l1 l2 :=
    List.mem_flatMap.mpr ⟨lmax l1, lmax_mem l1 h1, List.mem_map.mpr ⟨lmax l2, lmax_mem l2 h2, rfl⟩⟩
  rw [h] at this; simp at this

/-- every total obtainable by picking one entry from each of the lists `F 0 … F (k-1)` -/
def choiceSums : Nat → (Nat → List Rat) → List Rat
  | 0, _ => [0]
  | k+1, F => pairSums (choiceSums k F) (F k)

theorem choiceSums_ne_nil (k : Nat) (F : Nat → List Rat) (hF : ∀ o, o < k → F o ≠ []) : choiceSums k F ≠ [] := by
  induction k with
  | zero => simp [choiceSums]
  | succ k ih => exact pairSums_ne_nil _ _ (ih (fun o ho => hF o (by omega))) (hF k (by omega))

/-- **sum_max_eq_max_choice**: Σ_o max_i f o i = max over all choice functions of Σ_o f o (σ o). -/
theorem sum_max_eq_max_choice (k : Nat) (F : Nat → List Rat) (hF : ∀ o, o < k → F o ≠ []) :
    sumTo k (fun o => lmax (F o)) = lmax (choiceSums k F) := by
  induction k with
  | zero => simp [sumTo, choiceSums, lmax]
  | succ k ih =>
    simp only [sumTo, choiceSums]
    rw [lmax_pairSums _ _ (choiceSums_ne_nil k F (fun o ho => hF o (by omega))) (hF k (by omega)),
        ih (fun o ho => hF o (by omega))]

example : sumTo 2 (fun o => lmax (if o = 0 then [1, 3] else [2, -1])) = lmax (choiceSums 2 (fun o => if o = 0 then [1, 3] else [2, -1])) := by
  norm_num [sumTo, lmax, choiceSums, pairSums]  -- test on literals: 3 + 2 = max {3, 0, 5, 2}

/-! ## dot products and envelopes -/

theorem dot_vadd (n : Nat) (b v w : Vec) : dot n b (vadd n v w) = dot n b v + dot n b w := by
  unfold dot vadd
  rw [← sumTo_add]
  apply sumTo_congr
  intro s hs
  rw [mkVec_get _ hs]; ring

theorem dot_vzero (n : Nat) (b : Vec) : dot n b (vzero n) = 0 := by
  unfold dot vzero
  have : ∀ k, k ≤ n → sumTo k (fun s => b.get s * (mkVec n (fun _ => (0 : Rat))).get s) = 0 := by
    intro k
    induction k with
    | zero => intro _; rfl
    | succ k ih =>
      intro hk
      simp only [sumTo]
      rw [ih (by omega), mkVec_get _ (by omega : k < n)]; ring
  exact this n (le_refl _)

theorem env_ne (n : Nat) (Γ : List Vec) (b : Vec) (h : Γ ≠ []) : Γ.map (fun α => dot n b α) ≠ [] := by
  simpa using h

theorem env_ge (n : Nat) (Γ : List Vec) (b : Vec) (α : Vec) (h : α ∈ Γ) : dot n b α ≤ env n Γ b :=
  lmax_ge _ _ (List.mem_map.mpr ⟨α, h, rfl⟩)

theorem env_attained (n : Nat) (Γ : List Vec) (b : Vec) (h : Γ ≠ []) : ∃ α ∈ Γ, env n Γ b = dot n b α := by
  obtain ⟨α, hα, e⟩ := List.mem_map.mp (lmax_mem _ (env_ne n Γ b h))
  exact ⟨α, hα, e.symm⟩

theorem env_eq_of (n : Nat) (Γ : List Vec) (b : Vec) (v : Rat) (hm : ∃ α ∈ Γ, dot n b α = v) (hb : ∀ α ∈ Γ, dot n b α ≤ v) :
    env n Γ b = v := by
  apply lmax_eq_of
  · obtain ⟨α, hα, e⟩ := hm; exact List.mem_map.mpr ⟨α, hα, e⟩
  · intro x hx
    obtain ⟨α, hα, rfl⟩ := List.mem_map.mp hx
    exact hb α hα

theorem crossSum_ne_nil (n : Nat) (l1 l2 : List Vec) (h1 : l1 ≠ []) (h2 : l2 ≠ []) : crossSum n l1 l2 ≠ [] := by
  obtain ⟨a, ha⟩ := List.exists_mem_of_ne_nil l1 h1
  obtain ⟨b, hb⟩ := List.exists_mem_of_ne_nil l2 h2
  intro h
  have : vadd n a b ∈ crossSum n l1 l2 := List.mem_flatMap.mpr ⟨a, ha, List.mem_map.mpr ⟨b, hb, rfl⟩⟩
  rw [h] at this; simp at this

/-- **envelope_crossSum**: the upper envelope of a cross-sum is the sum of the envelopes, at every point `b`. -/
theorem envelope_crossSum (n : Nat) (l1 l2 : List Vec) (b : Vec) (h1 : l1 ≠ []) (h2 : l2 ≠ []) :
    env n (crossSum n l1 l2) b = env n l1 b + env n l2 b := by
  obtain ⟨a1, ha1, e1⟩ := env_attained n l1 b h1
  obtain ⟨a2, ha2, e2⟩ := env_attained n l2 b h2
  apply env_eq_of
  · exact ⟨vadd n a1 a2, List.mem_flatMap.mpr ⟨a1, ha1, List.mem_map.mpr ⟨a2, ha2, rfl⟩⟩, by rw [dot_vadd, e1, e2]⟩
  · intro α hα
    obtain ⟨x, hx, hα⟩ := List.mem_flatMap.mp hα
    obtain ⟨y, hy, rfl⟩ := List.mem_map.mp hα
    rw [dot_vadd]
    linarith [env_ge n l1 b x hx, env_ge n l2 b y hy]

/-- hence pruning each operand with an envelope-preserving pruner preserves the envelope of the cross-sum
    (what justifies Incremental Pruning's interleaving of cross-sums and pruning) -/
theorem envelope_crossSum_pruned (n : Nat) (l1 l2 l1' l2' : List Vec) (b : Vec)
    (h1 : l1 ≠ []) (h2 : l2 ≠ []) (h1' : l1' ≠ []) (h2' : l2' ≠ [])
    (e1 : env n l1' b = env n l1 b) (e2 : env n l2' b = env n l2 b) :
    env n (crossSum n l1' l2') b = env n (crossSum n l1 l2) b := by
  rw [envelope_crossSum n l1' l2' b h1' h2', envelope_crossSum n l1 l2 b h1 h2, e1, e2]

/-! ## `convex_dominance_sound`: the Farkas direction used by certificate checks -/

/-- if a convex combination Σ λ_i α_i of the list dominates β componentwise then the list's envelope dominates β·b at every
    non-negative point b (in particular at every belief).  `lam` and `Γ` are zipped; λ ≥ 0, Σλ = 1. -/
theorem convex_dominance_sound (n : Nat) (Γ : List Vec) (lam : List Rat) (β b : Vec)
    (hlen : lam.length = Γ.length) (hne : Γ ≠ [])
    (hl0 : ∀ x ∈ lam, 0 ≤ x) (hl1 : lam.sum = 1)
    (hdom : ∀ s, s < n → β.get s ≤ ((lam.zip Γ).map (fun p => p.1 * p.2.get s)).sum)
    (hb : ∀ s, s < n → 0 ≤ b.get s) :
    dot n b β ≤ env n Γ b := by
  -- Σ_s b_s β_s ≤ Σ_s b_s Σ_i λ_i α_i(s) = Σ_i λ_i (b·α_i) ≤ Σ_i λ_i env = env
  have step1 : dot n b β ≤ sumTo n (fun s => b.get s * ((lam.zip Γ).map (fun p => p.1 * p.2.get s)).sum) := by
    unfold dot
    apply sumTo_le
    intro s hs
    exact mul_le_mul_of_nonneg_left (hdom s hs) (hb s hs)
  have swap : ∀ (L : List (Rat × Vec)),
      sumTo n (fun s => b.get s * (L.map (fun p => p.1 * p.2.get s)).sum) = (L.map (fun p => p.1 * dot n b p.2)).sum := by
    intro L
    induction L with
    | nil =>
      simp only [List.map_nil, List.sum_nil, mul_zero]
      have : ∀ k, sumTo k (fun _ => (0 : Rat)) = 0 := by
        intro k; induction k with
        | zero => rfl
        | succ k ih => simp [sumTo, ih]
      exact this n
    | cons p L ih =>
      simp only [List.map_cons, List.sum_cons]
      rw [← ih]
      unfold dot
      rw [← sumTo_mul_left, ← sumTo_add]
      apply sumTo_congr
      intro s _; ring
  have step2 : ∀ (L : List (Rat × Vec)), (∀ p ∈ L, 0 ≤ p.1) → (∀ p ∈ L, p.2 ∈ Γ) →
      (L.map (fun p => p.1 * dot n b p.2)).sum ≤ (L.map (fun p => p.1)).sum * env n Γ b := by
    intro L
    induction L with
    | nil => intro _ _; simp
    | cons p L ih =>
      intro h0 hm
      simp only [List.map_cons, List.sum_cons]
      have i1 := ih (fun q hq => h0 q (List.mem_cons_of_mem _ hq)) (fun q hq => hm q (List.mem_cons_of_mem _ hq))
      have i2 : p.1 * dot n b p.2 ≤ p.1 * env n Γ b :=
        mul_le_mul_of_nonneg_left (env_ge n Γ b p.2 (hm p List.mem_cons_self)) (h0 p List.mem_cons_self)
      linarith [add_mul p.1 (List.map (fun p => p.1) L).sum (env n Γ b)]
  have hz0 : ∀ p ∈ lam.zip Γ, 0 ≤ p.1 := fun p hp => hl0 _ (List.of_mem_zip hp).1
  have hzm : ∀ p ∈ lam.zip Γ, p.2 ∈ Γ := fun p hp => (List.of_mem_zip hp).2
  have hfst : (lam.zip Γ).map (fun p => p.1) = lam := by
    rw [← List.unzip_fst]
    simp [List.unzip_zip, hlen]
  have := step2 (lam.zip Γ) hz0 hzm
  rw [hfst, hl1, one_mul] at this
  rw [swap] at step1
  linarith

/-- the hypotheses are satisfiable: the midpoint of (2,0) and (0,2) dominates (1,1) -/
example : ∃ (Γ : List Vec) (lam : List Rat) (β b : Vec), lam.length = Γ.length ∧ Γ ≠ [] ∧ (∀ x ∈ lam, 0 ≤ x) ∧ lam.sum = 1 ∧
    (∀ s, s < 2 → β.get s ≤ ((lam.zip Γ).map (fun p => p.1 * p.2.get s)).sum) ∧ (∀ s, s < 2 → 0 ≤ b.get s) := by
  refine ⟨[#[2, 0], #[0, 2]], [1/2, 1/2], #[1, 1], #[1/4, 3/4], rfl, by simp, ?_, by norm_num, ?_, ?_⟩
  · intro x hx; simp at hx; subst hx; norm_num
  · intro s hs
    have : s = 0 ∨ s = 1 := by omega
    rcases this with rfl | rfl <;> norm_num [Vec.get]
  · intro s hs
    have : s = 0 ∨ s = 1 := by omega
    rcases this with rfl | rfl <;> norm_num [Vec.get]


/-! ## validity -/

/-- transition and observation tables are row-stochastic, at least one action and one observation -/
structure Valid (m : Model) : Prop where
  hA : 0 < m.A
  hO : 0 < m.O
  T0 : ∀ s a s1, s < m.S → a < m.A → s1 < m.S → 0 ≤ m.T s a s1
  T1 : ∀ s a, s < m.S → a < m.A → sumTo m.S (fun s1 => m.T s a s1) = 1
  O0 : ∀ s1 a o, s1 < m.S → a < m.A → o < m.O → 0 ≤ m.Ob s1 a o
  O1 : ∀ s1 a, s1 < m.S → a < m.A → sumTo m.O (fun o => m.Ob s1 a o) = 1

/-- no observation probability lies in the tolerance band: `|O(s1,a,o)| ≤ τ` only when it is 0
    (with τ = 0 this is vacuous for non-negative tables) -/
def Sep (m : Model) (τ : Rat) : Prop :=
  ∀ s1 a o, s1 < m.S → a < m.A → o < m.O → absR (m.Ob s1 a o) ≤ τ → m.Ob s1 a o = 0

def NonNeg (n : Nat) (b : Vec) : Prop := ∀ s, s < n → 0 ≤ b.get s

/-- a belief: non-negative entries summing to one -/
def Simplex (n : Nat) (b : Vec) : Prop := NonNeg n b ∧ sumTo n b.get = 1

/-! ## small sum lemmas -/

theorem sumTo_zero (n : Nat) : sumTo n (fun _ => (0 : Rat)) = 0 := by
  induction n with
  | zero => rfl
  | succ k ih => simp [sumTo, ih]

theorem sumTo_nonneg {n : Nat} {f : Nat → Rat} (h : ∀ i, i < n → 0 ≤ f i) : 0 ≤ sumTo n f := by
  have := sumTo_le (f := fun _ => 0) (g := f) h
  rwa [sumTo_zero] at this

theorem sumTo_eq_zero_imp {n : Nat} {f : Nat → Rat} (h0 : ∀ i, i < n → 0 ≤ f i) (hs : sumTo n f = 0) :
    ∀ i, i < n → f i = 0 := by
  induction n with
  | zero => intro i hi; omega
  | succ k ih =>
    intro i hi
    simp only [sumTo] at hs
    have h1 : 0 ≤ sumTo k f := sumTo_nonneg (fun j hj => h0 j (by omega))
    have h2 : 0 ≤ f k := h0 k (by omega)
    rcases Nat.lt_or_ge i k with h | h
    · exact ih (fun j hj => h0 j (by omega)) (by linarith) i h
    · have : i = k := by omega
      subst this; linarith

theorem sumTo_div (n : Nat) (f : Nat → Rat) (c : Rat) : sumTo n (fun i => f i / c) = sumTo n f / c := by
  induction n with
  | zero => simp [sumTo]
  | succ k ih => simp only [sumTo, ih]; ring

theorem sumTo_const_div (n : Nat) (hn : 0 < n) (r : Rat) : sumTo n (fun _ => r / (n : Rat)) = r := by
  have h : ∀ k : Nat, sumTo k (fun _ => r / (n : Rat)) = (k : Rat) * (r / (n : Rat)) := by
    intro k
    induction k with
    | zero => simp [sumTo]
    | succ k ih => simp only [sumTo, ih]; push_cast; ring
  rw [h n]
  have : (n : Rat) ≠ 0 := by exact_mod_cast (Nat.pos_iff_ne_zero.mp hn)
  field_simp

/-! ## belief update -/

theorem updU_get (m : Model) (b : Vec) (a o : Nat) {s1 : Nat} (h : s1 < m.S) :
    (updU m b a o).get s1 = m.Ob s1 a o * sumTo m.S (fun s => b.get s * m.T s a s1) := by
  unfold updU; rw [mkVec_get _ h]

theorem updU_nonneg (m : Model) (hv : Valid m) (b : Vec) (hb : NonNeg m.S b) {a o : Nat} (ha : a < m.A) (ho : o < m.O) :
    NonNeg m.S (updU m b a o) := by
  intro s1 h1
  rw [updU_get m b a o h1]
  apply mul_nonneg (hv.O0 s1 a o h1 ha ho)
  apply sumTo_nonneg
  intro s hs
  exact mul_nonneg (hb s hs) (hv.T0 s a s1 hs ha h1)

theorem vdiv_nonneg (n : Nat) (u : Vec) (p : Rat) (hu : NonNeg n u) (hp : 0 ≤ p) : NonNeg n (vdiv n u p) := by
  intro s hs
  unfold vdiv; rw [mkVec_get _ hs]
  exact div_nonneg (hu s hs) hp

theorem vsum_nonneg (n : Nat) (u : Vec) (hu : NonNeg n u) : 0 ≤ vsum n u := sumTo_nonneg hu

theorem dot_vdiv (n : Nat) (u α : Vec) (p : Rat) : dot n (vdiv n u p) α = dot n u α / p := by
  unfold dot vdiv
  rw [← sumTo_div]
  apply sumTo_congr
  intro s hs
  rw [mkVec_get _ hs]; ring

theorem dot_zero_left (n : Nat) (u α : Vec) (h : ∀ s, s < n → u.get s = 0) : dot n u α = 0 := by
  unfold dot
  rw [← sumTo_zero n]
  apply sumTo_congr
  intro s hs; rw [h s hs]; ring

/-- the algebraic heart: `b · proj_{a,o}(α) = γ · (u_{a,o}(b) · α) + (b · R_a)/|O|` -/
theorem dot_projVec (m : Model) (b α : Vec) (a o : Nat) :
    dot m.S b (projVec m α a o) = m.γ * dot m.S (updU m b a o) α + expReward m b a / (m.O : Rat) := by
  unfold dot expReward
  have e1 : sumTo m.S (fun s => b.get s * (projVec m α a o).get s)
      = sumTo m.S (fun s => b.get s * (sumTo m.S (fun s1 => m.T s a s1 * (α.get s1 * m.Ob s1 a o)) * m.γ + m.R s a / (m.O : Rat))) := by
    apply sumTo_congr; intro s hs; unfold projVec; rw [mkVec_get _ hs]
  have e2 : sumTo m.S (fun s => (updU m b a o).get s * α.get s)
      = sumTo m.S (fun s1 => m.Ob s1 a o * sumTo m.S (fun s => b.get s * m.T s a s1) * α.get s1) := by
    apply sumTo_congr; intro s hs; rw [updU_get m b a o hs]
  rw [e1, e2]
  have e3 : sumTo m.S (fun s => b.get s * (sumTo m.S (fun s1 => m.T s a s1 * (α.get s1 * m.Ob s1 a o)) * m.γ + m.R s a / (m.O : Rat)))
      = sumTo m.S (fun s => b.get s * (sumTo m.S (fun s1 => m.T s a s1 * (α.get s1 * m.Ob s1 a o)) * m.γ))
        + sumTo m.S (fun s => m.R s a * b.get s / (m.O : Rat)) := by
    rw [← sumTo_add]; apply sumTo_congr; intro s _; ring
  rw [e3, sumTo_div]
  congr 1
  simp only [sumTo_eq]
  simp only [Finset.mul_sum, Finset.sum_mul]
  rw [Finset.sum_comm]
  apply Finset.sum_congr rfl; intro s1 _
  apply Finset.sum_congr rfl; intro s _
  ring

theorem dot_immR (m : Model) (b : Vec) (a : Nat) : dot m.S b (immR m a) = expReward m b a / (m.O : Rat) := by
  unfold dot expReward immR
  rw [← sumTo_div]
  apply sumTo_congr; intro s hs
  rw [mkVec_get _ hs]; ring

/-! ## envelope of the projected lists, of cross-sums and of unions -/

theorem possible_false (m : Model) (τ : Rat) (a o : Nat) (h : possible m τ a o = false) :
    ∀ s, s < m.S → absR (m.Ob s a o) ≤ τ := by
  intro s hs
  unfold possible at h
  rw [List.any_eq_false] at h
  have := h s (List.mem_range.mpr hs)
  simpa using this

theorem projList_ne_nil (m : Model) (τ : Rat) (Γ : List Vec) (a o : Nat) (h : Γ ≠ []) : projList m τ Γ a o ≠ [] := by
  unfold projList
  split
  · simpa using h
  · simp

/-- value contributed by observation `o` after action `a` when the continuation is the envelope of Γ -/
def obsTerm (m : Model) (V : Vec → Rat) (b : Vec) (a o : Nat) : Rat :=
  if vsum m.S (updU m b a o) = 0 then 0 else vsum m.S (updU m b a o) * V (vdiv m.S (updU m b a o) (vsum m.S (updU m b a o)))

theorem qOf_eq (m : Model) (V : Vec → Rat) (b : Vec) (a : Nat) :
    qOf m V b a = expReward m b a + m.γ * sumTo m.O (fun o => obsTerm m V b a o) := rfl

/-- max over Γ of `u·α` is `p · env Γ (u/p)` (or 0 when the observation has probability 0) -/
theorem lmax_dot_updU (m : Model) (Γ : List Vec) (h : Γ ≠ []) (u : Vec) (hu : NonNeg m.S u) :
    lmax (Γ.map (fun α => dot m.S u α)) =
      if vsum m.S u = 0 then 0 else vsum m.S u * env m.S Γ (vdiv m.S u (vsum m.S u)) := by
  split
  · rename_i hp
    have hz := sumTo_eq_zero_imp hu hp
    apply lmax_eq_of
    · obtain ⟨α, hα⟩ := List.exists_mem_of_ne_nil Γ h
      exact List.mem_map.mpr ⟨α, hα, dot_zero_left _ _ _ hz⟩
    · intro x hx
      obtain ⟨α, _, rfl⟩ := List.mem_map.mp hx
      rw [dot_zero_left _ _ _ hz]
  · rename_i hp
    have hpos : 0 < vsum m.S u := lt_of_le_of_ne (vsum_nonneg _ _ hu) (Ne.symm hp)
    unfold env
    have : (Γ.map (fun α => dot m.S (vdiv m.S u (vsum m.S u)) α)) = (Γ.map (fun α => dot m.S u α)).map (fun x => (1 / vsum m.S u) * x) := by
      rw [List.map_map]
      apply List.map_congr_left
      intro α _
      simp only [Function.comp]
      rw [dot_vdiv]; ring
    rw [this, lmax_map_mul _ (div_nonneg zero_le_one (le_of_lt hpos)) _ (by simpa using h)]
    field_simp

theorem env_projList (m : Model) (hv : Valid m) (τ : Rat) (hsep : Sep m τ) (hγ : 0 ≤ m.γ) (Γ : List Vec) (hΓ : Γ ≠ [])
    (b : Vec) (hb : NonNeg m.S b) {a o : Nat} (ha : a < m.A) (ho : o < m.O) :
    env m.S (projList m τ Γ a o) b = expReward m b a / (m.O : Rat) + m.γ * obsTerm m (env m.S Γ) b a o := by
  have hu := updU_nonneg m hv b hb ha ho
  unfold projList
  split
  · -- possible observation: one projection per previous vector
    unfold env
    rw [List.map_map]
    have : (Γ.map ((fun α => dot m.S b α) ∘ fun α => projVec m α a o))
        = (Γ.map (fun α => dot m.S (updU m b a o) α)).map (fun x => expReward m b a / (m.O : Rat) + m.γ * x) := by
      rw [List.map_map]
      apply List.map_congr_left
      intro α _
      simp only [Function.comp]
      rw [dot_projVec]; ring
    rw [this]
    have hne : (Γ.map (fun α => dot m.S (updU m b a o) α)) ≠ [] := by simpa using hΓ
    have h2 : (List.map (fun α => dot m.S (updU m b a o) α) Γ).map (fun x => expReward m b a / (m.O : Rat) + m.γ * x)
        = ((List.map (fun α => dot m.S (updU m b a o) α) Γ).map (fun x => m.γ * x)).map (fun x => expReward m b a / (m.O : Rat) + x) := by
      simp only [List.map_map]; apply List.map_congr_left; intro α _; rfl
    rw [h2, lmax_map_add _ _ (by simpa using hΓ), lmax_map_mul _ hγ _ hne, lmax_dot_updU m Γ hΓ _ hu]
    rfl
  · -- impossible observation: the single immediate-reward vector, and the observation has probability 0
    rename_i hposs
    have hposs' : possible m τ a o = false := by simpa using hposs
    have hz : ∀ s1, s1 < m.S → (updU m b a o).get s1 = 0 := by
      intro s1 h1
      rw [updU_get m b a o h1, hsep s1 a o h1 ha ho (possible_false m τ a o hposs' s1 h1)]; ring
    have hp : vsum m.S (updU m b a o) = 0 := by
      unfold vsum
      rw [← sumTo_zero m.S]
      exact sumTo_congr hz
    unfold obsTerm
    rw [if_pos hp]
    unfold env
    simp only [List.map_cons, List.map_nil, lmax]
    rw [dot_immR]; ring

theorem crossTo_ne_nil (n k : Nat) (P : Nat → List Vec) (hP : ∀ o, o < k → P o ≠ []) : crossTo n k P ≠ [] := by
  induction k with
  | zero => simp [crossTo]
  | succ k ih => exact crossSum_ne_nil n _ _ (ih (fun o ho => hP o (by omega))) (hP k (by omega))

/-- envelope of the cross-sum of k lists = sum of the k envelopes -/
theorem env_crossTo (n k : Nat) (P : Nat → List Vec) (b : Vec) (hP : ∀ o, o < k → P o ≠ []) :
    env n (crossTo n k P) b = sumTo k (fun o => env n (P o) b) := by
  induction k with
  | zero => simp [crossTo, sumTo, env, lmax, dot_vzero]
  | succ k ih =>
    simp only [crossTo, sumTo]
    rw [envelope_crossSum n _ _ b (crossTo_ne_nil n k P (fun o ho => hP o (by omega))) (hP k (by omega)),
        ih (fun o ho => hP o (by omega))]

theorem unionTo_ne_nil (k : Nat) (G : Nat → List Vec) (hG : G k ≠ []) : unionTo (k+1) G ≠ [] := by
  simp [unionTo, hG]

theorem env_append (n : Nat) (l1 l2 : List Vec) (b : Vec) (h1 : l1 ≠ []) (h2 : l2 ≠ []) :
    env n (l1 ++ l2) b = if env n l1 b < env n l2 b then env n l2 b else env n l1 b := by
  unfold env
  rw [List.map_append, lmax_append _ _ (by simpa using h1) (by simpa using h2)]

/-- envelope of the union over actions = max over actions of the envelopes -/
theorem env_unionTo (n k : Nat) (G : Nat → List Vec) (b : Vec) (hG : ∀ a, a ≤ k → G a ≠ []) :
    env n (unionTo (k+1) G) b = maxTo k (fun a => env n (G a) b) := by
  induction k with
  | zero => simp [unionTo, maxTo]
  | succ k ih =>
    have e : unionTo (k+1+1) G = unionTo (k+1) G ++ G (k+1) := rfl
    rw [e, env_append n _ _ b (unionTo_ne_nil k G (hG k (by omega))) (hG (k+1) (le_refl _)),
        ih (fun a ha => hG a (by omega))]
    simp only [maxTo]

theorem backupA_ne_nil (m : Model) (τ : Rat) (Γ : List Vec) (hΓ : Γ ≠ []) (a : Nat) : backupA m τ Γ a ≠ [] :=
  crossTo_ne_nil _ _ _ (fun o _ => projList_ne_nil m τ Γ a o hΓ)

theorem backupAll_ne_nil (m : Model) (hA : 0 < m.A) (τ : Rat) (Γ : List Vec) (hΓ : Γ ≠ []) : backupAll m τ Γ ≠ [] := by
  unfold backupAll
  obtain ⟨k, hk⟩ : ∃ k, m.A = k + 1 := ⟨m.A - 1, by omega⟩
  rw [hk]
  exact unionTo_ne_nil k _ (backupA_ne_nil m τ Γ hΓ k)

theorem backupIter_ne_nil (m : Model) (hA : 0 < m.A) (τ : Rat) : ∀ h, backupIter m τ h ≠ []
  | 0 => by simp [backupIter]
  | h+1 => backupAll_ne_nil m hA τ _ (backupIter_ne_nil m hA τ h)

/-- **one exact backup**: the envelope of the full backup of Γ is the one-step lookahead whose continuation is the envelope of Γ -/
theorem env_backupAll (m : Model) (hv : Valid m) (τ : Rat) (hsep : Sep m τ) (hγ : 0 ≤ m.γ) (Γ : List Vec) (hΓ : Γ ≠ [])
    (b : Vec) (hb : NonNeg m.S b) :
    env m.S (backupAll m τ Γ) b = maxTo (m.A - 1) (qOf m (env m.S Γ) b) := by
  unfold backupAll
  obtain ⟨k, hk⟩ : ∃ k, m.A = k + 1 := ⟨m.A - 1, by have := hv.hA; omega⟩
  rw [hk, env_unionTo m.S k _ b (fun a _ => backupA_ne_nil m τ Γ hΓ a)]
  have : k + 1 - 1 = k := by omega
  rw [this]
  apply maxTo_congr
  intro a ha
  have haA : a < m.A := by omega
  unfold backupA
  rw [env_crossTo m.S m.O _ b (fun o _ => projList_ne_nil m τ Γ a o hΓ), qOf_eq]
  have : sumTo m.O (fun o => env m.S (projList m τ Γ a o) b)
      = sumTo m.O (fun o => expReward m b a / (m.O : Rat) + m.γ * obsTerm m (env m.S Γ) b a o) :=
    sumTo_congr (fun o ho => env_projList m hv τ hsep hγ Γ hΓ b hb haA ho)
  rw [this, sumTo_add, sumTo_mul_left, sumTo_const_div m.O hv.hO]

theorem obsTerm_congr (m : Model) (hv : Valid m) (V V' : Vec → Rat) (hVV : ∀ b', NonNeg m.S b' → V b' = V' b')
    (b : Vec) (hb : NonNeg m.S b) {a o : Nat} (ha : a < m.A) (ho : o < m.O) :
    obsTerm m V b a o = obsTerm m V' b a o := by
  unfold obsTerm
  split
  · rfl
  · have hu := updU_nonneg m hv b hb ha ho
    rw [hVV _ (vdiv_nonneg _ _ _ hu (vsum_nonneg _ _ hu))]

theorem qOf_congr (m : Model) (hv : Valid m) (V V' : Vec → Rat) (hVV : ∀ b', NonNeg m.S b' → V b' = V' b')
    (b : Vec) (hb : NonNeg m.S b) {a : Nat} (ha : a < m.A) : qOf m V b a = qOf m V' b a := by
  rw [qOf_eq, qOf_eq]
  congr 2
  exact sumTo_congr (fun o ho => obsTerm_congr m hv V V' hVV b hb ha ho)

/-- **alpha_backup_exact**: for every POMDP, horizon and (non-negative, in particular every) belief, the upper envelope of the
    h-fold exact alpha-vector backup of the zero vector equals the exhaustive expectimax value.
    `τ` is the Projecter's impossibility threshold; `Sep m τ` says no observation probability lies in (0, τ]
    (vacuous at τ = 0; the library uses τ = 1e-6). -/
theorem alpha_backup_exact (m : Model) (hv : Valid m) (τ : Rat) (hsep : Sep m τ) (hγ : 0 ≤ m.γ) :
    ∀ (h : Nat) (b : Vec), NonNeg m.S b → env m.S (backupIter m τ h) b = expectimax m h b := by
  intro h
  induction h with
  | zero =>
    intro b _
    simp [backupIter, expectimax, env, lmax, dot_vzero]
  | succ h ih =>
    intro b hb
    simp only [backupIter, expectimax]
    rw [env_backupAll m hv τ hsep hγ _ (backupIter_ne_nil m hv.hA τ h) b hb]
    apply maxTo_congr
    intro a ha
    exact qOf_congr m hv _ _ ih b hb (by have := hv.hA; omega)


/-! ## the per-instance upper side: vectors that are genuine backups never exceed expectimax -/

/-- envelope is monotone in the list -/
theorem env_mono (n : Nat) (Γ Γ' : List Vec) (b : Vec) (hne : Γ ≠ []) (hsub : ∀ α ∈ Γ, α ∈ Γ') : env n Γ b ≤ env n Γ' b := by
  obtain ⟨α, hα, e⟩ := env_attained n Γ b hne
  rw [e]; exact env_ge n Γ' b α (hsub α hα)

/-- `qOf` is monotone in the continuation (on non-negative beliefs) -/
theorem qOf_mono (m : Model) (hv : Valid m) (hγ : 0 ≤ m.γ) (V V' : Vec → Rat) (hVV : ∀ b', NonNeg m.S b' → V b' ≤ V' b')
    (b : Vec) (hb : NonNeg m.S b) {a : Nat} (ha : a < m.A) : qOf m V b a ≤ qOf m V' b a := by
  rw [qOf_eq, qOf_eq]
  have : sumTo m.O (fun o => obsTerm m V b a o) ≤ sumTo m.O (fun o => obsTerm m V' b a o) := by
    apply sumTo_le
    intro o ho
    unfold obsTerm
    split
    · exact le_refl _
    · have hu := updU_nonneg m hv b hb ha ho
      exact mul_le_mul_of_nonneg_left (hVV _ (vdiv_nonneg _ _ _ hu (vsum_nonneg _ _ hu))) (vsum_nonneg _ _ hu)
  have := mul_le_mul_of_nonneg_left this hγ
  linarith

theorem maxTo_mono {n : Nat} {f g : Nat → Rat} (h : ∀ i, i ≤ n → f i ≤ g i) : maxTo n f ≤ maxTo n g := by
  obtain ⟨i, hi, e⟩ := maxTo_attained n f
  rw [e]; exact le_trans (h i hi) (maxTo_ge n g i hi)

/-- **backup_members_le_expectimax** (what the driver's clause (i) establishes for every belief, not only sampled ones):
    if a value function's list at each timestep consists of genuine one-step backups of the list before it (as sets of vectors),
    starting from a list whose envelope is ≤ 0-step value, then its envelope at step t is ≤ expectimax t at EVERY belief. -/
theorem backup_members_le_expectimax (m : Model) (hv : Valid m) (τ : Rat) (hsep : Sep m τ) (hγ : 0 ≤ m.γ)
    (L : Nat → List Vec) (hne : ∀ t, L t ≠ [])
    (h0 : ∀ b, NonNeg m.S b → env m.S (L 0) b ≤ 0)
    (hstep : ∀ t, ∀ α ∈ L (t+1), α ∈ backupAll m τ (L t)) :
    ∀ (t : Nat) (b : Vec), NonNeg m.S b → env m.S (L t) b ≤ expectimax m t b := by
  intro t
  induction t with
  | zero => intro b hb; simpa [expectimax] using h0 b hb
  | succ t ih =>
    intro b hb
    calc env m.S (L (t+1)) b ≤ env m.S (backupAll m τ (L t)) b := env_mono _ _ _ b (hne (t+1)) (hstep t)
      _ = maxTo (m.A - 1) (qOf m (env m.S (L t)) b) := env_backupAll m hv τ hsep hγ _ (hne t) b hb
      _ ≤ maxTo (m.A - 1) (qOf m (expectimax m t) b) := by
          apply maxTo_mono
          intro a ha
          exact qOf_mono m hv hγ _ _ ih b hb (by have := hv.hA; omega)
      _ = expectimax m (t+1) b := rfl


/-- **stepwise_exact**: ANY solver whose list at every timestep has the same envelope (over beliefs) as the full backup of its own
    previous list computes the expectimax value at every belief.  With `witness_points_exact` this reduces the correctness of
    Witness and LinearSupport to one statement about their search (“no belief is left where the full backup is better”), which
    is the part that is not modelled and only tested (and where LinearSupport's defect lives). -/
theorem stepwise_exact (m : Model) (hv : Valid m) (τ : Rat) (hsep : Sep m τ) (hγ : 0 ≤ m.γ)
    (L : Nat → List Vec) (hne : ∀ t, L t ≠ [])
    (h0 : ∀ b, NonNeg m.S b → env m.S (L 0) b = 0)
    (hstep : ∀ t b, NonNeg m.S b → env m.S (L (t+1)) b = env m.S (backupAll m τ (L t)) b) :
    ∀ (t : Nat) (b : Vec), NonNeg m.S b → env m.S (L t) b = expectimax m t b := by
  intro t
  induction t with
  | zero => intro b hb; simpa [expectimax] using h0 b hb
  | succ t ih =>
    intro b hb
    rw [hstep t b hb, env_backupAll m hv τ hsep hγ _ (hne t) b hb]
    simp only [expectimax]
    apply maxTo_congr
    intro a ha
    exact qOf_congr m hv _ _ ih b hb (by have := hv.hA; omega)


/-! ## soundness of the driver's clause (i) checker -/

theorem dot_congrN (n : Nat) (b v w : Vec) (h : vecEqN n v w = true) : dot n b v = dot n b w := by
  unfold dot
  apply sumTo_congr
  intro s hs
  unfold vecEqN allLt at h
  rw [List.all_eq_true] at h
  have := h s (List.mem_range.mpr hs)
  rw [decide_eq_true_eq] at this
  rw [this]

/-- a list all of whose vectors are entrywise members of Γ' has its envelope below Γ' 's -/
theorem env_le_of_memN (n : Nat) (Γ Γ' : List Vec) (b : Vec) (hne : Γ ≠ []) (h : Γ.all (fun α => memN n Γ' α) = true) :
    env n Γ b ≤ env n Γ' b := by
  obtain ⟨α, hα, e⟩ := env_attained n Γ b hne
  rw [e]
  rw [List.all_eq_true] at h
  have hm := h α hα
  unfold memN at hm
  rw [List.any_eq_true] at hm
  obtain ⟨w, hw, hEq⟩ := hm
  rw [← dot_congrN n b w α hEq]
  exact env_ge n Γ' b w hw

/-- **checkChain_sound**: if the Lean-evaluated checker accepts the chain of returned lists, the last list's envelope is ≤ the
    expectimax value at EVERY belief (all of the simplex, not the sampled points). -/
theorem checkChain_sound (m : Model) (hv : Valid m) (τ : Rat) (hsep : Sep m τ) (hγ : 0 ≤ m.γ) :
    ∀ (rest : List (List Vec)) (prev : List Vec) (t : Nat), prev ≠ [] →
      (∀ b, NonNeg m.S b → env m.S prev b ≤ expectimax m t b) →
      checkChain m τ prev rest = true →
      ∀ b, NonNeg m.S b → env m.S (lastOf prev rest) b ≤ expectimax m (t + rest.length) b := by
  intro rest
  induction rest with
  | nil => intro prev t _ hprev _ b hb; simpa [lastOf] using hprev b hb
  | cons cur rest ih =>
    intro prev t hne hprev hc b hb
    simp only [checkChain, Bool.and_eq_true] at hc
    obtain ⟨hstep, hrest⟩ := hc
    simp only [checkBackupStep, Bool.and_eq_true, Bool.not_eq_true', List.isEmpty_eq_false_iff] at hstep
    obtain ⟨hcne, hall⟩ := hstep
    have hcur : ∀ b, NonNeg m.S b → env m.S cur b ≤ expectimax m (t+1) b := by
      intro b hb
      calc env m.S cur b ≤ env m.S (backupAll m τ prev) b := env_le_of_memN _ _ _ b hcne hall
        _ = maxTo (m.A - 1) (qOf m (env m.S prev) b) := env_backupAll m hv τ hsep hγ _ hne b hb
        _ ≤ maxTo (m.A - 1) (qOf m (expectimax m t) b) := by
            apply maxTo_mono
            intro a ha
            exact qOf_mono m hv hγ _ _ hprev b hb (by have := hv.hA; omega)
        _ = expectimax m (t+1) b := rfl
    have := ih cur (t+1) hcne hcur hrest b hb
    simp only [lastOf, List.length_cons]
    have e : t + (rest.length + 1) = t + 1 + rest.length := by omega
    rw [e]; exact this

/-- from the zero vector (what `makeValueFunction` returns for timestep 0) -/
theorem checkChain_sound_from_zero (m : Model) (hv : Valid m) (τ : Rat) (hsep : Sep m τ) (hγ : 0 ≤ m.γ)
    (rest : List (List Vec)) (hc : checkChain m τ [vzero m.S] rest = true) (b : Vec) (hb : NonNeg m.S b) :
    env m.S (lastOf [vzero m.S] rest) b ≤ expectimax m rest.length b := by
  have := checkChain_sound m hv τ hsep hγ rest [vzero m.S] 0 (by simp)
    (by intro b _; simp [env, lmax, dot_vzero, expectimax]) hc b hb
  simpa using this

/-! ## Incremental Pruning's interleaving -/

/-- a pruner that keeps the upper envelope over non-negative points (what `Pruner` is required to do; C12's subject) -/
def EnvPreserving (n : Nat) (prune : List Vec → List Vec) : Prop :=
  ∀ l, l ≠ [] → prune l ≠ [] ∧ ∀ b, NonNeg n b → env n (prune l) b = env n l b

theorem ipActionTo_spec (n : Nat) (prune : List Vec → List Vec) (hp : EnvPreserving n prune) (k : Nat) (P : Nat → List Vec)
    (hP : ∀ o, o < k → P o ≠ []) :
    ipActionTo n prune k P ≠ [] ∧ ∀ b, NonNeg n b → env n (ipActionTo n prune k P) b = sumTo k (fun o => env n (P o) b) := by
  induction k with
  | zero =>
    refine ⟨by simp [ipActionTo], ?_⟩
    intro b _; simp [ipActionTo, sumTo, env, lmax, dot_vzero]
  | succ k ih =>
    obtain ⟨ne, e⟩ := ih (fun o ho => hP o (by omega))
    have hk := hp (P k) (hP k (by omega))
    have hc := crossSum_ne_nil n _ _ ne hk.1
    refine ⟨(hp _ hc).1, ?_⟩
    intro b hb
    simp only [ipActionTo, sumTo]
    rw [(hp _ hc).2 b hb, envelope_crossSum n _ _ b ne hk.1, e b hb, hk.2 b hb]

/-- one timestep with lists `G a` whose envelope is the sum over observations of the projected envelopes -/
theorem env_step_general (m : Model) (hv : Valid m) (τ : Rat) (hsep : Sep m τ) (hγ : 0 ≤ m.γ) (Γ : List Vec) (hΓ : Γ ≠ [])
    (G : Nat → List Vec) (hG : ∀ a, G a ≠ [])
    (b : Vec) (hb : NonNeg m.S b)
    (hGe : ∀ a, a < m.A → env m.S (G a) b = sumTo m.O (fun o => env m.S (projList m τ Γ a o) b)) :
    env m.S (unionTo m.A G) b = maxTo (m.A - 1) (qOf m (env m.S Γ) b) := by
  obtain ⟨k, hk⟩ : ∃ k, m.A = k + 1 := ⟨m.A - 1, by have := hv.hA; omega⟩
  rw [hk, env_unionTo m.S k _ b (fun a _ => hG a)]
  have : k + 1 - 1 = k := by omega
  rw [this]
  apply maxTo_congr
  intro a ha
  have haA : a < m.A := by omega
  rw [hGe a haA, qOf_eq]
  have : sumTo m.O (fun o => env m.S (projList m τ Γ a o) b)
      = sumTo m.O (fun o => expReward m b a / (m.O : Rat) + m.γ * obsTerm m (env m.S Γ) b a o) :=
    sumTo_congr (fun o ho => env_projList m hv τ hsep hγ Γ hΓ b hb haA ho)
  rw [this, sumTo_add, sumTo_mul_left, sumTo_const_div m.O hv.hO]

theorem ipStep_spec (m : Model) (hv : Valid m) (τ : Rat) (hsep : Sep m τ) (hγ : 0 ≤ m.γ)
    (prune : List Vec → List Vec) (hp : EnvPreserving m.S prune) (Γ : List Vec) (hΓ : Γ ≠ []) :
    ipStep m τ prune Γ ≠ [] ∧
    ∀ b, NonNeg m.S b → env m.S (ipStep m τ prune Γ) b = maxTo (m.A - 1) (qOf m (env m.S Γ) b) := by
  have hG : ∀ a, ipActionTo m.S prune m.O (projList m τ Γ a) ≠ [] :=
    fun a => (ipActionTo_spec m.S prune hp m.O _ (fun o _ => projList_ne_nil m τ Γ a o hΓ)).1
  have hU : unionTo m.A (fun a => ipActionTo m.S prune m.O (projList m τ Γ a)) ≠ [] := by
    obtain ⟨k, hk⟩ : ∃ k, m.A = k + 1 := ⟨m.A - 1, by have := hv.hA; omega⟩
    rw [hk]; exact unionTo_ne_nil k _ (hG k)
  refine ⟨(hp _ hU).1, ?_⟩
  intro b hb
  unfold ipStep
  rw [(hp _ hU).2 b hb]
  exact env_step_general m hv τ hsep hγ Γ hΓ _ hG b hb
    (fun a _ => (ipActionTo_spec m.S prune hp m.O _ (fun o _ => projList_ne_nil m τ Γ a o hΓ)).2 b hb)

/-- **incremental_pruning_exact**: with ANY envelope-preserving pruner, interleaving pruning with the cross-sums (prune every
    projected list, prune after every merge, prune the union over actions) yields at every horizon a list whose envelope is the
    expectimax value at every belief. -/
theorem incremental_pruning_exact (m : Model) (hv : Valid m) (τ : Rat) (hsep : Sep m τ) (hγ : 0 ≤ m.γ)
    (prune : List Vec → List Vec) (hp : EnvPreserving m.S prune) :
    ∀ (h : Nat), ipIter m τ prune h ≠ [] ∧ ∀ b, NonNeg m.S b → env m.S (ipIter m τ prune h) b = expectimax m h b := by
  intro h
  induction h with
  | zero =>
    refine ⟨by simp [ipIter], ?_⟩
    intro b _; simp [ipIter, expectimax, env, lmax, dot_vzero]
  | succ h ih =>
    obtain ⟨ne, e⟩ := ih
    have sp := ipStep_spec m hv τ hsep hγ prune hp _ ne
    refine ⟨sp.1, ?_⟩
    intro b hb
    simp only [ipIter, expectimax]
    rw [sp.2 b hb]
    apply maxTo_congr
    intro a ha
    exact qOf_congr m hv _ _ e b hb (by have := hv.hA; omega)

/-- the identity is envelope preserving, so the hypothesis of `incremental_pruning_exact` is satisfiable -/
example (n : Nat) : EnvPreserving n id := fun _ h => ⟨h, fun _ _ => rfl⟩



/-! ## Incremental Pruning's merge schedule AS WRITTEN -/

theorem range_map_sum (n : Nat) (g : Nat → Rat) : ((List.range n).map g).sum = sumTo n g := by
  induction n with
  | zero => rfl
  | succ n ih => rw [List.range_succ, List.map_append, List.sum_append, ih]; simp [sumTo]

/-- invariant of `ipRun` against `symRun`: every slot is non-empty and its envelope is the sum of the projected envelopes of the
    observation indices the symbolic run has collected in that slot -/
theorem ipRun_invariant (n : Nat) (prune : List Vec → List Vec) (hp : EnvPreserving n prune) (P : Nat → List Vec)
    (b : Vec) (hb : NonNeg n b) :
    ∀ (ms : List (Nat × Nat)) (sl : Nat → List Vec) (sy : Nat → List Nat),
      (∀ i, sl i ≠ [] ∧ env n (sl i) b = ((sy i).map (fun o => env n (P o) b)).sum) →
      ∀ i, ipRun n prune ms sl i ≠ [] ∧
           env n (ipRun n prune ms sl i) b = ((symRun ms sy i).map (fun o => env n (P o) b)).sum := by
  intro ms
  induction ms with
  | nil => intro sl sy h i; exact h i
  | cons hd ms ih =>
    intro sl sy h
    obtain ⟨d, s⟩ := hd
    simp only [ipRun, symRun]
    apply ih
    intro i
    unfold updSlot
    by_cases hi : i = d
    · simp only [hi, if_true]
      have hc := crossSum_ne_nil n _ _ (h d).1 (h s).1
      refine ⟨(hp _ hc).1, ?_⟩
      rw [(hp _ hc).2 b hb, envelope_crossSum n _ _ b (h d).1 (h s).1, (h d).2, (h s).2, List.map_append, List.sum_append]
    · simp only [hi, if_false]
      exact h i

/-- **ipActionW_spec** (soundness of the decidable `scheduleOK`): whenever the as-written schedule for `O` observations gathers
    every observation exactly once, the as-written per-action merge has the envelope Σ_o env(P o) at every belief. -/
theorem ipActionW_spec (n : Nat) (prune : List Vec → List Vec) (hp : EnvPreserving n prune) (O : Nat) (hO : scheduleOK O = true)
    (P : Nat → List Vec) (hP : ∀ o, P o ≠ []) :
    ipActionW n prune O P ≠ [] ∧ ∀ b, NonNeg n b → env n (ipActionW n prune O P) b = sumTo O (fun o => env n (P o) b) := by
  have hinit : ∀ b, NonNeg n b → ∀ i, (fun o => prune (P o)) i ≠ [] ∧
      env n ((fun o => prune (P o)) i) b = (((fun o => [o]) i).map (fun o => env n (P o) b)).sum := by
    intro b hb i
    refine ⟨(hp _ (hP i)).1, ?_⟩
    simp [(hp _ (hP i)).2 b hb]
  constructor
  · -- non-emptiness does not depend on b: use the zero vector as a point
    have hz : NonNeg n (vzero n) := by
      intro s hs; unfold vzero; rw [mkVec_get _ hs]
    exact (ipRun_invariant n prune hp P (vzero n) hz (ipSchedule O).1 _ _ (hinit _ hz) (ipSchedule O).2).1
  · intro b hb
    have := (ipRun_invariant n prune hp P b hb (ipSchedule O).1 _ _ (hinit b hb) (ipSchedule O).2).2
    unfold ipActionW
    rw [this]
    unfold scheduleOK at hO
    rw [List.isPerm_iff] at hO
    rw [(hO.map _).sum_eq, range_map_sum]

theorem ipStepW_spec (m : Model) (hv : Valid m) (τ : Rat) (hsep : Sep m τ) (hγ : 0 ≤ m.γ) (hO : scheduleOK m.O = true)
    (prune : List Vec → List Vec) (hp : EnvPreserving m.S prune) (Γ : List Vec) (hΓ : Γ ≠ []) :
    ipStepW m τ prune Γ ≠ [] ∧
    ∀ b, NonNeg m.S b → env m.S (ipStepW m τ prune Γ) b = maxTo (m.A - 1) (qOf m (env m.S Γ) b) := by
  have hG : ∀ a, ipActionW m.S prune m.O (projList m τ Γ a) ≠ [] :=
    fun a => (ipActionW_spec m.S prune hp m.O hO _ (fun o => projList_ne_nil m τ Γ a o hΓ)).1
  have hU : unionTo m.A (fun a => ipActionW m.S prune m.O (projList m τ Γ a)) ≠ [] := by
    obtain ⟨k, hk⟩ : ∃ k, m.A = k + 1 := ⟨m.A - 1, by have := hv.hA; omega⟩
    rw [hk]; exact unionTo_ne_nil k _ (hG k)
  refine ⟨(hp _ hU).1, ?_⟩
  intro b hb
  unfold ipStepW
  rw [(hp _ hU).2 b hb]
  exact env_step_general m hv τ hsep hγ Γ hΓ _ hG b hb
    (fun a _ => (ipActionW_spec m.S prune hp m.O hO _ (fun o => projList_ne_nil m τ Γ a o hΓ)).2 b hb)

/-- **incremental_pruning_as_written_exact**: `IncrementalPruning::operator()` with its merge schedule as written (index arithmetic
    replayed by `ipSchedule`), any envelope-preserving pruner, and a number of observations for which the decidable `scheduleOK`
    holds (evaluated by the driver for every instance; `scheduleOK_upto` checks 1..64), yields the expectimax value at every belief
    and every horizon.  (FULL STATEMENT still open: `∀ O ≥ 1, scheduleOK O = true`, the loop-invariant of the index arithmetic.) -/
theorem incremental_pruning_as_written_exact (m : Model) (hv : Valid m) (τ : Rat) (hsep : Sep m τ) (hγ : 0 ≤ m.γ)
    (hO : scheduleOK m.O = true) (prune : List Vec → List Vec) (hp : EnvPreserving m.S prune) :
    ∀ (h : Nat), ipIterW m τ prune h ≠ [] ∧ ∀ b, NonNeg m.S b → env m.S (ipIterW m τ prune h) b = expectimax m h b := by
  intro h
  induction h with
  | zero =>
    refine ⟨by simp [ipIterW], ?_⟩
    intro b _; simp [ipIterW, expectimax, env, lmax, dot_vzero]
  | succ h ih =>
    obtain ⟨ne, e⟩ := ih
    have sp := ipStepW_spec m hv τ hsep hγ hO prune hp _ ne
    refine ⟨sp.1, ?_⟩
    intro b hb
    simp only [ipIterW, expectimax]
    rw [sp.2 b hb]
    apply maxTo_congr
    intro a ha
    exact qOf_congr m hv _ _ e b hb (by have := hv.hA; omega)

/-- test on literals (kernel evaluation): the as-written schedule is a correct full merge for every O from 1 to 64 -/
theorem scheduleOK_upto : (List.range 64).all (fun k => scheduleOK (k+1)) = true := by decide +kernel

/-! ## RTBSS -/

/-- `maxR` bounds every reward (the constructor's documented meaning: "the max reward obtainable in the model") -/
def RBound (m : Model) (maxR : Rat) : Prop := ∀ s a, s < m.S → a < m.A → m.R s a ≤ maxR

theorem sumTo_comm (n k : Nat) (f : Nat → Nat → Rat) :
    sumTo n (fun i => sumTo k (fun j => f i j)) = sumTo k (fun j => sumTo n (fun i => f i j)) := by
  simp only [sumTo_eq]; exact Finset.sum_comm

theorem sumTo_mul_right (n : Nat) (c : Rat) (f : Nat → Rat) : sumTo n (fun i => f i * c) = sumTo n f * c := by
  rw [mul_comm, ← sumTo_mul_left]; apply sumTo_congr; intro i _; ring

theorem expReward_le (m : Model) (maxR : Rat) (hR : RBound m maxR) (b : Vec) (hb : Simplex m.S b) {a : Nat} (ha : a < m.A) :
    expReward m b a ≤ maxR := by
  unfold expReward
  have : sumTo m.S (fun s => m.R s a * b.get s) ≤ sumTo m.S (fun s => maxR * b.get s) :=
    sumTo_le (fun s hs => mul_le_mul_of_nonneg_right (hR s a hs ha) (hb.1 s hs))
  rw [sumTo_mul_left, hb.2, mul_one] at this
  exact this

/-- observation probabilities after (b, a) add up to the mass of b -/
theorem obs_prob_sum (m : Model) (hv : Valid m) (b : Vec) {a : Nat} (ha : a < m.A) :
    sumTo m.O (fun o => vsum m.S (updU m b a o)) = sumTo m.S b.get := by
  have e1 : sumTo m.O (fun o => vsum m.S (updU m b a o))
      = sumTo m.O (fun o => sumTo m.S (fun s1 => m.Ob s1 a o * sumTo m.S (fun s => b.get s * m.T s a s1))) := by
    apply sumTo_congr; intro o _; unfold vsum
    apply sumTo_congr; intro s1 h1; exact updU_get m b a o h1
  rw [e1, sumTo_comm]
  have e2 : sumTo m.S (fun s1 => sumTo m.O (fun o => m.Ob s1 a o * sumTo m.S (fun s => b.get s * m.T s a s1)))
      = sumTo m.S (fun s1 => sumTo m.S (fun s => b.get s * m.T s a s1)) := by
    apply sumTo_congr; intro s1 h1
    rw [sumTo_mul_right, hv.O1 s1 a h1 ha, one_mul]
  rw [e2, sumTo_comm]
  apply sumTo_congr; intro s hs
  rw [sumTo_mul_left, hv.T1 s a hs ha, mul_one]

theorem vdiv_simplex (n : Nat) (u : Vec) (hu : NonNeg n u) (hp : vsum n u ≠ 0) : Simplex n (vdiv n u (vsum n u)) := by
  refine ⟨vdiv_nonneg n u _ hu (vsum_nonneg n u hu), ?_⟩
  have : sumTo n (vdiv n u (vsum n u)).get = sumTo n (fun s => u.get s / vsum n u) := by
    apply sumTo_congr; intro s hs; unfold vdiv; rw [mkVec_get _ hs]
  rw [this, sumTo_div]
  exact div_self hp

theorem absR_nonneg_eq (x : Rat) (h : 0 ≤ x) : absR x = x := by
  unfold absR; split
  · linarith
  · rfl

theorem qOfT_eq (m : Model) (τ : Rat) (V : Vec → Rat) (b : Vec) (a : Nat) :
    qOfT m τ V b a = expReward m b a + rtFuture m τ V b a := rfl

theorem rtFuture_congr (m : Model) (hv : Valid m) (τ : Rat) (hτ : 0 ≤ τ) (V V' : Vec → Rat)
    (hVV : ∀ b', Simplex m.S b' → V b' = V' b') (b : Vec) (hb : NonNeg m.S b) {a : Nat} (ha : a < m.A) :
    rtFuture m τ V b a = rtFuture m τ V' b a := by
  unfold rtFuture
  apply sumTo_congr; intro o ho
  have hu := updU_nonneg m hv b hb ha ho
  simp only []
  split
  · rfl
  · rename_i hne
    have hp : vsum m.S (updU m b a o) ≠ 0 := by
      intro h0; apply hne; rw [h0]; simpa [absR] using hτ
    rw [hVV _ (vdiv_simplex _ _ hu hp)]

/-- the discounted future collected below (b, a) is at most `γ·B` when the continuation is at most `B ≥ 0` on beliefs -/
theorem rtFuture_le (m : Model) (hv : Valid m) (τ : Rat) (hτ : 0 ≤ τ) (hγ : 0 ≤ m.γ) (V : Vec → Rat) (B : Rat) (hB : 0 ≤ B)
    (hV : ∀ b', Simplex m.S b' → V b' ≤ B) (b : Vec) (hb : Simplex m.S b) {a : Nat} (ha : a < m.A) :
    rtFuture m τ V b a ≤ m.γ * B := by
  have hterm : sumTo m.O (fun o =>
        if absR (vsum m.S (updU m b a o)) ≤ τ then 0
        else m.γ * vsum m.S (updU m b a o) * V (vdiv m.S (updU m b a o) (vsum m.S (updU m b a o))))
      ≤ sumTo m.O (fun o => m.γ * B * vsum m.S (updU m b a o)) := by
    apply sumTo_le; intro o ho
    have hu := updU_nonneg m hv b hb.1 ha ho
    have hp0 := vsum_nonneg _ _ hu
    split
    · exact mul_nonneg (mul_nonneg hγ hB) hp0
    · rename_i hne
      have hp : vsum m.S (updU m b a o) ≠ 0 := by
        intro h0; apply hne; rw [h0]; simpa [absR] using hτ
      have := hV _ (vdiv_simplex _ _ hu hp)
      have h2 : 0 ≤ m.γ * vsum m.S (updU m b a o) := mul_nonneg hγ hp0
      calc m.γ * vsum m.S (updU m b a o) * V _ ≤ m.γ * vsum m.S (updU m b a o) * B := mul_le_mul_of_nonneg_left this h2
        _ = m.γ * B * vsum m.S (updU m b a o) := by ring
  have : rtFuture m τ V b a ≤ sumTo m.O (fun o => m.γ * B * vsum m.S (updU m b a o)) := hterm
  rw [sumTo_mul_left, obs_prob_sum m hv b ha, hb.2, mul_one] at this
  exact this

/-- the truncated expectimax never exceeds `h · maxR` when `0 ≤ maxR`, `0 ≤ γ ≤ 1` -/
theorem expectimaxT_le (m : Model) (hv : Valid m) (τ : Rat) (hτ : 0 ≤ τ) (hγ0 : 0 ≤ m.γ) (hγ1 : m.γ ≤ 1)
    (maxR : Rat) (hM : 0 ≤ maxR) (hR : RBound m maxR) :
    ∀ (h : Nat) (b : Vec), Simplex m.S b → expectimaxT m τ h b ≤ (h : Rat) * maxR := by
  intro h
  induction h with
  | zero => intro b _; simp [expectimaxT]
  | succ h ih =>
    intro b hb
    simp only [expectimaxT]
    obtain ⟨a, ha, e⟩ := maxTo_attained (m.A - 1) (qOfT m τ (expectimaxT m τ h) b)
    have haA : a < m.A := by have := hv.hA; omega
    rw [e, qOfT_eq]
    have hB : 0 ≤ (h : Rat) * maxR := mul_nonneg (Nat.cast_nonneg h) hM
    have h1 := expReward_le m maxR hR b hb haA
    have h2 := rtFuture_le m hv τ hτ hγ0 _ _ hB ih b hb haA
    have h3 : m.γ * ((h : Rat) * maxR) ≤ 1 * ((h : Rat) * maxR) := mul_le_mul_of_nonneg_right hγ1 hB
    push_cast; linarith

/-- the `for` loop of `simulate`: provided the pruning bound is non-negative and really bounds the future term of every action,
    after actions 0..n the loop holds the maximum of the action values and the FIRST action attaining it -/
theorem rtLoop_spec (m : Model) (τ maxR : Rat) (V : Vec → Rat) (hprev : Nat) (b : Vec)
    (hU0 : 0 ≤ rtUpper m maxR hprev) :
    ∀ n, (∀ a, a ≤ n → rtFuture m τ V b a ≤ rtUpper m maxR hprev) →
      rtLoop m τ maxR V hprev b (n+1) = ⟨some (maxTo n (qOfT m τ V b)), argmaxTo n (qOfT m τ V b)⟩ := by
  intro n
  induction n with
  | zero =>
    intro _
    simp [rtLoop, rtStep, gtOpt, maxTo, argmaxTo, qOfT_eq]
  | succ n ih =>
    intro hU
    have ihn := ih (fun a ha => hU a (by omega))
    have hfut := hU (n+1) (le_refl _)
    show rtStep m τ maxR V hprev b (rtLoop m τ maxR V hprev b (n+1)) (n+1) = _
    rw [ihn]
    have hq : qOfT m τ V b (n+1) = expReward m b (n+1) + rtFuture m τ V b (n+1) := rfl
    have hmx := AITB.MDP.maxTo_eq_argmax n (qOfT m τ V b)
    by_cases h1 : maxTo n (qOfT m τ V b) < expReward m b (n+1) + rtUpper m maxR hprev
    · by_cases h2 : maxTo n (qOfT m τ V b) < qOfT m τ V b (n+1)
      · have h2' : qOfT m τ V b (argmaxTo n (qOfT m τ V b)) < qOfT m τ V b (n+1) := by rw [← hmx]; exact h2
        simp only [rtStep, gtOpt, h1, decide_true, if_true, ← hq, h2, maxTo, argmaxTo, h2']
      · have h2' : ¬ qOfT m τ V b (argmaxTo n (qOfT m τ V b)) < qOfT m τ V b (n+1) := by rw [← hmx]; exact h2
        simp only [rtStep, gtOpt, h1, decide_true, if_true, ← hq, h2, decide_false, maxTo, argmaxTo, h2']
        simp
    · have hle : expReward m b (n+1) + rtUpper m maxR hprev ≤ maxTo n (qOfT m τ V b) := not_lt.mp h1
      have h3 : ¬ maxTo n (qOfT m τ V b) < expReward m b (n+1) := by
        intro h; linarith
      have h2 : ¬ maxTo n (qOfT m τ V b) < qOfT m τ V b (n+1) := by
        rw [hq]; intro h; linarith
      have h2' : ¬ qOfT m τ V b (argmaxTo n (qOfT m τ V b)) < qOfT m τ V b (n+1) := by rw [← hmx]; exact h2
      simp only [rtStep, gtOpt, h1, decide_false, maxTo, argmaxTo, h2, h2']
      simp
      intro h; exact absurd h h3


theorem rtUpper_nonneg (m : Model) (hγ0 : 0 ≤ m.γ) (maxR : Rat) (hM : 0 ≤ maxR) (h : Nat) : 0 ≤ rtUpper m maxR h :=
  mul_nonneg (mul_nonneg hγ0 hM) (Nat.cast_nonneg h)

/-- `simulate` returns the (τ-truncated) expectimax value at every belief — under `0 ≤ maxR` -/
theorem rtSim_eq_expectimaxT (m : Model) (hv : Valid m) (τ : Rat) (hτ : 0 ≤ τ) (hγ0 : 0 ≤ m.γ) (hγ1 : m.γ ≤ 1)
    (maxR : Rat) (hM : 0 ≤ maxR) (hR : RBound m maxR) :
    ∀ (h : Nat) (b : Vec), Simplex m.S b → rtSim m τ maxR h b = expectimaxT m τ h b := by
  intro h
  induction h with
  | zero => intro b _; rfl
  | succ h ih =>
    intro b hb
    obtain ⟨k, hk⟩ : ∃ k, m.A = k + 1 := ⟨m.A - 1, by have := hv.hA; omega⟩
    have hB : 0 ≤ (h : Rat) * maxR := mul_nonneg (Nat.cast_nonneg h) hM
    have hfut : ∀ a, a ≤ k → rtFuture m τ (rtSim m τ maxR h) b a ≤ rtUpper m maxR h := by
      intro a ha
      have haA : a < m.A := by omega
      rw [rtFuture_congr m hv τ hτ _ _ ih b hb.1 haA]
      have := rtFuture_le m hv τ hτ hγ0 _ _ hB (expectimaxT_le m hv τ hτ hγ0 hγ1 maxR hM hR h) b hb haA
      unfold rtUpper; linarith
    have sp := rtLoop_spec m τ maxR (rtSim m τ maxR h) h b (rtUpper_nonneg m hγ0 maxR hM h) k hfut
    simp only [rtSim, expectimaxT]
    rw [hk, sp]
    simp only [Option.getD_some]
    have : k + 1 - 1 = k := by omega
    rw [this]
    apply maxTo_congr
    intro a ha
    rw [qOfT_eq, qOfT_eq, rtFuture_congr m hv τ hτ _ _ ih b hb.1 (by omega)]

/-- FULL STATEMENT (refuted, see `rtbss_negative_maxR_counterexample`):
      ∀ m maxR h b, Valid m → RBound m maxR → Simplex b →
        (rtSample m τ maxR (h+1) b).2 = expectimaxT m τ (h+1) b ∧ the returned action attains it.
    **rtbss_eq_expectimax_partial** — proved with the extra hypothesis `0 ≤ maxR` that the proof forced
    (`discount·maxR·horizon` bounds the discounted tail only then, and a pruned action's immediate reward can exceed the
    running maximum only when the bound is negative): `sampleAction` returns the expectimax value, and the returned action is the
    FIRST action whose one-step lookahead attains it. -/
theorem rtbss_eq_expectimax_partial (m : Model) (hv : Valid m) (τ : Rat) (hτ : 0 ≤ τ) (hγ0 : 0 ≤ m.γ) (hγ1 : m.γ ≤ 1)
    (maxR : Rat) (hM : 0 ≤ maxR) (hR : RBound m maxR) (h : Nat) (b : Vec) (hb : Simplex m.S b) :
    (rtSample m τ maxR (h+1) b).2 = expectimaxT m τ (h+1) b ∧
    (rtSample m τ maxR (h+1) b).1 < m.A ∧
    qOfT m τ (expectimaxT m τ h) b (rtSample m τ maxR (h+1) b).1 = expectimaxT m τ (h+1) b ∧
    (∀ a, a < (rtSample m τ maxR (h+1) b).1 → qOfT m τ (expectimaxT m τ h) b a < expectimaxT m τ (h+1) b) := by
  obtain ⟨k, hk⟩ : ∃ k, m.A = k + 1 := ⟨m.A - 1, by have := hv.hA; omega⟩
  have ih := rtSim_eq_expectimaxT m hv τ hτ hγ0 hγ1 maxR hM hR h
  have hB : 0 ≤ (h : Rat) * maxR := mul_nonneg (Nat.cast_nonneg h) hM
  have hfut : ∀ a, a ≤ k → rtFuture m τ (rtSim m τ maxR h) b a ≤ rtUpper m maxR h := by
    intro a ha
    have haA : a < m.A := by omega
    rw [rtFuture_congr m hv τ hτ _ _ ih b hb.1 haA]
    have := rtFuture_le m hv τ hτ hγ0 _ _ hB (expectimaxT_le m hv τ hτ hγ0 hγ1 maxR hM hR h) b hb haA
    unfold rtUpper; linarith
  have sp := rtLoop_spec m τ maxR (rtSim m τ maxR h) h b (rtUpper_nonneg m hγ0 maxR hM h) k hfut
  have hcongr : ∀ a, a ≤ k → qOfT m τ (rtSim m τ maxR h) b a = qOfT m τ (expectimaxT m τ h) b a := by
    intro a ha
    rw [qOfT_eq, qOfT_eq, rtFuture_congr m hv τ hτ _ _ ih b hb.1 (by omega)]
  have hk1 : m.A - 1 = k := by omega
  have e1 : (rtSample m τ maxR (h+1) b) = (argmaxTo k (qOfT m τ (expectimaxT m τ h) b), maxTo k (qOfT m τ (expectimaxT m τ h) b)) := by
    simp only [rtSample]
    rw [hk, sp]
    simp only [Option.getD_some]
    rw [AITB.MDP.argmaxTo_congr hcongr, maxTo_congr hcongr]
  rw [e1]
  simp only [expectimaxT, hk1]
  refine ⟨trivial, ?_, ?_, ?_⟩
  · have := AITB.MDP.argmaxTo_le k (qOfT m τ (expectimaxT m τ h) b); omega
  · exact (AITB.MDP.maxTo_eq_argmax k _).symm
  · intro a ha
    rw [AITB.MDP.maxTo_eq_argmax k]
    exact AITB.MDP.argmaxTo_first k _ a ha

/-- with threshold 0 the truncated recursion is the property's definition -/
theorem expectimaxT_zero (m : Model) (hv : Valid m) :
    ∀ (h : Nat) (b : Vec), NonNeg m.S b → expectimaxT m 0 h b = expectimax m h b := by
  intro h
  induction h with
  | zero => intro b _; rfl
  | succ h ih =>
    intro b hb
    simp only [expectimaxT, expectimax]
    apply maxTo_congr
    intro a ha
    have haA : a < m.A := by have := hv.hA; omega
    rw [qOf_eq, qOfT]
    congr 1
    rw [← sumTo_mul_left]
    apply sumTo_congr; intro o ho
    have hu := updU_nonneg m hv b hb haA ho
    have hp0 := vsum_nonneg _ _ hu
    unfold obsTerm
    simp only []
    rw [absR_nonneg_eq _ hp0]
    by_cases hp : vsum m.S (updU m b a o) = 0
    · rw [if_pos hp, if_pos (le_of_eq hp)]; ring
    · have : ¬ vsum m.S (updU m b a o) ≤ 0 := fun hle => hp (le_antisymm hle hp0)
      rw [if_neg hp, if_neg this, ih _ (vdiv_nonneg _ _ _ hu hp0)]; ring

/-- corollary at threshold 0: the property's RTBSS clause, for every POMDP, horizon ≥ 1 and belief, when `0 ≤ maxR` -/
theorem rtbss_eq_expectimax_tau0 (m : Model) (hv : Valid m) (hγ0 : 0 ≤ m.γ) (hγ1 : m.γ ≤ 1)
    (maxR : Rat) (hM : 0 ≤ maxR) (hR : RBound m maxR) (h : Nat) (b : Vec) (hb : Simplex m.S b) :
    (rtSample m 0 maxR (h+1) b).2 = expectimax m (h+1) b ∧
    qOf m (expectimax m h) b (rtSample m 0 maxR (h+1) b).1 = expectimax m (h+1) b := by
  obtain ⟨h1, h2, h3, _⟩ := rtbss_eq_expectimax_partial m hv 0 (le_refl _) hγ0 hγ1 maxR hM hR h b hb
  rw [expectimaxT_zero m hv (h+1) b hb.1] at h1 h3
  refine ⟨h1, ?_⟩
  rw [← h3]
  -- qOf over expectimax = qOfT 0 over expectimaxT 0
  have := expectimaxT_zero m hv (h+1) b hb.1
  have hq : ∀ a, a < m.A → qOfT m 0 (expectimaxT m 0 h) b a = qOf m (expectimax m h) b a := by
    intro a haA
    rw [qOf_eq, qOfT]
    congr 1
    rw [← sumTo_mul_left]
    apply sumTo_congr; intro o ho
    have hu := updU_nonneg m hv b hb.1 haA ho
    have hp0 := vsum_nonneg _ _ hu
    unfold obsTerm
    simp only []
    rw [absR_nonneg_eq _ hp0]
    by_cases hp : vsum m.S (updU m b a o) = 0
    · rw [if_pos hp, if_pos (le_of_eq hp)]; ring
    · have : ¬ vsum m.S (updU m b a o) ≤ 0 := fun hle => hp (le_antisymm hle hp0)
      rw [if_neg hp, if_neg this, expectimaxT_zero m hv h _ (vdiv_nonneg _ _ _ hu hp0)]; ring
  exact (hq _ h2).symm

/-! ### the excluded region is really wrong: `maxR < 0` (DESIGN §12 #18) -/

/-- one state, one observation, two actions with rewards −1 and −3/2, γ = 1/2 -/
def cxNeg : Model :=
  { S := 1, A := 2, O := 1, T := fun _ _ _ => 1, R := fun _ a => if a = 0 then -1 else -3/2, Ob := fun _ _ _ => 1, γ := 1/2 }

/-- **counterexample to the full statement**: with `maxR = −1` (exactly the largest reward, as the header documents) and horizon 3,
    RTBSS as written returns (action 1, −3/2) while the optimal value is −7/4, attained by action 0 only.
    Action 1 is pruned (`−3/2 + γ·maxR·2 = −5/2 ≤ −7/4`) and then its *immediate* reward −3/2 beats the running maximum.
    (Evaluated by kernel reduction — a test on literals, not a general theorem.) -/
theorem rtbss_negative_maxR_counterexample :
    RBound cxNeg (-1) ∧ (rtSample cxNeg 0 (-1) 3 #[1]) = (1, -3/2) ∧ expectimax cxNeg 3 #[1] = -7/4 ∧
    qOf cxNeg (expectimax cxNeg 2) #[1] 1 = -9/4 := by
  refine ⟨?_, by decide +kernel, by decide +kernel, by decide +kernel⟩
  intro s a _ _
  simp only [cxNeg]
  split <;> norm_num




/-! ## RTBSS for either form of the two source sites (flags regenerated from the source by `tools/extract_c02.py`) -/

/-- `rtSampleC ⟨false,false⟩` is the as-shipped model -/
theorem rtStepC_shipped (m : Model) (τ maxR : Rat) (V : Vec → Rat) (hprev : Nat) (b : Vec) (acc : RtAcc) (a : Nat) :
    rtStepC ⟨false, false⟩ m τ maxR V hprev b acc a = rtStep m τ maxR V hprev b acc a := by
  simp [rtStepC, rtStep, rtUpperC]

theorem rtLoopC_shipped (m : Model) (τ maxR : Rat) (V : Vec → Rat) (hprev : Nat) (b : Vec) (n : Nat) :
    rtLoopC ⟨false, false⟩ m τ maxR V hprev b n = rtLoop m τ maxR V hprev b n := by
  induction n with
  | zero => rfl
  | succ n ih => simp only [rtLoopC, rtLoop, ih, rtStepC_shipped]

theorem rtSimC_shipped (m : Model) (τ maxR : Rat) (h : Nat) : rtSimC ⟨false, false⟩ m τ maxR h = rtSim m τ maxR h := by
  induction h with
  | zero => rfl
  | succ h ih => funext b; simp only [rtSimC, rtSim, ih, rtLoopC_shipped]

theorem rtSampleC_shipped (m : Model) (τ maxR : Rat) (h : Nat) (b : Vec) :
    rtSampleC ⟨false, false⟩ m τ maxR h b = rtSample m τ maxR h b := by
  cases h with
  | zero => rfl
  | succ h => simp only [rtSampleC, rtSample, rtSimC_shipped, rtLoopC_shipped]

/-- the tightest bound on an h-step return when every reward is ≤ maxR: Σ_{t<h} γ^t·maxR -/
def rtB (m : Model) (maxR : Rat) : Nat → Rat
  | 0 => 0
  | h+1 => maxR + m.γ * rtB m maxR h

theorem rtB_nonneg (m : Model) (hγ0 : 0 ≤ m.γ) (maxR : Rat) (hM : 0 ≤ maxR) : ∀ h, 0 ≤ rtB m maxR h
  | 0 => le_refl _
  | h+1 => by simp only [rtB]; have := rtB_nonneg m hγ0 maxR hM h; positivity

theorem rtB_le_linear (m : Model) (hγ0 : 0 ≤ m.γ) (hγ1 : m.γ ≤ 1) (maxR : Rat) (hM : 0 ≤ maxR) :
    ∀ h : Nat, rtB m maxR h ≤ (h : Rat) * maxR
  | 0 => by simp [rtB]
  | h+1 => by
    simp only [rtB]
    have ih := rtB_le_linear m hγ0 hγ1 maxR hM h
    have h0 := rtB_nonneg m hγ0 maxR hM h
    have : m.γ * rtB m maxR h ≤ 1 * rtB m maxR h := mul_le_mul_of_nonneg_right hγ1 h0
    push_cast; linarith

theorem rtB_succ' (m : Model) (maxR : Rat) : ∀ h : Nat, rtB m maxR (h+1) = rtB m maxR h + m.γ ^ h * maxR
  | 0 => by simp [rtB]
  | h+1 => by
    have ih := rtB_succ' m maxR h
    have e : rtB m maxR (h+1+1) = maxR + m.γ * rtB m maxR (h+1) := rfl
    have e2 : rtB m maxR (h+1) = maxR + m.γ * rtB m maxR h := rfl
    have key : rtB m maxR h + m.γ ^ h * maxR = maxR + m.γ * rtB m maxR h := by rw [← ih]; exact e2
    rw [e, ih, pow_succ]
    have : m.γ * (rtB m maxR h + m.γ ^ h * maxR) = m.γ * rtB m maxR h + m.γ ^ h * m.γ * maxR := by ring
    rw [this]; linarith

/-- the repaired `upperBound` loop computes γ·rtB h (and d = γ^h) -/
theorem rtGeoLoop_eq (m : Model) (maxR : Rat) : ∀ h : Nat, rtGeoLoop m.γ maxR h = (m.γ * rtB m maxR h, m.γ ^ h)
  | 0 => by simp [rtGeoLoop, rtB]
  | h+1 => by
    simp only [rtGeoLoop, rtGeoLoop_eq m maxR h]
    rw [rtB_succ', pow_succ]
    congr 1; ring

/-- generalisation of `rtFuture_le`: a negative bound is allowed when nothing is skipped (τ = 0) -/
theorem rtFuture_le' (m : Model) (hv : Valid m) (τ : Rat) (hτ : 0 ≤ τ) (hγ : 0 ≤ m.γ) (V : Vec → Rat) (B : Rat)
    (hB : 0 ≤ B ∨ τ = 0)
    (hV : ∀ b', Simplex m.S b' → V b' ≤ B) (b : Vec) (hb : Simplex m.S b) {a : Nat} (ha : a < m.A) :
    rtFuture m τ V b a ≤ m.γ * B := by
  have hterm : sumTo m.O (fun o =>
        if absR (vsum m.S (updU m b a o)) ≤ τ then 0
        else m.γ * vsum m.S (updU m b a o) * V (vdiv m.S (updU m b a o) (vsum m.S (updU m b a o))))
      ≤ sumTo m.O (fun o => m.γ * B * vsum m.S (updU m b a o)) := by
    apply sumTo_le; intro o ho
    have hu := updU_nonneg m hv b hb.1 ha ho
    have hp0 := vsum_nonneg _ _ hu
    split
    · rename_i hskip
      rcases hB with hB | hτ0
      · exact mul_nonneg (mul_nonneg hγ hB) hp0
      · rw [absR_nonneg_eq _ hp0, hτ0] at hskip
        have : vsum m.S (updU m b a o) = 0 := le_antisymm hskip hp0
        rw [this]; simp
    · rename_i hne
      have hp : vsum m.S (updU m b a o) ≠ 0 := by
        intro h0; apply hne; rw [h0]; simpa [absR] using hτ
      have := hV _ (vdiv_simplex _ _ hu hp)
      have h2 : 0 ≤ m.γ * vsum m.S (updU m b a o) := mul_nonneg hγ hp0
      calc m.γ * vsum m.S (updU m b a o) * V _ ≤ m.γ * vsum m.S (updU m b a o) * B := mul_le_mul_of_nonneg_left this h2
        _ = m.γ * B * vsum m.S (updU m b a o) := by ring
  have : rtFuture m τ V b a ≤ sumTo m.O (fun o => m.γ * B * vsum m.S (updU m b a o)) := hterm
  rw [sumTo_mul_left, obs_prob_sum m hv b ha, hb.2, mul_one] at this
  exact this

/-- the (truncated) expectimax value never exceeds Σ_{t<h} γ^t·maxR — for any sign of maxR when τ = 0 -/
theorem expectimaxT_le_rtB (m : Model) (hv : Valid m) (τ : Rat) (hτ : 0 ≤ τ) (hγ0 : 0 ≤ m.γ)
    (maxR : Rat) (hsign : 0 ≤ maxR ∨ τ = 0) (hR : RBound m maxR) :
    ∀ (h : Nat) (b : Vec), Simplex m.S b → expectimaxT m τ h b ≤ rtB m maxR h := by
  intro h
  induction h with
  | zero => intro b _; simp [expectimaxT, rtB]
  | succ h ih =>
    intro b hb
    simp only [expectimaxT, rtB]
    obtain ⟨a, ha, e⟩ := maxTo_attained (m.A - 1) (qOfT m τ (expectimaxT m τ h) b)
    have haA : a < m.A := by have := hv.hA; omega
    rw [e, qOfT_eq]
    have hB : 0 ≤ rtB m maxR h ∨ τ = 0 := by
      rcases hsign with h0 | h0
      · exact Or.inl (rtB_nonneg m hγ0 maxR h0 h)
      · exact Or.inr h0
    have h1 := expReward_le m maxR hR b hb haA
    have h2 := rtFuture_le' m hv τ hτ hγ0 _ _ hB ih b hb haA
    linarith

/-- the `for` loop for either placement of the `rew > max` test -/
theorem rtLoopC_spec (cfg : RtCfg) (m : Model) (τ maxR : Rat) (V : Vec → Rat) (hprev : Nat) (b : Vec)
    (hU0 : cfg.inside = false → 0 ≤ rtUpperC cfg m maxR hprev) :
    ∀ n, (∀ a, a ≤ n → rtFuture m τ V b a ≤ rtUpperC cfg m maxR hprev) →
      rtLoopC cfg m τ maxR V hprev b (n+1) = ⟨some (maxTo n (qOfT m τ V b)), argmaxTo n (qOfT m τ V b)⟩ := by
  intro n
  induction n with
  | zero =>
    intro _
    cases hi : cfg.inside <;> simp [rtLoopC, rtStepC, hi, gtOpt, maxTo, argmaxTo, qOfT_eq]
  | succ n ih =>
    intro hU
    have ihn := ih (fun a ha => hU a (by omega))
    have hfut := hU (n+1) (le_refl _)
    show rtStepC cfg m τ maxR V hprev b (rtLoopC cfg m τ maxR V hprev b (n+1)) (n+1) = _
    rw [ihn]
    have hq : qOfT m τ V b (n+1) = expReward m b (n+1) + rtFuture m τ V b (n+1) := rfl
    have hmx := AITB.MDP.maxTo_eq_argmax n (qOfT m τ V b)
    by_cases h1 : maxTo n (qOfT m τ V b) < expReward m b (n+1) + rtUpperC cfg m maxR hprev
    · by_cases h2 : maxTo n (qOfT m τ V b) < qOfT m τ V b (n+1)
      · have h2' : qOfT m τ V b (argmaxTo n (qOfT m τ V b)) < qOfT m τ V b (n+1) := by rw [← hmx]; exact h2
        cases hi : cfg.inside <;>
          simp only [rtStepC, hi, gtOpt, h1, decide_true, if_true, ← hq, h2, maxTo, argmaxTo, h2'] <;> simp
      · have h2' : ¬ qOfT m τ V b (argmaxTo n (qOfT m τ V b)) < qOfT m τ V b (n+1) := by rw [← hmx]; exact h2
        cases hi : cfg.inside <;>
          simp only [rtStepC, hi, gtOpt, h1, decide_true, if_true, ← hq, h2, decide_false, maxTo, argmaxTo, h2'] <;> simp
    · have hle : expReward m b (n+1) + rtUpperC cfg m maxR hprev ≤ maxTo n (qOfT m τ V b) := not_lt.mp h1
      have h2 : ¬ maxTo n (qOfT m τ V b) < qOfT m τ V b (n+1) := by
        rw [hq]; intro h; linarith
      have h2' : ¬ qOfT m τ V b (argmaxTo n (qOfT m τ V b)) < qOfT m τ V b (n+1) := by rw [← hmx]; exact h2
      cases hi : cfg.inside
      · have h3 : ¬ maxTo n (qOfT m τ V b) < expReward m b (n+1) := by
          intro h; have := hU0 hi; linarith
        simp only [rtStepC, hi, gtOpt, h1, decide_false, maxTo, argmaxTo, h2, h2']
        simp
        intro h; exact absurd h h3
      · simp only [rtStepC, hi, gtOpt, h1, decide_false, maxTo, argmaxTo, h2, h2']
        simp

/-- when does the pruning bound really bound the future term: always for the repaired code read at τ = 0, and for either code
    when `0 ≤ maxR` (and γ ≤ 1) -/
def RtOK (cfg : RtCfg) (m : Model) (τ maxR : Rat) : Prop :=
  (0 ≤ maxR ∧ m.γ ≤ 1) ∨ (cfg.geo = true ∧ cfg.inside = true ∧ τ = 0)

theorem rtOK_sign (cfg : RtCfg) (m : Model) (τ maxR : Rat) (h : RtOK cfg m τ maxR) : 0 ≤ maxR ∨ τ = 0 := by
  rcases h with ⟨h, _⟩ | ⟨_, _, h⟩
  · exact Or.inl h
  · exact Or.inr h

theorem rtUpperC_ge (cfg : RtCfg) (m : Model) (hγ0 : 0 ≤ m.γ) (τ maxR : Rat) (hok : RtOK cfg m τ maxR) (h : Nat) :
    m.γ * rtB m maxR h ≤ rtUpperC cfg m maxR h ∧ (cfg.inside = false → 0 ≤ rtUpperC cfg m maxR h) := by
  unfold rtUpperC
  cases hg : cfg.geo
  · -- linear bound: needs 0 ≤ maxR and γ ≤ 1
    simp only [Bool.false_eq_true, if_false]
    rcases hok with ⟨hM, hγ1⟩ | ⟨hgeo, _, _⟩
    · refine ⟨?_, fun _ => rtUpper_nonneg m hγ0 maxR hM h⟩
      have := mul_le_mul_of_nonneg_left (rtB_le_linear m hγ0 hγ1 maxR hM h) hγ0
      unfold rtUpper; linarith
    · rw [hg] at hgeo; exact absurd hgeo (by simp)
  · simp only [if_true]
    rw [rtGeoLoop_eq]
    refine ⟨le_refl _, ?_⟩
    intro hi
    rcases hok with ⟨hM, _⟩ | ⟨_, hin, _⟩
    · exact mul_nonneg hγ0 (rtB_nonneg m hγ0 maxR hM h)
    · rw [hi] at hin; exact absurd hin (by simp)

theorem rtSimC_eq_expectimaxT (cfg : RtCfg) (m : Model) (hv : Valid m) (τ : Rat) (hτ : 0 ≤ τ) (hγ0 : 0 ≤ m.γ)
    (maxR : Rat) (hok : RtOK cfg m τ maxR) (hR : RBound m maxR) :
    ∀ (h : Nat) (b : Vec), Simplex m.S b → rtSimC cfg m τ maxR h b = expectimaxT m τ h b := by
  intro h
  induction h with
  | zero => intro b _; rfl
  | succ h ih =>
    intro b hb
    obtain ⟨k, hk⟩ : ∃ k, m.A = k + 1 := ⟨m.A - 1, by have := hv.hA; omega⟩
    have hsign := rtOK_sign cfg m τ maxR hok
    have hB : 0 ≤ rtB m maxR h ∨ τ = 0 := by
      rcases hsign with h0 | h0
      · exact Or.inl (rtB_nonneg m hγ0 maxR h0 h)
      · exact Or.inr h0
    have hup := rtUpperC_ge cfg m hγ0 τ maxR hok h
    have hfut : ∀ a, a ≤ k → rtFuture m τ (rtSimC cfg m τ maxR h) b a ≤ rtUpperC cfg m maxR h := by
      intro a ha
      have haA : a < m.A := by omega
      rw [rtFuture_congr m hv τ hτ _ _ ih b hb.1 haA]
      exact le_trans (rtFuture_le' m hv τ hτ hγ0 _ _ hB (expectimaxT_le_rtB m hv τ hτ hγ0 maxR hsign hR h) b hb haA) hup.1
    have sp := rtLoopC_spec cfg m τ maxR (rtSimC cfg m τ maxR h) h b hup.2 k hfut
    simp only [rtSimC, expectimaxT]
    rw [hk, sp]
    simp only [Option.getD_some]
    have : k + 1 - 1 = k := by omega
    rw [this]
    apply maxTo_congr
    intro a ha
    rw [qOfT_eq, qOfT_eq, rtFuture_congr m hv τ hτ _ _ ih b hb.1 (by omega)]

/-- **rtbss_general**: for either form of the source, under `RtOK` (which for the repaired code at τ = 0 is NO restriction on maxR),
    `sampleAction` returns the expectimax value and the first action attaining it. -/
theorem rtbss_general (cfg : RtCfg) (m : Model) (hv : Valid m) (τ : Rat) (hτ : 0 ≤ τ) (hγ0 : 0 ≤ m.γ)
    (maxR : Rat) (hok : RtOK cfg m τ maxR) (hR : RBound m maxR) (h : Nat) (b : Vec) (hb : Simplex m.S b) :
    (rtSampleC cfg m τ maxR (h+1) b).2 = expectimaxT m τ (h+1) b ∧
    (rtSampleC cfg m τ maxR (h+1) b).1 < m.A ∧
    qOfT m τ (expectimaxT m τ h) b (rtSampleC cfg m τ maxR (h+1) b).1 = expectimaxT m τ (h+1) b ∧
    (∀ a, a < (rtSampleC cfg m τ maxR (h+1) b).1 → qOfT m τ (expectimaxT m τ h) b a < expectimaxT m τ (h+1) b) := by
  obtain ⟨k, hk⟩ : ∃ k, m.A = k + 1 := ⟨m.A - 1, by have := hv.hA; omega⟩
  have ih := rtSimC_eq_expectimaxT cfg m hv τ hτ hγ0 maxR hok hR h
  have hsign := rtOK_sign cfg m τ maxR hok
  have hB : 0 ≤ rtB m maxR h ∨ τ = 0 := by
    rcases hsign with h0 | h0
    · exact Or.inl (rtB_nonneg m hγ0 maxR h0 h)
    · exact Or.inr h0
  have hup := rtUpperC_ge cfg m hγ0 τ maxR hok h
  have hfut : ∀ a, a ≤ k → rtFuture m τ (rtSimC cfg m τ maxR h) b a ≤ rtUpperC cfg m maxR h := by
    intro a ha
    have haA : a < m.A := by omega
    rw [rtFuture_congr m hv τ hτ _ _ ih b hb.1 haA]
    exact le_trans (rtFuture_le' m hv τ hτ hγ0 _ _ hB (expectimaxT_le_rtB m hv τ hτ hγ0 maxR hsign hR h) b hb haA) hup.1
  have sp := rtLoopC_spec cfg m τ maxR (rtSimC cfg m τ maxR h) h b hup.2 k hfut
  have hcongr : ∀ a, a ≤ k → qOfT m τ (rtSimC cfg m τ maxR h) b a = qOfT m τ (expectimaxT m τ h) b a := by
    intro a ha
    rw [qOfT_eq, qOfT_eq, rtFuture_congr m hv τ hτ _ _ ih b hb.1 (by omega)]
  have hk1 : m.A - 1 = k := by omega
  have e1 : (rtSampleC cfg m τ maxR (h+1) b) = (argmaxTo k (qOfT m τ (expectimaxT m τ h) b), maxTo k (qOfT m τ (expectimaxT m τ h) b)) := by
    simp only [rtSampleC]
    rw [hk, sp]
    simp only [Option.getD_some]
    rw [AITB.MDP.argmaxTo_congr hcongr, maxTo_congr hcongr]
  rw [e1]
  simp only [expectimaxT, hk1]
  refine ⟨trivial, ?_, ?_, ?_⟩
  · have := AITB.MDP.argmaxTo_le k (qOfT m τ (expectimaxT m τ h) b); omega
  · exact (AITB.MDP.maxTo_eq_argmax k _).symm
  · intro a ha
    rw [AITB.MDP.maxTo_eq_argmax k]
    exact AITB.MDP.argmaxTo_first k _ a ha

/-- the configuration found in the source by the translator on this run -/
def rtCfgNow : RtCfg := ⟨AITB.Gen.C02.rtbssGeometricBound, AITB.Gen.C02.rtbssCompareInsidePrune⟩

/-- **rtbss_as_extracted** — the RTBSS clause for the code as it is NOW (flags regenerated from RTBSS.hpp on every run):
    value = expectimax and the first optimal action, for every POMDP, horizon ≥ 1 and belief, provided `maxR` bounds the rewards and
    * if both repairs are present in the source: nothing else (τ = 0 reading; any sign of maxR)  — the full statement;
    * otherwise: `0 ≤ maxR` and `γ ≤ 1`                                                        — the `_partial` statement. -/
theorem rtbss_as_extracted (m : Model) (hv : Valid m) (hγ0 : 0 ≤ m.γ) (maxR : Rat) (hR : RBound m maxR)
    (hpartial : (AITB.Gen.C02.rtbssGeometricBound && AITB.Gen.C02.rtbssCompareInsidePrune) = false → 0 ≤ maxR ∧ m.γ ≤ 1)
    (h : Nat) (b : Vec) (hb : Simplex m.S b) :
    (rtSampleC rtCfgNow m 0 maxR (h+1) b).2 = expectimax m (h+1) b ∧
    qOfT m 0 (expectimaxT m 0 h) b (rtSampleC rtCfgNow m 0 maxR (h+1) b).1 = expectimax m (h+1) b := by
  have hok : RtOK rtCfgNow m 0 maxR := by
    by_cases hc : (AITB.Gen.C02.rtbssGeometricBound && AITB.Gen.C02.rtbssCompareInsidePrune) = false
    · exact Or.inl (hpartial hc)
    · right
      simp only [Bool.and_eq_false_iff, not_or, Bool.not_eq_false] at hc
      exact ⟨hc.1, hc.2, rfl⟩
  obtain ⟨h1, _, h3, _⟩ := rtbss_general rtCfgNow m hv 0 (le_refl _) hγ0 maxR hok hR h b hb
  rw [expectimaxT_zero m hv (h+1) b hb.1] at h1 h3
  exact ⟨h1, h3⟩

/-- the statement order the model hard-codes is the one found in the source (test on generated literals) -/
theorem sites_match_model :
    AITB.Gen.C02.rtbssSites = ["h0", "iota", "negInf", "forA", "rew", "uBound", "prune", "forO", "update", "diffSmall", "recurse", "cmp", "setMax", "topOnly", "ret"] ∧
    AITB.Gen.C02.projecterSites = ["impossible", "rewardOnly", "TxVO", "timesGammaPlusR", "overO", "possibleSmall"] ∧
    AITB.Gen.C02.ipScheduleSites = ["pruneEach", "oddOld", "init", "while", "for", "merge", "pruneMerged", "dec", "oddNew", "tmp", "back", "front", "step", "diff", "odd", "moveFront", "union", "pruneUnion"] := by decide

/-- the repaired configuration handles the counterexample of the shipped one (test on literals) -/
example : rtSampleC ⟨true, true⟩ cxNeg 0 (-1) 3 #[1] = (0, -7/4) := by decide +kernel

/-! ## `crossSumBestAtBelief`: the support vector Witness and LinearSupport build for a belief

  Both solvers only ever add vectors produced by `crossSumBestAtBelief(b, projections)` for some belief `b` (a corner, a vertex of
  the current surface, an LP witness point).  The theorems below say that such a vector is a genuine member of the full backup
  and is optimal at `b`; hence any list assembled this way is a lower bound everywhere and exact at its witness points.
  Which points the solvers visit (vertex enumeration, witness LPs, agenda) is NOT modelled; that part is only tested. -/

theorem bestAt_mem (n : Nat) (b : Vec) : ∀ (l : List Vec), l ≠ [] → bestAt n b l ∈ l
  | [], h => absurd rfl h
  | [x], _ => by simp [bestAt]
  | x :: y :: r, _ => by
    have ih := bestAt_mem n b (y :: r) (by simp)
    unfold bestAt
    split
    · exact List.mem_cons_self
    · exact List.mem_cons_of_mem _ ih

theorem bestAt_value (n : Nat) (b : Vec) : ∀ (l : List Vec), l ≠ [] → dot n b (bestAt n b l) = env n l b
  | [], h => absurd rfl h
  | [x], _ => by simp [bestAt, env, lmax]
  | x :: y :: r, _ => by
    have ih := bestAt_value n b (y :: r) (by simp)
    unfold bestAt
    have e : env n (x :: y :: r) b = if env n (y :: r) b < dot n b x then dot n b x else env n (y :: r) b := by
      simp only [env, List.map_cons, lmax]
    rw [e, ← ih]
    split <;> rfl

theorem bestRowTo_mem (n : Nat) (b : Vec) (k : Nat) (P : Nat → List Vec) (hP : ∀ o, o < k → P o ≠ []) :
    bestRowTo n b k P ∈ crossTo n k P := by
  induction k with
  | zero => simp [bestRowTo, crossTo]
  | succ k ih =>
    simp only [bestRowTo, crossTo, crossSum]
    exact List.mem_flatMap.mpr ⟨_, ih (fun o ho => hP o (by omega)),
      List.mem_map.mpr ⟨_, bestAt_mem n b (P k) (hP k (by omega)), rfl⟩⟩

theorem bestRowTo_value (n : Nat) (b : Vec) (k : Nat) (P : Nat → List Vec) (hP : ∀ o, o < k → P o ≠ []) :
    dot n b (bestRowTo n b k P) = env n (crossTo n k P) b := by
  rw [env_crossTo n k P b hP]
  induction k with
  | zero => simp [bestRowTo, sumTo, dot_vzero]
  | succ k ih =>
    simp only [bestRowTo, sumTo]
    rw [dot_vadd, ih (fun o ho => hP o (by omega)), bestAt_value n b (P k) (hP k (by omega))]

theorem mem_unionTo (k : Nat) (G : Nat → List Vec) (a : Nat) (ha : a < k) (x : Vec) (hx : x ∈ G a) : x ∈ unionTo k G := by
  induction k with
  | zero => omega
  | succ k ih =>
    simp only [unionTo]
    rcases Nat.lt_or_ge a k with h | h
    · exact List.mem_append_left _ (ih h)
    · have : a = k := by omega
      subst this; exact List.mem_append_right _ hx

/-- the vector returned by `crossSumBestAtBelief(b, projections)` is one of the full backup's vectors … -/
theorem bestBackupAt_mem (m : Model) (hA : 0 < m.A) (τ : Rat) (Γ : List Vec) (hΓ : Γ ≠ []) (b : Vec) :
    bestBackupAt m τ Γ b ∈ backupAll m τ Γ := by
  unfold bestBackupAt backupAll
  simp only []
  apply mem_unionTo m.A _ (argmaxTo (m.A - 1) (fun a => dot m.S b (bestRowTo m.S b m.O (projList m τ Γ a))))
  · have := AITB.MDP.argmaxTo_le (m.A - 1) (fun a => dot m.S b (bestRowTo m.S b m.O (projList m τ Γ a))); omega
  · exact bestRowTo_mem m.S b m.O _ (fun o _ => projList_ne_nil m τ Γ _ o hΓ)

/-- … and it attains the backup's envelope at `b` -/
theorem bestBackupAt_value (m : Model) (hA : 0 < m.A) (τ : Rat) (Γ : List Vec) (hΓ : Γ ≠ []) (b : Vec) :
    dot m.S b (bestBackupAt m τ Γ b) = env m.S (backupAll m τ Γ) b := by
  obtain ⟨k, hk⟩ : ∃ k, m.A = k + 1 := ⟨m.A - 1, by omega⟩
  have hk1 : m.A - 1 = k := by omega
  unfold bestBackupAt backupAll
  simp only []
  rw [hk1, hk, env_unionTo m.S k _ b (fun a _ => backupA_ne_nil m τ Γ hΓ a)]
  have hval : ∀ a, dot m.S b (bestRowTo m.S b m.O (projList m τ Γ a)) = env m.S (backupA m τ Γ a) b :=
    fun a => bestRowTo_value m.S b m.O _ (fun o _ => projList_ne_nil m τ Γ a o hΓ)
  rw [hval, AITB.MDP.maxTo_eq_argmax k]
  have : (fun a => env m.S (backupA m τ Γ a) b) = (fun a => dot m.S b (bestRowTo m.S b m.O (projList m τ Γ a))) := by
    funext a; exact (hval a).symm
  rw [this]

/-- **witness_points_exact**: a list made of support vectors of arbitrary points `W` (what Witness and LinearSupport return for one
    timestep) is dominated by the exact backup everywhere and equals it at every point of `W`.  With `alpha_backup_exact` /
    `env_backupAll`: the returned surface never exceeds the true value, and is exact at every belief the solver examined. -/
theorem witness_points_exact (m : Model) (hA : 0 < m.A) (τ : Rat) (Γ : List Vec) (hΓ : Γ ≠ []) (W : List Vec) (hW : W ≠ []) :
    (∀ b, env m.S (W.map (bestBackupAt m τ Γ)) b ≤ env m.S (backupAll m τ Γ) b) ∧
    (∀ w ∈ W, env m.S (W.map (bestBackupAt m τ Γ)) w = env m.S (backupAll m τ Γ) w) := by
  have hne : W.map (bestBackupAt m τ Γ) ≠ [] := by simpa using hW
  have hsub : ∀ α ∈ W.map (bestBackupAt m τ Γ), α ∈ backupAll m τ Γ := by
    intro α hα
    obtain ⟨w, _, rfl⟩ := List.mem_map.mp hα
    exact bestBackupAt_mem m hA τ Γ hΓ w
  refine ⟨fun b => env_mono _ _ _ b hne hsub, ?_⟩
  intro w hw
  apply le_antisymm (env_mono _ _ _ w hne hsub)
  rw [← bestBackupAt_value m hA τ Γ hΓ w]
  exact env_ge _ _ _ _ (List.mem_map.mpr ⟨w, hw, rfl⟩)


/-! ## Witness: an empty agenda means the per-action set is complete

  `Witness::operator()` keeps, per action, a set U of vectors each of which is the sum of one chosen projection per observation
  (`crossSumBestAtBelief(witness, projections[a], a)`), and an agenda of all one-observation variations of the vectors found
  (`addVariations`).  A variation leaves the agenda only when `WitnessLP::findWitness` reports that there is no belief where it
  beats every vector of U.  The theorem below is the Witness theorem: when no variation has a witness point, U already has the
  envelope of the full cross-sum.  The LP (`findWitness` being a complete search for such a belief) is NOT modelled: it enters as
  the hypothesis `hno`; its answers are only tested through the solver's final output. -/

theorem dot_sumVecTo (n : Nat) (b : Vec) (k : Nat) (c : Nat → Vec) :
    dot n b (sumVecTo n k c) = sumTo k (fun o => dot n b (c o)) := by
  induction k with
  | zero => simp [sumVecTo, sumTo, dot_vzero]
  | succ k ih => simp only [sumVecTo, sumTo]; rw [dot_vadd, ih]

theorem sumVecTo_mem (n : Nat) (k : Nat) (P : Nat → List Vec) (c : Nat → Vec) (hc : ∀ o, o < k → c o ∈ P o) :
    sumVecTo n k c ∈ crossTo n k P := by
  induction k with
  | zero => simp [sumVecTo, crossTo]
  | succ k ih =>
    simp only [sumVecTo, crossTo, crossSum]
    exact List.mem_flatMap.mpr ⟨_, ih (fun o ho => hc o (by omega)), List.mem_map.mpr ⟨_, hc k (by omega), rfl⟩⟩

theorem sumTo_updSlot (k : Nat) (f : Nat → Rat) (o : Nat) (ho : o < k) (x : Rat) :
    sumTo k (updSlot f o x) = sumTo k f - f o + x := by
  induction k with
  | zero => omega
  | succ k ih =>
    simp only [sumTo]
    rcases Nat.lt_or_ge o k with h | h
    · rw [ih h]
      have : updSlot f o x k = f k := by unfold updSlot; rw [if_neg (by omega)]
      rw [this]; ring
    · have hk : o = k := by omega
      subst hk
      have e1 : sumTo o (updSlot f o x) = sumTo o f := by
        apply sumTo_congr; intro i hi; unfold updSlot; rw [if_neg (by omega)]
      have e2 : updSlot f o x o = x := by unfold updSlot; rw [if_pos rfl]
      rw [e1, e2]; ring

/-- **witness_complete**: if at the point `b` no one-observation variation of a vector of U beats U, then U has the envelope of the
    whole cross-sum at `b`.  (`C` = the choices behind U; `updSlot c o α` = replace observation o's projection by α.) -/
theorem witness_complete (n k : Nat) (P : Nat → List Vec) (hP : ∀ o, o < k → P o ≠ [])
    (C : List (Nat → Vec)) (hC : C ≠ []) (hval : ∀ c ∈ C, ∀ o, o < k → c o ∈ P o) (b : Vec)
    (hno : ∀ c ∈ C, ∀ o, o < k → ∀ α ∈ P o,
      dot n b (sumVecTo n k (updSlot c o α)) ≤ env n (C.map (sumVecTo n k)) b) :
    env n (C.map (sumVecTo n k)) b = env n (crossTo n k P) b := by
  have hne : C.map (sumVecTo n k) ≠ [] := by simpa using hC
  apply le_antisymm
  · apply env_mono _ _ _ b hne
    intro α hα
    obtain ⟨c, hc, rfl⟩ := List.mem_map.mp hα
    exact sumVecTo_mem n k P c (hval c hc)
  · -- suppose the full cross-sum were strictly better at b
    by_contra hlt
    have hlt : env n (C.map (sumVecTo n k)) b < env n (crossTo n k P) b := not_le.mp hlt
    obtain ⟨u, hu, eu⟩ := env_attained n _ b hne
    obtain ⟨c, hc, rfl⟩ := List.mem_map.mp hu
    rw [env_crossTo n k P b hP, eu, dot_sumVecTo] at hlt
    -- some observation's chosen projection is not the best one at b
    have hex : ∃ o, o < k ∧ dot n b (c o) < env n (P o) b := by
      by_contra hnone
      have hall : ∀ o, o < k → env n (P o) b ≤ dot n b (c o) := by
        intro o ho
        by_contra h
        exact hnone ⟨o, ho, not_le.mp h⟩
      have := sumTo_le hall
      linarith
    obtain ⟨o, ho, hbetter⟩ := hex
    obtain ⟨α, hα, eα⟩ := env_attained n (P o) b (hP o ho)
    have hvar := hno c hc o ho α hα
    rw [dot_sumVecTo] at hvar
    have e : (fun o' => dot n b (updSlot c o α o')) = updSlot (fun o' => dot n b (c o')) o (dot n b α) := by
      funext o'
      unfold updSlot
      split <;> rfl
    rw [e, sumTo_updSlot k _ o ho, eu, dot_sumVecTo] at hvar
    rw [eα] at hbetter
    linarith

/-- one Witness timestep: per-action sets with empty agendas, union over actions, envelope-preserving final prune ⇒ the result has
    the envelope of the full backup at `b`; with `stepwise_exact` this is the expectimax value. -/
theorem witness_step_exact (m : Model) (hA : 0 < m.A) (τ : Rat) (Γ : List Vec) (hΓ : Γ ≠ [])
    (prune : List Vec → List Vec) (hp : EnvPreserving m.S prune)
    (C : Nat → List (Nat → Vec)) (hC : ∀ a, C a ≠ [])
    (hval : ∀ a, ∀ c ∈ C a, ∀ o, o < m.O → c o ∈ projList m τ Γ a o)
    (b : Vec) (hb : NonNeg m.S b)
    (hno : ∀ a, a < m.A → ∀ c ∈ C a, ∀ o, o < m.O → ∀ α ∈ projList m τ Γ a o,
      dot m.S b (sumVecTo m.S m.O (updSlot c o α)) ≤ env m.S ((C a).map (sumVecTo m.S m.O)) b) :
    env m.S (prune (unionTo m.A (fun a => (C a).map (sumVecTo m.S m.O)))) b = env m.S (backupAll m τ Γ) b := by
  obtain ⟨k, hk⟩ : ∃ k, m.A = k + 1 := ⟨m.A - 1, by omega⟩
  have hG : ∀ a, (C a).map (sumVecTo m.S m.O) ≠ [] := fun a => by simpa using hC a
  have hU : unionTo m.A (fun a => (C a).map (sumVecTo m.S m.O)) ≠ [] := by rw [hk]; exact unionTo_ne_nil k _ (hG k)
  rw [(hp _ hU).2 b hb]
  unfold backupAll
  rw [hk, env_unionTo m.S k _ b (fun a _ => hG a), env_unionTo m.S k _ b (fun a _ => backupA_ne_nil m τ Γ hΓ a)]
  apply maxTo_congr
  intro a ha
  exact witness_complete m.S m.O _ (fun o _ => projList_ne_nil m τ Γ a o hΓ) (C a) (hC a) (hval a) b (hno a (by omega))


/-! ## `findVerticesNaive`: what its linear system says (defect 1 at model level) -/

theorem dot_indicator (S : Nat) (x : Vec) (d : Nat) (hd : d < S) :
    dot S (mkVec S (fun s => if s = d then 1 else 0)) x = x.get d := by
  unfold dot
  have : sumTo S (fun s => (mkVec S (fun s => if s = d then (1 : Rat) else 0)).get s * x.get s)
       = sumTo S (fun s => (if s = d then (1 : Rat) else 0) * x.get s) := by
    apply sumTo_congr; intro s hs; rw [mkVec_get _ hs]
  rw [this, AITB.MDP.sumTo_indicator S x.get d hd]

theorem dot_ones (S : Nat) (x : Vec) : dot S (mkVec S (fun _ => 1)) x = sumTo S x.get := by
  unfold dot
  apply sumTo_congr; intro s hs; rw [mkVec_get _ hs]; ring

theorem mem_boundaryRows (S : Nat) (sub : List FvnElem) (d : Nat) (h : FvnElem.boundary d ∈ sub) :
    (⟨mkVec S (fun s => if s = d then 1 else 0), 0, 0⟩ : FvnRow) ∈ fvnBoundaryRows S sub := by
  induction sub with
  | nil => simp at h
  | cons e r ih =>
    cases e with
    | plane α =>
      simp only [fvnBoundaryRows]
      rcases List.mem_cons.mp h with h | h
      · cases h
      · exact ih h
    | boundary d' =>
      simp only [fvnBoundaryRows]
      rcases List.mem_cons.mp h with h | h
      · cases h; exact List.mem_cons_self
      · exact List.mem_cons_of_mem _ (ih h)

theorem mem_planeRows (sub : List FvnElem) (α : Vec) (h : FvnElem.plane α ∈ sub) :
    (⟨α, -1, 0⟩ : FvnRow) ∈ fvnPlaneRows sub := by
  induction sub with
  | nil => simp at h
  | cons e r ih =>
    cases e with
    | plane β =>
      simp only [fvnPlaneRows]
      rcases List.mem_cons.mp h with h | h
      · cases h; exact List.mem_cons_self
      · exact List.mem_cons_of_mem _ (ih h)
    | boundary d' =>
      simp only [fvnPlaneRows]
      rcases List.mem_cons.mp h with h | h
      · cases h
      · exact ih h

/-- **fvn_rows_sound** (repaired form): every solution of the system is a point of the simplex' affine hull lying on all chosen
    boundaries, at which `new` and all chosen planes have the same value `v` — i.e. exactly the vertex the comment describes. -/
theorem fvn_rows_sound (S : Nat) (new : Vec) (sub : List FvnElem) (x : Vec) (v : Rat)
    (h : fvnSolves true S new sub x v = true) :
    dot S new x = v ∧ sumTo S x.get = 1 ∧
    (∀ α, FvnElem.plane α ∈ sub → dot S α x = v) ∧
    (∀ d, d < S → FvnElem.boundary d ∈ sub → x.get d = 0) := by
  unfold fvnSolves fvnRows at h
  simp only [if_true] at h
  rw [List.all_eq_true] at h
  have hrow : ∀ r ∈ (⟨new, -1, 0⟩ : FvnRow) :: (fvnPlaneRows sub ++ fvnBoundaryRows S sub ++ [⟨mkVec S (fun _ => 1), 0, 1⟩]),
      dot S r.coef x + r.cv * v = r.rhs := by
    intro r hr
    have := h r hr
    unfold FvnRow.holds at this
    exact of_decide_eq_true this
  refine ⟨?_, ?_, ?_, ?_⟩
  · have := hrow _ List.mem_cons_self
    simp only at this; linarith
  · have := hrow ⟨mkVec S (fun _ => 1), 0, 1⟩ (List.mem_cons_of_mem _ (List.mem_append_right _ List.mem_cons_self))
    simp only at this
    rw [dot_ones] at this; linarith
  · intro α hα
    have := hrow _ (List.mem_cons_of_mem _ (List.mem_append_left _ (List.mem_append_left _ (mem_planeRows sub α hα))))
    simp only at this; linarith
  · intro d hd hb
    have := hrow _ (List.mem_cons_of_mem _ (List.mem_append_left _ (List.mem_append_right _ (mem_boundaryRows S sub d hb))))
    simp only at this
    rw [dot_indicator S x d hd] at this; linarith

/-- **fvn_merged_row_counterexample** (as shipped): on the witness of defect 1 (`new` and `α` are the two corner supports LinearSupport
    holds, subset = {α, boundary x₁ = 0}) the system is satisfied by the intended edge vertex (86/317, 0, 231/317) AND by a point with
    x₁ = 1 outside the simplex: it does not determine the vertex, the QR solve returns whichever basic solution pivoting picks. -/
theorem fvn_merged_row_counterexample :
    let new : Vec := #[261/32, -33/16, 21/4]
    let α : Vec := #[15/16, -6, 127/16]
    fvnSolves false 3 new [.plane α, .boundary 1] #[86/317, 0, 231/317] (dot 3 new #[86/317, 0, 231/317]) = true ∧
    fvnSolves false 3 new [.plane α, .boundary 1] #[-40/317, 1, 357/317] (dot 3 new #[-40/317, 1, 357/317]) = true ∧
    fvnSolves true 3 new [.plane α, .boundary 1] #[86/317, 0, 231/317] (dot 3 new #[86/317, 0, 231/317]) = true ∧
    fvnSolves true 3 new [.plane α, .boundary 1] #[-40/317, 1, 357/317] (dot 3 new #[-40/317, 1, 357/317]) = false := by
  decide +kernel


/-- the form found in the source on this run (`tools/extract_c02.py`): when the boundaries are separate rows, the solved system
    characterises the vertex; when they are merged (as shipped) only `fvn_merged_row_counterexample` applies -/
theorem fvn_as_extracted (hflag : AITB.Gen.C02.fvnBoundaryRows = true) (S : Nat) (new : Vec) (sub : List FvnElem) (x : Vec) (v : Rat)
    (h : fvnSolves AITB.Gen.C02.fvnBoundaryRows S new sub x v = true) :
    dot S new x = v ∧ sumTo S x.get = 1 ∧
    (∀ α, FvnElem.plane α ∈ sub → dot S α x = v) ∧
    (∀ d, d < S → FvnElem.boundary d ∈ sub → x.get d = 0) := by
  rw [hflag] at h
  exact fvn_rows_sound S new sub x v h

/-! ## the hypotheses are satisfiable by a non-trivial model -/

/-- two states, two actions, two noisy observations -/
def exM : Model :=
  { S := 2, A := 2, O := 2, T := fun _ _ _ => 1/2, R := fun s a => if s = a then 1 else -1,
    Ob := fun s1 _ o => if s1 = o then 3/4 else 1/4, γ := 7/8 }

example : Valid exM := by
  refine ⟨by decide, by decide, ?_, ?_, ?_, ?_⟩
  · intro s a s1 _ _ _; norm_num [exM]
  · intro s a _ _; norm_num [exM, sumTo]
  · intro s1 a o _ _ _; simp only [exM]; split <;> norm_num
  · intro s1 a h1 _
    have : s1 = 0 ∨ s1 = 1 := by simp only [exM] at h1; omega
    rcases this with rfl | rfl <;> norm_num [exM, sumTo]

example : Sep exM AITB.Gen.equalToleranceSmall := by
  intro s1 a o _ _ _ h
  exfalso
  simp only [exM] at h
  split at h <;> norm_num [absR, AITB.Gen.equalToleranceSmall] at h

example : RBound exM 1 ∧ (0 : Rat) ≤ 1 ∧ 0 ≤ exM.γ ∧ exM.γ ≤ 1 := by
  refine ⟨?_, by norm_num, by norm_num [exM], by norm_num [exM]⟩
  intro s a _ _; simp only [exM]; split <;> norm_num

example : Simplex 2 #[1/4, 3/4] := by
  refine ⟨?_, by norm_num [sumTo, Vec.get]⟩
  intro s hs
  have : s = 0 ∨ s = 1 := by omega
  rcases this with rfl | rfl <;> norm_num [Vec.get]

/-- test on literals: three exact backups of the example reproduce expectimax at a belief, and RTBSS agrees -/
example : env 2 (backupIter exM AITB.Gen.equalToleranceSmall 2) #[1/4, 3/4] = expectimax exM 2 #[1/4, 3/4]
    ∧ (rtSample exM AITB.Gen.equalToleranceSmall 1 2 #[1/4, 3/4]).2 = expectimax exM 2 #[1/4, 3/4] := by
  constructor <;> decide +kernel

end AITB.POMDP
