/-
  AITB.Props.C08Dense — "sampleProbability follows the row it is given" (property C08, scan part).
  Property theorems about the dense / sparse inverse-CDF scans of AITB.Model.Sampling and the
  model-sampling compositions built from them.  Unbounded: any list, any length, any draw.
-/
import AITB.Model.Sampling
import Mathlib.Algebra.Order.Field.Rat
import Mathlib.Algebra.BigOperators.Group.List.Basic
import Mathlib.Tactic.Linarith
import Mathlib.Tactic.Ring
import Mathlib.Tactic.NormNum

namespace AITB.Sampling

/-! ## prefix sums -/

theorem cum_zero (l : List Rat) : cum l 0 = 0 := by simp [cum]

theorem cum_nil (k : Nat) : cum [] k = 0 := by simp [cum]

theorem cum_cons_succ (x : Rat) (xs : List Rat) (k : Nat) :
    cum (x :: xs) (k + 1) = x + cum xs k := by
  simp [cum]

theorem cum_of_length_le (l : List Rat) (k : Nat) (h : l.length ≤ k) : cum l k = l.sum := by
  simp [cum, List.take_of_length_le h]

theorem cum_nonneg : ∀ (l : List Rat) (k : Nat), (∀ x ∈ l, 0 ≤ x) → 0 ≤ cum l k
  | [], k, _ => by simp [cum]
  | x :: xs, 0, _ => by simp [cum]
  | x :: xs, k + 1, h => by
    rw [cum_cons_succ]
    have h1 := cum_nonneg xs k (fun e he => h e (List.mem_cons_of_mem _ he))
    have h2 := h x (List.mem_cons_self ..)
    linarith

theorem sum_nonneg' (l : List Rat) (h : ∀ x ∈ l, 0 ≤ x) : 0 ≤ l.sum := by
  have := cum_nonneg l l.length h
  rwa [cum_of_length_le l l.length (le_refl _)] at this

theorem cum_le_sum : ∀ (l : List Rat) (k : Nat), (∀ x ∈ l, 0 ≤ x) → cum l k ≤ l.sum
  | [], k, _ => by simp [cum]
  | x :: xs, 0, h => by rw [cum_zero]; exact sum_nonneg' _ h
  | x :: xs, k + 1, h => by
    rw [cum_cons_succ, List.sum_cons]
    have h1 := cum_le_sum xs k (fun e he => h e (List.mem_cons_of_mem _ he))
    linarith

/-! ## the dense loop -/

theorem denseGo_range : ∀ (l : List Rat) (p : Rat) (i0 j : Nat),
    denseGo l p i0 = some j → i0 ≤ j ∧ j < i0 + l.length
  | [], _, _, _, h => by simp [denseGo] at h
  | x :: xs, p, i0, j, h => by
    simp only [denseGo] at h
    split at h
    · simp only [Option.some.injEq] at h; subst h; simp
    · have := denseGo_range xs (p - x) (i0 + 1) j h
      simp only [List.length_cons]; omega

theorem denseGo_none : ∀ (l : List Rat) (p : Rat) (i0 : Nat), (∀ x ∈ l, 0 ≤ x) → 0 ≤ p →
    (denseGo l p i0 = none ↔ l.sum ≤ p)
  | [], p, i0, _, hp => by simp [denseGo, hp]
  | x :: xs, p, i0, h, hp => by
    have hxs := sum_nonneg' xs (fun e he => h e (List.mem_cons_of_mem _ he))
    simp only [denseGo, List.sum_cons]
    by_cases hc : x > p
    · rw [if_pos hc]
      constructor
      · intro h'; cases h'
      · intro h'; linarith
    · rw [if_neg hc]
      have hle : x ≤ p := not_lt.mp hc
      rw [denseGo_none xs (p - x) (i0 + 1) (fun e he => h e (List.mem_cons_of_mem _ he)) (by linarith)]
      constructor <;> intro h' <;> linarith

theorem denseGo_some : ∀ (l : List Rat) (p : Rat) (i0 k : Nat), (∀ x ∈ l, 0 ≤ x) → 0 ≤ p →
    (denseGo l p i0 = some (i0 + k) ↔ k < l.length ∧ cum l k ≤ p ∧ p < cum l (k + 1))
  | [], p, i0, k, _, _ => by simp [denseGo]
  | x :: xs, p, i0, k, h, hp => by
    have hxs : ∀ e ∈ xs, 0 ≤ e := fun e he => h e (List.mem_cons_of_mem _ he)
    simp only [denseGo]
    by_cases hc : x > p
    · rw [if_pos hc]
      cases k with
      | zero => simp [cum_zero, cum_cons_succ, hp]; exact hc
      | succ k' =>
        have h1 := cum_nonneg xs k' hxs
        constructor
        · intro h'; simp at h'
        · rintro ⟨_, h2, _⟩
          rw [cum_cons_succ] at h2
          linarith
    · rw [if_neg hc]
      have hle : x ≤ p := not_lt.mp hc
      cases k with
      | zero =>
        constructor
        · intro h'
          have := (denseGo_range xs (p - x) (i0 + 1) _ h').1
          omega
        · rintro ⟨_, _, h3⟩
          rw [cum_cons_succ, cum_zero] at h3
          linarith
      | succ k' =>
        have e : i0 + (k' + 1) = (i0 + 1) + k' := by omega
        rw [e, denseGo_some xs (p - x) (i0 + 1) k' hxs (by linarith)]
        simp only [cum_cons_succ, List.length_cons]
        constructor
        · rintro ⟨a, b, c⟩; exact ⟨by omega, by linarith, by linarith⟩
        · rintro ⟨a, b, c⟩; exact ⟨by omega, by linarith, by linarith⟩

/-! ## 1. the dense sampler always returns an index of the row -/

theorem dense_in_range (l : List Rat) (u : Rat) (hne : l ≠ []) : sampleDense l u < l.length := by
  have hlen : 0 < l.length := List.length_pos_of_ne_nil hne
  unfold sampleDense
  cases h : denseGo l u 0 with
  | none => simp only [Option.getD_none]; omega
  | some j =>
    have := (denseGo_range l u 0 j h).2
    simp only [Option.getD_some]; omega

-- test: an invalid row (negative entry, sum ≠ 1) and a draw outside [0,1)
example : sampleDense [1/2, -3, 1/4] 7 < [1/2, -3, (1/4 : Rat)].length :=
  dense_in_range _ _ (by simp)

/-! ## 2. which draws are mapped to index `k` (non-negative entries, `0 ≤ u`) -/

theorem dense_preimage (l : List Rat) (u : Rat) (k : Nat) (hnn : ∀ x ∈ l, 0 ≤ x) (hu : 0 ≤ u)
    (hne : l ≠ []) :
    (sampleDense l u = k ↔
      k < l.length ∧ cum l k ≤ u ∧ (k + 1 < l.length → u < cum l (k + 1))) := by
  have hlen : 0 < l.length := List.length_pos_of_ne_nil hne
  unfold sampleDense
  cases h : denseGo l u 0 with
  | none =>
    have hs : l.sum ≤ u := (denseGo_none l u 0 hnn hu).mp h
    simp only [Option.getD_none]
    constructor
    · intro hk
      refine ⟨by omega, le_trans (cum_le_sum l k hnn) hs, fun h' => by omega⟩
    · rintro ⟨h1, _, h3⟩
      by_cases hk : k + 1 < l.length
      · have := h3 hk
        have := cum_le_sum l (k + 1) hnn
        linarith
      · omega
  | some j =>
    simp only [Option.getD_some]
    have hj : denseGo l u 0 = some (0 + j) := by rw [Nat.zero_add]; exact h
    have hnone : ¬ l.sum ≤ u := by
      intro hs
      rw [(denseGo_none l u 0 hnn hu).mpr hs] at h
      cases h
    obtain ⟨j1, j2, j3⟩ := (denseGo_some l u 0 j hnn hu).mp hj
    constructor
    · intro hk; subst hk
      exact ⟨j1, j2, fun _ => j3⟩
    · rintro ⟨h1, h2, h3⟩
      have h4 : u < cum l (k + 1) := by
        by_cases hk : k + 1 < l.length
        · exact h3 hk
        · rw [cum_of_length_le l (k + 1) (by omega)]; exact not_le.mp hnone
      have := (denseGo_some l u 0 k hnn hu).mpr ⟨h1, h2, h4⟩
      rw [Nat.zero_add, h] at this
      exact Option.some.inj this

-- test: row (1/4, 1/2, 1/4), draw 1/2 lands in [1/4, 3/4) → index 1
example : sampleDense [1/4, 1/2, 1/4] (1/2) = 1 :=
  (dense_preimage [1/4, 1/2, 1/4] (1/2) 1
    (by norm_num) (by norm_num) (by simp)).mpr
    (by refine ⟨by simp, ?_, fun _ => ?_⟩ <;> norm_num [cum])

/-! ## 3. the interval of index `k` has length `l[k]` -/

theorem dense_interval_length : ∀ (l : List Rat) (k : Nat), k < l.length →
    cum l (k + 1) - cum l k = l.getD k 0
  | [], k, h => by simp at h
  | x :: xs, 0, _ => by simp [cum]
  | x :: xs, k + 1, h => by
    have ih := dense_interval_length xs k (by simpa using h)
    rw [cum_cons_succ, cum_cons_succ, List.getD_cons_succ, ← ih]
    ring

-- test
example : cum [1/4, 1/2, 1/4] 2 - cum [1/4, 1/2, 1/4] 1 = ([1/4, 1/2, 1/4] : List Rat).getD 1 0 :=
  dense_interval_length _ 1 (by simp)

theorem cum_succ_eq (l : List Rat) (k : Nat) (h : k < l.length) :
    cum l (k + 1) = cum l k + l.getD k 0 := by
  have := dense_interval_length l k h
  linarith

/-! ## 6. draws at or above the row sum fall through to the last index -/

theorem dense_slack_last (l : List Rat) (u : Rat) (hnn : ∀ x ∈ l, 0 ≤ x) (_hne : l ≠ [])
    (hs : l.sum ≤ u) : sampleDense l u = l.length - 1 := by
  have hu : 0 ≤ u := le_trans (sum_nonneg' l hnn) hs
  unfold sampleDense
  rw [(denseGo_none l u 0 hnn hu).mpr hs]
  rfl

-- test: row sums to 3/4, draw 4/5 is in the slack → last index
example : sampleDense [1/4, 1/2, 0] (4/5) = 2 :=
  dense_slack_last [1/4, 1/2, 0] (4/5)
    (by norm_num) (by simp) (by norm_num)

/-! ## 5. an index of probability zero is returned only as the fall-through for the slack -/

theorem dense_zero_only_slack (l : List Rat) (u : Rat) (k : Nat) (hnn : ∀ x ∈ l, 0 ≤ x)
    (hu : 0 ≤ u) (hne : l ≠ []) (hz : l.getD k 0 = 0) (hk : sampleDense l u = k) :
    k = l.length - 1 ∧ l.sum ≤ u := by
  obtain ⟨h1, h2, h3⟩ := (dense_preimage l u k hnn hu hne).mp hk
  have hc := cum_succ_eq l k h1
  rw [hz, add_zero] at hc
  by_cases hlt : k + 1 < l.length
  · have := h3 hlt
    linarith
  · refine ⟨by omega, ?_⟩
    rw [← cum_of_length_le l (k + 1) (by omega), hc]
    exact h2

-- test: the zero-probability last index of (1/4, 1/2, 0) is hit by the slack draw 4/5
example : (2 : Nat) = [1/4, 1/2, (0 : Rat)].length - 1 ∧ ([1/4, 1/2, 0] : List Rat).sum ≤ 4/5 :=
  dense_zero_only_slack [1/4, 1/2, 0] (4/5) 2
    (by norm_num) (by norm_num) (by simp)
    (by simp) (by norm_num [sampleDense, denseGo])

/-! ## 4. entries summing to one: index `k` is hit exactly on `[c_k, c_k + p_k)` -/

theorem dense_preimage_sum_one (l : List Rat) (u : Rat) (k : Nat) (hnn : ∀ x ∈ l, 0 ≤ x)
    (hsum : l.sum = 1) (hu : 0 ≤ u) (hu1 : u < 1) :
    (sampleDense l u = k ↔ k < l.length ∧ cum l k ≤ u ∧ u < cum l k + l.getD k 0) := by
  have hne : l ≠ [] := by
    intro h; subst h; simp at hsum
  rw [dense_preimage l u k hnn hu hne]
  constructor
  · rintro ⟨h1, h2, h3⟩
    refine ⟨h1, h2, ?_⟩
    rw [← cum_succ_eq l k h1]
    by_cases hlt : k + 1 < l.length
    · exact h3 hlt
    · rw [cum_of_length_le l (k + 1) (by omega), hsum]; exact hu1
  · rintro ⟨h1, h2, h3⟩
    refine ⟨h1, h2, fun _ => ?_⟩
    rw [cum_succ_eq l k h1]; exact h3

-- test
example : sampleDense [1/4, 1/2, 1/4] (3/4) = 2 :=
  (dense_preimage_sum_one [1/4, 1/2, 1/4] (3/4) 2
    (by norm_num) (by norm_num) (by norm_num)
    (by norm_num)).mpr (by refine ⟨by simp, ?_, ?_⟩ <;> norm_num [cum])

/-! ## 14–16. model sampling is the row scan -/

theorem sampleSR_spec (T : Nat → Nat → List Rat) (R : Nat → Nat → Rat) (s a : Nat) (u : Rat)
    (hne : T a s ≠ []) :
    (sampleSR T R s a u).1 < (T a s).length ∧ (sampleSR T R s a u).2 = R s a :=
  ⟨dense_in_range _ _ hne, rfl⟩

theorem sampleSR_follows_row (T : Nat → Nat → List Rat) (R : Nat → Nat → Rat) (s a k : Nat) (u : Rat)
    (hnn : ∀ x ∈ T a s, 0 ≤ x) (hu : 0 ≤ u) (hne : T a s ≠ []) :
    ((sampleSR T R s a u).1 = k ↔
      k < (T a s).length ∧ cum (T a s) k ≤ u ∧ (k + 1 < (T a s).length → u < cum (T a s) (k + 1))) :=
  dense_preimage (T a s) u k hnn hu hne

theorem sampleSOR_spec (T O : Nat → Nat → List Rat) (R : Nat → Nat → Rat) (s a : Nat) (u1 u2 : Rat)
    (hO : ∀ s', O a s' ≠ []) (hne : T a s ≠ []) :
    let r := sampleSOR T O R s a u1 u2
    r.1 < (T a s).length ∧ r.2.1 < (O a r.1).length ∧ r.2.2 = R s a ∧
      r.1 = sampleDense (T a s) u1 ∧ r.2.1 = sampleDense (O a r.1) u2 := by
  intro r
  refine ⟨dense_in_range _ _ hne, dense_in_range _ _ (hO _), rfl, rfl, rfl⟩

-- test: two states, deterministic-ish rows
example :
    let T : Nat → Nat → List Rat := fun _ s => if s = 0 then [1/4, 3/4] else [1, 0]
    let O : Nat → Nat → List Rat := fun _ s' => if s' = 0 then [1/2, 1/2] else [1/10, 9/10]
    sampleSOR T O (fun s a => (s : Rat) + 2 * a) 0 1 (1/2) (1/20) = (1, 0, 2) := by
  norm_num [sampleSOR, sampleSR, sampleDense, denseGo]

example :
    (sampleSR (fun _ s => if s = 0 then [1/4, 3/4] else [1, 0]) (fun _ _ => 5) 0 1 (1/2)).1 = 1 := by
  norm_num [sampleSR, sampleDense, denseGo]

/-! ## sparse scan (no end-of-row test) -/

theorem vals_nonneg (row : List (Nat × Rat)) (h : ∀ e ∈ row, 0 ≤ e.2) :
    ∀ x ∈ row.map (·.2), 0 ≤ x := by
  intro x hx
  obtain ⟨e, he, rfl⟩ := List.mem_map.mp hx
  exact h e he

/-! ### 7. a draw below the row sum selects the stored entry whose interval contains it -/

theorem sparse_scan_char : ∀ (row rest : List (Nat × Rat)) (u : Rat), (∀ e ∈ row, 0 ≤ e.2) →
    0 ≤ u → u < (row.map (·.2)).sum →
    ∃ k, ∃ hk : k < row.length, sampleSparse row rest u = some (row[k]).1 ∧
      cum (row.map (·.2)) k ≤ u ∧ u < cum (row.map (·.2)) (k + 1)
  | [], _, u, _, hu, hs => by simp at hs; linarith
  | (c, v) :: r, rest, u, h, hu, hs => by
    have hr : ∀ e ∈ r, 0 ≤ e.2 := fun e he => h e (List.mem_cons_of_mem _ he)
    simp only [List.map_cons, List.sum_cons] at hs
    by_cases hc : v > u
    · refine ⟨0, by simp, ?_, ?_, ?_⟩
      · simp [sampleSparse, sparseGo, hc]
      · rw [cum_zero]; exact hu
      · simp only [List.map_cons, cum_cons_succ, cum_zero, add_zero]; exact hc
    · have hle : v ≤ u := not_lt.mp hc
      obtain ⟨k, hk, h1, h2, h3⟩ :=
        sparse_scan_char r rest (u - v) hr (by linarith) (by linarith)
      refine ⟨k + 1, by simpa using hk, ?_, ?_, ?_⟩
      · simp only [sampleSparse] at h1 ⊢
        simp only [List.cons_append, sparseGo, if_neg hc]
        simpa using h1
      · simp only [List.map_cons, cum_cons_succ]; linarith
      · simp only [List.map_cons, cum_cons_succ]; linarith

-- test: row stores columns 3 and 7; draw 1/2 lands in the second stored entry
example : ∃ k, ∃ hk : k < [((3 : Nat), (1/4 : Rat)), (7, 3/4)].length,
    sampleSparse [(3, 1/4), (7, 3/4)] [(9, 1)] (1/2) = some ([((3 : Nat), (1/4 : Rat)), (7, 3/4)][k]).1 ∧
      cum ([((3 : Nat), (1/4 : Rat)), (7, 3/4)].map (·.2)) k ≤ 1/2 ∧
      1/2 < cum ([((3 : Nat), (1/4 : Rat)), (7, 3/4)].map (·.2)) (k + 1) :=
  sparse_scan_char _ _ _ (by norm_num) (by norm_num) (by norm_num)

/-! ### 8. hence below the row sum the sparse sampler is total and stays in the row's support -/

theorem sparse_total_partial (row rest : List (Nat × Rat)) (u : Rat) (hnn : ∀ e ∈ row, 0 ≤ e.2)
    (hu : 0 ≤ u) (hs : u < (row.map (·.2)).sum) :
    ∃ c, sampleSparse row rest u = some c ∧ c ∈ row.map (·.1) := by
  obtain ⟨k, hk, h1, _, _⟩ := sparse_scan_char row rest u hnn hu hs
  exact ⟨_, h1, List.mem_map.mpr ⟨row[k], List.getElem_mem hk, rfl⟩⟩

-- test
example : ∃ c, sampleSparse [(3, 1/4), (7, 3/4)] [(9, 1)] (1/2) = some c ∧
    c ∈ [((3 : Nat), (1/4 : Rat)), (7, 3/4)].map (·.1) :=
  sparse_total_partial _ _ _ (by norm_num) (by norm_num) (by norm_num)

/-! ### 9. at or above the row sum the scan leaves the row -/

theorem sparse_walks_off : ∀ (row rest : List (Nat × Rat)) (u : Rat), (∀ e ∈ row, 0 ≤ e.2) →
    (row.map (·.2)).sum ≤ u →
    sampleSparse row rest u = sparseGo rest (u - (row.map (·.2)).sum)
  | [], rest, u, _, _ => by simp [sampleSparse]
  | (c, v) :: r, rest, u, h, hs => by
    have hr : ∀ e ∈ r, 0 ≤ e.2 := fun e he => h e (List.mem_cons_of_mem _ he)
    have hrs : 0 ≤ (r.map (·.2)).sum := sum_nonneg' _ (vals_nonneg r hr)
    simp only [List.map_cons, List.sum_cons] at hs ⊢
    have hc : ¬ v > u := by intro hgt; linarith
    have ih := sparse_walks_off r rest (u - v) hr (by linarith)
    simp only [sampleSparse] at ih ⊢
    simp only [List.cons_append, sparseGo, if_neg hc, ih]
    congr 1; ring

-- test: row sums to 3/4; the draw 4/5 returns column 9 of the *following* row,
-- and with nothing stored after the row the scan reads out of bounds (`none`)
example : sampleSparse [(3, 1/4), (7, 1/2)] [(9, 1)] (4/5) = some 9 := by
  rw [sparse_walks_off _ _ _ (by norm_num) (by norm_num)]; norm_num [sparseGo]
example : sampleSparse [(3, 1/4), (7, 1/2)] [] (4/5) = none := by
  rw [sparse_walks_off _ _ _ (by norm_num) (by norm_num)]; rfl

/-! ### 10. the full-strength totality statement is false

  The statement one would like (`sparse_total`):

      ∀ row rest u, (∀ e ∈ row, 0 ≤ e.2) → isProb (row.map (·.2)) = true → 0 ≤ u → u < 1 →
        ∃ c, sampleSparse row rest u = some c ∧ c ∈ row.map (·.1)

  fails: `isProbability` accepts a row whose sum is `1 - 2^-21` (within 1e-6 of 1), and the
  largest double below 1 is a draw at or above that sum. -/

theorem sparse_total_counterexample :
    ¬ (∀ (row rest : List (Nat × Rat)) (u : Rat), (∀ e ∈ row, 0 ≤ e.2) →
        isProb (row.map (·.2)) = true → 0 ≤ u → u < 1 →
        ∃ c, sampleSparse row rest u = some c ∧ c ∈ row.map (·.1)) := by
  intro h
  have h' := h [(0, 1/2), (1, 1/2 - 1/2^21)] [(2, 1)] (1 - 1/2^53) (by norm_num)
    (by norm_num [isProb, eqSmall, absQ, Gen.equalToleranceSmall]) (by norm_num) (by norm_num)
  norm_num [sampleSparse, sparseGo] at h'

/-! ## repaired sparse scan -/

theorem sparseGoFixed_mem : ∀ (row : List (Nat × Rat)) (p : Rat) (last : Nat),
    sparseGoFixed row p last ∈ last :: row.map (·.1)
  | [], p, last => by simp [sparseGoFixed]
  | (c, v) :: r, p, last => by
    simp only [sparseGoFixed]
    split
    · simp
    · have := sparseGoFixed_mem r (p - v) c
      simp only [List.map_cons]
      exact List.mem_cons_of_mem _ this

/-! ### 11. the repaired scan always returns a stored column of the row -/

theorem sparseFixed_in_support (d : Nat) (row : List (Nat × Rat)) (u : Rat) (hne : row ≠ []) :
    sampleSparseFixed d row u ∈ row.map (·.1) := by
  match row, hne with
  | [], h => exact absurd rfl h
  | (c, v) :: r, _ =>
    simp only [sampleSparseFixed, sparseGoFixed]
    split
    · simp
    · exact sparseGoFixed_mem r (u - v) c

-- test: a draw far outside [0,1) on a row that does not sum to one
example : sampleSparseFixed 10 [(3, 1/4), (7, 1/2)] 5 ∈ [((3 : Nat), (1/4 : Rat)), (7, 1/2)].map (·.1) :=
  sparseFixed_in_support _ _ _ (by simp)

/-! ### 12. … namely the one whose interval contains the draw (the last one for the slack) -/

theorem sparseGoFixed_char : ∀ (row : List (Nat × Rat)) (u : Rat) (last : Nat),
    (∀ e ∈ row, 0 ≤ e.2) → 0 ≤ u → row ≠ [] →
    ∃ k, ∃ hk : k < row.length, sparseGoFixed row u last = (row[k]).1 ∧
      cum (row.map (·.2)) k ≤ u ∧ (k + 1 < row.length → u < cum (row.map (·.2)) (k + 1))
  | [], _, _, _, _, h => absurd rfl h
  | [(c, v)], u, last, _, hu, _ => by
    refine ⟨0, by simp, ?_, by rw [cum_zero]; exact hu, by simp⟩
    simp only [sparseGoFixed]
    split <;> rfl
  | (c, v) :: e :: r, u, last, h, hu, _ => by
    have hr : ∀ x ∈ e :: r, 0 ≤ x.2 := fun x hx => h x (List.mem_cons_of_mem _ hx)
    by_cases hc : v > u
    · refine ⟨0, by simp, ?_, by rw [cum_zero]; exact hu, fun _ => ?_⟩
      · simp only [sparseGoFixed, if_pos hc]; rfl
      · simp only [List.map_cons, cum_cons_succ, cum_zero, add_zero]; exact hc
    · have hle : v ≤ u := not_lt.mp hc
      obtain ⟨k, hk, h1, h2, h3⟩ := sparseGoFixed_char (e :: r) (u - v) c hr (by linarith) (by simp)
      refine ⟨k + 1, by simpa using hk, ?_, ?_, ?_⟩
      · rw [sparseGoFixed, if_neg hc, h1]; rfl
      · rw [List.map_cons, cum_cons_succ]; linarith
      · intro hlt
        have := h3 (by simpa using hlt)
        rw [List.map_cons, cum_cons_succ]; linarith

theorem sparseFixed_char (d : Nat) (row : List (Nat × Rat)) (u : Rat) (hnn : ∀ e ∈ row, 0 ≤ e.2)
    (hu : 0 ≤ u) (hne : row ≠ []) :
    ∃ k, ∃ hk : k < row.length, sampleSparseFixed d row u = (row[k]).1 ∧
      cum (row.map (·.2)) k ≤ u ∧ (k + 1 < row.length → u < cum (row.map (·.2)) (k + 1)) :=
  sparseGoFixed_char row u (d - 1) hnn hu hne

-- test
example : sampleSparseFixed 10 [(3, 1/4), (7, 1/2)] (4/5) = 7 := by
  norm_num [sampleSparseFixed, sparseGoFixed]

/-! ### 13. below the row sum the repair does not change the result -/

theorem sparseGo_eq_fixed : ∀ (row rest : List (Nat × Rat)) (u : Rat) (last : Nat),
    (∀ e ∈ row, 0 ≤ e.2) → 0 ≤ u → u < (row.map (·.2)).sum →
    sparseGo (row ++ rest) u = some (sparseGoFixed row u last)
  | [], _, u, _, _, hu, hs => by simp at hs; linarith
  | (c, v) :: r, rest, u, last, h, hu, hs => by
    have hr : ∀ e ∈ r, 0 ≤ e.2 := fun e he => h e (List.mem_cons_of_mem _ he)
    simp only [List.map_cons, List.sum_cons] at hs
    simp only [List.cons_append, sparseGo, sparseGoFixed]
    by_cases hc : v > u
    · rw [if_pos hc, if_pos hc]
    · have hle : v ≤ u := not_lt.mp hc
      rw [if_neg hc, if_neg hc]
      exact sparseGo_eq_fixed r rest (u - v) c hr (by linarith) (by linarith)

theorem sparseFixed_agrees (d : Nat) (row rest : List (Nat × Rat)) (u : Rat)
    (hnn : ∀ e ∈ row, 0 ≤ e.2) (hu : 0 ≤ u) (hs : u < (row.map (·.2)).sum) :
    sampleSparse row rest u = some (sampleSparseFixed d row u) :=
  sparseGo_eq_fixed row rest u (d - 1) hnn hu hs

-- test
example : sampleSparse [(3, 1/4), (7, 3/4)] [(9, 1)] (1/2) =
    some (sampleSparseFixed 10 [(3, 1/4), (7, 3/4)] (1/2)) :=
  sparseFixed_agrees _ _ _ _ (by norm_num) (by norm_num) (by norm_num)

/-! ## 17. factored sampling: one in-range index per factor -/

theorem sampleFactored_in_range (rows : List (List Rat)) (us : List Rat)
    (hlen : rows.length = us.length) (hne : ∀ r ∈ rows, r ≠ []) :
    (sampleFactored rows us).length = rows.length ∧
      ∀ i (h : i < (sampleFactored rows us).length) (h' : i < rows.length),
        (sampleFactored rows us)[i] < (rows[i]).length := by
  unfold sampleFactored
  refine ⟨by simp [hlen], ?_⟩
  intro i h h'
  rw [List.getElem_zipWith]
  exact dense_in_range _ _ (hne _ (List.getElem_mem _))

-- test
example : (sampleFactored [[1/2, 1/2], [1/4, 1/4, 1/2]] [3/4, 1/3]).length = 2 :=
  (sampleFactored_in_range [[1/2, 1/2], [1/4, 1/4, 1/2]] [3/4, 1/3] rfl (by simp)).1

/-! ## slack from a sum that differs slightly from one: length of the preimage inside `[0,1)` -/

theorem cum_le_succ (l : List Rat) (k : Nat) (hnn : ∀ x ∈ l, 0 ≤ x) : cum l k ≤ cum l (k + 1) := by
  by_cases hk : k < l.length
  · rw [cum_succ_eq l k hk]
    have : 0 ≤ l.getD k 0 := by
      have e : l.getD k 0 = l[k] := by simp [List.getD_eq_getElem?_getD, hk]
      rw [e]; exact hnn _ (List.getElem_mem hk)
    linarith
  · rw [cum_of_length_le l k (by omega), cum_of_length_le l (k + 1) (by omega)]

theorem absQ_le_iff (q t : Rat) : absQ q ≤ t ↔ -t ≤ q ∧ q ≤ t := by
  unfold absQ
  split
  · constructor
    · intro h; constructor <;> linarith
    · rintro ⟨h1, h2⟩; linarith
  · constructor
    · intro h; constructor <;> linarith
    · rintro ⟨h1, h2⟩; linarith

/-- what `isProbability` accepts -/
theorem dense_isProb_iff (l : List Rat) : isProb l = true ↔
    (∀ x ∈ l, 0 ≤ x) ∧ absQ (l.sum - 1) ≤ Gen.equalToleranceSmall := by
  simp [isProb, eqSmall, List.all_eq_true]

/-- length of the set of draws in `[0,1)` mapped to index `k` (see `dense_preimage_unit`) -/
def preimageLen (l : List Rat) (k : Nat) : Rat :=
  if k + 1 < l.length then min (cum l (k + 1)) 1 - min (cum l k) 1 else 1 - min (cum l k) 1

/-! ### D1. inside `[0,1)` the preimage of `k` is `[min c_k 1, min c_{k+1} 1)`, resp. `[min c_{d-1} 1, 1)` -/

theorem dense_preimage_unit (l : List Rat) (u : Rat) (k : Nat) (hnn : ∀ x ∈ l, 0 ≤ x)
    (hne : l ≠ []) (hu : 0 ≤ u) (hu1 : u < 1) :
    (sampleDense l u = k ↔
      k < l.length ∧ min (cum l k) 1 ≤ u ∧ (k + 1 < l.length → u < min (cum l (k + 1)) 1)) := by
  rw [dense_preimage l u k hnn hu hne]
  have e1 : min (cum l k) 1 ≤ u ↔ cum l k ≤ u := by
    rw [min_le_iff]
    constructor
    · rintro (h | h)
      · exact h
      · linarith
    · intro h; exact Or.inl h
  have e2 : u < min (cum l (k + 1)) 1 ↔ u < cum l (k + 1) := by
    rw [lt_min_iff]
    exact ⟨fun h => h.1, fun h => ⟨h, hu1⟩⟩
  rw [e1, e2]

-- test: sum 5/4 > 1, the last index is never drawn from [0,1): its preimage [min(1,..),1) is empty
example : ¬ sampleDense [1/2, 1/2, 1/4] (99/100) = 2 := by
  rw [dense_preimage_unit _ _ _ (by norm_num) (by simp) (by norm_num) (by norm_num)]
  norm_num [cum]

/-! ### D2. for a vector accepted by `isProbability` that length is within the tolerance of `p_k` -/

theorem dense_preimage_length_valid (l : List Rat) (k : Nat) (hp : isProb l = true) (_hne : l ≠ [])
    (hk : k < l.length) :
    absQ (preimageLen l k - l.getD k 0) ≤ Gen.equalToleranceSmall := by
  obtain ⟨hnn, hs⟩ := (dense_isProb_iff l).mp hp
  obtain ⟨hs1, hs2⟩ := (absQ_le_iff _ _).mp hs
  have h0 : 0 ≤ cum l k := cum_nonneg l k hnn
  have h01 : cum l k ≤ cum l (k + 1) := cum_le_succ l k hnn
  have h1S : cum l (k + 1) ≤ l.sum := cum_le_sum l (k + 1) hnn
  have hpk : l.getD k 0 = cum l (k + 1) - cum l k := (dense_interval_length l k hk).symm
  rw [absQ_le_iff, hpk]
  unfold preimageLen
  by_cases hlt : k + 1 < l.length
  · rw [if_pos hlt]
    rcases le_total (cum l (k + 1)) 1 with a1 | a1
    · have a0 : cum l k ≤ 1 := le_trans h01 a1
      rw [min_eq_left a1, min_eq_left a0]
      constructor <;> linarith
    · rcases le_total (cum l k) 1 with a0 | a0
      · rw [min_eq_right a1, min_eq_left a0]
        constructor <;> linarith
      · rw [min_eq_right a1, min_eq_right a0]
        constructor <;> linarith
  · rw [if_neg hlt]
    have hS : cum l (k + 1) = l.sum := cum_of_length_le l (k + 1) (by omega)
    rcases le_total (cum l k) 1 with a0 | a0
    · rw [min_eq_left a0]
      constructor <;> linarith
    · rw [min_eq_right a0]
      constructor <;> linarith

-- test: the row of `sparse_total_counterexample` (sum 1 - 2^-21, accepted), last index has p = 0
-- but is drawn on a set of length 2^-21 ≤ 1e-6
example : absQ (preimageLen [1/2, 1/2 - 1/2^21, 0] 2 - ([1/2, 1/2 - 1/2^21, 0] : List Rat).getD 2 0)
    ≤ Gen.equalToleranceSmall :=
  dense_preimage_length_valid _ 2
    (by norm_num [isProb, eqSmall, absQ, Gen.equalToleranceSmall]) (by simp) (by simp)
example : preimageLen [1/2, 1/2 - 1/2^21, 0] 2 = 1/2^21 := by
  norm_num [preimageLen, cum]

/-! ### D3. … and exactly `p_k` when the entries sum to exactly one -/

theorem dense_preimage_length_exact (l : List Rat) (k : Nat) (hnn : ∀ x ∈ l, 0 ≤ x)
    (hsum : l.sum = 1) (hk : k < l.length) : preimageLen l k = l.getD k 0 := by
  have a0 : cum l k ≤ 1 := hsum ▸ cum_le_sum l k hnn
  have a1 : cum l (k + 1) ≤ 1 := hsum ▸ cum_le_sum l (k + 1) hnn
  have hpk := dense_interval_length l k hk
  unfold preimageLen
  by_cases hlt : k + 1 < l.length
  · rw [if_pos hlt, min_eq_left a1, min_eq_left a0]; exact hpk
  · rw [if_neg hlt, min_eq_left a0, ← hpk, cum_of_length_le l (k + 1) (by omega), hsum]

-- test
example : preimageLen [1/4, 1/2, 1/4] 1 = ([1/4, 1/2, 1/4] : List Rat).getD 1 0 :=
  dense_preimage_length_exact _ 1 (by norm_num) (by norm_num) (by simp)

/-! ## the sparse scan is the dense scan of the row's dense expansion -/

/-- dense expansion of a stored sparse row to `d` columns -/
def expandRow (d : Nat) (row : List (Nat × Rat)) : List Rat := (List.range d).map (sparseCoeff row)

/-- the expansion restricted to the `n` columns starting at `c0` -/
def expandFrom (c0 n : Nat) (row : List (Nat × Rat)) : List Rat :=
  (List.range' c0 n).map (sparseCoeff row)

theorem expandRow_eq (d : Nat) (row : List (Nat × Rat)) : expandRow d row = expandFrom 0 d row := by
  simp [expandRow, expandFrom, List.range_eq_range']

theorem sparseCoeff_nil (c : Nat) : sparseCoeff [] c = 0 := by simp [sparseCoeff]

theorem sparseCoeff_cons (c : Nat) (v : Rat) (r : List (Nat × Rat)) (c' : Nat) :
    sparseCoeff ((c, v) :: r) c' = (if c = c' then v else 0) + sparseCoeff r c' := by
  by_cases h : c = c'
  · simp [sparseCoeff, h]
  · simp [sparseCoeff, h]

theorem sparseCoeff_eq_zero : ∀ (row : List (Nat × Rat)) (c : Nat), (∀ e ∈ row, e.1 ≠ c) →
    sparseCoeff row c = 0
  | [], c, _ => sparseCoeff_nil c
  | (c1, v) :: r, c, h => by
    rw [sparseCoeff_cons, if_neg (h (c1, v) (List.mem_cons_self ..)),
      sparseCoeff_eq_zero r c (fun e he => h e (List.mem_cons_of_mem _ he)), add_zero]

/-- a zero entry is skipped without changing the remainder (the replicate-skip lemma) -/
theorem denseGo_replicate_zero : ∀ (k : Nat) (l : List Rat) (p : Rat) (i : Nat), 0 ≤ p →
    denseGo (List.replicate k 0 ++ l) p i = denseGo l p (i + k)
  | 0, l, p, i, _ => by simp
  | k + 1, l, p, i, hp => by
    have hc : ¬ (0 : Rat) > p := by intro h; linarith
    rw [List.replicate_succ, List.cons_append, denseGo, if_neg hc, sub_zero,
      denseGo_replicate_zero k l p (i + 1) hp]
    congr 1; omega

theorem expandFrom_succ (c0 n : Nat) (row : List (Nat × Rat)) :
    expandFrom c0 (n + 1) row = sparseCoeff row c0 :: expandFrom (c0 + 1) n row := by
  simp [expandFrom, List.range'_succ]

theorem expandFrom_hit (c0 n : Nat) (v : Rat) (r : List (Nat × Rat)) (h : ∀ e ∈ r, c0 < e.1) :
    expandFrom c0 (n + 1) ((c0, v) :: r) = v :: expandFrom (c0 + 1) n r := by
  rw [expandFrom_succ, sparseCoeff_cons, if_pos rfl,
    sparseCoeff_eq_zero r c0 (fun e he => by have := h e he; omega), add_zero]
  congr 1
  unfold expandFrom
  apply List.map_congr_left
  intro c' hc'
  have : c0 + 1 ≤ c' := (List.mem_range'_1.mp hc').1
  rw [sparseCoeff_cons, if_neg (by omega), zero_add]

theorem expandFrom_skip (c0 n : Nat) (row : List (Nat × Rat)) (h : ∀ e ∈ row, c0 < e.1) :
    expandFrom c0 (n + 1) row = 0 :: expandFrom (c0 + 1) n row := by
  rw [expandFrom_succ, sparseCoeff_eq_zero row c0 (fun e he => by have := h e he; omega)]

theorem denseGo_expandFrom : ∀ (n c0 : Nat) (row rest : List (Nat × Rat)) (p : Rat),
    row.Pairwise (fun a b => a.1 < b.1) → (∀ e ∈ row, c0 ≤ e.1 ∧ e.1 < c0 + n) →
    (∀ e ∈ row, 0 ≤ e.2) → 0 ≤ p → p < (row.map (·.2)).sum →
    denseGo (expandFrom c0 n row) p c0 = sparseGo (row ++ rest) p
  | _, _, [], _, _, _, _, _, hp, hs => by simp at hs; linarith
  | 0, c0, (c, v) :: r, _, _, _, hb, _, _, _ => by
    have := hb (c, v) (List.mem_cons_self ..)
    simp at this; omega
  | n + 1, c0, (c, v) :: r, rest, p, hpw, hb, hnn, hp, hs => by
    have hc := hb (c, v) (List.mem_cons_self ..)
    have hpw0 := hpw
    rw [List.pairwise_cons] at hpw
    obtain ⟨hgt, hpw'⟩ := hpw
    have hgt' : ∀ e ∈ r, c < e.1 := fun e he => hgt e he
    have hnn' : ∀ e ∈ r, 0 ≤ e.2 := fun e he => hnn e (List.mem_cons_of_mem _ he)
    by_cases hcc : c = c0
    · subst hcc
      rw [expandFrom_hit c n v r hgt']
      simp only [denseGo, List.cons_append, sparseGo]
      by_cases hv : v > p
      · rw [if_pos hv, if_pos hv]
      · rw [if_neg hv, if_neg hv]
        have hle : v ≤ p := not_lt.mp hv
        simp only [List.map_cons, List.sum_cons] at hs
        exact denseGo_expandFrom n (c + 1) r rest (p - v) hpw'
          (fun e he => ⟨hgt' e he, by have := (hb e (List.mem_cons_of_mem _ he)).2; omega⟩)
          hnn' (by linarith) (by linarith)
    · have hlt : ∀ e ∈ (c, v) :: r, c0 < e.1 := by
        intro e he
        rcases List.mem_cons.mp he with rfl | he
        · have := hc.1; simp at this ⊢; omega
        · have := hgt' e he; have := hc.1; simp at this; omega
      rw [expandFrom_skip c0 n _ hlt]
      have hz : ¬ (0 : Rat) > p := by intro h; linarith
      rw [denseGo, if_neg hz, sub_zero]
      exact denseGo_expandFrom n (c0 + 1) ((c, v) :: r) rest p hpw0
        (fun e he => ⟨hlt e he, by have := (hb e he).2; omega⟩) hnn hp hs

/-! ### S1. sampling the stored row = sampling its dense expansion (below the row sum) -/

theorem sparse_eq_dense_expansion (d : Nat) (row rest : List (Nat × Rat)) (u : Rat)
    (hpw : row.Pairwise (fun a b => a.1 < b.1)) (hlt : ∀ e ∈ row, e.1 < d)
    (hnn : ∀ e ∈ row, 0 ≤ e.2) (hu : 0 ≤ u) (hs : u < (row.map (·.2)).sum) :
    sampleSparse row rest u = some (sampleDense (expandRow d row) u) := by
  obtain ⟨c, hc, _⟩ := sparse_total_partial row rest u hnn hu hs
  have h := denseGo_expandFrom d 0 row rest u hpw
    (fun e he => ⟨Nat.zero_le _, by simpa using hlt e he⟩) hnn hu hs
  unfold sampleDense
  rw [expandRow_eq, h]
  simp only [sampleSparse] at hc ⊢
  rw [hc]; rfl

-- test: stored columns 1 and 3 of a 5-column row; draw 1/2 → column 3 either way
example : sampleSparse [(1, 1/4), (3, 3/4)] [(0, 1)] (1/2) =
    some (sampleDense (expandRow 5 [(1, 1/4), (3, 3/4)]) (1/2)) :=
  sparse_eq_dense_expansion 5 _ _ _ (by simp) (by simp) (by norm_num) (by norm_num) (by norm_num)
example : expandRow 5 [(1, 1/4), (3, 3/4)] = [0, 1/4, 0, 3/4, 0] := by
  simp [expandRow, List.range_succ, sparseCoeff]
example : sampleDense (expandRow 5 [(1, 1/4), (3, 3/4)]) (1/2) = 3 := by
  norm_num [expandRow, List.range_succ, sparseCoeff, List.filter_cons, sampleDense, denseGo]

/-! ### S2. the expansion has the same sum as the stored values -/

theorem expandFrom_sum : ∀ (n c0 : Nat) (row : List (Nat × Rat)),
    row.Pairwise (fun a b => a.1 < b.1) → (∀ e ∈ row, c0 ≤ e.1 ∧ e.1 < c0 + n) →
    (expandFrom c0 n row).sum = (row.map (·.2)).sum
  | n, c0, [], _, _ => by
    have e : sparseCoeff [] = fun _ => (0 : Rat) := funext sparseCoeff_nil
    simp [expandFrom, e]
  | 0, c0, (c, v) :: r, _, hb => by
    have := hb (c, v) (List.mem_cons_self ..)
    simp at this; omega
  | n + 1, c0, (c, v) :: r, hpw, hb => by
    have hc := hb (c, v) (List.mem_cons_self ..)
    have hpw0 := hpw
    rw [List.pairwise_cons] at hpw
    obtain ⟨hgt, hpw'⟩ := hpw
    have hgt' : ∀ e ∈ r, c < e.1 := fun e he => hgt e he
    by_cases hcc : c = c0
    · subst hcc
      rw [expandFrom_hit c n v r hgt', List.map_cons, List.sum_cons, List.sum_cons,
        expandFrom_sum n (c + 1) r hpw'
          (fun e he => ⟨hgt' e he, by have := (hb e (List.mem_cons_of_mem _ he)).2; omega⟩)]
    · have hlt : ∀ e ∈ (c, v) :: r, c0 < e.1 := by
        intro e he
        rcases List.mem_cons.mp he with rfl | he
        · have := hc.1; simp at this ⊢; omega
        · have := hgt' e he; have := hc.1; simp at this; omega
      rw [expandFrom_skip c0 n _ hlt, List.sum_cons, zero_add]
      exact expandFrom_sum n (c0 + 1) ((c, v) :: r) hpw0
        (fun e he => ⟨hlt e he, by have := (hb e he).2; omega⟩)

theorem expandRow_sum (d : Nat) (row : List (Nat × Rat))
    (hpw : row.Pairwise (fun a b => a.1 < b.1)) (hlt : ∀ e ∈ row, e.1 < d) :
    (expandRow d row).sum = (row.map (·.2)).sum := by
  rw [expandRow_eq]
  exact expandFrom_sum d 0 row hpw (fun e he => ⟨Nat.zero_le _, by simpa using hlt e he⟩)

-- test
example : (expandRow 5 [(1, 1/4), (3, 3/4)]).sum = 1 := by
  rw [expandRow_sum 5 _ (by simp) (by simp)]; norm_num

/-! ### S3. the expansion holds the stored value at the stored column -/

theorem sparseCoeff_of_mem : ∀ (row : List (Nat × Rat)) (e : Nat × Rat),
    row.Pairwise (fun a b => a.1 < b.1) → e ∈ row → sparseCoeff row e.1 = e.2
  | [], _, _, he => by simp at he
  | (c, v) :: r, e, hpw, he => by
    rw [List.pairwise_cons] at hpw
    obtain ⟨hgt, hpw'⟩ := hpw
    have hgt' : ∀ x ∈ r, c < x.1 := fun x hx => hgt x hx
    rcases List.mem_cons.mp he with rfl | he
    · rw [sparseCoeff_cons, if_pos rfl,
        sparseCoeff_eq_zero r c (fun x hx => by have := hgt' x hx; omega), add_zero]
    · have := hgt' e he
      rw [sparseCoeff_cons, if_neg (by omega), zero_add, sparseCoeff_of_mem r e hpw' he]

theorem expandRow_getD_col (d : Nat) (row : List (Nat × Rat)) (c : Nat) (hc : c < d) :
    (expandRow d row).getD c 0 = sparseCoeff row c := by
  simp [expandRow, List.getD_eq_getElem?_getD, hc]

theorem expandRow_getD (d : Nat) (row : List (Nat × Rat)) (k : Nat) (hk : k < row.length)
    (hpw : row.Pairwise (fun a b => a.1 < b.1)) (hlt : ∀ e ∈ row, e.1 < d) :
    (expandRow d row).getD (row[k]).1 0 = (row[k]).2 := by
  rw [expandRow_getD_col d row _ (hlt _ (List.getElem_mem hk))]
  exact sparseCoeff_of_mem row _ hpw (List.getElem_mem hk)

-- test
example : (expandRow 5 [(1, 1/4), (3, 3/4)]).getD 3 0 = 3/4 :=
  expandRow_getD 5 [(1, 1/4), (3, 3/4)] 1 (by simp) (by simp) (by simp)

/-! ## range safety does not depend on the arithmetic

  The scans with the comparison `gt` and the subtraction `sub` left abstract: whatever they
  compute (IEEE rounding of `p -= in[i]`, comparisons involving NaN, …) the dense scan and the
  repaired sparse scan stay in range; the sparse scan as it is does not. -/

def denseGoA (gt : Rat → Rat → Bool) (sub : Rat → Rat → Rat) : List Rat → Rat → Nat → Option Nat
  | [], _, _ => none
  | x :: xs, p, i => if gt x p then some i else denseGoA gt sub xs (sub p x) (i + 1)

def sampleDenseA (gt : Rat → Rat → Bool) (sub : Rat → Rat → Rat) (l : List Rat) (u : Rat) : Nat :=
  (denseGoA gt sub l u 0).getD (l.length - 1)

def sparseGoFixedA (gt : Rat → Rat → Bool) (sub : Rat → Rat → Rat) :
    List (Nat × Rat) → Rat → Nat → Nat
  | [], _, last => last
  | (c, v) :: r, p, _ => if gt v p then c else sparseGoFixedA gt sub r (sub p v) c

def sparseGoA (gt : Rat → Rat → Bool) (sub : Rat → Rat → Rat) : List (Nat × Rat) → Rat → Option Nat
  | [], _ => none
  | (c, v) :: r, p => if gt v p then some c else sparseGoA gt sub r (sub p v)

theorem denseGoA_range (gt : Rat → Rat → Bool) (sub : Rat → Rat → Rat) :
    ∀ (l : List Rat) (p : Rat) (i0 j : Nat),
      denseGoA gt sub l p i0 = some j → i0 ≤ j ∧ j < i0 + l.length
  | [], _, _, _, h => by simp [denseGoA] at h
  | x :: xs, p, i0, j, h => by
    simp only [denseGoA] at h
    split at h
    · simp only [Option.some.injEq] at h; subst h; simp
    · have := denseGoA_range gt sub xs (sub p x) (i0 + 1) j h
      simp only [List.length_cons]; omega

/-! ### A1. the dense scan returns an index of the row under any arithmetic -/

theorem denseA_in_range (gt : Rat → Rat → Bool) (sub : Rat → Rat → Rat) (l : List Rat) (u : Rat)
    (hne : l ≠ []) : sampleDenseA gt sub l u < l.length := by
  have hlen : 0 < l.length := List.length_pos_of_ne_nil hne
  unfold sampleDenseA
  cases h : denseGoA gt sub l u 0 with
  | none => simp only [Option.getD_none]; omega
  | some j =>
    have := (denseGoA_range gt sub l u 0 j h).2
    simp only [Option.getD_some]; omega

-- test: absurd arithmetic (every comparison false, every subtraction 0): fall-through to d-1
example : sampleDenseA (fun _ _ => false) (fun _ _ => 0) [1/4, 1/2, 1/4] (1/10) = 2 := by
  simp [sampleDenseA, denseGoA]
example : sampleDenseA (fun _ _ => false) (fun _ _ => 0) [1/4, 1/2, 1/4] (1/10)
    < [1/4, 1/2, (1/4 : Rat)].length :=
  denseA_in_range _ _ _ _ (by simp)

/-! ### A2. the exact instance is the model -/

theorem denseGoA_exact : ∀ (l : List Rat) (p : Rat) (i : Nat),
    denseGoA (fun a b => decide (a > b)) (fun a b => a - b) l p i = denseGo l p i
  | [], _, _ => rfl
  | x :: xs, p, i => by
    simp only [denseGoA, denseGo, decide_eq_true_eq]
    rw [denseGoA_exact xs (p - x) (i + 1)]

theorem denseA_exact (l : List Rat) (u : Rat) :
    sampleDenseA (fun a b => decide (a > b)) (fun a b => a - b) l u = sampleDense l u := by
  unfold sampleDenseA sampleDense
  rw [denseGoA_exact]

-- test
example : sampleDenseA (fun a b => decide (a > b)) (fun a b => a - b) [1/4, 1/2, 1/4] (1/2) = 1 := by
  rw [denseA_exact]; norm_num [sampleDense, denseGo]

/-! ### A3. the repaired sparse scan returns a stored column under any arithmetic -/

theorem sparseGoFixedA_mem (gt : Rat → Rat → Bool) (sub : Rat → Rat → Rat) :
    ∀ (row : List (Nat × Rat)) (p : Rat) (last : Nat),
      sparseGoFixedA gt sub row p last ∈ last :: row.map (·.1)
  | [], p, last => by simp [sparseGoFixedA]
  | (c, v) :: r, p, last => by
    simp only [sparseGoFixedA]
    split
    · simp
    · have := sparseGoFixedA_mem gt sub r (sub p v) c
      simp only [List.map_cons]
      exact List.mem_cons_of_mem _ this

theorem sparseFixedA_in_support (gt : Rat → Rat → Bool) (sub : Rat → Rat → Rat)
    (row : List (Nat × Rat)) (u : Rat) (d : Nat) (hne : row ≠ []) :
    sparseGoFixedA gt sub row u (d - 1) ∈ row.map (·.1) := by
  match row, hne with
  | [], h => exact absurd rfl h
  | (c, v) :: r, _ =>
    simp only [sparseGoFixedA]
    split
    · simp
    · exact sparseGoFixedA_mem gt sub r (sub u v) c

-- test: absurd arithmetic → last stored column
example : sparseGoFixedA (fun _ _ => false) (fun _ _ => 0) [(3, 1/4), (7, 1/2)] (1/10) (10 - 1)
    ∈ [((3 : Nat), (1/4 : Rat)), (7, 1/2)].map (·.1) :=
  sparseFixedA_in_support _ _ _ _ _ (by simp)
example : sparseGoFixedA (fun _ _ => false) (fun _ _ => 0) [(3, 1/4), (7, 1/2)] (1/10) 9 = 7 := by
  simp [sparseGoFixedA]

/-! ### A4. the exact instance is the model -/

theorem sparseFixedA_exact : ∀ (row : List (Nat × Rat)) (u : Rat) (last : Nat),
    sparseGoFixedA (fun a b => decide (a > b)) (fun a b => a - b) row u last
      = sparseGoFixed row u last
  | [], _, _ => rfl
  | (c, v) :: r, u, last => by
    simp only [sparseGoFixedA, sparseGoFixed, decide_eq_true_eq]
    rw [sparseFixedA_exact r (u - v) c]

-- test
example : sparseGoFixedA (fun a b => decide (a > b)) (fun a b => a - b) [(3, 1/4), (7, 1/2)] (4/5) 9
    = 7 := by
  rw [sparseFixedA_exact]; norm_num [sparseGoFixed]

/-! ### A5. the sparse scan as it is: the exact instance is the model, and when no comparison
    succeeds (e.g. every comparison involves NaN) it walks off every row -/

theorem sparseGoA_exact : ∀ (entries : List (Nat × Rat)) (u : Rat),
    sparseGoA (fun a b => decide (a > b)) (fun a b => a - b) entries u = sparseGo entries u
  | [], _ => rfl
  | (c, v) :: r, u => by
    simp only [sparseGoA, sparseGo, decide_eq_true_eq]
    rw [sparseGoA_exact r (u - v)]

theorem sparseA_none_of_all_false (gt : Rat → Rat → Bool) (sub : Rat → Rat → Rat) :
    ∀ (entries : List (Nat × Rat)) (u : Rat), (∀ e ∈ entries, ∀ p, gt e.2 p = false) →
      sparseGoA gt sub entries u = none
  | [], _, _ => rfl
  | (c, v) :: r, u, h => by
    have hv : gt v u = false := h (c, v) (List.mem_cons_self ..) u
    simp only [sparseGoA, hv]
    exact sparseA_none_of_all_false gt sub r (sub u v) (fun e he => h e (List.mem_cons_of_mem _ he))

-- test
example : sparseGoA (fun _ _ => false) (fun a b => a - b) [(3, 1/4), (7, 3/4), (9, 1)] (1/2) = none :=
  sparseA_none_of_all_false _ _ _ _ (by simp)

end AITB.Sampling
