/-
  AITB.Props.C15Mdp — Factored::MDP::LinearProgramming::solveLP: the LP the code builds has a solution extending the
  weights `w` iff  R(s,a) + γ Σ_k w_k g_k(s,a) ≤ Σ_k w_k h_k(s)  at every joint state and action — when `makeResult`
  pushes ONE row for the sum of the final factors (`mdpLP_equiv`, the repaired code, fixes/C15-1).  As written (one row
  per final factor) only soundness holds (`mdpLP_sound`): returned weights always satisfy the flat constraints, but the
  optimum can be cut off (finding C15-mdp-lp-per-component-rows).
-/
import AITB.Props.C15Top

namespace AITB.FLP
open AITB.Factored AITB.VE

theorem shift_zero (u : Nat → Rat) : shift u 0 = u := by funext c; simp [shift]

/-! ## the final rows -/

theorem mdpFinalRows_joined_sat (u : Nat → Rat) (finals : List Nat) :
    (∀ r ∈ mdpFinalRows true finals, r.sat u) ↔ sumU u finals ≤ 0 := by
  simp [mdpFinalRows, CRow.sat, lhs_pos0]

theorem mdpFinalRows_split_sat (u : Nat → Rat) (finals : List Nat) :
    (∀ r ∈ mdpFinalRows false finals, r.sat u) ↔ ∀ c ∈ finals, u c ≤ 0 := by
  simp only [mdpFinalRows, Bool.false_eq_true, if_false, List.mem_map]
  constructor
  · intro h c hc
    have := h _ ⟨c, hc, rfl⟩
    simpa [CRow.sat, lhs] using this
  · rintro h r ⟨c, hc, rfl⟩
    simpa [CRow.sat, lhs] using h c hc

theorem sumU_nonpos (u : Nat → Rat) : ∀ (l : List Nat), (∀ c ∈ l, u c ≤ 0) → sumU u l ≤ 0
  | [], _ => by simp [sumU]
  | c :: cs, h => by
    have h1 := h c (List.mem_cons_self ..)
    have h2 := sumU_nonpos u cs (fun c' hc' => h c' (List.mem_cons_of_mem _ hc'))
    simp only [sumU]; linarith

/-- per-final rows imply the joined row -/
theorem mdpFinalRows_sound (u : Nat → Rat) (joined : Bool) (finals : List Nat)
    (h : ∀ r ∈ mdpFinalRows joined finals, r.sat u) : sumU u finals ≤ 0 := by
  cases joined with
  | true => exact (mdpFinalRows_joined_sat u finals).mp h
  | false => exact sumU_nonpos u finals ((mdpFinalRows_split_sat u finals).mp h)

/-- the run from a set-up state (one column per factor): soundness for either shape of the final rows, completeness for
    the joined row -/
theorem mdp_core (F : List Nat) (hF : ∀ d ∈ F, 0 < d) (st0 : GenSt)
    (hl : LInvL (List.range F.length) st0.graph) (hc : CInv 1 st0) (hr : RInv st0)
    (u : Nat → Rat) (hu : ∀ r ∈ st0.rows, r.sat u) (joined : Bool) :
    ((∃ u', (∀ c, c < st0.ncols → u' c = u c) ∧
        ∀ r ∈ (genRun F F.length 1 st0).rows ++ mdpFinalRows joined (genRun F F.length 1 st0).finals, r.sat u') →
      ∀ x, Valid F x → stVal u F x st0 ≤ 0) ∧
    (joined = true → (∀ x, Valid F x → stVal u F x st0 ≤ 0) →
      ∃ u', (∀ c, c < st0.ncols → u' c = u c) ∧
        ∀ r ∈ (genRun F F.length 1 st0).rows ++ mdpFinalRows joined (genRun F F.length 1 st0).finals, r.sat u') := by
  have spec := genLoop_spec F 1 hF F.length (List.range F.length) st0 (by simp) (fun w hw => List.mem_range.mp hw) hl hc hr
  simp only [genRun]
  constructor
  · rintro ⟨u', hag, hsat⟩ x hx
    have h1 := spec.sound u' (fun r h => hsat r (List.mem_append.mpr (Or.inl h))) 0 (by omega) x hx
    have h2 := mdpFinalRows_sound u' joined _ (fun r h => hsat r (List.mem_append.mpr (Or.inr h)))
    rw [stVal_congr_below 1 st0 hc u u' hag 0 (by omega)] at h1
    rw [shift_zero, shift_zero] at h1
    linarith
  · intro hj h
    subst hj
    obtain ⟨u', hag, hsat, hatt⟩ := spec.complete u hu
    refine ⟨u', hag, ?_⟩
    intro r hr'
    rcases List.mem_append.mp hr' with h' | h'
    · exact hsat r h'
    · refine (mdpFinalRows_joined_sat u' _).mpr ?_ r h'
      obtain ⟨a', ha', e⟩ := hatt 0 (by omega)
      rw [shift_zero, shift_zero] at e
      rw [e]; exact h a' ha'

/-! ## naming the kept entries of one basis (zero entries are skipped) -/

/-- (rule index, LP column, value) of every entry the loop keeps -/
def mdpEntries (idx : Nat → Nat) : List Rat → Nat → Nat → List (Nat × Nat × Rat)
  | [], _, _ => []
  | q :: qs, i, col => if isZeroSmall q then mdpEntries idx qs (i+1) col else (idx i, col, q) :: mdpEntries idx qs (i+1) (col+1)

theorem mdpEntryLoop_eq (mk : Nat → Rat → CRow) (idx : Nat → Nat) : ∀ (vals : List Rat) (i col : Nat),
    mdpEntryLoop mk idx vals i col
      = ((mdpEntries idx vals i col).map (fun e => (e.1, e.2.1)), (mdpEntries idx vals i col).map (fun e => mk e.2.1 e.2.2))
  | [], _, _ => rfl
  | q :: qs, i, col => by
    simp only [mdpEntryLoop, mdpEntries]
    split
    · exact mdpEntryLoop_eq mk idx qs (i+1) col
    · simp only [mdpEntryLoop_eq mk idx qs (i+1) (col+1), List.map_cons]

/-- the columns of an entry list are consecutive from `col` -/
def Consec : Nat → List (Nat × Nat × Rat) → Prop
  | _, [] => True
  | col, e :: es => e.2.1 = col ∧ Consec (col+1) es

theorem mdpEntries_consec (idx : Nat → Nat) : ∀ (vals : List Rat) (i col : Nat), Consec col (mdpEntries idx vals i col)
  | [], _, _ => trivial
  | q :: qs, i, col => by
    simp only [mdpEntries]
    split
    · exact mdpEntries_consec idx qs (i+1) col
    · exact ⟨rfl, mdpEntries_consec idx qs (i+1) (col+1)⟩

theorem consec_bounds : ∀ (E : List (Nat × Nat × Rat)) (col : Nat), Consec col E → ∀ e ∈ E, col ≤ e.2.1 ∧ e.2.1 < col + E.length
  | [], _, _, e, h => by simp at h
  | e0 :: es, col, hc, e, h => by
    rcases List.mem_cons.mp h with h | h
    · subst h; simp only [List.length_cons]; have := hc.1; omega
    · have := consec_bounds es (col+1) hc.2 e h
      simp only [List.length_cons]; omega

/-- Σ of the values of the kept entries stored under index `j` -/
def qSum (j : Nat) : List (Nat × Nat × Rat) → Rat
  | [] => 0
  | e :: es => (if e.1 = j then e.2.2 else 0) + qSum j es

/-- Σ_t [idx (i+t) = j] · vals[t] -/
def selSum (idx : Nat → Nat) (j : Nat) : List Rat → Nat → Rat
  | [], _ => 0
  | q :: qs, i => (if idx i = j then q else 0) + selSum idx j qs (i+1)

/-- entries skipped as "zero" are exactly zero (no value in (0, 1e-6]) -/
def NoTiny (vals : List Rat) : Prop := ∀ q ∈ vals, isZeroSmall q = true → q = 0

theorem qSum_mdpEntries (idx : Nat → Nat) (j : Nat) : ∀ (vals : List Rat) (i col : Nat), NoTiny vals →
    qSum j (mdpEntries idx vals i col) = selSum idx j vals i
  | [], _, _, _ => rfl
  | q :: qs, i, col, h => by
    have ht : NoTiny qs := fun q' hq' => h q' (List.mem_cons_of_mem _ hq')
    simp only [mdpEntries, selSum]
    split
    · rename_i hz
      rw [qSum_mdpEntries idx j qs (i+1) col ht, h q (List.mem_cons_self ..) hz]; simp
    · simp only [qSum, qSum_mdpEntries idx j qs (i+1) (col+1) ht]

theorem selSum_none (idx : Nat → Nat) (j : Nat) : ∀ (vals : List Rat) (i : Nat),
    (∀ t, t < vals.length → idx (i + t) ≠ j) → selSum idx j vals i = 0
  | [], _, _ => rfl
  | q :: qs, i, h => by
    have h0 : idx i ≠ j := by have := h 0 (by simp); simpa using this
    simp only [selSum, h0, if_false]
    rw [selSum_none idx j qs (i+1) (fun t ht => by
      have := h (t+1) (by simp; omega)
      have e : i + 1 + t = i + (t + 1) := by omega
      rw [e]; exact this)]
    simp

/-- with an index map injective on the entries, the entry stored under `idx (i+t0)` is `vals[t0]` -/
theorem selSum_pick (idx : Nat → Nat) : ∀ (vals : List Rat) (i t0 : Nat), t0 < vals.length →
    (∀ t, t < vals.length → idx (i + t) = idx (i + t0) → t = t0) → selSum idx (idx (i + t0)) vals i = vals.getD t0 0
  | [], _, t0, h, _ => by simp at h
  | q :: qs, i, t0, ht0, hinj => by
    simp only [selSum]
    cases t0 with
    | zero =>
      simp only [Nat.add_zero, if_true, List.getD_cons_zero]
      rw [selSum_none idx (idx i) qs (i+1) (fun t ht hc => by
        have := hinj (t+1) (by simp; omega) (by
          have e : i + (t + 1) = i + 1 + t := by omega
          rw [e, hc, Nat.add_zero])
        omega)]
      simp
    | succ t0 =>
      have hne : idx i ≠ idx (i + (t0 + 1)) := by
        intro hc
        have := hinj 0 (by simp) (by simpa using hc)
        omega
      have e : i + (t0 + 1) = i + 1 + t0 := by omega
      simp only [hne, if_false, List.getD_cons_succ]
      rw [e, selSum_pick idx qs (i+1) t0 (by simpa using ht0) (fun t ht hc => by
        have := hinj (t+1) (by simp; omega) (by
          have e1 : i + (t + 1) = i + 1 + t := by omega
          rw [e1, hc, e])
        omega)]
      simp

/-! ## one round of a setup loop -/

def entRules (E : List (Nat × Nat × Rat)) : List (Nat × Nat) := E.map (fun e => (e.1, e.2.1))

def addEntries (mk : Nat → Rat → CRow) (keys : List Nat) (E : List (Nat × Nat × Rat)) (st : GenSt) : GenSt :=
  mdpApply keys (entRules E, E.map (fun e => mk e.2.1 e.2.2)) st

/-- a row maker whose row says `u col = α u · q`, `α` reading only columns below `base` -/
structure MkSpec1 (mk : Nat → Rat → CRow) (α : (Nat → Rat) → Rat) (base : Nat) : Prop where
  sat : ∀ u c q, (mk c q).sat u ↔ u c = α u * q
  ent : ∀ c q, base ≤ c → ∀ e ∈ (mk c q).ent, e.1 < c + 1
  loc : ∀ u u', (∀ c, c < base → u' c = u c) → α u' = α u

/-- every kept entry's column holds `α u · value` -/
def NamedE (α : (Nat → Rat) → Rat) (u : Nat → Rat) (E : List (Nat × Nat × Rat)) : Prop := ∀ e ∈ E, u e.2.1 = α u * e.2.2

theorem pick_entRules (u : Nat → Rat) (α : (Nat → Rat) → Rat) (j : Nat) : ∀ (E : List (Nat × Nat × Rat)), NamedE α u E →
    sumU u (pick j (entRules E)) = α u * qSum j E
  | [], _ => by simp [pick, entRules, sumU, qSum]
  | e :: es, h => by
    have ih := pick_entRules u α j es (fun e' he' => h e' (List.mem_cons_of_mem _ he'))
    have he := h e (List.mem_cons_self ..)
    simp only [pick, entRules, List.map_cons, List.filter, qSum] at ih ⊢
    by_cases c : e.1 = j
    · simp only [c, beq_self_eq_true, List.map_cons, sumU, ih, if_true, he]; ring
    · have c' : (e.1 == j) = false := by simpa using c
      simp only [c', ih, c, if_false]; ring

section ae
variable (mk : Nat → Rat → CRow) (α : (Nat → Rat) → Rat) (base : Nat) (hmk : MkSpec1 mk α base)
include hmk

theorem addEntries_rows (keys : List Nat) (E : List (Nat × Nat × Rat)) (st : GenSt) (u : Nat → Rat) :
    (∀ r ∈ (addEntries mk keys E st).rows, r.sat u) ↔ (∀ r ∈ st.rows, r.sat u) ∧ NamedE α u E := by
  simp only [addEntries, mdpApply, List.mem_append, List.mem_map, NamedE]
  constructor
  · intro h
    exact ⟨fun r hr => h r (Or.inl hr), fun e he => (hmk.sat u _ _).mp (h _ (Or.inr ⟨e, he, rfl⟩))⟩
  · rintro ⟨h1, h2⟩ r hr
    rcases hr with hr | ⟨e, he, rfl⟩
    · exact h1 r hr
    · exact (hmk.sat u _ _).mpr (h2 e he)

omit hmk in
theorem addEntries_val (keys : List Nat) (E : List (Nat × Nat × Rat)) (st : GenSt) (u : Nat → Rat) (F x : List Nat) (hN : NamedE α u E) :
    stVal u F x (addEntries mk keys E st) = stVal u F x st + α u * qSum (toIndexPartial keys F x) E := by
  simp only [stVal, addEntries, mdpApply, gVal_addRules, pick_entRules u α _ E hN]; ring

theorem addEntries_inv (keys : List Nat) (E : List (Nat × Nat × Rat)) (st : GenSt) (hb : base ≤ st.ncols)
    (hE : Consec st.ncols E) (hc : CInv 1 st) (hr : RInv st) :
    CInv 1 (addEntries mk keys E st) ∧ RInv (addEntries mk keys E st) ∧ (addEntries mk keys E st).ncols = st.ncols + E.length := by
  have hlen : (entRules E).length = E.length := by simp [entRules]
  refine ⟨⟨?_, ?_⟩, ?_, by simp [addEntries, mdpApply, hlen]⟩
  · intro nd hnd r hr'
    simp only [addEntries, mdpApply, hlen] at hnd ⊢
    rcases addRules_rules keys _ st.graph nd hnd r hr' with h | ⟨nd', h1, h2⟩
    · simp only [entRules, List.mem_map] at h
      obtain ⟨e, he, rfl⟩ := h
      have := consec_bounds E st.ncols hE e he
      simp only; omega
    · have := hc.1 nd' h1 r h2; omega
  · intro c hcm
    have := hc.2 c hcm
    simp only [addEntries, mdpApply, hlen]; omega
  · intro r hr' e he
    simp only [addEntries, mdpApply, List.mem_append, List.mem_map, hlen] at hr' ⊢
    rcases hr' with h | ⟨e', he', rfl⟩
    · have := hr r h e he; omega
    · have b := consec_bounds E st.ncols hE e' he'
      have := hmk.ent e'.2.1 e'.2.2 (by omega) e he
      omega

/-- every valuation extends over the columns of the kept entries -/
theorem addEntries_extend : ∀ (E : List (Nat × Nat × Rat)) (col : Nat), base ≤ col → Consec col E → ∀ (u : Nat → Rat),
    ∃ u', (∀ c, c < col → u' c = u c) ∧ NamedE α u' E
  | [], _, _, _, u => ⟨u, fun _ _ => rfl, fun e h => by simp at h⟩
  | e :: es, col, hb, hc, u => by
    obtain ⟨u2, hag2, hN2⟩ := addEntries_extend es (col+1) (by omega) hc.2 (fun c => if c = col then α u * e.2.2 else u c)
    refine ⟨u2, fun c h => by rw [hag2 c (by omega)]; simp [Nat.ne_of_lt h], ?_⟩
    intro e' he'
    rcases List.mem_cons.mp he' with h | h
    · subst h
      have hlow : ∀ c, c < base → u2 c = u c := by
        intro c hcb
        have hne : c ≠ col := by omega
        rw [hag2 c (by omega)]; simp [hne]
      have e1 : α u2 = α u := hmk.loc u u2 hlow
      rw [hc.1, hag2 col (by omega), e1]; simp
    · exact hN2 e' h

end ae

/-! ## a whole setup loop over "items" (key set, values, index map) -/

structure Item where
  keys : List Nat
  vals : List Rat
  idx : Nat → Nat

def itemsLoop (mkOf : Nat → Nat → Rat → CRow) : List Item → Nat → GenSt → GenSt
  | [], _, st => st
  | it :: its, k, st => itemsLoop mkOf its (k+1) (addEntries (mkOf k) it.keys (mdpEntries it.idx it.vals 0 st.ncols) st)

def NamedI (αOf : Nat → (Nat → Rat) → Rat) (u : Nat → Rat) : List Item → Nat → Nat → Prop
  | [], _, _ => True
  | it :: its, k, col => NamedE (αOf k) u (mdpEntries it.idx it.vals 0 col)
      ∧ NamedI αOf u its (k+1) (col + (mdpEntries it.idx it.vals 0 col).length)

/-- Σ over the items of `α_k u ·` (the value stored under the index of `x`) -/
def sumI (F : List Nat) (αOf : Nat → (Nat → Rat) → Rat) (u : Nat → Rat) : List Item → Nat → List Nat → Rat
  | [], _, _ => 0
  | it :: its, k, x => αOf k u * selSum it.idx (toIndexPartial it.keys F x) it.vals 0 + sumI F αOf u its (k+1) x

structure ItemsSpec (F : List Nat) (αOf : Nat → (Nat → Rat) → Rat) (L : List Item) (k : Nat) (st st' : GenSt) : Prop where
  cinv : CInv 1 st'
  rinv : RInv st'
  ncols_le : st.ncols ≤ st'.ncols
  keys : ∀ nd ∈ st'.graph, (∃ it ∈ L, nd.keys = it.keys) ∨ ∃ nd' ∈ st.graph, nd'.keys = nd.keys
  finals : st'.finals = st.finals
  rows : ∀ u, (∀ r ∈ st'.rows, r.sat u) ↔ (∀ r ∈ st.rows, r.sat u) ∧ NamedI αOf u L k st.ncols
  val : ∀ u, NamedI αOf u L k st.ncols → ∀ x, stVal u F x st' = stVal u F x st + sumI F αOf u L k x
  ext : ∀ u : Nat → Rat, ∃ u' : Nat → Rat, (∀ c, c < st.ncols → u' c = u c) ∧ NamedI αOf u' L k st.ncols

/-- `NamedI` reads only columns below `base` (through α) and the loop's own columns; later columns are irrelevant -/
theorem NamedI_congr (mkOf : Nat → Nat → Rat → CRow) (αOf : Nat → (Nat → Rat) → Rat) (base kmax : Nat)
    (hmk : ∀ k, k < kmax → MkSpec1 (mkOf k) (αOf k) base) (u u' : Nat → Rat) :
    ∀ (L : List Item) (k col bound : Nat), k + L.length ≤ kmax → base ≤ col →
      (∀ c, c < bound → u' c = u c) →
      (itemsLoop mkOf L k ⟨[], [], col, []⟩).ncols ≤ bound → NamedI αOf u L k col → NamedI αOf u' L k col
  | [], _, _, _, _, _, _, _, _ => trivial
  | it :: its, k, col, bound, hk, hb, hag, hbd, hN => by
    have hm := hmk k (by simp at hk; omega)
    have hmono : ∀ (L : List Item) (k : Nat) (st : GenSt), st.ncols ≤ (itemsLoop mkOf L k st).ncols := by
      intro L
      induction L with
      | nil => intro k st; exact le_refl _
      | cons a as ih =>
        intro k st
        simp only [itemsLoop]
        refine le_trans ?_ (ih (k+1) _)
        simp [addEntries, mdpApply]
    have hcols : ∀ (L : List Item) (k : Nat) (st1 st2 : GenSt), st1.ncols = st2.ncols →
        (itemsLoop mkOf L k st1).ncols = (itemsLoop mkOf L k st2).ncols := by
      intro L
      induction L with
      | nil => intro k st1 st2 h; exact h
      | cons a as ih =>
        intro k st1 st2 h
        simp only [itemsLoop]
        apply ih
        simp [addEntries, mdpApply, h]
    simp only [itemsLoop] at hbd
    have hn1 : (addEntries (mkOf k) it.keys (mdpEntries it.idx it.vals 0 col) ⟨[], [], col, []⟩).ncols
        = col + (mdpEntries it.idx it.vals 0 col).length := by simp [addEntries, mdpApply, entRules]
    have hbd1 : col + (mdpEntries it.idx it.vals 0 col).length ≤ bound := by
      have := hmono its (k+1) (addEntries (mkOf k) it.keys (mdpEntries it.idx it.vals 0 col) ⟨[], [], col, []⟩)
      omega
    refine ⟨?_, NamedI_congr mkOf αOf base kmax hmk u u' its (k+1) _ bound (by simp at hk ⊢; omega) (by omega) hag ?_ hN.2⟩
    · intro e he
      have b := consec_bounds _ col (mdpEntries_consec it.idx it.vals 0 col) e he
      rw [hag _ (by omega), hm.loc u u' (fun c hc => hag c (by omega))]
      exact hN.1 e he
    · rw [hcols its (k+1) ⟨[], [], col + (mdpEntries it.idx it.vals 0 col).length, []⟩
        (addEntries (mkOf k) it.keys (mdpEntries it.idx it.vals 0 col) ⟨[], [], col, []⟩) (by rw [hn1])]
      exact hbd

theorem itemsLoop_spec (F : List Nat) (mkOf : Nat → Nat → Rat → CRow) (αOf : Nat → (Nat → Rat) → Rat) (base kmax : Nat)
    (hmk : ∀ k, k < kmax → MkSpec1 (mkOf k) (αOf k) base) :
    ∀ (L : List Item) (k : Nat) (st : GenSt), k + L.length ≤ kmax → (∀ it ∈ L, NoTiny it.vals) → base ≤ st.ncols →
      CInv 1 st → RInv st → ItemsSpec F αOf L k st (itemsLoop mkOf L k st)
  | [], k, st, _, _, _, hc, hr => by
    refine ⟨hc, hr, le_refl _, fun nd h => Or.inr ⟨nd, h, rfl⟩, rfl, fun u => by simp [itemsLoop, NamedI], ?_, ?_⟩
    · intro u _ x; simp [itemsLoop, sumI]
    · intro u; exact ⟨u, fun _ _ => rfl, trivial⟩
  | it :: its, k, st, hk, hnt, hb, hc, hr => by
    have hm := hmk k (by simp at hk; omega)
    have hcon := mdpEntries_consec it.idx it.vals 0 st.ncols
    obtain ⟨hc1, hr1, hn1⟩ := addEntries_inv (mkOf k) (αOf k) base hm it.keys _ st hb hcon hc hr
    have IH := itemsLoop_spec F mkOf αOf base kmax hmk its (k+1) (addEntries (mkOf k) it.keys (mdpEntries it.idx it.vals 0 st.ncols) st)
      (by simp at hk ⊢; omega) (fun g hg => hnt g (List.mem_cons_of_mem _ hg)) (by omega) hc1 hr1
    simp only [itemsLoop]
    refine ⟨IH.cinv, IH.rinv, by have := IH.ncols_le; omega, ?_, by rw [IH.finals]; rfl, ?_, ?_, ?_⟩
    · intro nd hnd
      rcases IH.keys nd hnd with ⟨g, hg, e⟩ | ⟨nd', h1, h2⟩
      · exact Or.inl ⟨g, List.mem_cons_of_mem _ hg, e⟩
      · simp only [addEntries, mdpApply] at h1
        rcases addRules_keys it.keys _ st.graph nd' h1 with h3 | ⟨nd'', h3, h4⟩
        · exact Or.inl ⟨it, List.mem_cons_self .., by rw [← h2, h3]⟩
        · exact Or.inr ⟨nd'', h3, by rw [h4, h2]⟩
    · intro u
      rw [IH.rows u, addEntries_rows (mkOf k) (αOf k) base hm, hn1]
      simp only [NamedI, and_assoc]
    · intro u hN x
      obtain ⟨hN1, hN2⟩ := hN
      rw [IH.val u (by rw [hn1]; exact hN2) x, addEntries_val (mkOf k) (αOf k) it.keys _ st u F x hN1,
          qSum_mdpEntries it.idx _ it.vals 0 st.ncols (hnt it (List.mem_cons_self ..))]
      simp only [sumI]; ring
    · intro u
      obtain ⟨u1, hag1, hN1⟩ := addEntries_extend (mkOf k) (αOf k) base hm _ st.ncols hb hcon u
      obtain ⟨u2, hag2, hN2⟩ := IH.ext u1
      refine ⟨u2, fun c hcl => by rw [hag2 c (by omega), hag1 c hcl], ?_, by rw [← hn1]; exact hN2⟩
      intro e he
      have b := consec_bounds _ st.ncols hcon e he
      rw [hag2 _ (by omega), hm.loc u1 u2 (fun c hcl => hag2 c (by omega))]
      exact hN1 e he

/-! ## index arithmetic on the joint (state ++ action) space -/

theorem valid_append : ∀ (S s A a : List Nat), Valid S s → Valid A a → Valid (S ++ A) (s ++ a)
  | [], [], _, _, _, h => by simpa using h
  | [], _ :: _, _, _, h, _ => by simp [Valid] at h
  | _ :: _, [], _, _, h, _ => by simp [Valid] at h
  | d :: ds, x :: xs, A, a, h, h2 => by
    simp only [List.cons_append, Valid]
    exact ⟨h.1, valid_append ds xs A a h.2 h2⟩

theorem valid_split : ∀ (S A x : List Nat), Valid (S ++ A) x → ∃ s a, x = s ++ a ∧ Valid S s ∧ Valid A a
  | [], A, x, h => ⟨[], x, rfl, trivial, by simpa using h⟩
  | d :: ds, A, [], h => by simp [Valid] at h
  | d :: ds, A, y :: ys, h => by
    simp only [List.cons_append, Valid] at h
    obtain ⟨s, a, e, h1, h2⟩ := valid_split ds A ys h.2
    exact ⟨y :: s, a, by rw [e]; rfl, ⟨h.1, h1⟩, h2⟩

theorem sel_append_left (tag l1 l2 : List Nat) (h : ∀ k ∈ tag, k < l1.length) : sel tag (l1 ++ l2) = sel tag l1 := by
  simp only [sel]
  apply List.map_congr_left
  intro k hk
  simp [List.getD_eq_getElem?_getD, List.getElem?_append_left (h k hk)]

theorem sel_append_right (tag l1 l2 : List Nat) : sel (tag.map (· + l1.length)) (l1 ++ l2) = sel tag l2 := by
  simp only [sel, List.map_map]
  apply List.map_congr_left
  intro k _
  simp [List.getD_eq_getElem?_getD, List.getElem?_append_right]

theorem sel_append_keys (t1 t2 l : List Nat) : sel (t1 ++ t2) l = sel t1 l ++ sel t2 l := by simp [sel]

theorem toIndex_append : ∀ (d1 x1 d2 x2 : List Nat), d1.length = x1.length →
    toIndex (d1 ++ d2) (x1 ++ x2) = toIndex d1 x1 + space d1 * toIndex d2 x2
  | [], [], d2, x2, _ => by simp [toIndex, space]
  | [], _ :: _, _, _, h => by simp at h
  | _ :: _, [], _, _, h => by simp at h
  | d :: ds, x :: xs, d2, x2, h => by
    simp only [List.cons_append, toIndex, space, toIndex_append ds xs d2 x2 (by simpa using h)]; ring

/-- a state tag indexes the joint assignment `s ++ a` exactly as it indexes `s` -/
theorem tip_state (S A s a tag : List Nat) (hs : s.length = S.length) (htag : ∀ k ∈ tag, k < S.length) :
    toIndexPartial tag (S ++ A) (s ++ a) = toIndexPartial tag S s := by
  simp only [toIndexPartial, sel_append_left tag S A htag, sel_append_left tag s a (by rw [hs]; exact htag)]

/-- `join(S.size(), tag, actionTag)` indexes `s ++ a` as `sId + |tag-space| · aId` -/
theorem tip_join (S A s a tag atag : List Nat) (hs : s.length = S.length) (htag : ∀ k ∈ tag, k < S.length) :
    toIndexPartial (joinTag S.length tag atag) (S ++ A) (s ++ a)
      = toIndexPartial tag S s + spacePartial tag S * toIndexPartial atag A a := by
  have e1 : sel (joinTag S.length tag atag) (S ++ A) = sel tag S ++ sel atag A := by
    simp only [joinTag, sel_append_keys, sel_append_left tag S A htag, sel_append_right]
  have e2 : sel (joinTag S.length tag atag) (s ++ a) = sel tag s ++ sel atag a := by
    have : joinTag S.length tag atag = tag ++ atag.map (· + s.length) := by rw [hs]; rfl
    rw [this, sel_append_keys, sel_append_left tag s a (by rw [hs]; exact htag), sel_append_right]
  simp only [toIndexPartial, spacePartial, e1, e2, toIndexLoop_eq, Nat.zero_add, Nat.one_mul]
  exact toIndex_append _ _ _ _ (by simp [sel])

theorem smIdx_rowmajor (sizeS sizeA sId aId : Nat) (ha : aId < sizeA) : smIdx sizeS sizeA (sId * sizeA + aId) = sId + sizeS * aId := by
  have hpos : 0 < sizeA := by omega
  simp only [smIdx]
  rw [Nat.mul_comm sId sizeA, Nat.mul_add_div hpos, Nat.div_eq_of_lt ha, Nat.mul_add_mod, Nat.mod_eq_of_lt ha]
  ring

theorem smIdx_inj (sizeS sizeA i j : Nat) (hi : i < sizeS * sizeA) (hj : j < sizeS * sizeA)
    (h : smIdx sizeS sizeA i = smIdx sizeS sizeA j) : i = j := by
  simp only [smIdx] at h
  have hi' : i / sizeA < sizeS := by
    apply Nat.div_lt_of_lt_mul; rw [Nat.mul_comm]; exact hi
  have hj' : j / sizeA < sizeS := by
    apply Nat.div_lt_of_lt_mul; rw [Nat.mul_comm]; exact hj
  have m1 : (i / sizeA + sizeS * (i % sizeA)) % sizeS = i / sizeA := by
    rw [Nat.add_mul_mod_self_left, Nat.mod_eq_of_lt hi']
  have m2 : (j / sizeA + sizeS * (j % sizeA)) % sizeS = j / sizeA := by
    rw [Nat.add_mul_mod_self_left, Nat.mod_eq_of_lt hj']
  have hd : i / sizeA = j / sizeA := by rw [← m1, ← m2, h]
  have hs : 0 < sizeS := by omega
  have hm : i % sizeA = j % sizeA := by
    rw [hd] at h
    have := Nat.add_left_cancel h
    exact Nat.eq_of_mul_eq_mul_left hs this
  calc i = sizeA * (i / sizeA) + i % sizeA := (Nat.div_add_mod i sizeA).symm
    _ = sizeA * (j / sizeA) + j % sizeA := by rw [hd, hm]
    _ = j := Nat.div_add_mod j sizeA

/-! ## the three setup loops of solveLP -/

def itemH (f : Basis) : Item := ⟨f.tag, f.vals, fun i => i⟩
def itemM (S A : List Nat) (f : BasisM) : Item :=
  ⟨joinTag S.length f.tag f.atag, f.vals, smIdx (spacePartial f.tag S) (spacePartial f.atag A)⟩

def mkH (k : Nat) : Nat → Rat → CRow := fun col q => ⟨[(col, -1), (k, -q)], .eq, 0⟩
def mkG (γ : Rat) (k : Nat) : Nat → Rat → CRow := fun col q => ⟨[(col, -1), (k, γ * q)], .eq, 0⟩
def mkR (_k : Nat) : Nat → Rat → CRow := fun col q => ⟨[(col, 1)], .eq, q⟩
def αH (k : Nat) (u : Nat → Rat) : Rat := - u k
def αG (γ : Rat) (k : Nat) (u : Nat → Rat) : Rat := γ * u k
def αR (_k : Nat) (_u : Nat → Rat) : Rat := 1

theorem mkH_spec (k base : Nat) (hk : k < base) : MkSpec1 (mkH k) (αH k) base := by
  refine ⟨?_, ?_, ?_⟩
  · intro u c q
    simp only [mkH, αH, CRow.sat, lhs]
    constructor <;> intro h <;> linarith
  · intro c q hb e he
    simp only [mkH, List.mem_cons, List.mem_nil_iff, or_false] at he
    rcases he with rfl | rfl <;> simp only <;> omega
  · intro u u' hag; simp only [αH, hag k hk]

theorem mkG_spec (γ : Rat) (k base : Nat) (hk : k < base) : MkSpec1 (mkG γ k) (αG γ k) base := by
  refine ⟨?_, ?_, ?_⟩
  · intro u c q
    simp only [mkG, αG, CRow.sat, lhs]
    constructor <;> intro h <;> linarith
  · intro c q hb e he
    simp only [mkG, List.mem_cons, List.mem_nil_iff, or_false] at he
    rcases he with rfl | rfl <;> simp only <;> omega
  · intro u u' hag; simp only [αG, hag k hk]

theorem mkR_spec (k base : Nat) : MkSpec1 (mkR k) (αR k) base := by
  refine ⟨?_, ?_, ?_⟩
  · intro u c q
    simp only [mkR, αR, CRow.sat, lhs]
    constructor <;> intro h <;> linarith
  · intro c q _ e he
    simp only [mkR, List.mem_cons, List.mem_nil_iff, or_false] at he
    subst he; simp only; omega
  · intro u u' _; rfl

theorem mdpApply_eq (mk : Nat → Rat → CRow) (idx : Nat → Nat) (keys : List Nat) (vals : List Rat) (st : GenSt) :
    mdpApply keys (mdpEntryLoop mk idx vals 0 st.ncols) st = addEntries mk keys (mdpEntries idx vals 0 st.ncols) st := by
  rw [mdpEntryLoop_eq]; rfl

theorem mdpSetupH_eq : ∀ (h : List Basis) (k : Nat) (st : GenSt), mdpSetupH h k st = itemsLoop mkH (h.map itemH) k st
  | [], _, _ => rfl
  | f :: fs, k, st => by
    simp only [mdpSetupH, List.map_cons, itemsLoop, itemH]
    rw [mdpApply_eq]
    exact mdpSetupH_eq fs (k+1) _

theorem mdpSetupG_eq (S A : List Nat) (γ : Rat) : ∀ (g : List BasisM) (k : Nat) (st : GenSt),
    mdpSetupG S A γ g k st = itemsLoop (mkG γ) (g.map (itemM S A)) k st
  | [], _, _ => rfl
  | f :: fs, k, st => by
    simp only [mdpSetupG, List.map_cons, itemsLoop, itemM]
    rw [mdpApply_eq]
    exact mdpSetupG_eq S A γ fs (k+1) _

theorem mdpSetupR_eq (S A : List Nat) : ∀ (R : List BasisM) (k : Nat) (st : GenSt),
    mdpSetupR S A R st = itemsLoop mkR (R.map (itemM S A)) k st
  | [], _, _ => rfl
  | f :: fs, k, st => by
    simp only [mdpSetupR, List.map_cons, itemsLoop, itemM]
    rw [mdpApply_eq]
    exact mdpSetupR_eq S A fs (k+1) _

/-- well-formed BasisMatrix: non-empty in-range state tag, in-range action tag, one value per (state, action) joint value -/
def BasisMWF (S A : List Nat) (f : BasisM) : Prop :=
  f.tag ≠ [] ∧ (∀ k ∈ f.tag, k < S.length) ∧ (∀ k ∈ f.atag, k < A.length) ∧
    f.vals.length = spacePartial f.tag S * spacePartial f.atag A

theorem evalH (S A s a : List Nat) (f : Basis) (hs : Valid S s) (hw : BasisWF S f) :
    selSum (itemH f).idx (toIndexPartial (itemH f).keys (S ++ A) (s ++ a)) (itemH f).vals 0 = f.at S s := by
  simp only [itemH]
  rw [tip_state S A s a f.tag (valid_len S s hs) hw.2.1]
  have ht0 : toIndexPartial f.tag S s < f.vals.length := by rw [hw.2.2]; exact toIndexPartial_lt S s f.tag hs hw.2.1
  have := selSum_pick (fun i => i) f.vals 0 (toIndexPartial f.tag S s) ht0 (fun t _ h => by simpa using h)
  simpa [Basis.at] using this

theorem evalM (S A s a : List Nat) (f : BasisM) (hs : Valid S s) (ha : Valid A a) (hw : BasisMWF S A f) :
    selSum (itemM S A f).idx (toIndexPartial (itemM S A f).keys (S ++ A) (s ++ a)) (itemM S A f).vals 0 = f.at S A s a := by
  simp only [itemM]
  rw [tip_join S A s a f.tag f.atag (valid_len S s hs) hw.2.1]
  have hiS : toIndexPartial f.tag S s < spacePartial f.tag S := toIndexPartial_lt S s f.tag hs hw.2.1
  have hiA : toIndexPartial f.atag A a < spacePartial f.atag A := toIndexPartial_lt A a f.atag ha hw.2.2.1
  have ht0 : toIndexPartial f.tag S s * spacePartial f.atag A + toIndexPartial f.atag A a < f.vals.length := by
    rw [hw.2.2.2]
    have h1 : (toIndexPartial f.tag S s + 1) * spacePartial f.atag A ≤ spacePartial f.tag S * spacePartial f.atag A :=
      Nat.mul_le_mul_right _ (by omega)
    have h2 : (toIndexPartial f.tag S s + 1) * spacePartial f.atag A
        = toIndexPartial f.tag S s * spacePartial f.atag A + spacePartial f.atag A := by ring
    omega
  have hrm := smIdx_rowmajor (spacePartial f.tag S) (spacePartial f.atag A) (toIndexPartial f.tag S s) (toIndexPartial f.atag A a) hiA
  have := selSum_pick (smIdx (spacePartial f.tag S) (spacePartial f.atag A)) f.vals 0
    (toIndexPartial f.tag S s * spacePartial f.atag A + toIndexPartial f.atag A a) ht0
    (fun t ht h => by
      simp only [Nat.zero_add] at h
      exact smIdx_inj _ _ _ _ (by rw [← hw.2.2.2]; exact ht) (by rw [← hw.2.2.2]; exact ht0) h)
  simp only [Nat.zero_add] at this
  rw [hrm] at this
  simpa [BasisM.at] using this

/-- Σ_k w_k · g_k(s,a) -/
def gwAt (S A : List Nat) (g : List BasisM) (w : List Rat) (s a : List Nat) : Rat :=
  sumTo g.length (fun k => w.getD k 0 * ((g.map (·.at S A s a)).getD k 0))

theorem sumI_H (S A s a : List Nat) (u : Nat → Rat) (hs : Valid S s) : ∀ (h : List Basis) (k : Nat), (∀ f ∈ h, BasisWF S f) →
    sumI (S ++ A) αH u (h.map itemH) k (s ++ a) = - sumTo h.length (fun i => u (k + i) * ((h.map (·.at S s)).getD i 0))
  | [], _, _ => by simp [sumI, sumTo]
  | f :: fs, k, hw => by
    simp only [List.map_cons, sumI, evalH S A s a f hs (hw f (List.mem_cons_self ..)),
               sumI_H S A s a u hs fs (k+1) (fun g hg => hw g (List.mem_cons_of_mem _ hg)), List.length_cons, sumTo_front,
               List.getD_cons_zero, List.getD_cons_succ, Nat.add_zero, αH]
    have e : ∀ i, k + 1 + i = k + (i + 1) := fun i => by omega
    simp only [e]; ring

theorem sumI_G (S A s a : List Nat) (γ : Rat) (u : Nat → Rat) (hs : Valid S s) (ha : Valid A a) : ∀ (g : List BasisM) (k : Nat),
    (∀ f ∈ g, BasisMWF S A f) →
    sumI (S ++ A) (αG γ) u (g.map (itemM S A)) k (s ++ a)
      = γ * sumTo g.length (fun i => u (k + i) * ((g.map (·.at S A s a)).getD i 0))
  | [], _, _ => by simp [sumI, sumTo]
  | f :: fs, k, hw => by
    simp only [List.map_cons, sumI, evalM S A s a f hs ha (hw f (List.mem_cons_self ..)),
               sumI_G S A s a γ u hs ha fs (k+1) (fun g hg => hw g (List.mem_cons_of_mem _ hg)), List.length_cons, sumTo_front,
               List.getD_cons_zero, List.getD_cons_succ, Nat.add_zero, αG]
    have e : ∀ i, k + 1 + i = k + (i + 1) := fun i => by omega
    simp only [e]; ring

theorem sumI_R (S A s a : List Nat) (u : Nat → Rat) (hs : Valid S s) (ha : Valid A a) : ∀ (R : List BasisM) (k : Nat),
    (∀ f ∈ R, BasisMWF S A f) → sumI (S ++ A) αR u (R.map (itemM S A)) k (s ++ a) = fmAt S A R s a
  | [], _, _ => by simp [sumI, fmAt, sumQ]
  | f :: fs, k, hw => by
    simp only [List.map_cons, sumI, evalM S A s a f hs ha (hw f (List.mem_cons_self ..)),
               sumI_R S A s a u hs ha fs (k+1) (fun g hg => hw g (List.mem_cons_of_mem _ hg)), αR, fmAt, sumQ]
    ring

theorem itemsLoop_ncols_congr (mkOf : Nat → Nat → Rat → CRow) : ∀ (L : List Item) (k : Nat) (st1 st2 : GenSt),
    st1.ncols = st2.ncols → (itemsLoop mkOf L k st1).ncols = (itemsLoop mkOf L k st2).ncols
  | [], _, _, _, h => h
  | a :: as, k, st1, st2, h => by
    simp only [itemsLoop]
    apply itemsLoop_ncols_congr mkOf as (k+1)
    simp [addEntries, mdpApply, h]

/-- the set-up state of solveLP: invariants; its rows are equivalent to a naming predicate `P`; under `P` the state value
    at (s,a) is  −Σ_k u_k h_k(s) + γ Σ_k u_k g_k(s,a) + R(s,a);  every valuation of the weight columns extends to `P` -/
theorem mdpSetup_spec (S A : List Nat) (γ : Rat) (h : List Basis) (g R : List BasisM)
    (hh : ∀ f ∈ h, BasisWF S f ∧ NoTiny f.vals) (hg : ∀ f ∈ g, BasisMWF S A f ∧ NoTiny f.vals)
    (hR : ∀ f ∈ R, BasisMWF S A f ∧ NoTiny f.vals) (hgl : g.length = h.length) :
    h.length ≤ (mdpSetup S A γ h g R).ncols ∧ CInv 1 (mdpSetup S A γ h g R) ∧ RInv (mdpSetup S A γ h g R) ∧
    LInvL (List.range (S ++ A).length) (mdpSetup S A γ h g R).graph ∧
    ∃ P : (Nat → Rat) → Prop,
      (∀ u, (∀ r ∈ (mdpSetup S A γ h g R).rows, r.sat u) ↔ P u) ∧
      (∀ u, P u → ∀ s a, Valid S s → Valid A a →
        stVal u (S ++ A) (s ++ a) (mdpSetup S A γ h g R)
          = - sumTo h.length (fun i => u i * ((h.map (·.at S s)).getD i 0))
            + γ * sumTo g.length (fun i => u i * ((g.map (·.at S A s a)).getD i 0)) + fmAt S A R s a) ∧
      (∀ u : Nat → Rat, ∃ u' : Nat → Rat, (∀ c, c < h.length → u' c = u c) ∧ P u') := by
  obtain ⟨K, hK⟩ : ∃ K, K = h.length := ⟨_, rfl⟩
  have hmH : ∀ k, k < h.length → MkSpec1 (mkH k) (αH k) K := fun k hk => mkH_spec k K (by omega)
  have hmG : ∀ k, k < g.length → MkSpec1 (mkG γ k) (αG γ k) K := fun k hk => mkG_spec γ k K (by omega)
  have hmR : ∀ k, k < R.length → MkSpec1 (mkR k) (αR k) K := fun k _ => mkR_spec k K
  have init_c : CInv 1 (⟨[], [], K, []⟩ : GenSt) := ⟨fun nd hx => by simp at hx, fun c hx => by simp at hx⟩
  have init_r : RInv (⟨[], [], K, []⟩ : GenSt) := fun r hx => by simp at hx
  have ntH : ∀ it ∈ h.map itemH, NoTiny it.vals := by
    intro it hit; obtain ⟨f, hf, rfl⟩ := List.mem_map.mp hit; exact (hh f hf).2
  have ntG : ∀ it ∈ g.map (itemM S A), NoTiny it.vals := by
    intro it hit; obtain ⟨f, hf, rfl⟩ := List.mem_map.mp hit; exact (hg f hf).2
  have ntR : ∀ it ∈ R.map (itemM S A), NoTiny it.vals := by
    intro it hit; obtain ⟨f, hf, rfl⟩ := List.mem_map.mp hit; exact (hR f hf).2
  obtain ⟨m1, hm1⟩ : ∃ m1, m1 = itemsLoop mkH (h.map itemH) 0 ⟨[], [], K, []⟩ := ⟨_, rfl⟩
  obtain ⟨m2, hm2⟩ : ∃ m2, m2 = itemsLoop (mkG γ) (g.map (itemM S A)) 0 m1 := ⟨_, rfl⟩
  have sH := itemsLoop_spec (S ++ A) mkH αH K h.length hmH (h.map itemH) 0 ⟨[], [], K, []⟩ (by simp) ntH (le_refl _) init_c init_r
  rw [← hm1] at sH
  have sG := itemsLoop_spec (S ++ A) (mkG γ) (αG γ) K g.length hmG (g.map (itemM S A)) 0 m1 (by simp) ntG sH.ncols_le sH.cinv sH.rinv
  rw [← hm2] at sG
  have hK2 : K ≤ m2.ncols := le_trans sH.ncols_le sG.ncols_le
  have sR := itemsLoop_spec (S ++ A) mkR αR K R.length hmR (R.map (itemM S A)) 0 m2 (by simp) ntR hK2 sG.cinv sG.rinv
  have hst0 : mdpSetup S A γ h g R = itemsLoop mkR (R.map (itemM S A)) 0 m2 := by
    simp only [mdpSetup]
    rw [mdpSetupH_eq, mdpSetupG_eq, mdpSetupR_eq S A R 0, hm2, hm1, hK]
  rw [hst0]
  refine ⟨by have := sR.ncols_le; omega, sR.cinv, sR.rinv, ?_, ?_⟩
  · intro nd hnd
    have hk : (∃ f ∈ h, nd.keys = f.tag) ∨ (∃ f, (f ∈ g ∨ f ∈ R) ∧ nd.keys = joinTag S.length f.tag f.atag) := by
      rcases sR.keys nd hnd with ⟨it, hit, e⟩ | ⟨nd', h1, h2⟩
      · obtain ⟨f, hf, rfl⟩ := List.mem_map.mp hit
        exact Or.inr ⟨f, Or.inr hf, e⟩
      · rcases sG.keys nd' h1 with ⟨it, hit, e⟩ | ⟨nd'', h3, h4⟩
        · obtain ⟨f, hf, rfl⟩ := List.mem_map.mp hit
          exact Or.inr ⟨f, Or.inl hf, by rw [← h2, e]; rfl⟩
        · rcases sH.keys nd'' h3 with ⟨it, hit, e⟩ | ⟨nd3, h5, _⟩
          · obtain ⟨f, hf, rfl⟩ := List.mem_map.mp hit
            exact Or.inl ⟨f, hf, by rw [← h2, ← h4, e]; rfl⟩
          · simp at h5
    rcases hk with ⟨f, hf, e⟩ | ⟨f, hf, e⟩
    · have hw := (hh f hf).1
      rw [e]
      exact ⟨hw.1, fun w hwm => List.mem_range.mpr (by have := hw.2.1 w hwm; simp only [List.length_append]; omega)⟩
    · have hw : BasisMWF S A f := by rcases hf with hx | hx; exact (hg f hx).1; exact (hR f hx).1
      rw [e]
      refine ⟨?_, ?_⟩
      · intro hc
        simp only [joinTag, List.append_eq_nil_iff] at hc
        exact hw.1 hc.1
      · intro w hwm
        simp only [joinTag, List.mem_append, List.mem_map] at hwm
        apply List.mem_range.mpr
        simp only [List.length_append]
        rcases hwm with hx | ⟨k, hk', rfl⟩
        · have := hw.2.1 w hx; omega
        · have := hw.2.2.1 k hk'; omega
  · refine ⟨fun u => NamedI αH u (h.map itemH) 0 K ∧ NamedI (αG γ) u (g.map (itemM S A)) 0 m1.ncols ∧
        NamedI αR u (R.map (itemM S A)) 0 m2.ncols, ?_, ?_, ?_⟩
    · intro u
      rw [sR.rows u, sG.rows u, sH.rows u]
      simp [and_assoc]
    · intro u ⟨n1, n2, n3⟩ s a hs ha
      rw [sR.val u n3, sG.val u n2, sH.val u n1, sumI_H S A s a u hs h 0 (fun f hf => (hh f hf).1),
          sumI_G S A s a γ u hs ha g 0 (fun f hf => (hg f hf).1), sumI_R S A s a u hs ha R 0 (fun f hf => (hR f hf).1)]
      simp only [stVal, gVal, hits, sumU, Nat.zero_add]
      ring
    · intro u
      obtain ⟨u1, hag1, hN1⟩ := sH.ext u
      obtain ⟨u2, hag2, hN2⟩ := sG.ext u1
      obtain ⟨u3, hag3, hN3⟩ := sR.ext u2
      have e12 : ∀ c, c < m1.ncols → u3 c = u1 c := fun c hc => by
        rw [hag3 c (by have := sG.ncols_le; omega), hag2 c hc]
      refine ⟨u3, fun c hc => by rw [e12 c (by have := sH.ncols_le; simp only at this; omega), hag1 c (by simp only; omega)], ?_, ?_, hN3⟩
      · refine NamedI_congr mkH αH K h.length hmH u1 u3 (h.map itemH) 0 K m1.ncols (by simp) (le_refl _) e12 ?_ hN1
        rw [hm1]
      · refine NamedI_congr (mkG γ) (αG γ) K g.length hmG u2 u3 (g.map (itemM S A)) 0 m1.ncols m2.ncols (by simp) sH.ncols_le hag3 ?_ hN2
        rw [hm2]
        exact le_of_eq (itemsLoop_ncols_congr (mkG γ) _ 0 _ _ rfl)

/-! ## the theorems about solveLP -/

theorem mdpGen_rows (joined : Bool) (S A : List Nat) (γ : Rat) (h : List Basis) (g R : List BasisM) :
    (mdpGen joined S A γ h g R).1
      = (genRun (S ++ A) (S ++ A).length 1 (mdpSetup S A γ h g R)).rows
        ++ mdpFinalRows joined (genRun (S ++ A) (S ++ A).length 1 (mdpSetup S A γ h g R)).finals := rfl

/-- the hypotheses shared by the MDP-LP theorems: positive factor sizes, well-formed bases without entries in (0, 1e-6],
    one back-projected matrix per basis function -/
structure MdpWF (S A : List Nat) (h : List Basis) (g R : List BasisM) : Prop where
  hS : ∀ d ∈ S, 0 < d
  hA : ∀ d ∈ A, 0 < d
  hh : ∀ f ∈ h, BasisWF S f ∧ NoTiny f.vals
  hg : ∀ f ∈ g, BasisMWF S A f ∧ NoTiny f.vals
  hR : ∀ f ∈ R, BasisMWF S A f ∧ NoTiny f.vals
  hgl : g.length = h.length

/-- **soundness, for the code as written AND as repaired**: any solution of the LP `solveLP` builds gives weights whose
    value function satisfies  R(s,a) + γ Σ_k w_k g_k(s,a) ≤ V_w(s)  at EVERY joint state and action -/
theorem mdpLP_sound (joined : Bool) (S A : List Nat) (γ : Rat) (h : List Basis) (g R : List BasisM) (wf : MdpWF S A h g R)
    (w : List Rat)
    (hsol : ∃ u : Nat → Rat, (∀ k, k < h.length → u k = w.getD k 0) ∧ ∀ r ∈ (mdpGen joined S A γ h g R).1, r.sat u) :
    ∀ s a, Valid S s → Valid A a → fmAt S A R s a + γ * gwAt S A g w s a ≤ wAt S h w s := by
  obtain ⟨_, hc, hr, hl, P, hrows, hval, _⟩ := mdpSetup_spec S A γ h g R wf.hh wf.hg wf.hR wf.hgl
  have hF : ∀ d ∈ S ++ A, 0 < d := by
    intro d hd; rcases List.mem_append.mp hd with hx | hx; exact wf.hS d hx; exact wf.hA d hx
  have spec := genLoop_spec (S ++ A) 1 hF (S ++ A).length (List.range (S ++ A).length) (mdpSetup S A γ h g R) (by simp)
    (fun w hw => List.mem_range.mp hw) hl hc hr
  obtain ⟨u, huw, hall⟩ := hsol
  rw [mdpGen_rows] at hall
  have hu0 : ∀ r ∈ (mdpSetup S A γ h g R).rows, r.sat u :=
    fun r hx => hall r (List.mem_append.mpr (Or.inl (spec.rows_mono r hx)))
  intro s a hs ha
  have core := (mdp_core (S ++ A) hF (mdpSetup S A γ h g R) hl hc hr u hu0 joined).1 ⟨u, fun _ _ => rfl, hall⟩
    (s ++ a) (valid_append S s A a hs ha)
  rw [hval u ((hrows u).mp hu0) s a hs ha] at core
  have e1 : sumTo h.length (fun i => u i * ((h.map (·.at S s)).getD i 0)) = wAt S h w s := by
    unfold wAt; apply sumTo_congr; intro i hi; rw [huw i hi]
  have e2 : sumTo g.length (fun i => u i * ((g.map (·.at S A s a)).getD i 0)) = gwAt S A g w s a := by
    unfold gwAt; apply sumTo_congr; intro i hi; rw [huw i (by rw [← wf.hgl]; exact hi)]
  rw [e1, e2] at core
  linarith

/-- **`mdpLP_equiv`** (one row for the SUM of the final factors — the repaired `makeResult`, `AITB.Gen.mdpJoinsFinals`):
    the LP `solveLP` builds, exactly as generated (three setup loops with the zero skip, elimination over states ++ actions
    in the order `bestVariableToRemove` picks, the final row), has a solution extending the weights `w`
    IF AND ONLY IF  R(s,a) + γ Σ_k w_k g_k(s,a) ≤ Σ_k w_k h_k(s)  at every joint state and action. -/
theorem mdpLP_equiv (S A : List Nat) (γ : Rat) (h : List Basis) (g R : List BasisM) (wf : MdpWF S A h g R) (w : List Rat) :
    (∃ u : Nat → Rat, (∀ k, k < h.length → u k = w.getD k 0) ∧ ∀ r ∈ (mdpGen true S A γ h g R).1, r.sat u) ↔
      ∀ s a, Valid S s → Valid A a → fmAt S A R s a + γ * gwAt S A g w s a ≤ wAt S h w s := by
  constructor
  · exact mdpLP_sound true S A γ h g R wf w
  · intro hflat
    obtain ⟨hK, hc, hr, hl, P, hrows, hval, hext⟩ := mdpSetup_spec S A γ h g R wf.hh wf.hg wf.hR wf.hgl
    have hF : ∀ d ∈ S ++ A, 0 < d := by
      intro d hd; rcases List.mem_append.mp hd with hx | hx; exact wf.hS d hx; exact wf.hA d hx
    obtain ⟨u0, hag0, hP0⟩ := hext (fun c => w.getD c 0)
    have hu0 : ∀ r ∈ (mdpSetup S A γ h g R).rows, r.sat u0 := (hrows u0).mpr hP0
    have core := (mdp_core (S ++ A) hF (mdpSetup S A γ h g R) hl hc hr u0 hu0 true).2 rfl (by
      intro x hx
      obtain ⟨s, a, rfl, hs, ha⟩ := valid_split S A x hx
      rw [hval u0 hP0 s a hs ha]
      have e1 : sumTo h.length (fun i => u0 i * ((h.map (·.at S s)).getD i 0)) = wAt S h w s := by
        unfold wAt; apply sumTo_congr; intro i hi; rw [hag0 i hi]
      have e2 : sumTo g.length (fun i => u0 i * ((g.map (·.at S A s a)).getD i 0)) = gwAt S A g w s a := by
        unfold gwAt; apply sumTo_congr; intro i hi; rw [hag0 i (by rw [← wf.hgl]; exact hi)]
      rw [e1, e2]
      have := hflat s a hs ha
      linarith)
    obtain ⟨u', hag, hall⟩ := core
    rw [mdpGen_rows]
    exact ⟨u', fun k hk => by rw [hag k (by omega), hag0 k hk], hall⟩

/-! ## from the g-form to the Bellman form: `g_k = Σ_{s'} P(s'|s,a) h_k(s')` -/

/-- expectation is linear -/
theorem expect_linear (S A : List Nat) (ddn : List DNode) (s a : List Nat) (c : Nat → Rat) (f : Nat → List Nat → Rat) :
    ∀ n, expect S A ddn (fun s1 => sumTo n (fun k => c k * f k s1)) s a = sumTo n (fun k => c k * expect S A ddn (f k) s a)
  | 0 => by
    simp only [expect, sumTo, mul_zero]
    exact sumTo_zero _
  | n+1 => by
    have ih := expect_linear S A ddn s a c f n
    simp only [expect, sumTo] at ih ⊢
    have e : (fun id => transP S A ddn s a (toFactors S id) * (sumTo n (fun k => c k * f k (toFactors S id)) + c n * f n (toFactors S id)))
        = (fun id => transP S A ddn s a (toFactors S id) * sumTo n (fun k => c k * f k (toFactors S id))
            + c n * (transP S A ddn s a (toFactors S id) * f n (toFactors S id))) := by
      funext id; ring
    rw [e, sumTo_add, ih, sumTo_mul]

/-- **`q_is_backup` / Bellman form**: if every `g_k` is the back-projection of `h_k` (checked exactly by the driver on every
    instance: `bp_is_expectation`), the g-form constraint is  R + γ P V_w ≤ V_w -/
theorem gform_eq_backup (S A : List Nat) (ddn : List DNode) (γ : Rat) (h : List Basis) (g R : List BasisM) (w : List Rat)
    (s a : List Nat) (hgl : g.length = h.length)
    (hbp : ∀ k, k < h.length → (g.map (·.at S A s a)).getD k 0 = expect S A ddn (fun s1 => (h.map (·.at S s1)).getD k 0) s a) :
    fmAt S A R s a + γ * gwAt S A g w s a = mdpBackup S A ddn R γ h w s a := by
  simp only [mdpBackup, gwAt]
  have hV : mdpV S h w = wAt S h w := rfl
  rw [hV]
  have : expect S A ddn (wAt S h w) s a = sumTo g.length (fun k => w.getD k 0 * ((g.map (·.at S A s a)).getD k 0)) := by
    have e : wAt S h w = fun s1 => sumTo h.length (fun k => w.getD k 0 * (fun k s1 => (h.map (·.at S s1)).getD k 0) k s1) := rfl
    rw [e, expect_linear, hgl]
    apply sumTo_congr
    intro k hk
    rw [hbp k hk]
  rw [this]

/-- `mdpLP_equiv` in Bellman form: V_w ≥ R + γ P V_w at every joint state and action -/
theorem mdpLP_equiv_bellman (S A : List Nat) (ddn : List DNode) (γ : Rat) (h : List Basis) (g R : List BasisM)
    (wf : MdpWF S A h g R) (w : List Rat)
    (hbp : ∀ s a, Valid S s → Valid A a → ∀ k, k < h.length →
      (g.map (·.at S A s a)).getD k 0 = expect S A ddn (fun s1 => (h.map (·.at S s1)).getD k 0) s a) :
    (∃ u : Nat → Rat, (∀ k, k < h.length → u k = w.getD k 0) ∧ ∀ r ∈ (mdpGen true S A γ h g R).1, r.sat u) ↔
      ∀ s a, Valid S s → Valid A a → mdpBackup S A ddn R γ h w s a ≤ mdpV S h w s := by
  rw [mdpLP_equiv S A γ h g R wf w]
  constructor
  · intro hx s a hs ha
    rw [← gform_eq_backup S A ddn γ h g R w s a wf.hgl (hbp s a hs ha)]
    exact hx s a hs ha
  · intro hx s a hs ha
    rw [gform_eq_backup S A ddn γ h g R w s a wf.hgl (hbp s a hs ha)]
    exact hx s a hs ha

end AITB.FLP
