/-
  AITB.Props.C05Src — syntactic tie of AITB.Model.Belief to the source text.

  `AITB.Gen.BeliefSrc` is regenerated on every run by tools/extract_c05.py from
  include/AIToolbox/POMDP/Utils.hpp (comment-stripped, whitespace removed).  Each theorem below states
  that the body of one anchored function is, character for character, the text the model was
  transcribed from.  Any edit of an anchored statement makes the corresponding `rfl` fail: the proof
  obligation is re-opened and the harness run that follows looks for an input on which the property fails.
  The three functions touched by fixes/C05-1-inplace-alias-guard.diff accept either text; which one is
  present is exported as `aliasGuard_*` and selects the in-place model the driver runs.
-/
import AITB.Gen.BeliefSrc
namespace AITB.Belief.Src
open AITB.Gen.BeliefSrc

/-- modelled by: sosaE (Eigen branch), sosaG (loop branch) -/
theorem src_makeSOSA : makeSOSA =
    "ifconstexpr(IsModelEigen<M>){boost::multi_array<std::remove_cvref_t<decltype(m.getTransitionFunction(0))>,2>retval(boost::extents[m.getA()][m.getO()]);for(size_ta=0;a<m.getA();++a)for(size_to=0;o<m.getO();++o)retval[a][o]=m.getTransitionFunction(a)*Vector(m.getObservationFunction(a).col(o)).asDiagonal();returnretval;}else{Matrix4Dretval(boost::extents[m.getA()][m.getO()]);for(size_ta=0;a<m.getA();++a){for(size_to=0;o<m.getO();++o){retval[a][o].resize(m.getS(),m.getS());for(size_ts=0;s<m.getS();++s)for(size_ts1=0;s1<m.getS();++s1)retval[a][o](s,s1)=m.getTransitionProbability(s,a,s1)*m.getObservationProbability(s1,a,o);}}returnretval;}" := rfl

/-- modelled by: unnormE, unnormG -/
theorem src_updateBeliefUnnormalizedPtr : updateBeliefUnnormalizedPtr =
    "if(!bRet)return;auto&br=*bRet;ifconstexpr(IsModelEigen<M>){br=model.getObservationFunction(a).col(o).cwiseProduct((b.transpose()*model.getTransitionFunction(a)).transpose());}else{constsize_tS=model.getS();for(size_ts1=0;s1<S;++s1){doublesum=0.0;for(size_ts=0;s<S;++s)sum+=model.getTransitionProbability(s,a,s1)*b[s];br[s1]=model.getObservationProbability(s1,a,o)*sum;}}"
  ∨ -- with fixes/C05-1-inplace-alias-guard.diff applied (the body after the guard is unchanged)
  updateBeliefUnnormalizedPtr =
    "if(!bRet)return;if(bRet==&b){constBeliefin=b;returnupdateBeliefUnnormalized(model,in,a,o,bRet);}auto&br=*bRet;ifconstexpr(IsModelEigen<M>){br=model.getObservationFunction(a).col(o).cwiseProduct((b.transpose()*model.getTransitionFunction(a)).transpose());}else{constsize_tS=model.getS();for(size_ts1=0;s1<S;++s1){doublesum=0.0;for(size_ts=0;s<S;++s)sum+=model.getTransitionProbability(s,a,s1)*b[s];br[s1]=model.getObservationProbability(s1,a,o)*sum;}}" := by
  first | exact Or.inl rfl | exact Or.inr rfl

/-- modelled by: delegates to the pointer overload -/
theorem src_updateBeliefUnnormalizedVal : updateBeliefUnnormalizedVal =
    "Beliefbr(model.getS());updateBeliefUnnormalized(model,b,a,o,&br);returnbr;" := rfl

/-- modelled by: updateG / updateE = normalize ∘ unnorm -/
theorem src_updateBeliefPtr : updateBeliefPtr =
    "if(!bRet)return;updateBeliefUnnormalized(model,b,a,o,bRet);auto&br=*bRet;br/=br.sum();" := rfl

/-- modelled by: delegates to the pointer overload -/
theorem src_updateBeliefVal : updateBeliefVal =
    "Beliefbr(model.getS());updateBelief(model,b,a,o,&br);returnbr;" := rfl

/-- modelled by: predictE, predictG -/
theorem src_updateBeliefPartialPtr : updateBeliefPartialPtr =
    "if(!bRet)return;auto&br=*bRet;ifconstexpr(IsModelEigen<M>){br=(b.transpose()*model.getTransitionFunction(a)).transpose();}else{constsize_tS=model.getS();for(size_ts1=0;s1<S;++s1){br[s1]=0.0;for(size_ts=0;s<S;++s)br[s1]+=model.getTransitionProbability(s,a,s1)*b[s];}}"
  ∨ -- with fixes/C05-1-inplace-alias-guard.diff applied (the body after the guard is unchanged)
  updateBeliefPartialPtr =
    "if(!bRet)return;if(bRet==&b){constBeliefin=b;returnupdateBeliefPartial(model,in,a,bRet);}auto&br=*bRet;ifconstexpr(IsModelEigen<M>){br=(b.transpose()*model.getTransitionFunction(a)).transpose();}else{constsize_tS=model.getS();for(size_ts1=0;s1<S;++s1){br[s1]=0.0;for(size_ts=0;s<S;++s)br[s1]+=model.getTransitionProbability(s,a,s1)*b[s];}}" := by
  first | exact Or.inl rfl | exact Or.inr rfl

/-- modelled by: delegates to the pointer overload -/
theorem src_updateBeliefPartialVal : updateBeliefPartialVal =
    "BeliefbRet(model.getS());updateBeliefPartial(model,b,a,&bRet);returnbRet;" := rfl

/-- modelled by: partialUnnormE, partialUnnormG -/
theorem src_updateBeliefPartialUnnormalizedPtr : updateBeliefPartialUnnormalizedPtr =
    "if(!bRet)return;auto&br=*bRet;ifconstexpr(IsModelEigen<M>){br=model.getObservationFunction(a).col(o).cwiseProduct(b);}else{constsize_tS=model.getS();for(size_ts=0;s<S;++s)br[s]=model.getObservationProbability(s,a,o)*b[s];}"
  ∨ -- with fixes/C05-1-inplace-alias-guard.diff applied (the body after the guard is unchanged)
  updateBeliefPartialUnnormalizedPtr =
    "if(!bRet)return;if(bRet==&b){constBeliefin=b;returnupdateBeliefPartialUnnormalized(model,in,a,o,bRet);}auto&br=*bRet;ifconstexpr(IsModelEigen<M>){br=model.getObservationFunction(a).col(o).cwiseProduct(b);}else{constsize_tS=model.getS();for(size_ts=0;s<S;++s)br[s]=model.getObservationProbability(s,a,o)*b[s];}" := by
  first | exact Or.inl rfl | exact Or.inr rfl

/-- modelled by: delegates to the pointer overload -/
theorem src_updateBeliefPartialUnnormalizedVal : updateBeliefPartialUnnormalizedVal =
    "BeliefbRet(model.getS());updateBeliefPartialUnnormalized(model,b,a,o,&bRet);returnbRet;" := rfl

/-- modelled by: partialNormG / partialNormE -/
theorem src_updateBeliefPartialNormalizedPtr : updateBeliefPartialNormalizedPtr =
    "if(!bRet)return;auto&br=*bRet;updateBeliefPartialUnnormalized(model,b,a,o,bRet);br/=br.sum();" := rfl

/-- modelled by: partialNormG / partialNormE (own normalisation statement) -/
theorem src_updateBeliefPartialNormalizedVal : updateBeliefPartialNormalizedVal =
    "autonewB=updateBeliefPartialUnnormalized(model,b,a,o);newB/=newB.sum();returnnewB;" := rfl

/-- modelled by: rewardE, rewardG (rewardLoop) -/
theorem src_beliefExpectedReward : beliefExpectedReward =
    "ifconstexpr(IsModelEigen<M>){returnmodel.getRewardFunction().col(a).dot(b);}else{doublerew=0.0;constsize_tS=model.getS();for(size_ts=0;s<S;++s)for(size_ts1=0;s1<S;++s1)rew+=model.getTransitionProbability(s,a,s1)*model.getExpectedReward(s,a,s1)*b[s];returnrew;}" := rfl

/-- modelled by: stored / keep / sparsify (T) -/
theorem src_sparseTransitionStore : sparseTransitionStore =
    "checkDifferentSmall(0.0,p)" := rfl

/-- modelled by: stored / keep / sparsify (Ob) -/
theorem src_sparseObservationStore : sparseObservationStore =
    "checkDifferentSmall(p,0.0)" := rfl

/-- modelled by: stored: |a - b| ≤ equalToleranceSmall -/
theorem src_checkEqualSmall : checkEqualSmall =
    "return(std::fabs(a-b)<=equalToleranceSmall);" := rfl

/-- modelled by: stored: negation of checkEqualSmall -/
theorem src_checkDifferentSmall : checkDifferentSmall =
    "return!checkEqualSmall(a,b);" := rfl

end AITB.Belief.Src
