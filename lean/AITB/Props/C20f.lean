/-
  AITB.Props.C20f — the k-way intersection loop of `applyFilters` as written (cursor level,
  `AITB.Trie.applyCursor`) returns the content-level intersection, for any number of filters.  Core Lean only.
-/
import AITB.Props.C20c
namespace AITB.Trie

/-! ### The cursor-level `applyFilters` loop equals the content-level intersection -/

theorem dropLt_of_le_head {v : Nat} {l : List Nat} (h : ∀ x, l.head? = some x → v ≤ x) : dropLt v l = l := by
  cases l with
  | nil => rfl
  | cons x xs => simp only [dropLt]; rw [if_neg (by have := h x rfl; omega)]

theorem dropLt_dropLt {m M : Nat} (h : m ≤ M) (l : List Nat) : dropLt M (dropLt m l) = dropLt M l := by
  induction l with
  | nil => rfl
  | cons x xs ih =>
    by_cases hx : x < m
    · simp only [dropLt, if_pos hx, if_pos (show x < M by omega)]; exact ih
    · simp only [dropLt, if_neg hx]

theorem mem_dropLt_sorted {v : Nat} {l : List Nat} (hs : l.Pairwise (· < ·)) (x : Nat) :
    x ∈ dropLt v l ↔ x ∈ l ∧ v ≤ x := by
  induction l with
  | nil => simp [dropLt]
  | cons y ys ih =>
    rw [List.pairwise_cons] at hs
    simp only [dropLt]
    split
    · rename_i hy
      rw [ih hs.2, List.mem_cons]
      constructor
      · rintro ⟨h1, h2⟩; exact ⟨Or.inr h1, h2⟩
      · rintro ⟨rfl | h1, h2⟩
        · omega
        · exact ⟨h1, h2⟩
    · rename_i hy
      constructor
      · intro hx
        refine ⟨hx, ?_⟩
        rcases List.mem_cons.mp hx with rfl | hx'
        · omega
        · have := hs.1 x hx'; omega
      · exact fun h => h.1

theorem dropLt_sublist (v : Nat) (l : List Nat) : (dropLt v l).Sublist l := by
  induction l with
  | nil => exact List.Sublist.refl _
  | cons y ys ih =>
    simp only [dropLt]
    split
    · exact ih.cons _
    · exact List.Sublist.refl _

theorem head_dropLt_ge {v : Nat} {l : List Nat} {h : Nat} (hh : (dropLt v l).head? = some h) : v ≤ h := by
  induction l with
  | nil => simp [dropLt] at hh
  | cons y ys ih =>
    simp only [dropLt] at hh
    split at hh
    · exact ih hh
    · simp only [List.head?_cons, Option.some.injEq] at hh; omega

/-- tail of an ascending suffix that starts at `M` -/
theorem tail_dropLt {m M : Nat} {A xs : List Nat} (hs : A.Pairwise (· < ·)) (hm : m ≤ M) (h : dropLt m A = M :: xs) :
    xs = dropLt (M + 1) A := by
  have hsub : (M :: xs).Pairwise (· < ·) := h ▸ hs.sublist (dropLt_sublist m A)
  rw [← dropLt_dropLt (show m ≤ M + 1 by omega) A, h]
  simp only [dropLt, if_pos (Nat.lt_succ_self M)]
  symm
  apply dropLt_of_le_head
  intro x hx
  cases xs with
  | nil => cases hx
  | cons y ys =>
    simp only [List.head?_cons, Option.some.injEq] at hx
    subst hx
    have := (List.pairwise_cons.mp hsub).1 y (List.mem_cons_self ..)
    omega

theorem smerge_nil_right (xs : List Nat) : smerge xs [] = xs := by
  cases xs <;> simp [smerge]

theorem smerge_nil_left (ys : List Nat) : smerge [] ys = ys := by
  simp [smerge]

theorem dropLt_smerge (v : Nat) (xs ys : List Nat) (hx : xs.Pairwise (· < ·)) (hy : ys.Pairwise (· < ·)) :
    smerge (dropLt v xs) (dropLt v ys) = dropLt v (smerge xs ys) := by
  induction xs, ys using smerge.induct with
  | case1 ys => simp [smerge, dropLt]
  | case2 xs h => simp [smerge_nil_right, dropLt]
  | case3 x xs y ys h ih =>
    rw [List.pairwise_cons] at hy
    rw [smerge, if_pos h]
    by_cases hyv : y < v
    · simp only [dropLt, if_pos hyv] at *
      exact ih hx hy.2
    · have hxv : ¬ x < v := by omega
      simp only [dropLt, if_neg hyv, if_neg hxv]
      rw [smerge, if_pos h]
  | case4 x xs y ys h ih =>
    rw [List.pairwise_cons] at hx
    rw [smerge, if_neg h]
    by_cases hxv : x < v
    · simp only [dropLt, if_pos hxv] at *
      exact ih hx.2 hy
    · simp only [dropLt, if_neg hxv]
      by_cases hyv : y < v
      · -- y < v ≤ x contradicts ¬ y < x
        omega
      · simp only [if_neg hyv]
        rw [smerge, if_neg h]

theorem Filt.advance_merged (f : Filt) (hg : GoodFilt f) (v : Nat) :
    (f.advance v).merged = dropLt v f.merged ∧ GoodFilt (f.advance v) := by
  refine ⟨dropLt_smerge v _ _ hg.1 hg.2.1, hg.1.sublist (dropLt_sublist _ _), hg.2.1.sublist (dropLt_sublist _ _), ?_⟩
  intro a ha hb
  exact hg.2.2 a ((dropLt_sublist _ _).subset ha) ((dropLt_sublist _ _).subset hb)

theorem Filt.step_merged (f : Filt) (hg : GoodFilt f) : f.step.merged = f.merged.drop 1 ∧ GoodFilt f.step := by
  obtain ⟨n, u⟩ := f
  obtain ⟨g1, g2, g3⟩ := hg
  cases n with
  | nil =>
    refine ⟨by simp [Filt.step, Filt.merged, smerge_nil_left], List.Pairwise.nil, ?_, fun a ha => nomatch ha⟩
    exact g2.sublist (List.drop_sublist 1 u)
  | cons a n =>
    cases u with
    | nil =>
      refine ⟨by simp [Filt.step, Filt.merged, smerge_nil_right], ?_, List.Pairwise.nil, fun a _ ha => nomatch ha⟩
      exact g1.sublist (List.drop_sublist 1 _)
    | cons b u =>
      simp only at g1 g2 g3
      have hab : a ≠ b := fun e => g3 a (List.mem_cons_self ..) (e ▸ List.mem_cons_self ..)
      simp only [Filt.step, Filt.merged]
      by_cases h : a < b
      · rw [if_pos h, smerge, if_neg (by omega)]
        refine ⟨by simp, (List.pairwise_cons.mp g1).2, g2, fun x hx => g3 x (List.mem_cons_of_mem _ hx)⟩
      · rw [if_neg h, smerge, if_pos (by omega)]
        refine ⟨by simp, g1, (List.pairwise_cons.mp g2).2, fun x hx hu => g3 x hx (List.mem_cons_of_mem _ hu)⟩

theorem Filt.isValid_cons_left (a : Nat) (n u : List Nat) : (Filt.mk (a :: n) u).isValid = true := by
  simp only [Filt.isValid, Filt.size, List.length_cons]; exact decide_eq_true (by omega)

theorem Filt.isValid_cons_right (b : Nat) (n u : List Nat) : (Filt.mk n (b :: u)).isValid = true := by
  simp only [Filt.isValid, Filt.size, List.length_cons]; exact decide_eq_true (by omega)

theorem Filt.getMin_merged (f : Filt) : f.merged.head? = (if f.isValid then some f.getMin else none) := by
  obtain ⟨n, u⟩ := f
  cases n with
  | nil =>
    cases u with
    | nil => simp [Filt.merged, smerge, Filt.isValid, Filt.size]
    | cons b u => rw [Filt.isValid_cons_right]; simp [Filt.merged, smerge_nil_left, Filt.getMin]
  | cons a n =>
    cases u with
    | nil => rw [Filt.isValid_cons_left]; simp [Filt.merged, smerge, Filt.getMin]
    | cons b u =>
      rw [Filt.isValid_cons_left]
      simp only [Filt.merged, smerge, Filt.getMin, if_true]
      by_cases h : b < a
      · rw [if_pos h, Nat.min_eq_right (by omega)]; rfl
      · rw [if_neg h, Nat.min_eq_left (by omega)]; rfl


def dfltF : Filt := ⟨[], []⟩

theorem good_dflt : GoodFilt dfltF := ⟨List.Pairwise.nil, List.Pairwise.nil, fun _ ha => nomatch ha⟩

theorem getD_set' {α} (l : List α) (k j : Nat) (v d : α) :
    (l.set k v).getD j d = if k = j ∧ j < l.length then v else l.getD j d := by
  simp only [List.getD_eq_getElem?_getD, List.getElem?_set]
  by_cases hkj : k = j
  · subst hkj
    by_cases hk : k < l.length
    · simp [hk]
    · simp [hk]
  · simp [hkj]

/-- `x` occurs in every list -/
def InAll (A : List (List Nat)) (x : Nat) : Prop := ∀ j, j < A.length → x ∈ A.getD j []

/-- number of elements (over all lists) above `M`: decreases whenever `currentMax` moves -/
def psi (A : List (List Nat)) (M : Nat) : Nat := (A.flatten.filter (fun x => decide (M < x))).length

theorem filter_length_lt {l : List Nat} {p q : Nat → Bool} (hpq : ∀ x, p x = true → q x = true)
    (hex : ∃ x ∈ l, q x = true ∧ p x = false) : (l.filter p).length < (l.filter q).length := by
  induction l with
  | nil => obtain ⟨x, hx, _⟩ := hex; cases hx
  | cons y ys ih =>
    have hle : (ys.filter p).length ≤ (ys.filter q).length := by
      clear ih hex
      induction ys with
      | nil => exact Nat.le_refl _
      | cons z zs ihz =>
        simp only [List.filter_cons]
        by_cases hp : p z = true
        · rw [if_pos hp, if_pos (hpq z hp)]; simp only [List.length_cons]; omega
        · rw [if_neg hp]
          split
          · simp only [List.length_cons]; omega
          · exact ihz
    simp only [List.filter_cons]
    obtain ⟨x, hx, hq, hp⟩ := hex
    by_cases hpy : p y = true
    · rw [if_pos hpy, if_pos (hpq y hpy)]
      simp only [List.length_cons]
      have : ∃ x ∈ ys, q x = true ∧ p x = false := by
        rcases List.mem_cons.mp hx with rfl | hx'
        · rw [hpy] at hp; cases hp
        · exact ⟨x, hx', hq, hp⟩
      have := ih this; omega
    · rw [if_neg hpy]
      by_cases hqy : q y = true
      · rw [if_pos hqy]; simp only [List.length_cons]; omega
      · rw [if_neg hqy]
        have : ∃ x ∈ ys, q x = true ∧ p x = false := by
          rcases List.mem_cons.mp hx with rfl | hx'
          · exact absurd hq hqy
          · exact ⟨x, hx', hq, hp⟩
        exact ih this

theorem psi_lt {A : List (List Nat)} {M M' : Nat} (h : M < M') {j : Nat} (hj : j < A.length) (hm : M' ∈ A.getD j []) :
    psi A M' < psi A M := by
  apply filter_length_lt
  · intro x hx; simp only [decide_eq_true_eq] at *; omega
  · refine ⟨M', List.mem_flatten.mpr ⟨A.getD j [], ?_, hm⟩, by simpa using h, by simp⟩
    rw [List.getD_eq_getElem?_getD, List.getElem?_eq_getElem hj]
    exact List.getElem_mem hj

structure CInv (A : List (List Nat)) (c : Cur) : Prop where
  len : c.fs.length = A.length
  n2 : 2 ≤ A.length
  sortedA : ∀ j, (A.getD j []).Pairwise (· < ·)
  good : ∀ j, GoodFilt (c.fs.getD j dfltF)
  suffix : ∀ j, j < A.length → ∃ m, m ≤ c.currentMax ∧ (c.fs.getD j dfltF).merged = dropLt m (A.getD j [])
  outS : c.out.Pairwise (· < ·)
  outM : ∀ x, x ∈ c.out ↔ (InAll A x ∧ x < c.currentMax)
  heads : ∀ j, j < c.counter → j < A.length → (c.fs.getD j dfltF).merged.head? = some c.currentMax
  headL : (c.fs.getD c.lastMaxFound dfltF).merged.head? = some c.currentMax
  Llt : c.lastMaxFound < A.length
  cle : c.counter ≤ A.length

/-- what a finished run must have produced -/
def Done (A : List (List Nat)) (out : List Nat) : Prop := out.Pairwise (· < ·) ∧ ∀ x, x ∈ out ↔ InAll A x

theorem sorted_ge_head {l : List Nat} (hs : l.Pairwise (· < ·)) {h : Nat} (hh : l.head? = some h) : ∀ x ∈ l, h ≤ x := by
  obtain ⟨ys, rfl⟩ := List.head?_eq_some_iff.mp hh
  intro x hx
  rcases List.mem_cons.mp hx with rfl | hx'
  · exact Nat.le_refl _
  · have := (List.pairwise_cons.mp hs).1 x hx'; omega

theorem CInv.mem_of_head {A : List (List Nat)} {c : Cur} (h : CInv A c) {j : Nat} (hj : j < A.length) {x : Nat}
    (hx : (c.fs.getD j dfltF).merged.head? = some x) : x ∈ A.getD j [] := by
  obtain ⟨m, _, hm⟩ := h.suffix j hj
  rw [hm] at hx
  exact (dropLt_sublist m _).subset (List.mem_of_mem_head? hx)

def matchBreak (c : Cur) : Cur :=
  ⟨c.fs.set 0 (c.fs.getD 0 dfltF).step, c.lastMaxFound, c.counter, c.currentMax, c.out ++ [c.currentMax]⟩
def matchCont (c : Cur) : Cur :=
  ⟨c.fs.set 0 (c.fs.getD 0 dfltF).step, 0, 1, ((c.fs.getD 0 dfltF).step).getMin, c.out ++ [c.currentMax]⟩

theorem matchPart_spec {A : List (List Nat)} {c : Cur} (h : CInv A c) (hc : c.counter = A.length) :
    (c.matchPart.2 = false → Done A c.matchPart.1.out) ∧
    (c.matchPart.2 = true → CInv A c.matchPart.1 ∧ c.matchPart.1.counter = 1 ∧
      psi A c.matchPart.1.currentMax < psi A c.currentMax) := by
  have hn := h.n2
  have hM : InAll A c.currentMax := fun j hj => h.mem_of_head hj (h.heads j (by omega) hj)
  have h0 := h.heads 0 (by omega) (by omega)
  obtain ⟨xs, hxs⟩ := List.head?_eq_some_iff.mp h0
  obtain ⟨m0, hm0, hsuf0⟩ := h.suffix 0 (by omega)
  obtain ⟨hstep, hgood0⟩ := Filt.step_merged _ (h.good 0)
  have hxs' : ((c.fs.getD 0 dfltF).step).merged = xs := by rw [hstep, hxs]; rfl
  have hxsA : xs = dropLt (c.currentMax + 1) (A.getD 0 []) := tail_dropLt (h.sortedA 0) hm0 (hsuf0 ▸ hxs)
  have hxsS : xs.Pairwise (· < ·) := hxsA ▸ (h.sortedA 0).sublist (dropLt_sublist _ _)
  have houtS : (c.out ++ [c.currentMax]).Pairwise (· < ·) := by
    rw [List.pairwise_append]
    refine ⟨h.outS, by simp, fun a ha b hb => ?_⟩
    simp only [List.mem_singleton] at hb
    subst hb
    exact ((h.outM a).mp ha).2
  have hhead := Filt.getMin_merged ((c.fs.getD 0 dfltF).step)
  rw [hxs'] at hhead
  have hdef : c.matchPart = (if !((c.fs.getD 0 dfltF).step).isValid then (matchBreak c, false) else (matchCont c, true)) := by
    simp only [Cur.matchPart, dfltF, hc, h.len, if_true, matchBreak, matchCont]
  rw [hdef]
  cases hv : ((c.fs.getD 0 dfltF).step).isValid with
  | false =>
    have e : (if (!false) = true then (matchBreak c, false) else (matchCont c, true)) = (matchBreak c, false) := rfl
    rw [e]
    refine ⟨fun _ => ⟨houtS, fun x => ?_⟩, fun hh => by cases hh⟩
    rw [hv] at hhead
    simp only [Bool.false_eq_true, if_false] at hhead
    have hnil : xs = [] := List.head?_eq_none_iff.mp hhead
    show x ∈ c.out ++ [c.currentMax] ↔ _
    rw [List.mem_append, List.mem_singleton, h.outM x]
    constructor
    · rintro (⟨hx, _⟩ | rfl)
      · exact hx
      · exact hM
    · intro hx
      rcases Nat.lt_trichotomy x c.currentMax with hlt | heq | hgt
      · exact Or.inl ⟨hx, hlt⟩
      · exact Or.inr heq
      · have : x ∈ dropLt (c.currentMax + 1) (A.getD 0 []) :=
          (mem_dropLt_sorted (h.sortedA 0) x).mpr ⟨hx 0 (by omega), by omega⟩
        rw [← hxsA, hnil] at this; cases this
  | true =>
    have e : (if (!true) = true then (matchBreak c, false) else (matchCont c, true)) = (matchCont c, true) := rfl
    rw [e]
    rw [hv] at hhead
    simp only [if_true] at hhead
    have hM' : c.currentMax + 1 ≤ ((c.fs.getD 0 dfltF).step).getMin := head_dropLt_ge (hxsA ▸ hhead)
    have hM'mem : ((c.fs.getD 0 dfltF).step).getMin ∈ A.getD 0 [] := by
      have := List.mem_of_mem_head? hhead
      rw [hxsA] at this
      exact (dropLt_sublist _ _).subset this
    refine ⟨fun hh => (by cases hh), fun _ => ⟨?_, rfl, psi_lt (show c.currentMax < (matchCont c).currentMax from hM') (show 0 < A.length by omega) hM'mem⟩⟩
    refine ⟨by simp [matchCont, h.len], hn, h.sortedA, ?_, ?_, houtS, ?_, ?_, ?_, by simp only [matchCont]; omega, by simp only [matchCont]; omega⟩
    · intro j
      simp only [matchCont, getD_set']
      split
      · exact hgood0
      · exact h.good j
    · intro j hj
      simp only [matchCont, getD_set']
      split
      · rename_i hj0
        obtain ⟨rfl, _⟩ := hj0
        exact ⟨c.currentMax + 1, hM', by rw [hxs', hxsA]⟩
      · obtain ⟨m, hm, hs⟩ := h.suffix j hj
        exact ⟨m, by omega, hs⟩
    · intro x
      show x ∈ c.out ++ [c.currentMax] ↔ InAll A x ∧ x < ((c.fs.getD 0 dfltF).step).getMin
      rw [List.mem_append, List.mem_singleton, h.outM x]
      constructor
      · rintro (⟨hx, hlt⟩ | rfl)
        · exact ⟨hx, by omega⟩
        · exact ⟨hM, by omega⟩
      · rintro ⟨hx, hlt⟩
        rcases Nat.lt_trichotomy x c.currentMax with hlt' | heq | hgt
        · exact Or.inl ⟨hx, hlt'⟩
        · exact Or.inr heq
        · have hxm : x ∈ xs := by
            rw [hxsA]; exact (mem_dropLt_sorted (h.sortedA 0) x).mpr ⟨hx 0 (by omega), by omega⟩
          have := sorted_ge_head hxsS hhead x hxm
          omega
    · intro j hj1 hjn
      have : j = 0 := by simp only [matchCont] at hj1; omega
      subst this
      simp only [matchCont, getD_set']
      rw [if_pos ⟨trivial, by rw [h.len]; omega⟩, hxs']; exact hhead
    · simp only [matchCont, getD_set']
      rw [if_pos ⟨trivial, by rw [h.len]; omega⟩, hxs']; exact hhead


def advF (c : Cur) : Filt := (c.fs.getD c.counter dfltF).advance c.currentMax
def advBreak (c : Cur) : Cur := ⟨c.fs.set c.counter (advF c), c.lastMaxFound, c.counter, c.currentMax, c.out⟩
def advJump (c : Cur) : Cur := ⟨c.fs.set c.counter (advF c), c.counter, 0, (advF c).getMin, c.out⟩
def advNext (c : Cur) : Cur :=
  ⟨c.fs.set c.counter (advF c), c.lastMaxFound, (if c.counter + 1 = c.lastMaxFound then c.counter + 1 + 1 else c.counter + 1),
    c.currentMax, c.out⟩

theorem advPart_def (c : Cur) : c.advPart =
    if !(advF c).isValid then (advBreak c, false)
    else if (advF c).getMin > c.currentMax then (advJump c, true) else (advNext c, true) := by
  rfl

theorem advPart_spec {A : List (List Nat)} {c : Cur} (h : CInv A c) (hc : c.counter < A.length) :
    (c.advPart.2 = false → Done A c.advPart.1.out) ∧
    (c.advPart.2 = true → CInv A c.advPart.1 ∧
      (psi A c.advPart.1.currentMax < psi A c.currentMax ∨
        (c.advPart.1.currentMax = c.currentMax ∧ c.counter < c.advPart.1.counter))) := by
  have hn := h.n2
  obtain ⟨mk, hmk, hsufk⟩ := h.suffix c.counter hc
  obtain ⟨hadv, hgoodk⟩ := Filt.advance_merged _ (h.good c.counter) c.currentMax
  have hmer : (advF c).merged = dropLt c.currentMax (A.getD c.counter []) := by
    unfold advF; rw [hadv, hsufk, dropLt_dropLt hmk]
  have hhead := Filt.getMin_merged (advF c)
  have hklen : c.counter < c.fs.length := by rw [h.len]; exact hc
  rw [advPart_def]
  cases hv : (advF c).isValid with
  | false =>
    have e : (if (!false) = true then (advBreak c, false)
      else if (advF c).getMin > c.currentMax then (advJump c, true) else (advNext c, true)) = (advBreak c, false) := rfl
    rw [e]
    refine ⟨fun _ => ⟨h.outS, fun x => ?_⟩, fun hh => (by cases hh)⟩
    rw [hv] at hhead
    simp only [Bool.false_eq_true, if_false] at hhead
    have hnil := List.head?_eq_none_iff.mp hhead
    show x ∈ c.out ↔ _
    rw [h.outM x]
    constructor
    · exact fun hx => hx.1
    · intro hx
      refine ⟨hx, ?_⟩
      rcases Nat.lt_or_ge x c.currentMax with hlt | hge
      · exact hlt
      · have : x ∈ dropLt c.currentMax (A.getD c.counter []) :=
          (mem_dropLt_sorted (h.sortedA _) x).mpr ⟨hx _ hc, hge⟩
        rw [← hmer, hnil] at this; cases this
  | true =>
    rw [hv] at hhead
    simp only [if_true] at hhead
    have hge : c.currentMax ≤ (advF c).getMin := head_dropLt_ge (hmer ▸ hhead)
    have hmemA : (advF c).getMin ∈ A.getD c.counter [] := by
      have := List.mem_of_mem_head? hhead
      rw [hmer] at this
      exact (dropLt_sublist _ _).subset this
    have hsortK : (advF c).merged.Pairwise (· < ·) := hmer ▸ (h.sortedA _).sublist (dropLt_sublist _ _)
    by_cases hgt : (advF c).getMin > c.currentMax
    · have e : (if (!true) = true then (advBreak c, false)
        else if (advF c).getMin > c.currentMax then (advJump c, true) else (advNext c, true)) = (advJump c, true) := by
        rw [if_pos hgt]; rfl
      rw [e]
      refine ⟨fun hh => (by cases hh), fun _ => ⟨?_, Or.inl (psi_lt (show c.currentMax < (advJump c).currentMax from hgt) hc hmemA)⟩⟩
      refine ⟨by simp [advJump, h.len], hn, h.sortedA, ?_, ?_, h.outS, ?_, ?_, ?_, by simp only [advJump]; exact hc, by simp only [advJump]; omega⟩
      · intro j
        simp only [advJump, getD_set']
        split
        · exact hgoodk
        · exact h.good j
      · intro j hj
        simp only [advJump, getD_set']
        split
        · rename_i hjk
          obtain ⟨rfl, _⟩ := hjk
          exact ⟨c.currentMax, hge, hmer⟩
        · obtain ⟨m, hm, hs⟩ := h.suffix j hj
          exact ⟨m, by omega, hs⟩
      · intro x
        show x ∈ c.out ↔ InAll A x ∧ x < (advF c).getMin
        rw [h.outM x]
        constructor
        · rintro ⟨hx, hlt⟩; exact ⟨hx, by omega⟩
        · rintro ⟨hx, hlt⟩
          refine ⟨hx, ?_⟩
          rcases Nat.lt_or_ge x c.currentMax with hlt' | hge'
          · exact hlt'
          · have hxm : x ∈ (advF c).merged := by
              rw [hmer]; exact (mem_dropLt_sorted (h.sortedA _) x).mpr ⟨hx _ hc, hge'⟩
            have := sorted_ge_head hsortK hhead x hxm
            omega
      · intro j hj0; simp only [advJump] at hj0; omega
      · simp only [advJump, getD_set']
        rw [if_pos ⟨trivial, hklen⟩]; exact hhead
    · have heq : (advF c).getMin = c.currentMax := by omega
      rw [heq] at hhead
      have e : (if (!true) = true then (advBreak c, false)
        else if (advF c).getMin > c.currentMax then (advJump c, true) else (advNext c, true)) = (advNext c, true) := by
        rw [if_neg hgt]; rfl
      rw [e]
      have hcnt : c.counter < (advNext c).counter := by simp only [advNext]; split <;> omega
      refine ⟨fun hh => (by cases hh), fun _ => ⟨?_, Or.inr ⟨rfl, hcnt⟩⟩⟩
      refine ⟨by simp [advNext, h.len], hn, h.sortedA, ?_, ?_, h.outS, h.outM, ?_, ?_, h.Llt, ?_⟩
      · intro j
        simp only [advNext, getD_set']
        split
        · exact hgoodk
        · exact h.good j
      · intro j hj
        simp only [advNext, getD_set']
        split
        · rename_i hjk
          obtain ⟨rfl, _⟩ := hjk
          exact ⟨c.currentMax, Nat.le_refl _, hmer⟩
        · exact h.suffix j hj
      · intro j hjc hjn
        simp only [advNext, getD_set']
        by_cases hjk : c.counter = j
        · rw [if_pos ⟨hjk, hjk ▸ hklen⟩]; exact hhead
        · rw [if_neg (fun hh => hjk hh.1)]
          by_cases hjlt : j < c.counter
          · exact h.heads j hjlt hjn
          · -- j = counter + 1 = lastMaxFound (the skipped filter)
            simp only [advNext] at hjc
            split at hjc
            · rename_i hL
              have : j = c.lastMaxFound := by omega
              rw [this]; exact h.headL
            · omega
      · simp only [advNext, getD_set']
        by_cases hLk : c.counter = c.lastMaxFound
        · rw [if_pos ⟨hLk, hLk ▸ hklen⟩]; exact hhead
        · rw [if_neg (fun hh => hLk hh.1)]; exact h.headL
      · simp only [advNext]
        have := h.Llt
        split <;> omega


def mu (A : List (List Nat)) (c : Cur) : Nat := psi A c.currentMax * (A.length + 2) + (A.length + 1 - c.counter)

theorem mu_lt_of_psi_lt {A : List (List Nat)} {c c' : Cur} (h : psi A c'.currentMax < psi A c.currentMax)
    (hc : c.counter ≤ A.length) : mu A c' < mu A c := by
  unfold mu
  have := Nat.mul_le_mul_right (A.length + 2) (show psi A c'.currentMax + 1 ≤ psi A c.currentMax from h)
  rw [Nat.add_mul] at this
  generalize psi A c'.currentMax * (A.length + 2) = a at *
  generalize psi A c.currentMax * (A.length + 2) = b at *
  omega

theorem run_spec (A : List (List Nat)) : ∀ (fuel : Nat) (c : Cur), CInv A c → mu A c < fuel → Done A (Cur.run fuel c) := by
  intro fuel
  induction fuel with
  | zero => intro c _ h; omega
  | succ fuel ih =>
    intro c h hfuel
    -- after the (possibly trivial) match part we are in a state `c1` with counter < n, not larger in measure
    have key : ∀ c1 : Cur, CInv A c1 → c1.counter < A.length → mu A c1 ≤ mu A c →
        Done A (if c1.advPart.2 then Cur.run fuel c1.advPart.1 else c1.advPart.1.out) := by
      intro c1 h1 hc1 hmu
      obtain ⟨hb, hcont⟩ := advPart_spec h1 hc1
      cases hv : c1.advPart.2 with
      | false => simp only [Bool.false_eq_true, if_false]; exact hb hv
      | true =>
        simp only [if_true]
        obtain ⟨h2, hdec⟩ := hcont hv
        apply ih _ h2
        have : mu A c1.advPart.1 < mu A c1 := by
          rcases hdec with hlt | ⟨heq, hcnt⟩
          · exact mu_lt_of_psi_lt hlt (Nat.le_of_lt hc1)
          · unfold mu; rw [heq]; have := h2.cle; omega
        omega
    by_cases hc : c.counter = A.length
    · obtain ⟨hb, hcont⟩ := matchPart_spec h hc
      simp only [Cur.run, Cur.iter]
      by_cases hm : c.matchPart.2 = true
      · simp only [hm, if_true]
        obtain ⟨h1, hc1, hpsi⟩ := hcont hm
        exact key _ h1 (by rw [hc1]; have := h.n2; omega) (Nat.le_of_lt (mu_lt_of_psi_lt hpsi h.cle))
      · have hm' : c.matchPart.2 = false := by simpa using hm
        simp only [hm', Bool.false_eq_true, if_false]
        exact hb hm'
    · have hlt : c.counter < A.length := by have := h.cle; omega
      have hmp : c.matchPart = (c, true) := by
        simp only [Cur.matchPart, h.len, if_neg hc]
      simp only [Cur.run, Cur.iter, hmp, if_true]
      exact key c h hlt (Nat.le_refl _)

theorem getD_map' {α β} (l : List α) (g : α → β) (d : α) (d' : β) (hg : g d = d') (j : Nat) :
    (l.map g).getD j d' = g (l.getD j d) := by
  simp only [List.getD_eq_getElem?_getD, List.getElem?_map]
  cases l[j]? with
  | none => simp [hg]
  | some a => simp

theorem getD_mem_or {α} (l : List α) (j : Nat) (d : α) : l.getD j d ∈ l ∨ l.getD j d = d := by
  by_cases hj : j < l.length
  · left; rw [List.getD_eq_getElem?_getD, List.getElem?_eq_getElem hj]; exact List.getElem_mem hj
  · right; rw [List.getD_eq_getElem?_getD, List.getElem?_eq_none (by omega)]; rfl

theorem merged_dflt : dfltF.merged = [] := by simp [dfltF, Filt.merged, smerge]

theorem merged_sorted {f : Filt} (hg : GoodFilt f) : f.merged.Pairwise (· < ·) := smerge_sorted _ _ hg.1 hg.2.1 hg.2.2

theorem sum_sizes (fs : List Filt) : ((fs.map Filt.merged).flatten).length = (fs.map Filt.size).sum := by
  rw [List.length_flatten, List.map_map]
  congr 1
  apply List.map_congr_left
  intro f _
  simp only [Function.comp, Filt.merged, length_smerge, Filt.size]

/-- **The cursor loop of `applyFilters` as written computes the intersection**: for any non-empty list of
    filters whose ranges are ascending and disjoint and non-empty (what `filter`/`refine` build), the
    k-way loop with `counter` / `lastMaxFound` / `currentMax` terminates within the model's fuel and
    returns exactly the content-level answer. -/
theorem applyCursor_eq (fs : List Filt) (hne : fs ≠ []) (hg : ∀ f ∈ fs, GoodFilt f) (hv : ∀ f ∈ fs, f.isValid = true) :
    applyCursor fs = applyFilters fs := by
  cases fs with
  | nil => exact absurd rfl hne
  | cons f0 r =>
    cases r with
    | nil =>
      simp only [applyCursor, applyFilters, List.all_nil]
      exact (List.filter_eq_self.mpr (fun _ _ => rfl)).symm
    | cons f1 rest =>
      let fs := f0 :: f1 :: rest
      let A := fs.map Filt.merged
      let c0 : Cur := { fs := fs, lastMaxFound := 0, counter := 1, currentMax := f0.getMin, out := [] }
      have hgd : ∀ j, GoodFilt (fs.getD j dfltF) := by
        intro j
        rcases getD_mem_or fs j dfltF with h | h
        · exact hg _ h
        · rw [h]; exact good_dflt
      have hA : ∀ j, A.getD j [] = (fs.getD j dfltF).merged := fun j => getD_map' fs Filt.merged dfltF [] merged_dflt j
      have hlen : A.length = rest.length + 2 := by simp [A, fs]
      have hhead0 : f0.merged.head? = some f0.getMin := by
        rw [Filt.getMin_merged, hv f0 (List.mem_cons_self ..)]; rfl
      have hinv : CInv A c0 := by
        refine ⟨by simp [A, c0], by omega, fun j => by rw [hA]; exact merged_sorted (hgd j), hgd, ?_, List.Pairwise.nil, ?_, ?_, hhead0, (by show 0 < A.length; omega), (by show 1 ≤ A.length; omega)⟩
        · intro j _
          refine ⟨0, Nat.zero_le _, ?_⟩
          rw [hA]
          exact (dropLt_of_le_head (fun x _ => Nat.zero_le x)).symm
        · intro x
          constructor
          · intro hx; cases hx
          · rintro ⟨hx, hlt⟩
            have h0 := hx 0 (by omega)
            rw [hA] at h0
            have := sorted_ge_head (merged_sorted (hgd 0)) hhead0 x h0
            simp only [c0] at hlt
            omega
        · intro j hj _
          have : j = 0 := by simp only [c0] at hj; omega
          subst this; exact hhead0
      have hfuel : mu A c0 < ((fs.map Filt.size).sum + 1) * (fs.length + 2) + 2 := by
        have h1 : psi A c0.currentMax ≤ (fs.map Filt.size).sum := by
          rw [← sum_sizes]; exact List.length_filter_le _ _
        have h2 := Nat.mul_le_mul_right (A.length + 2) h1
        have h3 : fs.length = A.length := by simp [A]
        unfold mu
        rw [h3, Nat.add_mul]
        generalize psi A c0.currentMax * (A.length + 2) = a at *
        generalize (fs.map Filt.size).sum * (A.length + 2) = b at *
        simp only [c0]
        omega
      obtain ⟨hs, hm⟩ := run_spec A _ c0 hinv hfuel
      obtain ⟨hs', hm'⟩ := applyFilters_spec fs (by simp [fs]) hg
      show Cur.run (((fs.map Filt.size).sum + 1) * (fs.length + 2) + 2) c0 = applyFilters fs
      apply sorted_ext _ _ hs hs'
      intro x
      rw [hm x, hm' x]
      constructor
      · intro hx f hf
        obtain ⟨j, hj, rfl⟩ := List.getElem_of_mem hf
        have := hx j (by simp [A]; exact hj)
        rw [hA, Filt.mem_merged] at this
        rw [List.getD_eq_getElem?_getD, List.getElem?_eq_getElem hj] at this
        exact this
      · intro hx j hj
        rw [hA, Filt.mem_merged]
        rcases getD_mem_or fs j dfltF with h | h
        · exact hx _ h
        · exfalso
          have hj' : j < fs.length := by simpa [A] using hj
          rw [List.getD_eq_getElem?_getD, List.getElem?_eq_getElem hj'] at h
          have hmemj : fs[j] ∈ fs := List.getElem_mem hj'
          have := hv _ hmemj
          simp only [Option.getD_some] at h
          rw [h] at this
          simp [dfltF, Filt.isValid, Filt.size] at this


theorem mem_insertBySize' (f g : Filt) (fs : List Filt) : g ∈ insertBySize f fs ↔ g = f ∨ g ∈ fs := mem_insertBySize f g fs

theorem buildFilters_valid (ids : Ids) (q : PF) (acc fs : List Filt) (h : buildFilters ids q acc = some fs)
    (hacc : ∀ f ∈ acc, f.isValid = true) : ∀ f ∈ fs, f.isValid = true := by
  induction q generalizing acc with
  | nil =>
    simp only [buildFilters, Option.some.injEq] at h
    subst h; exact hacc
  | cons kv q ih =>
    obtain ⟨k, v⟩ := kv
    simp only [buildFilters] at h
    split at h
    · rename_i hv
      apply ih _ h
      intro f hf
      rcases (mem_insertBySize _ f acc).mp hf with rfl | hf'
      · exact hv
      · exact hacc f hf'
    · cases h

/-- the cursor-level `Trie::filter` equals the content-level one in every state satisfying the invariant -/
theorem filterCursor_eq {t : T} {es : Spec} (h : RI t es) (fb : Bool) (q : PF) (hq : ValidQ t.F q) :
    t.filterCursor fb q = t.filter fb q := by
  simp only [T.filterCursor, T.filter]
  split
  · rfl
  · rename_i hemp
    cases hb : buildFilters t.ids q [] with
    | none => rfl
    | some fs =>
      simp only
      obtain ⟨hmem, hnn⟩ := buildFilters_some _ _ _ _ hb
      have hne : q ≠ [] := by intro e; rw [e] at hemp; exact hemp rfl
      congr 1
      apply applyCursor_eq fs (hnn (Or.inr hne))
      · intro f hf
        rcases (hmem f).mp hf with hf | ⟨kv, hkv, rfl⟩
        · cases hf
        · exact filtOf_good h (hq kv hkv).1 (hq kv hkv).2
      · exact buildFilters_valid _ _ _ _ hb (fun f hf => by cases hf)

theorem refineCursor_eq {t : T} {es : Spec} (h : RI t es) (ids : List Nat) (hs : ids.Pairwise (· < ·)) (q : PF)
    (hq : ValidQ t.F q) : t.refineCursor ids q = t.refine ids q := by
  simp only [T.refineCursor, T.refine]
  split
  · rfl
  · rename_i hemp
    cases hb : buildFilters t.ids q [⟨[], ids⟩] with
    | none => rfl
    | some fs =>
      simp only
      obtain ⟨hmem, hnn⟩ := buildFilters_some _ _ _ _ hb
      have hidsne : ids ≠ [] := by
        intro e; rw [e] at hemp; simp at hemp
      apply applyCursor_eq fs (hnn (Or.inl (by simp)))
      · intro f hf
        rcases (hmem f).mp hf with hf | ⟨kv, hkv, rfl⟩
        · simp only [List.mem_singleton] at hf
          subst hf
          exact ⟨List.Pairwise.nil, hs, fun _ ha => nomatch ha⟩
        · exact filtOf_good h (hq kv hkv).1 (hq kv hkv).2
      · apply buildFilters_valid _ _ _ _ hb
        intro f hf
        simp only [List.mem_singleton] at hf
        subst hf
        cases ids with
        | nil => exact absurd rfl hidsne
        | cons a as => exact Filt.isValid_cons_right a [] as

end AITB.Trie
