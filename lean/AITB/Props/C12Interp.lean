/-
  AITB.Props.C12Interp — property theorems about the model of `sawtoothInterpolation` and
  `LPInterpolation` (AITB.Model.Interp), in the two readings `asFound` / `repaired`.

  Part A: sawtooth.   Part B: LPInterpolation (the LP being an oracle constrained by `LpFeasible`).
  Unbounded: any number of states, actions and stored points.
  Literal witnesses use `decide +kernel` (plain kernel evaluation; no `native_decide`, only the three standard
  axioms appear under `#print axioms`).
  `AITB.Props.C12Pruner` is deliberately not imported (the one lemma of that kind needed here, monotonicity of
  `dot`, is `dot_map_le` below), so this file depends on the model files and `C12Defs` only.
-/
import AITB.Props.C12Defs
import AITB.Model.C12Check
import Mathlib.Algebra.Order.Field.Rat
import Mathlib.Tactic.Ring
import Mathlib.Tactic.Linarith
import Mathlib.Tactic.NormNum
import Mathlib.Tactic.FieldSimp
import Mathlib.Tactic.Positivity

namespace AITB.Interp
open AITB.Prune AITB.C12Check

deriving instance DecidableEq for Out

/-! ## 0. small facts about `minQ`, `maxL`, `dot`, `mixAt`, `getD` -/

theorem minQ_le_left (a b : Rat) : minQ a b ≤ a := by unfold minQ; split <;> linarith
theorem minQ_le_right (a b : Rat) : minQ a b ≤ b := by unfold minQ; split <;> linarith
theorem le_minQ {a b c : Rat} (h1 : c ≤ a) (h2 : c ≤ b) : c ≤ minQ a b := by unfold minQ; split <;> assumption
theorem le_maxQ_left (a b : Rat) : a ≤ maxQ a b := by unfold maxQ; split <;> linarith
theorem le_maxQ_right (a b : Rat) : b ≤ maxQ a b := by unfold maxQ; split <;> linarith

theorem isZeroS_zero : isZeroS 0 = true := by decide +kernel

theorem pos_of_not_isZeroS {x : Rat} (h0 : 0 ≤ x) (hz : ¬ isZeroS x = true) : 0 < x := by
  rcases lt_or_eq_of_le h0 with h | h
  · exact h
  · exact absurd (h ▸ isZeroS_zero) hz

theorem getD_nonneg {l : Vec} (h : ∀ x ∈ l, 0 ≤ x) (s : Nat) : 0 ≤ l.getD s 0 := by
  rw [List.getD_eq_getElem?_getD]
  cases hs : l[s]? with
  | none => simp
  | some x => simpa using h x (List.mem_of_getElem? hs)

theorem nonneg_of_getD {l : Vec} (h : ∀ s, s < l.length → 0 ≤ l.getD s 0) : ∀ x ∈ l, 0 ≤ x := by
  intro x hx
  obtain ⟨s, hs, rfl⟩ := List.mem_iff_getElem.mp hx
  simpa [List.getD_eq_getElem?_getD, List.getElem?_eq_getElem hs] using h s hs

theorem foldl_maxQ_ge (xs : List Rat) : ∀ a, a ≤ xs.foldl maxQ a ∧ ∀ x ∈ xs, x ≤ xs.foldl maxQ a := by
  induction xs with
  | nil => intro a; simp
  | cons y ys ih =>
    intro a
    obtain ⟨h1, h2⟩ := ih (maxQ a y)
    refine ⟨le_trans (le_maxQ_left a y) h1, ?_⟩
    intro x hx
    rcases List.mem_cons.mp hx with rfl | hx
    · exact le_trans (le_maxQ_right a x) h1
    · exact h2 x hx

theorem le_maxL {l : List Rat} {x : Rat} (hx : x ∈ l) : x ≤ maxL l := by
  cases l with
  | nil => simp at hx
  | cons a as =>
    rcases List.mem_cons.mp hx with rfl | hx
    · exact (foldl_maxQ_ge as x).1
    · exact (foldl_maxQ_ge as a).2 x hx

theorem foldl_maxQ_le (b : Rat) (xs : List Rat) : ∀ a, a ≤ b → (∀ x ∈ xs, x ≤ b) → xs.foldl maxQ a ≤ b := by
  induction xs with
  | nil => intro a ha _; simpa using ha
  | cons y ys ih =>
    intro a ha h
    apply ih
    · unfold maxQ; split
      · exact h y (List.mem_cons_self ..)
      · exact ha
    · exact fun x hx => h x (List.mem_cons_of_mem _ hx)

theorem maxL_le {l : List Rat} {b : Rat} (hne : l ≠ []) (h : ∀ x ∈ l, x ≤ b) : maxL l ≤ b := by
  cases l with
  | nil => exact absurd rfl hne
  | cons a as =>
    exact foldl_maxQ_le b as a (h a (List.mem_cons_self ..)) (fun x hx => h x (List.mem_cons_of_mem _ hx))

/-- monotonicity of `dot` in its second argument, pointwise over a common index list -/
theorem dot_map_le {α} (f g : α → Rat) : ∀ (bel : Vec) (l : List α), (∀ x ∈ bel, 0 ≤ x) → (∀ r ∈ l, f r ≤ g r) →
    dot bel (l.map f) ≤ dot bel (l.map g)
  | [], _, _, _ => by simp [dot]
  | _ :: _, [], _, _ => by simp [dot]
  | c :: cs, r :: rs, hpos, h => by
    have ih := dot_map_le f g cs rs (fun x hx => hpos x (List.mem_cons_of_mem _ hx))
      (fun x hx => h x (List.mem_cons_of_mem _ hx))
    have h1 : c * f r ≤ c * g r :=
      mul_le_mul_of_nonneg_left (h r (List.mem_cons_self ..)) (hpos c (List.mem_cons_self ..))
    simp only [List.map_cons, dot]
    linarith

/-- each column of `ubQ` is below the row maxima, so the corner-only value `basicV` is below the
    corner bound `point · cornerVals` -/
theorem basicV_le_corner {point : Vec} {ubQ : List Vec} {A : Nat} (hpt : ∀ x ∈ point, 0 ≤ x)
    (hrows : ∀ row ∈ ubQ, row.length = A) (hA : 0 < A) : basicV point ubQ A ≤ dot point (cornerVals ubQ) := by
  unfold basicV
  apply maxL_le
  · intro h
    have := congrArg List.length h
    simp at this; omega
  · intro x hx
    obtain ⟨a, ha, rfl⟩ := List.mem_map.mp hx
    have ha : a < A := by simpa using ha
    unfold cornerVals
    apply dot_map_le _ _ _ _ hpt
    intro row hrow
    apply le_maxL
    have hl := hrows row hrow
    rw [List.getD_eq_getElem?_getD, List.getElem?_eq_getElem (by omega)]
    simp

theorem zerosN_succ (n : Nat) : zerosN (n+1) = 0 :: zerosN n := by simp [zerosN, List.replicate_succ]

theorem mixAt_cons (w : Rat) (ws : Vec) (p : Vec) (ps : List Vec) (s : Nat) :
    mixAt (w :: ws) (p :: ps) s = w * p.getD s 0 + mixAt ws ps s := by simp [mixAt, sumL]

theorem mixAt_nil_right (ws : Vec) (s : Nat) : mixAt ws [] s = 0 := by simp [mixAt, sumL]
theorem mixAt_nil_left (ps : List Vec) (s : Nat) : mixAt [] ps s = 0 := by simp [mixAt, sumL]

theorem mixAt_zeros (s : Nat) : ∀ (n : Nat) (ps : List Vec), mixAt (zerosN n) ps s = 0
  | 0, ps => by simp [zerosN, mixAt_nil_left]
  | n+1, [] => mixAt_nil_right _ s
  | n+1, p :: ps => by rw [zerosN_succ, mixAt_cons, mixAt_zeros s n ps]; ring

theorem mixAt_set_zeros (s : Nat) (c : Rat) : ∀ (ps : List Vec) (i : Nat) (p : Vec), ps[i]? = some p →
    mixAt ((zerosN ps.length).set i c) ps s = c * p.getD s 0
  | [], i, p, h => by simp at h
  | q :: qs, 0, p, h => by
    simp only [List.getElem?_cons_zero, Option.some.injEq] at h
    subst h
    rw [List.length_cons, zerosN_succ, List.set_cons_zero, mixAt_cons, mixAt_zeros]; ring
  | q :: qs, i+1, p, h => by
    simp only [List.getElem?_cons_succ] at h
    rw [List.length_cons, zerosN_succ, List.set_cons_succ, mixAt_cons, mixAt_set_zeros s c qs i p h]; ring

theorem dot_nil_left (v : Vec) : dot [] v = 0 := by simp [dot]
theorem dot_nil_right (v : Vec) : dot v [] = 0 := by cases v <;> simp [dot]
theorem dot_cons (a b : Rat) (as bs : Vec) : dot (a :: as) (b :: bs) = a * b + dot as bs := by simp [dot]

theorem dot_zeros_left : ∀ (n : Nat) (v : Vec), dot (zerosN n) v = 0
  | 0, v => by simp [zerosN, dot]
  | n+1, [] => dot_nil_right _
  | n+1, b :: bs => by rw [zerosN_succ, dot_cons, dot_zeros_left n bs]; ring

theorem dot_set_zeros (c : Rat) : ∀ (vals : Vec) (n i : Nat) (val : Rat), vals[i]? = some val → i < n →
    dot ((zerosN n).set i c) vals = c * val
  | [], _, i, val, h, _ => by simp at h
  | b :: bs, 0, i, val, _, hi => by omega
  | b :: bs, n+1, 0, val, h, _ => by
    simp only [List.getElem?_cons_zero, Option.some.injEq] at h
    subst h
    rw [zerosN_succ, List.set_cons_zero, dot_cons, dot_zeros_left]; ring
  | b :: bs, n+1, i+1, val, h, hi => by
    simp only [List.getElem?_cons_succ] at h
    rw [zerosN_succ, List.set_cons_succ, dot_cons, dot_set_zeros c bs n i val h (by omega)]; ring

theorem dot_zipWith_sub (c : Rat) : ∀ (point p cv : Vec), point.length = p.length →
    dot (List.zipWith (fun x y => x - y * c) point p) cv = dot point cv - c * dot p cv
  | [], [], cv, _ => by simp [dot]
  | [], _ :: _, _, h => by simp at h
  | _ :: _, [], _, h => by simp at h
  | x :: xs, y :: ys, [], _ => by simp [dot_nil_right]
  | x :: xs, y :: ys, z :: zs, h => by
    simp only [List.zipWith_cons_cons, dot_cons]
    rw [dot_zipWith_sub c xs ys zs (by simpa using h)]; ring

theorem nonneg_iff (v : Vec) : nonneg v = true ↔ ∀ x ∈ v, 0 ≤ x := by
  simp [nonneg, List.all_eq_true]

theorem primalOK_iff (point wc wp : Vec) (pts : List Vec) :
    primalOK point wc wp pts = true ↔
      (∀ x ∈ wc, 0 ≤ x) ∧ (∀ x ∈ wp, 0 ≤ x) ∧ wc.length = point.length ∧ wp.length = pts.length ∧
        ∀ s, s < point.length → reconAt point wc wp pts s = 0 := by
  simp only [primalOK, Bool.and_eq_true, nonneg_iff, List.all_eq_true, List.mem_range, beq_iff_eq]
  tauto

/-! ## A. sawtooth -/

/-- the ratio finally used for a stored point: `c` still `DBL_MAX` is replaced by 1, otherwise `min(c, 1)` -/
def ratioC (c0 : Option Rat) : Rat := match c0 with | none => 1 | some m => minQ m 1

/-- the part of `sawtooth` after the early-exit test (same text as in the model) -/
def sawTail (V : Variant) (point cv : Vec) (pts : List Vec) (acc : SawAcc) : Option Out :=
  match pts[acc.minI]? with
  | none => none
  | some p =>
    match acc.minC with
    | none => some ⟨dot point cv + acc.minCF, none⟩
    | some c =>
      some ⟨dot point cv + acc.minCF,
        some ((List.zipWith (fun x y => x - y * c) point p ++ zerosN pts.length).set
          (if V.sawNoOffset then acc.minI else point.length + acc.minI) c)⟩

theorem sawtooth_eq (V : Variant) (point : Vec) (ubQ : List Vec) (A : Nat) (pts : List Vec) (vals : Vec) :
    sawtooth V point ubQ A pts vals =
      if (if V.sawStrict then
            decide (basicV point ubQ A < dot point (cornerVals ubQ) + (sawLoop point (cornerVals ubQ) pts vals 0 {}).minCF)
          else
            decide (basicV point ubQ A ≤ dot point (cornerVals ubQ) + (sawLoop point (cornerVals ubQ) pts vals 0 {}).minCF))
      then some ⟨basicV point ubQ A, some (point ++ zerosN pts.length)⟩
      else sawTail V point (cornerVals ubQ) pts (sawLoop point (cornerVals ubQ) pts vals 0 {}) := rfl

theorem sawTail_value {V : Variant} {point cv : Vec} {pts : List Vec} {acc : SawAcc} {o : Out}
    (h : sawTail V point cv pts acc = some o) : o.value = dot point cv + acc.minCF := by
  unfold sawTail at h
  cases hp : pts[acc.minI]? with
  | none => rw [hp] at h; cases h
  | some p =>
    rw [hp] at h
    simp only at h
    cases hC : acc.minC with
    | none => rw [hC] at h; cases h; rfl
    | some c => rw [hC] at h; cases h; rfl

section saw
variable (point cv : Vec)

theorem sawStep_none {p : Vec} (acc : SawAcc) (i : Nat) (val : Rat) (h : sawRatio point p = none) :
    sawStep point cv acc i p val = acc := by
  unfold sawStep; rw [h]

theorem sawStep_some {p : Vec} {c0 : Option Rat} (acc : SawAcc) (i : Nat) (val : Rat) (h : sawRatio point p = some c0) :
    sawStep point cv acc i p val =
      if decide (ratioC c0 * (val - dot p cv) < acc.minCF) then
        ⟨i, ratioC c0 * (val - dot p cv), some (ratioC c0)⟩
      else acc := by
  unfold sawStep; rw [h]; rfl

/-- the two outcomes of one loop step: nothing changes, or a strictly smaller `minCF` is recorded together
    with its point index and ratio -/
theorem sawStep_cases (acc : SawAcc) (i : Nat) (p : Vec) (val : Rat) :
    sawStep point cv acc i p val = acc ∨
    ∃ c0, sawRatio point p = some c0 ∧
      ratioC c0 * (val - dot p cv) < acc.minCF ∧
      sawStep point cv acc i p val = ⟨i, ratioC c0 * (val - dot p cv), some (ratioC c0)⟩ := by
  cases h : sawRatio point p with
  | none => exact Or.inl (sawStep_none point cv acc i val h)
  | some c0 =>
    rw [sawStep_some point cv acc i val h]
    by_cases hc : ratioC c0 * (val - dot p cv) < acc.minCF
    · right
      exact ⟨c0, rfl, hc, by rw [if_pos (decide_eq_true hc)]⟩
    · left
      rw [if_neg (by simpa using hc)]

theorem sawStep_minCF_le (acc : SawAcc) (i : Nat) (p : Vec) (val : Rat) :
    (sawStep point cv acc i p val).minCF ≤ acc.minCF := by
  rcases sawStep_cases point cv acc i p val with h | ⟨c0, _, hlt, h⟩
  · rw [h]
  · rw [h]; exact le_of_lt hlt

theorem sawLoop_minCF_le : ∀ (pts : List Vec) (vals : Vec) (i : Nat) (acc : SawAcc),
    (sawLoop point cv pts vals i acc).minCF ≤ acc.minCF
  | [], _, _, _ => by simp [sawLoop]
  | _ :: _, [], _, _ => by simp [sawLoop]
  | p :: ps, v :: vs, i, acc => by
    rw [sawLoop]
    exact le_trans (sawLoop_minCF_le ps vs (i+1) _) (sawStep_minCF_le point cv acc i p v)

/-- A1: the running minimum of the loop never becomes positive -/
theorem sawLoop_minCF_nonpos : ∀ (pts : List Vec) (vals : Vec) (i : Nat) (acc : SawAcc),
    acc.minCF ≤ 0 → (sawLoop point cv pts vals i acc).minCF ≤ 0 :=
  fun pts vals i acc h => le_trans (sawLoop_minCF_le point cv pts vals i acc) h

/-- test: A1 on the harness input, from the initial accumulator -/
example : (sawLoop [1/2,1/4,1/4] [4,5,6] [[1/4,1/2,1/4]] [1] 0 {}).minCF ≤ 0 :=
  sawLoop_minCF_nonpos _ _ _ _ 0 {} (le_refl _)

end saw

/-! ### A3: the inner ratio loop and the invariant of the outer loop -/

/-- one step of the inner loop over the states (same text as in the model) -/
def ratioStep (point p : Vec) (acc : Option (Option Rat)) (s : Nat) : Option (Option Rat) :=
  match acc with
  | none => none
  | some c =>
    let thisZero := isZeroS (p.getD s 0)
    if isZeroS (point.getD s 0) && !thisZero then none
    else if thisZero then some c
    else
      let q := point.getD s 0 / p.getD s 0
      some (some (match c with | none => q | some m => minQ m q))

theorem sawRatio_eq (point p : Vec) :
    sawRatio point p = (List.range point.length).foldl (ratioStep point p) (some none) := rfl

/-- what is known about the running ratio `c` after the states in `l` have been visited -/
def RatioInv (point p : Vec) (l : List Nat) (c : Option Rat) : Prop :=
  (c = none → ∀ s ∈ l, isZeroS (p.getD s 0) = true) ∧
  (∀ m, c = some m → 0 ≤ m ∧ ∀ s ∈ l, ¬ isZeroS (p.getD s 0) = true → m ≤ point.getD s 0 / p.getD s 0)

theorem ratioStep_inv {point p : Vec} (hpt : ∀ x ∈ point, 0 ≤ x) (hp : ∀ x ∈ p, 0 ≤ x)
    {l : List Nat} {c c' : Option Rat} {s : Nat} (hJ : RatioInv point p l c)
    (h : ratioStep point p (some c) s = some c') : RatioInv point p (l ++ [s]) c' := by
  have hq : 0 ≤ point.getD s 0 / p.getD s 0 := div_nonneg (getD_nonneg hpt s) (getD_nonneg hp s)
  unfold ratioStep at h
  simp only at h
  by_cases h1 : (isZeroS (point.getD s 0) && !isZeroS (p.getD s 0)) = true
  · rw [if_pos h1] at h; cases h
  · rw [if_neg h1] at h
    by_cases h2 : isZeroS (p.getD s 0) = true
    · rw [if_pos h2] at h
      cases h
      refine ⟨fun hc s' hs' => ?_, fun m hm => ⟨(hJ.2 m hm).1, fun s' hs' hnz => ?_⟩⟩
      · rcases List.mem_append.mp hs' with hs' | hs'
        · exact hJ.1 hc s' hs'
        · simp only [List.mem_singleton] at hs'; rw [hs']; exact h2
      · rcases List.mem_append.mp hs' with hs' | hs'
        · exact (hJ.2 m hm).2 s' hs' hnz
        · simp only [List.mem_singleton] at hs'; rw [hs'] at hnz; exact absurd h2 hnz
    · rw [if_neg h2] at h
      cases c with
      | none =>
        cases h
        refine ⟨fun hc => (by cases hc), fun m hm => ?_⟩
        cases hm
        refine ⟨hq, fun s' hs' hnz => ?_⟩
        rcases List.mem_append.mp hs' with hs' | hs'
        · exact absurd (hJ.1 rfl s' hs') hnz
        · simp only [List.mem_singleton] at hs'; rw [hs']
      | some m0 =>
        cases h
        obtain ⟨hm0, hle⟩ := hJ.2 m0 rfl
        refine ⟨fun hc => (by cases hc), fun m hm => ?_⟩
        cases hm
        refine ⟨le_minQ hm0 hq, fun s' hs' hnz => ?_⟩
        rcases List.mem_append.mp hs' with hs' | hs'
        · exact le_trans (minQ_le_left _ _) (hle s' hs' hnz)
        · simp only [List.mem_singleton] at hs'; rw [hs']; exact minQ_le_right _ _

theorem foldl_ratioStep_none (point p : Vec) : ∀ l : List Nat, l.foldl (ratioStep point p) none = none
  | [] => rfl
  | _ :: l => by rw [List.foldl_cons]; exact foldl_ratioStep_none point p l

theorem foldl_ratioStep_inv {point p : Vec} (hpt : ∀ x ∈ point, 0 ≤ x) (hp : ∀ x ∈ p, 0 ≤ x) :
    ∀ (l pre : List Nat) (c r : Option Rat), RatioInv point p pre c →
      l.foldl (ratioStep point p) (some c) = some r → RatioInv point p (pre ++ l) r
  | [], pre, c, r, hJ, h => by
    simp only [List.foldl_nil, Option.some.injEq] at h
    subst h; simpa using hJ
  | s :: l, pre, c, r, hJ, h => by
    rw [List.foldl_cons] at h
    cases hs : ratioStep point p (some c) s with
    | none => rw [hs, foldl_ratioStep_none] at h; cases h
    | some c' =>
      rw [hs] at h
      have := foldl_ratioStep_inv hpt hp l (pre ++ [s]) c' r (ratioStep_inv hpt hp hJ hs) h
      simpa using this

/-- specification of `sawRatio`: `some (some m)` means `0 ≤ m ≤ point[s]/p[s]` at every state where `p` is
    not "zero"; `some none` means `p` is "zero" at every state -/
theorem sawRatio_spec {point p : Vec} (hpt : ∀ x ∈ point, 0 ≤ x) (hp : ∀ x ∈ p, 0 ≤ x) {r : Option Rat}
    (h : sawRatio point p = some r) : RatioInv point p (List.range point.length) r := by
  rw [sawRatio_eq] at h
  have := foldl_ratioStep_inv hpt hp (List.range point.length) [] none r
    ⟨fun _ s hs => by simp at hs, fun m hm => by cases hm⟩ h
  simpa using this

/-- the ratio finally used lies in `[0, 1]` and scales `p` below `point` on the non-"zero" states of `p` -/
theorem ratioC_spec {point p : Vec} (hpt : ∀ x ∈ point, 0 ≤ x) (hp : ∀ x ∈ p, 0 ≤ x) {r : Option Rat}
    (h : sawRatio point p = some r) :
    0 ≤ ratioC r ∧ ratioC r ≤ 1 ∧
      ∀ s, s < point.length → ¬ isZeroS (p.getD s 0) = true → ratioC r * p.getD s 0 ≤ point.getD s 0 := by
  have hJ := sawRatio_spec hpt hp h
  cases r with
  | none =>
    refine ⟨by simp [ratioC], by simp [ratioC], fun s hs hnz => ?_⟩
    exact absurd (hJ.1 rfl s (List.mem_range.mpr hs)) hnz
  | some m =>
    obtain ⟨hm, hle⟩ := hJ.2 m rfl
    refine ⟨le_minQ hm (by norm_num), minQ_le_right _ _, fun s hs hnz => ?_⟩
    have hpos : 0 < p.getD s 0 := pos_of_not_isZeroS (getD_nonneg hp s) hnz
    have h1 : m * p.getD s 0 ≤ point.getD s 0 := (le_div_iff₀ hpos).mp (hle s (List.mem_range.mpr hs) hnz)
    have h2 : ratioC (some m) * p.getD s 0 ≤ m * p.getD s 0 :=
      mul_le_mul_of_nonneg_right (minQ_le_left _ _) (le_of_lt hpos)
    exact le_trans h2 h1

/-- what the accumulator of the outer loop records whenever `minCF` is negative -/
def SawGood (point cv : Vec) (pts : List Vec) (vals : Vec) (acc : SawAcc) : Prop :=
  acc.minCF < 0 → ∃ p val c, pts[acc.minI]? = some p ∧ vals[acc.minI]? = some val ∧ acc.minC = some c ∧
    0 ≤ c ∧ c ≤ 1 ∧ acc.minCF = c * (val - dot p cv) ∧
    (∀ s, s < point.length → ¬ isZeroS (p.getD s 0) = true → c * p.getD s 0 ≤ point.getD s 0)

theorem sawStep_good {point cv : Vec} {pts : List Vec} {vals : Vec} (hpt : ∀ x ∈ point, 0 ≤ x)
    {acc : SawAcc} {i : Nat} {p : Vec} {val : Rat} (hp : ∀ x ∈ p, 0 ≤ x)
    (hpi : pts[i]? = some p) (hvi : vals[i]? = some val) (hg : SawGood point cv pts vals acc) :
    SawGood point cv pts vals (sawStep point cv acc i p val) := by
  rcases sawStep_cases point cv acc i p val with h | ⟨c0, hr, _, h⟩
  · rw [h]; exact hg
  · rw [h]
    intro _
    obtain ⟨h0, h1, h2⟩ := ratioC_spec hpt hp hr
    exact ⟨p, val, ratioC c0, hpi, hvi, rfl, h0, h1, rfl, h2⟩

theorem sawLoop_good {point cv : Vec} {pts : List Vec} {vals : Vec} (hpt : ∀ x ∈ point, 0 ≤ x)
    (hpts : ∀ p ∈ pts, ∀ x ∈ p, 0 ≤ x) :
    ∀ (ps : List Vec) (vs : Vec) (i : Nat) (acc : SawAcc), pts.drop i = ps → vals.drop i = vs →
      SawGood point cv pts vals acc → SawGood point cv pts vals (sawLoop point cv ps vs i acc)
  | [], _, _, _, _, _, hg => by simpa [sawLoop] using hg
  | _ :: _, [], _, _, _, _, hg => by simpa [sawLoop] using hg
  | p :: ps, v :: vs, i, acc, h1, h2, hg => by
    rw [sawLoop]
    have hpi : pts[i]? = some p := by
      have := congrArg (fun l => l[0]?) h1
      simpa using this
    have hvi : vals[i]? = some v := by
      have := congrArg (fun l => l[0]?) h2
      simpa using this
    have h1' : pts.drop (i+1) = ps := by
      have := congrArg (fun l => l.drop 1) h1
      simpa using this
    have h2' : vals.drop (i+1) = vs := by
      have := congrArg (fun l => l.drop 1) h2
      simpa using this
    exact sawLoop_good hpt hpts ps vs (i+1) _ h1' h2'
      (sawStep_good hpt (hpts p (List.mem_of_getElem? hpi)) hpi hvi hg)

set_option linter.unusedVariables false in
/-- A3: whenever the loop ends with a negative `minCF`, it has recorded a stored point `p = pts[minI]`, its value,
    and a ratio `c ∈ [0,1]` with `minCF = c (val − p·cv)` and `c p ≤ point` on the non-"zero" states of `p`.
    (`hlen` is not needed: the loop stops at the shorter of the two lists.) -/
theorem sawLoop_spec {point cv : Vec} {pts : List Vec} {vals : Vec} (hpt : ∀ x ∈ point, 0 ≤ x)
    (hpts : ∀ p ∈ pts, ∀ x ∈ p, 0 ≤ x) (hlen : vals.length = pts.length) :
    let acc := sawLoop point cv pts vals 0 {}
    acc.minCF < 0 → ∃ p val c, pts[acc.minI]? = some p ∧ vals[acc.minI]? = some val ∧ acc.minC = some c ∧
      0 ≤ c ∧ c ≤ 1 ∧ acc.minCF = c * (val - dot p cv) ∧
      (∀ s, s < point.length → ¬ isZeroS (p.getD s 0) = true → c * p.getD s 0 ≤ point.getD s 0) :=
  sawLoop_good hpt hpts pts vals 0 {} rfl rfl (fun h => absurd h (lt_irrefl _))

/-- test: the hypotheses of A3 hold and the conclusion is non-vacuous on the harness input (minCF = −2 < 0) -/
example : (sawLoop [1/2,1/4,1/4] (cornerVals [[4],[5],[6]]) [[1/4,1/2,1/4]] [1] 0 {}).minCF = -2 ∧
    (∀ x ∈ ([1/2,1/4,1/4] : Vec), 0 ≤ x) ∧ (∀ p ∈ ([[1/4,1/2,1/4]] : List Vec), ∀ x ∈ p, 0 ≤ x) := by
  decide +kernel

/-- A2: the sawtooth value never exceeds the corner-only bound `point · cornerVals` (both readings,
    no hypotheses) -/
theorem sawtooth_le_corner_bound (V : Variant) (point : Vec) (ubQ : List Vec) (A : Nat) (pts : List Vec)
    (vals : Vec) (o : Out) (h : sawtooth V point ubQ A pts vals = some o) :
    o.value ≤ dot point (cornerVals ubQ) := by
  have hm : (sawLoop point (cornerVals ubQ) pts vals 0 {}).minCF ≤ 0 :=
    sawLoop_minCF_nonpos point (cornerVals ubQ) pts vals 0 {} (le_refl _)
  rw [sawtooth_eq] at h
  cases hV : V.sawStrict <;> simp only [hV, if_true, Bool.false_eq_true, if_false] at h <;> split at h <;>
    first
    | (rw [sawTail_value h]; linarith)
    | (rename_i hc; cases h; have := of_decide_eq_true hc; simp only; linarith)

/-- test: A2 on the harness input (value 11/4 ≤ 19/4) -/
example : ∃ o, sawtooth repaired [1/2,1/4,1/4] [[4],[5],[6]] 1 [[1/4,1/2,1/4]] [1] = some o ∧ o.value = 11/4 ∧
    dot [1/2,1/4,1/4] (cornerVals [[4],[5],[6]]) = 19/4 := by decide +kernel

/-! ### A4 / A5: the repaired reading is total and returns a primal-feasible certificate -/

/-- the two ways the repaired reading ends: early exit with the corner-only value, or the recorded stored
    point `pts[i]` with its ratio `c`, written to slot `S + i` -/
theorem sawtooth_repaired_cases {point : Vec} {ubQ : List Vec} {A : Nat} {pts : List Vec} {vals : Vec}
    (hpt : ∀ x ∈ point, 0 ≤ x) (hrows : ubQ.length = point.length ∧ ∀ row ∈ ubQ, row.length = A) (hA : 0 < A)
    (hlen : vals.length = pts.length) (hpts : ∀ p ∈ pts, ∀ x ∈ p, 0 ≤ x) :
    sawtooth repaired point ubQ A pts vals = some ⟨basicV point ubQ A, some (point ++ zerosN pts.length)⟩ ∨
    ∃ i p val c, pts[i]? = some p ∧ vals[i]? = some val ∧ 0 ≤ c ∧ c ≤ 1 ∧
      (∀ s, s < point.length → ¬ isZeroS (p.getD s 0) = true → c * p.getD s 0 ≤ point.getD s 0) ∧
      sawtooth repaired point ubQ A pts vals =
        some ⟨dot point (cornerVals ubQ) + c * (val - dot p (cornerVals ubQ)),
          some ((List.zipWith (fun x y => x - y * c) point p ++ zerosN pts.length).set (point.length + i) c)⟩ := by
  rw [sawtooth_eq]
  simp only [repaired, Bool.false_eq_true, if_false]
  by_cases hc : basicV point ubQ A ≤
      dot point (cornerVals ubQ) + (sawLoop point (cornerVals ubQ) pts vals 0 {}).minCF
  · left; rw [if_pos (decide_eq_true hc)]
  · right
    rw [if_neg (by simpa using hc)]
    have hneg : (sawLoop point (cornerVals ubQ) pts vals 0 {}).minCF < 0 := by
      by_contra hn
      have h0 := sawLoop_minCF_nonpos point (cornerVals ubQ) pts vals 0 {} (le_refl _)
      have hb := basicV_le_corner hpt hrows.2 hA
      apply hc; linarith
    obtain ⟨p, val, c, hp, hv, hC, h0, h1, hcf, hs⟩ := sawLoop_spec hpt hpts hlen hneg
    refine ⟨_, p, val, c, hp, hv, h0, h1, hs, ?_⟩
    unfold sawTail
    rw [hp]; simp only
    rw [hC]; simp only [Bool.false_eq_true, if_false]
    rw [hcf]

/-- A4: the repaired reading never indexes outside the point set and never reads the uninitialised ratio -/
theorem sawtooth_repaired_total {point : Vec} {ubQ : List Vec} {A : Nat} {pts : List Vec} {vals : Vec}
    (hpt : ∀ x ∈ point, 0 ≤ x) (hrows : ubQ.length = point.length ∧ ∀ row ∈ ubQ, row.length = A) (hA : 0 < A)
    (hlen : vals.length = pts.length) (hpts : ∀ p ∈ pts, ∀ x ∈ p, 0 ≤ x) :
    ∃ v w, sawtooth repaired point ubQ A pts vals = some ⟨v, some w⟩ := by
  rcases sawtooth_repaired_cases hpt hrows hA hlen hpts with h | ⟨i, p, val, c, _, _, _, _, _, h⟩
  · exact ⟨_, _, h⟩
  · exact ⟨_, _, h⟩

/-- test: the hypotheses of A4 are satisfiable (harness input) -/
example : ∃ v w, sawtooth repaired [1/2,1/4,1/4] [[4],[5],[6]] 1 [[1/4,1/2,1/4]] [1] = some ⟨v, some w⟩ :=
  sawtooth_repaired_total (by decide +kernel) (by decide) (by decide) (by decide) (by decide +kernel)

/-- witness (harness input, empty point set): the as-found reading indexes `ubV.first[0]`, which does not exist -/
theorem sawtooth_asFound_crash_witness : sawtooth asFound [1/2,1/4,1/4] [[4],[5],[6]] 1 [] [] = none := by
  decide +kernel

/-- witness (harness input): with `basicV = v` the strict test does not leave early, and the weights are built
    from the uninitialised `minC` -/
theorem sawtooth_asFound_uninit_witness :
    (sawtooth asFound [1/2,1/4,1/4] [[4],[5],[6]] 1 [[1/4,1/2,1/4]] [100]).map (·.weights) = some none := by
  decide +kernel

/-- the repaired reading on the same two inputs -/
theorem sawtooth_repaired_crash_uninit_witness :
    sawtooth repaired [1/2,1/4,1/4] [[4],[5],[6]] 1 [] [] = some ⟨19/4, some [1/2,1/4,1/4]⟩ ∧
    sawtooth repaired [1/2,1/4,1/4] [[4],[5],[6]] 1 [[1/4,1/2,1/4]] [100] = some ⟨19/4, some [1/2,1/4,1/4,0]⟩ := by
  decide +kernel

/-- witness (harness input): the as-found reading stores the ratio 1/2 in corner slot 0 instead of the slot
    of stored point 0; the resulting weights are not primal feasible, the repaired ones are -/
theorem sawtooth_asFound_slot_witness :
    (sawtooth asFound [1/2,1/4,1/4] [[4],[5],[6]] 1 [[1/4,1/2,1/4]] [1]).map (·.weights) = some (some [1/2, 0, 1/8, 0]) ∧
    (sawtooth repaired [1/2,1/4,1/4] [[4],[5],[6]] 1 [[1/4,1/2,1/4]] [1]).map (·.weights) = some (some [3/8, 0, 1/8, 1/2]) ∧
    primalOK [1/2,1/4,1/4] (([1/2, 0, 1/8, 0] : Vec).take 3) (([1/2, 0, 1/8, 0] : Vec).drop 3) [[1/4,1/2,1/4]] = false ∧
    primalOK [1/2,1/4,1/4] (([3/8, 0, 1/8, 1/2] : Vec).take 3) (([3/8, 0, 1/8, 1/2] : Vec).drop 3) [[1/4,1/2,1/4]] = true := by
  decide +kernel

/-- A5 (`_partial` semantics: exact zeros assumed).  Under the hypotheses of A4, plus stored points of the query's
    length whose "zero" coordinates are exactly zero (`hz`), the repaired reading returns non-negative weights
    over corners and stored points that reconstruct the query exactly, and a value that never exceeds the
    correspondingly weighted sum of corner values and stored values.

    `hz` cannot be dropped: the tolerance test `isZeroS` (|x| ≤ 1e-6) lets a stored coordinate in (0, 1e-6] be
    skipped when the ratio is formed, so the corner weight `point[s] − c·p[s]` can be negative by up to 1e-6
    (e.g. `point[s] = 0`, `p[s] = 1e-7`: the state is skipped, not rejected, because `p[s]` counts as zero).
    Exact feasibility then fails by at most that much; see `sawtooth_repaired_weights_needs_hz`. -/
theorem sawtooth_repaired_weights {point : Vec} {ubQ : List Vec} {A : Nat} {pts : List Vec} {vals : Vec}
    (hpt : ∀ x ∈ point, 0 ≤ x) (hrows : ubQ.length = point.length ∧ ∀ row ∈ ubQ, row.length = A) (hA : 0 < A)
    (hlen : vals.length = pts.length) (hpts : ∀ p ∈ pts, ∀ x ∈ p, 0 ≤ x)
    (hz : ∀ p ∈ pts, ∀ s, isZeroS (p.getD s 0) = true → p.getD s 0 = 0)
    (hptlen : ∀ p ∈ pts, p.length = point.length) {v : Rat} {w : Vec}
    (h : sawtooth repaired point ubQ A pts vals = some ⟨v, some w⟩) :
    primalOK point (w.take point.length) (w.drop point.length) pts = true ∧
      v ≤ weightedValue (cornerVals ubQ) (w.take point.length) (w.drop point.length) vals := by
  rcases sawtooth_repaired_cases hpt hrows hA hlen hpts with h' | ⟨i, p, val, c, hp, hv, h0, h1, hs, h'⟩
  · rw [h'] at h
    simp only [Option.some.injEq, Out.mk.injEq] at h
    obtain ⟨rfl, rfl⟩ := h
    rw [List.take_left, List.drop_left]
    refine ⟨(primalOK_iff ..).mpr ⟨hpt, ?_, rfl, by simp [zerosN], fun s _ => ?_⟩, ?_⟩
    · intro x hx; simp [zerosN] at hx; rw [hx.2]
    · simp only [reconAt, mixAt_zeros]; ring
    · simp only [weightedValue, dot_zeros_left]
      have := basicV_le_corner hpt hrows.2 hA
      linarith
  · rw [h'] at h
    simp only [Option.some.injEq, Out.mk.injEq] at h
    obtain ⟨rfl, rfl⟩ := h
    have hpm : p ∈ pts := List.mem_of_getElem? hp
    have hpl : p.length = point.length := hptlen p hpm
    have hi : i < pts.length := by
      rcases Nat.lt_or_ge i pts.length with h | h
      · exact h
      · rw [List.getElem?_eq_none h] at hp; cases hp
    have hhl : (List.zipWith (fun x y => x - y * c) point p).length = point.length := by
      simp [hpl]
    rw [List.set_append_right _ _ (by omega), hhl, Nat.add_sub_cancel_left]
    rw [List.take_left' hhl, List.drop_left' hhl]
    have hhead : ∀ s, s < point.length →
        (List.zipWith (fun x y => x - y * c) point p).getD s 0 = point.getD s 0 - p.getD s 0 * c := by
      intro s hs
      have hs' : s < p.length := by omega
      simp [List.getD_eq_getElem?_getD, List.getElem?_zipWith, List.getElem?_eq_getElem hs,
        List.getElem?_eq_getElem hs']
    have hcp : ∀ s, s < point.length → c * p.getD s 0 ≤ point.getD s 0 := by
      intro s hsl
      by_cases hzs : isZeroS (p.getD s 0) = true
      · rw [hz p hpm s hzs, mul_zero]; exact getD_nonneg hpt s
      · exact hs s hsl hzs
    refine ⟨(primalOK_iff ..).mpr ⟨?_, ?_, hhl, by simp [zerosN], fun s hs => ?_⟩, ?_⟩
    · apply nonneg_of_getD
      intro s hs
      rw [hhl] at hs
      rw [hhead s hs]
      have := hcp s hs
      linarith
    · intro x hx
      rcases List.mem_or_eq_of_mem_set hx with hx | hx
      · simp [zerosN] at hx; rw [hx.2]
      · rw [hx]; exact h0
    · simp only [reconAt]
      rw [hhead s hs, mixAt_set_zeros s c pts i p hp]; ring
    · simp only [weightedValue]
      rw [dot_zipWith_sub c point p _ hpl.symm, dot_set_zeros c vals pts.length i val hv hi]
      apply le_of_eq; ring

/-- corollary of A5: the repaired sawtooth value is the corner-only value `basicV`, or the value of a
    primal-feasible solution of the interpolation LP (hence at least the LP optimum, which is a minimum) -/
theorem sawtooth_repaired_value {point : Vec} {ubQ : List Vec} {A : Nat} {pts : List Vec} {vals : Vec}
    (hpt : ∀ x ∈ point, 0 ≤ x) (hrows : ubQ.length = point.length ∧ ∀ row ∈ ubQ, row.length = A) (hA : 0 < A)
    (hlen : vals.length = pts.length) (hpts : ∀ p ∈ pts, ∀ x ∈ p, 0 ≤ x)
    (hz : ∀ p ∈ pts, ∀ s, isZeroS (p.getD s 0) = true → p.getD s 0 = 0)
    (hptlen : ∀ p ∈ pts, p.length = point.length) {v : Rat} {w : Vec}
    (h : sawtooth repaired point ubQ A pts vals = some ⟨v, some w⟩) :
    v = basicV point ubQ A ∨
      ∃ wc wp, primalOK point wc wp pts = true ∧ weightedValue (cornerVals ubQ) wc wp vals = v := by
  rcases sawtooth_repaired_cases hpt hrows hA hlen hpts with h' | ⟨i, p, val, c, hp, hv, h0, h1, hs, h'⟩
  · rw [h'] at h
    simp only [Option.some.injEq, Out.mk.injEq] at h
    exact Or.inl h.1.symm
  · right
    refine ⟨w.take point.length, w.drop point.length,
      (sawtooth_repaired_weights hpt hrows hA hlen hpts hz hptlen h).1, ?_⟩
    rw [h'] at h
    simp only [Option.some.injEq, Out.mk.injEq] at h
    obtain ⟨rfl, rfl⟩ := h
    have hpl : p.length = point.length := hptlen p (List.mem_of_getElem? hp)
    have hi : i < pts.length := by
      rcases Nat.lt_or_ge i pts.length with h | h
      · exact h
      · rw [List.getElem?_eq_none h] at hp; cases hp
    have hhl : (List.zipWith (fun x y => x - y * c) point p).length = point.length := by
      simp [hpl]
    rw [List.set_append_right _ _ (by omega), hhl, Nat.add_sub_cancel_left]
    rw [List.take_left' hhl, List.drop_left' hhl]
    simp only [weightedValue]
    rw [dot_zipWith_sub c point p _ hpl.symm, dot_set_zeros c vals pts.length i val hv hi]
    ring

/-- test: the hypotheses of A5 are satisfiable (harness input; weights `[3/8, 0, 1/8 | 1/2]`, value 11/4) -/
example : primalOK [1/2,1/4,1/4] (([3/8, 0, 1/8, 1/2] : Vec).take 3) (([3/8, 0, 1/8, 1/2] : Vec).drop 3) [[1/4,1/2,1/4]] = true ∧
    (11/4 : Rat) ≤ weightedValue (cornerVals [[4],[5],[6]]) (([3/8, 0, 1/8, 1/2] : Vec).take 3) (([3/8, 0, 1/8, 1/2] : Vec).drop 3) [1] :=
  sawtooth_repaired_weights (point := [1/2,1/4,1/4]) (ubQ := [[4],[5],[6]]) (A := 1) (pts := [[1/4,1/2,1/4]]) (vals := [1])
    (by decide +kernel) (by decide) (by decide) (by decide) (by decide +kernel)
    (by
      intro p hp s hs
      simp only [List.mem_singleton] at hp
      subst hp
      rcases s with _ | _ | _ | s <;> revert hs <;> simp <;> decide +kernel)
    (by decide) (by decide +kernel)

/-- why `hz` is needed in A5 (witness): a stored coordinate of 1e-7 counts as "zero", the state is skipped,
    and the corner weight at that state is `0 − 1e-7·1 < 0` -/
theorem sawtooth_repaired_weights_needs_hz :
    ∃ w, (sawtooth repaired [0, 1] [[4],[5]] 1 [[1/10000000, 9999999/10000000]] [0]).map (·.weights) = some (some w) ∧
      primalOK [0, 1] (w.take 2) (w.drop 2) [[1/10000000, 9999999/10000000]] = false := by
  refine ⟨[-1/10000000, 1/10000000, 1], ?_, ?_⟩ <;> decide +kernel

/-! ## B. LPInterpolation -/

/-- indices of the stored points compatible with the query (same text as in the model) -/
def lpCompat (point : Vec) (pts : List Vec) : List Nat :=
  if (idxWhere isZeroS point).isEmpty then List.range pts.length
  else (List.range pts.length).filter
    (fun i => (idxWhere isZeroS point).all (fun s => isZeroS ((pts.getD i []).getD s 0)))

def lpNonZero (point : Vec) : List Nat := idxWhere (fun x => !isZeroS x) point

/-- `(unscaled objective, point weights)`: the single-point shortcut or the LP (same text as in the model) -/
def lpSol (raw : Bool) (lp : LpIn → Option (Rat × Vec)) (point cv : Vec) (pts : List Vec) (vals : Vec)
    (compat : List Nat) : Option (Rat × Vec) :=
  match compat.map (fun i => pts.getD i []), compat.map (fun i => vals.getD i 0 - dot (pts.getD i []) cv) with
  | [cp], [g] =>
    if raw then
      match minQuot (List.zipWith ieeeDiv point cp) (some none) with
      | some (some c) => some (c * g, [c])
      | _ => none
    else
      if decide (g < 0) then
        let c := ((lpNonZero point).filter (fun s => decide (0 < cp.getD s 0))).foldl
          (fun m s => minQ m (point.getD s 0 / cp.getD s 0)) 1
        some (c * g, [c])
      else some (0, [0])
  | _, _ => lp ⟨(lpNonZero point).map (fun s => ((compat.map (fun i => pts.getD i [])).map (fun p => p.getD s 0), point.getD s 0)),
      compat.map (fun i => vals.getD i 0 - dot (sel (lpNonZero point) (pts.getD i [])) (sel (lpNonZero point) cv))⟩

/-- the weight vector before the final clean-up (same text as in the model) -/
def lpWeights (tail : Bool) (point : Vec) (pts : List Vec) (compat : List Nat) (result : Vec) : Vec :=
  let base := (lpNonZero point).foldl
    (fun b s => b.set s (point.getD s 0 - mixAt result (compat.map (fun i => pts.getD i [])) s))
    (zerosN (point.length + pts.length))
  if tail then scatter base ((List.range compat.length).map (fun i => point.length + pts.length - compat.length + i)) result
  else scatter base (compat.map (fun i => point.length + i)) result

theorem lpInterp_eq (V : Variant) (lp : LpIn → Option (Rat × Vec)) (point : Vec) (ubQ : List Vec) (A : Nat)
    (pts : List Vec) (vals : Vec) :
    lpInterp V lp point ubQ A pts vals =
      if (lpCompat point pts).isEmpty then some ⟨basicV point ubQ A, some (point ++ zerosN pts.length)⟩
      else
        match lpSol V.lpSingleRaw lp point (cornerVals ubQ) pts vals (lpCompat point pts) with
        | none => none
        | some (unscaled, result) =>
          some ⟨unscaled + dot point (cornerVals ubQ),
            some (cleanW (lpWeights V.lpTail point pts (lpCompat point pts) result))⟩ := rfl

/-- B1: when the query has no "zero" coordinate every stored point is compatible, the tail block of the weight
    vector IS the points' own slots, and the as-found placement (`retval.tail(k) = result`) is right -/
theorem lpInterp_variant_agree_full_support (r a b : Bool) (lp : LpIn → Option (Rat × Vec)) (point : Vec)
    (ubQ : List Vec) (A : Nat) (pts : List Vec) (vals : Vec) (h : idxWhere isZeroS point = []) :
    lpInterp ⟨true, r, a, b⟩ lp point ubQ A pts vals = lpInterp ⟨false, r, a, b⟩ lp point ubQ A pts vals := by
  have hc : lpCompat point pts = List.range pts.length := by simp [lpCompat, h]
  have hw : ∀ result, lpWeights true point pts (lpCompat point pts) result =
      lpWeights false point pts (lpCompat point pts) result := by
    intro result
    have : (List.range (List.range pts.length).length).map
        (fun i => point.length + pts.length - (List.range pts.length).length + i) =
        (List.range pts.length).map (fun i => point.length + i) := by
      rw [List.length_range]
      apply List.map_congr_left
      intro i _
      omega
    simp only [lpWeights, hc, this, if_true, Bool.false_eq_true, if_false]
  rw [lpInterp_eq, lpInterp_eq]
  simp only [hw]

/-- test: the hypothesis of B1 is satisfiable (a query with full support) -/
example : idxWhere isZeroS [1/2, 1/4, 1/4] = [] := by decide +kernel

/-- contract of the LP oracle: the answer is a feasible point of the LP it was given (non-negative, one entry per
    column, every `≤` row satisfied) and the reported objective is the objective of that point -/
def LpFeasible (inp : LpIn) (sol : Rat × Vec) : Prop :=
  sol.2.length = inp.gains.length ∧ (∀ x ∈ sol.2, 0 ≤ x) ∧ (∀ row ∈ inp.rows, dot row.1 sol.2 ≤ row.2) ∧
    sol.1 = dot sol.2 inp.gains

instance (inp : LpIn) (sol : Rat × Vec) : Decidable (LpFeasible inp sol) := by
  unfold LpFeasible; infer_instance

/-- with exactly one compatible point the LP is not called -/
theorem lpInterp_single_lp_irrelevant (V : Variant) (lp lp' : LpIn → Option (Rat × Vec)) (point : Vec)
    (ubQ : List Vec) (A : Nat) (pts : List Vec) (vals : Vec) (i : Nat) (h : lpCompat point pts = [i]) :
    lpInterp V lp point ubQ A pts vals = lpInterp V lp' point ubQ A pts vals := by
  rw [lpInterp_eq, lpInterp_eq, h]
  rfl

/-- B2 witness (harness input; the oracle returns the optimum `(-3, [1/2, 1/2])` of the LP over the two compatible
    points 0 and 1): the as-found reading writes the two weights to the LAST two point slots, i.e. onto point 2,
    whose third coordinate is 1/2 while the query's is 0 — not primal feasible -/
theorem lpInterp_asFound_slot_witness :
    lpInterp asFound (fun _ => some (-3, [1/2, 1/2])) [1/2, 1/2, 0] [[4,2],[3,5],[1,6]] 2
        [[1/4,3/4,0],[3/4,1/4,0],[1/4,1/4,1/2]] [2,1,0] = some ⟨3/2, some [0,0,0, 0,1/2,1/2]⟩ ∧
    primalOK [1/2, 1/2, 0] (([0,0,0, 0,1/2,1/2] : Vec).take 3) (([0,0,0, 0,1/2,1/2] : Vec).drop 3)
        [[1/4,3/4,0],[3/4,1/4,0],[1/4,1/4,1/2]] = false := by
  decide +kernel

/-- B2 witness, repaired reading: each weight in its own point's slot — primal feasible, same value -/
theorem lpInterp_repaired_slot_witness :
    lpInterp repaired (fun _ => some (-3, [1/2, 1/2])) [1/2, 1/2, 0] [[4,2],[3,5],[1,6]] 2
        [[1/4,3/4,0],[3/4,1/4,0],[1/4,1/4,1/2]] [2,1,0] = some ⟨3/2, some [0,0,0, 1/2,1/2,0]⟩ ∧
    primalOK [1/2, 1/2, 0] (([0,0,0, 1/2,1/2,0] : Vec).take 3) (([0,0,0, 1/2,1/2,0] : Vec).drop 3)
        [[1/4,3/4,0],[3/4,1/4,0],[1/4,1/4,1/2]] = true := by
  decide +kernel

/-- test: the oracle answer used in the B2 witnesses is `LpFeasible` for the LP actually posed (an oracle that
    answers only when its fixed answer is feasible gives the same results) -/
example :
    lpInterp repaired (fun inp => if LpFeasible inp (-3, [1/2, 1/2]) then some (-3, [1/2, 1/2]) else none)
        [1/2, 1/2, 0] [[4,2],[3,5],[1,6]] 2
        [[1/4,3/4,0],[3/4,1/4,0],[1/4,1/4,1/2]] [2,1,0] = some ⟨3/2, some [0,0,0, 1/2,1/2,0]⟩ := by
  decide +kernel

/-- B3 witness (harness input, one compatible point, query with a zero coordinate that the point shares): the
    as-found shortcut divides 0 by 0 — no prediction, whatever the LP oracle -/
theorem lpInterp_asFound_nan_witness (lp : LpIn → Option (Rat × Vec)) :
    lpInterp asFound lp [0, 1/2, 1/2] [[4,2],[3,5],[1,6]] 2 [[0, 1/4, 3/4]] [2] = none := by
  rw [lpInterp_single_lp_irrelevant asFound lp (fun _ => none) _ _ _ _ _ 0 (by decide +kernel)]
  decide +kernel

/-- B3 witness, repaired reading: ratio 2/3 over the non-zero states only, primal-feasible weights -/
theorem lpInterp_repaired_nan_witness (lp : LpIn → Option (Rat × Vec)) :
    lpInterp repaired lp [0, 1/2, 1/2] [[4,2],[3,5],[1,6]] 2 [[0, 1/4, 3/4]] [2] = some ⟨3, some [0, 1/3, 0, 2/3]⟩ ∧
    primalOK [0, 1/2, 1/2] (([0, 1/3, 0, 2/3] : Vec).take 3) (([0, 1/3, 0, 2/3] : Vec).drop 3) [[0, 1/4, 3/4]] = true := by
  rw [lpInterp_single_lp_irrelevant repaired lp (fun _ => none) _ _ _ _ _ 0 (by decide +kernel)]
  decide +kernel

/-! ### B4: list algebra used by the weight theorem -/

theorem dot_comm : ∀ (a b : Vec), dot a b = dot b a
  | [], b => by rw [dot_nil_left, dot_nil_right]
  | _ :: _, [] => by rw [dot_nil_left, dot_nil_right]
  | x :: xs, y :: ys => by rw [dot_cons, dot_cons, dot_comm xs ys]; ring

theorem mixAt_eq_dot (s : Nat) : ∀ (ws : Vec) (ps : List Vec), mixAt ws ps s = dot ws (ps.map (fun p => p.getD s 0))
  | [], ps => by rw [mixAt_nil_left, dot_nil_left]
  | _ :: _, [] => by rw [mixAt_nil_right]; simp [dot_nil_right]
  | w :: ws, p :: ps => by rw [mixAt_cons, List.map_cons, dot_cons, mixAt_eq_dot s ws ps]

theorem dot_set (x : Rat) : ∀ (base v : Vec) (i : Nat), i < base.length →
    dot (base.set i x) v = dot base v + (x - base.getD i 0) * v.getD i 0
  | [], _, _, h => by simp at h
  | b :: bs, [], i, _ => by simp [dot_nil_right]
  | b :: bs, y :: ys, 0, _ => by simp only [List.set_cons_zero, dot_cons, List.getD_cons_zero]; ring
  | b :: bs, y :: ys, i+1, h => by
    simp only [List.set_cons_succ, dot_cons, List.getD_cons_succ]
    rw [dot_set x bs ys i (by simpa using h)]; ring

theorem scatter_length : ∀ (is : List Nat) (xs base : Vec), (scatter base is xs).length = base.length
  | [], _, _ => by simp [scatter]
  | _ :: _, [], _ => by simp [scatter]
  | i :: is, x :: xs, base => by rw [scatter, scatter_length is xs, List.length_set]

theorem scatter_mem : ∀ (is : List Nat) (xs base : Vec) (y : Rat), y ∈ scatter base is xs → y ∈ base ∨ y ∈ xs
  | [], _, _, y, h => by left; simpa [scatter] using h
  | _ :: _, [], _, y, h => by left; simpa [scatter] using h
  | i :: is, x :: xs, base, y, h => by
    rw [scatter] at h
    rcases scatter_mem is xs _ y h with h | h
    · rcases List.mem_or_eq_of_mem_set h with h | h
      · exact Or.inl h
      · right; rw [h]; exact List.mem_cons_self ..
    · exact Or.inr (List.mem_cons_of_mem _ h)

theorem dot_scatter (v : Vec) : ∀ (is : List Nat) (xs base : Vec), is.Nodup →
    (∀ i ∈ is, i < base.length ∧ base.getD i 0 = 0) →
    dot (scatter base is xs) v = dot base v + dot xs (is.map (fun i => v.getD i 0))
  | [], xs, base, _, _ => by simp [scatter, dot_nil_right]
  | _ :: _, [], base, _, _ => by simp [scatter, dot_nil_left]
  | i :: is, x :: xs, base, hnd, hb => by
    have hi := hb i (List.mem_cons_self ..)
    have hnd' := List.nodup_cons.mp hnd
    rw [scatter, dot_scatter v is xs (base.set i x) hnd'.2, dot_set x base v i hi.1, hi.2, List.map_cons, dot_cons]
    · ring
    · intro j hj
      have hji : i ≠ j := fun e => hnd'.1 (e ▸ hj)
      have := hb j (List.mem_cons_of_mem _ hj)
      refine ⟨by simpa using this.1, ?_⟩
      rw [List.getD_eq_getElem?_getD, List.getElem?_set_ne hji, ← List.getD_eq_getElem?_getD]
      exact this.2

theorem scatter_append_right (a : Vec) : ∀ (is : List Nat) (xs b : Vec),
    scatter (a ++ b) (is.map (fun i => a.length + i)) xs = a ++ scatter b is xs
  | [], _, _ => by simp [scatter]
  | _ :: _, [], _ => by simp [scatter]
  | i :: is, x :: xs, b => by
    rw [List.map_cons, scatter, scatter, List.set_append_right _ _ (by omega), Nat.add_sub_cancel_left,
      scatter_append_right a is xs]

theorem foldl_set_length (f : Nat → Rat) : ∀ (l : List Nat) (a : Vec),
    (l.foldl (fun b s => b.set s (f s)) a).length = a.length
  | [], _ => rfl
  | t :: l, a => by rw [List.foldl_cons, foldl_set_length f l, List.length_set]

theorem foldl_set_append (f : Nat → Rat) (c : Vec) : ∀ (l : List Nat) (a : Vec), (∀ s ∈ l, s < a.length) →
    l.foldl (fun b s => b.set s (f s)) (a ++ c) = l.foldl (fun b s => b.set s (f s)) a ++ c
  | [], _, _ => rfl
  | t :: l, a, h => by
    rw [List.foldl_cons, List.foldl_cons, List.set_append_left _ _ (h t (List.mem_cons_self ..))]
    exact foldl_set_append f c l _ (fun s hs => by simpa using h s (List.mem_cons_of_mem _ hs))

theorem foldl_set_getD (f : Nat → Rat) (s : Nat) : ∀ (l : List Nat) (a : Vec),
    (l.foldl (fun b s => b.set s (f s)) a).getD s 0 = if s ∈ l ∧ s < a.length then f s else a.getD s 0
  | [], a => by simp
  | t :: l, a => by
    rw [List.foldl_cons, foldl_set_getD f s l, List.length_set]
    by_cases hsl : s ∈ l ∧ s < a.length
    · rw [if_pos hsl, if_pos ⟨List.mem_cons_of_mem _ hsl.1, hsl.2⟩]
    · rw [if_neg hsl]
      by_cases hts : t = s
      · subst hts
        by_cases hlt : t < a.length
        · rw [if_pos ⟨List.mem_cons_self .., hlt⟩]
          simp [List.getD_eq_getElem?_getD, hlt]
        · rw [if_neg (fun h => hlt h.2)]
          simp only [List.getD_eq_getElem?_getD]
          rw [List.getElem?_eq_none (by simpa using hlt), List.getElem?_eq_none (by simpa using hlt)]
      · have : ¬ (s ∈ t :: l ∧ s < a.length) := by
          intro h
          rcases List.mem_cons.mp h.1 with h1 | h1
          · exact hts h1.symm
          · exact hsl ⟨h1, h.2⟩
        rw [if_neg this]
        simp only [List.getD_eq_getElem?_getD, List.getElem?_set_ne hts]

theorem sumL_map_zero {α} (l : List α) : sumL (l.map (fun _ => (0 : Rat))) = 0 := by
  induction l with
  | nil => rfl
  | cons a l ih => simp only [List.map_cons, sumL, ih]; ring

theorem sumL_map_congr {α} (F G : α → Rat) (l : List α) (h : ∀ x ∈ l, F x = G x) : sumL (l.map F) = sumL (l.map G) := by
  rw [List.map_congr_left h]

theorem sumL_map_add {α} (F G : α → Rat) (l : List α) :
    sumL (l.map (fun x => F x + G x)) = sumL (l.map F) + sumL (l.map G) := by
  induction l with
  | nil => simp [sumL]
  | cons a l ih => simp only [List.map_cons, sumL, ih]; ring

theorem sumL_map_sub {α} (F G : α → Rat) (l : List α) :
    sumL (l.map (fun x => F x - G x)) = sumL (l.map F) - sumL (l.map G) := by
  induction l with
  | nil => simp [sumL]
  | cons a l ih => simp only [List.map_cons, sumL, ih]; ring

theorem sumL_map_mul_left {α} (r : Rat) (F : α → Rat) (l : List α) :
    sumL (l.map (fun x => r * F x)) = r * sumL (l.map F) := by
  induction l with
  | nil => simp [sumL]
  | cons a l ih => simp only [List.map_cons, sumL, ih]; ring

theorem sumL_filter {α} (q : α → Bool) (F : α → Rat) (l : List α) (h : ∀ x ∈ l, q x = false → F x = 0) :
    sumL ((l.filter q).map F) = sumL (l.map F) := by
  induction l with
  | nil => rfl
  | cons a l ih =>
    have ih' := ih (fun x hx => h x (List.mem_cons_of_mem _ hx))
    cases hq : q a
    · rw [List.filter_cons_of_neg (by simp [hq]), ih', List.map_cons, sumL, h a (List.mem_cons_self ..) hq]; ring
    · rw [List.filter_cons_of_pos hq, List.map_cons, List.map_cons, sumL, sumL, ih']

theorem dot_map_map {α} (f g : α → Rat) (l : List α) : dot (l.map f) (l.map g) = sumL (l.map (fun x => f x * g x)) := by
  induction l with
  | nil => simp [dot, sumL]
  | cons a l ih => simp only [List.map_cons, dot_cons, sumL, ih]

theorem dot_eq_sumL_range : ∀ (n : Nat) (a b : Vec), a.length ≤ n →
    dot a b = sumL ((List.range n).map (fun s => a.getD s 0 * b.getD s 0))
  | n, [], b, _ => by
    rw [dot_nil_left]
    exact ((sumL_map_congr _ _ _ (fun s _ => by simp)).trans (sumL_map_zero (List.range n))).symm
  | n, x :: xs, [], _ => by
    rw [dot_nil_right]
    exact ((sumL_map_congr _ _ _ (fun s _ => by simp)).trans (sumL_map_zero (List.range n))).symm
  | 0, x :: xs, y :: ys, h => by simp at h
  | n+1, x :: xs, y :: ys, h => by
    rw [dot_cons, dot_eq_sumL_range n xs ys (by simpa using h), List.range_succ_eq_map, List.map_cons, List.map_map, sumL]
    rfl

theorem dot_map_sub {α} (f g : α → Rat) : ∀ (r : Vec) (l : List α),
    dot r (l.map (fun i => f i - g i)) = dot r (l.map f) - dot r (l.map g)
  | [], _ => by simp [dot_nil_left]
  | _ :: _, [] => by simp [dot_nil_right]
  | x :: xs, i :: l => by
    simp only [List.map_cons, dot_cons]
    rw [dot_map_sub f g xs l]; ring

/-- exchange of the two sums: `Σ_s (Σ_k r_k p_k[s]) cv[s] = Σ_k r_k (p_k · cv)` -/
theorem sum_mixAt_mul (S : Nat) (cv : Vec) : ∀ (rs : Vec) (ps : List Vec), (∀ p ∈ ps, p.length ≤ S) →
    sumL ((List.range S).map (fun s => mixAt rs ps s * cv.getD s 0)) = dot rs (ps.map (fun p => dot p cv))
  | [], ps, _ => by
    rw [dot_nil_left]
    exact (sumL_map_congr _ _ _ (fun s _ => by rw [mixAt_nil_left]; ring)).trans (sumL_map_zero (List.range S))
  | _ :: _, [], _ => by
    rw [List.map_nil, dot_nil_right]
    exact (sumL_map_congr _ _ _ (fun s _ => by rw [mixAt_nil_right]; ring)).trans (sumL_map_zero (List.range S))
  | r :: rs, p :: ps, h => by
    have ih := sum_mixAt_mul S cv rs ps (fun q hq => h q (List.mem_cons_of_mem _ hq))
    have hp := dot_eq_sumL_range S p cv (h p (List.mem_cons_self ..))
    rw [List.map_cons, dot_cons, ← ih, hp, ← sumL_map_mul_left, ← sumL_map_add]
    apply sumL_map_congr; intro s _; rw [mixAt_cons]; ring

theorem mixAt_eq_zero (s : Nat) : ∀ (rs : Vec) (ps : List Vec), (∀ p ∈ ps, p.getD s 0 = 0) → mixAt rs ps s = 0
  | [], ps, _ => mixAt_nil_left ps s
  | _ :: _, [], _ => mixAt_nil_right _ s
  | r :: rs, p :: ps, h => by
    rw [mixAt_cons, h p (List.mem_cons_self ..), mixAt_eq_zero s rs ps (fun q hq => h q (List.mem_cons_of_mem _ hq))]
    ring

theorem foldl_minQ_spec (f : Nat → Rat) : ∀ (l : List Nat) (m : Rat), 0 ≤ m → (∀ s ∈ l, 0 ≤ f s) →
    0 ≤ l.foldl (fun m s => minQ m (f s)) m ∧ l.foldl (fun m s => minQ m (f s)) m ≤ m ∧
      ∀ s ∈ l, l.foldl (fun m s => minQ m (f s)) m ≤ f s
  | [], m, hm, _ => by simpa using hm
  | t :: l, m, hm, hf => by
    rw [List.foldl_cons]
    obtain ⟨h0, h1, h2⟩ := foldl_minQ_spec f l (minQ m (f t)) (le_minQ hm (hf t (List.mem_cons_self ..)))
      (fun s hs => hf s (List.mem_cons_of_mem _ hs))
    refine ⟨h0, le_trans h1 (minQ_le_left _ _), fun s hs => ?_⟩
    rcases List.mem_cons.mp hs with rfl | hs
    · exact le_trans h1 (minQ_le_right _ _)
    · exact h2 s hs

theorem mem_lpNonZero {point : Vec} {s : Nat} :
    s ∈ lpNonZero point ↔ s < point.length ∧ isZeroS (point.getD s 0) = false := by
  simp [lpNonZero, idxWhere]

theorem lpCompat_nodup (point : Vec) (pts : List Vec) : (lpCompat point pts).Nodup := by
  unfold lpCompat
  split
  · exact List.nodup_range
  · exact List.nodup_range.filter _

theorem lpCompat_spec {point : Vec} {pts : List Vec} {i : Nat} (h : i ∈ lpCompat point pts) :
    i < pts.length ∧ ∀ s, s < point.length → isZeroS (point.getD s 0) = true →
      isZeroS ((pts.getD i []).getD s 0) = true := by
  unfold lpCompat at h
  split at h
  · rename_i he
    refine ⟨List.mem_range.mp h, fun s hs hz => ?_⟩
    have : s ∈ idxWhere isZeroS point := List.mem_filter.mpr ⟨List.mem_range.mpr hs, hz⟩
    rw [List.isEmpty_iff.mp he] at this
    simp at this
  · obtain ⟨h1, h2⟩ := List.mem_filter.mp h
    refine ⟨List.mem_range.mp h1, fun s hs hz => ?_⟩
    have : s ∈ idxWhere isZeroS point := List.mem_filter.mpr ⟨List.mem_range.mpr hs, hz⟩
    exact List.all_eq_true.mp h2 s this

/-! ### B4: the weight theorem for the repaired reading -/

/-- what the weight theorem needs from `(unscaled, result)`: non-negative point weights whose mixture stays
    below the query on the non-zero states, and an objective equal to `result · gains` -/
def SolOK (point cv : Vec) (pts : List Vec) (vals : Vec) (compat : List Nat) (sol : Rat × Vec) : Prop :=
  (∀ x ∈ sol.2, 0 ≤ x) ∧
  (∀ s ∈ lpNonZero point, mixAt sol.2 (compat.map (fun i => pts.getD i [])) s ≤ point.getD s 0) ∧
  sol.1 = dot sol.2 (compat.map (fun i => vals.getD i 0 - dot (pts.getD i []) cv))

/-- restricting both vectors to the non-zero states of the query does not change `p · cv` when `p` vanishes on
    the query's zero states -/
theorem dot_sel_nonZero {point p : Vec} (cv : Vec) (hpl : p.length ≤ point.length)
    (hzero : ∀ s, s < point.length → isZeroS (point.getD s 0) = true → p.getD s 0 = 0) :
    dot (sel (lpNonZero point) p) (sel (lpNonZero point) cv) = dot p cv := by
  unfold sel
  rw [dot_map_map, dot_eq_sumL_range point.length p cv hpl]
  unfold lpNonZero idxWhere
  apply sumL_filter
  intro s hs hq
  have hs := List.mem_range.mp hs
  have : isZeroS (point.getD s 0) = true := by simpa using hq
  rw [hzero s hs this]; ring

section b4
variable {lp : LpIn → Option (Rat × Vec)} {point cv : Vec} {pts : List Vec} {vals : Vec} {compat : List Nat}

theorem compat_getD_mem (hc : ∀ i ∈ compat, i < pts.length) {i : Nat} (hi : i ∈ compat) : pts.getD i [] ∈ pts := by
  have := hc i hi
  have he : pts.getD i [] = pts[i] := by
    simp [List.getD_eq_getElem?_getD, List.getElem?_eq_getElem this]
  rw [he]
  exact List.getElem_mem this

theorem lp_case_ok (hptlen : ∀ p ∈ pts, p.length = point.length)
    (hz : ∀ p ∈ pts, ∀ s, isZeroS (p.getD s 0) = true → p.getD s 0 = 0)
    (hlp : ∀ inp sol, lp inp = some sol → LpFeasible inp sol)
    (hc : ∀ i ∈ compat, i < pts.length ∧ ∀ s, s < point.length → isZeroS (point.getD s 0) = true →
      isZeroS ((pts.getD i []).getD s 0) = true)
    {sol : Rat × Vec}
    (h : lp ⟨(lpNonZero point).map (fun s => ((compat.map (fun i => pts.getD i [])).map (fun p => p.getD s 0), point.getD s 0)),
      compat.map (fun i => vals.getD i 0 - dot (sel (lpNonZero point) (pts.getD i [])) (sel (lpNonZero point) cv))⟩ = some sol) :
    SolOK point cv pts vals compat sol := by
  obtain ⟨_, hnn, hrows, hobj⟩ := hlp _ _ h
  refine ⟨hnn, fun s hs => ?_, ?_⟩
  · have := hrows (_, _) (List.mem_map.mpr ⟨s, hs, rfl⟩)
    simp only at this
    rw [mixAt_eq_dot, dot_comm]; exact this
  · rw [hobj]
    simp only
    congr 1
    apply List.map_congr_left
    intro i hi
    have hm : pts.getD i [] ∈ pts := compat_getD_mem (fun j hj => (hc j hj).1) hi
    rw [dot_sel_nonZero cv (le_of_eq (hptlen _ hm)) (fun s hs hzs => hz _ hm s ((hc i hi).2 s hs hzs))]

theorem lpSol_ok (hpt : ∀ x ∈ point, 0 ≤ x) (hpts : ∀ p ∈ pts, ∀ x ∈ p, 0 ≤ x)
    (hptlen : ∀ p ∈ pts, p.length = point.length)
    (hz : ∀ p ∈ pts, ∀ s, isZeroS (p.getD s 0) = true → p.getD s 0 = 0)
    (hlp : ∀ inp sol, lp inp = some sol → LpFeasible inp sol)
    (hc : ∀ i ∈ compat, i < pts.length ∧ ∀ s, s < point.length → isZeroS (point.getD s 0) = true →
      isZeroS ((pts.getD i []).getD s 0) = true)
    {sol : Rat × Vec} (h : lpSol false lp point cv pts vals compat = some sol) :
    SolOK point cv pts vals compat sol := by
  match compat, hc, h with
  | [], hc, h => exact lp_case_ok hptlen hz hlp hc h
  | _ :: _ :: _, hc, h => exact lp_case_ok hptlen hz hlp hc h
  | [i], hc, h =>
    have hcp : ∀ x ∈ pts.getD i [], 0 ≤ x := hpts _ (compat_getD_mem (fun j hj => (hc j hj).1) (List.mem_singleton.mpr rfl))
    have hdef : lpSol false lp point cv pts vals [i] =
        if decide (vals.getD i 0 - dot (pts.getD i []) cv < 0) = true then
          some (((lpNonZero point).filter (fun s => decide (0 < (pts.getD i []).getD s 0))).foldl
              (fun m s => minQ m (point.getD s 0 / (pts.getD i []).getD s 0)) 1 *
              (vals.getD i 0 - dot (pts.getD i []) cv),
            [((lpNonZero point).filter (fun s => decide (0 < (pts.getD i []).getD s 0))).foldl
              (fun m s => minQ m (point.getD s 0 / (pts.getD i []).getD s 0)) 1])
        else some (0, [0]) := rfl
    rw [hdef] at h
    obtain ⟨hc0, _, hcle⟩ := foldl_minQ_spec (fun s => point.getD s 0 / (pts.getD i []).getD s 0)
      ((lpNonZero point).filter (fun s => decide (0 < (pts.getD i []).getD s 0))) 1 (by norm_num)
      (fun s _ => div_nonneg (getD_nonneg hpt s) (getD_nonneg hcp s))
    split at h
    · cases h
      refine ⟨?_, fun s hs => ?_, ?_⟩
      · intro x hx; simp only [List.mem_singleton] at hx; rw [hx]; exact hc0
      · simp only [List.map_cons, List.map_nil, mixAt_cons, mixAt_nil_left, add_zero]
        by_cases hpos : 0 < (pts.getD i []).getD s 0
        · exact (le_div_iff₀ hpos).mp (hcle s (List.mem_filter.mpr ⟨hs, decide_eq_true hpos⟩))
        · have : (pts.getD i []).getD s 0 = 0 := le_antisymm (not_lt.mp hpos) (getD_nonneg hcp s)
          rw [this, mul_zero]; exact getD_nonneg hpt s
      · simp only [List.map_cons, List.map_nil, dot_cons, dot_nil_left, add_zero]
    · cases h
      refine ⟨?_, fun s hs => ?_, ?_⟩
      · intro x hx; simp only [List.mem_singleton] at hx; rw [hx]
      · simp only [List.map_cons, List.map_nil, mixAt_cons, mixAt_nil_left, add_zero, zero_mul]
        exact getD_nonneg hpt s
      · simp only [List.map_cons, List.map_nil, dot_cons, dot_nil_left, add_zero, zero_mul]

theorem zerosN_getD (n s : Nat) : (zerosN n).getD s 0 = 0 := by
  simp only [zerosN, List.getD_eq_getElem?_getD, List.getElem?_replicate]
  split <;> rfl

theorem getD_map_getD (pts : List Vec) (s i : Nat) :
    (pts.map (fun p => p.getD s 0)).getD i 0 = (pts.getD i []).getD s 0 := by
  simp only [List.getD_eq_getElem?_getD, List.getElem?_map]
  cases pts[i]? <;> simp

theorem scatter_append_right' (a : Vec) (S : Nat) (h : a.length = S) (is : List Nat) (xs b : Vec) :
    scatter (a ++ b) (is.map (fun i => S + i)) xs = a ++ scatter b is xs := by
  subst h; exact scatter_append_right a is xs b

/-- the repaired weight vector is `[corner block | point block]` with the corner block written by the loop over
    the non-zero states and the point block by `scatter` into the compatible points' own slots -/
theorem lpWeights_eq (point : Vec) (pts : List Vec) (compat : List Nat) (r : Vec) :
    lpWeights false point pts compat r =
      (lpNonZero point).foldl
        (fun b s => b.set s (point.getD s 0 - mixAt r (compat.map (fun i => pts.getD i [])) s)) (zerosN point.length)
      ++ scatter (zerosN pts.length) compat r := by
  unfold lpWeights
  simp only [Bool.false_eq_true, if_false]
  have hzz : zerosN (point.length + pts.length) = zerosN point.length ++ zerosN pts.length := by
    simp [zerosN, List.replicate_append_replicate]
  rw [hzz, foldl_set_append _ _ _ _ (fun s hs => by
    have := (mem_lpNonZero.mp hs).1
    simpa [zerosN] using this)]
  exact scatter_append_right' _ _ (by rw [foldl_set_length]; simp [zerosN]) _ _ _

theorem lpWeights_spec (hpt : ∀ x ∈ point, 0 ≤ x)
    (hptlen : ∀ p ∈ pts, p.length = point.length)
    (hzpt : ∀ s, isZeroS (point.getD s 0) = true → point.getD s 0 = 0)
    (hz : ∀ p ∈ pts, ∀ s, isZeroS (p.getD s 0) = true → p.getD s 0 = 0)
    (hnd : compat.Nodup)
    (hc : ∀ i ∈ compat, i < pts.length ∧ ∀ s, s < point.length → isZeroS (point.getD s 0) = true →
      isZeroS ((pts.getD i []).getD s 0) = true)
    {u : Rat} {r : Vec} (hok : SolOK point cv pts vals compat (u, r)) :
    (∀ x ∈ lpWeights false point pts compat r, 0 ≤ x) ∧
    (lpWeights false point pts compat r).length = point.length + pts.length ∧
    (∀ s, s < point.length → reconAt point ((lpWeights false point pts compat r).take point.length)
        ((lpWeights false point pts compat r).drop point.length) pts s = 0) ∧
    u + dot point cv = weightedValue cv ((lpWeights false point pts compat r).take point.length)
        ((lpWeights false point pts compat r).drop point.length) vals := by
  obtain ⟨hnn, hrow, hobj⟩ := hok
  simp only at hnn hrow hobj
  rw [lpWeights_eq]
  generalize hhv : (lpNonZero point).foldl
    (fun b s => b.set s (point.getD s 0 - mixAt r (compat.map (fun i => pts.getD i [])) s)) (zerosN point.length) = headv
  have hhl : headv.length = point.length := by rw [← hhv, foldl_set_length]; simp [zerosN]
  have hcm : ∀ p ∈ compat.map (fun i => pts.getD i []), p ∈ pts := by
    intro p hp
    obtain ⟨i, hi, rfl⟩ := List.mem_map.mp hp
    exact compat_getD_mem (fun j hj => (hc j hj).1) hi
  -- the mixture vanishes on the query's zero states
  have hmix0 : ∀ s, s < point.length → isZeroS (point.getD s 0) = true →
      mixAt r (compat.map (fun i => pts.getD i [])) s = 0 := by
    intro s hs hzs
    apply mixAt_eq_zero
    intro p hp
    obtain ⟨i, hi, rfl⟩ := List.mem_map.mp hp
    exact hz _ (hcm _ hp) s ((hc i hi).2 s hs hzs)
  have hhead : ∀ s, s < point.length →
      headv.getD s 0 = point.getD s 0 - mixAt r (compat.map (fun i => pts.getD i [])) s := by
    intro s hs
    rw [← hhv, foldl_set_getD, zerosN_getD]
    cases hzs : isZeroS (point.getD s 0)
    · rw [if_pos ⟨mem_lpNonZero.mpr ⟨hs, hzs⟩, by simpa [zerosN] using hs⟩]
    · rw [if_neg (fun h => by have := (mem_lpNonZero.mp h.1).2; rw [hzs] at this; cases this),
        hzpt s hzs, hmix0 s hs hzs]; ring
  have hmixle : ∀ s, s < point.length → mixAt r (compat.map (fun i => pts.getD i [])) s ≤ point.getD s 0 := by
    intro s hs
    cases hzs : isZeroS (point.getD s 0)
    · exact hrow s (mem_lpNonZero.mpr ⟨hs, hzs⟩)
    · rw [hmix0 s hs hzs]; exact getD_nonneg hpt s
  have hsc : ∀ v : Vec, dot (scatter (zerosN pts.length) compat r) v = dot r (compat.map (fun i => v.getD i 0)) := by
    intro v
    rw [dot_scatter v compat r _ hnd (fun i hi => ⟨by simpa [zerosN] using (hc i hi).1, zerosN_getD _ _⟩),
      dot_zeros_left]; ring
  have htailmix : ∀ s, mixAt (scatter (zerosN pts.length) compat r) pts s =
      mixAt r (compat.map (fun i => pts.getD i [])) s := by
    intro s
    rw [mixAt_eq_dot, hsc, mixAt_eq_dot, List.map_map]
    congr 1
    apply List.map_congr_left
    intro i _
    exact getD_map_getD pts s i
  rw [List.take_left' hhl, List.drop_left' hhl]
  refine ⟨?_, ?_, ?_, ?_⟩
  · intro x hx
    rcases List.mem_append.mp hx with hx | hx
    · refine nonneg_of_getD (fun s hs => ?_) x hx
      rw [hhl] at hs
      rw [hhead s hs]
      have := hmixle s hs
      linarith
    · rcases scatter_mem _ _ _ _ hx with hx | hx
      · simp [zerosN] at hx; rw [hx.2]
      · exact hnn x hx
  · rw [List.length_append, hhl, scatter_length]; simp [zerosN]
  · intro s hs
    simp only [reconAt]
    rw [hhead s hs, htailmix]; ring
  · simp only [weightedValue]
    rw [hsc vals, hobj, dot_map_sub, dot_eq_sumL_range point.length headv cv (le_of_eq hhl)]
    have h1 : sumL ((List.range point.length).map (fun s => headv.getD s 0 * cv.getD s 0)) =
        sumL ((List.range point.length).map (fun s => point.getD s 0 * cv.getD s 0)) -
        sumL ((List.range point.length).map
          (fun s => mixAt r (compat.map (fun i => pts.getD i [])) s * cv.getD s 0)) := by
      rw [← sumL_map_sub]
      apply sumL_map_congr
      intro s hs
      rw [hhead s (List.mem_range.mp hs)]; ring
    rw [h1, ← dot_eq_sumL_range point.length point cv (le_refl _),
      sum_mixAt_mul point.length cv r _ (fun p hp => le_of_eq (hptlen p (hcm p hp))), List.map_map]
    have : ((fun p => dot p cv) ∘ fun i => pts.getD i []) = fun i => dot (pts.getD i []) cv := rfl
    rw [this]; ring

end b4

theorem cleanW_id {w : Vec} (h : ∀ x ∈ w, 0 ≤ x ∧ (isZeroS x = true → x = 0)) : cleanW w = w := by
  unfold cleanW
  conv => rhs; rw [← List.map_id w]
  apply List.map_congr_left
  intro x hx
  obtain ⟨h0, hz⟩ := h x hx
  by_cases hc : (isZeroS x || decide (x < 0)) = true
  · rw [if_pos hc]
    rcases Bool.or_eq_true _ _ ▸ hc with h1 | h1
    · exact (hz h1).symm
    · exact absurd (of_decide_eq_true h1) (not_lt.mpr h0)
  · rw [if_neg hc]; rfl

set_option linter.unusedVariables false in
/-- B4: the repaired reading of `LPInterpolation`, against an LP oracle that only promises a FEASIBLE point with
    a correctly reported objective (`LpFeasible`; optimality is not needed), returns the cleaned-up image of a
    weight vector `w` that is non-negative, has one entry per corner and stored point, reconstructs the query
    exactly, and whose weighted value is the returned value (or the value is the corner-only `basicV`, when no
    stored point is compatible).  All three branches (no compatible point, single-point shortcut, LP) are covered.

    Exact zeros are assumed for the query and the stored points (`hzpt`, `hz`): the tolerance test `isZeroS`
    otherwise lets coordinates in (0, 1e-6] be dropped from the LP rows, which breaks exact reconstruction by that
    much.  `hlen` and `hub` are not needed (missing entries read as 0 on both sides of every identity). -/
theorem lpinterp_weights {lp : LpIn → Option (Rat × Vec)} {point : Vec} {ubQ : List Vec} {A : Nat}
    {pts : List Vec} {vals : Vec}
    (hpt : ∀ x ∈ point, 0 ≤ x) (hpts : ∀ p ∈ pts, ∀ x ∈ p, 0 ≤ x)
    (hptlen : ∀ p ∈ pts, p.length = point.length) (hlen : vals.length = pts.length)
    (hub : ubQ.length = point.length)
    (hzpt : ∀ s, isZeroS (point.getD s 0) = true → point.getD s 0 = 0)
    (hz : ∀ p ∈ pts, ∀ s, isZeroS (p.getD s 0) = true → p.getD s 0 = 0)
    (hlp : ∀ inp sol, lp inp = some sol → LpFeasible inp sol)
    {v : Rat} {w' : Vec} (h : lpInterp repaired lp point ubQ A pts vals = some ⟨v, some w'⟩) :
    ∃ w, w' = cleanW w ∧ (∀ x ∈ w, 0 ≤ x) ∧ w.length = point.length + pts.length ∧
      (∀ s, s < point.length → reconAt point (w.take point.length) (w.drop point.length) pts s = 0) ∧
      (v = weightedValue (cornerVals ubQ) (w.take point.length) (w.drop point.length) vals ∨
        v = basicV point ubQ A) := by
  rw [lpInterp_eq] at h
  simp only [repaired] at h
  split at h
  · -- no compatible point: corner weights only
    simp only [Option.some.injEq, Out.mk.injEq] at h
    obtain ⟨rfl, rfl⟩ := h
    have hzer : ∀ x ∈ zerosN pts.length, x = 0 := by intro x hx; simp [zerosN] at hx; exact hx.2
    refine ⟨point ++ zerosN pts.length, (cleanW_id ?_).symm, ?_, by simp [zerosN], fun s _ => ?_, Or.inr rfl⟩
    · intro x hx
      rcases List.mem_append.mp hx with hx | hx
      · obtain ⟨s, hs, rfl⟩ := List.mem_iff_getElem.mp hx
        have he : point.getD s 0 = point[s] := by
          simp [List.getD_eq_getElem?_getD, List.getElem?_eq_getElem hs]
        exact ⟨hpt _ hx, fun hzs => by rw [← he] at hzs ⊢; exact hzpt s hzs⟩
      · rw [hzer x hx]; exact ⟨le_refl _, fun _ => rfl⟩
    · intro x hx
      rcases List.mem_append.mp hx with hx | hx
      · exact hpt x hx
      · rw [hzer x hx]
    · rw [List.take_left, List.drop_left]
      simp only [reconAt, mixAt_zeros]; ring
  · cases hsol : lpSol false lp point (cornerVals ubQ) pts vals (lpCompat point pts) with
    | none => rw [hsol] at h; cases h
    | some sol =>
      obtain ⟨u, r⟩ := sol
      rw [hsol] at h
      simp only [Option.some.injEq, Out.mk.injEq] at h
      obtain ⟨rfl, rfl⟩ := h
      have hc := fun i (hi : i ∈ lpCompat point pts) => lpCompat_spec hi
      have hok := lpSol_ok hpt hpts hptlen hz hlp hc hsol
      obtain ⟨h1, h2, h3, h4⟩ := lpWeights_spec (vals := vals) hpt hptlen hzpt hz (lpCompat_nodup point pts) hc hok
      exact ⟨_, rfl, h1, h2, h3, Or.inl h4⟩

/-- test: the hypotheses of B4 are satisfiable — the B2 input with an oracle that answers the optimum only when
    it is `LpFeasible` for the LP posed (so the contract holds by construction) -/
example : ∃ w, ([0,0,0, 1/2,1/2,0] : Vec) = cleanW w ∧ (∀ x ∈ w, 0 ≤ x) ∧ w.length = 3 + 3 ∧
    (∀ s, s < 3 → reconAt [1/2, 1/2, 0] (w.take 3) (w.drop 3) [[1/4,3/4,0],[3/4,1/4,0],[1/4,1/4,1/2]] s = 0) ∧
    ((3/2 : Rat) = weightedValue (cornerVals [[4,2],[3,5],[1,6]]) (w.take 3) (w.drop 3) [2,1,0] ∨
      (3/2 : Rat) = basicV [1/2, 1/2, 0] [[4,2],[3,5],[1,6]] 2) :=
  lpinterp_weights
    (lp := fun inp => if LpFeasible inp (-3, [1/2, 1/2]) then some (-3, [1/2, 1/2]) else none)
    (point := [1/2, 1/2, 0]) (ubQ := [[4,2],[3,5],[1,6]]) (A := 2)
    (pts := [[1/4,3/4,0],[3/4,1/4,0],[1/4,1/4,1/2]]) (vals := [2,1,0])
    (by decide +kernel) (by decide +kernel) (by decide) (by decide) (by decide)
    (by
      intro s hs
      rcases s with _ | _ | _ | s
      · revert hs; decide +kernel
      · revert hs; decide +kernel
      · rfl
      · rfl)
    (by
      intro p hp s hs
      simp only [List.mem_cons, List.not_mem_nil, or_false] at hp
      rcases hp with rfl | rfl | rfl <;> rcases s with _ | _ | _ | s <;>
        first | rfl | (revert hs; decide +kernel))
    (by
      intro inp sol h
      split at h
      · rename_i hf; cases h; exact hf
      · cases h)
    (by decide +kernel)

end AITB.Interp
