/-
  AITB.Props.C16Objects — C16, solver objects as written (round 4):
  * `peObject_eq_policyEvaluation`, `peObject_reusable`, `pe_reuse_eq_fresh`: `MDP::PolicyEvaluation` with its scratch `v1_`
    explicit is C01's `policyEvaluation`, and a used object answers like a fresh one;
  * `lsLoop_done_drained`, `ls_reuse_eq_fresh`: `LinearSupport`'s `agenda_` is read before it is written, but every call that
    returns leaves it empty (the loop has one exit, the empty test: pinned by `ls_loop_as_modelled`), so reuse = fresh;
    `ls_stale_agenda_counterexample`: a call that is left by an exception does NOT restore that state — the next call on the
    object starts from the stale agenda and can answer differently (not reachable from the library's own code short of an
    allocation failure: documented, not a finding);
  * `drained_history_free_on`: the conditional form of `drained_history_free` used for it;
  * `calls_that_draw_seeds_accounted`: the member functions that construct an engine-owning object (and so advance the
    Seeder) are exactly the listed ones.
  Core Lean only.
-/
import AITB.Gen.C16Rng
import AITB.Props.C16Solvers
namespace AITB.Hidden

/-! ### PolicyEvaluation -/

theorem peObject_eq_policyEvaluation (c : PECfg) (sc : AITB.MDP.Vec) (p : AITB.MDP.Mat) :
    (peObject.call c sc p).2.2 = AITB.MDP.policyEvaluation c.m c.rep c.horizon c.tol c.vParameter p := by
  obtain ⟨m, rep, horizon, tol, vp⟩ := c
  cases vp <;> rfl

theorem peObject_reusable : Reusable peObject :=
  ⟨fun _ _ _ => rfl, fun _ _ _ _ => rfl⟩

/-- any sequence of calls on one `PolicyEvaluation` object = fresh evaluations, policy by policy -/
theorem pe_reuse_eq_fresh (c : PECfg) (sc : AITB.MDP.Vec) (ps : List AITB.MDP.Mat) :
    peObject.runSeq c sc ps = ps.map (fun p => AITB.MDP.policyEvaluation c.m c.rep c.horizon c.tol c.vParameter p) := by
  rw [call_output_independent_of_history peObject peObject_reusable #[] ps c sc]
  congr 1

/-! ### a scratch member that is read: drained containers -/

/-- conditional form of `drained_history_free`: only the calls that return normally (`good`) need to restore the fresh state -/
theorem drained_history_free_on {Cfg Scr In Out} (S : SolverSem Cfg Scr In Out) (fresh : Scr) (good : Cfg → In → Prop)
    (hcfg : ∀ c sc x, (S.call c sc x).1 = c) (hdrain : ∀ c x, good c x → (S.call c fresh x).2.1 = fresh) :
    ∀ (xs : List In) (c : Cfg), (∀ x ∈ xs, good c x) → S.runSeq c fresh xs = xs.map (fun x => (S.call c fresh x).2.2) := by
  intro xs
  induction xs with
  | nil => intro c _; rfl
  | cons x xs ih =>
    intro c hg
    simp only [SolverSem.runSeq, List.map]
    show (S.call c fresh x).2.2 :: S.runSeq (S.call c fresh x).1 (S.call c fresh x).2.1 xs = _
    rw [hcfg, hdrain c x (hg x List.mem_cons_self), ih c (fun y hy => hg y (List.mem_cons_of_mem _ hy))]

/-- **lsLoop_done_drained** — whenever the loop of `LinearSupport::operator()` is left normally, `agenda_` is empty -/
theorem lsLoop_done_drained {V G X} (ops : LSOps V G X) (hpick : ∀ l, ops.pick l = none → l = []) (x : X) :
    ∀ (fuel : Nat) (g : G) (verts agenda : List V) (g' : G) (a : List V),
      lsLoop ops x fuel g verts agenda = (.done g', a) → a = [] := by
  intro fuel
  induction fuel with
  | zero => intro g verts agenda g' a h; simp [lsLoop] at h
  | succ f ih =>
    intro g verts agenda g' a h
    simp only [lsLoop] at h
    cases hp : ops.pick (ops.examine x g verts agenda) with
    | none =>
      rw [hp] at h
      simp only [Prod.mk.injEq, LSExit.done.injEq] at h
      rw [← h.2]; exact hpick _ hp
    | some br =>
      obtain ⟨best, rest⟩ := br
      rw [hp] at h
      simp only at h
      cases he : ops.extend x g best with
      | none => rw [he] at h; simp at h
      | some gv =>
        obtain ⟨g1, v1⟩ := gv
        rw [he] at h
        exact ih g1 v1 _ g' a h

/-- **ls_reuse_eq_fresh** — a `LinearSupport` object used for any sequence of problems whose calls all return answers, call by
    call, like a fresh object, although each call reads the agenda the previous one left -/
theorem ls_reuse_eq_fresh {V G X} (ops : LSOps V G X) (hpick : ∀ l, ops.pick l = none → l = []) (fuel : Nat) (xs : List X)
    (hret : ∀ x ∈ xs, ∃ g, ((lsObject ops fuel).call () [] x).2.2 = .done g) :
    (lsObject ops fuel).runSeq () [] xs = xs.map (fun x => ((lsObject ops fuel).call () [] x).2.2) := by
  refine drained_history_free_on (lsObject ops fuel) [] (fun _ x => ∃ g, ((lsObject ops fuel).call () [] x).2.2 = .done g)
    (fun _ _ _ => rfl) ?_ xs () hret
  rintro ⟨⟩ x ⟨g, hg⟩
  simp only [lsObject] at hg ⊢
  exact lsLoop_done_drained ops hpick x fuel _ _ [] g _ (Prod.ext hg rfl)

/-- a toy instance: vertices are numbers, `examine` pushes the input's vertices above the current support level, `extend`
    throws on vertex 13 -/
def toyLS : LSOps Nat Nat (List Nat) where
  init := fun x => (0, x)
  examine := fun _ g verts agenda => agenda ++ verts.filter (fun v => g < v)
  pick := fun l => match l with | [] => none | v :: r => some (v, r)
  prune := fun best l => l.filter (fun v => best < v)
  extend := fun _ g best => if best = 13 then none else some (max g best, [])

/-- **ls_stale_agenda_counterexample** — after a call that was left by an exception the agenda is not empty, and the next call
    on the same object answers differently from a fresh object (test on literals of the model) -/
theorem ls_stale_agenda_counterexample :
    ((lsObject toyLS 10).call () [] [13, 20]).2.2 = .threw ∧
    ((lsObject toyLS 10).call () [] [13, 20]).2.1 = [20] ∧
    (lsObject toyLS 10).runSeq () [] [[13, 20], [5]] ≠ [[13, 20], [5]].map (fun x => ((lsObject toyLS 10).call () [] x).2.2) := by
  decide

-- non-vacuity of `ls_reuse_eq_fresh`: calls that return
example : (lsObject toyLS 10).runSeq () [] [[3, 7], [5]] = [.done 7, .done 5] := by decide

/-- the loop is the one modelled: `do { … } while (true)`, a single exit guarded by the empty-agenda test, no `return`/`throw`
    inside, the agenda is not touched outside the loop (no `clear()` at the start: the member IS read), and only through the
    container operations `lsLoop` abstracts -/
theorem ls_loop_as_modelled :
    AITB.Gen.C16Rng.lsDoWhileTrue = true ∧ AITB.Gen.C16Rng.lsOnlyExitIsEmptyTest = true ∧
    AITB.Gen.C16Rng.lsAgendaUsedOutsideLoop = false ∧
    AITB.Gen.C16Rng.lsAgendaOps = ["begin", "end", "erase", "pop", "push", "size", "top"] := by
  decide +kernel

/-- **calls_that_draw_seeds_accounted** — the member functions that construct an engine-owning object (a policy, a
    `BeliefGenerator`, a `PBVI`) in their body: each such call advances the `Seeder` by construction order, i.e. it is
    `WOp.construct` followed by calls, and two of them do not commute.  A new one re-opens this obligation (and the harness
    must mark its subject `drawsSeeds`). -/
theorem calls_that_draw_seeds_accounted :
    AITB.Gen.C16Rng.callsThatDrawSeeds =
      ["MDP/Algorithms/PolicyIteration.hpp: QGreedyPolicy p",
       "POMDP/Algorithms/AMDP.hpp: BeliefGenerator bGen",
       "POMDP/Algorithms/AMDP.hpp: BeliefGenerator bGen",
       "POMDP/Algorithms/GapMin.hpp: PBVI pbvi",
       "POMDP/Algorithms/PBVI.hpp: BeliefGenerator bGen",
       "POMDP/Algorithms/PERSEUS.hpp: BeliefGenerator bGen"] := by
  decide +kernel

/-- the `rng` roles of the solver inventory are engines of the engine inventory, and every engine of a classified solver class has
    the role `rng` (the two translators agree) -/
theorem rng_roles_are_engines :
    ∀ r ∈ roles, r.2 = Role.rng → (AITB.Gen.C16Rng.engines.map (fun e => (e.1, e.2.1))).contains r.1 = true := by
  decide +kernel

theorem solver_engines_have_rng_role :
    ∀ e ∈ AITB.Gen.C16Rng.engines, AITB.Gen.Solvers.fields.contains (e.1, e.2.1) = true →
      roles.contains ((e.1, e.2.1), Role.rng) = true := by
  decide +kernel

end AITB.Hidden
