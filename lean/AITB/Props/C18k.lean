/-
  AITB.Props.C18k — the driver's linear-time table (`replayList`: one array write per assignment, then a read-out)
  is the table of the theorems (`tableList`: per cell, the last write that hits it).
-/
import AITB.Props.C18a
namespace AITB.Cassandra

/-- the flat offset determines the cell, for cells of the shape -/
theorem offset_inj {D2 D3 : Nat} {d1 a d3 d1' a' d3' : Nat} (ha : a < D2) (ha' : a' < D2) (h3 : d3 < D3) (h3' : d3' < D3)
    (h : (d1 * D2 + a) * D3 + d3 = (d1' * D2 + a') * D3 + d3') : d1 = d1' ∧ a = a' ∧ d3 = d3' := by
  have hD3 : 0 < D3 := by omega
  have hD2 : 0 < D2 := by omega
  have e3 : d3 = d3' := by
    have := congrArg (· % D3) h
    simp only [Nat.add_comm _ d3, Nat.add_comm _ d3', Nat.add_mul_mod_self_right, Nat.mod_eq_of_lt h3, Nat.mod_eq_of_lt h3'] at this
    exact this
  subst e3
  have hq : d1 * D2 + a = d1' * D2 + a' := by
    have := congrArg (· / D3) h
    simp only [Nat.add_comm _ d3, Nat.add_mul_div_right _ _ hD3, Nat.div_eq_of_lt h3, Nat.zero_add] at this
    exact this
  have ea : a = a' := by
    have := congrArg (· % D2) hq
    simp only [Nat.add_comm _ a, Nat.add_comm _ a', Nat.add_mul_mod_self_right, Nat.mod_eq_of_lt ha, Nat.mod_eq_of_lt ha'] at this
    exact this
  subst ea
  have e1 : d1 = d1' := by
    have := congrArg (· / D2) hq
    simp only [Nat.add_comm _ a, Nat.add_mul_div_right _ _ hD2, Nat.div_eq_of_lt ha, Nat.zero_add] at this
    exact this
  exact ⟨e1, rfl, rfl⟩

theorem offset_cell_lt {D1 D2 D3 d1 a d3 : Nat} (h1 : d1 < D1) (h2 : a < D2) (h3 : d3 < D3) :
    (d1 * D2 + a) * D3 + d3 < D1 * D2 * D3 := by
  have e1 : d1 * D2 + D2 ≤ D1 * D2 := by
    have := Nat.mul_le_mul_right D2 (show d1 + 1 ≤ D1 by omega)
    rw [Nat.add_mul] at this; omega
  have e2 : (d1 * D2 + a + 1) * D3 ≤ D1 * D2 * D3 := Nat.mul_le_mul_right D3 (by omega)
  rw [Nat.add_mul] at e2
  omega

theorem size_replayStep (D1 D2 D3 : Nat) (arr : Array XRat) (w : Write) : (replayStep D1 D2 D3 arr w).size = arr.size := by
  unfold replayStep; split <;> simp

/-- one step, read at a cell of the shape: the new value if the write hits the cell, the old one otherwise -/
theorem getD_replayStep {D1 D2 D3 : Nat} (arr : Array XRat) (hs : arr.size = D1 * D2 * D3) (w : Write) {d1 a d3 : Nat}
    (h1 : d1 < D1) (h2 : a < D2) (h3 : d3 < D3) :
    (replayStep D1 D2 D3 arr w).getD ((d1 * D2 + a) * D3 + d3) (.fin 0) =
      if w.hits d1 a d3 then w.v else arr.getD ((d1 * D2 + a) * D3 + d3) (.fin 0) := by
  unfold replayStep
  by_cases hin : (w.d1 < D1 && w.a < D2 && w.d3 < D3) = true
  · have hin' : (w.d1 < D1 ∧ w.a < D2) ∧ w.d3 < D3 := by simpa using hin
    simp only [hin, if_true, Array.getD_eq_getD_getElem?, Array.getElem?_setIfInBounds, offset]
    by_cases hh : w.hits d1 a d3 = true
    · obtain ⟨e1, e2, e3⟩ := (hits_iff w d1 a d3).1 hh
      have hlt : (d1 * D2 + a) * D3 + d3 < arr.size := by rw [hs]; exact offset_cell_lt h1 h2 h3
      simp [hh, e1, e2, e3, hlt]
    · have hne : (w.d1 * D2 + w.a) * D3 + w.d3 ≠ (d1 * D2 + a) * D3 + d3 := by
        intro e
        obtain ⟨e1, e2, e3⟩ := offset_inj hin'.1.2 h2 hin'.2 h3 e
        exact hh ((hits_iff w d1 a d3).2 ⟨e1, e2, e3⟩)
      have hh' : w.hits d1 a d3 = false := by simpa using hh
      simp [hne, hh']
  · have hh : w.hits d1 a d3 = false := by
      cases hw : w.hits d1 a d3 with
      | false => rfl
      | true =>
        obtain ⟨e1, e2, e3⟩ := (hits_iff w d1 a d3).1 hw
        exfalso; apply hin
        simp [e1, e2, e3, h1, h2, h3]
    have hin' : (w.d1 < D1 && w.a < D2 && w.d3 < D3) = false := by simpa using hin
    simp [hin', hh]

theorem getD_foldl_replayStep {D1 D2 D3 : Nat} (ws : List Write) (arr : Array XRat) (hs : arr.size = D1 * D2 * D3) {d1 a d3 : Nat}
    (h1 : d1 < D1) (h2 : a < D2) (h3 : d3 < D3) :
    (ws.foldl (replayStep D1 D2 D3) arr).getD ((d1 * D2 + a) * D3 + d3) (.fin 0) =
      ws.foldl (fun acc w => if w.hits d1 a d3 then w.v else acc) (arr.getD ((d1 * D2 + a) * D3 + d3) (.fin 0)) := by
  induction ws generalizing arr with
  | nil => rfl
  | cons w t ih =>
    simp only [List.foldl_cons]
    rw [ih (replayStep D1 D2 D3 arr w) (by rw [size_replayStep, hs]), getD_replayStep arr hs w h1 h2 h3]

/-- every cell of the shape, read from the flat storage, is `tableAt` -/
theorem replayArr_getD {D1 D2 D3 : Nat} (ws : List Write) {d1 a d3 : Nat} (h1 : d1 < D1) (h2 : a < D2) (h3 : d3 < D3) :
    (replayArr ws D1 D2 D3).getD ((d1 * D2 + a) * D3 + d3) (.fin 0) = tableAt ws d1 a d3 := by
  unfold replayArr tableAt
  rw [getD_foldl_replayStep ws _ (by simp) h1 h2 h3]
  have : (Array.replicate (D1 * D2 * D3) (XRat.fin 0)).getD ((d1 * D2 + a) * D3 + d3) (.fin 0) = .fin 0 := by
    simp [Array.getD_eq_getD_getElem?, Array.getElem?_replicate, offset_cell_lt h1 h2 h3]
  rw [this]

theorem flatMap_congr' {α β} (l : List α) (f g : α → List β) (h : ∀ x ∈ l, f x = g x) : l.flatMap f = l.flatMap g := by
  induction l with
  | nil => rfl
  | cons x t ih =>
    simp only [List.flatMap_cons, h x List.mem_cons_self, ih (fun y hy => h y (List.mem_cons_of_mem _ hy))]

/-- **the driver's table is the theorems' table** -/
theorem replayList_eq_tableList (ws : List Write) (D1 D2 D3 : Nat) : replayList ws D1 D2 D3 = tableList ws D1 D2 D3 := by
  unfold replayList tableList
  apply flatMap_congr'
  intro d1 hd1
  apply flatMap_congr'
  intro a ha
  apply List.map_congr_left
  intro d3 hd3
  exact replayArr_getD ws (List.mem_range.1 hd1) (List.mem_range.1 ha) (List.mem_range.1 hd3)

end AITB.Cassandra
