/-
  AITB.Props.C08Measure — "index j is selected with probability q", stated literally and uniformly
  for all samplers of property C08, without measure theory: the set of draws u ∈ [0,1) mapped to j
  is a finite union of pairwise disjoint half-open intervals inside [0,1) whose lengths add up to q
  (`PreimageCert`, `SelectsWithProb`).

    M1 dense_cert                  the preimage of k under the dense scan is one interval of length preimageLen
    M2 dense_selects_exact         entries ≥ 0, sum = 1: index k has probability exactly p_k
    M3 dense_selects_valid         isProbability-accepted vector: probability within 1e-6 of p_k
    M4 dense_selects_out_of_range  indices ≥ length have probability 0
    M5 alias_cert                  table sampler: explicit intervals, total length = aliasMass
    M6 vose_selects                repaired constructor + table sampler: probability exactly p_j
    M7 sparseFixed_selects         repaired sparse scan: column row[k].1 has probability row[k].2
    M8 selects_unique              two certificates have the same total length (probability well defined)
    M9 sparseFixed_selects_valid   repaired sparse scan, isProbability-accepted row: within 1e-6 of row[k].2
    M10 sampleSR_selects / sampleSR_reward   next state follows row T a s; reward is R s a
    M11 sampleSOR_obs_selects      observation follows the row of the sampled next state
    M12 not_selects_current_vose   the constructor as it is: [3/4,1/4] → index 0 is not selected with 3/4 (but 1/2)
    M13 sparse_current_selects_exact      sparse scan as it is, stored sum exactly 1: column row[k].1 has probability row[k].2
    M14 sparse_current_not_total_selects  sparse scan as it is, accepted row of sum 1 - 2^-21: a column of the next row has probability 2^-21
    M15 projectFixed_idempotent    projectFixed (projectFixed v) = projectFixed v
-/
import AITB.Props.C08
import Mathlib.Algebra.Order.Field.Rat
import Mathlib.Algebra.BigOperators.Group.List.Basic
import Mathlib.Tactic.Linarith
import Mathlib.Tactic.Ring
import Mathlib.Tactic.NormNum
import Mathlib.Tactic.FieldSimp
import Mathlib.Tactic.Positivity

namespace AITB.Sampling

/-- `u` lies in the half-open interval `[iv.1, iv.2)` -/
def inIv (iv : Rat × Rat) (u : Rat) : Prop := iv.1 ≤ u ∧ u < iv.2

/-- sum of the lengths of a list of intervals -/
def totalLen (ivs : List (Rat × Rat)) : Rat := (ivs.map (fun iv => iv.2 - iv.1)).sum

/-- `ivs` is an exact description of the draws in [0,1) that `f` maps to `j` -/
structure PreimageCert (f : Rat → Nat) (j : Nat) (ivs : List (Rat × Rat)) : Prop where
  mem : ∀ u, 0 ≤ u → u < 1 → (f u = j ↔ ∃ iv ∈ ivs, inIv iv u)
  wf : ∀ iv ∈ ivs, 0 ≤ iv.1 ∧ iv.1 ≤ iv.2 ∧ iv.2 ≤ 1
  disjoint : ivs.Pairwise (fun a b => ∀ u, ¬ (inIv a u ∧ inIv b u))

/-- `f` selects `j` with probability `q` -/
def SelectsWithProb (f : Rat → Nat) (j : Nat) (q : Rat) : Prop :=
  ∃ ivs, PreimageCert f j ivs ∧ totalLen ivs = q

theorem ms_totalLen_nil : totalLen [] = 0 := rfl

theorem ms_totalLen_cons (iv : Rat × Rat) (ivs : List (Rat × Rat)) :
    totalLen (iv :: ivs) = (iv.2 - iv.1) + totalLen ivs := by
  simp [totalLen]

theorem ms_totalLen_singleton (a b : Rat) : totalLen [(a, b)] = b - a := by
  simp [totalLen]

theorem ms_totalLen_append (l₁ l₂ : List (Rat × Rat)) :
    totalLen (l₁ ++ l₂) = totalLen l₁ + totalLen l₂ := by
  simp [totalLen]

/-- a certificate only depends on the behaviour of the sampler on `[0,1)` -/
theorem ms_cert_congr (f g : Rat → Nat) (j k : Nat) (ivs : List (Rat × Rat))
    (h : ∀ u, 0 ≤ u → u < 1 → (f u = j ↔ g u = k)) (c : PreimageCert g k ivs) :
    PreimageCert f j ivs :=
  ⟨fun u hu hu1 => (h u hu hu1).trans (c.mem u hu hu1), c.wf, c.disjoint⟩

/-! ## M1–M4: the dense inverse-CDF scan -/

/-- **M1** the draws in `[0,1)` mapped to `k` are the single interval `[min c_k 1, min c_{k+1} 1)`
    (`[min c_{d-1} 1, 1)` for the last index), of length `preimageLen l k` -/
theorem dense_cert (l : List Rat) (k : Nat) (hnn : ∀ x ∈ l, 0 ≤ x) (hne : l ≠ []) (hk : k < l.length) :
    PreimageCert (sampleDense l) k
        [(min (cum l k) 1, if k + 1 < l.length then min (cum l (k+1)) 1 else 1)] ∧
      totalLen [(min (cum l k) 1, if k + 1 < l.length then min (cum l (k+1)) 1 else 1)]
        = preimageLen l k := by
  have h0 : 0 ≤ cum l k := cum_nonneg l k hnn
  have h01 : cum l k ≤ cum l (k+1) := cum_le_succ l k hnn
  refine ⟨⟨?_, ?_, ?_⟩, ?_⟩
  · intro u hu hu1
    rw [dense_preimage_unit l u k hnn hne hu hu1]
    simp only [List.mem_singleton, exists_eq_left, inIv]
    by_cases hlt : k + 1 < l.length
    · simp [hlt, hk]
    · simp [hlt, hk, hu1]
  · intro iv hiv
    rw [List.mem_singleton] at hiv; subst hiv
    dsimp only
    refine ⟨le_min h0 (by norm_num), ?_, ?_⟩
    · split
      · exact min_le_min h01 le_rfl
      · exact min_le_right _ _
    · split
      · exact min_le_right _ _
      · exact le_rfl
  · exact List.pairwise_singleton _ _
  · rw [ms_totalLen_singleton]; unfold preimageLen; split <;> rfl

/-- **M2** entries ≥ 0 with exact sum 1: index `k` is selected with probability exactly `p_k` -/
theorem dense_selects_exact (l : List Rat) (k : Nat) (hnn : ∀ x ∈ l, 0 ≤ x) (hsum : l.sum = 1)
    (hk : k < l.length) : SelectsWithProb (sampleDense l) k (l.getD k 0) := by
  have hne : l ≠ [] := by intro h; subst h; simp at hk
  obtain ⟨c, ht⟩ := dense_cert l k hnn hne hk
  exact ⟨_, c, ht.trans (dense_preimage_length_exact l k hnn hsum hk)⟩

/-- test (M2): in the row (1/4, 1/2, 0, 1/4) index 1 has probability 1/2 and the zero entry 2 has probability 0 -/
example : SelectsWithProb (sampleDense [1/4, 1/2, 0, 1/4]) 1 (1/2) ∧
    SelectsWithProb (sampleDense [1/4, 1/2, 0, 1/4]) 2 0 := by
  constructor
  · have := dense_selects_exact [1/4, 1/2, 0, 1/4] 1 (by norm_num) (by norm_num) (by simp)
    simpa using this
  · have := dense_selects_exact [1/4, 1/2, 0, 1/4] 2 (by norm_num) (by norm_num) (by simp)
    simpa using this

/-- **M4** an index outside the row is never selected -/
theorem dense_selects_out_of_range (l : List Rat) (k : Nat) (_hnn : ∀ x ∈ l, 0 ≤ x) (hne : l ≠ [])
    (hk : l.length ≤ k) : SelectsWithProb (sampleDense l) k 0 := by
  refine ⟨[], ⟨?_, ?_, List.Pairwise.nil⟩, rfl⟩
  · intro u _ _
    have := dense_in_range l u hne
    constructor
    · intro h; omega
    · rintro ⟨iv, hiv, _⟩; simp at hiv
  · intro iv hiv; simp at hiv

/-- **M3** any vector accepted by `isProbability`: index `k` is selected with a probability within
    `equalToleranceSmall` of `p_k` -/
theorem dense_selects_valid (l : List Rat) (k : Nat) (hp : isProb l = true) (hk : k < l.length) :
    ∃ q, SelectsWithProb (sampleDense l) k q ∧ absQ (q - l.getD k 0) ≤ AITB.Gen.equalToleranceSmall := by
  have hne : l ≠ [] := by intro h; subst h; simp at hk
  obtain ⟨hnn, _⟩ := (dense_isProb_iff l).mp hp
  obtain ⟨c, ht⟩ := dense_cert l k hnn hne hk
  exact ⟨preimageLen l k, ⟨_, c, ht⟩, dense_preimage_length_valid l k hp hne hk⟩


/-! ## M5: the alias table sampler -/

/-- the (at most two) intervals of column `i` that are mapped to `j` -/
def ms_colIvs (prob : List Rat) (als : List Nat) (j i : Nat) : List (Rat × Rat) :=
  (if i = j then [((i : Rat) / (prob.length : Rat),
      ((i : Rat) + clamp01 (prob.getD i 0)) / (prob.length : Rat))] else []) ++
  (if als.getD i 0 = j then [(((i : Rat) + clamp01 (prob.getD i 0)) / (prob.length : Rat),
      ((i : Rat) + 1) / (prob.length : Rat))] else [])

/-- the draws `u ∈ [0,1)` that the table maps to `j`: per column `i` the piece `[i/n, (i+t_i)/n)`
    when `i = j` and the piece `[(i+t_i)/n, (i+1)/n)` when `alias_i = j`, `t_i = clamp01 prob_i` -/
def aliasIntervals (prob : List Rat) (als : List Nat) (j : Nat) : List (Rat × Rat) :=
  (List.range prob.length).flatMap (fun i =>
    let n : Rat := prob.length; let t := clamp01 (prob.getD i 0)
    (if i = j then [((i : Rat) / n, ((i : Rat) + t) / n)] else []) ++
    (if als.getD i 0 = j then [(((i : Rat) + t) / n, ((i : Rat) + 1) / n)] else []))

theorem ms_aliasIntervals_eq (prob : List Rat) (als : List Nat) (j : Nat) :
    aliasIntervals prob als j = (List.range prob.length).flatMap (ms_colIvs prob als j) := rfl

/-- every interval of column `i` lies inside `[i/n, (i+1)/n]` -/
theorem ms_col_sub (prob : List Rat) (als : List Nat) (j i : Nat) (hn : (0 : Rat) < (prob.length : Rat))
    (iv : Rat × Rat) (hiv : iv ∈ ms_colIvs prob als j i) :
    (i : Rat) / (prob.length : Rat) ≤ iv.1 ∧ iv.1 ≤ iv.2 ∧ iv.2 ≤ ((i : Rat) + 1) / (prob.length : Rat) := by
  have t0 := clamp01_nonneg (prob.getD i 0)
  have t1 := clamp01_le_one (prob.getD i 0)
  unfold ms_colIvs at hiv
  rw [List.mem_append] at hiv
  rcases hiv with h | h
  · split at h
    · rw [List.mem_singleton] at h; subst h
      refine ⟨le_rfl, ?_, ?_⟩ <;> dsimp only <;> apply div_le_div_of_nonneg_right _ (le_of_lt hn) <;> linarith
    · simp at h
  · split at h
    · rw [List.mem_singleton] at h; subst h
      refine ⟨?_, ?_, le_rfl⟩ <;> dsimp only <;> apply div_le_div_of_nonneg_right _ (le_of_lt hn) <;> linarith
    · simp at h

/-- the two pieces of one column do not overlap (they are split at `(i+t_i)/n`) -/
theorem ms_col_pairwise (prob : List Rat) (als : List Nat) (j i : Nat) :
    (ms_colIvs prob als j i).Pairwise (fun a b => ∀ u, ¬ (inIv a u ∧ inIv b u)) := by
  unfold ms_colIvs
  split <;> split
  · simp only [List.singleton_append, List.pairwise_pair, inIv]
    rintro u ⟨⟨_, h1⟩, ⟨h2, _⟩⟩
    linarith
  · simp
  · simp
  · simp

/-- membership in a piece of column `i`, in the scaled coordinate `x = u·n` -/
theorem ms_col_mem (prob : List Rat) (als : List Nat) (j i : Nat) (hn : (0 : Rat) < (prob.length : Rat))
    (u : Rat) :
    (∃ iv ∈ ms_colIvs prob als j i, inIv iv u) ↔
      ((j = i ∧ (i : Rat) ≤ u * (prob.length : Rat) ∧
          u * (prob.length : Rat) < (i : Rat) + clamp01 (prob.getD i 0)) ∨
       (j = als.getD i 0 ∧ (i : Rat) + clamp01 (prob.getD i 0) ≤ u * (prob.length : Rat) ∧
          u * (prob.length : Rat) < (i : Rat) + 1)) := by
  unfold ms_colIvs
  simp only [List.mem_append, or_and_right, exists_or]
  apply or_congr
  · split
    · rename_i h
      simp only [List.mem_singleton, exists_eq_left, inIv, div_le_iff₀ hn, lt_div_iff₀ hn]
      simp [h]
    · rename_i h
      have h' : ¬ j = i := fun e => h e.symm
      simp [h']
  · split
    · rename_i h
      simp only [List.mem_singleton, exists_eq_left, inIv, div_le_iff₀ hn, lt_div_iff₀ hn]
      exact ⟨fun h2 => ⟨h.symm, h2⟩, fun h2 => h2.2⟩
    · rename_i h
      constructor
      · rintro ⟨_, h0, _⟩; simp at h0
      · rintro ⟨e, _⟩; exact absurd e.symm h

theorem ms_totalLen_flatMap {α : Type} (f : α → List (Rat × Rat)) : ∀ l : List α,
    totalLen (l.flatMap f) = (l.map (fun a => totalLen (f a))).sum
  | [] => rfl
  | a :: l => by
    rw [List.flatMap_cons, ms_totalLen_append, ms_totalLen_flatMap f l, List.map_cons, List.sum_cons]

theorem ms_sum_map_div {α : Type} (f : α → Rat) (c : Rat) : ∀ l : List α,
    (l.map (fun a => f a / c)).sum = (l.map f).sum / c
  | [] => by simp
  | a :: l => by
    rw [List.map_cons, List.sum_cons, ms_sum_map_div f c l, List.map_cons, List.sum_cons, add_div]

theorem ms_col_len (prob : List Rat) (als : List Nat) (j i : Nat) :
    totalLen (ms_colIvs prob als j i) =
      ((if i = j then clamp01 (prob.getD i 0) else 0) +
       (if als.getD i 0 = j then 1 - clamp01 (prob.getD i 0) else 0)) / (prob.length : Rat) := by
  unfold ms_colIvs
  rw [ms_totalLen_append]
  by_cases h1 : i = j <;> by_cases h2 : als.getD i 0 = j
  · rw [if_pos h1, if_pos h2, if_pos h1, if_pos h2, ms_totalLen_singleton, ms_totalLen_singleton]; ring
  · rw [if_pos h1, if_neg h2, if_pos h1, if_neg h2, ms_totalLen_singleton, ms_totalLen_nil]; ring
  · rw [if_neg h1, if_pos h2, if_neg h1, if_pos h2, ms_totalLen_singleton, ms_totalLen_nil]; ring
  · rw [if_neg h1, if_neg h2, if_neg h1, if_neg h2, ms_totalLen_nil]; ring

/-- **M5** -/
theorem alias_cert (prob : List Rat) (als : List Nat) (j : Nat) (_hlen : als.length = prob.length)
    (hne : prob ≠ []) :
    PreimageCert (aliasSample prob als) j (aliasIntervals prob als j) ∧
      totalLen (aliasIntervals prob als j) = aliasMass prob als j := by
  have hpos : 0 < prob.length := List.length_pos_of_ne_nil hne
  have hn : (0 : Rat) < (prob.length : Rat) := by exact_mod_cast hpos
  rw [ms_aliasIntervals_eq]
  refine ⟨⟨?_, ?_, ?_⟩, ?_⟩
  · intro u hu hu1
    have hx0 : 0 ≤ u * (prob.length : Rat) := mul_nonneg hu (le_of_lt hn)
    have hxn : u * (prob.length : Rat) < (prob.length : Rat) := by
      calc u * (prob.length : Rat) < 1 * (prob.length : Rat) := mul_lt_mul_of_pos_right hu1 hn
        _ = (prob.length : Rat) := one_mul _
    unfold aliasSample
    rw [alias_preimage prob als _ j hx0 hxn]
    have t0 := fun i => clamp01_nonneg (prob.getD i 0)
    have t1 := fun i => clamp01_le_one (prob.getD i 0)
    constructor
    · rintro ⟨i, hi, h1, h2, h⟩
      obtain ⟨iv, hiv, hin⟩ := (ms_col_mem prob als j i hn u).mpr (by
        rcases h with ⟨a, b⟩ | ⟨a, b⟩
        · exact Or.inl ⟨a, h1, b⟩
        · exact Or.inr ⟨a, b, h2⟩)
      exact ⟨iv, List.mem_flatMap.mpr ⟨i, List.mem_range.mpr hi, hiv⟩, hin⟩
    · rintro ⟨iv, hiv, hin⟩
      obtain ⟨i, hi, hiv'⟩ := List.mem_flatMap.mp hiv
      have := (ms_col_mem prob als j i hn u).mp ⟨iv, hiv', hin⟩
      refine ⟨i, List.mem_range.mp hi, ?_⟩
      rcases this with ⟨a, b, c⟩ | ⟨a, b, c⟩
      · exact ⟨b, by linarith [t1 i], Or.inl ⟨a, c⟩⟩
      · exact ⟨by linarith [t0 i], c, Or.inr ⟨a, b⟩⟩
  · intro iv hiv
    obtain ⟨i, hi, hiv'⟩ := List.mem_flatMap.mp hiv
    have hi' : i < prob.length := List.mem_range.mp hi
    obtain ⟨a, b, c⟩ := ms_col_sub prob als j i hn iv hiv'
    have hiq : (i : Rat) + 1 ≤ (prob.length : Rat) := by exact_mod_cast hi'
    have h0 : (0 : Rat) ≤ (i : Rat) / (prob.length : Rat) := div_nonneg (Nat.cast_nonneg i) (le_of_lt hn)
    have h1 : ((i : Rat) + 1) / (prob.length : Rat) ≤ 1 := (div_le_one hn).mpr hiq
    exact ⟨le_trans h0 a, b, le_trans c h1⟩
  · rw [List.pairwise_flatMap]
    refine ⟨fun i _ => ms_col_pairwise prob als j i, ?_⟩
    refine List.Pairwise.imp ?_ (List.pairwise_lt_range (n := prob.length))
    intro i i' hlt x hx y hy u ⟨⟨_, hxu⟩, ⟨hyu, _⟩⟩
    obtain ⟨_, _, cx⟩ := ms_col_sub prob als j i hn x hx
    obtain ⟨ay, _, _⟩ := ms_col_sub prob als j i' hn y hy
    have hq : (i : Rat) + 1 ≤ (i' : Rat) := by exact_mod_cast hlt
    have := div_le_div_of_nonneg_right hq (le_of_lt hn)
    linarith
  · rw [ms_totalLen_flatMap]
    unfold aliasMass
    rw [← ms_sum_map_div]
    congr 1
    exact List.map_congr_left (fun i _ => ms_col_len prob als j i)

/-- test (M5): the textbook table of `[1/2,1/4,1/4]` (columns keep themselves with 1, 3/4, 3/4, alias 0) -/
example : SelectsWithProb (aliasSample [1, 3/4, 3/4] [0, 0, 0]) 0 (1/2) := by
  refine ⟨_, (alias_cert [1, 3/4, 3/4] [0, 0, 0] 0 rfl (by simp)).1, ?_⟩
  rw [(alias_cert [1, 3/4, 3/4] [0, 0, 0] 0 rfl (by simp)).2]
  decide +kernel

/-! ## M6: the repaired Vose constructor followed by the table sampler -/

/-- **M6** -/
theorem vose_selects (p : List Rat) (hne : p ≠ []) (hnn : ∀ x ∈ p, 0 ≤ x) (hsum : p.sum = 1)
    (j : Nat) (hj : j < p.length) :
    SelectsWithProb (aliasSample (voseBuildFixed p (1 / (p.length : Rat))).1
      (voseBuildFixed p (1 / (p.length : Rat))).2) j (p.getD j 0) := by
  obtain ⟨hl1, hl2⟩ := vose_fixed_lengths p (1 / (p.length : Rat))
  have hne' : (voseBuildFixed p (1 / (p.length : Rat))).1 ≠ [] := by
    intro h
    rw [h] at hl1
    exact hne (List.length_eq_zero_iff.mp hl1.symm)
  obtain ⟨c, ht⟩ := alias_cert _ _ j (hl2.trans hl1.symm) hne'
  exact ⟨_, c, ht.trans (vose_correct p hne hnn hsum j hj)⟩

/-- test (M6) -/
example : SelectsWithProb (aliasSample (voseBuildFixed [1/2, 1/4, 1/4] (1/3)).1
    (voseBuildFixed [1/2, 1/4, 1/4] (1/3)).2) 2 (1/4) := by
  have := vose_selects [1/2, 1/4, 1/4] (by simp) (by norm_num) (by norm_num) 2 (by simp)
  norm_num at this
  exact this

/-! ## M7: the repaired sparse scan -/

/-- strictly increasing columns: a column determines its position in the stored row -/
theorem ms_col_inj (row : List (Nat × Rat)) (hs : row.Pairwise (fun a b => a.1 < b.1))
    (a b : Nat) (ha : a < row.length) (hb : b < row.length) (h : (row[a]).1 = (row[b]).1) : a = b := by
  rcases Nat.lt_trichotomy a b with hlt | heq | hgt
  · have := List.pairwise_iff_getElem.mp hs a b ha hb hlt; omega
  · exact heq
  · have := List.pairwise_iff_getElem.mp hs b a hb ha hgt; omega

/-- the repaired sparse scan returns the column stored at the position the dense scan of the
    stored values returns -/
theorem ms_sparse_pos (d : Nat) (row : List (Nat × Rat)) (u : Rat) (hnn : ∀ e ∈ row, 0 ≤ e.2)
    (hu : 0 ≤ u) (hne : row ≠ []) :
    ∃ k, ∃ hk : k < row.length, sampleDense (row.map (·.2)) u = k ∧
      sampleSparseFixed d row u = (row[k]).1 := by
  obtain ⟨k, hk, h1, h2, h3⟩ := sparseFixed_char d row u hnn hu hne
  have hne' : row.map (·.2) ≠ [] := by simpa using hne
  refine ⟨k, hk, ?_, h1⟩
  exact (dense_preimage (row.map (·.2)) u k (vals_nonneg row hnn) hu hne').mpr
    ⟨by simpa using hk, h2, fun h => h3 (by simpa using h)⟩

/-- **M7** stored row with strictly increasing columns, values ≥ 0 summing to exactly one:
    the column stored at position `k` is selected with probability exactly its stored value -/
theorem sparseFixed_selects (d : Nat) (row : List (Nat × Rat)) (k : Nat)
    (hs : row.Pairwise (fun a b => a.1 < b.1)) (hnn : ∀ e ∈ row, 0 ≤ e.2)
    (hsum : (row.map (·.2)).sum = 1) (hne : row ≠ []) (hk : k < row.length) :
    SelectsWithProb (sampleSparseFixed d row) (row[k]).1 (row[k]).2 := by
  obtain ⟨ivs, c, ht⟩ := dense_selects_exact (row.map (·.2)) k (vals_nonneg row hnn) hsum
    (by simpa using hk)
  refine ⟨ivs, ms_cert_congr _ _ _ _ _ ?_ c, ?_⟩
  · intro u hu _
    obtain ⟨k', hk', e1, e2⟩ := ms_sparse_pos d row u hnn hu hne
    rw [e1, e2]
    exact ⟨fun h => ms_col_inj row hs k' k hk' hk h, fun h => by subst h; rfl⟩
  · rw [ht]
    simp [List.getD_eq_getElem?_getD, hk]

/-- test (M7) -/
example : SelectsWithProb (sampleSparseFixed 10 [(3, 1/4), (7, 3/4)]) 7 (3/4) :=
  sparseFixed_selects 10 [(3, 1/4), (7, 3/4)] 1 (by simp) (by norm_num) (by norm_num) (by simp)
    (by simp)

/-! ## M8: the probability is well defined

  Two certificates for the same sampler and index have the same total length.  Counting argument:
  on a grid `k/N`, `k < N`, fine enough that every endpoint is a grid point, an interval `[a,b)`
  contains exactly `N·(b-a)` grid points, so (disjointness) a certificate contains exactly
  `N·totalLen` grid points — and which grid points it contains is determined by `f` alone. -/

open Classical in
/-- number of `k < n` with `P k` -/
noncomputable def ms_cnt (P : Nat → Prop) : Nat → Nat
  | 0 => 0
  | n + 1 => ms_cnt P n + (if P n then 1 else 0)

theorem ms_cnt_congr (P Q : Nat → Prop) : ∀ n : Nat, (∀ k, k < n → (P k ↔ Q k)) →
    ms_cnt P n = ms_cnt Q n
  | 0, _ => rfl
  | n + 1, h => by
    have ih := ms_cnt_congr P Q n (fun k hk => h k (Nat.lt_succ_of_lt hk))
    have hn := h n (Nat.lt_succ_self n)
    simp only [ms_cnt, ih]
    by_cases hp : P n
    · rw [if_pos hp, if_pos (hn.mp hp)]
    · rw [if_neg hp, if_neg (fun hq => hp (hn.mpr hq))]

theorem ms_cnt_false : ∀ n : Nat, ms_cnt (fun _ => False) n = 0
  | 0 => rfl
  | n + 1 => by simp [ms_cnt, ms_cnt_false n]

theorem ms_cnt_or (P Q : Nat → Prop) : ∀ n : Nat, (∀ k, k < n → ¬ (P k ∧ Q k)) →
    ms_cnt (fun k => P k ∨ Q k) n = ms_cnt P n + ms_cnt Q n
  | 0, _ => rfl
  | n + 1, h => by
    have ih := ms_cnt_or P Q n (fun k hk => h k (Nat.lt_succ_of_lt hk))
    have hn := h n (Nat.lt_succ_self n)
    simp only [ms_cnt, ih]
    by_cases hp : P n <;> by_cases hq : Q n
    · exact absurd ⟨hp, hq⟩ hn
    · simp [hp, hq]; omega
    · simp [hp, hq]; omega
    · simp [hp, hq]

theorem ms_cnt_Ico (p q : Nat) (hpq : p ≤ q) : ∀ n : Nat,
    ms_cnt (fun k => p ≤ k ∧ k < q) n = min q n - min p n
  | 0 => by simp [ms_cnt]
  | n + 1 => by
    have ih := ms_cnt_Ico p q hpq n
    simp only [ms_cnt, ih]
    by_cases h : p ≤ n ∧ n < q
    · rw [if_pos h]; omega
    · rw [if_neg h]; omega

/-- a common denominator of all endpoints -/
def ms_den : List (Rat × Rat) → Nat
  | [] => 1
  | iv :: r => iv.1.den * iv.2.den * ms_den r

theorem ms_den_pos : ∀ ivs : List (Rat × Rat), 0 < ms_den ivs
  | [] => Nat.one_pos
  | iv :: r => Nat.mul_pos (Nat.mul_pos iv.1.den_pos iv.2.den_pos) (ms_den_pos r)

theorem ms_den_dvd : ∀ (ivs : List (Rat × Rat)) (iv : Rat × Rat), iv ∈ ivs →
    iv.1.den ∣ ms_den ivs ∧ iv.2.den ∣ ms_den ivs
  | [], _, h => by simp at h
  | a :: r, iv, h => by
    rcases List.mem_cons.mp h with rfl | h'
    · exact ⟨Dvd.dvd.mul_right (Dvd.intro _ rfl) _, Dvd.dvd.mul_right (Dvd.intro_left _ rfl) _⟩
    · obtain ⟨h1, h2⟩ := ms_den_dvd r iv h'
      exact ⟨Dvd.dvd.mul_left h1 _, Dvd.dvd.mul_left h2 _⟩

/-- a non-negative rational times a multiple of its denominator is a natural number -/
theorem ms_on_grid (a : Rat) (h0 : 0 ≤ a) (N : Nat) (hd : a.den ∣ N) : ∃ p : Nat, a * (N : Rat) = (p : Rat) := by
  obtain ⟨c, rfl⟩ := hd
  refine ⟨a.num.toNat * c, ?_⟩
  have hnum : (0 : Int) ≤ a.num := Rat.num_nonneg.mpr h0
  have e : ((a.num.toNat : Nat) : Rat) = ((a.num : Int) : Rat) := by
    have h1 : ((a.num.toNat : Nat) : Int) = a.num := Int.toNat_of_nonneg hnum
    have h2 : (((a.num.toNat : Nat) : Int) : Rat) = ((a.num.toNat : Nat) : Rat) := Int.cast_natCast _
    rw [← h2, h1]
  push_cast
  rw [e, ← mul_assoc, Rat.mul_den_eq_num]

/-- grid points in one interval with endpoints on the grid -/
theorem ms_cnt_iv (N : Nat) (hN : 0 < N) (iv : Rat × Rat) (hle : iv.1 ≤ iv.2) (h1 : iv.2 ≤ 1)
    (p q : Nat) (hp : iv.1 * (N : Rat) = (p : Rat)) (hq : iv.2 * (N : Rat) = (q : Rat)) :
    ((ms_cnt (fun k => inIv iv ((k : Rat) / (N : Rat))) N : Nat) : Rat) = (N : Rat) * (iv.2 - iv.1) := by
  have hNq : (0 : Rat) < (N : Rat) := by exact_mod_cast hN
  have hpq : p ≤ q := by
    have : (p : Rat) ≤ (q : Rat) := by rw [← hp, ← hq]; exact mul_le_mul_of_nonneg_right hle (le_of_lt hNq)
    exact_mod_cast this
  have hqN : q ≤ N := by
    have : (q : Rat) ≤ (N : Rat) := by
      rw [← hq]; calc iv.2 * (N : Rat) ≤ 1 * (N : Rat) := mul_le_mul_of_nonneg_right h1 (le_of_lt hNq)
        _ = (N : Rat) := one_mul _
    exact_mod_cast this
  have hc : ms_cnt (fun k => inIv iv ((k : Rat) / (N : Rat))) N = ms_cnt (fun k => p ≤ k ∧ k < q) N := by
    apply ms_cnt_congr
    intro k _
    unfold inIv
    rw [le_div_iff₀ hNq, div_lt_iff₀ hNq, hp, hq, Nat.cast_le, Nat.cast_lt]
  rw [hc, ms_cnt_Ico p q hpq N]
  have e1 : min q N = q := Nat.min_eq_left hqN
  have e2 : min p N = p := Nat.min_eq_left (le_trans hpq hqN)
  rw [e1, e2, Nat.cast_sub hpq, ← hp, ← hq]
  ring

/-- grid points in a disjoint union of intervals with endpoints on the grid -/
theorem ms_cnt_ivs (N : Nat) (hN : 0 < N) : ∀ (ivs : List (Rat × Rat)),
    (∀ iv ∈ ivs, 0 ≤ iv.1 ∧ iv.1 ≤ iv.2 ∧ iv.2 ≤ 1) →
    (∀ iv ∈ ivs, iv.1.den ∣ N ∧ iv.2.den ∣ N) →
    ivs.Pairwise (fun a b => ∀ u, ¬ (inIv a u ∧ inIv b u)) →
    ((ms_cnt (fun k => ∃ iv ∈ ivs, inIv iv ((k : Rat) / (N : Rat))) N : Nat) : Rat)
      = (N : Rat) * totalLen ivs
  | [], _, _, _ => by
    have : ms_cnt (fun k => ∃ iv ∈ ([] : List (Rat × Rat)), inIv iv ((k : Rat) / (N : Rat))) N
        = ms_cnt (fun _ => False) N := by
      apply ms_cnt_congr; intro k _; simp
    rw [this, ms_cnt_false, ms_totalLen_nil]; simp
  | a :: r, hwf, hg, hd => by
    obtain ⟨hd1, hd2⟩ := List.pairwise_cons.mp hd
    have ih := ms_cnt_ivs N hN r (fun iv h => hwf iv (List.mem_cons_of_mem _ h))
      (fun iv h => hg iv (List.mem_cons_of_mem _ h)) hd2
    obtain ⟨a0, a1, a2⟩ := hwf a List.mem_cons_self
    obtain ⟨g1, g2⟩ := hg a List.mem_cons_self
    obtain ⟨p, hp⟩ := ms_on_grid a.1 a0 N g1
    obtain ⟨q, hq⟩ := ms_on_grid a.2 (le_trans a0 a1) N g2
    have hsplit : ms_cnt (fun k => ∃ iv ∈ a :: r, inIv iv ((k : Rat) / (N : Rat))) N
        = ms_cnt (fun k => inIv a ((k : Rat) / (N : Rat)) ∨
            ∃ iv ∈ r, inIv iv ((k : Rat) / (N : Rat))) N := by
      apply ms_cnt_congr; intro k _; simp
    rw [hsplit, ms_cnt_or _ _ N (by
      rintro k _ ⟨ha, iv, hiv, hin⟩
      exact hd1 iv hiv _ ⟨ha, hin⟩)]
    push_cast
    rw [ih, ms_cnt_iv N hN a a1 a2 p q hp hq, ms_totalLen_cons]
    ring

/-- **M8** the probability is well defined: two certificates have the same total length -/
theorem selects_unique (f : Rat → Nat) (j : Nat) (ivs ivs' : List (Rat × Rat))
    (c : PreimageCert f j ivs) (c' : PreimageCert f j ivs') : totalLen ivs = totalLen ivs' := by
  have hN : 0 < ms_den ivs * ms_den ivs' := Nat.mul_pos (ms_den_pos ivs) (ms_den_pos ivs')
  have hNq : (0 : Rat) < ((ms_den ivs * ms_den ivs' : Nat) : Rat) := by exact_mod_cast hN
  have h1 := ms_cnt_ivs _ hN ivs c.wf (fun iv h =>
    ⟨Dvd.dvd.mul_right (ms_den_dvd ivs iv h).1 _, Dvd.dvd.mul_right (ms_den_dvd ivs iv h).2 _⟩) c.disjoint
  have h2 := ms_cnt_ivs _ hN ivs' c'.wf (fun iv h =>
    ⟨Dvd.dvd.mul_left (ms_den_dvd ivs' iv h).1 _, Dvd.dvd.mul_left (ms_den_dvd ivs' iv h).2 _⟩) c'.disjoint
  have hc : ms_cnt (fun k => ∃ iv ∈ ivs, inIv iv ((k : Rat) / ((ms_den ivs * ms_den ivs' : Nat) : Rat)))
        (ms_den ivs * ms_den ivs')
      = ms_cnt (fun k => ∃ iv ∈ ivs', inIv iv ((k : Rat) / ((ms_den ivs * ms_den ivs' : Nat) : Rat)))
        (ms_den ivs * ms_den ivs') := by
    apply ms_cnt_congr
    intro k hk
    have hu0 : (0 : Rat) ≤ (k : Rat) / ((ms_den ivs * ms_den ivs' : Nat) : Rat) :=
      div_nonneg (Nat.cast_nonneg k) (le_of_lt hNq)
    have hu1 : (k : Rat) / ((ms_den ivs * ms_den ivs' : Nat) : Rat) < 1 := by
      rw [div_lt_one hNq]; exact_mod_cast hk
    exact (c.mem _ hu0 hu1).symm.trans (c'.mem _ hu0 hu1)
  rw [hc] at h1
  have := h1.symm.trans h2
  exact mul_left_cancel₀ (ne_of_gt hNq) this

/-- consequence: the probability in `SelectsWithProb` is unique -/
theorem selects_prob_unique (f : Rat → Nat) (j : Nat) (q q' : Rat)
    (h : SelectsWithProb f j q) (h' : SelectsWithProb f j q') : q = q' := by
  obtain ⟨ivs, c, e⟩ := h
  obtain ⟨ivs', c', e'⟩ := h'
  rw [← e, ← e']
  exact selects_unique f j ivs ivs' c c'

/-- test (M8): the dense sampler of (1/4, 1/2, 1/4) does not select index 1 with probability 1/3 -/
example : ¬ SelectsWithProb (sampleDense [1/4, 1/2, 1/4]) 1 (1/3) := by
  intro h
  have h2 := dense_selects_exact [1/4, 1/2, 1/4] 1 (by norm_num) (by norm_num) (by simp)
  have := selects_prob_unique _ _ _ _ h h2
  norm_num at this

/-! ## M9–M12: tolerance version of the sparse scan, model sampling, refutation for the current constructor -/

/-- for strictly increasing columns the repaired sparse scan returns column `row[k].1` exactly when
    the dense scan of the stored values returns position `k` -/
theorem ms_sparse_iff (d : Nat) (row : List (Nat × Rat)) (k : Nat)
    (hs : row.Pairwise (fun a b => a.1 < b.1)) (hnn : ∀ e ∈ row, 0 ≤ e.2) (hne : row ≠ [])
    (hk : k < row.length) (u : Rat) (hu : 0 ≤ u) :
    sampleSparseFixed d row u = (row[k]).1 ↔ sampleDense (row.map (·.2)) u = k := by
  obtain ⟨k', hk', e1, e2⟩ := ms_sparse_pos d row u hnn hu hne
  rw [e1, e2]
  exact ⟨fun h => ms_col_inj row hs k' k hk' hk h, fun h => by subst h; rfl⟩

/-- **M9** stored row accepted by `isProbability` (sum within 1e-6 of one): the column stored at
    position `k` is selected with a probability within `equalToleranceSmall` of its stored value -/
theorem sparseFixed_selects_valid (d : Nat) (row : List (Nat × Rat))
    (hs : row.Pairwise (fun a b => a.1 < b.1)) (hnn : ∀ e ∈ row, 0 ≤ e.2)
    (hp : isProb (row.map (·.2)) = true) (hne : row ≠ []) (k : Nat) (hk : k < row.length) :
    ∃ q, SelectsWithProb (sampleSparseFixed d row) (row[k]).1 q ∧
      absQ (q - (row[k]).2) ≤ AITB.Gen.equalToleranceSmall := by
  obtain ⟨q, ⟨ivs, c, ht⟩, hq⟩ := dense_selects_valid (row.map (·.2)) k hp (by simpa using hk)
  refine ⟨q, ⟨ivs, ms_cert_congr _ _ _ _ _ (fun u hu _ => ms_sparse_iff d row k hs hnn hne hk u hu) c, ht⟩, ?_⟩
  have e : (row.map (·.2)).getD k 0 = (row[k]).2 := by simp [List.getD_eq_getElem?_getD, hk]
  rw [← e]; exact hq

/-- test (M9): the stored row of `sparse_total_counterexample` (sum 1 - 2^-21, accepted) -/
example : ∃ q, SelectsWithProb (sampleSparseFixed 10 [(3, 1/2), (7, 1/2 - 1/2^21)]) 7 q ∧
    absQ (q - (1/2 - 1/2^21)) ≤ AITB.Gen.equalToleranceSmall :=
  sparseFixed_selects_valid 10 [(3, 1/2), (7, 1/2 - 1/2^21)] (by simp) (by norm_num)
    (by norm_num [isProb, eqSmall, absQ, Gen.equalToleranceSmall]) (by simp) 1 (by simp)

/-- **M10** `sampleSR`: the next state follows row `T a s` exactly -/
theorem sampleSR_selects (T : Nat → Nat → List Rat) (R : Nat → Nat → Rat) (s a k : Nat)
    (hnn : ∀ x ∈ T a s, 0 ≤ x) (hsum : (T a s).sum = 1) (hk : k < (T a s).length) :
    SelectsWithProb (fun u => (sampleSR T R s a u).1) k ((T a s).getD k 0) := by
  obtain ⟨ivs, c, ht⟩ := dense_selects_exact (T a s) k hnn hsum hk
  exact ⟨ivs, ms_cert_congr _ _ _ _ _ (fun _ _ _ => Iff.rfl) c, ht⟩

/-- … and the reward does not depend on the draw -/
theorem sampleSR_reward (T : Nat → Nat → List Rat) (R : Nat → Nat → Rat) (s a : Nat) (u : Rat) :
    (sampleSR T R s a u).2 = R s a := rfl

/-- **M11** `sampleSOR`: for a fixed first draw the observation follows the row of the sampled next state -/
theorem sampleSOR_obs_selects (T O : Nat → Nat → List Rat) (R : Nat → Nat → Rat) (s a o : Nat)
    (u1 : Rat) (_hT : T a s ≠ [])
    (hnn : ∀ x ∈ O a (sampleDense (T a s) u1), 0 ≤ x)
    (hsum : (O a (sampleDense (T a s) u1)).sum = 1)
    (ho : o < (O a (sampleDense (T a s) u1)).length) :
    SelectsWithProb (fun u2 => (sampleSOR T O R s a u1 u2).2.1) o
      ((O a (sampleDense (T a s) u1)).getD o 0) := by
  obtain ⟨ivs, c, ht⟩ := dense_selects_exact (O a (sampleDense (T a s) u1)) o hnn hsum ho
  exact ⟨ivs, ms_cert_congr _ _ _ _ _ (fun _ _ _ => Iff.rfl) c, ht⟩

/-- the next-state component of `sampleSOR` is the one of `sampleSR` -/
theorem sampleSOR_state (T O : Nat → Nat → List Rat) (R : Nat → Nat → Rat) (s a : Nat) (u1 u2 : Rat) :
    (sampleSOR T O R s a u1 u2).1 = sampleDense (T a s) u1 := rfl

/-- **M12** the table built by the constructor as it is for `[3/4, 1/4]` does not select index 0
    with probability 3/4 (it selects it with probability 1/2) -/
theorem not_selects_current_vose :
    ¬ SelectsWithProb (aliasSample (voseBuild [3/4, 1/4] (1/2)).1 (voseBuild [3/4, 1/4] (1/2)).2) 0 (3/4) := by
  rw [vose_current_example_two]
  intro h
  obtain ⟨c, ht⟩ := alias_cert [2, 2] [0, 1] 0 rfl (by simp)
  have hm : aliasMass [2, 2] [0, 1] 0 = 1/2 := by decide +kernel
  have := selects_prob_unique _ _ _ _ h ⟨_, c, ht.trans hm⟩
  norm_num at this

/-- what it does instead -/
theorem selects_current_vose_half :
    SelectsWithProb (aliasSample (voseBuild [3/4, 1/4] (1/2)).1 (voseBuild [3/4, 1/4] (1/2)).2) 0 (1/2) := by
  rw [vose_current_example_two]
  obtain ⟨c, ht⟩ := alias_cert [2, 2] [0, 1] 0 rfl (by simp)
  exact ⟨_, c, ht.trans (by decide +kernel)⟩

/-! ## M13–M15: the sparse sampler as it is, in the same vocabulary; idempotence of the repaired projection -/

/-- **M13** the sparse sampler as it is, stored values summing to exactly one: every draw `u < 1`
    is below the row sum, so the missing end-of-row test never matters and the column stored at
    position `k` is selected with probability exactly its stored value -/
theorem sparse_current_selects_exact (row : List (Nat × Rat))
    (hs : row.Pairwise (fun a b => a.1 < b.1)) (hnn : ∀ e ∈ row, 0 ≤ e.2)
    (hsum : (row.map (·.2)).sum = 1) (k : Nat) (hk : k < row.length) (rest : List (Nat × Rat)) :
    SelectsWithProb (fun u => (sampleSparse row rest u).getD 0) (row[k]).1 (row[k]).2 := by
  have hne : row ≠ [] := by intro h; subst h; simp at hk
  obtain ⟨ivs, c, ht⟩ := sparseFixed_selects 0 row k hs hnn hsum hne hk
  refine ⟨ivs, ms_cert_congr _ _ _ _ _ ?_ c, ht⟩
  intro u hu hu1
  have := sparseFixed_agrees 0 row rest u hnn hu (by rw [hsum]; exact hu1)
  simp only [this, Option.getD_some]

/-- test (M13) -/
example : SelectsWithProb (fun u => (sampleSparse [(3, 1/4), (7, 3/4)] [(9, 1)] u).getD 0) 7 (3/4) :=
  sparse_current_selects_exact [(3, 1/4), (7, 3/4)] (by simp) (by norm_num) (by norm_num) 1 (by simp) _

/-- **M14** the sparse sampler as it is on a row accepted by `isProbability` (sum `1 - 2^-21`):
    column 2, which the row does not store (it is the first stored entry of the next row), is
    selected with positive probability `2^-21` -/
theorem sparse_current_not_total_selects :
    SelectsWithProb (fun u => (sampleSparse [(0, 1/2), (1, 1/2 - 1/2^21)] [(2, 1)] u).getD 0) 2 (1/2^21) := by
  refine ⟨[(1 - 1/2^21, 1)], ⟨?_, ?_, List.pairwise_singleton _ _⟩, ?_⟩
  · intro u hu hu1
    simp only [List.mem_singleton, exists_eq_left, inIv]
    by_cases h : (1 : Rat) - 1/2^21 ≤ u
    · have hw := sparse_walks_off [(0, 1/2), (1, 1/2 - 1/2^21)] [(2, 1)] u (by norm_num)
        (by norm_num; linarith)
      have hgt : (1 : Rat) > u - (([(0, 1/2), (1, 1/2 - 1/2^21)] : List (Nat × Rat)).map (·.2)).sum := by
        norm_num; linarith
      simp only [hw, sparseGo, if_pos hgt, Option.getD_some, true_iff]
      exact ⟨h, hu1⟩
    · have hlt : u < (([(0, 1/2), (1, 1/2 - 1/2^21)] : List (Nat × Rat)).map (·.2)).sum := by
        norm_num; linarith [not_le.mp h]
      have ha := sparseFixed_agrees 0 [(0, 1/2), (1, 1/2 - 1/2^21)] [(2, 1)] u (by norm_num) hu hlt
      have hm := sparseFixed_in_support 0 [(0, 1/2), (1, 1/2 - 1/2^21)] u (by simp)
      simp only [ha, Option.getD_some]
      constructor
      · intro e; rw [e] at hm; simp at hm
      · rintro ⟨h', _⟩; exact absurd h' h
  · intro iv hiv
    rw [List.mem_singleton] at hiv; subst hiv
    norm_num
  · rw [ms_totalLen_singleton]; norm_num

/-- … and the column is not one the row stores -/
example : (2 : Nat) ∉ ([(0, 1/2), (1, 1/2 - 1/2^21)] : List (Nat × Rat)).map (·.1) := by simp

/-- **M15** the repaired projection is idempotent -/
theorem projectFixed_idempotent (v : List Rat) (hne : v ≠ []) :
    projectFixed (projectFixed v) = projectFixed v :=
  projectFixed_fixes_valid _ (projectFixed_valid v hne)

/-- test (M15) -/
example : projectFixed (projectFixed [3, -1, 1]) = projectFixed [3, -1, 1] :=
  projectFixed_idempotent _ (by simp)
end AITB.Sampling
