import AITB.Props.C08
import Mathlib.Algebra.Order.Field.Rat
import Mathlib.Algebra.BigOperators.Group.List.Basic
import Mathlib.Tactic.Linarith
import Mathlib.Tactic.Ring
import Mathlib.Tactic.NormNum
import Mathlib.Tactic.FieldSimp
import Mathlib.Tactic.Positivity

namespace AITB.Sampling

/-- `u` lies in the half-open interval `[iv.1, iv.2)` -/
def inIv (iv : Rat × Rat) (u : Rat) : Prop := iv.1 ≤ u ∧ u < iv.2

/-- sum of the lengths of a list of intervals -/
def totalLen (ivs : List (Rat × Rat)) : Rat := (ivs.map (fun iv => iv.2 - iv.1)).sum

/-- `ivs` is an exact description of the draws in [0,1) that `f` maps to `j` -/
structure PreimageCert (f : Rat → Nat) (j : Nat) (ivs : List (Rat × Rat)) : Prop where
  mem : ∀ u, 0 ≤ u → u < 1 → (f u = j ↔ ∃ iv ∈ ivs, inIv iv u)
  wf : ∀ iv ∈ ivs, 0 ≤ iv.1 ∧ iv.1 ≤ iv.2 ∧ iv.2 ≤ 1
  disjoint : ivs.Pairwise (fun a b => ∀ u, ¬ (inIv a u ∧ inIv b u))

/-- `f` selects `j` with probability `q` -/
def SelectsWithProb (f : Rat → Nat) (j : Nat) (q : Rat) : Prop :=
  ∃ ivs, PreimageCert f j ivs ∧ totalLen ivs = q

theorem ms_totalLen_nil : totalLen [] = 0 := rfl

theorem ms_totalLen_cons (iv : Rat × Rat) (ivs : List (Rat × Rat)) :
    totalLen (iv :: ivs) = (iv.2 - iv.1) + totalLen ivs := by
  simp [totalLen]

theorem ms_totalLen_singleton (a b : Rat) : totalLen [(a, b)] = b - a := by
  simp [totalLen]

theorem ms_totalLen_append (l₁ l₂ : List (Rat × Rat)) :
    totalLen (l₁ ++ l₂) = totalLen l₁ + totalLen l₂ := by
  simp [totalLen]

/-- a certificate only depends on the behaviour of the sampler on `[0,1)` -/
theorem ms_cert_congr (f g : Rat → Nat) (j k : Nat) (ivs : List (Rat × Rat))
    (h : ∀ u, 0 ≤ u → u < 1 → (f u = j ↔ g u = k)) (c : PreimageCert g k ivs) :
    PreimageCert f j ivs :=
  ⟨fun u hu hu1 => (h u hu hu1).trans (c.mem u hu hu1), c.wf, c.disjoint⟩

/-! ## M1–M4: the dense inverse-CDF scan -/

/-- **M1** the draws in `[0,1)` mapped to `k` are the single interval `[min c_k 1, min c_{k+1} 1)`
    (`[min c_{d-1} 1, 1)` for the last index), of length `preimageLen l k` -/
theorem dense_cert (l : List Rat) (k : Nat) (hnn : ∀ x ∈ l, 0 ≤ x) (hne : l ≠ []) (hk : k < l.length) :
    PreimageCert (sampleDense l) k
        [(min (cum l k) 1, if k + 1 < l.length then min (cum l (k+1)) 1 else 1)] ∧
      totalLen [(min (cum l k) 1, if k + 1 < l.length then min (cum l (k+1)) 1 else 1)]
        = preimageLen l k := by
  have h0 : 0 ≤ cum l k := cum_nonneg l k hnn
  have h01 : cum l k ≤ cum l (k+1) := cum_le_succ l k hnn
  refine ⟨⟨?_, ?_, ?_⟩, ?_⟩
  · intro u hu hu1
    rw [dense_preimage_unit l u k hnn hne hu hu1]
    simp only [List.mem_singleton, exists_eq_left, inIv]
    by_cases hlt : k + 1 < l.length
    · simp [hlt, hk]
    · simp [hlt, hk, hu1]
  · intro iv hiv
    rw [List.mem_singleton] at hiv; subst hiv
    dsimp only
    refine ⟨le_min h0 (by norm_num), ?_, ?_⟩
    · split
      · exact min_le_min h01 le_rfl
      · exact min_le_right _ _
    · split
      · exact min_le_right _ _
      · exact le_rfl
  · exact List.pairwise_singleton _ _
  · rw [ms_totalLen_singleton]; unfold preimageLen; split <;> rfl

/-- **M2** entries ≥ 0 with exact sum 1: index `k` is selected with probability exactly `p_k` -/
theorem dense_selects_exact (l : List Rat) (k : Nat) (hnn : ∀ x ∈ l, 0 ≤ x) (hsum : l.sum = 1)
    (hk : k < l.length) : SelectsWithProb (sampleDense l) k (l.getD k 0) := by
  have hne : l ≠ [] := by intro h; subst h; simp at hk
  obtain ⟨c, ht⟩ := dense_cert l k hnn hne hk
  exact ⟨_, c, ht.trans (dense_preimage_length_exact l k hnn hsum hk)⟩

/-- test (M2): in the row (1/4, 1/2, 0, 1/4) index 1 has probability 1/2 and the zero entry 2 has probability 0 -/
example : SelectsWithProb (sampleDense [1/4, 1/2, 0, 1/4]) 1 (1/2) ∧
    SelectsWithProb (sampleDense [1/4, 1/2, 0, 1/4]) 2 0 := by
  constructor
  · have := dense_selects_exact [1/4, 1/2, 0, 1/4] 1 (by norm_num) (by norm_num) (by simp)
    simpa using this
  · have := dense_selects_exact [1/4, 1/2, 0, 1/4] 2 (by norm_num) (by norm_num) (by simp)
    simpa using this

/-- **M4** an index outside the row is never selected -/
theorem dense_selects_out_of_range (l : List Rat) (k : Nat) (_hnn : ∀ x ∈ l, 0 ≤ x) (hne : l ≠ [])
    (hk : l.length ≤ k) : SelectsWithProb (sampleDense l) k 0 := by
  refine ⟨[], ⟨?_, ?_, List.Pairwise.nil⟩, rfl⟩
  · intro u _ _
    have := dense_in_range l u hne
    constructor
    · intro h; omega
    · rintro ⟨iv, hiv, _⟩; simp at hiv
  · intro iv hiv; simp at hiv

/-- **M3** any vector accepted by `isProbability`: index `k` is selected with a probability within
    `equalToleranceSmall` of `p_k` -/
theorem dense_selects_valid (l : List Rat) (k : Nat) (hp : isProb l = true) (hk : k < l.length) :
    ∃ q, SelectsWithProb (sampleDense l) k q ∧ absQ (q - l.getD k 0) ≤ AITB.Gen.equalToleranceSmall := by
  have hne : l ≠ [] := by intro h; subst h; simp at hk
  obtain ⟨hnn, _⟩ := (dense_isProb_iff l).mp hp
  obtain ⟨c, ht⟩ := dense_cert l k hnn hne hk
  exact ⟨preimageLen l k, ⟨_, c, ht⟩, dense_preimage_length_valid l k hp hne hk⟩


/-! ## M5: the alias table sampler -/

/-- the (at most two) intervals of column `i` that are mapped to `j` -/
def ms_colIvs (prob : List Rat) (als : List Nat) (j i : Nat) : List (Rat × Rat) :=
  (if i = j then [((i : Rat) / (prob.length : Rat),
      ((i : Rat) + clamp01 (prob.getD i 0)) / (prob.length : Rat))] else []) ++
  (if als.getD i 0 = j then [(((i : Rat) + clamp01 (prob.getD i 0)) / (prob.length : Rat),
      ((i : Rat) + 1) / (prob.length : Rat))] else [])

/-- the draws `u ∈ [0,1)` that the table maps to `j`: per column `i` the piece `[i/n, (i+t_i)/n)`
    when `i = j` and the piece `[(i+t_i)/n, (i+1)/n)` when `alias_i = j`, `t_i = clamp01 prob_i` -/
def aliasIntervals (prob : List Rat) (als : List Nat) (j : Nat) : List (Rat × Rat) :=
  (List.range prob.length).flatMap (fun i =>
    let n : Rat := prob.length; let t := clamp01 (prob.getD i 0)
    (if i = j then [((i : Rat) / n, ((i : Rat) + t) / n)] else []) ++
    (if als.getD i 0 = j then [(((i : Rat) + t) / n, ((i : Rat) + 1) / n)] else []))

theorem ms_aliasIntervals_eq (prob : List Rat) (als : List Nat) (j : Nat) :
    aliasIntervals prob als j = (List.range prob.length).flatMap (ms_colIvs prob als j) := rfl

/-- every interval of column `i` lies inside `[i/n, (i+1)/n]` -/
theorem ms_col_sub (prob : List Rat) (als : List Nat) (j i : Nat) (hn : (0 : Rat) < (prob.length : Rat))
    (iv : Rat × Rat) (hiv : iv ∈ ms_colIvs prob als j i) :
    (i : Rat) / (prob.length : Rat) ≤ iv.1 ∧ iv.1 ≤ iv.2 ∧ iv.2 ≤ ((i : Rat) + 1) / (prob.length : Rat) := by
  have t0 := clamp01_nonneg (prob.getD i 0)
  have t1 := clamp01_le_one (prob.getD i 0)
  unfold ms_colIvs at hiv
  rw [List.mem_append] at hiv
  rcases hiv with h | h
  · split at h
    · rw [List.mem_singleton] at h; subst h
      refine ⟨le_rfl, ?_, ?_⟩ <;> dsimp only <;> apply div_le_div_of_nonneg_right _ (le_of_lt hn) <;> linarith
    · simp at h
  · split at h
    · rw [List.mem_singleton] at h; subst h
      refine ⟨?_, ?_, le_rfl⟩ <;> dsimp only <;> apply div_le_div_of_nonneg_right _ (le_of_lt hn) <;> linarith
    · simp at h

/-- the two pieces of one column do not overlap (they are split at `(i+t_i)/n`) -/
theorem ms_col_pairwise (prob : List Rat) (als : List Nat) (j i : Nat) :
    (ms_colIvs prob als j i).Pairwise (fun a b => ∀ u, ¬ (inIv a u ∧ inIv b u)) := by
  unfold ms_colIvs
  split <;> split
  · simp only [List.singleton_append, List.pairwise_pair, inIv]
    rintro u ⟨⟨_, h1⟩, ⟨h2, _⟩⟩
    linarith
  · simp
  · simp
  · simp

/-- membership in a piece of column `i`, in the scaled coordinate `x = u·n` -/
theorem ms_col_mem (prob : List Rat) (als : List Nat) (j i : Nat) (hn : (0 : Rat) < (prob.length : Rat))
    (u : Rat) :
    (∃ iv ∈ ms_colIvs prob als j i, inIv iv u) ↔
      ((j = i ∧ (i : Rat) ≤ u * (prob.length : Rat) ∧
          u * (prob.length : Rat) < (i : Rat) + clamp01 (prob.getD i 0)) ∨
       (j = als.getD i 0 ∧ (i : Rat) + clamp01 (prob.getD i 0) ≤ u * (prob.length : Rat) ∧
          u * (prob.length : Rat) < (i : Rat) + 1)) := by
  unfold ms_colIvs
  simp only [List.mem_append, or_and_right, exists_or]
  apply or_congr
  · split
    · rename_i h
      simp only [List.mem_singleton, exists_eq_left, inIv, div_le_iff₀ hn, lt_div_iff₀ hn]
      simp [h]
    · rename_i h
      have h' : ¬ j = i := fun e => h e.symm
      simp [h']
  · split
    · rename_i h
      simp only [List.mem_singleton, exists_eq_left, inIv, div_le_iff₀ hn, lt_div_iff₀ hn]
      exact ⟨fun h2 => ⟨h.symm, h2⟩, fun h2 => h2.2⟩
    · rename_i h
      constructor
      · rintro ⟨_, h0, _⟩; simp at h0
      · rintro ⟨e, _⟩; exact absurd e.symm h

theorem ms_totalLen_flatMap {α : Type} (f : α → List (Rat × Rat)) : ∀ l : List α,
    totalLen (l.flatMap f) = (l.map (fun a => totalLen (f a))).sum
  | [] => rfl
  | a :: l => by
    rw [List.flatMap_cons, ms_totalLen_append, ms_totalLen_flatMap f l, List.map_cons, List.sum_cons]

theorem ms_sum_map_div {α : Type} (f : α → Rat) (c : Rat) : ∀ l : List α,
    (l.map (fun a => f a / c)).sum = (l.map f).sum / c
  | [] => by simp
  | a :: l => by
    rw [List.map_cons, List.sum_cons, ms_sum_map_div f c l, List.map_cons, List.sum_cons, add_div]

theorem ms_col_len (prob : List Rat) (als : List Nat) (j i : Nat) :
    totalLen (ms_colIvs prob als j i) =
      ((if i = j then clamp01 (prob.getD i 0) else 0) +
       (if als.getD i 0 = j then 1 - clamp01 (prob.getD i 0) else 0)) / (prob.length : Rat) := by
  unfold ms_colIvs
  rw [ms_totalLen_append]
  by_cases h1 : i = j <;> by_cases h2 : als.getD i 0 = j
  · rw [if_pos h1, if_pos h2, if_pos h1, if_pos h2, ms_totalLen_singleton, ms_totalLen_singleton]; ring
  · rw [if_pos h1, if_neg h2, if_pos h1, if_neg h2, ms_totalLen_singleton, ms_totalLen_nil]; ring
  · rw [if_neg h1, if_pos h2, if_neg h1, if_pos h2, ms_totalLen_singleton, ms_totalLen_nil]; ring
  · rw [if_neg h1, if_neg h2, if_neg h1, if_neg h2, ms_totalLen_nil]; ring

/-- **M5** -/
theorem alias_cert (prob : List Rat) (als : List Nat) (j : Nat) (_hlen : als.length = prob.length)
    (hne : prob ≠ []) :
    PreimageCert (aliasSample prob als) j (aliasIntervals prob als j) ∧
      totalLen (aliasIntervals prob als j) = aliasMass prob als j := by
  have hpos : 0 < prob.length := List.length_pos_of_ne_nil hne
  have hn : (0 : Rat) < (prob.length : Rat) := by exact_mod_cast hpos
  rw [ms_aliasIntervals_eq]
  refine ⟨⟨?_, ?_, ?_⟩, ?_⟩
  · intro u hu hu1
    have hx0 : 0 ≤ u * (prob.length : Rat) := mul_nonneg hu (le_of_lt hn)
    have hxn : u * (prob.length : Rat) < (prob.length : Rat) := by
      calc u * (prob.length : Rat) < 1 * (prob.length : Rat) := mul_lt_mul_of_pos_right hu1 hn
        _ = (prob.length : Rat) := one_mul _
    unfold aliasSample
    rw [alias_preimage prob als _ j hx0 hxn]
    have t0 := fun i => clamp01_nonneg (prob.getD i 0)
    have t1 := fun i => clamp01_le_one (prob.getD i 0)
    constructor
    · rintro ⟨i, hi, h1, h2, h⟩
      obtain ⟨iv, hiv, hin⟩ := (ms_col_mem prob als j i hn u).mpr (by
        rcases h with ⟨a, b⟩ | ⟨a, b⟩
        · exact Or.inl ⟨a, h1, b⟩
        · exact Or.inr ⟨a, b, h2⟩)
      exact ⟨iv, List.mem_flatMap.mpr ⟨i, List.mem_range.mpr hi, hiv⟩, hin⟩
    · rintro ⟨iv, hiv, hin⟩
      obtain ⟨i, hi, hiv'⟩ := List.mem_flatMap.mp hiv
      have := (ms_col_mem prob als j i hn u).mp ⟨iv, hiv', hin⟩
      refine ⟨i, List.mem_range.mp hi, ?_⟩
      rcases this with ⟨a, b, c⟩ | ⟨a, b, c⟩
      · exact ⟨b, by linarith [t1 i], Or.inl ⟨a, c⟩⟩
      · exact ⟨by linarith [t0 i], c, Or.inr ⟨a, b⟩⟩
  · intro iv hiv
    obtain ⟨i, hi, hiv'⟩ := List.mem_flatMap.mp hiv
    have hi' : i < prob.length := List.mem_range.mp hi
    obtain ⟨a, b, c⟩ := ms_col_sub prob als j i hn iv hiv'
    have hiq : (i : Rat) + 1 ≤ (prob.length : Rat) := by exact_mod_cast hi'
    have h0 : (0 : Rat) ≤ (i : Rat) / (prob.length : Rat) := div_nonneg (Nat.cast_nonneg i) (le_of_lt hn)
    have h1 : ((i : Rat) + 1) / (prob.length : Rat) ≤ 1 := (div_le_one hn).mpr hiq
    exact ⟨le_trans h0 a, b, le_trans c h1⟩
  · rw [List.pairwise_flatMap]
    refine ⟨fun i _ => ms_col_pairwise prob als j i, ?_⟩
    refine List.Pairwise.imp ?_ (List.pairwise_lt_range (n := prob.length))
    intro i i' hlt x hx y hy u ⟨⟨_, hxu⟩, ⟨hyu, _⟩⟩
    obtain ⟨_, _, cx⟩ := ms_col_sub prob als j i hn x hx
    obtain ⟨ay, _, _⟩ := ms_col_sub prob als j i' hn y hy
    have hq : (i : Rat) + 1 ≤ (i' : Rat) := by exact_mod_cast hlt
    have := div_le_div_of_nonneg_right hq (le_of_lt hn)
    linarith
  · rw [ms_totalLen_flatMap]
    unfold aliasMass
    rw [← ms_sum_map_div]
    congr 1
    exact List.map_congr_left (fun i _ => ms_col_len prob als j i)

/-- test (M5): the textbook table of `[1/2,1/4,1/4]` (columns keep themselves with 1, 3/4, 3/4, alias 0) -/
example : SelectsWithProb (aliasSample [1, 3/4, 3/4] [0, 0, 0]) 0 (1/2) := by
  refine ⟨_, (alias_cert [1, 3/4, 3/4] [0, 0, 0] 0 rfl (by simp)).1, ?_⟩
  rw [(alias_cert [1, 3/4, 3/4] [0, 0, 0] 0 rfl (by simp)).2]
  decide +kernel

/-! ## M6: the repaired Vose constructor followed by the table sampler -/

/-- **M6** -/
theorem vose_selects (p : List Rat) (hne : p ≠ []) (hnn : ∀ x ∈ p, 0 ≤ x) (hsum : p.sum = 1)
    (j : Nat) (hj : j < p.length) :
    SelectsWithProb (aliasSample (voseBuildFixed p (1 / (p.length : Rat))).1
      (voseBuildFixed p (1 / (p.length : Rat))).2) j (p.getD j 0) := by
  obtain ⟨hl1, hl2⟩ := vose_fixed_lengths p (1 / (p.length : Rat))
  have hne' : (voseBuildFixed p (1 / (p.length : Rat))).1 ≠ [] := by
    intro h
    rw [h] at hl1
    exact hne (List.length_eq_zero_iff.mp hl1.symm)
  obtain ⟨c, ht⟩ := alias_cert _ _ j (hl2.trans hl1.symm) hne'
  exact ⟨_, c, ht.trans (vose_correct p hne hnn hsum j hj)⟩

/-- test (M6) -/
example : SelectsWithProb (aliasSample (voseBuildFixed [1/2, 1/4, 1/4] (1/3)).1
    (voseBuildFixed [1/2, 1/4, 1/4] (1/3)).2) 2 (1/4) := by
  have := vose_selects [1/2, 1/4, 1/4] (by simp) (by norm_num) (by norm_num) 2 (by simp)
  norm_num at this
  exact this
end AITB.Sampling
