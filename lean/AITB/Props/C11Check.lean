/-
  AITB.Props.C11Check — soundness of the decidable checkers (L3) the driver evaluates on the implementation's
  exact outputs: what `true` from a checker means in terms of the property's predicates.
-/
import AITB.Model.LearnersCheck
import AITB.Props.C11
import AITB.Props.C11Traces
import AITB.Props.C11PS

namespace AITB.Learn

/-- the `if`-form of the interval used by the driver is the hull interval of the theorems -/
theorem loC_eq_loB (rmin γ : Rat) : loC rmin γ = loB rmin γ := by
  unfold loC loB
  by_cases h : rmin < 0
  · simp [h, min_eq_left h.le]
  · simp [h, min_eq_right (not_lt.mp h)]

theorem hiC_eq_hiB (rmax γ : Rat) : hiC rmax γ = hiB rmax γ := by
  unfold hiC hiB
  by_cases h : 0 < rmax
  · simp [h, max_eq_left h.le]
  · simp [h, max_eq_right (not_lt.mp h)]

theorem toRows_get (S A : Nat) (q : QF) (s a : Nat) (hs : s < S) (ha : a < A) :
    ((toRows S A q).getD s []).getD a 0 = q s a := by
  simp [toRows, List.getD, hs, ha]

/-- **bounds checker**: `rowsWithin lo hi slack (toRows S A q)` holds iff every entry of the `S×A` table lies in
    `[lo - slack, hi + slack]` (the driver uses slack 1e-9·scale to absorb rounding; slack 0 is the exact clause) -/
theorem rowsWithin_iff (lo hi slack : Rat) (S A : Nat) (q : QF) :
    rowsWithin lo hi slack (toRows S A q) = true ↔ ∀ s a, s < S → a < A → lo - slack ≤ q s a ∧ q s a ≤ hi + slack := by
  simp only [rowsWithin, toRows, List.all_map, List.all_eq_true, List.mem_range, Function.comp,
    Bool.and_eq_true, decide_eq_true_eq]
  constructor
  · intro h s a hs ha; exact h s hs a ha
  · intro h s hs a ha; exact h s a hs ha

/-- a table bounded in the sense of the theorems passes the checker with zero slack -/
theorem Bdd_passes (rmin rmax γ : Rat) (S A : Nat) (q : QF) (h : Bdd (loB rmin γ) (hiB rmax γ) q) :
    rowsWithin (loC rmin γ) (hiC rmax γ) 0 (toRows S A q) = true := by
  rw [rowsWithin_iff, loC_eq_loB, hiC_eq_hiB]
  intro s a _ _
  have := h s a
  constructor <;> linarith [this.1, this.2]

theorem keysNodup_iff (l : List (Nat × Nat)) : keysNodup l = true ↔ l.Nodup := by
  induction l with
  | nil => simp [keysNodup]
  | cons k ks ih =>
    simp only [keysNodup, Bool.and_eq_true, Bool.not_eq_true', List.nodup_cons, ih]
    constructor
    · rintro ⟨h1, h2⟩
      refine ⟨?_, h2⟩
      intro hm
      have : ks.contains k = true := List.contains_iff_mem.mpr hm
      rw [h1] at this; exact Bool.noConfusion this
    · rintro ⟨h1, h2⟩
      refine ⟨?_, h2⟩
      cases hc : ks.contains k with
      | false => rfl
      | true => exact absurd (List.contains_iff_mem.mp hc) h1

/-- **trace checker**: the two Boolean tests are exactly the invariant `TrOK` of `traces_bounded` -/
theorem trace_check_iff (tol : Rat) (tr : List Tr) :
    (tracesInRange tol tr && tracesNodup tr) = true ↔ TrOK tol tr := by
  simp only [Bool.and_eq_true, tracesInRange, tracesNodup, TrOK, List.all_eq_true, decide_eq_true_eq, keysNodup_iff]
  constructor
  · rintro ⟨h1, h2⟩; exact ⟨h1, h2⟩
  · rintro ⟨h1, h2⟩; exact ⟨h1, h2⟩

theorem foldl_max_ge (l : List Rat) (init : Rat) :
    init ≤ l.foldl (fun acc x => if acc < x then x else acc) init ∧
    ∀ x ∈ l, x ≤ l.foldl (fun acc x => if acc < x then x else acc) init := by
  induction l generalizing init with
  | nil => simp
  | cons y ys ih =>
    simp only [List.foldl_cons]
    by_cases h : init < y
    · simp only [h, if_true]
      obtain ⟨h1, h2⟩ := ih y
      refine ⟨le_trans h.le h1, ?_⟩
      intro x hx
      rcases List.mem_cons.mp hx with rfl | hx
      · exact h1
      · exact h2 x hx
    · simp only [h, if_false]
      obtain ⟨h1, h2⟩ := ih init
      refine ⟨h1, ?_⟩
      intro x hx
      rcases List.mem_cons.mp hx with rfl | hx
      · exact le_trans (not_lt.mp h) h1
      · exact h2 x hx

/-- **fixed-point checker**: a residual of at most `ε` bounds the Bellman-optimality defect of every entry -/
theorem bellmanResidual_sound (m : MDP) (q : QF) (ε : Rat) (h : bellmanResidual m q ≤ ε) :
    ∀ s a, s < m.S → a < m.A →
      absR (q s a - (m.R s a + m.γ * sumTo m.S (fun s1 => m.T s a s1 * maxA m.A (q s1)))) ≤ ε := by
  intro s a hs ha
  refine le_trans ?_ h
  unfold bellmanResidual
  apply (foldl_max_ge _ 0).2
  simp only [List.mem_flatMap, List.mem_map, List.mem_range]
  exact ⟨s, hs, a, ha, rfl⟩

/-- residual 0 is exactly the conclusion of `ps_fixed_point` -/
theorem bellmanResidual_zero (m : MDP) (q : QF) (h : bellmanResidual m q ≤ 0) :
    ∀ s a, s < m.S → a < m.A → q s a = m.R s a + m.γ * sumTo m.S (fun s1 => m.T s a s1 * maxA m.A (q s1)) := by
  intro s a hs ha
  have := bellmanResidual_sound m q 0 h s a hs ha
  unfold absR at this
  split at this <;> linarith

/-! ### clause 2 for the trace-based CONTROL learners (QL(λ), Retrace(λ), TreeBackup(λ), ImportanceSampling)

  With a greedy target (ε = 0) the expected backup is the max backup, so at Q* of a deterministic MDP the error is
  zero and, whatever the traces hold, nothing moves. -/

/-- a zero error leaves the table unchanged, whatever the trace list holds -/
theorem updateTraces_err0 (s a : Nat) (td tol : Rat) (tr : List Tr) (q : QF) (hnd : (tr.map key).Nodup) :
    (updateTraces s a 0 td tol tr q).2 = q := by
  obtain ⟨hC, hD⟩ := updateTraces_table s a 0 td tol tr q hnd
  funext s' a'
  by_cases h : (s', a') ∈ (updateTraces s a 0 td tol tr q).1.map key
  · obtain ⟨u, hu, hk⟩ := List.mem_map.1 h
    simp only [key, Prod.mk.injEq] at hk
    have := hC u hu
    rw [hk.1, hk.2] at this
    rw [this]; ring
  · exact hD s' a' h

theorem expectedEps_zero (A : Nat) (q : QF) (s1 : Nat) : expectedEps 0 A q s1 = maxA A (q s1) := by
  unfold expectedEps; simp

/-- **qstar_fixed_point for the trace-based control learners**: greedy target (ε = 0), any λ, any cut-off, any
    stored traces with distinct keys, any behaviour policy -/
theorem control_qstar_fixed (k : Kind) (γ α lam tol : Rat) (A : Nat) (πb : Nat → Nat → Rat)
    (next : Nat → Nat → Nat) (R : Nat → Nat → Rat) (q : QF) (hq : IsQStar γ A next R q)
    (tr : List Tr) (hnd : (tr.map key).Nodup) (s a : Nat) :
    (controlStep k γ α lam tol 0 A πb tr q s a (next s a) (R s a)).2 = q := by
  unfold controlStep
  have : α * (R s a + γ * expectedEps 0 A q (next s a) - q s a) = 0 := by
    rw [expectedEps_zero, ← hq s a]; ring
  simp only [this]
  exact updateTraces_err0 s a _ tol tr q hnd

/-- SARSA(λ) at Q* when the next action is greedy -/
theorem sarsal_qstar_fixed (γ α lam tol : Rat) (A : Nat)
    (next : Nat → Nat → Nat) (R : Nat → Nat → Rat) (q : QF) (hq : IsQStar γ A next R q)
    (tr : List Tr) (hnd : (tr.map key).Nodup) (s a : Nat) :
    (sarsalStep γ α lam tol tr q s a (next s a) (argmaxA A (q (next s a))) (R s a)).2 = q := by
  unfold sarsalStep
  have : α * (R s a + γ * q (next s a) (argmaxA A (q (next s a))) - q s a) = 0 := by
    rw [argmaxA_spec A (q (next s a)), ← hq s a]; ring
  simp only [this]
  exact updateTraces_err0 s a _ tol tr q hnd

/-! ### what the fixed-point checker establishes about the implementation's table

  A table whose Bellman-optimality residual is at most `ε` lies within `ε/(1-γ)` of THE optimal Q-function
  (approximate version of `bellman_fixed_point_unique`; the driver evaluates the residual of PrioritizedSweeping's
  output exactly). -/

/-- one-sided step: `q1 ≤ B q1 + ε1`, `B q2 ≤ q2 + ε2`, `q1 ≤ q2 + D` ⟹ `q1 ≤ q2 + γ D + ε1 + ε2` -/
theorem bellman_contract_side_approx (m : MDP) (hT : ∀ s a s1, 0 ≤ m.T s a s1)
    (hrow : ∀ s a, s < m.S → a < m.A → sumTo m.S (fun s1 => m.T s a s1) ≤ 1)
    (hγ0 : 0 ≤ m.γ) (q1 q2 : QF) (ε1 ε2 : Rat)
    (h1 : ∀ s a, s < m.S → a < m.A →
      q1 s a ≤ m.R s a + m.γ * sumTo m.S (fun s1 => m.T s a s1 * maxA m.A (q1 s1)) + ε1)
    (h2 : ∀ s a, s < m.S → a < m.A →
      m.R s a + m.γ * sumTo m.S (fun s1 => m.T s a s1 * maxA m.A (q2 s1)) ≤ q2 s a + ε2)
    (B : Rat) (hB : 0 ≤ B) (hb : ∀ s a, s < m.S → a < m.A → q1 s a ≤ q2 s a + B) :
    ∀ s a, s < m.S → a < m.A → q1 s a ≤ q2 s a + m.γ * B + ε1 + ε2 := by
  intro s a hs ha
  have hmax : ∀ s1, s1 < m.S → maxA m.A (q1 s1) ≤ maxA m.A (q2 s1) + B := by
    intro s1 hs1
    unfold maxA
    apply maxTo_le_add
    intro i hi
    exact hb s1 i hs1 (by omega)
  have hsum := sumTo_le_add m.S (m.T s a) (fun s1 => maxA m.A (q1 s1)) (fun s1 => maxA m.A (q2 s1)) B
    (hT s a) hmax
  have hr := hrow s a hs ha
  have hrB : sumTo m.S (fun s1 => m.T s a s1) * B ≤ B := by nlinarith
  have : m.γ * sumTo m.S (fun s1 => m.T s a s1 * maxA m.A (q1 s1))
      ≤ m.γ * (sumTo m.S (fun s1 => m.T s a s1 * maxA m.A (q2 s1)) + B) :=
    mul_le_mul_of_nonneg_left (le_trans hsum (by linarith)) hγ0
  have a1 := h1 s a hs ha
  have a2 := h2 s a hs ha
  linarith

theorem approx_fixed_point_le (m : MDP) (hT : ∀ s a s1, 0 ≤ m.T s a s1)
    (hrow : ∀ s a, s < m.S → a < m.A → sumTo m.S (fun s1 => m.T s a s1) ≤ 1)
    (hγ0 : 0 ≤ m.γ) (hγ1 : m.γ < 1) (_hA : 0 < m.A) (q1 q2 : QF) (ε1 ε2 : Rat) (hε : 0 ≤ ε1 + ε2)
    (h1 : ∀ s a, s < m.S → a < m.A →
      q1 s a ≤ m.R s a + m.γ * sumTo m.S (fun s1 => m.T s a s1 * maxA m.A (q1 s1)) + ε1)
    (h2 : ∀ s a, s < m.S → a < m.A →
      m.R s a + m.γ * sumTo m.S (fun s1 => m.T s a s1 * maxA m.A (q2 s1)) ≤ q2 s a + ε2) :
    ∀ s a, s < m.S → a < m.A → (q1 s a - q2 s a) * (1 - m.γ) ≤ ε1 + ε2 := by
  let D : Rat := supTo m.S (fun s => supTo m.A (fun a => q1 s a - q2 s a))
  have hD0 : 0 ≤ D := supTo_nonneg _ _
  have hD : ∀ s a, s < m.S → a < m.A → q1 s a ≤ q2 s a + D := by
    intro s a hs ha
    have e1 : q1 s a - q2 s a ≤ supTo m.A (fun a => q1 s a - q2 s a) :=
      le_supTo m.A (fun a => q1 s a - q2 s a) a ha
    have e2 : supTo m.A (fun a => q1 s a - q2 s a) ≤ D :=
      le_supTo m.S (fun s => supTo m.A (fun a => q1 s a - q2 s a)) s hs
    linarith
  have hc := bellman_contract_side_approx m hT hrow hγ0 q1 q2 ε1 ε2 h1 h2 D hD0 hD
  have hγD : 0 ≤ m.γ * D + (ε1 + ε2) := by nlinarith [mul_nonneg hγ0 hD0]
  have hDle : D ≤ m.γ * D + (ε1 + ε2) := by
    apply supTo_le _ _ _ hγD
    intro s hs
    apply supTo_le _ _ _ hγD
    intro a ha
    have := hc s a hs ha
    linarith
  intro s a hs ha
  have h3 := hD s a hs ha
  have h4 : 0 < 1 - m.γ := by linarith
  nlinarith

/-- **fixed-point checker, meaning**: residual ≤ ε ⟹ every entry within `ε/(1-γ)` of the optimal Q-function -/
theorem residual_bounds_distance (m : MDP) (hT : ∀ s a s1, 0 ≤ m.T s a s1)
    (hrow : ∀ s a, s < m.S → a < m.A → sumTo m.S (fun s1 => m.T s a s1) ≤ 1)
    (hγ0 : 0 ≤ m.γ) (hγ1 : m.γ < 1) (hA : 0 < m.A) (q qstar : QF) (ε : Rat) (hε : 0 ≤ ε)
    (hres : bellmanResidual m q ≤ ε)
    (hstar : ∀ s a, s < m.S → a < m.A →
      qstar s a = m.R s a + m.γ * sumTo m.S (fun s1 => m.T s a s1 * maxA m.A (qstar s1))) :
    ∀ s a, s < m.S → a < m.A → absR (q s a - qstar s a) * (1 - m.γ) ≤ ε := by
  have hr := bellmanResidual_sound m q ε hres
  have up : ∀ s a, s < m.S → a < m.A →
      q s a ≤ m.R s a + m.γ * sumTo m.S (fun s1 => m.T s a s1 * maxA m.A (q s1)) + ε := by
    intro s a hs ha
    have := hr s a hs ha
    unfold absR at this
    split at this <;> linarith
  have dn : ∀ s a, s < m.S → a < m.A →
      m.R s a + m.γ * sumTo m.S (fun s1 => m.T s a s1 * maxA m.A (q s1)) ≤ q s a + ε := by
    intro s a hs ha
    have := hr s a hs ha
    unfold absR at this
    split at this <;> linarith
  have sup0 : ∀ s a, s < m.S → a < m.A →
      qstar s a ≤ m.R s a + m.γ * sumTo m.S (fun s1 => m.T s a s1 * maxA m.A (qstar s1)) + 0 := by
    intro s a hs ha; rw [← hstar s a hs ha]; linarith
  have sdn0 : ∀ s a, s < m.S → a < m.A →
      m.R s a + m.γ * sumTo m.S (fun s1 => m.T s a s1 * maxA m.A (qstar s1)) ≤ qstar s a + 0 := by
    intro s a hs ha; rw [← hstar s a hs ha]; linarith
  intro s a hs ha
  have a1 := approx_fixed_point_le m hT hrow hγ0 hγ1 hA q qstar ε 0 (by linarith) up sdn0 s a hs ha
  have a2 := approx_fixed_point_le m hT hrow hγ0 hγ1 hA qstar q 0 ε (by linarith) sup0 dn s a hs ha
  unfold absR
  split <;> nlinarith

/-! ### observation outside the property's clauses (modelled as written)

  `OffPolicyControl::stepUpdateQ` hands `getTraceDiscount` the greedy action of the NEXT state `s1`, although the
  header documents `maxA` as "the already computed best greedy action for state s" and the derived classes compare it
  with the action `a` taken in `s`.  Consequently a control learner and the corresponding Evaluation learner run with
  the ε-greedy policy of the same table as target disagree on the trace discount (λ > 0 only; the λ = 0, bounds and
  fixed-point clauses of C11 do not depend on it).  Test by evaluation on a 2×2 table: -/

/-- the ε-greedy policy with respect to the table `q` (what one would hand to the Evaluation classes) -/
def epsGreedyPi (ε : Rat) (A : Nat) (q : QF) : Nat → Nat → Rat := fun s x => probGreedy ε A x (argmaxA A (q s))

def cxQ : QF := fun s a => if s = a then 1 else 0

/-- TreeBackup(λ=1), γ=1, ε=0, cut-off 1/2, stored trace (1,1,1); sample (s=0,a=0,s1=1): the control learner cuts the old
    trace (it looks at arg-max of row 1), the evaluation learner with the greedy target keeps it (arg-max of row 0) -/
theorem control_eval_trace_discount_differ :
    (controlStep .tb 1 1 1 (1/2) 0 2 (fun _ _ => 1) [⟨1, 1, 1⟩] cxQ 0 0 1 0).1.length = 1 ∧
    (evalStep .tb 1 1 1 (1/2) 2 (epsGreedyPi 0 2 cxQ) (fun _ _ => 1) [⟨1, 1, 1⟩] cxQ 0 0 1 0).1.length = 2 := by
  constructor <;> decide +kernel

end AITB.Learn
