/-
  AITB.Props.C15 — certificates for the flat linear programs (property C15, part 1).

  * `weak_duality_sound`   a dual certificate accepted by `dualOk` bounds the objective of EVERY feasible point
  * `optimalPair_sound`    the driver's complete decision `optimalPairB` is sound: the primal point is feasible and optimal
  * `certified_minimal`    what the driver concludes for the library's answer: objective within ε of every feasible point
  All for every number of variables, rows, and all rational data (no size bound).
-/
import AITB.Model.FLP
import Mathlib.Algebra.Order.Field.Rat
import Mathlib.Tactic.Ring
import Mathlib.Tactic.Linarith

namespace AITB.FLP

theorem sumTo_add (n : Nat) (f g : Nat → Rat) : sumTo n (fun i => f i + g i) = sumTo n f + sumTo n g := by
  induction n with
  | zero => simp [sumTo]
  | succ n ih => simp only [sumTo, ih]; ring

theorem sumTo_mul (n : Nat) (q : Rat) (f : Nat → Rat) : sumTo n (fun i => q * f i) = q * sumTo n f := by
  induction n with
  | zero => simp [sumTo]
  | succ n ih => simp only [sumTo, ih]; ring

theorem sumTo_zero (n : Nat) : sumTo n (fun _ => 0) = 0 := by
  induction n with
  | zero => rfl
  | succ n ih => simp [sumTo, ih]

theorem sumTo_congr (n : Nat) (f g : Nat → Rat) (h : ∀ i, i < n → f i = g i) : sumTo n f = sumTo n g := by
  induction n with
  | zero => rfl
  | succ n ih =>
    simp only [sumTo]
    rw [ih (fun i hi => h i (by omega)), h n (by omega)]

/-- Σ_j y_j · (coef_j · x) -/
def wsum (n : Nat) : List GeRow → List Rat → List Rat → Rat
  | r :: rs, y :: ys, x => y * r.val n x + wsum n rs ys x
  | _, _, _ => 0

theorem dualVal_le_wsum (n : Nat) (x : List Rat) : ∀ (rows : List GeRow) (y : List Rat),
    (∀ r ∈ rows, r.sat n x) → (∀ q ∈ y, 0 ≤ q) → dualVal rows y ≤ wsum n rows y x
  | [], _, _, _ => by simp [dualVal, wsum]
  | _ :: _, [], _, _ => by simp [dualVal, wsum]
  | r :: rs, q :: ys, hr, hy => by
    simp only [dualVal, wsum]
    have h1 : r.rhs ≤ r.val n x := hr r (List.mem_cons_self ..)
    have h2 : 0 ≤ q := hy q (List.mem_cons_self ..)
    have h3 := dualVal_le_wsum n x rs ys (fun r' h => hr r' (List.mem_cons_of_mem _ h)) (fun q' h => hy q' (List.mem_cons_of_mem _ h))
    have h4 : q * r.rhs ≤ q * r.val n x := mul_le_mul_of_nonneg_left h1 h2
    linarith

theorem wsum_eq (n : Nat) (x : List Rat) : ∀ (rows : List GeRow) (y : List Rat),
    wsum n rows y x = sumTo n (fun i => comb rows y i * x.getD i 0)
  | [], _ => by simp [wsum, comb, sumTo_zero]
  | _ :: _, [] => by simp [wsum, comb, sumTo_zero]
  | r :: rs, q :: ys => by
    simp only [wsum, comb, wsum_eq n x rs ys, GeRow.val, dotN]
    rw [← sumTo_mul, ← sumTo_add]
    apply sumTo_congr
    intro i _; ring

theorem dualOk_spec (n : Nat) (rows : List GeRow) (c y : List Rat) (h : dualOk n rows c y = true) :
    (∀ q ∈ y, 0 ≤ q) ∧ ∀ i, i < n → comb rows y i = c.getD i 0 := by
  simp only [dualOk, Bool.and_eq_true, List.all_eq_true, decide_eq_true_eq, List.mem_range, beq_iff_eq] at h
  exact ⟨h.1, h.2⟩

/-- **weak duality, as checked**: if `y` passes `dualOk`, every point satisfying all rows has objective ≥ `dualVal rows y` -/
theorem weak_duality_sound (n : Nat) (rows : List GeRow) (c y x : List Rat)
    (hy : dualOk n rows c y = true) (hx : ∀ r ∈ rows, r.sat n x) :
    dualVal rows y ≤ dotN n c x := by
  obtain ⟨hnn, hc⟩ := dualOk_spec n rows c y hy
  have h1 := dualVal_le_wsum n x rows y hx hnn
  rw [wsum_eq] at h1
  have h2 : sumTo n (fun i => comb rows y i * x.getD i 0) = dotN n c x := by
    unfold dotN
    apply sumTo_congr
    intro i hi; rw [hc i hi]
  linarith

theorem feasB_spec (n : Nat) (rows : List GeRow) (x : List Rat) (h : feasB n rows x = true) : ∀ r ∈ rows, r.sat n x := by
  simp only [feasB, List.all_eq_true, GeRow.satB, decide_eq_true_eq] at h
  intro r hr
  have := h r hr
  simp only [GeRow.sat]; linarith

/-- **the driver's exact decision is sound**: a pair accepted by `optimalPairB` is a feasible point whose objective
    value is the minimum over all feasible points (and equals the certified bound) -/
theorem optimalPair_sound (n : Nat) (rows : List GeRow) (c x y : List Rat) (h : optimalPairB n rows c x y = true) :
    (∀ r ∈ rows, r.sat n x) ∧ dotN n c x = dualVal rows y ∧
    ∀ x', (∀ r ∈ rows, r.sat n x') → dotN n c x ≤ dotN n c x' := by
  simp only [optimalPairB, Bool.and_eq_true, beq_iff_eq] at h
  obtain ⟨⟨hf, hd⟩, he⟩ := h
  refine ⟨feasB_spec n rows x hf, he, ?_⟩
  intro x' hx'
  have := weak_duality_sound n rows c y x' hd hx'
  linarith

/-- what is concluded about the library's answer `w`: if its objective is within `ε` of the certified bound, it is within
    `ε` of EVERY feasible point's objective -/
theorem certified_minimal (n : Nat) (rows : List GeRow) (c w y : List Rat) (ε : Rat)
    (hd : dualOk n rows c y = true) (hw : dotN n c w ≤ dualVal rows y + ε) :
    ∀ x', (∀ r ∈ rows, r.sat n x') → dotN n c w ≤ dotN n c x' + ε := by
  intro x' hx'
  have := weak_duality_sound n rows c y x' hd hx'
  linarith

/-- **Farkas, as checked**: if `y` passes `farkasOk`, NO point satisfies all rows (the flat LP is infeasible) -/
theorem farkas_sound (n : Nat) (rows : List GeRow) (y : List Rat) (h : farkasOk n rows y = true) :
    ¬ ∃ x : List Rat, ∀ r ∈ rows, r.sat n x := by
  rintro ⟨x, hx⟩
  simp only [farkasOk, Bool.and_eq_true, decide_eq_true_eq] at h
  obtain ⟨⟨h1, h2⟩, h3⟩ := h
  have hd : dualOk n rows [] y = true := by
    simp only [dualOk, Bool.and_eq_true]
    refine ⟨h1, ?_⟩
    simpa using h2
  have := weak_duality_sound n rows [] y x hd hx
  have hz : dotN n [] x = 0 := by
    simp only [dotN]
    have : (fun i => ([] : List Rat).getD i 0 * x.getD i 0) = fun _ => 0 := by funext i; simp
    rw [this, sumTo_zero]
  rw [hz] at this
  linarith

/-- the hypotheses are satisfiable by a non-trivial value (test on literals): minimise x0 + x1 s.t. x0 ≥ 1, x1 ≥ 2, x0 + x1 ≥ 2 -/
example : optimalPairB 2 [⟨[1, 0], 1⟩, ⟨[0, 1], 2⟩, ⟨[1, 1], 2⟩] [1, 1] [1, 2] [1, 1, 0] = true := by decide +kernel

/-- x ≥ 1 and −x ≥ 0 is infeasible: multipliers (1, 1) (test on literals) -/
example : farkasOk 1 [⟨[1], 1⟩, ⟨[-1], 0⟩] [1, 1] = true := by decide +kernel

end AITB.FLP
