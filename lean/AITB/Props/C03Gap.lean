/-
  AITB.Props.C03Gap — the enclosure closes: `upperRef c 0 k − lowerRef c' 0 k = γ^k (c − c')·mass`, which tends to 0.  Hence the two
  families pin down a single function (the optimal value), and on a state that is `Sound` for all members `lb ≤ ub` (C03CheckSound).
-/
import AITB.Props.C03CheckSound
import Mathlib.Algebra.Order.Archimedean.Basic

namespace AITB.POMDP3
open AITB.MDP

theorem maxTo_add_const (n : Nat) (f : Nat → Rat) (c : Rat) : maxTo n (fun i => f i + c) = maxTo n f + c := by
  apply le_antisymm
  · obtain ⟨i, hi, he⟩ := maxTo_attained n (fun i => f i + c)
    rw [he]; have := maxTo_ge n f i hi; linarith
  · obtain ⟨i, hi, he⟩ := maxTo_attained n f
    rw [he]; exact maxTo_ge n (fun i => f i + c) i hi

theorem maxTo_const (n : Nat) (c : Rat) : maxTo n (fun _ => c) = c := by
  obtain ⟨i, _, he⟩ := maxTo_attained n (fun _ => c)
  exact he

theorem iterH_congr_NN (m : POMDP) (hv : Valid m) (V W : (Nat → Rat) → Rat) (h : ∀ y, NN y → V y = W y) (k : Nat) :
    ∀ x, NN x → iterH m V k x = iterH m W k x := by
  intro x hx
  exact le_antisymm (iterH_mono m hv V W (fun y hy => le_of_eq (h y hy)) k x hx)
    (iterH_mono m hv W V (fun y hy => le_of_eq (h y hy).symm) k x hx)

/-- shifting the terminal function by `d·mass` shifts the `k`-th iterate by `γ^k·d·mass` -/
theorem iterH_shift (m : POMDP) (hv : Valid m) (V0 : (Nat → Rat) → Rat) (d : Rat) (k : Nat) :
    ∀ x, NN x → iterH m (fun y => V0 y + d * mass m.S y) k x = iterH m V0 k x + m.γ ^ k * d * mass m.S x := by
  induction k with
  | zero => intro x _; simp [iterH]
  | succ k ih =>
    intro x hx
    show Hop m _ x = Hop m _ x + _
    unfold Hop
    rw [← maxTo_add_const]
    refine maxTo_congr (fun a _ => ?_)
    unfold qval
    have e : sumTo m.O (fun o => iterH m (fun y => V0 y + d * mass m.S y) k (bstep m x a o))
        = sumTo m.O (fun o => iterH m V0 k (bstep m x a o)) + m.γ ^ k * d * mass m.S x := by
      rw [← mass_bstep m hv x a, ← sumTo_mul_left, ← sumTo_add]
      exact sumTo_congr (fun o _ => ih _ (bstep_nonneg m hv x hx a o))
    rw [e, pow_succ]; ring

/-- the gap between the two families started from constants is exactly `γ^k (cU − cL)·mass` -/
theorem gap_eq (m : POMDP) (hv : Valid m) (cL cU : Rat) (k : Nat) (x : Nat → Rat) (hx : NN x) :
    upperRef m cU 0 k x - lowerRef m (fun _ => cL) 0 k x = m.γ ^ k * (cU - cL) * mass m.S x := by
  have hL : ∀ y, NN y → maxLinV m.S (m.A - 1) (fun a => Nat.iterate (blindStep m a) 0 (fun _ => cL)) y = cL * mass m.S y := by
    intro y _
    unfold maxLinV
    have : (fun i => dotS m.S y (Nat.iterate (blindStep m i) 0 (fun _ => cL))) = fun _ => cL * mass m.S y := by
      funext i
      unfold dotS mass; rw [← sumTo_mul_left]; exact sumTo_congr (fun s _ => by simp [mul_comm])
    rw [this, maxTo_const]
  have hU : ∀ y, NN y → linV m.S (Nat.iterate (mdpStep m) 0 (fun _ => cU)) y = cL * mass m.S y + (cU - cL) * mass m.S y := by
    intro y _
    unfold linV dotS mass
    rw [← sumTo_mul_left, ← sumTo_mul_left, ← sumTo_add]
    exact sumTo_congr (fun s _ => by simp; ring)
  unfold upperRef lowerRef
  rw [iterH_congr_NN m hv _ _ hU k x hx, iterH_congr_NN m hv _ _ hL k x hx,
    iterH_shift m hv (fun y => cL * mass m.S y) (cU - cL) k x hx]
  ring

/-- **the enclosure closes** at every unnormalised belief -/
theorem gap_vanishes (m : POMDP) (hv : Valid m) (cL cU : Rat) (x : Nat → Rat) (hx : NN x) (eps : Rat) (heps : 0 < eps) :
    ∃ k, upperRef m cU 0 k x - lowerRef m (fun _ => cL) 0 k x ≤ eps := by
  by_cases hD : (cU - cL) * mass m.S x ≤ 0
  · refine ⟨0, ?_⟩
    rw [gap_eq m hv cL cU 0 x hx]
    simp only [pow_zero, one_mul]
    linarith
  · have hDpos : 0 < (cU - cL) * mass m.S x := lt_of_not_ge hD
    obtain ⟨n, hn⟩ := exists_pow_lt_of_lt_one (div_pos heps hDpos) hv.γ1
    refine ⟨n, ?_⟩
    rw [gap_eq m hv cL cU n x hx]
    have := (lt_div_iff₀ hDpos).mp hn
    linarith

/-- **`lb ≤ ub` on every state that is sound for the two families** (no analysis left: the gap lemma is proved) -/
theorem lb_le_ub (m : POMDP) (hv : Valid m) (hS : 0 < m.S) (cL cU : Rat)
    (hcL : ∀ a, a < m.A → ∀ s, s < m.S → (1 - m.γ) * cL ≤ m.R s a)
    (hcU : ∀ s, s < m.S → ∀ a, a < m.A → m.R s a ≤ (1 - m.γ) * cU)
    (st : AState) (b0 : Nat → Rat) (hb0 : NN b0) (α : Nat → Rat) (hα : st.Γ α) (u : Rat) (hu : IsInterp m st b0 u)
    (hs : ∀ j k j' k', Sound m (upperRef m cU j k) (lowerRef m (fun _ => cL) j' k') st) :
    dotS m.S b0 α ≤ u := by
  refine lb_le_ub_of_sound m hv hS (fun _ => cL) cU hcL hcU st b0 hb0 α hα u hu hs (fun eps heps => ?_)
  obtain ⟨k, hk⟩ := gap_vanishes m hv cL cU b0 hb0 eps heps
  exact ⟨0, k, 0, k, hk⟩

end AITB.POMDP3
