/-
  AITB.Props.C10BG — the selection loop of `BeliefGenerator::expandBeliefList` (in-place partition with a double swap) stays inside
  `bl` and `distances` for ALL list sizes and all distance values.  (Separately: the swaps do NOT keep `distances[k]` attached to
  `bl[good + k]` once three or more candidates are left — a functional observation outside C10, recorded by a witness.)
-/
import AITB.Model.BGCursor

namespace AITB.BGCursor

theorem argmax_fold_lt : ∀ (t : List (Nat × Nat)) (acc : Nat × Nat × Nat), acc.2.1 < acc.1 →
    (t.foldl argStep acc).2.1 < acc.1 + t.length := by
  intro t
  induction t with
  | nil => intro acc h; simpa using h
  | cons x t ih =>
    intro acc h
    simp only [List.foldl_cons, List.length_cons]
    have h1 : (argStep acc x).2.1 < (argStep acc x).1 ∧ (argStep acc x).1 = acc.1 + 1 := by
      unfold argStep; split <;> simp <;> omega
    have := ih (argStep acc x) h1.1
    omega

theorem argmaxFirst_lt (l : List (Nat × Nat)) (h : 1 ≤ l.length) : ∃ id, argmaxFirst l = some id ∧ id < l.length := by
  cases l with
  | nil => simp at h
  | cons x t =>
    obtain ⟨v, tg⟩ := x
    refine ⟨_, rfl, ?_⟩
    have := argmax_fold_lt t (1, 0, v) (by simp)
    simp only [List.length_cons]; omega

theorem swapAt_some {α : Type} (l : List α) (i j : Nat) (hi : i < l.length) (hj : j < l.length) :
    ∃ r, swapAt l i j = some r ∧ r.length = l.length := by
  unfold swapAt
  rw [List.getElem?_eq_getElem hi, List.getElem?_eq_getElem hj]
  exact ⟨_, rfl, by simp⟩

/-- what the loop needs on entry: `distances` covers exactly the candidates, and the candidates are inside `bl` -/
structure WF (s : St) : Prop where
  cover : s.all = s.good + s.dist.length
  inside : s.all ≤ s.bl.length

/-- **selectStep_total** — one iteration reads and swaps only inside the two vectors, whatever the distances are -/
theorem selectStep_total (upd : St → Nat → Nat → Nat) (max : Nat) (s : St) (hw : WF s) (hd : 1 ≤ s.dist.length) :
    ∃ s' b, selectStep upd max s = some (s', b) ∧ (b = false → WF s' ∧ s'.dist.length + 1 = s.dist.length) := by
  obtain ⟨id, hid, hlt⟩ := argmaxFirst_lt s.dist hd
  have hc := hw.cover; have hin := hw.inside
  obtain ⟨d1, hd1, hd1l⟩ := swapAt_some s.dist id (s.dist.length - 1) hlt (by omega)
  obtain ⟨b1, hb1, hb1l⟩ := swapAt_some s.bl (s.good + id) (s.all - 1) (by omega) (by omega)
  obtain ⟨b2, hb2, hb2l⟩ := swapAt_some b1 s.good (s.all - 1) (by omega) (by omega)
  unfold selectStep
  simp only [hid, hd1, hb1, hb2]
  by_cases hm : s.good + 1 ≥ max
  · simp only [hm, if_true]
    exact ⟨_, true, rfl, fun h => by simp at h⟩
  · simp only [hm, if_false]
    have hall : ((List.range d1.dropLast.length).all (fun k => (b2[s.good + 1 - 1]?).isSome && (b2[s.good + 1 + k]?).isSome)) = true := by
      rw [List.all_eq_true]
      intro k hk
      rw [List.mem_range, List.length_dropLast] at hk
      have e1 : b2[s.good + 1 - 1]? = some (b2[s.good + 1 - 1]'(by omega)) := List.getElem?_eq_getElem (by omega)
      have e2 : b2[s.good + 1 + k]? = some (b2[s.good + 1 + k]'(by omega)) := List.getElem?_eq_getElem (by omega)
      rw [e1, e2]; rfl
    simp only [hall, if_true]
    refine ⟨_, false, rfl, fun _ => ⟨⟨?_, ?_⟩, ?_⟩⟩
    · simp [List.length_dropLast]; omega
    · simp; omega
    · simp [List.length_dropLast]; omega

/-- **selectLoop_total** — for ALL sizes: with `beliefsToAdd ≤ allBeliefsSize_ - goodBeliefsSize_` (what the source computes with
    `std::min` just before the loop) the whole selection loop performs no access outside `bl` or `distances` and never calls
    `max_element` on an empty range -/
theorem selectLoop_total (upd : St → Nat → Nat → Nat) (max : Nat) : ∀ (n : Nat) (s : St), WF s → n ≤ s.dist.length →
    ∃ s', selectLoop upd max n s = some s' := by
  intro n
  induction n with
  | zero => intro s _ _; exact ⟨s, rfl⟩
  | succ n ih =>
    intro s hw hn
    obtain ⟨s', b, hs, hb⟩ := selectStep_total upd max s hw (by omega)
    unfold selectLoop
    rw [hs]
    cases b with
    | true => exact ⟨s', rfl⟩
    | false =>
      obtain ⟨hw', hl⟩ := hb rfl
      exact ih s' hw' (by omega)

/-- more iterations than candidates would call `max_element` on an empty vector -/
theorem selectLoop_overrun_witness : selectLoop (fun _ _ v => v) 10 2 { bl := [7, 8], dist := [(3, 8)], good := 1, all := 2 } = none := by decide

/-- OBSERVATION (functional, outside C10): with three candidates the double swap rotates the candidates by one position while
    `distances` only loses its last slot — afterwards `distances[0]` (computed for belief 11) sits at the slot of belief 13 -/
theorem selection_misaligns_distances :
    let s0 : St := { bl := [10, 11, 12, 13], dist := [(5, 11), (9, 12), (1, 13)], good := 1, all := 4 }
    aligned s0 = true ∧
    (selectStep (fun _ _ v => v) 10 s0).map (fun r => (r.1.bl, r.1.dist, aligned r.1)) = some ([10, 12, 13, 11], [(5, 11), (1, 13)], false) := by
  decide

example : WF { bl := [10, 11, 12, 13], dist := [(5, 11), (9, 12), (1, 13)], good := 1, all := 4 } := ⟨rfl, by decide⟩

end AITB.BGCursor
