/-
  C02 (round 2) — unconditional IncrementalPruning schedule, full-strength RTBSS at the library's tolerance,
  Witness and LinearSupport agenda loops.

  Builds on `AITB.Props.C02`; the merge-schedule invariant for EVERY number of observations is C04's
  `AITB.Plan.mergeSchedule_covers` (AITB.Props.C04d), reused here on value lists.
-/
import AITB.Props.C02
import AITB.Props.C04d

namespace AITB.POMDP
open AITB.MDP (sumTo maxTo argmaxTo Vec Vec.get mkVec absR sumTo_eq sumTo_congr sumTo_le sumTo_add sumTo_mul_left mkVec_get maxTo_ge maxTo_attained maxTo_congr)

/-! ## (1) IncrementalPruning's merge schedule as written, for EVERY number of observations -/

/-- **ipActionM_spec**: the per-action merge run on C04's literal copy of the schedule (`AITB.Plan.mergeSchedule`, whose constants are
    regenerated from IncrementalPruning.hpp) has the envelope Σ_o env(P o) at every belief — for every O ≥ 1, no side condition. -/
theorem ipActionM_spec (n : Nat) (prune : List Vec → List Vec) (hp : EnvPreserving n prune) (O : Nat) (hO : 1 ≤ O)
    (P : Nat → List Vec) (hP : ∀ o, P o ≠ []) :
    ipActionM n prune O P ≠ [] ∧ ∀ b, NonNeg n b → env n (ipActionM n prune O P) b = sumTo O (fun o => env n (P o) b) := by
  let I : Nat → Nat → List Vec → Prop := fun lo hi l =>
    l ≠ [] ∧ ∀ b, NonNeg n b → env n l b + sumTo lo (fun o => env n (P o) b) = sumTo hi (fun o => env n (P o) b)
  have hmerge : ∀ lo mid hi x y, I lo mid x → I mid hi y → I lo hi (prune (crossSum n x y)) ∧ I lo hi (prune (crossSum n y x)) := by
    intro lo mid hi x y hx hy
    have c1 := crossSum_ne_nil n x y hx.1 hy.1
    have c2 := crossSum_ne_nil n y x hy.1 hx.1
    refine ⟨⟨(hp _ c1).1, ?_⟩, ⟨(hp _ c2).1, ?_⟩⟩
    · intro b hb
      rw [(hp _ c1).2 b hb, envelope_crossSum n x y b hx.1 hy.1]
      have := hx.2 b hb; have := hy.2 b hb; linarith
    · intro b hb
      rw [(hp _ c2).2 b hb, envelope_crossSum n y x b hy.1 hx.1]
      have := hx.2 b hb; have := hy.2 b hb; linarith
  have hlen : ((List.range O).map (fun o => prune (P o))).length = O := by simp
  have h := AITB.Plan.mergeSchedule_covers (fun x y _ => prune (crossSum n x y)) I
    (fun lo mid hi x y hx hy => (hmerge lo mid hi x y hx hy).1)
    (fun lo mid hi x y hx hy => (hmerge lo mid hi y x hy hx).2)
    ((List.range O).map (fun o => prune (P o))) (by rw [hlen]; exact hO)
    (by
      intro o ho
      rw [hlen] at ho
      have e : ((List.range O).map (fun o => prune (P o))).getD o default = prune (P o) := by
        rw [List.getD_eq_getElem?_getD]; simp [ho]
      rw [e]
      refine ⟨(hp _ (hP o)).1, ?_⟩
      intro b hb
      rw [(hp _ (hP o)).2 b hb]
      simp only [sumTo]; ring)
  rw [hlen] at h
  refine ⟨h.1, ?_⟩
  intro b hb
  have := h.2 b hb
  simp only [sumTo] at this
  unfold ipActionM
  linarith

theorem ipStepM_spec (m : Model) (hv : Valid m) (τ : Rat) (hsep : Sep m τ) (hγ : 0 ≤ m.γ)
    (prune : List Vec → List Vec) (hp : EnvPreserving m.S prune) (Γ : List Vec) (hΓ : Γ ≠ []) :
    ipStepM m τ prune Γ ≠ [] ∧
    ∀ b, NonNeg m.S b → env m.S (ipStepM m τ prune Γ) b = maxTo (m.A - 1) (qOf m (env m.S Γ) b) := by
  have hG : ∀ a, ipActionM m.S prune m.O (projList m τ Γ a) ≠ [] :=
    fun a => (ipActionM_spec m.S prune hp m.O hv.hO _ (fun o => projList_ne_nil m τ Γ a o hΓ)).1
  have hU : unionTo m.A (fun a => ipActionM m.S prune m.O (projList m τ Γ a)) ≠ [] := by
    obtain ⟨k, hk⟩ : ∃ k, m.A = k + 1 := ⟨m.A - 1, by have := hv.hA; omega⟩
    rw [hk]; exact unionTo_ne_nil k _ (hG k)
  refine ⟨(hp _ hU).1, ?_⟩
  intro b hb
  unfold ipStepM
  rw [(hp _ hU).2 b hb]
  exact env_step_general m hv τ hsep hγ Γ hΓ _ hG b hb
    (fun a _ => (ipActionM_spec m.S prune hp m.O hv.hO _ (fun o => projList_ne_nil m τ Γ a o hΓ)).2 b hb)

/-- **incremental_pruning_as_written_exact_all** — UNCONDITIONAL form of `incremental_pruning_as_written_exact`: with the merge schedule as
    written, any envelope-preserving pruner, every POMDP (any number of observations), every horizon and belief, the list
    IncrementalPruning holds has the expectimax value as its envelope. -/
theorem incremental_pruning_as_written_exact_all (m : Model) (hv : Valid m) (τ : Rat) (hsep : Sep m τ) (hγ : 0 ≤ m.γ)
    (prune : List Vec → List Vec) (hp : EnvPreserving m.S prune) :
    ∀ (h : Nat), ipIterM m τ prune h ≠ [] ∧ ∀ b, NonNeg m.S b → env m.S (ipIterM m τ prune h) b = expectimax m h b := by
  intro h
  induction h with
  | zero =>
    refine ⟨by simp [ipIterM], ?_⟩
    intro b _; simp [ipIterM, expectimax, env, lmax, dot_vzero]
  | succ h ih =>
    obtain ⟨ne, e⟩ := ih
    have sp := ipStepM_spec m hv τ hsep hγ prune hp _ ne
    refine ⟨sp.1, ?_⟩
    intro b hb
    simp only [ipIterM, expectimax]
    rw [sp.2 b hb]
    apply maxTo_congr
    intro a ha
    exact qOf_congr m hv _ _ e b hb (by have := hv.hA; omega)


/-! ## (4) RTBSS, repaired form, at the LIBRARY's tolerance and for any sign of `maxR`

  `rtbss_general` needs `τ = 0` when `maxR < 0`: with a positive tolerance an observation of probability in (0, τ] is skipped and the
  (negative) bound on the tail no longer bounds the truncated sum.  `skipFreeB m τ h b` says that this never happens in the tree
  below `b` — a decidable condition the driver evaluates on every instance.  Under it the truncated recursion IS the property's
  definition and the repaired RTBSS returns it, whatever the sign of `maxR`. -/

/-- beliefs the recursion visits: in the simplex and skip-free for the remaining horizon -/
def GoodB (m : Model) (τ : Rat) (h : Nat) (b : Vec) : Prop := Simplex m.S b ∧ skipFreeB m τ h b = true

theorem goodB_succ (m : Model) (hv : Valid m) (τ : Rat) (hτ : 0 ≤ τ) (h : Nat) (b : Vec) (hg : GoodB m τ (h+1) b)
    {a o : Nat} (ha : a < m.A) (ho : o < m.O) :
    (absR (vsum m.S (updU m b a o)) ≤ τ → vsum m.S (updU m b a o) = 0) ∧
    (¬ absR (vsum m.S (updU m b a o)) ≤ τ → GoodB m τ h (vdiv m.S (updU m b a o) (vsum m.S (updU m b a o)))) := by
  obtain ⟨hs, hf⟩ := hg
  have hu := updU_nonneg m hv b hs.1 ha ho
  simp only [skipFreeB, allLt, List.all_eq_true, List.mem_range] at hf
  have := hf a ha o ho
  simp only [Bool.or_eq_true, Bool.and_eq_true, decide_eq_true_eq] at this
  constructor
  · intro hle
    rcases this with h0 | ⟨hlt, _⟩
    · exact h0
    · exact absurd hle (not_le.mpr hlt)
  · intro hnle
    rcases this with h0 | ⟨_, hrec⟩
    · exfalso; apply hnle; rw [h0]; simpa [absR] using hτ
    · have hp : vsum m.S (updU m b a o) ≠ 0 := by
        intro h0; apply hnle; rw [h0]; simpa [absR] using hτ
      exact ⟨vdiv_simplex _ _ hu hp, hrec⟩

theorem rtFuture_congr_good (m : Model) (hv : Valid m) (τ : Rat) (hτ : 0 ≤ τ) (h : Nat) (V V' : Vec → Rat)
    (hVV : ∀ b', GoodB m τ h b' → V b' = V' b') (b : Vec) (hg : GoodB m τ (h+1) b) {a : Nat} (ha : a < m.A) :
    rtFuture m τ V b a = rtFuture m τ V' b a := by
  unfold rtFuture
  apply sumTo_congr; intro o ho
  simp only []
  split
  · rfl
  · rename_i hne
    rw [hVV _ ((goodB_succ m hv τ hτ h b hg ha ho).2 hne)]

/-- on skip-free beliefs the future term is at most `γ·B` for a bound `B` of ANY sign -/
theorem rtFuture_le_good (m : Model) (hv : Valid m) (τ : Rat) (hτ : 0 ≤ τ) (hγ : 0 ≤ m.γ) (h : Nat) (V : Vec → Rat) (B : Rat)
    (hV : ∀ b', GoodB m τ h b' → V b' ≤ B) (b : Vec) (hg : GoodB m τ (h+1) b) {a : Nat} (ha : a < m.A) :
    rtFuture m τ V b a ≤ m.γ * B := by
  have hb := hg.1
  have hterm : sumTo m.O (fun o =>
        if absR (vsum m.S (updU m b a o)) ≤ τ then 0
        else m.γ * vsum m.S (updU m b a o) * V (vdiv m.S (updU m b a o) (vsum m.S (updU m b a o))))
      ≤ sumTo m.O (fun o => m.γ * B * vsum m.S (updU m b a o)) := by
    apply sumTo_le; intro o ho
    have hu := updU_nonneg m hv b hb.1 ha ho
    have hp0 := vsum_nonneg _ _ hu
    have hs := goodB_succ m hv τ hτ h b hg ha ho
    split
    · rename_i hskip
      rw [hs.1 hskip]; simp
    · rename_i hne
      have := hV _ (hs.2 hne)
      have h2 : 0 ≤ m.γ * vsum m.S (updU m b a o) := mul_nonneg hγ hp0
      calc m.γ * vsum m.S (updU m b a o) * V _ ≤ m.γ * vsum m.S (updU m b a o) * B := mul_le_mul_of_nonneg_left this h2
        _ = m.γ * B * vsum m.S (updU m b a o) := by ring
  have : rtFuture m τ V b a ≤ sumTo m.O (fun o => m.γ * B * vsum m.S (updU m b a o)) := hterm
  rw [sumTo_mul_left, obs_prob_sum m hv b ha, hb.2, mul_one] at this
  exact this

/-- the truncated expectimax is at most Σ_{t<h} γ^t·maxR on skip-free beliefs — any sign of maxR, any τ ≥ 0 -/
theorem expectimaxT_le_rtB_good (m : Model) (hv : Valid m) (τ : Rat) (hτ : 0 ≤ τ) (hγ0 : 0 ≤ m.γ)
    (maxR : Rat) (hR : RBound m maxR) :
    ∀ (h : Nat) (b : Vec), GoodB m τ h b → expectimaxT m τ h b ≤ rtB m maxR h := by
  intro h
  induction h with
  | zero => intro b _; simp [expectimaxT, rtB]
  | succ h ih =>
    intro b hg
    simp only [expectimaxT, rtB]
    obtain ⟨a, ha, e⟩ := maxTo_attained (m.A - 1) (qOfT m τ (expectimaxT m τ h) b)
    have haA : a < m.A := by have := hv.hA; omega
    rw [e, qOfT_eq]
    have h1 := expReward_le m maxR hR b hg.1 haA
    have h2 := rtFuture_le_good m hv τ hτ hγ0 h _ _ ih b hg haA
    linarith

/-- on skip-free beliefs the truncated recursion is the property's own definition -/
theorem expectimaxT_eq_good (m : Model) (hv : Valid m) (τ : Rat) (hτ : 0 ≤ τ) :
    ∀ (h : Nat) (b : Vec), GoodB m τ h b → expectimaxT m τ h b = expectimax m h b := by
  intro h
  induction h with
  | zero => intro b _; rfl
  | succ h ih =>
    intro b hg
    simp only [expectimaxT, expectimax]
    apply maxTo_congr
    intro a ha
    have haA : a < m.A := by have := hv.hA; omega
    rw [qOf_eq, qOfT]
    congr 1
    rw [← sumTo_mul_left]
    apply sumTo_congr; intro o ho
    have hs := goodB_succ m hv τ hτ h b hg haA ho
    unfold obsTerm
    simp only []
    by_cases hskip : absR (vsum m.S (updU m b a o)) ≤ τ
    · rw [if_pos hskip, if_pos (hs.1 hskip)]; ring
    · have hp : vsum m.S (updU m b a o) ≠ 0 := by
        intro h0; apply hskip; rw [h0]; simpa [absR] using hτ
      rw [if_neg hskip, if_neg hp, ih _ (hs.2 hskip)]; ring

theorem rtUpperC_fixed (m : Model) (maxR : Rat) (h : Nat) : rtUpperC ⟨true, true⟩ m maxR h = m.γ * rtB m maxR h := by
  unfold rtUpperC
  simp only [if_true]
  rw [rtGeoLoop_eq]

theorem rtSimC_fixed_eq (m : Model) (hv : Valid m) (τ : Rat) (hτ : 0 ≤ τ) (hγ0 : 0 ≤ m.γ) (maxR : Rat) (hR : RBound m maxR) :
    ∀ (h : Nat) (b : Vec), GoodB m τ h b → rtSimC ⟨true, true⟩ m τ maxR h b = expectimaxT m τ h b := by
  intro h
  induction h with
  | zero => intro b _; rfl
  | succ h ih =>
    intro b hg
    obtain ⟨k, hk⟩ : ∃ k, m.A = k + 1 := ⟨m.A - 1, by have := hv.hA; omega⟩
    have hfut : ∀ a, a ≤ k → rtFuture m τ (rtSimC ⟨true, true⟩ m τ maxR h) b a ≤ rtUpperC ⟨true, true⟩ m maxR h := by
      intro a ha
      have haA : a < m.A := by omega
      rw [rtFuture_congr_good m hv τ hτ h _ _ ih b hg haA, rtUpperC_fixed]
      exact rtFuture_le_good m hv τ hτ hγ0 h _ _ (expectimaxT_le_rtB_good m hv τ hτ hγ0 maxR hR h) b hg haA
    have sp := rtLoopC_spec ⟨true, true⟩ m τ maxR (rtSimC ⟨true, true⟩ m τ maxR h) h b (by intro hc; cases hc) k hfut
    simp only [rtSimC, expectimaxT]
    rw [hk, sp]
    simp only [Option.getD_some]
    have : k + 1 - 1 = k := by omega
    rw [this]
    apply maxTo_congr
    intro a ha
    rw [qOfT_eq, qOfT_eq, rtFuture_congr_good m hv τ hτ h _ _ ih b hg (by omega)]

/-- **rtbss_full** — the RTBSS clause at FULL strength for the repaired code (geometric bound, comparison inside the pruning test),
    at any tolerance τ ≥ 0 (in particular the library's 1e-6): for every POMDP, every `maxR` that bounds the rewards (ANY sign),
    every horizon ≥ 1 and every belief whose lookahead tree is skip-free, `sampleAction` returns the property's `expectimax` value
    and the FIRST action whose one-step lookahead attains it. -/
theorem rtbss_full (m : Model) (hv : Valid m) (τ : Rat) (hτ : 0 ≤ τ) (hγ0 : 0 ≤ m.γ)
    (maxR : Rat) (hR : RBound m maxR) (h : Nat) (b : Vec) (hb : Simplex m.S b) (hsf : skipFreeB m τ (h+1) b = true) :
    (rtSampleC ⟨true, true⟩ m τ maxR (h+1) b).2 = expectimax m (h+1) b ∧
    (rtSampleC ⟨true, true⟩ m τ maxR (h+1) b).1 < m.A ∧
    qOf m (expectimax m h) b (rtSampleC ⟨true, true⟩ m τ maxR (h+1) b).1 = expectimax m (h+1) b ∧
    (∀ a, a < (rtSampleC ⟨true, true⟩ m τ maxR (h+1) b).1 → qOf m (expectimax m h) b a < expectimax m (h+1) b) := by
  have hg : GoodB m τ (h+1) b := ⟨hb, hsf⟩
  obtain ⟨k, hk⟩ : ∃ k, m.A = k + 1 := ⟨m.A - 1, by have := hv.hA; omega⟩
  have ih := rtSimC_fixed_eq m hv τ hτ hγ0 maxR hR h
  have hfut : ∀ a, a ≤ k → rtFuture m τ (rtSimC ⟨true, true⟩ m τ maxR h) b a ≤ rtUpperC ⟨true, true⟩ m maxR h := by
    intro a ha
    have haA : a < m.A := by omega
    rw [rtFuture_congr_good m hv τ hτ h _ _ ih b hg haA, rtUpperC_fixed]
    exact rtFuture_le_good m hv τ hτ hγ0 h _ _ (expectimaxT_le_rtB_good m hv τ hτ hγ0 maxR hR h) b hg haA
  have sp := rtLoopC_spec ⟨true, true⟩ m τ maxR (rtSimC ⟨true, true⟩ m τ maxR h) h b (by intro hc; cases hc) k hfut
  -- the one-step lookahead over the truncated recursion is the one over the property's definition
  have hq : ∀ a, a ≤ k → qOfT m τ (rtSimC ⟨true, true⟩ m τ maxR h) b a = qOf m (expectimax m h) b a := by
    intro a ha
    have haA : a < m.A := by omega
    rw [qOfT_eq, rtFuture_congr_good m hv τ hτ h _ _ ih b hg haA, ← qOfT_eq]
    -- qOfT over expectimaxT = qOf over expectimax on a skip-free belief
    rw [qOf_eq, qOfT]
    congr 1
    rw [← sumTo_mul_left]
    apply sumTo_congr; intro o ho
    have hs := goodB_succ m hv τ hτ h b hg haA ho
    unfold obsTerm
    simp only []
    by_cases hskip : absR (vsum m.S (updU m b a o)) ≤ τ
    · rw [if_pos hskip, if_pos (hs.1 hskip)]; ring
    · have hp : vsum m.S (updU m b a o) ≠ 0 := by
        intro h0; apply hskip; rw [h0]; simpa [absR] using hτ
      rw [if_neg hskip, if_neg hp, expectimaxT_eq_good m hv τ hτ h _ (hs.2 hskip)]; ring
  have hk1 : m.A - 1 = k := by omega
  have e1 : (rtSampleC ⟨true, true⟩ m τ maxR (h+1) b) = (argmaxTo k (qOf m (expectimax m h) b), maxTo k (qOf m (expectimax m h) b)) := by
    simp only [rtSampleC]
    rw [hk, sp]
    simp only [Option.getD_some]
    rw [AITB.MDP.argmaxTo_congr hq, maxTo_congr hq]
  rw [e1]
  simp only [expectimax, hk1]
  refine ⟨trivial, ?_, ?_, ?_⟩
  · have := AITB.MDP.argmaxTo_le k (qOf m (expectimax m h) b); omega
  · exact (AITB.MDP.maxTo_eq_argmax k _).symm
  · intro a ha
    rw [AITB.MDP.maxTo_eq_argmax k]
    exact AITB.MDP.argmaxTo_first k _ a ha

/-- **rtbss_as_extracted_full** — obligation over the flags regenerated from RTBSS.hpp: the code as it is NOW has both repairs, hence the
    full-strength statement applies to the model the driver runs (`rtCfgNow`), at the library's own tolerance. -/
theorem rtbss_as_extracted_full
    (m : Model) (hv : Valid m) (hγ0 : 0 ≤ m.γ) (maxR : Rat) (hR : RBound m maxR) (h : Nat) (b : Vec) (hb : Simplex m.S b)
    (hsf : skipFreeB m AITB.Gen.equalToleranceSmall (h+1) b = true) :
    rtCfgNow = ⟨true, true⟩ ∧
    (rtSampleC rtCfgNow m AITB.Gen.equalToleranceSmall maxR (h+1) b).2 = expectimax m (h+1) b ∧
    qOf m (expectimax m h) b (rtSampleC rtCfgNow m AITB.Gen.equalToleranceSmall maxR (h+1) b).1 = expectimax m (h+1) b := by
  have hc : rtCfgNow = ⟨true, true⟩ := by decide
  refine ⟨hc, ?_⟩
  rw [hc]
  have hτ : (0 : Rat) ≤ AITB.Gen.equalToleranceSmall := by norm_num [AITB.Gen.equalToleranceSmall]
  obtain ⟨h1, _, h3, _⟩ := rtbss_full m hv _ hτ hγ0 maxR hR h b hb hsf
  exact ⟨h1, h3⟩


/-! ## (3) Witness: the agenda loop, on top of `witness_complete`

  `wLoop` replays `while ( !agenda_.empty() )` for one action with the LP as an oracle.  Hypotheses on the two unmodelled pieces:
  * `horacle` — `findWitness` is a COMPLETE search: it answers "no witness" only when U is non-empty and the candidate is nowhere on
    the simplex strictly above U (its soundness — the returned point really is a witness — is not needed for this theorem);
  * `hbest`   — `crossSumBestAtBelief` returns in-range projection indices (its optimality is `bestBackupAt_value`; not needed here).
  Conclusion: whenever the loop has emptied the agenda, U has the envelope of the whole cross-sum at EVERY belief. -/

def ValidChoice (k : Nat) (P : Nat → List Vec) (c : Choice) : Prop := c.length = k ∧ ∀ o, o < k → c.getD o 0 < (P o).length

/-- "no witness": U is non-empty and the candidate is nowhere (on the simplex) strictly above U -/
def NoWit (n k : Nat) (P : Nat → List Vec) (U : List Choice) (t : Choice) : Prop :=
  U ≠ [] ∧ ∀ b, Simplex n b → dot n b (choiceSum n k P t) ≤ env n (U.map (choiceSum n k P)) b

theorem noWit_mono (n k : Nat) (P : Nat → List Vec) (U : List Choice) (u t : Choice) (h : NoWit n k P U t) :
    NoWit n k P (U ++ [u]) t := by
  refine ⟨by simp, ?_⟩
  intro b hb
  refine le_trans (h.2 b hb) (env_mono _ _ _ b (by simpa using h.1) ?_)
  intro α hα
  rw [List.map_append]; exact List.mem_append_left _ hα

theorem addVars_spec (vs : List Choice) : ∀ (ag tr : List Choice),
    (∀ t ∈ ag, t ∈ (addVars vs ag tr).1) ∧ (∀ t ∈ tr, t ∈ (addVars vs ag tr).2) ∧
    (∀ v ∈ vs, v ∈ (addVars vs ag tr).2) ∧
    (∀ t ∈ (addVars vs ag tr).2, t ∈ tr ∨ t ∈ (addVars vs ag tr).1) := by
  induction vs with
  | nil => intro ag tr; simp only [addVars, List.foldl_nil]; exact ⟨fun _ h => h, fun _ h => h, by simp, fun _ h => Or.inl h⟩
  | cons v vs ih =>
    intro ag tr
    have e : addVars (v :: vs) ag tr = addVars vs (if v ∈ tr then (ag, tr) else (v :: ag, v :: tr)).1 (if v ∈ tr then (ag, tr) else (v :: ag, v :: tr)).2 := by
      simp only [addVars, List.foldl_cons]
    rw [e]
    by_cases hv : v ∈ tr
    · simp only [hv, if_true]
      obtain ⟨h1, h2, h3, h4⟩ := ih ag tr
      refine ⟨h1, h2, ?_, h4⟩
      intro x hx
      rcases List.mem_cons.mp hx with rfl | hx
      · exact h2 _ hv
      · exact h3 x hx
    · simp only [hv, if_false]
      obtain ⟨h1, h2, h3, h4⟩ := ih (v :: ag) (v :: tr)
      refine ⟨fun t ht => h1 t (List.mem_cons_of_mem _ ht), fun t ht => h2 t (List.mem_cons_of_mem _ ht), ?_, ?_⟩
      · intro x hx
        rcases List.mem_cons.mp hx with rfl | hx
        · exact h2 _ List.mem_cons_self
        · exact h3 x hx
      · intro t ht
        rcases h4 t ht with h | h
        · rcases List.mem_cons.mp h with rfl | h
          · exact Or.inr (h1 _ List.mem_cons_self)
          · exact Or.inl h
        · exact Or.inr h

/-- loop invariant -/
structure WInv (n k : Nat) (P : Nat → List Vec) (st : WState) : Prop where
  valid : ∀ c ∈ st.U, ValidChoice k P c
  vars : ∀ c ∈ st.U, ∀ v ∈ allVars k P c, v ∈ st.tried
  tried : ∀ t ∈ st.tried, t ∈ st.agenda ∨ NoWit n k P st.U t
  some : ∃ t, t ∈ st.tried

theorem wInv_init (n k : Nat) (P : Nat → List Vec) : WInv n k P (wInit k) := by
  refine ⟨by simp [wInit], by simp [wInit], ?_, ⟨List.replicate k 0, by simp [wInit]⟩⟩
  intro t ht; left; simpa [wInit] using ht

theorem wInv_step (n k : Nat) (P : Nat → List Vec) (oracle : List Vec → Vec → Option Vec) (best : Vec → Choice)
    (horacle : ∀ (U : List Choice) (v : Choice), oracle (U.map (choiceSum n k P)) (choiceSum n k P v) = none → NoWit n k P U v)
    (hbest : ∀ w, ValidChoice k P (best w)) (st : WState) (h : WInv n k P st) :
    WInv n k P (wStep n k P oracle best st) := by
  unfold wStep
  cases hag : st.agenda with
  | nil => simpa [hag] using h
  | cons v rest =>
    simp only []
    cases hor : oracle (st.U.map (choiceSum n k P)) (choiceSum n k P v) with
    | none =>
      simp only []
      refine ⟨h.valid, h.vars, ?_, h.some⟩
      intro t ht
      rcases h.tried t ht with hin | hnw
      · rw [hag] at hin
        rcases List.mem_cons.mp hin with rfl | hin
        · exact Or.inr (horacle st.U _ hor)
        · exact Or.inl hin
      · exact Or.inr hnw
    | some w =>
      simp only []
      obtain ⟨a1, a2, a3, a4⟩ := addVars_spec (allVars k P (best w)) (v :: rest) st.tried
      obtain ⟨t0, ht0⟩ := h.some
      refine ⟨?_, ?_, ?_, ⟨t0, a2 t0 ht0⟩⟩
      · intro c hc
        rcases List.mem_append.mp hc with hc | hc
        · exact h.valid c hc
        · simp at hc; subst hc; exact hbest w
      · intro c hc x hx
        rcases List.mem_append.mp hc with hc | hc
        · exact a2 _ (h.vars c hc x hx)
        · simp at hc; subst hc; exact a3 x hx
      · intro t ht
        rcases a4 t ht with hold | hnew
        · rcases h.tried t hold with hin | hnw
          · rw [hag] at hin; exact Or.inl (a1 t hin)
          · exact Or.inr (noWit_mono n k P st.U (best w) t hnw)
        · exact Or.inl hnew

theorem wInv_loop (n k : Nat) (P : Nat → List Vec) (oracle : List Vec → Vec → Option Vec) (best : Vec → Choice)
    (horacle : ∀ (U : List Choice) (v : Choice), oracle (U.map (choiceSum n k P)) (choiceSum n k P v) = none → NoWit n k P U v)
    (hbest : ∀ w, ValidChoice k P (best w)) :
    ∀ (fuel : Nat) (st : WState), WInv n k P st → WInv n k P (wLoop n k P oracle best fuel st) := by
  intro fuel
  induction fuel with
  | zero => intro st h; exact h
  | succ f ih => intro st h; exact ih _ (wInv_step n k P oracle best horacle hbest st h)

theorem mem_allVars (k : Nat) (P : Nat → List Vec) (c : Choice) (o i : Nat) (ho : o < k) (hi : i < (P o).length)
    (hne : i ≠ c.getD o 0) : c.set o i ∈ allVars k P c := by
  unfold allVars
  refine List.mem_flatMap.mpr ⟨o, List.mem_range.mpr ho, List.mem_map.mpr ⟨i, ?_, rfl⟩⟩
  simp only [List.mem_filter, List.mem_range, bne_iff_ne, ne_eq]
  exact ⟨hi, hne⟩

theorem getD_set_choice (c : Choice) (o o' i : Nat) (ho : o < c.length) :
    (c.set o i).getD o' 0 = if o' = o then i else c.getD o' 0 := by
  by_cases h : o' = o
  · subst h; simp [List.getD_eq_getElem?_getD, ho]
  · simp [List.getD_eq_getElem?_getD, h, List.getElem?_set_ne (Ne.symm h)]

/-- **witness_loop_complete** — for every action's projections `P` (any sizes), any complete LP oracle and any in-range
    `crossSumBestAtBelief`: if `Witness`'s agenda loop has emptied its agenda (after any number of iterations), the set U it holds is
    non-empty and has the envelope of the full cross-sum at every belief. -/
theorem witness_loop_complete (n k : Nat) (P : Nat → List Vec) (hP : ∀ o, o < k → P o ≠ [])
    (oracle : List Vec → Vec → Option Vec) (best : Vec → Choice)
    (horacle : ∀ (U : List Choice) (v : Choice), oracle (U.map (choiceSum n k P)) (choiceSum n k P v) = none → NoWit n k P U v)
    (hbest : ∀ w, ValidChoice k P (best w))
    (fuel : Nat) (hdone : (wLoop n k P oracle best fuel (wInit k)).agenda = []) :
    (wLoop n k P oracle best fuel (wInit k)).U ≠ [] ∧
    ∀ b, Simplex n b →
      env n ((wLoop n k P oracle best fuel (wInit k)).U.map (choiceSum n k P)) b = env n (crossTo n k P) b := by
  have inv := wInv_loop n k P oracle best horacle hbest fuel (wInit k) (wInv_init n k P)
  generalize wLoop n k P oracle best fuel (wInit k) = st at inv hdone
  have hnw : ∀ t ∈ st.tried, NoWit n k P st.U t := by
    intro t ht
    rcases inv.tried t ht with hin | h
    · rw [hdone] at hin; simp at hin
    · exact h
  obtain ⟨t0, ht0⟩ := inv.some
  have hU : st.U ≠ [] := (hnw t0 ht0).1
  refine ⟨hU, ?_⟩
  intro b hb
  -- U as choice functions
  have hmap : st.U.map (choiceSum n k P) = (st.U.map (choiceVecAt n P)).map (sumVecTo n k) := by
    rw [List.map_map]; rfl
  rw [hmap]
  apply witness_complete n k P hP (st.U.map (choiceVecAt n P)) (by simpa using hU)
  · intro c hc o ho
    obtain ⟨u, hu, rfl⟩ := List.mem_map.mp hc
    unfold choiceVecAt
    have hv := (inv.valid u hu).2 o ho
    rw [List.getD_eq_getElem?_getD, List.getElem?_eq_getElem hv]
    simp
  · intro c hc o ho α hα
    obtain ⟨u, hu, rfl⟩ := List.mem_map.mp hc
    rw [← hmap]
    obtain ⟨i, hi, rfl⟩ := List.getElem_of_mem hα
    have hval := inv.valid u hu
    -- the varied vector is the value of the choice `u.set o i`
    have hsame : sumVecTo n k (updSlot (choiceVecAt n P u) o ((P o)[i])) = choiceSum n k P (u.set o i) ∨
        dot n b (sumVecTo n k (updSlot (choiceVecAt n P u) o ((P o)[i]))) = dot n b (choiceSum n k P (u.set o i)) := by
      right
      unfold choiceSum
      rw [dot_sumVecTo, dot_sumVecTo]
      apply sumTo_congr
      intro o' ho'
      unfold updSlot choiceVecAt
      rw [getD_set_choice u o o' i (by rw [hval.1]; exact ho)]
      by_cases h : o' = o
      · subst h
        simp only [if_true]
        rw [List.getD_eq_getElem?_getD, List.getElem?_eq_getElem hi]; simp
      · simp only [h, if_false]
    have hdot : dot n b (sumVecTo n k (updSlot (choiceVecAt n P u) o ((P o)[i]))) = dot n b (choiceSum n k P (u.set o i)) := by
      rcases hsame with h | h
      · rw [h]
      · exact h
    rw [hdot]
    by_cases hne : i = u.getD o 0
    · -- not a variation: the vector is u's own
      have : u.set o i = u := by
        subst hne
        apply List.ext_getElem (by simp)
        intro j h1 h2
        by_cases hj : j = o
        · subst hj; simp [List.getD_eq_getElem?_getD, List.getElem?_eq_getElem h2]
        · simp [List.getElem_set_ne (Ne.symm hj)]
      rw [this]
      exact env_ge _ _ _ _ (List.mem_map.mpr ⟨u, hu, rfl⟩)
    · exact (hnw _ (inv.vars u hu _ (mem_allVars k P u o i ho hi hne))).2 b hb


/-! ## (2) LinearSupport: Cheng's convexity argument, the agenda loop's invariants, and exactness under the stopping test

  What is PROVED: (a) convexity lemma `cheng_region` — on a region where one vector of the current set is maximal, ε-exactness at
  points propagates to all their convex combinations; (b) `linear_support_exact_of_cover` — if the examined points X cover the
  partition induced by the current set (every belief is a convex combination of points of X lying in one common region: that is what
  "X contains all vertices of the partition" provides), ε-exactness at X is ε-exactness on the whole simplex; (c) for the agenda
  loop as written with ANY vertex oracle: every support ever held is a genuine backup (`ls_sound`), and when the loop breaks every
  vertex of the last batch has passed the stopping test (`ls_break_tested`).
  What is ASSUMED (hypothesis `VertexCover`, not proved): that the vertex oracle (repaired `findVerticesNaive`, whose systems are
  characterised by `fvn_rows_sound`) together with the agenda bookkeeping really presents all vertices of the final partition —
  Minkowski's theorem for the regions plus the geometric claim behind the "obsolete vertex" removal. -/

theorem dot_combo (n : Nat) (L : List (Rat × Vec)) (α : Vec) :
    dot n (combo n L) α = (L.map (fun p => p.1 * dot n p.2 α)).sum := by
  unfold dot
  have e : sumTo n (fun s => (combo n L).get s * α.get s) = sumTo n (fun s => (L.map (fun p => p.1 * p.2.get s)).sum * α.get s) := by
    apply sumTo_congr; intro s hs; unfold combo; rw [mkVec_get _ hs]
  rw [e]
  clear e
  induction L with
  | nil => simp only [List.map_nil, List.sum_nil, zero_mul]; exact sumTo_zero n
  | cons p L ih =>
    simp only [List.map_cons, List.sum_cons]
    rw [← ih, ← sumTo_mul_left, ← sumTo_add]
    apply sumTo_congr; intro s _; ring

theorem dot_congr_left (n : Nat) (b b' α : Vec) (h : ∀ s, s < n → b.get s = b'.get s) : dot n b α = dot n b' α := by
  unfold dot; apply sumTo_congr; intro s hs; rw [h s hs]

theorem env_congr_left (n : Nat) (Γ : List Vec) (b b' : Vec) (h : ∀ s, s < n → b.get s = b'.get s) : env n Γ b = env n Γ b' := by
  unfold env
  congr 1
  apply List.map_congr_left
  intro α _; exact dot_congr_left n b b' α h

theorem wsum_le (L : List (Rat × Vec)) (f g : Vec → Rat) (h0 : ∀ p ∈ L, 0 ≤ p.1) (h : ∀ p ∈ L, f p.2 ≤ g p.2) :
    (L.map (fun p => p.1 * f p.2)).sum ≤ (L.map (fun p => p.1 * g p.2)).sum := by
  induction L with
  | nil => simp
  | cons p L ih =>
    simp only [List.map_cons, List.sum_cons]
    have := ih (fun q hq => h0 q (List.mem_cons_of_mem _ hq)) (fun q hq => h q (List.mem_cons_of_mem _ hq))
    have := mul_le_mul_of_nonneg_left (h p List.mem_cons_self) (h0 p List.mem_cons_self)
    linarith

/-- the upper envelope of a list is convex -/
theorem env_convex (n : Nat) (Γ : List Vec) (hΓ : Γ ≠ []) (L : List (Rat × Vec)) (h0 : ∀ p ∈ L, 0 ≤ p.1) :
    env n Γ (combo n L) ≤ (L.map (fun p => p.1 * env n Γ p.2)).sum := by
  obtain ⟨α, hα, e⟩ := env_attained n Γ (combo n L) hΓ
  rw [e, dot_combo]
  exact wsum_le L (fun x => dot n x α) (fun x => env n Γ x) h0 (fun p _ => env_ge n Γ p.2 α hα)

theorem wsum_add_const (L : List (Rat × Vec)) (f : Vec → Rat) (ε : Rat) :
    (L.map (fun p => p.1 * (f p.2 + ε))).sum = (L.map (fun p => p.1 * f p.2)).sum + (L.map (fun p => p.1)).sum * ε := by
  induction L with
  | nil => simp
  | cons p L ih => simp only [List.map_cons, List.sum_cons, ih]; ring

/-- **cheng_region** (the convexity lemma): let `α ∈ Γ` be maximal at every point `x_i` (they lie in α's region), and let the true surface
    `Γ'` exceed `Γ` by at most ε at every `x_i`.  Then it exceeds `Γ` by at most ε at every convex combination of the `x_i`. -/
theorem cheng_region (n : Nat) (Γ Γ' : List Vec) (hΓ' : Γ' ≠ []) (α : Vec) (hα : α ∈ Γ) (ε : Rat)
    (L : List (Rat × Vec)) (h0 : ∀ p ∈ L, 0 ≤ p.1) (h1 : (L.map (fun p => p.1)).sum = 1)
    (hreg : ∀ p ∈ L, dot n p.2 α = env n Γ p.2)
    (hex : ∀ p ∈ L, env n Γ' p.2 ≤ env n Γ p.2 + ε) :
    env n Γ' (combo n L) ≤ env n Γ (combo n L) + ε := by
  calc env n Γ' (combo n L) ≤ (L.map (fun p => p.1 * env n Γ' p.2)).sum := env_convex n Γ' hΓ' L h0
    _ ≤ (L.map (fun p => p.1 * (dot n p.2 α + ε))).sum :=
        wsum_le L (fun x => env n Γ' x) (fun x => dot n x α + ε) h0 (fun p hp => by rw [hreg p hp]; exact hex p hp)
    _ = dot n (combo n L) α + ε := by
        have := wsum_add_const L (fun x => dot n x α) ε
        rw [this, h1, one_mul, dot_combo]
    _ ≤ env n Γ (combo n L) + ε := by have := env_ge n Γ (combo n L) α hα; linarith

/-- the examined points `X` cover the partition induced by `Γ`: every belief is a convex combination of points of `X` that lie in one
    common region of `Γ` (what "X ⊇ vertices of the partition" gives, by Minkowski's theorem applied to the region containing the belief) -/
def VertexCover (n : Nat) (Γ : List Vec) (X : List Vec) : Prop :=
  ∀ b, Simplex n b → ∃ (α : Vec) (L : List (Rat × Vec)), α ∈ Γ ∧ (∀ p ∈ L, 0 ≤ p.1) ∧ (L.map (fun p => p.1)).sum = 1 ∧
    (∀ p ∈ L, p.2 ∈ X ∧ dot n p.2 α = env n Γ p.2) ∧ (∀ s, s < n → b.get s = (combo n L).get s)

/-- **linear_support_exact_of_cover** (Cheng's theorem, given the cover): if the current set `Γ` consists of vectors of the true set `Γ'`,
    and at every examined point the true surface is within ε of the current one (the stopping test), and the examined points cover the
    partition, then the current set is ε-exact at EVERY belief:  env Γ ≤ env Γ' ≤ env Γ + ε.  With ε = 0: exact. -/
theorem linear_support_exact_of_cover (n : Nat) (Γ Γ' : List Vec) (hΓ : Γ ≠ []) (hsub : ∀ α ∈ Γ, α ∈ Γ') (ε : Rat)
    (X : List Vec) (hX : ∀ x ∈ X, env n Γ' x ≤ env n Γ x + ε) (hcov : VertexCover n Γ X) :
    ∀ b, Simplex n b → env n Γ b ≤ env n Γ' b ∧ env n Γ' b ≤ env n Γ b + ε := by
  intro b hb
  have hΓ' : Γ' ≠ [] := by
    obtain ⟨α, hα⟩ := List.exists_mem_of_ne_nil Γ hΓ
    exact List.ne_nil_of_mem (hsub α hα)
  refine ⟨env_mono n Γ Γ' b hΓ hsub, ?_⟩
  obtain ⟨α, L, hα, h0, h1, hL, hbL⟩ := hcov b hb
  rw [env_congr_left n Γ' b _ hbL, env_congr_left n Γ b _ hbL]
  exact cheng_region n Γ Γ' hΓ' α hα ε L h0 h1 (fun p hp => (hL p hp).2) (fun p hp => hX p.2 (hL p hp).1)

/-! ### the agenda loop as written -/

theorem lsTop_mem : ∀ (l : List LSVertex) (t : LSVertex), lsTop l = some t → t ∈ l
  | [], t, h => by simp [lsTop] at h
  | [v], t, h => by simp [lsTop] at h; subst h; simp
  | v :: w :: r, t, h => by
    have ih := lsTop_mem (w :: r)
    simp only [lsTop] at h
    cases hrec : lsTop (w :: r) with
    | none => rw [hrec] at h; simp at h; subst h; exact List.mem_cons_self
    | some t' =>
      rw [hrec] at h
      simp only at h
      split at h
      · simp at h; subst h; exact List.mem_cons_self
      · simp at h; subst h; exact List.mem_cons_of_mem _ (ih t' hrec)

theorem lsTop_none : ∀ (l : List LSVertex), lsTop l = none → l = []
  | [], _ => rfl
  | [v], h => by simp [lsTop] at h
  | v :: w :: r, h => by
    simp only [lsTop] at h
    cases hrec : lsTop (w :: r) with
    | none => rw [hrec] at h; simp at h
    | some t' => rw [hrec] at h; simp only at h; split at h <;> simp at h

/-- what the `for` over the vertices guarantees -/
theorem lsScan_spec (m : Model) (sup : Vec → Vec) (acc : Rat → Bool) (good : List Vec) :
    ∀ (xs : List Vec) (ag : List LSVertex) (tr : List Vec),
      (∀ v ∈ ag, v ∈ (lsScan m sup acc good xs ag tr).1) ∧
      (∀ v ∈ (lsScan m sup acc good xs ag tr).1, v ∈ ag ∨ ∃ x, v.support = sup x) ∧
      (∀ x ∈ xs, tr.any (fun y => y == x) = true ∨ xs.any (fun y => y == x) = true ∧
          ((∃ v ∈ (lsScan m sup acc good xs ag tr).1, v.belief = x) ∨
           acc (dot m.S x (sup x) - env m.S good x) = false)) := by
  intro xs
  induction xs with
  | nil => intro ag tr; simp only [lsScan]; exact ⟨fun _ h => h, fun _ h => Or.inl h, by simp⟩
  | cons x xs ih =>
    intro ag tr
    by_cases ht : tr.any (fun y => y == x) = true
    · have e : lsScan m sup acc good (x :: xs) ag tr = lsScan m sup acc good xs ag tr := by
        simp only [lsScan, ht, if_true]
      rw [e]
      obtain ⟨h1, h2, h3⟩ := ih ag tr
      refine ⟨h1, h2, ?_⟩
      intro y hy
      rcases List.mem_cons.mp hy with rfl | hy
      · exact Or.inl ht
      · rcases h3 y hy with h | ⟨ha, h⟩
        · exact Or.inl h
        · exact Or.inr ⟨by simp only [List.any_cons, ha, Bool.or_true], h⟩
    · have e : lsScan m sup acc good (x :: xs) ag tr =
          lsScan m sup acc good xs
            (if acc (dot m.S x (sup x) - env m.S good x) then
              ag ++ [⟨x, sup x, env m.S good x, dot m.S x (sup x) - env m.S good x⟩] else ag)
            (x :: tr) := by
        simp only [lsScan, ht, Bool.false_eq_true, if_false]
      rw [e]
      obtain ⟨h1, h2, h3⟩ := ih (if acc (dot m.S x (sup x) - env m.S good x) then
              ag ++ [⟨x, sup x, env m.S good x, dot m.S x (sup x) - env m.S good x⟩] else ag) (x :: tr)
      refine ⟨?_, ?_, ?_⟩
      · intro v hv
        apply h1
        split
        · exact List.mem_append_left _ hv
        · exact hv
      · intro v hv
        rcases h2 v hv with h | h
        · split at h
          · rcases List.mem_append.mp h with h | h
            · exact Or.inl h
            · simp at h; subst h; exact Or.inr ⟨x, rfl⟩
          · exact Or.inl h
        · exact Or.inr h
      · intro y hy
        rcases List.mem_cons.mp hy with rfl | hy
        · right
          refine ⟨by simp, ?_⟩
          by_cases hacc : acc (dot m.S y (sup y) - env m.S good y) = true
          · left
            refine ⟨⟨y, sup y, env m.S good y, dot m.S y (sup y) - env m.S good y⟩, h1 _ ?_, rfl⟩
            rw [if_pos hacc]; simp
          · right; simpa using hacc
        · rcases h3 y hy with h | ⟨ha, h⟩
          · simp only [List.any_cons, Bool.or_eq_true] at h
            rcases h with h | h
            · -- y equals the head x (as vectors): it was handled at the head
              right
              have hyx : x = y := by simpa using h
              subst hyx
              refine ⟨by simp, ?_⟩
              by_cases hacc : acc (dot m.S x (sup x) - env m.S good x) = true
              · left
                refine ⟨⟨x, sup x, env m.S good x, dot m.S x (sup x) - env m.S good x⟩, h1 _ ?_, rfl⟩
                rw [if_pos hacc]; simp
              · right; simpa using hacc
            · exact Or.inl h
          · exact Or.inr ⟨by simp only [List.any_cons, ha, Bool.or_true], h⟩

/-- what the loop needs from `crossSumBestAtBelief`: a genuine backup, optimal at the point -/
def GoodSup (m : Model) (τ : Rat) (Γ : List Vec) (sup : Vec → Vec) : Prop :=
  ∀ x, sup x ∈ backupAll m τ Γ ∧ dot m.S x (sup x) = env m.S (backupAll m τ Γ) x

/-- invariant: everything held as a support is a genuine backup of Γ -/
def LSInv (m : Model) (τ : Rat) (Γ : List Vec) (st : LSState) : Prop :=
  (∀ g ∈ st.good, g ∈ backupAll m τ Γ) ∧ (∀ v ∈ st.agenda, v.support ∈ backupAll m τ Γ)

theorem lsCorners_sound (m : Model) (τ : Rat) (Γ : List Vec) (sup : Vec → Vec) (hsup : GoodSup m τ Γ sup) :
    ∀ s, ∀ g ∈ lsCorners m sup s, g ∈ backupAll m τ Γ
  | 0 => by simp [lsCorners]
  | s+1 => by
    intro g hg
    simp only [lsCorners] at hg
    split at hg
    · exact lsCorners_sound m τ Γ sup hsup s g hg
    · rcases List.mem_append.mp hg with h | h
      · exact lsCorners_sound m τ Γ sup hsup s g h
      · simp at h; subst h; exact (hsup _).1

theorem lsStep_inv (m : Model) (τ : Rat) (Γ : List Vec) (sup : Vec → Vec) (hsup : GoodSup m τ Γ sup) (acc : Rat → Bool)
    (oracle : Vec → List Vec → List Vec) (st st' : LSState) (h : LSInv m τ Γ st) (hs : lsStep m sup acc oracle st = some st') :
    LSInv m τ Γ st' := by
  unfold lsStep at hs
  simp only [] at hs
  have sp := lsScan_spec m sup acc st.good st.verts st.agenda st.tried
  have hag : ∀ v ∈ (lsScan m sup acc st.good st.verts st.agenda st.tried).1, v.support ∈ backupAll m τ Γ := by
    intro v hv
    rcases sp.2.1 v hv with h1 | ⟨x, hx⟩
    · exact h.2 v h1
    · rw [hx]; exact (hsup x).1
  cases htop : lsTop (lsScan m sup acc st.good st.verts st.agenda st.tried).1 with
  | none => rw [htop] at hs; simp at hs
  | some best =>
    rw [htop] at hs
    simp only [Option.some.injEq] at hs
    subst hs
    have hbest := hag best (lsTop_mem _ _ htop)
    refine ⟨?_, ?_⟩
    · intro g hg
      rcases List.mem_append.mp hg with hg | hg
      · exact h.1 g hg
      · simp at hg; subst hg; exact hbest
    · intro v hv
      exact hag v (List.mem_of_mem_filter (List.mem_of_mem_filter hv))

/-- **ls_sound** — for ANY vertex oracle, acceptance test and number of iterations: every vector LinearSupport holds is a genuine
    backup, so the set it returns is a lower bound of the exact backup at every belief (and exact at every belief it scanned and did not
    queue, see `ls_break_tested`). -/
theorem ls_sound (m : Model) (τ : Rat) (Γ : List Vec) (sup : Vec → Vec) (hsup : GoodSup m τ Γ sup) (acc : Rat → Bool)
    (oracle : Vec → List Vec → List Vec) :
    ∀ (fuel : Nat) (st : LSState), LSInv m τ Γ st → LSInv m τ Γ (lsLoop m sup acc oracle fuel st) := by
  intro fuel
  induction fuel with
  | zero => intro st h; exact h
  | succ f ih =>
    intro st h
    simp only [lsLoop]
    cases hs : lsStep m sup acc oracle st with
    | none => exact ⟨h.1, by simp⟩
    | some st' => exact ih st' (lsStep_inv m τ Γ sup hsup acc oracle st st' h hs)

/-- **ls_break_tested** — when the loop breaks (agenda empty after the scan), every vertex of the batch just examined was either examined
    before or fails the acceptance test against the current set; with `acc d = false → d ≤ ε` this is the ε-stopping test
    `env(backupAll Γ) x ≤ env good x + ε`. -/
theorem ls_break_tested (m : Model) (τ : Rat) (Γ : List Vec) (sup : Vec → Vec) (hsup : GoodSup m τ Γ sup) (acc : Rat → Bool) (ε : Rat)
    (hacc : ∀ d, acc d = false → d ≤ ε)
    (oracle : Vec → List Vec → List Vec) (st : LSState) (hs : lsStep m sup acc oracle st = none) :
    ∀ x ∈ st.verts, st.tried.any (fun y => y == x) = true ∨ env m.S (backupAll m τ Γ) x ≤ env m.S st.good x + ε := by
  unfold lsStep at hs
  simp only [] at hs
  have sp := lsScan_spec m sup acc st.good st.verts st.agenda st.tried
  cases htop : lsTop (lsScan m sup acc st.good st.verts st.agenda st.tried).1 with
  | some best => rw [htop] at hs; simp at hs
  | none =>
    have hemp := lsTop_none _ htop
    intro x hx
    rcases sp.2.2 x hx with h | ⟨_, h⟩
    · exact Or.inl h
    · right
      rcases h with ⟨v, hv, _⟩ | h
      · rw [hemp] at hv; simp at hv
      · have := hacc _ h
        rw [(hsup x).2] at this
        linarith



/-! ### `findBestAtPoint` with its `veccmp` tie-break: same membership and value facts, so the loop theorems apply to it -/

theorem bestAtV_fold (n : Nat) (b : Vec) : ∀ (r : List Vec) (x : Vec),
    (r.foldl (fun best y => if dot n b best < dot n b y || (decide (dot n b y = dot n b best) && vecGt n y best) then y else best) x) ∈ x :: r ∧
    ∀ α ∈ x :: r, dot n b α ≤ dot n b (r.foldl (fun best y => if dot n b best < dot n b y || (decide (dot n b y = dot n b best) && vecGt n y best) then y else best) x) := by
  intro r
  induction r with
  | nil => intro x; simp
  | cons y r ih =>
    intro x
    simp only [List.foldl_cons]
    have hx' : ∀ x' : Vec, x' = (if dot n b x < dot n b y || (decide (dot n b y = dot n b x) && vecGt n y x) then y else x) →
        (x' = x ∨ x' = y) ∧ dot n b x ≤ dot n b x' ∧ dot n b y ≤ dot n b x' := by
      intro x' hx'
      by_cases hc : (dot n b x < dot n b y || (decide (dot n b y = dot n b x) && vecGt n y x)) = true
      · rw [if_pos hc] at hx'
        subst hx'
        refine ⟨Or.inr rfl, ?_, le_refl _⟩
        simp only [Bool.or_eq_true, decide_eq_true_eq, Bool.and_eq_true] at hc
        rcases hc with h | ⟨h, _⟩
        · exact le_of_lt h
        · exact le_of_eq h.symm
      · rw [if_neg hc] at hx'
        subst hx'
        refine ⟨Or.inl rfl, le_refl _, ?_⟩
        simp only [Bool.or_eq_true, decide_eq_true_eq, Bool.and_eq_true, not_or] at hc
        exact not_lt.mp hc.1
    obtain ⟨hmem, hle⟩ := ih (if dot n b x < dot n b y || (decide (dot n b y = dot n b x) && vecGt n y x) then y else x)
    obtain ⟨hor, h1, h2⟩ := hx' _ rfl
    constructor
    · rcases List.mem_cons.mp hmem with h | h
      · rcases hor with e | e
        · rw [h, e]; exact List.mem_cons_self
        · rw [h, e]; exact List.mem_cons_of_mem _ List.mem_cons_self
      · exact List.mem_cons_of_mem _ (List.mem_cons_of_mem _ h)
    · intro α hα
      have hx0 := hle _ List.mem_cons_self
      rcases List.mem_cons.mp hα with rfl | hα
      · exact le_trans h1 hx0
      · rcases List.mem_cons.mp hα with rfl | hα
        · exact le_trans h2 hx0
        · exact hle α (List.mem_cons_of_mem _ hα)

theorem bestAtV_spec (n : Nat) (b : Vec) (l : List Vec) (hl : l ≠ []) :
    bestAtV n b l ∈ l ∧ dot n b (bestAtV n b l) = env n l b := by
  cases l with
  | nil => exact absurd rfl hl
  | cons x r =>
    obtain ⟨hm, hle⟩ := bestAtV_fold n b r x
    refine ⟨hm, (env_eq_of n (x :: r) b _ ⟨_, hm, rfl⟩ hle).symm⟩

theorem bestRowToV_mem (n : Nat) (b : Vec) (k : Nat) (P : Nat → List Vec) (hP : ∀ o, o < k → P o ≠ []) :
    bestRowToV n b k P ∈ crossTo n k P := by
  induction k with
  | zero => simp [bestRowToV, crossTo]
  | succ k ih =>
    simp only [bestRowToV, crossTo, crossSum]
    exact List.mem_flatMap.mpr ⟨_, ih (fun o ho => hP o (by omega)),
      List.mem_map.mpr ⟨_, (bestAtV_spec n b (P k) (hP k (by omega))).1, rfl⟩⟩

theorem bestRowToV_value (n : Nat) (b : Vec) (k : Nat) (P : Nat → List Vec) (hP : ∀ o, o < k → P o ≠ []) :
    dot n b (bestRowToV n b k P) = env n (crossTo n k P) b := by
  rw [env_crossTo n k P b hP]
  induction k with
  | zero => simp [bestRowToV, sumTo, dot_vzero]
  | succ k ih =>
    simp only [bestRowToV, sumTo]
    rw [dot_vadd, ih (fun o ho => hP o (by omega)), (bestAtV_spec n b (P k) (hP k (by omega))).2]

/-- both forms of `crossSumBestAtBelief` (first-best, and with `findBestAtPoint`'s `veccmp` tie-break) satisfy what the loop needs -/
theorem goodSup_bestBackupAt (m : Model) (hA : 0 < m.A) (τ : Rat) (Γ : List Vec) (hΓ : Γ ≠ []) :
    GoodSup m τ Γ (bestBackupAt m τ Γ) :=
  fun x => ⟨bestBackupAt_mem m hA τ Γ hΓ x, bestBackupAt_value m hA τ Γ hΓ x⟩

theorem goodSup_bestBackupAtV (m : Model) (hA : 0 < m.A) (τ : Rat) (Γ : List Vec) (hΓ : Γ ≠ []) :
    GoodSup m τ Γ (bestBackupAtV m τ Γ) := by
  intro b
  obtain ⟨k, hk⟩ : ∃ k, m.A = k + 1 := ⟨m.A - 1, by omega⟩
  have hk1 : m.A - 1 = k := by omega
  have hval : ∀ a, dot m.S b (bestRowToV m.S b m.O (projList m τ Γ a)) = env m.S (backupA m τ Γ a) b :=
    fun a => bestRowToV_value m.S b m.O _ (fun o _ => projList_ne_nil m τ Γ a o hΓ)
  constructor
  · unfold bestBackupAtV backupAll
    simp only []
    apply mem_unionTo m.A _ (argmaxTo (m.A - 1) (fun a => dot m.S b (bestRowToV m.S b m.O (projList m τ Γ a))))
    · have := AITB.MDP.argmaxTo_le (m.A - 1) (fun a => dot m.S b (bestRowToV m.S b m.O (projList m τ Γ a))); omega
    · exact bestRowToV_mem m.S b m.O _ (fun o _ => projList_ne_nil m τ Γ _ o hΓ)
  · unfold bestBackupAtV backupAll
    simp only []
    rw [hk1, hk, env_unionTo m.S k _ b (fun a _ => backupA_ne_nil m τ Γ hΓ a), hval, AITB.MDP.maxTo_eq_argmax k]
    have : (fun a => env m.S (backupA m τ Γ a) b) = (fun a => dot m.S b (bestRowToV m.S b m.O (projList m τ Γ a))) := by
      funext a; exact (hval a).symm
    rw [this]

/-! ## the new hypotheses are satisfiable -/

/-- test on literals: the example model's 2-step lookahead tree from (1/4, 3/4) is skip-free at the library tolerance, and the repaired
    RTBSS with the (valid) bound maxR = 1 returns the expectimax value there -/
example : skipFreeB exM AITB.Gen.equalToleranceSmall 2 #[1/4, 3/4] = true ∧
    (rtSampleC ⟨true, true⟩ exM AITB.Gen.equalToleranceSmall 1 2 #[1/4, 3/4]).2 = expectimax exM 2 #[1/4, 3/4] := by
  constructor <;> decide +kernel

/-- test on literals: the repaired RTBSS on the all-negative counterexample of round 1, at the library tolerance -/
example : skipFreeB cxNeg AITB.Gen.equalToleranceSmall 3 #[1] = true ∧
    rtSampleC ⟨true, true⟩ cxNeg AITB.Gen.equalToleranceSmall (-1) 3 #[1] = (0, -7/4) := by
  constructor <;> decide +kernel

/-- `VertexCover` is satisfiable: one state, one plane, the single corner -/
example : VertexCover 1 [#[1]] [#[1]] := by
  intro b hb
  refine ⟨#[1], [(1, #[1])], by simp, by simp, by simp, ?_, ?_⟩
  · intro p hp; simp at hp; subst hp; exact ⟨by simp, by simp [env, lmax]⟩
  · intro s hs
    have hs0 : s = 0 := by omega
    subst hs0
    have h1 : b.get 0 = 1 := by have := hb.2; simpa [sumTo] using this
    rw [h1]; unfold combo; rw [mkVec_get _ (by omega)]; simp [Vec.get]

/-- the Witness loop on a one-observation, one-projection instance terminates with the complete set (test on literals) -/
example : (wLoop 1 1 (fun _ => [#[2]]) (fun U _ => if U.isEmpty then some #[1] else none) (fun _ => [0]) 3 (wInit 1)).agenda = [] ∧
    (wLoop 1 1 (fun _ => [#[2]]) (fun U _ => if U.isEmpty then some #[1] else none) (fun _ => [0]) 3 (wInit 1)).U = [[0]] := by
  constructor <;> decide +kernel

end AITB.POMDP
