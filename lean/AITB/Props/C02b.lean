/-
  C02 (round 2) — unconditional IncrementalPruning schedule, full-strength RTBSS at the library's tolerance,
  Witness and LinearSupport agenda loops.

  Builds on `AITB.Props.C02`; the merge-schedule invariant for EVERY number of observations is C04's
  `AITB.Plan.mergeSchedule_covers` (AITB.Props.C04d), reused here on value lists.
-/
import AITB.Props.C02
import AITB.Props.C04d

namespace AITB.POMDP
open AITB.MDP (sumTo maxTo argmaxTo Vec Vec.get mkVec absR sumTo_eq sumTo_congr sumTo_le sumTo_add sumTo_mul_left mkVec_get maxTo_ge maxTo_attained maxTo_congr)

/-! ## (1) IncrementalPruning's merge schedule as written, for EVERY number of observations -/

/-- **ipActionM_spec**: the per-action merge run on C04's literal copy of the schedule (`AITB.Plan.mergeSchedule`, whose constants are
    regenerated from IncrementalPruning.hpp) has the envelope Σ_o env(P o) at every belief — for every O ≥ 1, no side condition. -/
theorem ipActionM_spec (n : Nat) (prune : List Vec → List Vec) (hp : EnvPreserving n prune) (O : Nat) (hO : 1 ≤ O)
    (P : Nat → List Vec) (hP : ∀ o, P o ≠ []) :
    ipActionM n prune O P ≠ [] ∧ ∀ b, NonNeg n b → env n (ipActionM n prune O P) b = sumTo O (fun o => env n (P o) b) := by
  let I : Nat → Nat → List Vec → Prop := fun lo hi l =>
    l ≠ [] ∧ ∀ b, NonNeg n b → env n l b + sumTo lo (fun o => env n (P o) b) = sumTo hi (fun o => env n (P o) b)
  have hmerge : ∀ lo mid hi x y, I lo mid x → I mid hi y → I lo hi (prune (crossSum n x y)) ∧ I lo hi (prune (crossSum n y x)) := by
    intro lo mid hi x y hx hy
    have c1 := crossSum_ne_nil n x y hx.1 hy.1
    have c2 := crossSum_ne_nil n y x hy.1 hx.1
    refine ⟨⟨(hp _ c1).1, ?_⟩, ⟨(hp _ c2).1, ?_⟩⟩
    · intro b hb
      rw [(hp _ c1).2 b hb, envelope_crossSum n x y b hx.1 hy.1]
      have := hx.2 b hb; have := hy.2 b hb; linarith
    · intro b hb
      rw [(hp _ c2).2 b hb, envelope_crossSum n y x b hy.1 hx.1]
      have := hx.2 b hb; have := hy.2 b hb; linarith
  have hlen : ((List.range O).map (fun o => prune (P o))).length = O := by simp
  have h := AITB.Plan.mergeSchedule_covers (fun x y _ => prune (crossSum n x y)) I
    (fun lo mid hi x y hx hy => (hmerge lo mid hi x y hx hy).1)
    (fun lo mid hi x y hx hy => (hmerge lo mid hi y x hy hx).2)
    ((List.range O).map (fun o => prune (P o))) (by rw [hlen]; exact hO)
    (by
      intro o ho
      rw [hlen] at ho
      have e : ((List.range O).map (fun o => prune (P o))).getD o default = prune (P o) := by
        rw [List.getD_eq_getElem?_getD]; simp [ho]
      rw [e]
      refine ⟨(hp _ (hP o)).1, ?_⟩
      intro b hb
      rw [(hp _ (hP o)).2 b hb]
      simp only [sumTo]; ring)
  rw [hlen] at h
  refine ⟨h.1, ?_⟩
  intro b hb
  have := h.2 b hb
  simp only [sumTo] at this
  unfold ipActionM
  linarith

theorem ipStepM_spec (m : Model) (hv : Valid m) (τ : Rat) (hsep : Sep m τ) (hγ : 0 ≤ m.γ)
    (prune : List Vec → List Vec) (hp : EnvPreserving m.S prune) (Γ : List Vec) (hΓ : Γ ≠ []) :
    ipStepM m τ prune Γ ≠ [] ∧
    ∀ b, NonNeg m.S b → env m.S (ipStepM m τ prune Γ) b = maxTo (m.A - 1) (qOf m (env m.S Γ) b) := by
  have hG : ∀ a, ipActionM m.S prune m.O (projList m τ Γ a) ≠ [] :=
    fun a => (ipActionM_spec m.S prune hp m.O hv.hO _ (fun o => projList_ne_nil m τ Γ a o hΓ)).1
  have hU : unionTo m.A (fun a => ipActionM m.S prune m.O (projList m τ Γ a)) ≠ [] := by
    obtain ⟨k, hk⟩ : ∃ k, m.A = k + 1 := ⟨m.A - 1, by have := hv.hA; omega⟩
    rw [hk]; exact unionTo_ne_nil k _ (hG k)
  refine ⟨(hp _ hU).1, ?_⟩
  intro b hb
  unfold ipStepM
  rw [(hp _ hU).2 b hb]
  exact env_step_general m hv τ hsep hγ Γ hΓ _ hG b hb
    (fun a _ => (ipActionM_spec m.S prune hp m.O hv.hO _ (fun o => projList_ne_nil m τ Γ a o hΓ)).2 b hb)

/-- **incremental_pruning_as_written_exact_all** — UNCONDITIONAL form of `incremental_pruning_as_written_exact`: with the merge schedule as
    written, any envelope-preserving pruner, every POMDP (any number of observations), every horizon and belief, the list
    IncrementalPruning holds has the expectimax value as its envelope. -/
theorem incremental_pruning_as_written_exact_all (m : Model) (hv : Valid m) (τ : Rat) (hsep : Sep m τ) (hγ : 0 ≤ m.γ)
    (prune : List Vec → List Vec) (hp : EnvPreserving m.S prune) :
    ∀ (h : Nat), ipIterM m τ prune h ≠ [] ∧ ∀ b, NonNeg m.S b → env m.S (ipIterM m τ prune h) b = expectimax m h b := by
  intro h
  induction h with
  | zero =>
    refine ⟨by simp [ipIterM], ?_⟩
    intro b _; simp [ipIterM, expectimax, env, lmax, dot_vzero]
  | succ h ih =>
    obtain ⟨ne, e⟩ := ih
    have sp := ipStepM_spec m hv τ hsep hγ prune hp _ ne
    refine ⟨sp.1, ?_⟩
    intro b hb
    simp only [ipIterM, expectimax]
    rw [sp.2 b hb]
    apply maxTo_congr
    intro a ha
    exact qOf_congr m hv _ _ e b hb (by have := hv.hA; omega)


/-! ## (4) RTBSS, repaired form, at the LIBRARY's tolerance and for any sign of `maxR`

  `rtbss_general` needs `τ = 0` when `maxR < 0`: with a positive tolerance an observation of probability in (0, τ] is skipped and the
  (negative) bound on the tail no longer bounds the truncated sum.  `skipFreeB m τ h b` says that this never happens in the tree
  below `b` — a decidable condition the driver evaluates on every instance.  Under it the truncated recursion IS the property's
  definition and the repaired RTBSS returns it, whatever the sign of `maxR`. -/

/-- beliefs the recursion visits: in the simplex and skip-free for the remaining horizon -/
def GoodB (m : Model) (τ : Rat) (h : Nat) (b : Vec) : Prop := Simplex m.S b ∧ skipFreeB m τ h b = true

theorem goodB_succ (m : Model) (hv : Valid m) (τ : Rat) (hτ : 0 ≤ τ) (h : Nat) (b : Vec) (hg : GoodB m τ (h+1) b)
    {a o : Nat} (ha : a < m.A) (ho : o < m.O) :
    (absR (vsum m.S (updU m b a o)) ≤ τ → vsum m.S (updU m b a o) = 0) ∧
    (¬ absR (vsum m.S (updU m b a o)) ≤ τ → GoodB m τ h (vdiv m.S (updU m b a o) (vsum m.S (updU m b a o)))) := by
  obtain ⟨hs, hf⟩ := hg
  have hu := updU_nonneg m hv b hs.1 ha ho
  simp only [skipFreeB, allLt, List.all_eq_true, List.mem_range] at hf
  have := hf a ha o ho
  simp only [Bool.or_eq_true, Bool.and_eq_true, decide_eq_true_eq] at this
  constructor
  · intro hle
    rcases this with h0 | ⟨hlt, _⟩
    · exact h0
    · exact absurd hle (not_le.mpr hlt)
  · intro hnle
    rcases this with h0 | ⟨_, hrec⟩
    · exfalso; apply hnle; rw [h0]; simpa [absR] using hτ
    · have hp : vsum m.S (updU m b a o) ≠ 0 := by
        intro h0; apply hnle; rw [h0]; simpa [absR] using hτ
      exact ⟨vdiv_simplex _ _ hu hp, hrec⟩

theorem rtFuture_congr_good (m : Model) (hv : Valid m) (τ : Rat) (hτ : 0 ≤ τ) (h : Nat) (V V' : Vec → Rat)
    (hVV : ∀ b', GoodB m τ h b' → V b' = V' b') (b : Vec) (hg : GoodB m τ (h+1) b) {a : Nat} (ha : a < m.A) :
    rtFuture m τ V b a = rtFuture m τ V' b a := by
  unfold rtFuture
  apply sumTo_congr; intro o ho
  simp only []
  split
  · rfl
  · rename_i hne
    rw [hVV _ ((goodB_succ m hv τ hτ h b hg ha ho).2 hne)]

/-- on skip-free beliefs the future term is at most `γ·B` for a bound `B` of ANY sign -/
theorem rtFuture_le_good (m : Model) (hv : Valid m) (τ : Rat) (hτ : 0 ≤ τ) (hγ : 0 ≤ m.γ) (h : Nat) (V : Vec → Rat) (B : Rat)
    (hV : ∀ b', GoodB m τ h b' → V b' ≤ B) (b : Vec) (hg : GoodB m τ (h+1) b) {a : Nat} (ha : a < m.A) :
    rtFuture m τ V b a ≤ m.γ * B := by
  have hb := hg.1
  have hterm : sumTo m.O (fun o =>
        if absR (vsum m.S (updU m b a o)) ≤ τ then 0
        else m.γ * vsum m.S (updU m b a o) * V (vdiv m.S (updU m b a o) (vsum m.S (updU m b a o))))
      ≤ sumTo m.O (fun o => m.γ * B * vsum m.S (updU m b a o)) := by
    apply sumTo_le; intro o ho
    have hu := updU_nonneg m hv b hb.1 ha ho
    have hp0 := vsum_nonneg _ _ hu
    have hs := goodB_succ m hv τ hτ h b hg ha ho
    split
    · rename_i hskip
      rw [hs.1 hskip]; simp
    · rename_i hne
      have := hV _ (hs.2 hne)
      have h2 : 0 ≤ m.γ * vsum m.S (updU m b a o) := mul_nonneg hγ hp0
      calc m.γ * vsum m.S (updU m b a o) * V _ ≤ m.γ * vsum m.S (updU m b a o) * B := mul_le_mul_of_nonneg_left this h2
        _ = m.γ * B * vsum m.S (updU m b a o) := by ring
  have : rtFuture m τ V b a ≤ sumTo m.O (fun o => m.γ * B * vsum m.S (updU m b a o)) := hterm
  rw [sumTo_mul_left, obs_prob_sum m hv b ha, hb.2, mul_one] at this
  exact this

/-- the truncated expectimax is at most Σ_{t<h} γ^t·maxR on skip-free beliefs — any sign of maxR, any τ ≥ 0 -/
theorem expectimaxT_le_rtB_good (m : Model) (hv : Valid m) (τ : Rat) (hτ : 0 ≤ τ) (hγ0 : 0 ≤ m.γ)
    (maxR : Rat) (hR : RBound m maxR) :
    ∀ (h : Nat) (b : Vec), GoodB m τ h b → expectimaxT m τ h b ≤ rtB m maxR h := by
  intro h
  induction h with
  | zero => intro b _; simp [expectimaxT, rtB]
  | succ h ih =>
    intro b hg
    simp only [expectimaxT, rtB]
    obtain ⟨a, ha, e⟩ := maxTo_attained (m.A - 1) (qOfT m τ (expectimaxT m τ h) b)
    have haA : a < m.A := by have := hv.hA; omega
    rw [e, qOfT_eq]
    have h1 := expReward_le m maxR hR b hg.1 haA
    have h2 := rtFuture_le_good m hv τ hτ hγ0 h _ _ ih b hg haA
    linarith

/-- on skip-free beliefs the truncated recursion is the property's own definition -/
theorem expectimaxT_eq_good (m : Model) (hv : Valid m) (τ : Rat) (hτ : 0 ≤ τ) :
    ∀ (h : Nat) (b : Vec), GoodB m τ h b → expectimaxT m τ h b = expectimax m h b := by
  intro h
  induction h with
  | zero => intro b _; rfl
  | succ h ih =>
    intro b hg
    simp only [expectimaxT, expectimax]
    apply maxTo_congr
    intro a ha
    have haA : a < m.A := by have := hv.hA; omega
    rw [qOf_eq, qOfT]
    congr 1
    rw [← sumTo_mul_left]
    apply sumTo_congr; intro o ho
    have hs := goodB_succ m hv τ hτ h b hg haA ho
    unfold obsTerm
    simp only []
    by_cases hskip : absR (vsum m.S (updU m b a o)) ≤ τ
    · rw [if_pos hskip, if_pos (hs.1 hskip)]; ring
    · have hp : vsum m.S (updU m b a o) ≠ 0 := by
        intro h0; apply hskip; rw [h0]; simpa [absR] using hτ
      rw [if_neg hskip, if_neg hp, ih _ (hs.2 hskip)]; ring

theorem rtUpperC_fixed (m : Model) (maxR : Rat) (h : Nat) : rtUpperC ⟨true, true⟩ m maxR h = m.γ * rtB m maxR h := by
  unfold rtUpperC
  simp only [if_true]
  rw [rtGeoLoop_eq]

theorem rtSimC_fixed_eq (m : Model) (hv : Valid m) (τ : Rat) (hτ : 0 ≤ τ) (hγ0 : 0 ≤ m.γ) (maxR : Rat) (hR : RBound m maxR) :
    ∀ (h : Nat) (b : Vec), GoodB m τ h b → rtSimC ⟨true, true⟩ m τ maxR h b = expectimaxT m τ h b := by
  intro h
  induction h with
  | zero => intro b _; rfl
  | succ h ih =>
    intro b hg
    obtain ⟨k, hk⟩ : ∃ k, m.A = k + 1 := ⟨m.A - 1, by have := hv.hA; omega⟩
    have hfut : ∀ a, a ≤ k → rtFuture m τ (rtSimC ⟨true, true⟩ m τ maxR h) b a ≤ rtUpperC ⟨true, true⟩ m maxR h := by
      intro a ha
      have haA : a < m.A := by omega
      rw [rtFuture_congr_good m hv τ hτ h _ _ ih b hg haA, rtUpperC_fixed]
      exact rtFuture_le_good m hv τ hτ hγ0 h _ _ (expectimaxT_le_rtB_good m hv τ hτ hγ0 maxR hR h) b hg haA
    have sp := rtLoopC_spec ⟨true, true⟩ m τ maxR (rtSimC ⟨true, true⟩ m τ maxR h) h b (by intro hc; cases hc) k hfut
    simp only [rtSimC, expectimaxT]
    rw [hk, sp]
    simp only [Option.getD_some]
    have : k + 1 - 1 = k := by omega
    rw [this]
    apply maxTo_congr
    intro a ha
    rw [qOfT_eq, qOfT_eq, rtFuture_congr_good m hv τ hτ h _ _ ih b hg (by omega)]

/-- **rtbss_full** — the RTBSS clause at FULL strength for the repaired code (geometric bound, comparison inside the pruning test),
    at any tolerance τ ≥ 0 (in particular the library's 1e-6): for every POMDP, every `maxR` that bounds the rewards (ANY sign),
    every horizon ≥ 1 and every belief whose lookahead tree is skip-free, `sampleAction` returns the property's `expectimax` value
    and the FIRST action whose one-step lookahead attains it. -/
theorem rtbss_full (m : Model) (hv : Valid m) (τ : Rat) (hτ : 0 ≤ τ) (hγ0 : 0 ≤ m.γ)
    (maxR : Rat) (hR : RBound m maxR) (h : Nat) (b : Vec) (hb : Simplex m.S b) (hsf : skipFreeB m τ (h+1) b = true) :
    (rtSampleC ⟨true, true⟩ m τ maxR (h+1) b).2 = expectimax m (h+1) b ∧
    (rtSampleC ⟨true, true⟩ m τ maxR (h+1) b).1 < m.A ∧
    qOf m (expectimax m h) b (rtSampleC ⟨true, true⟩ m τ maxR (h+1) b).1 = expectimax m (h+1) b ∧
    (∀ a, a < (rtSampleC ⟨true, true⟩ m τ maxR (h+1) b).1 → qOf m (expectimax m h) b a < expectimax m (h+1) b) := by
  have hg : GoodB m τ (h+1) b := ⟨hb, hsf⟩
  obtain ⟨k, hk⟩ : ∃ k, m.A = k + 1 := ⟨m.A - 1, by have := hv.hA; omega⟩
  have ih := rtSimC_fixed_eq m hv τ hτ hγ0 maxR hR h
  have hfut : ∀ a, a ≤ k → rtFuture m τ (rtSimC ⟨true, true⟩ m τ maxR h) b a ≤ rtUpperC ⟨true, true⟩ m maxR h := by
    intro a ha
    have haA : a < m.A := by omega
    rw [rtFuture_congr_good m hv τ hτ h _ _ ih b hg haA, rtUpperC_fixed]
    exact rtFuture_le_good m hv τ hτ hγ0 h _ _ (expectimaxT_le_rtB_good m hv τ hτ hγ0 maxR hR h) b hg haA
  have sp := rtLoopC_spec ⟨true, true⟩ m τ maxR (rtSimC ⟨true, true⟩ m τ maxR h) h b (by intro hc; cases hc) k hfut
  -- the one-step lookahead over the truncated recursion is the one over the property's definition
  have hq : ∀ a, a ≤ k → qOfT m τ (rtSimC ⟨true, true⟩ m τ maxR h) b a = qOf m (expectimax m h) b a := by
    intro a ha
    have haA : a < m.A := by omega
    rw [qOfT_eq, rtFuture_congr_good m hv τ hτ h _ _ ih b hg haA, ← qOfT_eq]
    -- qOfT over expectimaxT = qOf over expectimax on a skip-free belief
    rw [qOf_eq, qOfT]
    congr 1
    rw [← sumTo_mul_left]
    apply sumTo_congr; intro o ho
    have hs := goodB_succ m hv τ hτ h b hg haA ho
    unfold obsTerm
    simp only []
    by_cases hskip : absR (vsum m.S (updU m b a o)) ≤ τ
    · rw [if_pos hskip, if_pos (hs.1 hskip)]; ring
    · have hp : vsum m.S (updU m b a o) ≠ 0 := by
        intro h0; apply hskip; rw [h0]; simpa [absR] using hτ
      rw [if_neg hskip, if_neg hp, expectimaxT_eq_good m hv τ hτ h _ (hs.2 hskip)]; ring
  have hk1 : m.A - 1 = k := by omega
  have e1 : (rtSampleC ⟨true, true⟩ m τ maxR (h+1) b) = (argmaxTo k (qOf m (expectimax m h) b), maxTo k (qOf m (expectimax m h) b)) := by
    simp only [rtSampleC]
    rw [hk, sp]
    simp only [Option.getD_some]
    rw [AITB.MDP.argmaxTo_congr hq, maxTo_congr hq]
  rw [e1]
  simp only [expectimax, hk1]
  refine ⟨trivial, ?_, ?_, ?_⟩
  · have := AITB.MDP.argmaxTo_le k (qOf m (expectimax m h) b); omega
  · exact (AITB.MDP.maxTo_eq_argmax k _).symm
  · intro a ha
    rw [AITB.MDP.maxTo_eq_argmax k]
    exact AITB.MDP.argmaxTo_first k _ a ha

/-- **rtbss_as_extracted_full** — obligation over the flags regenerated from RTBSS.hpp: the code as it is NOW has both repairs, hence the
    full-strength statement applies to the model the driver runs (`rtCfgNow`), at the library's own tolerance. -/
theorem rtbss_as_extracted_full
    (m : Model) (hv : Valid m) (hγ0 : 0 ≤ m.γ) (maxR : Rat) (hR : RBound m maxR) (h : Nat) (b : Vec) (hb : Simplex m.S b)
    (hsf : skipFreeB m AITB.Gen.equalToleranceSmall (h+1) b = true) :
    rtCfgNow = ⟨true, true⟩ ∧
    (rtSampleC rtCfgNow m AITB.Gen.equalToleranceSmall maxR (h+1) b).2 = expectimax m (h+1) b ∧
    qOf m (expectimax m h) b (rtSampleC rtCfgNow m AITB.Gen.equalToleranceSmall maxR (h+1) b).1 = expectimax m (h+1) b := by
  have hc : rtCfgNow = ⟨true, true⟩ := by decide
  refine ⟨hc, ?_⟩
  rw [hc]
  have hτ : (0 : Rat) ≤ AITB.Gen.equalToleranceSmall := by norm_num [AITB.Gen.equalToleranceSmall]
  obtain ⟨h1, _, h3, _⟩ := rtbss_full m hv _ hτ hγ0 maxR hR h b hb hsf
  exact ⟨h1, h3⟩


/-! ## (3) Witness: the agenda loop, on top of `witness_complete`

  `wLoop` replays `while ( !agenda_.empty() )` for one action with the LP as an oracle.  Hypotheses on the two unmodelled pieces:
  * `horacle` — `findWitness` is a COMPLETE search: it answers "no witness" only when U is non-empty and the candidate is nowhere on
    the simplex strictly above U (its soundness — the returned point really is a witness — is not needed for this theorem);
  * `hbest`   — `crossSumBestAtBelief` returns in-range projection indices (its optimality is `bestBackupAt_value`; not needed here).
  Conclusion: whenever the loop has emptied the agenda, U has the envelope of the whole cross-sum at EVERY belief. -/

def ValidChoice (k : Nat) (P : Nat → List Vec) (c : Choice) : Prop := c.length = k ∧ ∀ o, o < k → c.getD o 0 < (P o).length

/-- "no witness": U is non-empty and the candidate is nowhere (on the simplex) strictly above U -/
def NoWit (n k : Nat) (P : Nat → List Vec) (U : List Choice) (t : Choice) : Prop :=
  U ≠ [] ∧ ∀ b, Simplex n b → dot n b (choiceSum n k P t) ≤ env n (U.map (choiceSum n k P)) b

theorem noWit_mono (n k : Nat) (P : Nat → List Vec) (U : List Choice) (u t : Choice) (h : NoWit n k P U t) :
    NoWit n k P (U ++ [u]) t := by
  refine ⟨by simp, ?_⟩
  intro b hb
  refine le_trans (h.2 b hb) (env_mono _ _ _ b (by simpa using h.1) ?_)
  intro α hα
  rw [List.map_append]; exact List.mem_append_left _ hα

theorem addVars_spec (vs : List Choice) : ∀ (ag tr : List Choice),
    (∀ t ∈ ag, t ∈ (addVars vs ag tr).1) ∧ (∀ t ∈ tr, t ∈ (addVars vs ag tr).2) ∧
    (∀ v ∈ vs, v ∈ (addVars vs ag tr).2) ∧
    (∀ t ∈ (addVars vs ag tr).2, t ∈ tr ∨ t ∈ (addVars vs ag tr).1) := by
  induction vs with
  | nil => intro ag tr; simp only [addVars, List.foldl_nil]; exact ⟨fun _ h => h, fun _ h => h, by simp, fun _ h => Or.inl h⟩
  | cons v vs ih =>
    intro ag tr
    have e : addVars (v :: vs) ag tr = addVars vs (if v ∈ tr then (ag, tr) else (v :: ag, v :: tr)).1 (if v ∈ tr then (ag, tr) else (v :: ag, v :: tr)).2 := by
      simp only [addVars, List.foldl_cons]
    rw [e]
    by_cases hv : v ∈ tr
    · simp only [hv, if_true]
      obtain ⟨h1, h2, h3, h4⟩ := ih ag tr
      refine ⟨h1, h2, ?_, h4⟩
      intro x hx
      rcases List.mem_cons.mp hx with rfl | hx
      · exact h2 _ hv
      · exact h3 x hx
    · simp only [hv, if_false]
      obtain ⟨h1, h2, h3, h4⟩ := ih (v :: ag) (v :: tr)
      refine ⟨fun t ht => h1 t (List.mem_cons_of_mem _ ht), fun t ht => h2 t (List.mem_cons_of_mem _ ht), ?_, ?_⟩
      · intro x hx
        rcases List.mem_cons.mp hx with rfl | hx
        · exact h2 _ List.mem_cons_self
        · exact h3 x hx
      · intro t ht
        rcases h4 t ht with h | h
        · rcases List.mem_cons.mp h with rfl | h
          · exact Or.inr (h1 _ List.mem_cons_self)
          · exact Or.inl h
        · exact Or.inr h

/-- loop invariant -/
structure WInv (n k : Nat) (P : Nat → List Vec) (st : WState) : Prop where
  valid : ∀ c ∈ st.U, ValidChoice k P c
  vars : ∀ c ∈ st.U, ∀ v ∈ allVars k P c, v ∈ st.tried
  tried : ∀ t ∈ st.tried, t ∈ st.agenda ∨ NoWit n k P st.U t
  some : ∃ t, t ∈ st.tried

theorem wInv_init (n k : Nat) (P : Nat → List Vec) : WInv n k P (wInit k) := by
  refine ⟨by simp [wInit], by simp [wInit], ?_, ⟨List.replicate k 0, by simp [wInit]⟩⟩
  intro t ht; left; simpa [wInit] using ht

theorem wInv_step (n k : Nat) (P : Nat → List Vec) (oracle : List Vec → Vec → Option Vec) (best : Vec → Choice)
    (horacle : ∀ (U : List Choice) (v : Choice), oracle (U.map (choiceSum n k P)) (choiceSum n k P v) = none → NoWit n k P U v)
    (hbest : ∀ w, ValidChoice k P (best w)) (st : WState) (h : WInv n k P st) :
    WInv n k P (wStep n k P oracle best st) := by
  unfold wStep
  cases hag : st.agenda with
  | nil => simpa [hag] using h
  | cons v rest =>
    simp only []
    cases hor : oracle (st.U.map (choiceSum n k P)) (choiceSum n k P v) with
    | none =>
      simp only []
      refine ⟨h.valid, h.vars, ?_, h.some⟩
      intro t ht
      rcases h.tried t ht with hin | hnw
      · rw [hag] at hin
        rcases List.mem_cons.mp hin with rfl | hin
        · exact Or.inr (horacle st.U _ hor)
        · exact Or.inl hin
      · exact Or.inr hnw
    | some w =>
      simp only []
      obtain ⟨a1, a2, a3, a4⟩ := addVars_spec (allVars k P (best w)) (v :: rest) st.tried
      obtain ⟨t0, ht0⟩ := h.some
      refine ⟨?_, ?_, ?_, ⟨t0, a2 t0 ht0⟩⟩
      · intro c hc
        rcases List.mem_append.mp hc with hc | hc
        · exact h.valid c hc
        · simp at hc; subst hc; exact hbest w
      · intro c hc x hx
        rcases List.mem_append.mp hc with hc | hc
        · exact a2 _ (h.vars c hc x hx)
        · simp at hc; subst hc; exact a3 x hx
      · intro t ht
        rcases a4 t ht with hold | hnew
        · rcases h.tried t hold with hin | hnw
          · rw [hag] at hin; exact Or.inl (a1 t hin)
          · exact Or.inr (noWit_mono n k P st.U (best w) t hnw)
        · exact Or.inl hnew

theorem wInv_loop (n k : Nat) (P : Nat → List Vec) (oracle : List Vec → Vec → Option Vec) (best : Vec → Choice)
    (horacle : ∀ (U : List Choice) (v : Choice), oracle (U.map (choiceSum n k P)) (choiceSum n k P v) = none → NoWit n k P U v)
    (hbest : ∀ w, ValidChoice k P (best w)) :
    ∀ (fuel : Nat) (st : WState), WInv n k P st → WInv n k P (wLoop n k P oracle best fuel st) := by
  intro fuel
  induction fuel with
  | zero => intro st h; exact h
  | succ f ih => intro st h; exact ih _ (wInv_step n k P oracle best horacle hbest st h)

theorem mem_allVars (k : Nat) (P : Nat → List Vec) (c : Choice) (o i : Nat) (ho : o < k) (hi : i < (P o).length)
    (hne : i ≠ c.getD o 0) : c.set o i ∈ allVars k P c := by
  unfold allVars
  refine List.mem_flatMap.mpr ⟨o, List.mem_range.mpr ho, List.mem_map.mpr ⟨i, ?_, rfl⟩⟩
  simp only [List.mem_filter, List.mem_range, bne_iff_ne, ne_eq]
  exact ⟨hi, hne⟩

theorem getD_set_choice (c : Choice) (o o' i : Nat) (ho : o < c.length) :
    (c.set o i).getD o' 0 = if o' = o then i else c.getD o' 0 := by
  by_cases h : o' = o
  · subst h; simp [List.getD_eq_getElem?_getD, ho]
  · simp [List.getD_eq_getElem?_getD, h, List.getElem?_set_ne (Ne.symm h)]

/-- **witness_loop_complete** — for every action's projections `P` (any sizes), any complete LP oracle and any in-range
    `crossSumBestAtBelief`: if `Witness`'s agenda loop has emptied its agenda (after any number of iterations), the set U it holds is
    non-empty and has the envelope of the full cross-sum at every belief. -/
theorem witness_loop_complete (n k : Nat) (P : Nat → List Vec) (hP : ∀ o, o < k → P o ≠ [])
    (oracle : List Vec → Vec → Option Vec) (best : Vec → Choice)
    (horacle : ∀ (U : List Choice) (v : Choice), oracle (U.map (choiceSum n k P)) (choiceSum n k P v) = none → NoWit n k P U v)
    (hbest : ∀ w, ValidChoice k P (best w))
    (fuel : Nat) (hdone : (wLoop n k P oracle best fuel (wInit k)).agenda = []) :
    (wLoop n k P oracle best fuel (wInit k)).U ≠ [] ∧
    ∀ b, Simplex n b →
      env n ((wLoop n k P oracle best fuel (wInit k)).U.map (choiceSum n k P)) b = env n (crossTo n k P) b := by
  have inv := wInv_loop n k P oracle best horacle hbest fuel (wInit k) (wInv_init n k P)
  generalize wLoop n k P oracle best fuel (wInit k) = st at inv hdone
  have hnw : ∀ t ∈ st.tried, NoWit n k P st.U t := by
    intro t ht
    rcases inv.tried t ht with hin | h
    · rw [hdone] at hin; simp at hin
    · exact h
  obtain ⟨t0, ht0⟩ := inv.some
  have hU : st.U ≠ [] := (hnw t0 ht0).1
  refine ⟨hU, ?_⟩
  intro b hb
  -- U as choice functions
  have hmap : st.U.map (choiceSum n k P) = (st.U.map (choiceVecAt n P)).map (sumVecTo n k) := by
    rw [List.map_map]; rfl
  rw [hmap]
  apply witness_complete n k P hP (st.U.map (choiceVecAt n P)) (by simpa using hU)
  · intro c hc o ho
    obtain ⟨u, hu, rfl⟩ := List.mem_map.mp hc
    unfold choiceVecAt
    have hv := (inv.valid u hu).2 o ho
    rw [List.getD_eq_getElem?_getD, List.getElem?_eq_getElem hv]
    simp
  · intro c hc o ho α hα
    obtain ⟨u, hu, rfl⟩ := List.mem_map.mp hc
    rw [← hmap]
    obtain ⟨i, hi, rfl⟩ := List.getElem_of_mem hα
    have hval := inv.valid u hu
    -- the varied vector is the value of the choice `u.set o i`
    have hsame : sumVecTo n k (updSlot (choiceVecAt n P u) o ((P o)[i])) = choiceSum n k P (u.set o i) ∨
        dot n b (sumVecTo n k (updSlot (choiceVecAt n P u) o ((P o)[i]))) = dot n b (choiceSum n k P (u.set o i)) := by
      right
      unfold choiceSum
      rw [dot_sumVecTo, dot_sumVecTo]
      apply sumTo_congr
      intro o' ho'
      unfold updSlot choiceVecAt
      rw [getD_set_choice u o o' i (by rw [hval.1]; exact ho)]
      by_cases h : o' = o
      · subst h
        simp only [if_true]
        rw [List.getD_eq_getElem?_getD, List.getElem?_eq_getElem hi]; simp
      · simp only [h, if_false]
    have hdot : dot n b (sumVecTo n k (updSlot (choiceVecAt n P u) o ((P o)[i]))) = dot n b (choiceSum n k P (u.set o i)) := by
      rcases hsame with h | h
      · rw [h]
      · exact h
    rw [hdot]
    by_cases hne : i = u.getD o 0
    · -- not a variation: the vector is u's own
      have : u.set o i = u := by
        subst hne
        apply List.ext_getElem (by simp)
        intro j h1 h2
        by_cases hj : j = o
        · subst hj; simp [List.getD_eq_getElem?_getD, List.getElem?_eq_getElem h2]
        · simp [List.getElem_set_ne (Ne.symm hj)]
      rw [this]
      exact env_ge _ _ _ _ (List.mem_map.mpr ⟨u, hu, rfl⟩)
    · exact (hnw _ (inv.vars u hu _ (mem_allVars k P u o i ho hi hne))).2 b hb

end AITB.POMDP
