/-
  AITB.Props.C12Strict — what the lexicographic tie-break of `findBestAtPoint` / `findBestAtSimplexCorner`
  (`c == bv && veccmpGt v bvec` in `findBestFrom`) buys.

  The weak `pruner_witness` of AITB.Props.C12 ("every kept vector attains the maximum of the kept set at some
  belief") is also satisfied by a variant of the code without the tie-break, which keeps vectors that merely
  TIE at a corner and are nowhere needed.  Here the strict statement is proved:

    every vector kept by `pruner` is STRICTLY above every other (different) kept vector at some belief.

  * A  `veccmpGt` is a strict total lexicographic order on vectors of equal length
  * B  `findBest` selects the lexicographically greatest among the maximisers of the score
  * C  perturbation lemma: a lex-greatest maximiser at a belief `w` is the unique maximiser at a nearby belief
  * D  consequences for `findBest`, `cornersLoop`, `prunerLoop`, `pruner`
  * E  kernel-evaluated witness that the tie-break is NECESSARY
  All statements hold for every number of vectors and every dimension.
-/
import AITB.Props.C12
import Mathlib.Algebra.Order.Field.Rat
import Mathlib.Tactic.Ring
import Mathlib.Tactic.Linarith
import Mathlib.Tactic.FieldSimp
import Mathlib.Tactic.Positivity
import Mathlib.Tactic.NormNum

namespace AITB.Prune

/-! ## A. `veccmpGt` is a strict lexicographic order, total on vectors of equal length -/

theorem veccmpGt_irrefl : ∀ a : Vec, veccmpGt a a = false
  | [] => by simp [veccmpGt]
  | a :: as => by simp [veccmpGt, veccmpGt_irrefl as]

/-- transitivity (holds without any length hypothesis: a comparison that runs off either vector is `false`) -/
theorem veccmpGt_trans : ∀ a b c : Vec, veccmpGt a b = true → veccmpGt b c = true → veccmpGt a c = true
  | [], _, _, h, _ => by simp [veccmpGt] at h
  | _ :: _, [], _, h, _ => by simp [veccmpGt] at h
  | _ :: _, _ :: _, [], _, h => by simp [veccmpGt] at h
  | a :: as, b :: bs, c :: cs, h1, h2 => by
    simp only [veccmpGt] at h1 h2 ⊢
    by_cases hab : a = b
    · subst hab
      by_cases hbc : a = c
      · subst hbc
        simp only [beq_self_eq_true, if_true] at h1 h2 ⊢
        exact veccmpGt_trans as bs cs h1 h2
      · simp only [beq_self_eq_true, if_true] at h1
        have hbc' : (a == c) = false := by simpa using hbc
        simp only [hbc', Bool.false_eq_true, if_false] at h2 ⊢
        exact h2
    · have hab' : (a == b) = false := by simpa using hab
      simp only [hab', Bool.false_eq_true, if_false, decide_eq_true_eq] at h1
      by_cases hbc : b = c
      · subst hbc
        simp only [hab', Bool.false_eq_true, if_false, decide_eq_true_eq]
        exact h1
      · have hbc' : (b == c) = false := by simpa using hbc
        simp only [hbc', Bool.false_eq_true, if_false, decide_eq_true_eq] at h2
        have hlt : c < a := lt_trans h2 h1
        have hac' : (a == c) = false := by
          have : a ≠ c := ne_of_gt hlt
          simpa using this
        simp only [hac', Bool.false_eq_true, if_false, decide_eq_true_eq]
        exact hlt

theorem veccmpGt_asymm (a b : Vec) (h : veccmpGt a b = true) : veccmpGt b a = false := by
  cases hba : veccmpGt b a with
  | false => rfl
  | true =>
    have := veccmpGt_trans a b a h hba
    rw [veccmpGt_irrefl] at this
    exact absurd this (by simp)

theorem veccmpGt_total : ∀ a b : Vec, a ≠ b → a.length = b.length →
    veccmpGt a b = true ∨ veccmpGt b a = true
  | [], [], h, _ => absurd rfl h
  | [], _ :: _, _, h => by simp at h
  | _ :: _, [], _, h => by simp at h
  | a :: as, b :: bs, hne, hl => by
    simp only [veccmpGt]
    by_cases hab : a = b
    · subst hab
      have hne' : as ≠ bs := by
        intro h; subst h; exact hne rfl
      simpa using veccmpGt_total as bs hne' (by simpa using hl)
    · have hab' : (a == b) = false := by simpa using hab
      have hba' : (b == a) = false := by
        have : b ≠ a := fun h => hab h.symm
        simpa using this
      simp only [hab', hba', Bool.false_eq_true, if_false, decide_eq_true_eq]
      rcases lt_or_gt_of_ne hab with h | h
      · exact Or.inr h
      · exact Or.inl h

/-- same statement with the length hypotheses spelt out -/
theorem veccmpGt_trans_len (n : Nat) (a b c : Vec) (_ha : a.length = n) (_hb : b.length = n) (_hc : c.length = n) :
    veccmpGt a b = true → veccmpGt b c = true → veccmpGt a c = true := veccmpGt_trans a b c

/-! ## B. `findBest` selects the lexicographically greatest maximiser -/

theorem getD_mem_of_lt {α} (l : List α) (i : Nat) (d : α) (h : i < l.length) : l.getD i d ∈ l := by
  simp only [List.getD, List.getElem?_eq_getElem h, Option.getD_some]
  exact List.getElem_mem h

/-- invariant of the scan: `bvec = pre[bi]` is the lex-greatest maximiser of `score` over the visited prefix -/
theorem findBestFrom_lex (score : Vec → Rat) (n : Nat) :
    ∀ (vs pre : List Vec) (bi : Nat) (bv : Rat) (bvec : Vec),
    (∀ v ∈ pre ++ vs, v.length = n) →
    bi < pre.length → bvec = pre.getD bi [] → bv = score bvec →
    (∀ x ∈ pre, score x < bv ∨ (score x = bv ∧ (x = bvec ∨ veccmpGt bvec x = true))) →
    findBestFrom score vs pre.length bi bv bvec < (pre ++ vs).length ∧
    ∀ x ∈ pre ++ vs,
      score x < score ((pre ++ vs).getD (findBestFrom score vs pre.length bi bv bvec) []) ∨
      (score x = score ((pre ++ vs).getD (findBestFrom score vs pre.length bi bv bvec) []) ∧
        (x = (pre ++ vs).getD (findBestFrom score vs pre.length bi bv bvec) [] ∨
         veccmpGt ((pre ++ vs).getD (findBestFrom score vs pre.length bi bv bvec) []) x = true))
  | [], pre, bi, bv, bvec, _, hbi, hvec, hbv, hinv => by
    subst hvec; subst hbv
    simp only [findBestFrom, List.append_nil]
    exact ⟨hbi, hinv⟩
  | v :: vs, pre, bi, bv, bvec, hlen, hbi, hvec, hbv, hinv => by
    have hl1 : (pre ++ [v]).length = pre.length + 1 := by simp
    have happ : pre ++ v :: vs = (pre ++ [v]) ++ vs := by simp
    have hvlen : v.length = n := hlen v (by simp)
    have hbvlen : bvec.length = n := by
      rw [hvec]; apply hlen; apply List.mem_append_left
      exact getD_mem_of_lt pre bi [] hbi
    simp only [findBestFrom]
    split
    · rename_i hc
      simp only [Bool.or_eq_true, Bool.and_eq_true, decide_eq_true_eq, beq_iff_eq] at hc
      have ih := findBestFrom_lex score n vs (pre ++ [v]) pre.length (score v) v
        (by rw [← happ]; exact hlen) (by rw [hl1]; omega) (by simp) rfl
        (by
          intro x hx
          rcases List.mem_append.mp hx with hx | hx
          · rcases hc with h | ⟨h1, h2⟩
            · left
              rcases hinv x hx with h' | ⟨h', _⟩
              · exact lt_trans h' h
              · rw [h']; exact h
            · rcases hinv x hx with h' | ⟨h', h'' | h''⟩
              · left; rw [h1]; exact h'
              · right; refine ⟨by rw [h', h1], Or.inr ?_⟩
                rw [h'']; exact h2
              · right; refine ⟨by rw [h', h1], Or.inr ?_⟩
                exact veccmpGt_trans v bvec x h2 h''
          · simp only [List.mem_singleton] at hx
            subst hx; exact Or.inr ⟨rfl, Or.inl rfl⟩)
      rw [hl1] at ih; rw [happ]; exact ih
    · rename_i hc
      simp only [Bool.or_eq_true, Bool.and_eq_true, decide_eq_true_eq, beq_iff_eq, not_or, not_and,
        not_lt] at hc
      have ih := findBestFrom_lex score n vs (pre ++ [v]) bi bv bvec
        (by rw [← happ]; exact hlen) (by rw [hl1]; omega)
        (by rw [hvec]; simp [List.getD, List.getElem?_append_left hbi]) hbv
        (by
          intro x hx
          rcases List.mem_append.mp hx with hx | hx
          · exact hinv x hx
          · simp only [List.mem_singleton] at hx
            subst hx
            rcases lt_or_eq_of_le hc.1 with h | h
            · exact Or.inl h
            · right
              refine ⟨h, ?_⟩
              by_cases hxb : x = bvec
              · exact Or.inl hxb
              · rcases veccmpGt_total x bvec hxb (by rw [hvlen, hbvlen]) with h' | h'
                · exact absurd h' (hc.2 h)
                · exact Or.inr h')
      rw [hl1] at ih; rw [happ]; exact ih

/-- **B.**  The vector selected by `findBest` is the lexicographically greatest among the maximisers of the
    score: every other entry scores strictly less, or ties and is equal to it or lexicographically smaller.
    This is exactly what the tie-break adds to `findBest_max`. -/
theorem findBest_lexmax (score : Vec → Rat) (L : List Vec) (n : Nat) (hlen : ∀ v ∈ L, v.length = n)
    (hne : L ≠ []) :
    let g := L.getD (findBest score L) []
    g ∈ L ∧ ∀ x ∈ L, score x < score g ∨ (score x = score g ∧ (x = g ∨ veccmpGt g x = true)) := by
  intro g
  cases L with
  | nil => exact absurd rfl hne
  | cons v vs =>
    have h := findBestFrom_lex score n vs [v] 0 (score v) v (by simpa using hlen) (by simp) (by simp) rfl
      (by
        intro x hx
        simp only [List.mem_singleton] at hx
        subst hx; exact Or.inr ⟨rfl, Or.inl rfl⟩)
    simp only [List.length_singleton, List.singleton_append] at h
    have hg : g = (v :: vs).getD (findBestFrom score vs 1 0 (score v) v) [] := by
      simp [g, findBest]
    rw [hg]
    exact ⟨getD_mem_of_lt _ _ [] h.1, h.2⟩

/-! ## C. The perturbation lemma

  Instead of the closed-form direction `[1, ε, ε², …]` the perturbation is built coordinate by coordinate:
  the lexicographic order on `(score, x₀, x₁, …)` is collapsed from the front, `score' = score + δ·x₀` with `δ > 0`
  so small that no strict inequality of the finite list is lost (`exists_delta`); what remains is the same
  problem one dimension lower (`lex_perturb`, induction on the dimension, the scores being carried next to the
  vectors).  The result is a strictly positive vector `u` with `score x + u·x < score g + u·g` for all `x ≠ g`;
  for `score = dot w` this is `dot (w + u)`, and `w + u` is normalised at the end. -/

open AITB.Interp (sumL)

/-- one strict inequality survives every small enough perturbation -/
theorem exists_delta_one (gap d : Rat) (hgap : 0 < gap) :
    ∃ δ₀ : Rat, 0 < δ₀ ∧ ∀ δ, 0 < δ → δ ≤ δ₀ → δ * d < gap := by
  by_cases hd : d ≤ 0
  · refine ⟨1, by norm_num, fun δ hδ _ => ?_⟩
    have : δ * d ≤ 0 := mul_nonpos_of_nonneg_of_nonpos (le_of_lt hδ) hd
    linarith
  · have hd' : 0 < d := lt_of_not_ge hd
    refine ⟨gap / (2 * d), by positivity, fun δ _ hle => ?_⟩
    have h1 : δ * d ≤ gap / (2 * d) * d := mul_le_mul_of_nonneg_right hle (le_of_lt hd')
    have h2 : gap / (2 * d) * d = gap / 2 := by field_simp
    rw [h2] at h1
    linarith

/-- finitely many strict inequalities survive every small enough perturbation by the head coordinate -/
theorem exists_delta (ag g0 : Rat) : ∀ L : List (Rat × Vec),
    ∃ δ₀ : Rat, 0 < δ₀ ∧ ∀ δ, 0 < δ → δ ≤ δ₀ → ∀ p ∈ L, p.1 < ag → p.1 + δ * p.2.headD 0 < ag + δ * g0
  | [] => ⟨1, by norm_num, fun _ _ _ p hp => by simp at hp⟩
  | q :: L => by
    obtain ⟨δ₁, hδ₁, h₁⟩ := exists_delta ag g0 L
    by_cases hq : q.1 < ag
    · obtain ⟨δ₂, hδ₂, h₂⟩ := exists_delta_one (ag - q.1) (q.2.headD 0 - g0) (by linarith)
      refine ⟨min δ₁ δ₂, lt_min hδ₁ hδ₂, fun δ hδ hle p hp hlt => ?_⟩
      rcases List.mem_cons.mp hp with rfl | hp
      · have := h₂ δ hδ (le_trans hle (min_le_right _ _))
        linarith
      · exact h₁ δ hδ (le_trans hle (min_le_left _ _)) p hp hlt
    · refine ⟨δ₁, hδ₁, fun δ hδ hle p hp hlt => ?_⟩
      rcases List.mem_cons.mp hp with rfl | hp
      · exact absurd hlt hq
      · exact h₁ δ hδ hle p hp hlt

/-- the core: scores `a` carried next to the vectors `x`; if `(a_g, g)` is the lex-greatest maximiser of
    `(a, x₀, x₁, …)`, a strictly positive `u` makes `a + u·x` strictly smaller than `a_g + u·g` for every
    entry that is strictly below or a different vector -/
theorem lex_perturb : ∀ (n : Nat) (L : List (Rat × Vec)) (ag : Rat) (g : Vec), g.length = n →
    (∀ p ∈ L, p.2.length = n) →
    (∀ p ∈ L, p.1 < ag ∨ (p.1 = ag ∧ (p.2 = g ∨ veccmpGt g p.2 = true))) →
    ∃ u : Vec, u.length = n ∧ (∀ y ∈ u, 0 < y) ∧
      ∀ p ∈ L, (p.1 < ag ∨ p.2 ≠ g) → p.1 + dot u p.2 < ag + dot u g
  | 0, L, ag, g, hg, hlen, _ => by
    refine ⟨[], rfl, by simp, fun p hp h => ?_⟩
    simp only [dot]
    rcases h with h | h
    · linarith
    · exfalso; apply h
      have h1 := hlen p hp
      rw [List.length_eq_zero_iff.mp h1, List.length_eq_zero_iff.mp hg]
  | n+1, L, ag, g, hg, hlen, h => by
    match g, hg with
    | g0 :: gt, hg =>
    have hgt : gt.length = n := by simpa using hg
    obtain ⟨δ, hδ, hδL⟩ := exists_delta ag g0 L
    have hδL := hδL δ hδ (le_refl _)
    -- what one entry looks like after the step
    have hstep : ∀ p ∈ L, (p.1 < ag ∨ p.2 ≠ g0 :: gt) →
        p.1 + δ * p.2.headD 0 < ag + δ * g0 ∨ p.2.tail ≠ gt := by
      intro p hp hc
      by_cases hlt : p.1 < ag
      · exact Or.inl (hδL p hp hlt)
      · have hne : p.2 ≠ g0 :: gt := by
          rcases hc with hc | hc
          · exact absurd hc hlt
          · exact hc
        rcases h p hp with h' | ⟨ha, h' | h'⟩
        · exact absurd h' hlt
        · exact absurd h' hne
        · match hp2 : p.2, hlen p hp with
          | x0 :: xt, _ =>
            rw [hp2] at h' hne
            simp only [veccmpGt] at h'
            by_cases h0 : g0 = x0
            · subst h0
              right
              simp only [List.tail_cons]
              intro ht; subst ht; exact hne rfl
            · left
              have h0' : (g0 == x0) = false := by simpa using h0
              simp only [h0', Bool.false_eq_true, if_false, decide_eq_true_eq] at h'
              simp only [List.headD_cons]
              have := mul_lt_mul_of_pos_left h' hδ
              linarith
    obtain ⟨u', hu'len, hu'pos, hu'⟩ := lex_perturb n
      (L.map (fun p => (p.1 + δ * p.2.headD 0, p.2.tail))) (ag + δ * g0) gt hgt
      (by
        intro p' hp'
        obtain ⟨p, hp, rfl⟩ := List.mem_map.mp hp'
        have := hlen p hp
        simp only [List.length_tail]; omega)
      (by
        intro p' hp'
        obtain ⟨p, hp, rfl⟩ := List.mem_map.mp hp'
        simp only
        rcases h p hp with h' | ⟨ha, h' | h'⟩
        · exact Or.inl (hδL p hp h')
        · right
          rw [ha, h']; simp
        · match hp2 : p.2, hlen p hp with
          | x0 :: xt, _ =>
            rw [hp2] at h'
            simp only [veccmpGt] at h'
            simp only [List.headD_cons, List.tail_cons]
            by_cases h0 : g0 = x0
            · subst h0
              simp only [beq_self_eq_true, if_true] at h'
              right
              exact ⟨by rw [ha], Or.inr h'⟩
            · left
              have h0' : (g0 == x0) = false := by simpa using h0
              simp only [h0', Bool.false_eq_true, if_false, decide_eq_true_eq] at h'
              have := mul_lt_mul_of_pos_left h' hδ
              linarith)
    refine ⟨δ :: u', by simp [hu'len], ?_, ?_⟩
    · intro y hy
      rcases List.mem_cons.mp hy with rfl | hy
      · exact hδ
      · exact hu'pos y hy
    · intro p hp hc
      have hs := hstep p hp hc
      have := hu' (p.1 + δ * p.2.headD 0, p.2.tail) (List.mem_map.mpr ⟨p, hp, rfl⟩) hs
      match hp2 : p.2, hlen p hp with
      | x0 :: xt, _ =>
        rw [hp2] at this
        simp only [List.headD_cons, List.tail_cons] at this
        simp only [dot]
        linarith

/-! ### vector arithmetic for the last step -/

theorem dot_zipWith_add : ∀ (w u x : Vec), w.length = u.length →
    dot (List.zipWith (· + ·) w u) x = dot w x + dot u x
  | [], [], x, _ => by simp [dot]
  | [], _ :: _, _, h => by simp at h
  | _ :: _, [], _, h => by simp at h
  | a :: w, c :: u, [], _ => by simp [dot]
  | a :: w, c :: u, y :: x, h => by
    simp only [List.zipWith_cons_cons, dot]
    rw [dot_zipWith_add w u x (by simpa using h)]; ring

theorem sumL_zipWith_add : ∀ (w u : Vec), w.length = u.length →
    sumL (List.zipWith (· + ·) w u) = sumL w + sumL u
  | [], [], _ => by simp [sumL]
  | [], _ :: _, h => by simp at h
  | _ :: _, [], h => by simp at h
  | a :: w, c :: u, h => by
    simp only [List.zipWith_cons_cons, sumL]
    rw [sumL_zipWith_add w u (by simpa using h)]; ring

theorem zipWith_add_nonneg : ∀ (w u : Vec), (∀ y ∈ w, 0 ≤ y) → (∀ y ∈ u, 0 < y) →
    ∀ y ∈ List.zipWith (· + ·) w u, 0 ≤ y
  | [], _, _, _ => by simp
  | _ :: _, [], _, _ => by simp
  | a :: w, c :: u, hw, hu => by
    intro y hy
    simp only [List.zipWith_cons_cons, List.mem_cons] at hy
    rcases hy with rfl | hy
    · have := hw a (List.mem_cons_self ..)
      have := hu c (List.mem_cons_self ..)
      linarith
    · exact zipWith_add_nonneg w u (fun y hy => hw y (List.mem_cons_of_mem _ hy))
        (fun y hy => hu y (List.mem_cons_of_mem _ hy)) y hy

theorem sumL_nonneg_of_pos : ∀ u : Vec, (∀ y ∈ u, 0 < y) → 0 ≤ sumL u
  | [], _ => by simp [sumL]
  | c :: u, hu => by
    have := hu c (List.mem_cons_self ..)
    have := sumL_nonneg_of_pos u (fun y hy => hu y (List.mem_cons_of_mem _ hy))
    simp only [sumL]; linarith

theorem dot_map_mul (c : Rat) : ∀ (v x : Vec), dot (v.map (fun y => c * y)) x = c * dot v x
  | [], x => by simp [dot]
  | _ :: _, [] => by simp [dot]
  | a :: v, y :: x => by
    simp only [List.map_cons, dot]
    rw [dot_map_mul c v x]; ring

theorem sumL_map_mul (c : Rat) : ∀ v : Vec, sumL (v.map (fun y => c * y)) = c * sumL v
  | [] => by simp [sumL]
  | a :: v => by
    simp only [List.map_cons, sumL]
    rw [sumL_map_mul c v]; ring

/-- a non-negative vector of positive total can be normalised to a belief without changing the sign of any
    comparison `dot · x < dot · g` -/
theorem normalise_belief (n : Nat) (v : Vec) (hlen : v.length = n) (hnn : ∀ y ∈ v, 0 ≤ y) (hs : 0 < sumL v) :
    ∃ b, IsBelief n b ∧ ∀ x g : Vec, dot v x < dot v g → dot b x < dot b g := by
  have hc : 0 < (sumL v)⁻¹ := inv_pos.mpr hs
  refine ⟨v.map (fun y => (sumL v)⁻¹ * y), ⟨by simp [hlen], ?_, ?_⟩, ?_⟩
  · intro y hy
    obtain ⟨z, hz, rfl⟩ := List.mem_map.mp hy
    exact mul_nonneg (le_of_lt hc) (hnn z hz)
  · rw [sumL_map_mul]
    exact inv_mul_cancel₀ (ne_of_gt hs)
  · intro x g h
    rw [dot_map_mul, dot_map_mul]
    exact mul_lt_mul_of_pos_left h hc

set_option linter.unusedVariables false in
/-- **C.**  If `g` is the lexicographically greatest maximiser of `dot w` over `L` (`w` a belief), then at some
    belief `g` is strictly above every member of `L` that is a different vector. -/
theorem lexmax_strict_witness (n : Nat) (hn : 0 < n) (w : Vec) (hw : IsBelief n w) (L : List Vec)
    (hlen : ∀ v ∈ L, v.length = n) (g : Vec) (hg : g.length = n)
    (h : ∀ x ∈ L, dot w x < dot w g ∨ (dot w x = dot w g ∧ (x = g ∨ veccmpGt g x = true))) :
    ∃ b, IsBelief n b ∧ ∀ x ∈ L, x ≠ g → dot b x < dot b g := by
  obtain ⟨u, hulen, hupos, hu⟩ := lex_perturb n (L.map (fun x => (dot w x, x))) (dot w g) g hg
    (by
      intro p hp
      obtain ⟨x, hx, rfl⟩ := List.mem_map.mp hp
      exact hlen x hx)
    (by
      intro p hp
      obtain ⟨x, hx, rfl⟩ := List.mem_map.mp hp
      exact h x hx)
  have hwu : w.length = u.length := by rw [hw.1, hulen]
  obtain ⟨b, hb, hbs⟩ := normalise_belief n (List.zipWith (· + ·) w u)
    (by simp [hw.1, hulen])
    (zipWith_add_nonneg w u hw.2.1 hupos)
    (by
      rw [sumL_zipWith_add w u hwu, hw.2.2]
      have := sumL_nonneg_of_pos u hupos
      linarith)
  refine ⟨b, hb, fun x hx hne => hbs x g ?_⟩
  rw [dot_zipWith_add w u x hwu, dot_zipWith_add w u g hwu]
  exact hu (dot w x, x) (List.mem_map.mpr ⟨x, hx, rfl⟩) (Or.inr hne)

/-! ## D. Consequences for the model of `Pruner::operator()` -/

/-- **D1.**  The vector selected by `findBestAtPoint` at the belief `w` is, at some belief, strictly above
    every other (different) vector of the list. -/
theorem findBest_strict_witness (n : Nat) (hn : 0 < n) (w : Vec) (hw : IsBelief n w) (L : List Vec)
    (hlen : ∀ v ∈ L, v.length = n) (hne : L ≠ []) :
    ∃ b, IsBelief n b ∧ ∀ x ∈ L, x ≠ L.getD (findBest (dot w) L) [] →
      dot b x < dot b (L.getD (findBest (dot w) L) []) := by
  obtain ⟨hmem, hlex⟩ := findBest_lexmax (dot w) L n hlen hne
  exact lexmax_strict_witness n hn w hw L hlen _ (hlen _ hmem) hlex

/-- `findBest` only looks at the scores of the members of the list -/
theorem findBestFrom_congr (s1 s2 : Vec → Rat) : ∀ (vs : List Vec) (i bi : Nat) (bv : Rat) (bvec : Vec),
    (∀ v ∈ vs, s1 v = s2 v) → findBestFrom s1 vs i bi bv bvec = findBestFrom s2 vs i bi bv bvec
  | [], _, _, _, _, _ => rfl
  | v :: vs, i, bi, bv, bvec, h => by
    simp only [findBestFrom, h v (List.mem_cons_self ..)]
    split <;> exact findBestFrom_congr s1 s2 vs _ _ _ _ (fun x hx => h x (List.mem_cons_of_mem _ hx))

theorem findBest_congr (s1 s2 : Vec → Rat) (L : List Vec) (h : ∀ v ∈ L, s1 v = s2 v) :
    findBest s1 L = findBest s2 L := by
  cases L with
  | nil => rfl
  | cons v vs =>
    simp only [findBest, h v (List.mem_cons_self ..)]
    exact findBestFrom_congr s1 s2 vs _ _ _ _ (fun x hx => h x (List.mem_cons_of_mem _ hx))

/-- **D2.**  The vector selected by `findBestAtSimplexCorner` at the corner `s` is, at some belief, strictly
    above every other (different) vector of the list. -/
theorem corner_strict_witness (n s : Nat) (hs : s < n) (L : List Vec) (hlen : ∀ v ∈ L, v.length = n)
    (hne : L ≠ []) :
    ∃ b, IsBelief n b ∧ ∀ x ∈ L, x ≠ L.getD (findBest (fun v => v.getD s 0) L) [] →
      dot b x < dot b (L.getD (findBest (fun v => v.getD s 0) L) []) := by
  have hc : findBest (fun v => v.getD s 0) L = findBest (dot (unitVec n s)) L :=
    findBest_congr _ _ L (fun v _ => (dot_unitVec n s hs v).symm)
  rw [hc]
  exact findBest_strict_witness n (by omega) _ (unitVec_isBelief n s hs) L hlen hne

/-- **D3.**  `extractBestAtSimplexCorners`: every vector newly put into the useful range is, at some belief,
    strictly above every different vector of the whole array. -/
theorem cornersLoop_strict (n : Nat) : ∀ (cs : List Nat) (b r : List Vec), b ++ r ≠ [] →
    (∀ s ∈ cs, s < n) → (∀ v ∈ b ++ r, v.length = n) →
    ∀ g ∈ (cornersLoop cs b r).1,
      g ∈ b ∨ ∃ bel, IsBelief n bel ∧ ∀ x ∈ b ++ r, x ≠ g → dot bel x < dot bel g
  | [], b, r, _, _, _, g, hg => by left; simpa [cornersLoop] using hg
  | s :: ss, b, r, hne, hcs, hlen, g, hg => by
    have hcs' : ∀ s' ∈ ss, s' < n := fun s' hs' => hcs s' (List.mem_cons_of_mem _ hs')
    simp only [cornersLoop] at hg
    split at hg
    · rename_i hge
      have hlt := findBest_lt (fun v => v.getD s 0) (b ++ r) hne
      obtain ⟨hj, hsel⟩ := pick_in_rest b r _ hlt hge
      have hp := move_perm b r _ ([] : Vec) hj
      rcases cornersLoop_strict n ss _ _ (by simp) hcs'
          (fun v hv => hlen v (hp.mem_iff.mp hv)) g hg with h | ⟨bel, hbel, h⟩
      · rcases List.mem_append.mp h with h | h
        · exact Or.inl h
        · right
          simp only [List.mem_singleton] at h
          obtain ⟨bel, hbel, hstr⟩ :=
            corner_strict_witness n s (hcs s (List.mem_cons_self ..)) (b ++ r) hlen hne
          rw [← hsel, ← h] at hstr
          exact ⟨bel, hbel, hstr⟩
      · right
        exact ⟨bel, hbel, fun x hx => h x (hp.mem_iff.mpr hx)⟩
    · exact cornersLoop_strict n ss b r hne hcs' hlen g hg

section loop
variable (oracle : List Vec → Vec → Option Vec)

/-- **D4.**  Main loop: every vector the loop adds is, at some belief (near the oracle's witness point),
    strictly above every different finally kept vector. -/
theorem prunerLoop_strict (n : Nat) (hn : 0 < n)
    (hsome : ∀ best v w, oracle best v = some w → IsBelief n w ∧ ∀ g ∈ best, dot w g < dot w v) :
    ∀ (k : Nat) (b r rem : List Vec), r.length ≤ k → (∀ v ∈ b ++ r, v.length = n) →
    ∀ g ∈ (prunerLoop oracle k b r rem).1, g ∈ b ∨
      ∃ bel, IsBelief n bel ∧ ∀ g' ∈ (prunerLoop oracle k b r rem).1, g' ≠ g → dot bel g' < dot bel g
  | 0, b, r, rem, _, _, g, hg => by
    simp only [prunerLoop] at hg; exact Or.inl hg
  | k+1, b, r, rem, _, hlen, g, hg => by
    simp only [prunerLoop] at hg ⊢
    split at hg
    · exact Or.inl hg
    · rename_i v hv
      obtain ⟨hsplit, hne⟩ := getLast?_some_split hv
      split at hg
      · rename_i w horc
        have hj := findBest_lt (dot w) r hne
        have hmax := findBest_max (dot w) r hne
        have hlenr : ∀ x ∈ r, x.length = n := fun x hx => hlen x (List.mem_append_right _ hx)
        obtain ⟨hmem, hlex⟩ := findBest_lexmax (dot w) r n hlenr hne
        have hlen1 := takeOut_length r _ hj
        have hp := move_perm b r _ ([] : Vec) hj
        obtain ⟨hbel, hlt⟩ := hsome b v w horc
        have hvr : v ∈ r := by rw [hsplit]; simp
        rcases prunerLoop_strict n hn hsome k _ _ rem (by omega)
            (fun x hx => hlen x (hp.mem_iff.mp hx)) g hg with h | h
        · rcases List.mem_append.mp h with h | h
          · exact Or.inl h
          · right
            simp only [List.mem_singleton] at h
            obtain ⟨bel, hbel', hstr⟩ := lexmax_strict_witness n hn w hbel (b ++ r) hlen
              (r.getD (findBest (dot w) r) []) (hlenr _ hmem)
              (by
                intro x hx
                rcases List.mem_append.mp hx with hb | hr
                · left
                  exact lt_of_lt_of_le (hlt x hb) (hmax v hvr)
                · exact hlex x hr)
            refine ⟨bel, hbel', ?_⟩
            intro g' hg' hne'
            have hsub := prunerLoop_best_sub oracle k _ _ rem g' hg'
            have hsub' := hp.mem_iff.mp hsub
            rw [h] at hne' ⊢
            exact hstr g' hsub' hne'
        · exact Or.inr h
      · exact prunerLoop_strict n hn hsome k b r.dropLast (v :: rem) (by simp; omega)
          (fun x hx => by
            rcases List.mem_append.mp hx with h | h
            · exact hlen x (List.mem_append_left _ h)
            · exact hlen x (List.mem_append_right _ ((List.dropLast_sublist r).subset h))) g hg

end loop

section pruner
variable (dom : Vec → Vec → Bool) (oracle : List Vec → Vec → Option Vec)

/-- **D5 (pruner_spec, clause 3, strict form).**  If the witness oracle answers `some w` only with a belief at
    which the candidate is strictly above all rows it was given, then every vector kept by
    `Pruner::operator()` is, at some belief, STRICTLY above every kept vector different from it (exact
    duplicates of a kept vector are the only exception).  This is what the lexicographic tie-break of
    `findBestAtPoint` / `findBestAtSimplexCorner` is for; the variant without it violates the statement (E). -/
theorem pruner_witness_strict (n : Nat) (hn : 0 < n)
    (hsome : ∀ best v w, oracle best v = some w → IsBelief n w ∧ ∀ g ∈ best, dot w g < dot w v)
    (S : Nat) (hS : S ≤ n) (xs : List Vec) (hlen : ∀ v ∈ xs, v.length = n) :
    ∀ g ∈ (pruner dom oracle S xs).1, ∃ b, IsBelief n b ∧
      ∀ g' ∈ (pruner dom oracle S xs).1, g' ≠ g → dot b g' < dot b g := by
  have h0 := extractDominated_perm dom xs
  have hlen0 : ∀ v ∈ (extractDominated dom xs).1, v.length = n :=
    fun v hv => hlen v (h0.mem_iff.mp (List.mem_append_left _ hv))
  unfold pruner
  by_cases hlt : (extractDominated dom xs).1.length < 2
  · simp only [hlt, if_true]
    intro g hg
    refine ⟨unitVec n 0, unitVec_isBelief n 0 hn, fun g' hg' hne => ?_⟩
    -- fewer than two kept vectors: g' = g
    have : g' = g := by
      match hk : (extractDominated dom xs).1, hlt, hg, hg' with
      | [], _, hg, _ => simp at hg
      | [a], _, hg, hg' => simp at hg hg'; rw [hg, hg']
      | _ :: _ :: _, hlt, _, _ => simp at hlt; omega
    exact absurd this hne
  · simp only [hlt, if_false]
    have hne : ([] : List Vec) ++ (extractDominated dom xs).1 ≠ [] := by
      intro h; simp at h; rw [h] at hlt; simp at hlt
    have hc := cornersLoop_perm (List.range S) [] (extractDominated dom xs).1 hne
    simp only [List.nil_append] at hc
    intro g hg
    rcases prunerLoop_strict oracle n hn hsome _ _ _ [] (Nat.le_refl _)
        (fun v hv => hlen0 v (hc.mem_iff.mp hv)) g hg with hb | hw
    · -- found at a corner: strictly best among the whole array, which contains every finally kept vector
      rcases cornersLoop_strict n (List.range S) [] (extractDominated dom xs).1 hne
          (fun s hs => Nat.lt_of_lt_of_le (List.mem_range.mp hs) hS)
          (by simpa using hlen0) g hb with hnil | ⟨bel, hbel, hstr⟩
      · simp at hnil
      · refine ⟨bel, hbel, fun g' hg' hne' => hstr g' ?_ hne'⟩
        simp only [List.nil_append]
        exact hc.mem_iff.mp (prunerLoop_best_sub oracle _ _ _ [] g' hg')
    · exact hw

end pruner

/-! ## E. The tie-break is NECESSARY (kernel-evaluated witness)

  `findBestNoTie` is the same scan with the acceptance test `bv < c` only.  On the list below (five vectors of
  dimension 3, none dominated by another) the scan at corner 0 WITHOUT the tie-break selects `[1, 1/5, 1/5]`,
  which lies componentwise below the midpoint of `[1, 1/2, 0]` and `[1, 0, 1/2]`: at no belief is it strictly
  above both, so it is nowhere needed and the strict statement D fails for that variant.  WITH the tie-break
  `findBest` selects `[1, 1/2, 0]`. -/

/-- the loop of `findBestFrom` with the tie-break clause removed -/
def findBestFromNoTie (score : Vec → Rat) : List Vec → Nat → Nat → Rat → Nat
  | [], _, bi, _ => bi
  | v :: vs, i, bi, bv =>
    let c := score v
    if decide (bv < c) then findBestFromNoTie score vs (i+1) i c
    else findBestFromNoTie score vs (i+1) bi bv

def findBestNoTie (score : Vec → Rat) : List Vec → Nat
  | [] => 0
  | v :: vs => findBestFromNoTie score vs 1 0 (score v)

def tieL : List Vec := [[1, 1/5, 1/5], [1, 1/2, 0], [1, 0, 1/2], [0, 2, 0], [0, 0, 2]]

/-- without the tie-break corner 0 selects entry 0, `[1, 1/5, 1/5]` -/
theorem noTie_selects : tieL.getD (findBestNoTie (fun v => v.getD 0 0) tieL) [] = [1, 1/5, 1/5] := by
  decide +kernel

/-- with the tie-break corner 0 selects entry 1, `[1, 1/2, 0]` -/
theorem tie_selects : tieL.getD (findBest (fun v => v.getD 0 0) tieL) [] = [1, 1/2, 0] := by
  decide +kernel

/-- the vector selected without the tie-break is covered: componentwise
    `[1, 1/5, 1/5] ≤ 1/2·[1, 1/2, 0] + 1/2·[1, 0, 1/2]` -/
theorem noTie_covered : ∀ i ∈ [0, 1, 2],
    ([1, 1/5, 1/5] : Vec).getD i 0 ≤ 1/2 * ([1, 1/2, 0] : Vec).getD i 0 + 1/2 * ([1, 0, 1/2] : Vec).getD i 0 := by
  decide +kernel

/-- no vector of the list is exactly dominated by another one (so `extractDominated` with an exact test removes
    nothing: the example survives the first stage of `Pruner`) -/
theorem tieL_antichain : ∀ a ∈ tieL, ∀ b ∈ tieL, a ≠ b → domExact a b = false := by
  decide +kernel

/-- hence at NO belief is `[1, 1/5, 1/5]` strictly above both `[1, 1/2, 0]` and `[1, 0, 1/2]`: the selection
    without tie-break keeps a vector that is nowhere strictly best, `pruner_witness_strict` fails for it -/
theorem noTie_not_strict (b : Vec) (hb : IsBelief 3 b) :
    ¬ (dot b [1, 1/2, 0] < dot b [1, 1/5, 1/5] ∧ dot b [1, 0, 1/2] < dot b [1, 1/5, 1/5]) := by
  obtain ⟨hl, hnn, _⟩ := hb
  match b, hl with
  | [b0, b1, b2], _ =>
    have h1 : 0 ≤ b1 := hnn b1 (by simp)
    have h2 : 0 ≤ b2 := hnn b2 (by simp)
    simp only [dot]
    rintro ⟨h3, h4⟩
    linarith

/-- whereas the vector selected WITH the tie-break is strictly above every other vector of the list at the
    belief `[4/5, 1/5, 0]` -/
theorem tie_strict : IsBelief 3 [4/5, 1/5, 0] ∧
    ∀ x ∈ tieL, x ≠ [1, 1/2, 0] → dot [4/5, 1/5, 0] x < dot [4/5, 1/5, 0] [1, 1/2, 0] := by
  refine ⟨⟨rfl, by decide +kernel, by decide +kernel⟩, ?_⟩
  intro x hx hne
  simp only [tieL, List.mem_cons, List.not_mem_nil, or_false] at hx
  rcases hx with rfl | rfl | rfl | rfl | rfl
  · simp only [dot]; norm_num
  · exact absurd rfl hne
  · simp only [dot]; norm_num
  · simp only [dot]; norm_num
  · simp only [dot]; norm_num

end AITB.Prune
