/-
  AITB.Props.C15Flat — the flat LPs the driver certifies (`flpFlatRows`, `mdpFlatRows`: one or two `≥` rows per joint
  assignment) say exactly what the property states, and therefore have the same feasible set — hence the same optimum —
  as the LPs the library builds (`factoredLP_same_feasible`, `mdpLP_same_feasible`).
-/
import AITB.Props.C15Mdp

namespace AITB.FLP
open AITB.Factored AITB.VE

theorem getD_append_lt (a b : List Rat) (i : Nat) (h : i < a.length) : (a ++ b).getD i 0 = a.getD i 0 := by
  simp [List.getD_eq_getElem?_getD, List.getElem?_append_left h]

theorem getD_append_len (a : List Rat) (α : Rat) : (a ++ [α]).getD a.length 0 = α := by
  simp [List.getD_eq_getElem?_getD]

theorem dotN_append_one (a x : List Rat) (α : Rat) : dotN (a.length + 1) (a ++ [α]) x = dotN a.length a x + α * x.getD a.length 0 := by
  simp only [dotN, sumTo, getD_append_len]
  congr 1
  apply sumTo_congr
  intro i hi
  rw [getD_append_lt a [α] i hi]

theorem getD_map_neg : ∀ (a : List Rat) (i : Nat), (a.map (fun q => -q)).getD i 0 = - a.getD i 0
  | [], i => by simp
  | q :: qs, 0 => by simp
  | q :: qs, i+1 => by simpa using getD_map_neg qs i

theorem dotN_map_neg (m : Nat) (a x : List Rat) : dotN m (a.map (fun q => -q)) x = - dotN m a x := by
  simp only [dotN]
  have : (fun i => (a.map (fun q => -q)).getD i 0 * x.getD i 0) = fun i => (-1 : Rat) * (a.getD i 0 * x.getD i 0) := by
    funext i; rw [getD_map_neg]; ring
  rw [this, sumTo_mul]; ring

theorem dotN_wAt (S : List Nat) (C : List Basis) (x : List Rat) (s : List Nat) :
    dotN (C.map (·.at S s)).length (C.map (·.at S s)) x = wAt S C x s := by
  simp only [dotN, wAt, List.length_map]
  apply sumTo_congr
  intro i _; ring

/-- the two flat rows of a state say `−φ ≤ err(s) ≤ φ` -/
theorem flpRowsAt_sat (S : List Nat) (C b : List Basis) (addConst : Bool) (x : List Rat) (s : List Nat) :
    (∀ r ∈ flpRowsAt S C b addConst s, r.sat (flpNVars C addConst) x) ↔
      (- x.getD (flpPhi C addConst) 0 ≤ flpErr S C b addConst x s ∧ flpErr S C b addConst x s ≤ x.getD (flpPhi C addConst) 0) := by
  have hl : (C.map (·.at S s)).length = C.length := by simp
  cases addConst with
  | false =>
    have e1 : dotN (C.length + 1) ((C.map (·.at S s)).map (fun q => -q) ++ [1]) x
        = - wAt S C x s + x.getD C.length 0 := by
      have := dotN_append_one ((C.map (·.at S s)).map (fun q => -q)) x 1
      simp only [List.length_map] at this
      rw [this, dotN_map_neg, ← hl, dotN_wAt, hl]; ring
    have e2 : dotN (C.length + 1) (C.map (·.at S s) ++ [1]) x = wAt S C x s + x.getD C.length 0 := by
      have := dotN_append_one (C.map (·.at S s)) x 1
      simp only [List.length_map] at this
      rw [this, ← hl, dotN_wAt, hl]; ring
    simp only [flpRowsAt, flpNVars, flpPhi, flpErr, List.mem_cons, List.mem_nil_iff, or_false, forall_eq_or_imp, forall_eq,
               GeRow.sat, GeRow.val, Bool.false_eq_true, if_false, List.map_nil, List.append_nil, Nat.add_zero, e1, e2]
    constructor <;> rintro ⟨h1, h2⟩ <;> constructor <;> linarith
  | true =>
    have e1 : dotN (C.length + 1 + 1) ((C.map (·.at S s)).map (fun q => -q) ++ [-1] ++ [1]) x
        = - wAt S C x s - x.getD C.length 0 + x.getD (C.length + 1) 0 := by
      have t1 := dotN_append_one ((C.map (·.at S s)).map (fun q => -q) ++ [-1]) x 1
      have t2 := dotN_append_one ((C.map (·.at S s)).map (fun q => -q)) x (-1)
      simp only [List.length_map, List.length_append, List.length_cons, List.length_nil] at t1 t2
      rw [t1, t2, dotN_map_neg, ← hl, dotN_wAt, hl]; ring
    have e2 : dotN (C.length + 1 + 1) (C.map (·.at S s) ++ [1] ++ [1]) x
        = wAt S C x s + x.getD C.length 0 + x.getD (C.length + 1) 0 := by
      have t1 := dotN_append_one (C.map (·.at S s) ++ [1]) x 1
      have t2 := dotN_append_one (C.map (·.at S s)) x 1
      simp only [List.length_map, List.length_append, List.length_cons, List.length_nil] at t1 t2
      rw [t1, t2, ← hl, dotN_wAt, hl]; ring
    simp only [flpRowsAt, flpNVars, flpPhi, flpErr, List.mem_cons, List.mem_nil_iff, or_false, forall_eq_or_imp, forall_eq,
               GeRow.sat, GeRow.val, if_true, List.map_cons, List.map_nil, e1, e2]
    constructor <;> rintro ⟨h1, h2⟩ <;> constructor <;> linarith

/-- **the flat LP of FactoredLP is the property's statement**: `x = (w, φ)` satisfies every row of `flpFlatRows` iff
    `|Σ_k w_k C_k(s) [+ w_const] − b(s)| ≤ φ` at every joint state -/
theorem flpFlatRows_sat_iff (S : List Nat) (C b : List Basis) (addConst : Bool) (x : List Rat) :
    (∀ r ∈ flpFlatRows S C b addConst, r.sat (flpNVars C addConst) x) ↔
      ∀ s, Valid S s → - x.getD (flpPhi C addConst) 0 ≤ flpErr S C b addConst x s ∧
                        flpErr S C b addConst x s ≤ x.getD (flpPhi C addConst) 0 := by
  simp only [flpFlatRows, List.mem_flatMap]
  constructor
  · intro h s hs
    exact (flpRowsAt_sat S C b addConst x s).mp (fun r hr => h r ⟨s, (mem_allActs S s).mpr hs, hr⟩)
  · rintro h r ⟨s, hs, hr⟩
    exact (flpRowsAt_sat S C b addConst x s).mpr (h s ((mem_allActs S s).mp hs)) r hr

/-- **same feasible set, hence same optimum**: a point `x = (w, φ)` is feasible for the flat LP iff the LP FactoredLP
    builds has a solution whose first columns are `x`; both LPs minimise the same coordinate φ -/
theorem factoredLP_same_feasible (S : List Nat) (hS : ∀ d ∈ S, 0 < d) (C b : List Basis) (addConst : Bool)
    (hC : ∀ f ∈ C, BasisWF S f) (hb : ∀ f ∈ b, BasisWF S f) (hne : addConst = true → C ≠ []) (x : List Rat) :
    (∃ u : Nat → Rat, (∀ k, k ≤ flpPhi C addConst → u k = x.getD k 0) ∧ ∀ r ∈ (flpGen S C b addConst).1, r.sat u) ↔
      ∀ r ∈ flpFlatRows S C b addConst, r.sat (flpNVars C addConst) x := by
  rw [flpFlatRows_sat_iff, ← factoredLP_equiv S hS C b addConst hC hb hne x (x.getD (flpPhi C addConst) 0)]
  constructor
  · rintro ⟨u, h1, h2⟩
    exact ⟨u, fun k hk => h1 k (by omega), h1 _ (le_refl _), h2⟩
  · rintro ⟨u, h1, h2, h3⟩
    refine ⟨u, fun k hk => ?_, h3⟩
    rcases Nat.lt_or_ge k (flpPhi C addConst) with h | h
    · exact h1 k h
    · have : k = flpPhi C addConst := by omega
      rw [this]; exact h2

/-! ## the flat LP of the factored-MDP solver -/

theorem getD_map_lt {α : Type} (f : α → Rat) (l : List α) (i : Nat) (h : i < l.length) :
    (l.map f).getD i 0 = f l[i] := by
  simp [List.getD_eq_getElem?_getD, h]

theorem mdpRowAt_sat (S A : List Nat) (ddn : List DNode) (R : List BasisM) (γ : Rat) (h : List Basis) (w : List Rat) (s a : List Nat) :
    (mdpRowAt S A ddn R γ h s a).sat h.length w ↔ mdpBackup S A ddn R γ h w s a ≤ mdpV S h w s := by
  have hval : (mdpRowAt S A ddn R γ h s a).val h.length w = wAt S h w s - γ * expect S A ddn (wAt S h w) s a := by
    have e : wAt S h w = fun s1 => sumTo h.length (fun k => w.getD k 0 * (fun k s1 => (h.map (·.at S s1)).getD k 0) k s1) := rfl
    rw [e, expect_linear, ← sumTo_mul]
    simp only [GeRow.val, mdpRowAt, dotN]
    have : ∀ x y : Rat, x - y = x + (-1) * y := fun x y => by ring
    rw [this, ← sumTo_mul, ← sumTo_add]
    apply sumTo_congr
    intro i hi
    rw [getD_map_lt _ h i hi, getD_map_lt _ h i hi]
    have : (fun s1 => (h.map (·.at S s1)).getD i 0) = fun s1 => h[i].at S s1 := by
      funext s1; rw [getD_map_lt _ h i hi]
    rw [this]; ring
  have hV : mdpV S h w = wAt S h w := rfl
  simp only [GeRow.sat, hval, mdpBackup, hV]
  simp only [mdpRowAt]
  constructor <;> intro hx <;> linarith

/-- **the flat LP of the factored-MDP solver is the property's statement**: `w` satisfies every row of `mdpFlatRows` iff
    `V_w ≥ R + γ P V_w` at every joint state and action -/
theorem mdpFlatRows_sat_iff (S A : List Nat) (ddn : List DNode) (R : List BasisM) (γ : Rat) (h : List Basis) (w : List Rat) :
    (∀ r ∈ mdpFlatRows S A ddn R γ h, r.sat h.length w) ↔
      ∀ s a, Valid S s → Valid A a → mdpBackup S A ddn R γ h w s a ≤ mdpV S h w s := by
  simp only [mdpFlatRows, List.mem_flatMap, List.mem_map]
  constructor
  · intro hx s a hs ha
    exact (mdpRowAt_sat S A ddn R γ h w s a).mp (hx _ ⟨s, (mem_allActs S s).mpr hs, a, (mem_allActs A a).mpr ha, rfl⟩)
  · rintro hx r ⟨s, hs, a, ha, rfl⟩
    exact (mdpRowAt_sat S A ddn R γ h w s a).mpr (hx s a ((mem_allActs S s).mp hs) ((mem_allActs A a).mp ha))

/-- **same feasible set** for the factored-MDP LP with the joined final row (the repaired code): `w` is feasible for the flat LP
    iff the LP `solveLP` builds has a solution with weights `w` -/
theorem mdpLP_same_feasible (S A : List Nat) (ddn : List DNode) (γ : Rat) (h : List Basis) (g R : List BasisM)
    (wf : MdpWF S A h g R) (w : List Rat)
    (hbp : ∀ s a, Valid S s → Valid A a → ∀ k, k < h.length →
      (g.map (·.at S A s a)).getD k 0 = expect S A ddn (fun s1 => (h.map (·.at S s1)).getD k 0) s a) :
    (∃ u : Nat → Rat, (∀ k, k < h.length → u k = w.getD k 0) ∧ ∀ r ∈ (mdpGen true S A γ h g R).1, r.sat u) ↔
      ∀ r ∈ mdpFlatRows S A ddn R γ h, r.sat h.length w := by
  rw [mdpFlatRows_sat_iff, mdpLP_equiv_bellman S A ddn γ h g R wf w hbp]

/-- the code as written (one row per final factor): every solution of the built LP is feasible for the flat LP — returned
    weights always satisfy `V ≥ R + γ P V` — but not conversely (`mdp_perFinal_counterexample`) -/
theorem mdpLP_sound_flat (joined : Bool) (S A : List Nat) (ddn : List DNode) (γ : Rat) (h : List Basis) (g R : List BasisM)
    (wf : MdpWF S A h g R) (w : List Rat)
    (hbp : ∀ s a, Valid S s → Valid A a → ∀ k, k < h.length →
      (g.map (·.at S A s a)).getD k 0 = expect S A ddn (fun s1 => (h.map (·.at S s1)).getD k 0) s a)
    (hsol : ∃ u : Nat → Rat, (∀ k, k < h.length → u k = w.getD k 0) ∧ ∀ r ∈ (mdpGen joined S A γ h g R).1, r.sat u) :
    ∀ r ∈ mdpFlatRows S A ddn R γ h, r.sat h.length w := by
  rw [mdpFlatRows_sat_iff]
  intro s a hs ha
  rw [← gform_eq_backup S A ddn γ h g R w s a wf.hgl (hbp s a hs ha)]
  exact mdpLP_sound joined S A γ h g R wf w hsol s a hs ha

/-! ## same optimum -/

theorem getD_range_map (u : Nat → Rat) (m k : Nat) (h : k < m) : ((List.range m).map u).getD k 0 = u k := by
  simp [List.getD_eq_getElem?_getD, h]

theorem dotN_replicate_zero (m : Nat) (x : List Rat) : dotN m (List.replicate m 0) x = 0 := by
  simp only [dotN]
  have : (fun i => (List.replicate m (0 : Rat)).getD i 0 * x.getD i 0) = fun _ => 0 := by
    funext i
    have h0 : (List.replicate m (0 : Rat)).getD i 0 = 0 := by
      simp only [List.getD_eq_getElem?_getD, List.getElem?_replicate]
      split <;> rfl
    rw [h0]; ring
  rw [this, sumTo_zero]

/-- the flat objective of FactoredLP is the coordinate φ -/
theorem flpObj_dot (C : List Basis) (addConst : Bool) (x : List Rat) :
    dotN (flpNVars C addConst) (flpObj C addConst) x = x.getD (flpPhi C addConst) 0 := by
  have h := dotN_append_one (List.replicate (C.length + (if addConst then 1 else 0)) 0) x 1
  simp only [List.length_replicate] at h
  simp only [flpNVars, flpObj, flpPhi]
  rw [h, dotN_replicate_zero]; ring

/-- **`factoredLP_same_optimum`**: if the driver's certificate check accepts `(x, y)` for the FLAT LP, then `x` extends to a
    solution of the LP FactoredLP builds, and EVERY solution of that LP has `φ ≥` the certified optimum `x_φ`:
    the two LPs have the same optimal value -/
theorem factoredLP_same_optimum (S : List Nat) (hS : ∀ d ∈ S, 0 < d) (C b : List Basis) (addConst : Bool)
    (hC : ∀ f ∈ C, BasisWF S f) (hb : ∀ f ∈ b, BasisWF S f) (hne : addConst = true → C ≠ []) (x y : List Rat)
    (hopt : optimalPairB (flpNVars C addConst) (flpFlatRows S C b addConst) (flpObj C addConst) x y = true) :
    (∃ u : Nat → Rat, (∀ k, k ≤ flpPhi C addConst → u k = x.getD k 0) ∧ ∀ r ∈ (flpGen S C b addConst).1, r.sat u) ∧
    (∀ u : Nat → Rat, (∀ r ∈ (flpGen S C b addConst).1, r.sat u) → x.getD (flpPhi C addConst) 0 ≤ u (flpPhi C addConst)) := by
  obtain ⟨hfeas, _, hmin⟩ := optimalPair_sound _ _ _ x y hopt
  refine ⟨(factoredLP_same_feasible S hS C b addConst hC hb hne x).mpr hfeas, ?_⟩
  intro u hu
  have hx' := (factoredLP_same_feasible S hS C b addConst hC hb hne ((List.range (flpPhi C addConst + 1)).map u)).mp
    ⟨u, fun k hk => (getD_range_map u _ k (by omega)).symm, hu⟩
  have := hmin _ hx'
  rw [flpObj_dot, flpObj_dot, getD_range_map u _ _ (by omega)] at this
  exact this

/-- the same for the factored-MDP LP with the joined final row: a certified flat optimum `w` extends to a solution of the
    built LP, and every solution of the built LP has an objective ≥ the certified one -/
theorem mdpLP_same_optimum (S A : List Nat) (ddn : List DNode) (γ : Rat) (h : List Basis) (g R : List BasisM)
    (wf : MdpWF S A h g R)
    (hbp : ∀ s a, Valid S s → Valid A a → ∀ k, k < h.length →
      (g.map (·.at S A s a)).getD k 0 = expect S A ddn (fun s1 => (h.map (·.at S s1)).getD k 0) s a)
    (c w y : List Rat) (hopt : optimalPairB h.length (mdpFlatRows S A ddn R γ h) c w y = true) :
    (∃ u : Nat → Rat, (∀ k, k < h.length → u k = w.getD k 0) ∧ ∀ r ∈ (mdpGen true S A γ h g R).1, r.sat u) ∧
    (∀ u : Nat → Rat, (∀ r ∈ (mdpGen true S A γ h g R).1, r.sat u) →
      dotN h.length c w ≤ dotN h.length c ((List.range h.length).map u)) := by
  obtain ⟨hfeas, _, hmin⟩ := optimalPair_sound _ _ _ w y hopt
  refine ⟨(mdpLP_same_feasible S A ddn γ h g R wf w hbp).mpr hfeas, ?_⟩
  intro u hu
  exact hmin _ ((mdpLP_same_feasible S A ddn γ h g R wf ((List.range h.length).map u) hbp).mp
    ⟨u, fun k hk => (getD_range_map u _ k hk).symm, hu⟩)

/-! ## the driver's FactoredLP verdict, as a statement about max-norm errors -/

theorem absQ_le_iff (e φ : Rat) : absQ e ≤ φ ↔ -φ ≤ e ∧ e ≤ φ := by
  unfold absQ
  split
  · constructor
    · intro h; constructor <;> linarith
    · rintro ⟨h1, _⟩; linarith
  · constructor
    · intro h; constructor <;> linarith
    · rintro ⟨_, h2⟩; exact h2

/-- **what `ok` means for a FactoredLP case**: if the driver's certificate `y` passes `dualOk` for the flat LP and the
    returned weights' max-norm error is within `ε` of the certified bound, then the returned weights MINIMISE the max-norm
    error between the weighted basis and the target up to `ε`: no weight vector `w'` does better by more than `ε` -/
theorem flp_verdict_sound (S : List Nat) (C b : List Basis) (addConst : Bool) (w y : List Rat) (ε : Rat)
    (hd : dualOk (flpNVars C addConst) (flpFlatRows S C b addConst) (flpObj C addConst) y = true)
    (hw : flpMaxErr S C b addConst w ≤ dualVal (flpFlatRows S C b addConst) y + ε) :
    ∀ w' : List Rat, w'.length = flpPhi C addConst → flpMaxErr S C b addConst w ≤ flpMaxErr S C b addConst w' + ε := by
  intro w' hlen
  -- (w', maxerr w') is feasible for the flat LP
  have hfeas : ∀ r ∈ flpFlatRows S C b addConst, r.sat (flpNVars C addConst) (w' ++ [flpMaxErr S C b addConst w']) := by
    rw [flpFlatRows_sat_iff]
    intro s hs
    have hphi : (w' ++ [flpMaxErr S C b addConst w']).getD (flpPhi C addConst) 0 = flpMaxErr S C b addConst w' := by
      rw [← hlen]; exact getD_append_len w' _
    have herr : flpErr S C b addConst (w' ++ [flpMaxErr S C b addConst w']) s = flpErr S C b addConst w' s := by
      have hk : ∀ k, k < w'.length → (w' ++ [flpMaxErr S C b addConst w']).getD k 0 = w'.getD k 0 :=
        fun k hk => getD_append_lt w' _ k hk
      have hCl : C.length ≤ w'.length := by rw [hlen]; simp only [flpPhi]; omega
      simp only [flpErr, wAt]
      congr 1
      congr 1
      · apply sumTo_congr
        intro i hi; rw [hk i (by omega)]
      · cases addConst with
        | false => rfl
        | true =>
          simp only [if_true]
          exact hk _ (by rw [hlen]; simp [flpPhi])
    rw [hphi, herr, ← absQ_le_iff]
    exact maxL_ge _ _ (List.mem_map.mpr ⟨s, (mem_allActs S s).mpr hs, rfl⟩)
  have h1 := weak_duality_sound _ _ _ y _ hd hfeas
  rw [flpObj_dot] at h1
  have hphi : (w' ++ [flpMaxErr S C b addConst w']).getD (flpPhi C addConst) 0 = flpMaxErr S C b addConst w' := by
    rw [← hlen]; exact getD_append_len w' _
  rw [hphi] at h1
  linarith

end AITB.FLP
