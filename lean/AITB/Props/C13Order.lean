/-
  AITB.Props.C13Order — removal-order independence at the TABLE level: `VariableElimination` (the data structure the code
  manipulates: sorted rule vectors, lower_bound lookups, merge on collision, tags) returns what it claims under EVERY
  variable-selection heuristic that picks an active variable — `FactorGraph::bestVariableToRemove` is one instance
  (`tveLoop_eq_By`), so no change of that heuristic can break the property.
-/
import AITB.Props.C13QF

namespace AITB.VE
open AITB.Factored


theorem tveLoop_eq_By (A : List Nat) (n : Nat) : ∀ (fuel : Nat) (active : List Nat) (st : TState),
    tveLoop A n fuel active st = tveLoopBy (fun act g => bestVar A n act (g.map (·.keys))) A n fuel active st
  | 0, _, _ => rfl
  | _+1, [], _ => rfl
  | fuel+1, a :: as, st => by simp only [tveLoop, tveLoopBy]; exact tveLoop_eq_By A n fuel _ _

section anypick
variable (pick : List Nat → List TNode → Nat) (hpick : ∀ (active : List Nat) (g : List TNode), active ≠ [] → pick active g ∈ active)
include hpick

theorem tveLoopBy_spec (A : List Nat) (hA : ∀ d ∈ A, 0 < d) : ∀ (fuel : Nat) (active : List Nat) (st : TState),
    active.length ≤ fuel → (∀ u ∈ active, u < A.length) → LInv active st.graph →
      (tveLoopBy pick A A.length fuel active st).graph = [] ∧
      (∀ a, Valid A a → stVal A a st ≤ stVal A a (tveLoopBy pick A A.length fuel active st)) ∧
      (∀ a, Valid A a → ∃ a', Valid A a' ∧ stVal A a' st = stVal A a (tveLoopBy pick A A.length fuel active st)) := by
  intro fuel
  induction fuel with
  | zero =>
    intro active st hlen _ hinv
    have : active = [] := List.length_eq_zero_iff.mp (by omega)
    subst this
    have := tveLoop_nil A 0 st hinv
    simpa [tveLoopBy, tveLoop] using this
  | succ fuel ih =>
    intro active st hlen hact hinv
    cases active with
    | nil =>
      have := tveLoop_nil A (fuel+1) st hinv
      simpa [tveLoopBy, tveLoop] using this
    | cons x xs =>
      obtain ⟨v, hvdef⟩ : ∃ v, v = pick (x :: xs) st.graph := ⟨_, rfl⟩
      have hvmem : v ∈ x :: xs := by rw [hvdef]; exact hpick _ _ (by simp)
      have hv : v < A.length := hact v hvmem
      have hpos : 0 < A.getD v 0 := getD_pos A hA v hv
      have hk : GKeys A.length st.graph := fun nd hnd u hu => hact u ((hinv nd hnd).2 u hu)
      have hstep : tveLoopBy pick A A.length (fuel+1) (x :: xs) st
          = tveLoopBy pick A A.length fuel ((x :: xs).filter (· != v)) (removeVar A A.length v st) := by
        rw [hvdef]; rfl
      rw [hstep]
      have hlen' : ((x :: xs).filter (· != v)).length ≤ fuel := by
        have := length_filter_ne_lt v (x :: xs) hvmem
        simp only [List.length_cons] at hlen this ⊢; omega
      obtain ⟨h1, h2, h3⟩ := ih ((x :: xs).filter (· != v)) (removeVar A A.length v st) hlen'
        (fun u hu => hact u (List.mem_filter.mp hu).1) (removeVar_LInv A v (x :: xs) st hinv)
      refine ⟨h1, ?_, ?_⟩
      · intro a ha
        exact le_trans (removeVar_ge A a v st ha hv hpos hk) (h2 a ha)
      · intro a ha
        obtain ⟨a1, ha1, e1⟩ := h3 a ha
        obtain ⟨k, hk1, e2⟩ := removeVar_attained A a1 v st ha1 hv hpos hk
        exact ⟨setAt a1 v k, valid_setAt A a1 v k ha1 hk1 hv, by rw [e2, e1]⟩

theorem tveLoopBy_TagInv (A : List Nat) (rules : List Rule) (hA : ∀ d ∈ A, 0 < d) : ∀ (fuel : Nat) (active : List Nat) (st : TState),
    (∀ u ∈ active, u < A.length) → LInv active st.graph → TagInv A rules active st →
      TagInv A rules [] (tveLoopBy pick A A.length fuel active st) := by
  intro fuel
  induction fuel with
  | zero =>
    intro active st _ _ hP
    have : tveLoopBy pick A A.length 0 active st = st := rfl
    rw [this]; exact TagInv_mono A rules active [] st (by simp) hP
  | succ fuel ih =>
    intro active st hact hinv hP
    cases active with
    | nil => exact hP
    | cons x xs =>
      obtain ⟨v, hvdef⟩ : ∃ v, v = pick (x :: xs) st.graph := ⟨_, rfl⟩
      have hvmem : v ∈ x :: xs := by rw [hvdef]; exact hpick _ _ (by simp)
      have hv : v < A.length := hact v hvmem
      have hpos : 0 < A.getD v 0 := getD_pos A hA v hv
      have hk : GKeys A.length st.graph := fun nd hnd u hu => hact u ((hinv nd hnd).2 u hu)
      have hstep : tveLoopBy pick A A.length (fuel+1) (x :: xs) st
          = tveLoopBy pick A A.length fuel ((x :: xs).filter (· != v)) (removeVar A A.length v st) := by
        rw [hvdef]; rfl
      rw [hstep]
      exact ih _ _ (fun u hu => hact u (List.mem_filter.mp hu).1) (removeVar_LInv A v (x :: xs) st hinv)
        (removeVar_TagInv A rules (x :: xs) v st hvmem hv hpos hk hP)

/-- **VariableElimination returns what it claims under ANY variable-selection heuristic** (table level: the model of the
    code's data structure): in-range joint action, its true payoff = the reported value = the maximum over all joint
    actions. -/
theorem tveBy_correct (A : List Nat) (rules : List Rule) (hA : ∀ d ∈ A, 0 < d)
    (hwf : ∀ r ∈ rules, r.WF A) (hne : ∀ r ∈ rules, r.keys ≠ []) :
    Valid A (tveRunBy pick A rules).1 ∧ payoffL rules (tveRunBy pick A rules).1 = bruteMax A rules ∧
    (tveRunBy pick A rules).2 = bruteMax A rules := by
  have hinv : LInv (List.range A.length) (tInit A rules []) := by
    intro nd hnd
    rcases tInit_keys A rules [] nd hnd with ⟨r, hr, hk⟩ | ⟨_, h, _⟩
    · rw [hk]; exact ⟨hne r hr, fun u hu => List.mem_range.mpr ((hwf r hr).1 u hu)⟩
    · simp at h
  obtain ⟨h1, h2, h3⟩ := tveLoopBy_spec pick hpick A hA A.length (List.range A.length) ⟨tInit A rules [], []⟩
    (by simp) (fun u hu => List.mem_range.mp hu) hinv
  have hval : (tveRunBy pick A rules).2 = finalsVal (tveLoopBy pick A A.length A.length (List.range A.length) ⟨tInit A rules [], []⟩).finals := by
    simp only [tveRunBy, tMakeResult]
    rw [tMakeResult_val]; simp
  have hst0 : ∀ a, Valid A a → stVal A a ⟨tInit A rules [], []⟩ = payoffL rules a := by
    intro a ha
    simp only [stVal, finalsVal]
    rw [tInit_represents A a ha rules [] hwf]; simp [graphVal]
  have hend : ∀ a, stVal A a (tveLoopBy pick A A.length A.length (List.range A.length) ⟨tInit A rules [], []⟩) = (tveRunBy pick A rules).2 := by
    intro a; rw [hval]; simp only [stVal, h1, graphVal]; ring
  have hopt : (tveRunBy pick A rules).2 = bruteMax A rules := by
    apply le_antisymm
    · obtain ⟨a', ha', e⟩ := h3 (A.map (fun _ => 0)) (valid_zeros A hA)
      rw [hend, hst0 a' ha'] at e
      rw [← e]; exact bruteMax_ge A rules a' ha'
    · obtain ⟨a, ha, hp⟩ := bruteMax_attained A rules hA
      rw [← hp, ← hst0 a ha, ← hend a]
      exact h2 a ha
  -- the action
  have hsel0 : ∀ a, selTags A a ⟨tInit A rules [], []⟩ = [] := by
    intro a
    apply List.eq_nil_iff_forall_not_mem.mpr
    intro t ht
    simp only [selTags, finalsTags, List.append_nil] at ht
    rw [mem_graphTags_tInit] at ht
    simp [graphTags] at ht
  have hP0 : TagInv A rules (List.range A.length) ⟨tInit A rules [], []⟩ := by
    intro a ha
    rw [hsel0 a]
    refine ⟨?_, fun _ _ _ h => by simp at h, fun _ h => by simp at h⟩
    simp only [applyTags, List.foldl_nil, stVal, finalsVal]
    rw [tInit_represents A a ha rules [] hwf]; simp [graphVal]
  have hPend := tveLoopBy_TagInv pick hpick A rules hA A.length (List.range A.length) ⟨tInit A rules [], []⟩
    (fun u hu => List.mem_range.mp hu) hinv hP0
  have hz : Valid A (A.map (fun _ => 0)) := valid_zeros A hA
  have hzr : A.map (fun _ => 0) = List.replicate A.length 0 := map_zero_replicate A
  obtain ⟨p1, p2, p3⟩ := hPend _ hz
  have hsel : selTags A (A.map (fun _ => 0)) (tveLoopBy pick A A.length A.length (List.range A.length) ⟨tInit A rules [], []⟩)
      = finalsTags (tveLoopBy pick A A.length A.length (List.range A.length) ⟨tInit A rules [], []⟩).finals := by
    simp only [selTags, h1, graphTags, List.nil_append]
  have hact : (tveRunBy pick A rules).1 = applyTags (finalsTags (tveLoopBy pick A A.length A.length (List.range A.length) ⟨tInit A rules [], []⟩).finals)
      (A.map (fun _ => 0)) := by
    simp only [tveRunBy, tMakeResult]
    rw [tMakeResult_act, hzr]
  rw [hsel] at p1 p2 p3
  have hvalid : Valid A (tveRunBy pick A rules).1 := by
    rw [hact, valid_iff_getD]
    refine ⟨by rw [length_applyTags]; simp, ?_⟩
    intro i hi
    have hl : ∀ t ∈ finalsTags (tveLoopBy pick A A.length A.length (List.range A.length) ⟨tInit A rules [], []⟩).finals,
        t.1 < (A.map (fun _ => 0)).length := fun t ht => by simp; exact (p3 t ht).1
    by_cases hex : ∃ k, (i, k) ∈ finalsTags (tveLoopBy pick A A.length A.length (List.range A.length) ⟨tInit A rules [], []⟩).finals
    · obtain ⟨k, hk⟩ := hex
      rw [applyTags_tagged _ _ i k hl p2 hk]
      exact (p3 _ hk).2.2
    · rw [applyTags_untagged _ _ i hl (fun k hk => hex ⟨k, hk⟩)]
      exact ((valid_iff_getD A _).mp hz).2 i hi
  refine ⟨hvalid, ?_, hopt⟩
  rw [hact, p1, ← hopt, hval]
  simp only [stVal, h1, graphVal]; ring

end anypick

/-- the heuristic of the library is one such `pick` … -/
theorem tveRun_eq_By (A : List Nat) (rules : List Rule) :
    tveRun A rules = tveRunBy (fun act g => bestVar A A.length act (g.map (·.keys))) A rules := by
  unfold tveRun tveRunBy; simp only; rw [tveLoop_eq_By]

/-- … and so is, for instance, "last active variable first" (the hypothesis of `tveBy_correct` is satisfiable by a
    heuristic different from the library's; test on a literal: same value, an optimal action) -/
example : (∀ (active : List Nat) (g : List TNode), active ≠ [] → (fun (act : List Nat) (_ : List TNode) => act.getLastD 0) active g ∈ active) ∧
    tveRunBy (fun act _ => act.getLastD 0) [2,3,2,2] [⟨[0,1],[1,2],-3/2⟩, ⟨[1],[2],2⟩, ⟨[0,1],[1,2],1/4⟩, ⟨[3],[0],-1/2⟩, ⟨[0,1,3],[0,0,1],5/4⟩]
      = ([0,2,0,1], 2) := by
  refine ⟨?_, by decide +kernel⟩
  intro active g h
  simp only
  rw [List.getLastD_eq_getLast?, List.getLast?_eq_some_getLast h]
  exact List.getLast_mem h

end AITB.VE
