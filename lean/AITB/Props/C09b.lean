/-
  C09 part b — QGreedyPolicyWrapper: the three scans (sampleAction / getActionProbability / getPolicy)
  agree under the property's separation hypothesis, put all mass uniformly on the arg-max set, and are
  unchanged by adding a constant to every value.
-/
import AITB.Props.C09a

namespace AITB.Pol

/-- the property's separation hypothesis: two action values the library's `checkEqualGeneral` calls equal ARE equal
    ("exact ties allowed, otherwise values separated by far more than the documented tolerances") -/
def Sep (q : Nat → Rat) (n : Nat) : Prop := ∀ i j, i < n → j < n → ceG (q i) (q j) = true → q i = q j

theorem Sep.iff {q : Nat → Rat} {n : Nat} (h : Sep q n) {i j : Nat} (hi : i < n) (hj : j < n) :
    ceG (q i) (q j) = true ↔ q i = q j :=
  ⟨h i j hi hj, fun e => by rw [e]; exact ceG_refl _⟩

/-- the tie-set predicate -/
def isTop (q : Nat → Rat) (m : Rat) (i : Nat) : Bool := decide (q i = m)

/-- invariant of the `sampleAction` loop -/
theorem gScan_inv {q : Nat → Rat} {n : Nat} (hsep : Sep q n) : ∀ k, k < n →
    (∀ i, i ≤ k → q i ≤ (gScan q k).best) ∧ (∃ i, i ≤ k ∧ q i = (gScan q k).best) ∧
    (gScan q k).buf = (List.range (k + 1)).filter (isTop q (gScan q k).best) := by
  intro k
  induction k with
  | zero =>
    intro _
    refine ⟨fun i hi => by obtain rfl : i = 0 := by omega
                           exact le_refl _, ⟨0, le_refl _, rfl⟩, ?_⟩
    simp [gScan, isTop, List.range_succ]
  | succ k ih =>
    intro hk
    obtain ⟨h1, ⟨j, hj, hjb⟩, h3⟩ := ih (by omega)
    rw [gScan]
    have hrange : List.range (k + 1 + 1) = List.range (k + 1) ++ [k + 1] := List.range_succ
    by_cases hc : ceG (q (k + 1)) (gScan q k).best = true
    · -- tie with the running best
      have heq : q (k + 1) = (gScan q k).best := by
        rw [← hjb] at hc ⊢; exact hsep _ _ hk (by omega) hc
      have hstep : gStep q (gScan q k) (k + 1) = { gScan q k with buf := (gScan q k).buf ++ [k + 1] } := by
        unfold gStep; rw [if_pos hc]
      rw [hstep]
      refine ⟨fun i hi => ?_, ⟨j, by omega, hjb⟩, ?_⟩
      · rcases Nat.lt_or_ge i (k + 1) with h | h
        · exact h1 i (by omega)
        · have : i = k + 1 := by omega
          subst this; exact le_of_eq heq
      · show (gScan q k).buf ++ [k + 1] = _
        rw [hrange, List.filter_append, h3]; simp [isTop, heq]
    · by_cases hgt : (gScan q k).best < q (k + 1)
      · have hstep : gStep q (gScan q k) (k + 1) = ⟨q (k + 1), [k + 1]⟩ := by
          unfold gStep; rw [if_neg hc, if_pos hgt]
        rw [hstep]
        refine ⟨fun i hi => ?_, ⟨k + 1, le_refl _, rfl⟩, ?_⟩
        · rcases Nat.lt_or_ge i (k + 1) with h | h
          · exact le_of_lt (lt_of_le_of_lt (h1 i (by omega)) hgt)
          · have : i = k + 1 := by omega
            subst this; exact le_refl _
        · rw [hrange, List.filter_append]
          have hnil : (List.range (k + 1)).filter (isTop q (q (k + 1))) = [] := by
            rw [List.filter_eq_nil_iff]
            intro i hi
            have hi' : i ≤ k := by have := List.mem_range.mp hi; omega
            have := h1 i hi'
            simp only [isTop, decide_eq_true_eq]
            intro he; rw [he] at this; linarith
          rw [hnil]; simp [isTop]
      · have hstep : gStep q (gScan q k) (k + 1) = gScan q k := by
          unfold gStep; rw [if_neg hc, if_neg hgt]
        rw [hstep]
        have hne : q (k + 1) ≠ (gScan q k).best := by
          intro he; rw [he, ceG_refl] at hc; exact hc rfl
        refine ⟨fun i hi => ?_, ⟨j, by omega, hjb⟩, ?_⟩
        · rcases Nat.lt_or_ge i (k + 1) with h | h
          · exact h1 i (by omega)
          · have : i = k + 1 := by omega
            subst this; exact not_lt.mp hgt
        · rw [hrange, List.filter_append, h3]; simp [isTop, hne]

/-- invariant of the first loop of `getPolicy` -/
theorem gMax_inv {q : Nat → Rat} {n : Nat} (hsep : Sep q n) : ∀ k, k < n →
    (∀ i, i ≤ k → q i ≤ (gMax q k).max) ∧ (∃ i, i ≤ k ∧ q i = (gMax q k).max) ∧
    (gMax q k).count = countTo (isTop q (gMax q k).max) (k + 1) := by
  intro k
  induction k with
  | zero =>
    intro _
    refine ⟨fun i hi => by obtain rfl : i = 0 := by omega
                           exact le_refl _, ⟨0, le_refl _, rfl⟩, ?_⟩
    simp [gMax, isTop, countTo]
  | succ k ih =>
    intro hk
    obtain ⟨h1, ⟨j, hj, hjb⟩, h3⟩ := ih (by omega)
    rw [gMax]
    by_cases hc : ceG (q (k + 1)) (gMax q k).max = true
    · have heq : q (k + 1) = (gMax q k).max := by
        rw [← hjb] at hc ⊢; exact hsep _ _ hk (by omega) hc
      have hstep : gmStep q (gMax q k) (k + 1) = { gMax q k with count := (gMax q k).count + 1 } := by
        unfold gmStep; rw [if_pos hc]
      rw [hstep]
      refine ⟨fun i hi => ?_, ⟨j, by omega, hjb⟩, ?_⟩
      · rcases Nat.lt_or_ge i (k + 1) with h | h
        · exact h1 i (by omega)
        · have : i = k + 1 := by omega
          subst this; exact le_of_eq heq
      · show (gMax q k).count + 1 = countTo (isTop q (gMax q k).max) (k + 1 + 1)
        rw [countTo, ← h3]; simp [isTop, heq]
    · by_cases hgt : (gMax q k).max < q (k + 1)
      · have hstep : gmStep q (gMax q k) (k + 1) = ⟨q (k + 1), 1⟩ := by
          unfold gmStep; rw [if_neg hc, if_pos hgt]
        rw [hstep]
        refine ⟨fun i hi => ?_, ⟨k + 1, le_refl _, rfl⟩, ?_⟩
        · rcases Nat.lt_or_ge i (k + 1) with h | h
          · exact le_of_lt (lt_of_le_of_lt (h1 i (by omega)) hgt)
          · have : i = k + 1 := by omega
            subst this; exact le_refl _
        · rw [countTo]
          have hz : countTo (isTop q (q (k + 1))) (k + 1) = 0 := by
            rw [countTo_eq_filter_length, List.length_eq_zero_iff, List.filter_eq_nil_iff]
            intro i hi
            have hi' : i ≤ k := by have := List.mem_range.mp hi; omega
            have := h1 i hi'
            simp only [isTop, decide_eq_true_eq]
            intro he; rw [he] at this; linarith
          rw [hz]; simp [isTop]
      · have hstep : gmStep q (gMax q k) (k + 1) = gMax q k := by
          unfold gmStep; rw [if_neg hc, if_neg hgt]
        rw [hstep]
        have hne : q (k + 1) ≠ (gMax q k).max := by
          intro he; rw [he, ceG_refl] at hc; exact hc rfl
        refine ⟨fun i hi => ?_, ⟨j, by omega, hjb⟩, ?_⟩
        · rcases Nat.lt_or_ge i (k + 1) with h | h
          · exact h1 i (by omega)
          · have : i = k + 1 := by omega
            subst this; exact not_lt.mp hgt
        · rw [countTo, ← h3]; simp [isTop, hne]

/-- the loop of `getActionProbability(a)` -/
theorem gProbAux_spec {q : Nat → Rat} {n a : Nat} (hsep : Sep q n) (ha : a < n) : ∀ k, k ≤ n →
    ((∀ i, i < k → q i ≤ q a) → gProbAux q a k = some (countTo (isTop q (q a)) k)) ∧
    ((∃ i, i < k ∧ q a < q i) → gProbAux q a k = none) := by
  intro k
  induction k with
  | zero => intro _; exact ⟨fun _ => rfl, fun ⟨i, hi, _⟩ => by omega⟩
  | succ k ih =>
    intro hk
    obtain ⟨ih1, ih2⟩ := ih (by omega)
    have hiff := hsep.iff (i := k) (j := a) (by omega) ha
    constructor
    · intro hall
      rw [gProbAux, ih1 (fun i hi => hall i (by omega)), countTo]
      by_cases he : q k = q a
      · have hc : ceG (q k) (q a) = true := hiff.mpr he
        have ht : isTop q (q a) k = true := by simp [isTop, he]
        simp only [hc, ht, if_true]
      · have hc : ¬ ceG (q k) (q a) = true := fun h => he (hiff.mp h)
        have ht : ¬ isTop q (q a) k = true := by simp [isTop, he]
        have hle := hall k (by omega)
        simp [hc, ht, not_lt.mpr hle]
    · rintro ⟨i, hi, hlt⟩
      rw [gProbAux]
      by_cases hex : ∃ i, i < k ∧ q a < q i
      · rw [ih2 hex]
      · have hik : i = k := by
          by_contra hne; exact hex ⟨i, by omega, hlt⟩
        subst hik
        have hall : ∀ j, j < i → q j ≤ q a := by
          intro j hj; by_contra hcon; exact hex ⟨j, hj, not_le.mp hcon⟩
        rw [ih1 hall]
        have : ¬ ceG (q i) (q a) = true := fun h => by have := hiff.mp h; linarith
        simp [this, hlt]

/-- **greedy_is_argmax** (property clauses "greedy-type policies put all mass on maximal-value actions",
    "the full policy table agrees with per-action queries", "sampling returns only … actions of positive probability",
    "probabilities … sum to one").  Under the separation hypothesis, for every number of actions `n ≥ 1` and every `q`
    of any sign: there is a value `m` that is the maximum of `q`; the tie list built by `sampleAction` is exactly the list
    of maximisers (in increasing order), `getActionProbability` is `1/|argmax|` on it and `0` elsewhere, `getPolicy`
    is the same table, the probabilities sum to one, and whatever engine words drive the pick, the sampled action is a
    maximiser of positive probability. -/
theorem greedy_is_argmax (q : Nat → Rat) (n : Nat) (hn : 0 < n) (hsep : Sep q n) :
    ∃ m : Rat, (∀ i, i < n → q i ≤ m) ∧ (∃ i, i < n ∧ q i = m) ∧
      (gScan q (n - 1)).buf = (List.range n).filter (isTop q m) ∧
      (∀ a, a < n → gProb q n a = if q a = m then 1 / (countTo (isTop q m) n : Rat) else 0) ∧
      (∀ a, a < n → gPolicy q n a = gProb q n a) ∧
      (∀ a, a < n → 0 ≤ gProb q n a) ∧
      sumTo n (gProb q n) = 1 ∧
      (∀ ws a, (∀ w ∈ ws, w < two32) → gSample q n ws = some a → a < n ∧ q a = m ∧ 0 < gProb q n a) := by
  obtain ⟨s1, ⟨j, hj, hjb⟩, s3⟩ := gScan_inv hsep (n - 1) (by omega)
  obtain ⟨m1, ⟨j', hj', hjb'⟩, m3⟩ := gMax_inv hsep (n - 1) (by omega)
  have hn1 : n - 1 + 1 = n := by omega
  rw [hn1] at s3 m3
  set m := (gScan q (n - 1)).best with hm
  -- both loops found the same maximum
  have hmm : (gMax q (n - 1)).max = m := by
    apply le_antisymm
    · rw [← hjb']; exact s1 j' hj'
    · rw [← hjb]; exact m1 j hj
  have hmax : ∀ i, i < n → q i ≤ m := fun i hi => s1 i (by omega)
  have hcpos : 0 < countTo (isTop q m) n := countTo_pos (k := j) (by omega) (by simp [isTop, hjb])
  have hcq : (0 : Rat) < (countTo (isTop q m) n : Rat) := by exact_mod_cast hcpos
  have hprob : ∀ a, a < n → gProb q n a = if q a = m then 1 / (countTo (isTop q m) n : Rat) else 0 := by
    intro a ha
    obtain ⟨p1, p2⟩ := gProbAux_spec hsep ha n (le_refl _)
    unfold gProb
    by_cases he : q a = m
    · rw [p1 (fun i hi => by rw [he]; exact hmax i hi)]; simp [he]
    · have hlt : q a < q j := by rw [hjb]; exact lt_of_le_of_ne (hmax a ha) he
      rw [p2 ⟨j, by omega, hlt⟩]; simp [he]
  have hpol : ∀ a, a < n → gPolicy q n a = gProb q n a := by
    intro a ha
    rw [hprob a ha]; unfold gPolicy; simp only
    rw [hmm, m3, hmm]
    have hiff : ceG (q a) m = true ↔ q a = m := by rw [← hjb]; exact hsep.iff ha (by omega)
    by_cases he : q a = m
    · rw [if_pos (hiff.mpr he), if_pos he]
    · have : ¬ ceG (q a) m = true := fun h => he (hiff.mp h)
      rw [if_neg this, if_neg he]
  have hnn : ∀ a, a < n → 0 ≤ gProb q n a := by
    intro a ha; rw [hprob a ha]; split
    · positivity
    · exact le_refl _
  have hsum : sumTo n (gProb q n) = 1 := by
    have : ∀ i, i < n → gProb q n i = if isTop q m i then 1 / (countTo (isTop q m) n : Rat) else 0 := by
      intro i hi; rw [hprob i hi]; simp [isTop]
    rw [sumTo_congr this, sumTo_indicator]; field_simp
  refine ⟨m, hmax, ⟨j, by omega, hjb⟩, s3, hprob, hpol, hnn, hsum, ?_⟩
  intro ws a hws hs
  simp only [gSample] at hs
  cases hl : lemire (gScan q (n - 1)).buf.length ws with
  | none => rw [hl] at hs; simp at hs
  | some r =>
    rw [hl] at hs
    obtain ⟨k, rest⟩ := r
    simp only [Option.some.injEq] at hs
    -- the picked index is inside the tie list
    have hlen : 0 < (gScan q (n - 1)).buf.length := by
      rw [s3, ← countTo_eq_filter_length]; exact hcpos
    have hk : k < (gScan q (n - 1)).buf.length := by
      have key : ∀ (ws : List Nat) (r : Nat) (k : Nat) (rest : List Nat), 0 < r → (∀ w ∈ ws, w < two32) →
          lemire r ws = some (k, rest) → k < r := by
        intro ws
        induction ws with
        | nil => intro r k rest _ _ h; simp [lemire] at h
        | cons w t ih =>
          intro r k rest hr hw h
          rw [lemire] at h
          split at h
          · exact ih r k rest hr (fun x hx => hw x (List.mem_cons_of_mem _ hx)) h
          · simp only [Option.some.injEq, Prod.mk.injEq] at h
            have hw' : w < two32 := hw w List.mem_cons_self
            rw [← h.1]
            apply Nat.div_lt_of_lt_mul
            rw [Nat.mul_comm two32 r]
            have := Nat.mul_lt_mul_of_pos_right hw' hr
            rw [Nat.mul_comm two32 r] at this; exact this
      exact key ws _ k rest hlen hws hl
    have hmem : a ∈ (gScan q (n - 1)).buf := by
      have e : (gScan q (n - 1)).buf.getD k 0 = (gScan q (n - 1)).buf[k] := by simp [List.getD, hk]
      rw [← hs, e]; exact List.getElem_mem hk
    rw [s3, List.mem_filter, List.mem_range] at hmem
    have hqa : q a = m := by simpa [isTop] using hmem.2
    refine ⟨hmem.1, hqa, ?_⟩
    rw [hprob a hmem.1]; simp [hqa]; exact hcpos

example : Sep (fun i => if i = 1 then 2 else -3) 3 := by
  intro i j hi hj h
  have : i = 0 ∨ i = 1 ∨ i = 2 := by omega
  have : j = 0 ∨ j = 1 ∨ j = 2 := by omega
  rcases ‹i = 0 ∨ i = 1 ∨ i = 2› with rfl | rfl | rfl <;> rcases ‹j = 0 ∨ j = 1 ∨ j = 2› with rfl | rfl | rfl <;>
    first | rfl | (revert h; norm_num [ceG, ceS, absQ, minQ, tolS, tolG, AITB.Gen.equalToleranceSmall, AITB.Gen.equalToleranceGeneral])

/-- **greedy_shift_invariant** ("value-based action selection is unchanged when the same constant is added to every
    value", for shifts that preserve the separation): same tie list, same probabilities, same table. -/
theorem greedy_shift_invariant (q : Nat → Rat) (n : Nat) (hn : 0 < n) (c : Rat)
    (hsep : Sep q n) (hsep' : Sep (fun i => q i + c) n) :
    (gScan (fun i => q i + c) (n - 1)).buf = (gScan q (n - 1)).buf ∧
    (∀ a, a < n → gProb (fun i => q i + c) n a = gProb q n a) ∧
    (∀ a, a < n → gPolicy (fun i => q i + c) n a = gPolicy q n a) ∧
    (∀ ws, gSample (fun i => q i + c) n ws = gSample q n ws) := by
  obtain ⟨m, hmax, ⟨j, hj, hjm⟩, hbuf, hprob, hpol, _, _, _⟩ := greedy_is_argmax q n hn hsep
  obtain ⟨m', hmax', ⟨j', hj', hjm'⟩, hbuf', hprob', hpol', _, _, _⟩ := greedy_is_argmax _ n hn hsep'
  have hm : m' = m + c := by
    apply le_antisymm
    · rw [← hjm']; have := hmax j' hj'; linarith
    · have := hmax' j hj; rw [← hjm]; exact this
  have htop : ∀ i, isTop (fun i => q i + c) m' i = isTop q m i := by
    intro i; simp only [isTop, hm]
    by_cases h : q i = m
    · simp [h]
    · have : q i + c ≠ m + c := fun e => h (by linarith)
      simp [h, this]
  have hbufeq : (gScan (fun i => q i + c) (n - 1)).buf = (gScan q (n - 1)).buf := by
    rw [hbuf, hbuf']; congr 1; funext i; exact htop i
  have hcnt : countTo (isTop (fun i => q i + c) m') n = countTo (isTop q m) n := countTo_congr (fun i _ => htop i)
  have hp : ∀ a, a < n → gProb (fun i => q i + c) n a = gProb q n a := by
    intro a ha
    rw [hprob a ha, hprob' a ha, hcnt, hm]
    by_cases h : q a = m
    · simp [h]
    · have : q a + c ≠ m + c := fun e => h (by linarith)
      simp [h, this]
  refine ⟨hbufeq, hp, fun a ha => by rw [hpol a ha, hpol' a ha, hp a ha], fun ws => ?_⟩
  unfold gSample; simp only [hbufeq]

/-- the separation hypothesis is necessary: with three values 8e-7 apart (each adjacent pair "equal" for the library,
    the outer pair not) the table returned by `getPolicy` sums to 2 and the per-action queries sum to 5/6.
    (Outside the property's quantifier; recorded as an observation, not a finding.) -/
theorem greedy_nonsep_counterexample :
    let q : Nat → Rat := fun i => (i : Rat) * (8 / 10000000)
    sumTo 3 (gPolicy q 3) = 2 ∧ sumTo 3 (gProb q 3) = 5 / 6 := by
  norm_num [sumTo, gPolicy, gProb, gProbAux, gMax, gmStep, ceG, ceS, absQ, minQ, tolS, tolG,
    AITB.Gen.equalToleranceSmall, AITB.Gen.equalToleranceGeneral]

end AITB.Pol
