/-
  AITB.Props.C13x — translator obligations of C13 (own module: a re-opened obligation does not hide the other theorems).
  `tools/extract_c13.py::SITES` pins 104 statements of the anchored files and of the helpers one level down
  (GenericVariableElimination.hpp, FactorGraph.hpp, VariableElimination.cpp, GraphUtils.hpp, LocalSearch.cpp, MaxPlus.cpp,
  ReusingIterativeLocalSearch.cpp, MultiObjectiveVariableElimination.{cpp,hpp}, UCVE.{cpp,hpp}, Factored/Utils/Core.{cpp,hpp},
  FactoredMatrix.cpp, Utils/Core.hpp) that the models transcribe; the file below is regenerated from the source on every run.
-/
import AITB.Gen.C13Sites

namespace AITB.VE

/-- every pinned statement occurs in the source exactly as often as the model assumes -/
theorem c13_sites_as_modelled : AITB.Gen.C13Sites.sites.all (fun s => s.2.2.1 == s.2.2.2) = true := by decide

/-- the number of pinned sites (dropping a site from the translator is visible here) -/
theorem c13_sites_count : AITB.Gen.C13Sites.pinned = 104 ∧ AITB.Gen.C13Sites.sites.length = 104 := by decide

end AITB.VE
