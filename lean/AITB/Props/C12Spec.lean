/-
  AITB.Props.C12Spec — the C12 pruning theorems instantiated with the library's own test `dominates`
  (tolerances regenerated from Utils/Core.hpp) and with its exact idealisation `domExact`.

  Hypotheses are those of the property's quantifier: every vector has the dimension `n` of the simplex; `M` bounds
  the magnitude of the entries (it only enters through the relative tolerance clause of `dominates`).
  `linkSlack M = max(equalToleranceSmall, M · equalToleranceGeneral)` is the documented tolerance of ONE test;
  the tests are not transitive, so a removed vector is covered by a kept one through a chain of at most n−1
  tests and the envelope statement carries `n · linkSlack M`.  With the exact test the slack is 0.
-/
import AITB.Props.C12PruneMem
import AITB.Props.C12Cert

namespace AITB.Prune
open AITB.C12Check

theorem linkSlack_nonneg (M : Rat) : 0 ≤ linkSlack M := by
  unfold linkSlack maxQ
  split
  · rename_i h; exact le_trans tolSmall_nonneg h
  · exact tolSmall_nonneg

/-- **extractDominated_spec** (library tolerances).  For every finite list of vectors of dimension `n`:
    (1) kept ++ removed is a permutation of the input (the kept range is a sub-multiset);
    (2) every removed vector is dominated by a kept one through a chain of `1 ≤ k < length` `dominates` tests;
    (3) at every belief, every input vector is within `length · linkSlack M` of some kept vector,
        i.e. the upper envelope over the simplex is unchanged up to the documented tolerance. -/
theorem extractDominated_spec (n : Nat) (M : Rat) (xs : List Vec)
    (hlen : ∀ v ∈ xs, v.length = n) (hM : ∀ v ∈ xs, ∀ x ∈ v, absQ x ≤ M) :
    ((extractDominated dominates xs).1 ++ (extractDominated dominates xs).2).Perm xs ∧
    (∀ v ∈ (extractDominated dominates xs).2, ∃ g ∈ (extractDominated dominates xs).1,
        ∃ k, 1 ≤ k ∧ k < xs.length ∧ Chain dominates k g v) ∧
    (∀ bel, IsBelief n bel → ∀ x ∈ xs, ∃ g ∈ (extractDominated dominates xs).1,
        dot bel x ≤ dot bel g + (xs.length : Rat) * linkSlack M) := by
  refine ⟨extractDominated_perm dominates xs, extractDominated_chain dominates xs, ?_⟩
  intro bel hbel
  exact extractDominated_value_mem dominates (fun v => dot bel v) (linkSlack M) (linkSlack_nonneg M) xs
    (fun a ha b hb h => dominates_value n M bel a b hbel (hlen a ha) (hlen b hb) (hM a ha) (hM b hb) h)

/-- **extractDominated_spec, exact reading** (tolerances 0): the envelope is unchanged *exactly* and the kept vectors
    form an antichain (no kept vector is componentwise below another one, so no pairwise-useless vector survives). -/
theorem extractDominated_exact_spec (n : Nat) (xs : List Vec) (hlen : ∀ v ∈ xs, v.length = n) :
    ((extractDominated domExact xs).1 ++ (extractDominated domExact xs).2).Perm xs ∧
    (∀ bel, IsBelief n bel → ∀ x ∈ xs, ∃ g ∈ (extractDominated domExact xs).1, dot bel x ≤ dot bel g) ∧
    (extractDominated domExact xs).1.Pairwise (fun a b => domExact a b = false ∧ domExact b a = false) := by
  refine ⟨extractDominated_perm domExact xs, ?_, ?_⟩
  · intro bel hbel
    exact extractDominated_value_exact_mem domExact (fun v => dot bel v) xs
      (fun a ha b hb h => domExact_value n bel a b hbel (hlen a ha) (hlen b hb) h)
  · exact extractDominated_antichain_mem domExact xs
      (fun a ha b hb c hc h1 h2 => domExact_trans a b c (by rw [hlen a ha, hlen b hb]) (by rw [hlen b hb, hlen c hc]) h1 h2)

/-- **incremental_eq_union** (library tolerances): pruning `new` against an `old` set incrementally keeps, at every
    belief, the same envelope as pruning `old ++ new` in one go, each within `length · linkSlack M` of the other
    (and of the envelope of `old ++ new`); the returned ranges are a permutation of the input. -/
theorem incremental_eq_union_spec (n : Nat) (M : Rat) (old new : List Vec)
    (hlen : ∀ v ∈ old ++ new, v.length = n) (hM : ∀ v ∈ old ++ new, ∀ x ∈ v, absQ x ≤ M) :
    (extractDominatedIncremental dominates old new).array.Perm (old ++ new) ∧
    (∀ bel, IsBelief n bel →
      (∀ x ∈ old ++ new, ∃ g ∈ (extractDominatedIncremental dominates old new).kept,
          dot bel x ≤ dot bel g + ((old ++ new).length : Rat) * linkSlack M) ∧
      (∀ g ∈ (extractDominatedIncremental dominates old new).kept, ∃ g' ∈ (extractDominated dominates (old ++ new)).1,
          dot bel g ≤ dot bel g' + ((old ++ new).length : Rat) * linkSlack M) ∧
      (∀ g' ∈ (extractDominated dominates (old ++ new)).1, ∃ g ∈ (extractDominatedIncremental dominates old new).kept,
          dot bel g' ≤ dot bel g + ((old ++ new).length : Rat) * linkSlack M)) := by
  refine ⟨incremental_perm dominates old new, ?_⟩
  intro bel hbel
  have hdom : ∀ a ∈ old ++ new, ∀ b ∈ old ++ new, dominates a b = true →
      (fun v => dot bel v) b ≤ (fun v => dot bel v) a + linkSlack M :=
    fun a ha b hb h => dominates_value n M bel a b hbel (hlen a ha) (hlen b hb) (hM a ha) (hM b hb) h
  have h2 := incremental_eq_union_mem dominates (fun v => dot bel v) (linkSlack M) (linkSlack_nonneg M) old new hdom
  exact ⟨incremental_value_mem dominates (fun v => dot bel v) (linkSlack M) (linkSlack_nonneg M) old new hdom, h2.1, h2.2⟩

/-- exact reading: both ways of pruning have *equal* envelopes at every belief -/
theorem incremental_eq_union_exact (n : Nat) (old new : List Vec) (hlen : ∀ v ∈ old ++ new, v.length = n) :
    ∀ bel, IsBelief n bel →
      (∀ g ∈ (extractDominatedIncremental domExact old new).kept, ∃ g' ∈ (extractDominated domExact (old ++ new)).1,
          dot bel g ≤ dot bel g') ∧
      (∀ g' ∈ (extractDominated domExact (old ++ new)).1, ∃ g ∈ (extractDominatedIncremental domExact old new).kept,
          dot bel g' ≤ dot bel g) := by
  intro bel hbel
  have h2 := incremental_eq_union_mem domExact (fun v => dot bel v) 0 (le_refl _) old new
    (fun a ha b hb h => by
      have := domExact_value n bel a b hbel (hlen a ha) (hlen b hb) h
      simpa using this)
  constructor
  · intro g hg; obtain ⟨g', hg', h⟩ := h2.1 g hg; exact ⟨g', hg', by simpa using h⟩
  · intro g' hg'; obtain ⟨g, hg, h⟩ := h2.2 g' hg'; exact ⟨g, hg, by simpa using h⟩

/-- **pruner_spec** (library tolerances, witness LP as an oracle meeting its contract with slack `ε`):
    (1) the result is a sub-multiset of the input (the array is only permuted);
    (2) the upper envelope is preserved up to `length · linkSlack M + ε` at every belief;
    (3) every kept vector attains the maximum of the kept set at some belief — none is nowhere needed. -/
theorem pruner_spec (oracle : List Vec → Vec → Option Vec) (n : Nat) (hn : 0 < n) (M ε : Rat) (hε : 0 ≤ ε)
    (S : Nat) (hS : S ≤ n) (xs : List Vec)
    (hlen : ∀ v ∈ xs, v.length = n) (hM : ∀ v ∈ xs, ∀ x ∈ v, absQ x ≤ M)
    (hsome : ∀ best v w, oracle best v = some w → IsBelief n w ∧ ∀ g ∈ best, dot w g < dot w v)
    (hnone : ∀ best v, oracle best v = none → ∀ b, IsBelief n b → ∃ g ∈ best, dot b v ≤ dot b g + ε) :
    ((pruner dominates oracle S xs).1 ++ (pruner dominates oracle S xs).2).Perm xs ∧
    (∀ bel, IsBelief n bel → ∀ x ∈ xs, ∃ g ∈ (pruner dominates oracle S xs).1,
        dot bel x ≤ dot bel g + (xs.length : Rat) * linkSlack M + ε) ∧
    (∀ g ∈ (pruner dominates oracle S xs).1, ∃ w, IsBelief n w ∧
        ∀ g' ∈ (pruner dominates oracle S xs).1, dot w g' ≤ dot w g) := by
  refine ⟨pruner_perm dominates oracle S xs, ?_, pruner_witness dominates oracle n hn hsome S hS xs⟩
  exact pruner_envelope_mem dominates oracle n (linkSlack M) ε (linkSlack_nonneg M) hε S xs
    (fun a ha b hb h bel hbel => dominates_value n M bel a b hbel (hlen a ha) (hlen b hb) (hM a ha) (hM b hb) h)
    hnone

/-- test: the hypotheses of `extractDominated_spec` are met by a concrete list with a duplicate, a vector inside the
    tolerance of another one and an incomparable pair (n = 2, M = 4) -/
example : (∀ v ∈ ([[1, 0], [0, 1], [1, 0], [1/2, -4]] : List Vec), v.length = 2) ∧
    (∀ v ∈ ([[1, 0], [0, 1], [1, 0], [1/2, -4]] : List Vec), ∀ x ∈ v, absQ x ≤ 4) := by
  decide +kernel

/-- test: on that list the model keeps the two incomparable unit vectors -/
example : (extractDominated dominates [[1, 0], [0, 1], [1, 0], [1/2, -4]]).1.length = 2 := by
  decide +kernel

/-- the tolerance-carrying test is NOT transitive — the reason for the chain in clause (2) and the factor `length` in
    clause (3): three vectors 3/4·10⁻⁶ apart (witness, kernel-evaluated) -/
theorem dominates_not_transitive :
    dominates [0] [3/4000000] = true ∧ dominates [3/4000000] [6/4000000] = true ∧ dominates [0] [6/4000000] = false := by
  decide +kernel

end AITB.Prune
