/-
  C09 part f — list lemmas for the swap-and-pop'ed action lists; SuccessiveRejects (index invariant and elimination
  order); ESRLPolicy (rows are a distribution after any history, table = per-action queries).
-/
import AITB.Props.C09c

namespace AITB.Pol

/-! ### unsnoc / swapPop / findIdx -/

theorem unsnoc_spec : ∀ (l d : List Nat) (z : Nat), unsnoc l = some (d, z) → l = d ++ [z] := by
  intro l
  induction l with
  | nil => intro d z h; simp [unsnoc] at h
  | cons x t ih =>
    intro d z h
    cases t with
    | nil => simp [unsnoc] at h; obtain ⟨rfl, rfl⟩ := h; rfl
    | cons y t' =>
      rw [unsnoc] at h
      cases hu : unsnoc (y :: t') with
      | none => rw [hu] at h; simp at h
      | some p =>
        obtain ⟨d', z'⟩ := p
        rw [hu] at h; simp at h; obtain ⟨rfl, rfl⟩ := h
        rw [ih d' z' hu]; rfl

theorem unsnoc_some : ∀ (l : List Nat), l ≠ [] → ∃ d z, unsnoc l = some (d, z) := by
  intro l
  induction l with
  | nil => intro h; exact absurd rfl h
  | cons x t ih =>
    intro _
    cases t with
    | nil => exact ⟨[], x, rfl⟩
    | cons y t' =>
      obtain ⟨d, z, h⟩ := ih (by simp)
      exact ⟨x :: d, z, by rw [unsnoc, h]⟩

theorem swapPop_length (l : List Nat) (i : Nat) : (swapPop l i).length = l.length - 1 := by
  unfold swapPop
  cases h : unsnoc l with
  | none =>
    cases l with
    | nil => rfl
    | cons x t => obtain ⟨d, z, h'⟩ := unsnoc_some (x :: t) (by simp); rw [h] at h'; simp at h'
  | some p =>
    obtain ⟨d, z⟩ := p
    have := unsnoc_spec l d z h
    subst this; simp

theorem mem_set_of_mem {d : List Nat} {i x z : Nat} (h : x ∈ d.set i z) : x ∈ d ∨ x = z := by
  induction d generalizing i with
  | nil => simp at h
  | cons y t ih =>
    cases i with
    | zero => simp at h; rcases h with h | h
              · exact Or.inr h
              · exact Or.inl (List.mem_cons_of_mem _ h)
    | succ k =>
      simp at h; rcases h with h | h
      · exact Or.inl (by simp [h])
      · rcases ih h with h' | h'
        · exact Or.inl (List.mem_cons_of_mem _ h')
        · exact Or.inr h'

theorem nodup_set {d : List Nat} {z : Nat} (hd : d.Nodup) (hz : z ∉ d) (i : Nat) : (d.set i z).Nodup := by
  induction d generalizing i with
  | nil => simp
  | cons y t ih =>
    have hy : y ∉ t := (List.nodup_cons.mp hd).1
    have ht : t.Nodup := (List.nodup_cons.mp hd).2
    have hzt : z ∉ t := fun h => hz (List.mem_cons_of_mem _ h)
    have hzy : z ≠ y := fun h => hz (by simp [h])
    cases i with
    | zero => simp; exact ⟨hzt, ht⟩
    | succ k =>
      simp only [List.set_cons_succ, List.nodup_cons]
      refine ⟨fun h => ?_, ih ht hzt k⟩
      rcases mem_set_of_mem h with h' | h'
      · exact hy h'
      · exact hzy h'.symm

/-- with distinct entries, `set i z` (for a fresh `z`) keeps exactly the entries other than the one at `i` -/
theorem mem_set_iff {d : List Nat} {z : Nat} (hd : d.Nodup) (hz : z ∉ d) {i : Nat} (hi : i < d.length) (x : Nat) :
    x ∈ d.set i z ↔ (x = z ∨ (x ∈ d ∧ x ≠ d.getD i 0)) := by
  induction d generalizing i with
  | nil => simp at hi
  | cons y t ih =>
    have hy : y ∉ t := (List.nodup_cons.mp hd).1
    have ht : t.Nodup := (List.nodup_cons.mp hd).2
    have hzt : z ∉ t := fun h => hz (List.mem_cons_of_mem _ h)
    have hzy : z ≠ y := fun h => hz (by simp [h])
    cases i with
    | zero =>
      simp only [List.set_cons_zero, List.mem_cons, List.getD_cons_zero]
      constructor
      · rintro (h | h)
        · exact Or.inl h
        · exact Or.inr ⟨Or.inr h, fun e => hy (e ▸ h)⟩
      · rintro (h | ⟨h | h, hne⟩)
        · exact Or.inl h
        · exact absurd h hne
        · exact Or.inr h
    | succ k =>
      have hk : k < t.length := by simpa using hi
      simp only [List.set_cons_succ, List.mem_cons, List.getD_cons_succ]
      rw [ih ht hzt hk]
      constructor
      · rintro (h | h | ⟨h, hne⟩)
        · refine Or.inr ⟨Or.inl h, fun e => ?_⟩
          have : t.getD k 0 ∈ t := by
            rw [List.getD_eq_getElem?_getD, List.getElem?_eq_getElem hk]; exact List.getElem_mem hk
          exact hy (by rw [← e, h] at this; exact this)
        · exact Or.inl h
        · exact Or.inr ⟨Or.inr h, hne⟩
      · rintro (h | ⟨h | h, hne⟩)
        · exact Or.inr (Or.inl h)
        · exact Or.inl h
        · exact Or.inr (Or.inr ⟨h, hne⟩)

theorem swapPop_subset {l : List Nat} {i x : Nat} (h : x ∈ swapPop l i) : x ∈ l := by
  unfold swapPop at h
  cases hu : unsnoc l with
  | none => rw [hu] at h; simp at h
  | some p =>
    obtain ⟨d, z⟩ := p
    rw [hu] at h
    have := unsnoc_spec l d z hu
    subst this
    rcases mem_set_of_mem h with h' | h'
    · simp [h']
    · simp [h']

theorem swapPop_nodup {l : List Nat} (hl : l.Nodup) (i : Nat) : (swapPop l i).Nodup := by
  unfold swapPop
  cases hu : unsnoc l with
  | none => simp
  | some p =>
    obtain ⟨d, z⟩ := p
    have := unsnoc_spec l d z hu
    subst this
    have hd : d.Nodup := (List.nodup_append.mp hl).1
    have hz : z ∉ d := by
      intro hmem
      have := (List.nodup_append.mp hl).2.2 z hmem z (by simp)
      exact this rfl
    exact nodup_set hd hz i

/-- **swapPop removes exactly the entry at position `i`** (distinct entries, `i` in range) -/
theorem mem_swapPop_iff {l : List Nat} (hl : l.Nodup) {i : Nat} (hi : i < l.length) (x : Nat) :
    x ∈ swapPop l i ↔ (x ∈ l ∧ x ≠ l.getD i 0) := by
  unfold swapPop
  cases hu : unsnoc l with
  | none =>
    have : l ≠ [] := by intro e; subst e; simp at hi
    obtain ⟨d, z, h'⟩ := unsnoc_some l this
    rw [hu] at h'; simp at h'
  | some p =>
    obtain ⟨d, z⟩ := p
    have := unsnoc_spec l d z hu
    subst this
    have hd : d.Nodup := (List.nodup_append.mp hl).1
    have hz : z ∉ d := by
      intro hmem
      have := (List.nodup_append.mp hl).2.2 z hmem z (by simp)
      exact this rfl
    simp only
    rcases Nat.lt_or_ge i d.length with hlt | hge
    · have hget : (d ++ [z]).getD i 0 = d.getD i 0 := by
        simp [List.getD_eq_getElem?_getD, List.getElem?_append_left hlt]
      rw [mem_set_iff hd hz hlt, hget]
      have hdi : d.getD i 0 ∈ d := by
        rw [List.getD_eq_getElem?_getD, List.getElem?_eq_getElem hlt]; exact List.getElem_mem hlt
      constructor
      · rintro (h | ⟨h, hne⟩)
        · subst h; exact ⟨by simp, fun e => hz (e ▸ hdi)⟩
        · exact ⟨by simp [h], hne⟩
      · rintro ⟨h, hne⟩
        rcases List.mem_append.mp h with h | h
        · exact Or.inr ⟨h, hne⟩
        · exact Or.inl (by simpa using h)
    · have hi' : i = d.length := by simp at hi; omega
      subst hi'
      have hget : (d ++ [z]).getD d.length 0 = z := by
        simp [List.getD_eq_getElem?_getD]
      rw [hget, List.set_eq_of_length_le (le_refl _)]
      constructor
      · intro h; exact ⟨by simp [h], fun e => hz (e ▸ h)⟩
      · rintro ⟨h, hne⟩
        rcases List.mem_append.mp h with h | h
        · exact h
        · exact absurd (by simpa using h) hne

theorem findIdx_none {a : Nat} {l : List Nat} : findIdx a l = none ↔ a ∉ l := by
  induction l with
  | nil => simp [findIdx]
  | cons x t ih =>
    rw [findIdx]
    by_cases h : x = a
    · simp [h]
    · simp only [h, if_false, Option.map_eq_none_iff, ih, List.mem_cons]
      constructor
      · rintro h1 (h2 | h2)
        · exact h h2.symm
        · exact h1 h2
      · intro h1 h2; exact h1 (Or.inr h2)

theorem findIdx_some {a : Nat} {l : List Nat} {k : Nat} (h : findIdx a l = some k) : k < l.length ∧ l.getD k 0 = a := by
  induction l generalizing k with
  | nil => simp [findIdx] at h
  | cons x t ih =>
    rw [findIdx] at h
    by_cases hx : x = a
    · simp [hx] at h; subst h; simp [hx]
    · simp only [hx, if_false, Option.map_eq_some_iff] at h
      obtain ⟨j, hj, rfl⟩ := h
      obtain ⟨h1, h2⟩ := ih hj
      exact ⟨by simp; omega, by simpa using h2⟩

theorem findIdx_of_mem {a : Nat} {l : List Nat} (h : a ∈ l) : ∃ k, findIdx a l = some k := by
  cases hf : findIdx a l with
  | none => exact absurd h (findIdx_none.mp hf)
  | some k => exact ⟨k, rfl⟩

/-! ### SuccessiveRejectsPolicy -/

def SR.ok (s : SR) : Prop := s.actId < s.avail.length

/-- the state invariant: round-robin index inside the surviving arms, surviving arms distinct and legal,
    `|avail| + min(phase, n) = n + 1` -/
def SR.inv (s : SR) : Prop :=
  s.ok ∧ 1 ≤ s.phase ∧ s.avail.length + min s.phase s.n = s.n + 1 ∧ s.avail.Nodup ∧ ∀ x ∈ s.avail, x < s.n

/-- a call of `stepUpdateQ()` in this state ends a phase and rejects an arm -/
def SR.rejects (s : SR) : Prop :=
  ¬ (s.pulls + 1 < s.nkNew - s.nkOld) ∧ ¬ (s.actId + 1 < s.avail.length) ∧ ¬ (s.phase + 1 > s.n)

/-- the arm the elimination loop picks: smallest mean, first one on ties -/
def SR.worst (s : SR) (mean : Nat → Rat) : Nat :=
  srMinArm mean (s.avail.drop 1) (s.avail.getD 0 0) (mean (s.avail.getD 0 0))

theorem srMinArm_spec (mean : Nat → Rat) : ∀ (t : List Nat) (best : Nat),
    srMinArm mean t best (mean best) ∈ best :: t ∧ ∀ x ∈ best :: t, mean (srMinArm mean t best (mean best)) ≤ mean x := by
  intro t
  induction t with
  | nil => intro best; simp [srMinArm]
  | cons a t ih =>
    intro best
    rw [srMinArm]
    by_cases h : mean a < mean best
    · simp only [h, if_true]
      obtain ⟨h1, h2⟩ := ih a
      refine ⟨?_, fun x hx => ?_⟩
      · rcases List.mem_cons.mp h1 with e | e
        · simp [e]
        · simp [e]
      · rcases List.mem_cons.mp hx with e | e
        · subst e; exact le_trans (h2 a (by simp)) (le_of_lt h)
        · exact h2 x e
    · simp only [h, if_false]
      obtain ⟨h1, h2⟩ := ih best
      refine ⟨?_, fun x hx => ?_⟩
      · rcases List.mem_cons.mp h1 with e | e
        · simp [e]
        · simp [e]
      · rcases List.mem_cons.mp hx with e | e
        · subst e; exact h2 x (by simp)
        · rcases List.mem_cons.mp e with e' | e'
          · subst e'; exact le_trans (h2 best (by simp)) (not_lt.mp h)
          · exact h2 x (by simp [e'])

theorem SR.worst_spec (s : SR) (mean : Nat → Rat) (hne : s.avail ≠ []) :
    s.worst mean ∈ s.avail ∧ ∀ x ∈ s.avail, mean (s.worst mean) ≤ mean x := by
  unfold SR.worst
  cases h : s.avail with
  | nil => exact absurd h hne
  | cons a t => simpa using srMinArm_spec mean t a

theorem SR.step_avail_of_rejects (s : SR) (nk : Nat) (mean : Nat → Rat) (h : s.rejects) :
    (s.step nk mean).avail = swapPop s.avail ((findIdx (s.worst mean) s.avail).getD 0) := by
  obtain ⟨h1, h2, h3⟩ := h
  unfold SR.step SR.worst
  simp only [h1, h2, h3, if_false]

theorem SR.step_avail_of_not_rejects (s : SR) (nk : Nat) (mean : Nat → Rat) (h : ¬ s.rejects) :
    (s.step nk mean).avail = s.avail := by
  unfold SR.rejects at h
  unfold SR.step
  simp only
  split
  · rfl
  · split
    · rfl
    · split
      · rfl
      · rename_i h1 h2 h3; exact absurd ⟨h1, h2, h3⟩ h

theorem SR.step_n (s : SR) (nk : Nat) (mean : Nat → Rat) : (s.step nk mean).n = s.n := by
  unfold SR.step; simp only; split <;> [rfl; (split <;> [rfl; (split <;> rfl)])]

theorem SR.init_inv (n nk1 : Nat) (hn : 0 < n) : (SR.init n nk1).inv := by
  unfold SR.inv SR.ok SR.init
  refine ⟨by simpa using hn, le_refl _, by simp; omega, List.nodup_range, fun x hx => by simpa using hx⟩

theorem SR.step_inv (s : SR) (nk : Nat) (mean : Nat → Rat) (h : s.inv) : (s.step nk mean).inv := by
  obtain ⟨h1, h2, h3, h4, h5⟩ := h
  unfold SR.ok at h1
  by_cases hr : s.rejects
  · have hav := SR.step_avail_of_rejects s nk mean hr
    obtain ⟨r1, r2, r3⟩ := hr
    have hst : (s.step nk mean).actId = 0 ∧ (s.step nk mean).phase = s.phase + 1 ∧ (s.step nk mean).n = s.n := by
      unfold SR.step; simp [r1, r2, r3]
    obtain ⟨e1, e2, e3⟩ := hst
    unfold SR.inv SR.ok
    rw [e1, e2, e3, hav, swapPop_length]
    refine ⟨by omega, by omega, by omega, swapPop_nodup h4 _, fun x hx => h5 x (swapPop_subset hx)⟩
  · have hav := SR.step_avail_of_not_rejects s nk mean hr
    have hn : (s.step nk mean).n = s.n := SR.step_n s nk mean
    unfold SR.inv SR.ok
    rw [hav, hn]
    unfold SR.rejects at hr
    unfold SR.step
    simp only
    split
    · exact ⟨h1, h2, h3, h4, h5⟩
    · split
      · rename_i hb; exact ⟨hb, h2, h3, h4, h5⟩
      · split
        · rename_i ha hb hc
          refine ⟨by show 0 < s.avail.length; omega, by show 1 ≤ s.phase + 1; omega, ?_, h4, h5⟩
          show s.avail.length + min (s.phase + 1) s.n = s.n + 1
          omega
        · rename_i ha hb hc; exact absurd ⟨ha, hb, hc⟩ hr

def srRun : List (Nat × (Nat → Rat)) → SR → SR
  | [], s => s
  | (nk, mean) :: t, s => srRun t (s.step nk mean)

/-- **sr_policy_valid**: after ANY number of `stepUpdateQ()` calls (any phase lengths, any reward estimates) the
    round-robin index designates one of the surviving arms — so `sampleAction` / `getActionProbability` / `getPolicy`
    (the indicator of that arm) form a point distribution on a legal arm — the surviving arms are distinct and
    exactly `n + 1 - min(phase, n)` of them are left. -/
theorem sr_policy_valid (n nk1 : Nat) (hn : 0 < n) (h : List (Nat × (Nat → Rat))) :
    (srRun h (SR.init n nk1)).inv ∧ (srRun h (SR.init n nk1)).current < n := by
  have key : ∀ (h : List (Nat × (Nat → Rat))) (s : SR), s.inv → (srRun h s).inv := by
    intro h
    induction h with
    | nil => intro s hs; exact hs
    | cons o t ih => intro s hs; obtain ⟨nk, mean⟩ := o; exact ih _ (SR.step_inv s nk mean hs)
  have keyn : ∀ (h : List (Nat × (Nat → Rat))) (s : SR), (srRun h s).n = s.n := by
    intro h
    induction h with
    | nil => intro s; rfl
    | cons o t ih => intro s; obtain ⟨nk, mean⟩ := o; exact (ih _).trans (SR.step_n s nk mean)
  have hinv := key h _ (SR.init_inv n nk1 hn)
  refine ⟨hinv, ?_⟩
  obtain ⟨h1, _, _, _, h5⟩ := hinv
  unfold SR.ok at h1
  unfold SR.current
  have hnn : (srRun h (SR.init n nk1)).n = n := keyn h _
  have hmem : (srRun h (SR.init n nk1)).avail.getD (srRun h (SR.init n nk1)).actId 0 ∈ (srRun h (SR.init n nk1)).avail := by
    rw [List.getD_eq_getElem?_getD, List.getElem?_eq_getElem h1]; exact List.getElem_mem h1
  have := h5 _ hmem
  rw [hnn] at this; exact this

/-- **sr_elimination_order**: whenever a call ends a phase, the arm that leaves is one with the smallest current reward
    estimate among the survivors (the first such in list order), every other survivor stays, and nothing else enters;
    a call that does not end a phase leaves the set untouched. -/
theorem sr_elimination_order (s : SR) (nk : Nat) (mean : Nat → Rat) (h : s.inv) :
    (s.rejects →
      s.worst mean ∈ s.avail ∧ (∀ x ∈ s.avail, mean (s.worst mean) ≤ mean x) ∧
      ∀ x, x ∈ (s.step nk mean).avail ↔ (x ∈ s.avail ∧ x ≠ s.worst mean)) ∧
    (¬ s.rejects → (s.step nk mean).avail = s.avail) := by
  obtain ⟨h1, _, _, h4, _⟩ := h
  unfold SR.ok at h1
  have hne : s.avail ≠ [] := by intro e; rw [e] at h1; simp at h1
  refine ⟨fun hr => ?_, SR.step_avail_of_not_rejects s nk mean⟩
  obtain ⟨w1, w2⟩ := SR.worst_spec s mean hne
  refine ⟨w1, w2, fun x => ?_⟩
  rw [SR.step_avail_of_rejects s nk mean hr]
  obtain ⟨k, hk⟩ := findIdx_of_mem w1
  obtain ⟨k1, k2⟩ := findIdx_some hk
  rw [hk, Option.getD_some, mem_swapPop_iff h4 k1, k2]

/-! ### ESRLPolicy -/

def optVal (f : Nat → Rat) : Option Nat → Rat
  | none => 0
  | some k => f k

theorem optVal_map_succ (f : Nat → Rat) (o : Option Nat) : optVal f (o.map (· + 1)) = optVal (fun k => f (k + 1)) o := by
  cases o <;> rfl

theorem sumTo_succ' (m : Nat) (f : Nat → Rat) : sumTo (m + 1) f = f 0 + sumTo m (fun k => f (k + 1)) := by
  induction m with
  | zero => simp [sumTo]
  | succ m ih => rw [sumTo, ih, sumTo]; ring

theorem sumTo_zero_fun (n : Nat) : sumTo n (fun _ => (0 : Rat)) = 0 := by rw [sumTo_const]; ring

/-- re-indexing: summing over actions the value stored at the action's position in a duplicate-free list of legal
    actions is summing over positions -/
theorem sum_findIdx (n : Nat) : ∀ (l : List Nat) (f : Nat → Rat), l.Nodup → (∀ x ∈ l, x < n) →
    sumTo n (fun a => optVal f (findIdx a l)) = sumTo l.length f := by
  intro l
  induction l with
  | nil => intro f _ _; simp only [findIdx, optVal, List.length_nil]; rw [sumTo_zero_fun]; rfl
  | cons x t ih =>
    intro f hnd hb
    have hx : x ∉ t := (List.nodup_cons.mp hnd).1
    have ht : t.Nodup := (List.nodup_cons.mp hnd).2
    have hxn : x < n := hb x (by simp)
    have hterm : ∀ a, a < n → optVal f (findIdx a (x :: t)) =
        (if a = x then f 0 else 0) + optVal (fun k => f (k + 1)) (findIdx a t) := by
      intro a _
      rw [findIdx]
      by_cases hax : x = a
      · subst hax
        simp only [if_true, optVal]
        rw [findIdx_none.mpr hx]; simp [optVal]
      · have : ¬ a = x := fun e => hax e.symm
        simp only [hax, this, if_false, optVal_map_succ, zero_add]
    rw [sumTo_congr hterm, sumTo_add, sumTo_ite_eq x hxn, ih _ ht (fun y hy => hb y (List.mem_cons_of_mem _ hy)),
      List.length_cons, sumTo_succ']

theorem scatter_length (f : Nat → Rat) : ∀ (l : List Nat) (k : Nat) (v : List Rat), (scatter f l k v).length = v.length := by
  intro l
  induction l with
  | nil => intro k v; rfl
  | cons x t ih => intro k v; rw [scatter, ih]; simp

theorem getD_set (v : List Rat) (x a : Nat) (y : Rat) :
    (v.set x y).getD a 0 = if x = a ∧ x < v.length then y else v.getD a 0 := by
  simp only [List.getD_eq_getElem?_getD, List.getElem?_set]
  by_cases h : x = a
  · subst h
    by_cases hl : x < v.length
    · simp [hl]
    · simp [hl, List.getElem?_eq_none (not_lt.mp hl)]
  · simp [h]

/-- what `getPolicy`'s write loop leaves at action `a` -/
theorem scatter_getD (f : Nat → Rat) : ∀ (l : List Nat) (k : Nat) (v : List Rat) (a : Nat), l.Nodup → (∀ x ∈ l, x < v.length) →
    (scatter f l k v).getD a 0 = match findIdx a l with
      | some j => f (k + j)
      | none => v.getD a 0 := by
  intro l
  induction l with
  | nil => intro k v a _ _; simp [scatter, findIdx]
  | cons x t ih =>
    intro k v a hnd hb
    have hx : x ∉ t := (List.nodup_cons.mp hnd).1
    have ht : t.Nodup := (List.nodup_cons.mp hnd).2
    have hxl : x < v.length := hb x (by simp)
    rw [scatter, ih (k + 1) (v.set x (f k)) a ht (fun y hy => by simpa using hb y (List.mem_cons_of_mem _ hy)), findIdx]
    by_cases hax : x = a
    · subst hax
      rw [findIdx_none.mpr hx]
      simp [getD_set, hxl]
    · simp only [hax, if_false]
      cases hf : findIdx a t with
      | none => simp [getD_set, hax]
      | some j => simp; congr 1; omega

theorem replicate_get0 (n a : Nat) : ((List.replicate n (0 : Rat))[a]?).getD 0 = 0 := by
  rw [List.getElem?_replicate]; split <;> rfl

/-- well-formedness of an ESRL state -/
structure ESRL.WF (s : ESRL) : Prop where
  npos : 0 < s.n
  nd : s.allowed.Nodup
  bd : ∀ x ∈ s.allowed, x < s.n
  ne : 0 < s.allowed.length
  len : s.lri.length = s.allowed.length
  row : RowValid s.allowed.length (thaw s.lri)
  a0 : 0 ≤ s.a
  a1 : s.a ≤ 1
  best : s.exploit = true → s.bestAction < s.n
  vlen : s.values.length = s.n

theorem RowValid.congr {n : Nat} {p q : Nat → Rat} (h : ∀ i, i < n → p i = q i) (hp : RowValid n p) : RowValid n q :=
  ⟨fun i hi => by rw [← h i hi]; exact hp.1 i hi, by rw [← sumTo_congr h]; exact hp.2⟩

theorem freezeL_length (n : Nat) (f : Nat → Rat) : (freezeL n f).length = n := by simp [freezeL]

theorem rowValid_freeze {n : Nat} {f : Nat → Rat} (h : RowValid n f) : RowValid n (thaw (freezeL n f)) :=
  RowValid.congr (fun i hi => (thaw_freezeL n f hi).symm) h

theorem argmaxFirst_le (p : Nat → Rat) : ∀ k, argmaxFirst p k ≤ k := by
  intro k
  induction k with
  | zero => simp [argmaxFirst]
  | succ k ih => rw [argmaxFirst]; split <;> omega

theorem ESRL.init_wf (n : Nat) (a : Rat) (N phases window : Nat) (hn : 0 < n) (h0 : 0 ≤ a) (h1 : a ≤ 1) :
    (ESRL.init n a N phases window).WF where
  npos := hn
  nd := List.nodup_range
  bd := fun x hx => by simpa [ESRL.init] using hx
  ne := by simpa [ESRL.init] using hn
  len := by simp [ESRL.init, freezeL]
  row := by
    have : (ESRL.init n a N phases window).allowed.length = n := by simp [ESRL.init]
    rw [this]; exact rowValid_freeze (lrpInit_valid n hn)
  a0 := h0
  a1 := h1
  best := fun h => by cases h
  vlen := by simp [ESRL.init]

theorem ESRL.step_wf (s : ESRL) (act : Nat) (result : Bool) (h : s.WF) : (s.step act result).WF := by
  unfold ESRL.step
  by_cases hexp : s.explorations < s.phases
  · simp only [hexp, if_true]
    cases hf : findIdx act s.allowed with
    | none => exact h
    | some k =>
      simp only
      obtain ⟨hk, _⟩ := findIdx_some hf
      have hrow' : RowValid s.allowed.length (lrpStep s.allowed.length s.a 0 k result (thaw s.lri)) :=
        lrp_step_valid _ s.a 0 k result _ (Or.inr (Or.inr rfl)) h.a0 h.a1 (le_refl _) (by norm_num) hk h.row
      by_cases hts : s.timestep + 1 ≥ s.N
      · simp only [hts, if_true]
        by_cases hm : s.allowed.length > 1
        · simp only [hm, if_true]
          have hlen : (swapPop s.allowed (argmaxFirst (thaw (freezeL s.allowed.length
              (lrpStep s.allowed.length s.a 0 k result (thaw s.lri)))) (s.allowed.length - 1))).length = s.allowed.length - 1 :=
            swapPop_length _ _
          exact {
            npos := h.npos
            nd := swapPop_nodup h.nd _
            bd := fun x hx => h.bd x (swapPop_subset hx)
            ne := by rw [hlen]; omega
            len := by simp [freezeL]
            row := rowValid_freeze (lrpInit_valid _ (by rw [hlen]; omega))
            a0 := h.a0
            a1 := h.a1
            best := h.best
            vlen := by simp [h.vlen] }
        · simp only [hm, if_false]
          exact {
            npos := h.npos
            nd := List.nodup_range
            bd := fun x hx => by simpa using hx
            ne := by simpa using h.npos
            len := by simp [freezeL]
            row := rowValid_freeze (lrpInit_valid _ (by simpa using h.npos))
            a0 := h.a0
            a1 := h.a1
            best := h.best
            vlen := by simp [h.vlen] }
      · simp only [hts, if_false]
        exact {
          npos := h.npos
          nd := h.nd
          bd := h.bd
          ne := h.ne
          len := by simp [freezeL]
          row := rowValid_freeze hrow'
          a0 := h.a0
          a1 := h.a1
          best := h.best
          vlen := h.vlen }
  · simp only [hexp, if_false]
    by_cases hx : s.exploit = true
    · simp only [hx, Bool.not_true, Bool.false_eq_true, if_false]; exact h
    · have hx' : s.exploit = false := by simpa using hx
      simp only [hx', Bool.not_false, if_true]
      exact {
        npos := h.npos
        nd := h.nd
        bd := h.bd
        ne := h.ne
        len := h.len
        row := h.row
        a0 := h.a0
        a1 := h.a1
        best := fun _ => by
          show argmaxList s.values < s.n
          unfold argmaxList
          have := argmaxFirst_le (fun i => s.values.getD i 0) (s.values.length - 1)
          have := h.vlen; have := h.npos; omega
        vlen := h.vlen }

/-- the coherence statement for one well-formed state (look-up by `std::find`) -/
theorem ESRL.coherent (s : ESRL) (h : s.WF) :
    RowValid s.n (s.prob true) ∧ s.policy.length = s.n ∧ ∀ a, a < s.n → s.policy.getD a 0 = s.prob true a := by
  by_cases hx : s.exploit = true
  · have hb := h.best hx
    have hp : ∀ a, s.prob true a = if a = s.bestAction then 1 else 0 := by intro a; simp [ESRL.prob, hx]
    refine ⟨⟨fun a _ => by rw [hp]; split <;> norm_num, ?_⟩, by simp [ESRL.policy, hx], fun a _ => ?_⟩
    · rw [sumTo_congr (fun a _ => hp a), sumTo_ite_eq _ hb]
    · rw [hp]; simp only [ESRL.policy, hx, if_true, getD_set]
      by_cases e : a = s.bestAction
      · subst e; simp [hb]
      · have : ¬ s.bestAction = a := fun e' => e e'.symm
        simp [e, this]; exact replicate_get0 _ _
  · have hx' : s.exploit = false := by simpa using hx
    have hp : ∀ a, s.prob true a = optVal (thaw s.lri) (findIdx a s.allowed) := by
      intro a; simp only [ESRL.prob, hx', Bool.false_eq_true, if_false, if_true]
      cases findIdx a s.allowed <;> rfl
    refine ⟨⟨fun a _ => ?_, ?_⟩, ?_, fun a _ => ?_⟩
    · rw [hp]
      cases hf : findIdx a s.allowed with
      | none => exact le_refl _
      | some k => exact h.row.1 k (findIdx_some hf).1
    · rw [sumTo_congr (fun a _ => hp a), sum_findIdx s.n s.allowed _ h.nd h.bd]; exact h.row.2
    · simp [ESRL.policy, hx', scatter_length]
    · rw [hp]
      simp only [ESRL.policy, hx', Bool.false_eq_true, if_false]
      rw [scatter_getD _ _ _ _ _ h.nd (fun x hx => by simpa using h.bd x hx)]
      cases hf : findIdx a s.allowed with
      | none => simp [optVal]; exact replicate_get0 _ _
      | some k => simp [optVal]

def esrlRun : List (Nat × Bool) → ESRL → ESRL
  | [], s => s
  | (act, r) :: t, s => esrlRun t (s.step act r)

/-- **esrl_policy_valid**: for every number of actions `n ≥ 1`, learning rate `a ∈ [0,1]`, phase length, number of
    exploration phases and window, and after ANY history of `stepUpdateP(action, result)` calls (legal or banned actions, any
    outcomes): the per-action queries are a probability distribution over the `n` actions, `getPolicy` has `n` entries and
    equals the per-action queries entry by entry, and the sampled action (any draw `u ∈ [0,1)`) is a legal action of positive
    probability.  The look-up of the queried action in the swap-and-pop'ed list is the linear `std::find`
    (`Gen.C09.esrlProbUsesFind`); see the counterexample for a bisection. -/
theorem esrl_policy_valid (n : Nat) (a : Rat) (N phases window : Nat) (hn : 0 < n) (h0 : 0 ≤ a) (h1 : a ≤ 1)
    (h : List (Nat × Bool)) :
    let s := esrlRun h (ESRL.init n a N phases window)
    RowValid n (s.prob true) ∧ s.policy.length = n ∧ (∀ x, x < n → s.policy.getD x 0 = s.prob true x) ∧
    ∀ u : Rat, 0 ≤ u → u < 1 → s.sample u < n ∧ 0 < s.prob true (s.sample u) := by
  have key : ∀ (h : List (Nat × Bool)) (s : ESRL), s.WF → (esrlRun h s).WF ∧ (esrlRun h s).n = s.n := by
    intro h
    induction h with
    | nil => intro s hs; exact ⟨hs, rfl⟩
    | cons o t ih =>
      intro s hs
      obtain ⟨act, r⟩ := o
      obtain ⟨w, e⟩ := ih _ (ESRL.step_wf s act r hs)
      refine ⟨w, e.trans ?_⟩
      unfold ESRL.step
      split
      · split
        · rfl
        · simp only; split <;> rfl
      · split <;> rfl
  intro s
  obtain ⟨hw, hnn⟩ := key h _ (ESRL.init_wf n a N phases window hn h0 h1)
  have hsn : s.n = n := by rw [show s.n = (esrlRun h (ESRL.init n a N phases window)).n from rfl, hnn]; rfl
  obtain ⟨c1, c2, c3⟩ := ESRL.coherent s hw
  rw [hsn] at c1 c2 c3
  refine ⟨c1, c2, c3, fun u hu0 hu1 => ?_⟩
  unfold ESRL.sample
  by_cases hx : s.exploit = true
  · have hb := hw.best hx
    simp only [hx, if_true]
    refine ⟨by rw [← hsn]; exact hb, by simp [ESRL.prob, hx]⟩
  · have hx' : s.exploit = false := by simpa using hx
    simp only [hx', Bool.false_eq_true, if_false]
    obtain ⟨i1, _, _, i4⟩ := sampleRow_interval hw.row hu0 hu1
    set k := sampleRow (thaw s.lri) s.allowed.length u with hk
    have hmem : s.allowed.getD k 0 ∈ s.allowed := by
      rw [List.getD_eq_getElem?_getD, List.getElem?_eq_getElem i1]; exact List.getElem_mem i1
    refine ⟨by rw [← hsn]; exact hw.bd _ hmem, ?_⟩
    -- the position `find` returns for that action is `k` itself (distinct entries)
    obtain ⟨j, hj⟩ := findIdx_of_mem hmem
    obtain ⟨j1, j2⟩ := findIdx_some hj
    have hjk : j = k := by
      have hnd := hw.nd
      rw [List.getD_eq_getElem?_getD, List.getElem?_eq_getElem j1, List.getD_eq_getElem?_getD,
        List.getElem?_eq_getElem i1] at j2
      simp only [Option.getD_some] at j2
      exact (List.Nodup.getElem_inj_iff hnd).mp j2
    simp only [ESRL.prob, hx', Bool.false_eq_true, if_false, if_true, hj, hjk]
    exact i4

/-- **esrl_bisect_counterexample** (the distinction `Gen.C09.esrlProbUsesFind` tracks): after an exploration phase that
    converged on action 0 of four, swap-with-last + pop_back leaves the allowed list `[3,1,2]` — not sorted.  Looking actions
    up by bisection (`std::lower_bound` + guard) then misses actions 1 and 3: the queries sum to 1/3 and disagree with
    `getPolicy`; `std::find` gives the distribution. -/
theorem esrl_bisect_counterexample :
    swapPop [0, 1, 2, 3] 0 = [3, 1, 2] ∧
    (let s : ESRL := ⟨4, 1/2, false, 0, 0, 1, 1, 3, 0, 1, [0, 0, 0, 0], [3, 1, 2], [1/3, 1/3, 1/3]⟩
     sumTo 4 (s.prob false) = 1 / 3 ∧ s.prob false 1 = 0 ∧ sumTo 4 (s.prob true) = 1 ∧ s.policy = [0, 1/3, 1/3, 1/3]) := by
  refine ⟨by decide, ?_⟩
  norm_num [sumTo, ESRL.prob, ESRL.policy, lowerBoundIdx, lowerBoundAux, findIdx, thaw, scatter, List.getD, List.replicate, List.set]

end AITB.Pol
