/-
  AITB.Props.C10 — index-arithmetic cores are free of out-of-bounds access (cursor models).
  C10's instantiability and runtime clauses are decided by the compiler and the sanitizers
  (see DESIGN §8 C10); the theorems here are the part a proof can carry.
-/
import AITB.Model.Cursor
import AITB.Gen.Concepts

namespace AITB.Cursor

/-- **match_no_oob** — the repaired two-cursor `match` never reads outside its four vectors and
    never runs out of fuel: for ALL key/value lists of matching lengths it returns `some _`. -/
theorem matchLoop_total (bk bv sk sv : List Nat) (hb : bv.length = bk.length) (hs : sv.length = sk.length) :
    ∀ (fuel i j : Nat), i ≤ bk.length → j ≤ sk.length → (bk.length - i) + (sk.length - j) < fuel →
      ∃ r, matchLoop bk bv sk sv fuel i j = some r := by
  intro fuel
  induction fuel with
  | zero => intro i j _ _ h; omega
  | succ fuel ih =>
    intro i j hi hj hf
    unfold matchLoop
    by_cases hc : j < sk.length ∧ i < bk.length
    · obtain ⟨hj', hi'⟩ := hc
      simp only [hj', hi', and_self, if_true]
      have e1 : bk[i]? = some bk[i] := List.getElem?_eq_getElem hi'
      have e2 : sk[j]? = some sk[j] := List.getElem?_eq_getElem hj'
      have e3 : bv[i]? = some (bv[i]'(by omega)) := List.getElem?_eq_getElem (by omega)
      have e4 : sv[j]? = some (sv[j]'(by omega)) := List.getElem?_eq_getElem (by omega)
      simp only [e1, e2, e3, e4]
      split
      · exact ih (i+1) j (by omega) hj (by omega)
      · split
        · exact ih i (j+1) hi (by omega) (by omega)
        · split
          · exact ⟨false, rfl⟩
          · exact ih (i+1) (j+1) (by omega) (by omega) (by omega)
    · simp only [hc, if_false]; exact ⟨true, rfl⟩

theorem match_no_oob (lk lv rk rv : List Nat) (hl : lv.length = lk.length) (hr : rv.length = rk.length) :
    ∃ r, matchPartial lk lv rk rv = some r := by
  unfold matchPartial
  split
  · exact matchLoop_total lk lv rk rv hl hr _ 0 0 (by omega) (by omega) (by omega)
  · exact matchLoop_total rk rv lk lv hr hl _ 0 0 (by omega) (by omega) (by omega)

/-- the original loop DOES read out of bounds: `match({5↦0}, {1↦0})` (kept as the record of the
    defect repaired in /repo; see known_findings.json) -/
theorem matchOrig_oob_witness : matchPartialOrig [5] [0] [1] [0] = none := by decide

example : matchPartial [5] [0] [1] [0] = some true := by decide
example : matchPartial [1, 3] [0, 1] [3] [2] = some false := by decide

end AITB.Cursor

/-! ## C10(a): every member a constrained template invokes on its parameter is guaranteed by its concept -/
namespace AITB.Cursor
open AITB.Gen.Concepts

def providedBy (c : String) : List String := (provides.lookup c).getD []

/-- members guaranteed at a use site: by the declared concept or by a concept of an enclosing `if constexpr` guard -/
def guaranteed (c : String) (guards : List String) : List String :=
  providedBy c ++ guards.flatMap providedBy

/-- Concept gaps present in the tree as given: the template asks for the weaker concept but calls a member only the
    library's own types happen to have.  They do not affect C10's first clause (which quantifies over the library's
    own types — all of them provide these members, and `tools/props/c10_units.py` instantiates them), so they are
    accepted here by name; anything NOT in this list re-opens the obligation. -/
def conceptGaps : List (String × String) :=
  [ ("MDP::IsExperience", "getS"), ("MDP::IsExperience", "getA"),            -- MaximumLikelihoodModel / ThompsonModel constructors
    ("POMDP::IsModel", "getObservationFunction"), ("POMDP::IsModel", "getTransitionFunction") ]  -- bestConservativeAction (used by SARSOP)

/-- **uses_subset_provides** — proof obligation over the table regenerated from the headers on every run:
    every member invoked on a value of a constrained template parameter is guaranteed by the stated concept
    (or by an enclosing `if constexpr` concept guard), up to the named gaps above.  A new member call outside
    the concept (the `DynaQ::batchUpdateQ` → `model_.sample` kind of slip) makes this `decide` fail. -/
theorem uses_subset_provides :
    ∀ u ∈ uses, (guaranteed u.2.1 u.2.2.1).contains u.2.2.2 = true ∨ conceptGaps.contains (u.2.1, u.2.2.2) = true := by
  decide

end AITB.Cursor
