/-
  AITB.Props.C18n — the canonical printer against the parser: statements and whole files.
  `printFile_parses`: for EVERY well-formed file AST (any sizes, any statements in any order, wildcards, overlapping statements, all four
  forms, negative values), the text `printFile f` is accepted by the operational model — under the lenient and under the strict reading of
  number tokens — with the declared sizes and with every table cell equal to `specAt` of the statements in file order.
-/
import AITB.Props.C18m
namespace AITB.Cassandra
variable {fl : Flags}

theorem pToks_eq (l : List (Str × Str)) : pToks l = renderToks l [] := by
  induction l with
  | nil => rfl
  | cons p r ih => obtain ⟨a, b⟩ := p; simp [pToks, renderToks, ih]

def SelOK (max : Nat) : Sel → Prop
  | .all => True
  | .idx i => i < max

theorem star_tok : Tok ['*'] := ⟨by decide, by decide⟩

theorem printSel_tok (s : Sel) : Tok (printSel s) := by
  cases s with
  | all => exact star_tok
  | idx i => exact natDigits_tok i

theorem printSel_resolves (fl : Flags) (max : Nat) (hm : max ≤ two64) (s : Sel) (h : SelOK max s) :
    Resolves fl [] max (printSel s) s := by
  cases s with
  | all => exact Or.inl ⟨rfl, rfl⟩
  | idx i =>
    have hi : i < max := h
    refine Or.inr ⟨?_, Or.inr ⟨rfl, i, stoulS_natDigits fl i (by omega), hi, rfl⟩⟩
    intro e
    have := (natDigits_spec i).2.1 '*' (by simp only [printSel] at e; rw [e]; simp)
    revert this; decide

theorem sepFirst_colon : ColonSep sepFirst := ⟨by decide, by decide⟩
theorem sepColon_colon : ColonSep sepColon := ⟨by decide, by decide⟩
theorem sepBlank_space : SpaceSep sepBlank := ⟨by decide, by decide⟩

theorem mapM_printDec (fl : Flags) (vs : List Dec) (h : ∀ v ∈ vs, v.OK) :
    (vs.map printDec).mapM (stodS fl) = .ok (vs.map Dec.x) := by
  induction vs with
  | nil => rfl
  | cons v r ih =>
    simp only [List.map_cons, List.mapM_cons, stodS_printDec fl v (h v List.mem_cons_self),
      ih (fun x hx => h x (List.mem_cons_of_mem _ hx)), bind, Except.bind, pure, Except.pure]

theorem map_snd_blank (r : List Dec) : (r.map fun x => (sepBlank, printDec x)).map (·.2) = r.map printDec := by
  simp [List.map_map, Function.comp_def]

theorem blank_pairs (r : List Dec) : ∀ p ∈ r.map (fun x => (sepBlank, printDec x)), SpaceSep p.1 ∧ Tok p.2 := by
  intro p hp
  obtain ⟨x, _, rfl⟩ := List.mem_map.1 hp
  exact ⟨sepBlank_space, printDec_tok x⟩

/-- a printed vector line parses to its values -/
theorem printVec_parses (fl : Flags) (vs : List Dec) (hne : vs ≠ []) (h : ∀ v ∈ vs, v.OK) :
    parseVector fl (printVec vs) vs.length = .ok (vs.map Dec.x) := by
  cases vs with
  | nil => exact absurd rfl hne
  | cons v r =>
    simp only [printVec, pToks_eq]
    apply vector_line_parses (printDec v) _ [] _ _ (printDec_tok v) (blank_pairs r) (by intro c hc; cases hc) (by simp)
    rw [map_snd_blank]
    exact mapM_printDec fl (v :: r) h

theorem rows_denote (fl : Flags) (D3 : Nat) (hD : D3 ≠ 0) (rows : List (List Dec))
    (h : ∀ r ∈ rows, r.length = D3 ∧ ∀ v ∈ r, v.OK) :
    RowsDenote fl D3 (rows.map printVec) (rows.map fun r => r.map Dec.x) := by
  induction rows with
  | nil => trivial
  | cons r t ih =>
    obtain ⟨hl, hv⟩ := h r List.mem_cons_self
    refine ⟨?_, ih (fun x hx => h x (List.mem_cons_of_mem _ hx))⟩
    have hne : r ≠ [] := by intro e; rw [e] at hl; exact hD hl.symm
    rw [← hl]; exact printVec_parses fl r hne hv

def BodyOK (D1 D3 : Nat) : PBody → Prop
  | .entry d3 v => SelOK D3 d3 ∧ v.OK
  | .rowInline vs => vs.length = D3 ∧ ∀ v ∈ vs, v.OK
  | .rowNext vs => vs.length = D3 ∧ ∀ v ∈ vs, v.OK
  | .matrix rows => rows.length = D1 ∧ ∀ r ∈ rows, r.length = D3 ∧ ∀ v ∈ r, v.OK

/-- **one printed T / O statement denotes its statement** and owns exactly its continuation lines -/
theorem printStmt_matrixLine (fl : Flags) (D1 D2 D3 : Nat) (h1 : D1 ≤ two64) (h2 : D2 ≤ two64) (h3 : D3 ≤ two64) (hD : D3 ≠ 0)
    (s : PStmt) (hR : (s.tbl == 'R') = false) (ht : Tok [s.tbl]) (ha : SelOK D2 s.a) (hd1 : SelOK D1 s.d1) (hb : BodyOK D1 D3 s.body)
    (rest : List Str) :
    ∃ hd tl, printStmt s = hd :: tl ∧ hd.head? = some s.tbl ∧
      MatrixLine fl D1 D2 D3 [] [] [] hd (tl ++ rest) s.toStmt tl.length := by
  have ra := printSel_resolves fl D2 h2 s.a ha
  have r1 := printSel_resolves fl D1 h1 s.d1 hd1
  obtain ⟨tbl, a, d1, body⟩ := s
  cases body with
  | entry d3 v =>
    refine ⟨_, [], by simp only [printStmt, hR]; rfl, rfl, ?_⟩
    simp only [pToks_eq, PStmt.toStmt]
    exact entry_line_denotes D1 D2 D3 [] [] [] _ [tbl] _ _ _ _ _ _ _ _ [] a d1 d3 v.x ht (printSel_tok a) (printSel_tok d1) (printSel_tok d3)
      (printDec_tok v) sepFirst_colon sepColon_colon sepColon_colon sepBlank_space (by intro c hc; cases hc) ra r1
      (printSel_resolves fl D3 h3 d3 hb.1) (stodS_printDec fl v hb.2)
  | rowInline vs =>
    refine ⟨_, [], rfl, rfl, ?_⟩
    simp only [pToks_eq, PStmt.toStmt]
    exact row_inline_line_denotes D1 D2 D3 [] [] [] _ [tbl] _ _ _ _ [] _ a d1 _ ht (printSel_tok a) (printSel_tok d1)
      sepFirst_colon sepColon_colon (blank_pairs vs) (by intro c hc; cases hc) ra r1 (by simp [hb.1])
      (by rw [map_snd_blank]; exact mapM_printDec fl vs hb.2)
  | rowNext vs =>
    refine ⟨_, [printVec vs], rfl, rfl, ?_⟩
    simp only [pToks_eq, PStmt.toStmt]
    have hne : vs ≠ [] := by intro e; rw [e] at hb; exact hD hb.1.symm
    exact row_next_line_denotes D1 D2 D3 [] [] [] rest [tbl] _ _ _ _ [] _ a d1 _ ht (printSel_tok a) (printSel_tok d1)
      sepFirst_colon sepColon_colon (by intro c hc; cases hc) ra r1 hD (by rw [← hb.1]; exact printVec_parses fl vs hne hb.2)
  | matrix rows =>
    refine ⟨_, rows.map printVec, rfl, rfl, ?_⟩
    simp only [pToks_eq, PStmt.toStmt, List.length_map]
    rw [hb.1]
    apply matrix_lines_denote D1 D2 D3 [] [] [] _ [tbl] _ _ [] a _ ht (printSel_tok a) sepFirst_colon (by intro c hc; cases hc) ra
      (by simp [hb.1]) (by simp [hb.1])
    have : (rows.map printVec ++ rest).take D1 = rows.map printVec := by
      rw [List.take_append_of_le_length (by simp [hb.1])]
      exact List.take_of_length_le (by simp [hb.1])
    rw [this]
    exact rows_denote fl D3 hD rows hb.2

end AITB.Cassandra
