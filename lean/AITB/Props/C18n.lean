/-
  AITB.Props.C18n — the canonical printer against the parser: statements and whole files.
  `printFile_parses`: for EVERY well-formed file AST (any sizes, any statements in any order, wildcards, overlapping statements, all four
  forms, negative values), the text `printFile f` is accepted by the operational model — under the lenient and under the strict reading of
  number tokens — with the declared sizes and with every table cell equal to `specAt` of the statements in file order.
-/
import AITB.Props.C18m
namespace AITB.Cassandra
variable {fl : Flags}

theorem pToks_eq (l : List (Str × Str)) : pToks l = renderToks l [] := by
  induction l with
  | nil => rfl
  | cons p r ih => obtain ⟨a, b⟩ := p; simp [pToks, renderToks, ih]

def SelOK (max : Nat) : Sel → Prop
  | .all => True
  | .idx i => i < max

theorem star_tok : Tok ['*'] := ⟨by decide, by decide⟩

theorem printSel_tok (s : Sel) : Tok (printSel s) := by
  cases s with
  | all => exact star_tok
  | idx i => exact natDigits_tok i

theorem printSel_resolves (fl : Flags) (max : Nat) (hm : max ≤ two64) (s : Sel) (h : SelOK max s) :
    Resolves fl [] max (printSel s) s := by
  cases s with
  | all => exact Or.inl ⟨rfl, rfl⟩
  | idx i =>
    have hi : i < max := h
    refine Or.inr ⟨?_, Or.inr ⟨rfl, i, stoulS_natDigits fl i (by omega), hi, rfl⟩⟩
    intro e
    have := (natDigits_spec i).2.1 '*' (by simp only [printSel] at e; rw [e]; simp)
    revert this; decide

theorem sepFirst_colon : ColonSep sepFirst := ⟨by decide, by decide⟩
theorem sepColon_colon : ColonSep sepColon := ⟨by decide, by decide⟩
theorem sepBlank_space : SpaceSep sepBlank := ⟨by decide, by decide⟩

theorem mapM_printDec (fl : Flags) (vs : List Dec) (h : ∀ v ∈ vs, v.OK) :
    (vs.map printDec).mapM (stodS fl) = .ok (vs.map Dec.x) := by
  induction vs with
  | nil => rfl
  | cons v r ih =>
    simp only [List.map_cons, List.mapM_cons, stodS_printDec fl v (h v List.mem_cons_self),
      ih (fun x hx => h x (List.mem_cons_of_mem _ hx)), bind, Except.bind, pure, Except.pure]

theorem map_snd_blank (r : List Dec) : (r.map fun x => (sepBlank, printDec x)).map (·.2) = r.map printDec := by
  simp [List.map_map, Function.comp_def]

theorem blank_pairs (r : List Dec) : ∀ p ∈ r.map (fun x => (sepBlank, printDec x)), SpaceSep p.1 ∧ Tok p.2 := by
  intro p hp
  obtain ⟨x, _, rfl⟩ := List.mem_map.1 hp
  exact ⟨sepBlank_space, printDec_tok x⟩

/-- a printed vector line parses to its values -/
theorem printVec_parses (fl : Flags) (vs : List Dec) (hne : vs ≠ []) (h : ∀ v ∈ vs, v.OK) :
    parseVector fl (printVec vs) vs.length = .ok (vs.map Dec.x) := by
  cases vs with
  | nil => exact absurd rfl hne
  | cons v r =>
    simp only [printVec, pToks_eq]
    apply vector_line_parses (printDec v) _ [] _ _ (printDec_tok v) (blank_pairs r) (by intro c hc; cases hc) (by simp)
    rw [map_snd_blank]
    exact mapM_printDec fl (v :: r) h

theorem rows_denote (fl : Flags) (D3 : Nat) (hD : D3 ≠ 0) (rows : List (List Dec))
    (h : ∀ r ∈ rows, r.length = D3 ∧ ∀ v ∈ r, v.OK) :
    RowsDenote fl D3 (rows.map printVec) (rows.map fun r => r.map Dec.x) := by
  induction rows with
  | nil => trivial
  | cons r t ih =>
    obtain ⟨hl, hv⟩ := h r List.mem_cons_self
    refine ⟨?_, ih (fun x hx => h x (List.mem_cons_of_mem _ hx))⟩
    have hne : r ≠ [] := by intro e; rw [e] at hl; exact hD hl.symm
    rw [← hl]; exact printVec_parses fl r hne hv

def BodyOK (D1 D3 : Nat) : PBody → Prop
  | .entry d3 v => SelOK D3 d3 ∧ v.OK
  | .rowInline vs => vs.length = D3 ∧ ∀ v ∈ vs, v.OK
  | .rowNext vs => vs.length = D3 ∧ ∀ v ∈ vs, v.OK
  | .matrix rows => rows.length = D1 ∧ ∀ r ∈ rows, r.length = D3 ∧ ∀ v ∈ r, v.OK

/-- **one printed T / O statement denotes its statement** and owns exactly its continuation lines -/
theorem printStmt_matrixLine (fl : Flags) (D1 D2 D3 : Nat) (h1 : D1 ≤ two64) (h2 : D2 ≤ two64) (h3 : D3 ≤ two64) (hD : D3 ≠ 0)
    (s : PStmt) (hR : (s.tbl == 'R') = false) (ht : Tok [s.tbl]) (ha : SelOK D2 s.a) (hd1 : SelOK D1 s.d1) (hb : BodyOK D1 D3 s.body)
    (rest : List Str) :
    ∃ hd tl, printStmt s = hd :: tl ∧ hd.head? = some s.tbl ∧
      MatrixLine fl D1 D2 D3 [] [] [] hd (tl ++ rest) s.toStmt tl.length := by
  have ra := printSel_resolves fl D2 h2 s.a ha
  have r1 := printSel_resolves fl D1 h1 s.d1 hd1
  obtain ⟨tbl, a, d1, body⟩ := s
  cases body with
  | entry d3 v =>
    refine ⟨_, [], by simp only [printStmt, hR]; rfl, rfl, ?_⟩
    simp only [pToks_eq, PStmt.toStmt]
    exact entry_line_denotes D1 D2 D3 [] [] [] _ [tbl] _ _ _ _ _ _ _ _ [] a d1 d3 v.x ht (printSel_tok a) (printSel_tok d1) (printSel_tok d3)
      (printDec_tok v) sepFirst_colon sepColon_colon sepColon_colon sepBlank_space (by intro c hc; cases hc) ra r1
      (printSel_resolves fl D3 h3 d3 hb.1) (stodS_printDec fl v hb.2)
  | rowInline vs =>
    refine ⟨_, [], rfl, rfl, ?_⟩
    simp only [pToks_eq, PStmt.toStmt]
    exact row_inline_line_denotes D1 D2 D3 [] [] [] _ [tbl] _ _ _ _ [] _ a d1 _ ht (printSel_tok a) (printSel_tok d1)
      sepFirst_colon sepColon_colon (blank_pairs vs) (by intro c hc; cases hc) ra r1 (by simp [hb.1])
      (by rw [map_snd_blank]; exact mapM_printDec fl vs hb.2)
  | rowNext vs =>
    refine ⟨_, [printVec vs], rfl, rfl, ?_⟩
    simp only [pToks_eq, PStmt.toStmt]
    have hne : vs ≠ [] := by intro e; rw [e] at hb; exact hD hb.1.symm
    exact row_next_line_denotes D1 D2 D3 [] [] [] rest [tbl] _ _ _ _ [] _ a d1 _ ht (printSel_tok a) (printSel_tok d1)
      sepFirst_colon sepColon_colon (by intro c hc; cases hc) ra r1 hD (by rw [← hb.1]; exact printVec_parses fl vs hne hb.2)
  | matrix rows =>
    refine ⟨_, rows.map printVec, rfl, rfl, ?_⟩
    simp only [pToks_eq, PStmt.toStmt, List.length_map]
    rw [hb.1]
    apply matrix_lines_denote D1 D2 D3 [] [] [] _ [tbl] _ _ [] a _ ht (printSel_tok a) sepFirst_colon (by intro c hc; cases hc) ra
      (by simp [hb.1]) (by simp [hb.1])
    have : (rows.map printVec ++ rest).take D1 = rows.map printVec := by
      rw [List.take_append_of_le_length (by simp [hb.1])]
      exact List.take_of_length_le (by simp [hb.1])
    rw [this]
    exact rows_denote fl D3 hD rows hb.2

/-- **the printed reward statement denotes its statement** -/
theorem printStmt_rewardLine (fl : Flags) (S A : Nat) (hS : S ≤ two64) (hA : A ≤ two64) (a d1 d3 : Sel) (v : Dec)
    (ha : SelOK A a) (hd1 : SelOK S d1) (hd3 : SelOK S d3) (hv : v.OK) :
    RewardLine fl S A [] [] (['R'] ++ pToks [(sepFirst, printSel a), (sepColon, printSel d1), (sepColon, printSel d3), (sepColon, ['*']), (sepBlank, printDec v)])
      ⟨a, d1, .entry d3 v.x⟩ := by
  have hR : Tok ['R'] := ⟨by decide, by decide⟩
  rw [pToks_eq]
  have hsplit : split colonSpace (['R'] ++ renderToks [(sepFirst, printSel a), (sepColon, printSel d1), (sepColon, printSel d3), (sepColon, ['*']), (sepBlank, printDec v)] [])
      = [['R'], printSel a, printSel d1, printSel d3, ['*'], printDec v] := by
    rw [split_line colonSpace ['R'] _ [] hR.noD hR.1 _ (by intro c hc; cases hc)]
    · rfl
    · intro p hp
      simp only [List.mem_cons, List.mem_nil_iff, or_false] at hp
      rcases hp with rfl | rfl | rfl | rfl | rfl
      · exact ⟨sepFirst_colon.allD, sepFirst_colon.ne, (printSel_tok a).noD, (printSel_tok a).1⟩
      · exact ⟨sepColon_colon.allD, sepColon_colon.ne, (printSel_tok d1).noD, (printSel_tok d1).1⟩
      · exact ⟨sepColon_colon.allD, sepColon_colon.ne, (printSel_tok d3).noD, (printSel_tok d3).1⟩
      · exact ⟨sepColon_colon.allD, sepColon_colon.ne, star_tok.noD, star_tok.1⟩
      · exact ⟨sepBlank_space.allD, sepBlank_space.1, (printDec_tok v).noD, (printDec_tok v).1⟩
  have htok : tokenize colonSpace (['R'] ++ renderToks [(sepFirst, printSel a), (sepColon, printSel d1), (sepColon, printSel d3), (sepColon, ['*']), (sepBlank, printDec v)] [])
      = [['R'], printSel a, printSel d1, printSel d3, ['*'], printDec v] := by
    unfold tokenize
    rw [hsplit]
    simp [trim_tok _ (fun c hc => (hR.2 c hc).2), trim_tok _ (fun c hc => ((printSel_tok a).2 c hc).2), trim_tok _ (fun c hc => ((printSel_tok d1).2 c hc).2),
      trim_tok _ (fun c hc => ((printSel_tok d3).2 c hc).2), trim_tok _ (fun c hc => (star_tok.2 c hc).2), trim_tok _ (fun c hc => ((printDec_tok v).2 c hc).2)]
  have hcount : countColon (['R'] ++ renderToks [(sepFirst, printSel a), (sepColon, printSel d1), (sepColon, printSel d3), (sepColon, ['*']), (sepBlank, printDec v)] []) = 4 := by
    simp only [countColon, renderToks, List.count_append, hR.count, (printSel_tok a).count, (printSel_tok d1).count, (printSel_tok d3).count,
      star_tok.count, (printDec_tok v).count, sepFirst_colon.2, sepColon_colon.2, sepBlank_space.count, List.count_nil]
  refine .entry hcount ?_ ?_ ?_ ?_ (printSel_resolves fl A hA a ha) (printSel_resolves fl S hS d1 hd1) (printSel_resolves fl S hS d3 hd3)
    (stodS_printDec fl v hv) (fun _ => by rw [htok]; rfl) <;> rw [htok] <;> rfl

/-! ### the statement list -/

/-- well-formedness of one AST statement for the declared sizes -/
def PStmt.WF (k : Kind) (S A O : Nat) (s : PStmt) : Prop :=
  SelOK A s.a ∧ SelOK S s.d1 ∧
  ((s.tbl = 'T' ∧ BodyOK S S s.body) ∨ (s.tbl = 'O' ∧ k = .pomdp ∧ O ≠ 0 ∧ BodyOK S O s.body) ∨
   (s.tbl = 'R' ∧ ∃ d3 v, s.body = .entry d3 v ∧ SelOK S d3 ∧ v.OK))

def stmtsOfL (stmts : List PStmt) (c : Char) : List Stmt := (stmts.filter (·.tbl == c)).map PStmt.toStmt

theorem FileDenotes_skip {k : Kind} {p : Pre} (tl rest : List Str) {sT sR sW : List Stmt}
    (h : FileDenotes fl k p rest 0 sT sR sW) : FileDenotes fl k p (tl ++ rest) tl.length sT sR sW := by
  induction tl with
  | nil => exact h
  | cons l t ih => exact .skipped ih

theorem startsWith_head (c : Char) (r : Str) (d : Char) : startsWith (c :: r) [d] = (c == d) := by
  simp [startsWith]

/-- **the printed statements, as a line list, denote the statements** (in file order, per table) -/
theorem printStmts_denote (fl : Flags) (k : Kind) (S A O : Nat) (hS : S ≤ two64) (hA : A ≤ two64) (hO : O ≤ two64) (hS0 : S ≠ 0)
    (stmts : List PStmt) (hwf : ∀ s ∈ stmts, s.WF k S A O) :
    FileDenotes fl k { S := S, A := A, O := O } (stmts.flatMap printStmt) 0 (stmtsOfL stmts 'T') (stmtsOfL stmts 'R') (stmtsOfL stmts 'O') := by
  induction stmts with
  | nil => exact .nil
  | cons s t ih =>
    have ih' := ih (fun x hx => hwf x (List.mem_cons_of_mem _ hx))
    obtain ⟨ha, hd1, hcase⟩ := hwf s List.mem_cons_self
    simp only [List.flatMap_cons]
    rcases hcase with ⟨ht, hb⟩ | ⟨ht, hk, hO0, hb⟩ | ⟨ht, d3, v, hbody, hd3, hv⟩
    · obtain ⟨hd, tl, hp, hh, hm⟩ := printStmt_matrixLine fl S A S hS hA hS hS0 s (by rw [ht]; decide) (by rw [ht]; exact ⟨by decide, by decide⟩) ha hd1 hb
        (t.flatMap printStmt)
      rw [hp]
      have e1 : stmtsOfL (s :: t) 'T' = s.toStmt :: stmtsOfL t 'T' := by simp [stmtsOfL, ht]
      have e2 : stmtsOfL (s :: t) 'R' = stmtsOfL t 'R' := by simp [stmtsOfL, ht]
      have e3 : stmtsOfL (s :: t) 'O' = stmtsOfL t 'O' := by simp [stmtsOfL, ht]
      rw [e1, e2, e3]
      cases hd with
      | nil => simp at hh
      | cons c r =>
        simp only [List.head?_cons, Option.some.injEq] at hh
        simp only [List.cons_append]
        exact .tline (by rw [startsWith_head, hh, ht]; decide) hm (FileDenotes_skip tl _ ih')
    · obtain ⟨hd, tl, hp, hh, hm⟩ := printStmt_matrixLine fl S A O hS hA hO hO0 s (by rw [ht]; decide) (by rw [ht]; exact ⟨by decide, by decide⟩) ha hd1 hb
        (t.flatMap printStmt)
      rw [hp]
      have e1 : stmtsOfL (s :: t) 'T' = stmtsOfL t 'T' := by simp [stmtsOfL, ht]
      have e2 : stmtsOfL (s :: t) 'R' = stmtsOfL t 'R' := by simp [stmtsOfL, ht]
      have e3 : stmtsOfL (s :: t) 'O' = s.toStmt :: stmtsOfL t 'O' := by simp [stmtsOfL, ht]
      rw [e1, e2, e3]
      cases hd with
      | nil => simp at hh
      | cons c r =>
        simp only [List.head?_cons, Option.some.injEq] at hh
        simp only [List.cons_append]
        exact .oline (by rw [startsWith_head, hh, ht]; decide) hk (by rw [startsWith_head, hh, ht]; decide) hm (FileDenotes_skip tl _ ih')
    · obtain ⟨tbl, a, d1, body⟩ := s
      simp only at ht hbody
      subst ht; subst hbody
      have e1 : stmtsOfL (⟨'R', a, d1, .entry d3 v⟩ :: t) 'T' = stmtsOfL t 'T' := by simp [stmtsOfL]
      have e2 : stmtsOfL (⟨'R', a, d1, .entry d3 v⟩ :: t) 'R' = ⟨a, d1, .entry d3 v.x⟩ :: stmtsOfL t 'R' := by
        simp [stmtsOfL, PStmt.toStmt]
      have e3 : stmtsOfL (⟨'R', a, d1, .entry d3 v⟩ :: t) 'O' = stmtsOfL t 'O' := by simp [stmtsOfL]
      rw [e1, e2, e3]
      have hl := printStmt_rewardLine fl S A hS hA a d1 d3 v ha hd1 hd3 hv
      have hp : printStmt ⟨'R', a, d1, .entry d3 v⟩ = [['R'] ++ pToks [(sepFirst, printSel a), (sepColon, printSel d1), (sepColon, printSel d3), (sepColon, ['*']), (sepBlank, printDec v)]] := by
        simp [printStmt]
      rw [hp]
      simp only [List.cons_append, List.nil_append]
      exact .rline (by rfl) (by simp [startsWith]) (by rfl) hl ih'

/-! ### the printed lines survive the preamble pass unchanged -/

def NotKw (c : Char) : Prop := c ≠ 'v' ∧ c ≠ 's' ∧ c ≠ 'a' ∧ c ≠ 'o' ∧ c ≠ 'd'

/-- a printed line: a first token, then tokens each preceded by blanks/colons -/
def PLine (l : Str) : Prop :=
  ∃ t0 toks, Tok t0 ∧ (∀ p ∈ toks, (∀ c ∈ p.1, c = ':' ∨ c = ' ') ∧ Tok p.2) ∧ l = t0 ++ pToks toks ∧ ∃ c r, t0 = c :: r ∧ NotKw c

def EndsNS (l : Str) : Prop := ∃ pre d, l = pre ++ [d] ∧ isSpace d = false

theorem Tok.endsNS {t : Str} (h : Tok t) : EndsNS t :=
  ⟨t.dropLast, t.getLast h.1, (List.dropLast_concat_getLast h.1).symm, (h.2 _ (List.getLast_mem h.1)).2⟩

theorem EndsNS.append (a : Str) {b : Str} (h : EndsNS b) : EndsNS (a ++ b) := by
  obtain ⟨pre, d, rfl, hd⟩ := h
  exact ⟨a ++ pre, d, by simp, hd⟩

theorem pToks_endsNS (toks : List (Str × Str)) (hne : toks ≠ []) (h : ∀ p ∈ toks, Tok p.2) : EndsNS (pToks toks) := by
  induction toks with
  | nil => exact absurd rfl hne
  | cons p r ih =>
    obtain ⟨sep, t⟩ := p
    simp only [pToks]
    by_cases hr : r = []
    · subst hr
      simp only [pToks, List.append_nil]
      exact EndsNS.append sep (h (sep, t) List.mem_cons_self).endsNS
    · exact EndsNS.append _ (ih hr (fun q hq => h q (List.mem_cons_of_mem _ hq)))

theorem trim_of_ends (c : Char) (r : Str) (h1 : isSpace c = false) (h2 : EndsNS (c :: r)) : trim (c :: r) = c :: r := by
  obtain ⟨pre, d, hl, hd⟩ := h2
  unfold trim
  have e1 : (c :: r).dropWhile isSpace = c :: r := by simp [List.dropWhile, h1]
  rw [e1, hl]
  simp [hd]

theorem isPreambleLine_head (c : Char) (r : Str) (h : NotKw c) : isPreambleLine (c :: r) = false := by
  obtain ⟨h1, h2, h3, h4, h5⟩ := h
  have hv : kwValues = 'v' :: "alues".toList := by decide
  have hs : kwStates = 's' :: "tates".toList := by decide
  have ha : kwActions = 'a' :: "ctions".toList := by decide
  have ho : kwObservations = 'o' :: "bservations".toList := by decide
  have hd : kwDiscount = 'd' :: "iscount".toList := by decide
  have e1 : startsWith (c :: r) kwValues = false := by rw [hv]; exact startsWith_head_ne c 'v' r _ (by simpa using h1)
  have e2 : startsWith (c :: r) kwStates = false := by rw [hs]; exact startsWith_head_ne c 's' r _ (by simpa using h2)
  have e3 : startsWith (c :: r) kwActions = false := by rw [ha]; exact startsWith_head_ne c 'a' r _ (by simpa using h3)
  have e4 : startsWith (c :: r) kwObservations = false := by rw [ho]; exact startsWith_head_ne c 'o' r _ (by simpa using h4)
  have e5 : startsWith (c :: r) kwDiscount = false := by rw [hd]; exact startsWith_head_ne c 'd' r _ (by simpa using h5)
  simp only [isPreambleLine, keywords, List.any_cons, List.any_nil, e1, e2, e3, e4, e5, Bool.or_false]

theorem pToks_mem (toks : List (Str × Str)) (c : Char) (hc : c ∈ pToks toks) : ∃ p ∈ toks, c ∈ p.1 ∨ c ∈ p.2 := by
  induction toks with
  | nil => cases hc
  | cons p r ih =>
    obtain ⟨sep, t⟩ := p
    simp only [pToks, List.mem_append] at hc
    rcases hc with (hc | hc) | hc
    · exact ⟨(sep, t), List.mem_cons_self, Or.inl hc⟩
    · exact ⟨(sep, t), List.mem_cons_self, Or.inr hc⟩
    · obtain ⟨q, hq, h⟩ := ih hc
      exact ⟨q, List.mem_cons_of_mem _ hq, h⟩

theorem PLine.facts {l : Str} (h : PLine l) :
    trim l = l ∧ l.isEmpty = false ∧ isPreambleLine l = false ∧ ∀ c ∈ l, c ≠ '\n' := by
  obtain ⟨t0, toks, h0, htoks, rfl, c, r, rfl, hk⟩ := h
  have hc : isSpace c = false := (h0.2 c List.mem_cons_self).2
  have hends : EndsNS (c :: r ++ pToks toks) := by
    by_cases ht : toks = []
    · subst ht; simpa [pToks] using h0.endsNS
    · exact EndsNS.append _ (pToks_endsNS toks ht (fun p hp => (htoks p hp).2))
  refine ⟨trim_of_ends c (r ++ pToks toks) hc hends, rfl, isPreambleLine_head c _ hk, ?_⟩
  intro x hx e
  subst e
  rcases List.mem_append.1 hx with hx | hx
  · have := (h0.2 _ hx).2; simp [isSpace] at this
  · obtain ⟨p, hp, hpx | hpx⟩ := pToks_mem toks _ hx
    · rcases (htoks p hp).1 _ hpx with e | e <;> revert e <;> decide
    · have := ((htoks p hp).2.2 _ hpx).2; simp [isSpace] at this

theorem sep_chars : (∀ c ∈ sepFirst, c = ':' ∨ c = ' ') ∧ (∀ c ∈ sepColon, c = ':' ∨ c = ' ') ∧ (∀ c ∈ sepBlank, c = ':' ∨ c = ' ') := by
  refine ⟨?_, ?_, ?_⟩ <;> intro c hc <;> simp [sepFirst, sepColon, sepBlank] at hc <;> rcases hc with rfl | rfl | rfl <;> simp

theorem blank_pairs' (r : List Dec) : ∀ p ∈ r.map (fun x => (sepBlank, printDec x)), (∀ c ∈ p.1, c = ':' ∨ c = ' ') ∧ Tok p.2 := by
  intro p hp
  obtain ⟨x, _, rfl⟩ := List.mem_map.1 hp
  exact ⟨sep_chars.2.2, printDec_tok x⟩

theorem printDec_head (d : Dec) : ∃ c r, printDec d = c :: r ∧ NotKw c := by
  obtain ⟨ip, fp, hne, hi, _, _, _, hpr⟩ := printDec_parts d
  cases ip with
  | nil => exact absurd rfl hne
  | cons c r =>
    have hc := hi c List.mem_cons_self
    have hk : NotKw c := ⟨digit_ne hc _ (Or.inr (by decide)), digit_ne hc _ (Or.inr (by decide)), digit_ne hc _ (Or.inr (by decide)),
      digit_ne hc _ (Or.inr (by decide)), digit_ne hc _ (Or.inr (by decide))⟩
    cases hneg : d.neg
    · exact ⟨c, r ++ '.' :: fp, by rw [hpr, hneg]; rfl, hk⟩
    · exact ⟨'-', c :: r ++ '.' :: fp, by rw [hpr, hneg]; rfl, by unfold NotKw; decide⟩

theorem printVec_pline (vs : List Dec) (hne : vs ≠ []) : PLine (printVec vs) := by
  cases vs with
  | nil => exact absurd rfl hne
  | cons v r => exact ⟨printDec v, _, printDec_tok v, blank_pairs' r, rfl, printDec_head v⟩

theorem header_pline (tbl : Char) (ht : tbl = 'T' ∨ tbl = 'O' ∨ tbl = 'R') (toks : List (Str × Str))
    (h : ∀ p ∈ toks, (∀ c ∈ p.1, c = ':' ∨ c = ' ') ∧ Tok p.2) : PLine ([tbl] ++ pToks toks) := by
  refine ⟨[tbl], toks, ?_, h, rfl, tbl, [], rfl, ?_⟩
  · rcases ht with rfl | rfl | rfl <;> exact ⟨by decide, by decide⟩
  · rcases ht with rfl | rfl | rfl <;> (unfold NotKw; decide)

theorem printStmt_plines (k : Kind) (S A O : Nat) (hS0 : S ≠ 0) (s : PStmt) (hwf : s.WF k S A O) : ∀ l ∈ printStmt s, PLine l := by
  obtain ⟨_, _, hcase⟩ := hwf
  have htbl : s.tbl = 'T' ∨ s.tbl = 'O' ∨ s.tbl = 'R' := by
    rcases hcase with ⟨h, _⟩ | ⟨h, _⟩ | ⟨h, _⟩
    · exact Or.inl h
    · exact Or.inr (Or.inl h)
    · exact Or.inr (Or.inr h)
  have hD : ∃ D1 D3, D3 ≠ 0 ∧ BodyOK D1 D3 s.body := by
    rcases hcase with ⟨_, hb⟩ | ⟨_, _, hO0, hb⟩ | ⟨_, d3, v, hbody, hd3, hv⟩
    · exact ⟨S, S, hS0, hb⟩
    · exact ⟨S, O, hO0, hb⟩
    · exact ⟨S, S, hS0, by rw [hbody]; exact ⟨hd3, hv⟩⟩
  obtain ⟨D1, D3, hD3, hb⟩ := hD
  obtain ⟨tbl, a, d1, body⟩ := s
  have pa : (∀ c ∈ sepFirst, c = ':' ∨ c = ' ') ∧ Tok (printSel a) := ⟨sep_chars.1, printSel_tok a⟩
  have p1 : (∀ c ∈ sepColon, c = ':' ∨ c = ' ') ∧ Tok (printSel d1) := ⟨sep_chars.2.1, printSel_tok d1⟩
  simp only at htbl
  intro l hl
  cases body with
  | entry d3 v =>
    have p3 : (∀ c ∈ sepColon, c = ':' ∨ c = ' ') ∧ Tok (printSel d3) := ⟨sep_chars.2.1, printSel_tok d3⟩
    have pv : (∀ c ∈ sepBlank, c = ':' ∨ c = ' ') ∧ Tok (printDec v) := ⟨sep_chars.2.2, printDec_tok v⟩
    have ps : (∀ c ∈ sepColon, c = ':' ∨ c = ' ') ∧ Tok ['*'] := ⟨sep_chars.2.1, star_tok⟩
    simp only [printStmt] at hl
    split at hl
    · simp only [List.mem_cons, List.mem_nil_iff, or_false] at hl
      subst hl
      apply header_pline tbl htbl
      intro p hp
      simp only [List.mem_cons, List.mem_nil_iff, or_false] at hp
      rcases hp with rfl | rfl | rfl | rfl | rfl <;> assumption
    · simp only [List.mem_cons, List.mem_nil_iff, or_false] at hl
      subst hl
      apply header_pline tbl htbl
      intro p hp
      simp only [List.mem_cons, List.mem_nil_iff, or_false] at hp
      rcases hp with rfl | rfl | rfl | rfl <;> assumption
  | rowInline vs =>
    simp only [printStmt, List.mem_cons, List.mem_nil_iff, or_false] at hl
    subst hl
    apply header_pline tbl htbl
    intro p hp
    simp only [List.mem_cons] at hp
    rcases hp with rfl | rfl | hp
    · exact pa
    · exact p1
    · exact blank_pairs' vs p hp
  | rowNext vs =>
    have hne : vs ≠ [] := by intro e; rw [e] at hb; exact hD3 hb.1.symm
    simp only [printStmt, List.mem_cons, List.mem_nil_iff, or_false] at hl
    rcases hl with rfl | rfl
    · apply header_pline tbl htbl
      intro p hp
      simp only [List.mem_cons, List.mem_nil_iff, or_false] at hp
      rcases hp with rfl | rfl <;> assumption
    · exact printVec_pline vs hne
  | matrix rows =>
    simp only [printStmt, List.mem_cons, List.mem_map] at hl
    rcases hl with rfl | ⟨r, hr, rfl⟩
    · apply header_pline tbl htbl
      intro p hp
      simp only [List.mem_cons, List.mem_nil_iff, or_false] at hp
      subst hp; exact pa
    · have := hb.2 r hr
      exact printVec_pline r (by intro e; rw [e] at this; exact hD3 this.1.symm)

theorem unlines_eq (ls : List Str) : unlines ls = joinLines ls := by
  induction ls with
  | nil => rfl
  | cons l t ih => simp [unlines, joinLines, ih]

/-- **print, then parse.**  For every file AST whose statements are well-formed for the declared sizes (indices in range, row
    lengths right; any order, any overlap, any mix of the four forms and of `*`), the canonical text is accepted — by the lenient
    and by the strict reading of number tokens — with the declared sizes, and every cell of T, R, W is the value assigned by the
    LAST statement covering it (0 if none): `parse (print ast) = meaning ast`. -/
theorem printFile_parses (fl : Flags) (f : PFile) (hS : f.S < two64) (hA : f.A < two64) (hO : f.O < two64)
    (hS0 : f.S ≠ 0) (hA0 : f.A ≠ 0) (hO0 : f.k = .pomdp → f.O ≠ 0)
    (hfit : extentFits f.S f.A f.S = true ∧ (f.k = .pomdp → extentFits f.S f.A f.O = true))
    (hwf : ∀ s ∈ f.stmts, s.WF f.k f.S f.A f.O) :
    ∃ r, parse fl f.k (printFile f) = .ok r ∧ r.pre = { S := f.S, A := f.A, O := f.O } ∧ ∀ d1 a d3,
      tableAt r.st.wT d1 a d3 = specAt (f.stmtsOf 'T') f.S f.A f.S d1 a d3 ∧
      tableAt r.st.wR d1 a d3 = specAt (f.stmtsOf 'R') f.S f.A f.S d1 a d3 ∧
      tableAt r.st.wW d1 a d3 = specAt (f.stmtsOf 'O') f.S f.A f.O d1 a d3 := by
  have hlines : ∀ l ∈ f.stmts.flatMap printStmt, trim l = l ∧ l.isEmpty = false ∧ isPreambleLine l = false ∧ ∀ c ∈ l, c ≠ '\n' := by
    intro l hl
    obtain ⟨s, hs, hls⟩ := List.mem_flatMap.1 hl
    exact (printStmt_plines f.k f.S f.A f.O hS0 s (hwf s hs) l hls).facts
  have hsz : (f.S == 0 || f.A == 0 || (f.k == .pomdp && f.O == 0)) = false := by
    cases hk : f.k
    · simp [hS0, hA0]
    · simp [hS0, hA0, hO0 hk]
  have hfit' : (fl.sizeGuard && !(extentFits f.S f.A f.S && (f.k == .mdp || extentFits f.S f.A f.O))) = false := by
    cases hk : f.k
    · simp [hfit.1]
    · simp [hfit.1, hfit.2 hk]
  have hfile := printStmts_denote fl f.k f.S f.A f.O (by omega) (by omega) (by omega) hS0 f.stmts hwf
  have := rendered_file_parses fl f.k f.S f.A f.O (natDigits f.S) (natDigits f.A) (natDigits f.O) (f.stmts.flatMap printStmt)
    (stmtsOfL f.stmts 'T') (stmtsOfL f.stmts 'R') (stmtsOfL f.stmts 'O')
    (natDigits_Digits _ hS) (natDigits_Digits _ hA) (natDigits_Digits _ hO) hlines hsz hfit' hfile
  unfold printFile
  rw [unlines_eq]
  exact this

/-! ### the hypotheses of `printFile_parses` are satisfiable: a concrete file with a matrix, an overriding wildcard entry and a negative reward -/

def demoFile : PFile :=
  { k := .mdp, S := 2, A := 1, O := 0,
    stmts := [⟨'T', .idx 0, .all, .matrix [[⟨false, 5, 1⟩, ⟨false, 5, 1⟩], [⟨false, 10, 1⟩, ⟨false, 0, 3⟩]]⟩,
              ⟨'T', .idx 0, .idx 1, .rowNext [⟨false, 25, 2⟩, ⟨false, 75, 2⟩]⟩,
              ⟨'R', .all, .idx 1, .entry .all ⟨true, 25, 1⟩⟩] }

set_option exponentiation.threshold 2000 in
theorem dec_ok_small (neg : Bool) (n e : Nat) (hn : n < 1000) (he : e < 10) : (Dec.mk neg n e).OK := by
  constructor
  · calc n < 1000 := hn
      _ ≤ 10 ^ 300 := by decide
  · show e ≤ 300; omega

theorem demoFile_wf : ∀ s ∈ demoFile.stmts, s.WF demoFile.k demoFile.S demoFile.A demoFile.O := by
  intro s hs
  simp only [demoFile, List.mem_cons, List.mem_nil_iff, or_false] at hs
  rcases hs with rfl | rfl | rfl
  · refine ⟨by show 0 < 1; decide, trivial, Or.inl ⟨rfl, rfl, ?_⟩⟩
    intro r hr
    simp only [List.mem_cons, List.mem_nil_iff, or_false] at hr
    rcases hr with rfl | rfl <;> refine ⟨rfl, ?_⟩ <;> intro v hv <;>
      simp only [List.mem_cons, List.mem_nil_iff, or_false] at hv <;> rcases hv with rfl | rfl <;> exact dec_ok_small _ _ _ (by decide) (by decide)
  · refine ⟨by show 0 < 1; decide, by show 1 < 2; decide, Or.inl ⟨rfl, rfl, ?_⟩⟩
    intro v hv
    simp only [List.mem_cons, List.mem_nil_iff, or_false] at hv
    rcases hv with rfl | rfl <;> exact dec_ok_small _ _ _ (by decide) (by decide)
  · exact ⟨trivial, by show 1 < 2; decide, Or.inr (Or.inr ⟨rfl, .all, ⟨true, 25, 1⟩, rfl, trivial, dec_ok_small _ _ _ (by decide) (by decide)⟩)⟩

/-- the text is what one expects (a test, by evaluation) -/
example : String.ofList (printFile demoFile) =
    "states:2\nactions:1\nobservations:0\nT: 0\n0.5 0.5\n1.0 0.000\nT: 0 : 1\n0.25 0.75\nR: * : 1 : * : * -2.5\n" := by decide +kernel

example : ∃ r, parse Gen.Dispatch.flags .mdp (printFile demoFile) = .ok r ∧
    tableAt r.st.wT 1 0 1 = specAt (demoFile.stmtsOf 'T') 2 1 2 1 0 1 := by
  obtain ⟨r, h, _, ht⟩ := printFile_parses Gen.Dispatch.flags demoFile (by decide) (by decide) (by decide) (by decide) (by decide)
    (by intro h; cases h) ⟨by decide, by intro h; cases h⟩ demoFile_wf
  exact ⟨r, h, (ht 1 0 1).1⟩

end AITB.Cassandra
