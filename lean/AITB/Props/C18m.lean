/-
  AITB.Props.C18m — the canonical printer (`Model.CassandraPrint`) against the parser: numbers.
  `natDigits` / `printDec` produce text that `stoul` / `stod` (lenient or strict) read back exactly.
-/
import AITB.Props.C18l
import AITB.Props.C18g
import AITB.Model.CassandraPrint
import Mathlib.Algebra.Order.Field.Rat
import Mathlib.Tactic.Linarith
import Mathlib.Tactic.NormNum
import Mathlib.Tactic.Ring
import Mathlib.Tactic.IntervalCases
namespace AITB.Cassandra

/-! ### natural numbers -/

theorem digitChar_isDigit (d : Nat) (h : d < 10) : isDigit (digitChar d) = true := by
  interval_cases d <;> decide

theorem digitVal_digitChar (d : Nat) (h : d < 10) : digitVal (digitChar d) = d := by
  interval_cases d <;> decide

theorem digitsVal_cons (c : Char) (ds : Str) : digitsVal (c :: ds) = digitVal c * 10 ^ ds.length + digitsVal ds := by
  unfold digitsVal
  have : ∀ (l : Str) (a : Nat), l.foldl (fun n c => 10 * n + digitVal c) a = a * 10 ^ l.length + l.foldl (fun n c => 10 * n + digitVal c) 0 := by
    intro l
    induction l with
    | nil => intro a; simp
    | cons x t ih =>
      intro a
      simp only [List.foldl_cons, List.length_cons]
      rw [ih (10 * a + digitVal x), ih (10 * 0 + digitVal x)]
      ring
  simp only [List.foldl_cons]
  rw [this ds (10 * 0 + digitVal c)]
  ring

theorem digitsVal_append (a b : Str) : digitsVal (a ++ b) = digitsVal a * 10 ^ b.length + digitsVal b := by
  induction a with
  | nil => simp [digitsVal]
  | cons c t ih =>
    simp only [List.cons_append, digitsVal_cons, ih, List.length_append]
    ring

theorem natDigitsAux_spec (fuel n : Nat) (acc : Str) (hf : n < fuel) (hacc : ∀ c ∈ acc, isDigit c = true) :
    (∀ c ∈ natDigitsAux fuel n acc, isDigit c = true) ∧
    digitsVal (natDigitsAux fuel n acc) = n * 10 ^ acc.length + digitsVal acc ∧
    acc.length < (natDigitsAux fuel n acc).length := by
  induction fuel generalizing n acc with
  | zero => omega
  | succ f ih =>
    have hd := digitChar_isDigit (n % 10) (Nat.mod_lt _ (by decide))
    have hacc' : ∀ c ∈ digitChar (n % 10) :: acc, isDigit c = true := by
      intro c hc
      rcases List.mem_cons.1 hc with rfl | hc
      · exact hd
      · exact hacc c hc
    simp only [natDigitsAux]
    by_cases h10 : n < 10
    · simp only [h10, if_true]
      refine ⟨hacc', ?_, by simp⟩
      rw [digitsVal_cons, digitVal_digitChar _ (Nat.mod_lt _ (by decide)), Nat.mod_eq_of_lt h10]
    · simp only [h10, if_false]
      have hlt : n / 10 < f := by omega
      obtain ⟨i1, i2, i3⟩ := ih (n / 10) (digitChar (n % 10) :: acc) hlt hacc'
      refine ⟨i1, ?_, by simp only [List.length_cons] at i3; omega⟩
      rw [i2, digitsVal_cons, digitVal_digitChar _ (Nat.mod_lt _ (by decide)), List.length_cons]
      have := Nat.div_add_mod n 10
      calc n / 10 * 10 ^ (acc.length + 1) + (n % 10 * 10 ^ acc.length + digitsVal acc)
          = (10 * (n / 10) + n % 10) * 10 ^ acc.length + digitsVal acc := by ring
        _ = n * 10 ^ acc.length + digitsVal acc := by rw [this]

/-- **the decimal digits of `n` denote `n`** -/
theorem natDigits_spec (n : Nat) :
    natDigits n ≠ [] ∧ (∀ c ∈ natDigits n, isDigit c = true) ∧ digitsVal (natDigits n) = n := by
  obtain ⟨h1, h2, h3⟩ := natDigitsAux_spec (n + 1) n [] (by omega) (by intro c hc; cases hc)
  refine ⟨?_, h1, by unfold natDigits; simpa [digitsVal] using h2⟩
  intro e
  unfold natDigits at e
  rw [e] at h3
  simp at h3

theorem natDigits_Digits (n : Nat) (h : n < two64) : Digits (natDigits n) n :=
  ⟨(natDigits_spec n).1, (natDigits_spec n).2.1, (natDigits_spec n).2.2, h⟩

/-- an index printed as a number is read back as that index, by the lenient and by the strict conversion -/
theorem stoulS_natDigits (fl : Flags) (n : Nat) (h : n < two64) : stoulS fl (natDigits n) = .ok n := by
  obtain ⟨h1, h2, h3⟩ := natDigits_spec n
  rw [stoulS_digits fl _ h1 h2 (by rw [h3]; exact h), h3]

/-! ### a leading minus sign -/

def xneg : XRat → XRat
  | .fin q => .fin (-q)
  | .pinf => .ninf
  | .ninf => .pinf
  | .nan => .nan

def negR : R XRat → R XRat
  | .ok v => .ok (xneg v)
  | .error e => .error e

theorem inRange_neg (q : Rat) : inRange true q = negR (inRange false q) := by
  unfold inRange
  split <;> simp [negR, xneg]

theorem stodDec_neg (r : Str) : stodDec true r = negR (stodDec false r) := by
  unfold stodDec
  simp only []
  split <;> (split_ifs <;> simp [negR, xneg, inRange_neg])

theorem stodHex_neg (r : Str) : stodHex true r = negR (stodHex false r) := by
  unfold stodHex
  simp only []
  split <;> (split_ifs <;> simp [negR, xneg, inRange_neg])

theorem digit_facts {c : Char} (hc : isDigit c = true) :
    isSpace c = false ∧ c ≠ '-' ∧ c ≠ '+' ∧ (lower c == 'i') = false ∧ (lower c == 'n') = false := by
  refine ⟨digit_not_space hc, digit_ne hc _ (Or.inl (by decide)), digit_ne hc _ (Or.inl (by decide)), ?_, ?_⟩
  · rw [lower_digit hc]; simpa using digit_ne hc 'i' (Or.inr (by decide))
  · rw [lower_digit hc]; simpa using digit_ne hc 'n' (Or.inr (by decide))

theorem takeSign_digit {c : Char} (hc : isDigit c = true) (r : Str) : takeSign (c :: r) = (false, c :: r) := by
  obtain ⟨_, hm, hp, _, _⟩ := digit_facts hc
  unfold takeSign
  split
  · rename_i heq; injection heq with h1 _; exact absurd h1 hm
  · rename_i heq; injection heq with h1 _; exact absurd h1 hp
  · rfl

/-- **a minus sign in front of a literal that starts with a digit negates the value** -/
theorem stod_minus {c : Char} (hc : isDigit c = true) (r : Str) : stod ('-' :: c :: r) = negR (stod (c :: r)) := by
  obtain ⟨hsp, hm, hp, hi, hn⟩ := digit_facts hc
  have hinf : startsWithCI (c :: r) ['i', 'n', 'f'] = false := by simp [startsWithCI, startsWith, hi]
  have hnan : startsWithCI (c :: r) ['n', 'a', 'n'] = false := by simp [startsWithCI, startsWith, hn]
  have d1 : ('-' :: c :: r).dropWhile isSpace = '-' :: c :: r := by
    have : isSpace '-' = false := by decide
    simp [List.dropWhile, this]
  have d2 : (c :: r).dropWhile isSpace = c :: r := by simp [List.dropWhile, hsp]
  have s1 : takeSign ('-' :: c :: r) = (true, c :: r) := rfl
  unfold stod
  rw [d1, d2, s1, takeSign_digit hc]
  simp only [hinf, hnan, Bool.false_eq_true, if_false]
  split
  · split_ifs
    · exact stodHex_neg _
    · exact stodDec_neg _
  · exact stodDec_neg _

theorem stodPos_minus {c : Char} (hc : isDigit c = true) (r : Str) : stodPos ('-' :: c :: r) = 1 + stodPos (c :: r) := by
  obtain ⟨hsp, hm, hp, hi, hn⟩ := digit_facts hc
  have t1 : ('-' :: c :: r).takeWhile isSpace = [] := by
    have : isSpace '-' = false := by decide
    simp [List.takeWhile, this]
  have t2 : (c :: r).takeWhile isSpace = [] := by simp [List.takeWhile, hsp]
  have d1 : ('-' :: c :: r).dropWhile isSpace = '-' :: c :: r := by
    have : isSpace '-' = false := by decide
    simp [List.dropWhile, this]
  have d2 : (c :: r).dropWhile isSpace = c :: r := by simp [List.dropWhile, hsp]
  have s1 : takeSign ('-' :: c :: r) = (true, c :: r) := rfl
  have l2 : signLen (c :: r) = 0 := by
    unfold signLen
    split
    · rename_i heq; injection heq with h1 _; exact absurd h1 hm
    · rename_i heq; injection heq with h1 _; exact absurd h1 hp
    · rfl
  unfold stodPos
  have l1 : signLen ('-' :: c :: r) = 1 := rfl
  simp only [t1, t2, d1, d2, s1, takeSign_digit hc, l1, l2, List.length_nil]
  omega

theorem stodS_minus (fl : Flags) {c : Char} (hc : isDigit c = true) (r : Str) :
    stodS fl ('-' :: c :: r) = negR (stodS fl (c :: r)) := by
  unfold stodS
  rw [stod_minus hc, stodPos_minus hc]
  cases stod (c :: r) with
  | error e => rfl
  | ok v =>
    simp only [negR, bind, Except.bind, List.length_cons]
    by_cases h : (fl.strictNumbers && stodPos (c :: r) != r.length + 1) = true
    · have h' : (fl.strictNumbers && 1 + stodPos (c :: r) != r.length + 1 + 1) = true := by
        simp only [Bool.and_eq_true, bne_iff_ne, ne_eq] at h ⊢
        exact ⟨h.1, by omega⟩
      simp [h, h']
    · have h0 : (fl.strictNumbers && stodPos (c :: r) != r.length + 1) = false := by simpa using h
      have h' : (fl.strictNumbers && 1 + stodPos (c :: r) != r.length + 1 + 1) = false := by
        cases hs : fl.strictNumbers
        · rfl
        · rw [hs] at h0
          simp only [Bool.true_and, bne_eq_false_iff_eq] at h0 ⊢
          omega
      simp [h0, h', pure, Except.pure]

/-! ### decimals -/

/-- the printable range used by the harness: up to 300 digits either side of the point (far inside the double range) -/
def Dec.OK (d : Dec) : Prop := d.n < 10 ^ 300 ∧ d.e ≤ 300

theorem digitsVal_zeros (k : Nat) : digitsVal (List.replicate k '0') = 0 := by
  induction k with
  | zero => rfl
  | succ k ih => rw [List.replicate_succ, digitsVal_cons, ih]; simp [digitVal]

theorem printDec_parts (d : Dec) :
    ∃ ip fp, ip ≠ [] ∧ (∀ c ∈ ip, isDigit c = true) ∧ (∀ c ∈ fp, isDigit c = true) ∧ fp.length = d.e ∧
      digitsVal (ip ++ fp) = d.n ∧ printDec d = (if d.neg then ['-'] else []) ++ (ip ++ '.' :: fp) := by
  obtain ⟨h1, h2, h3⟩ := natDigits_spec d.n
  let padded := List.replicate (d.e + 1 - (natDigits d.n).length) '0' ++ natDigits d.n
  have hlen : d.e + 1 ≤ padded.length := by simp only [padded, List.length_append, List.length_replicate]; omega
  have hdig : ∀ c ∈ padded, isDigit c = true := by
    intro c hc
    rcases List.mem_append.1 hc with h | h
    · rw [(List.mem_replicate.1 h).2]; decide
    · exact h2 c h
  have hval : digitsVal padded = d.n := by
    simp only [padded]
    rw [digitsVal_append, digitsVal_zeros, h3]; simp
  refine ⟨padded.take (padded.length - d.e), padded.drop (padded.length - d.e), ?_, ?_, ?_, ?_, ?_, rfl⟩
  · intro e
    have := congrArg List.length e
    simp only [List.length_take, List.length_nil] at this
    omega
  · intro c hc; exact hdig c (List.mem_of_mem_take hc)
  · intro c hc; exact hdig c (List.mem_of_mem_drop hc)
  · simp only [List.length_drop]; omega
  · rw [List.take_append_drop]; exact hval

theorem pow10_pos (e : Nat) : (0 : Rat) < pow10 e := by
  unfold pow10; exact_mod_cast Nat.pos_of_ne_zero (by positivity)

set_option exponentiation.threshold 2000 in
theorem pow10_le (e : Nat) (h : e ≤ 300) : pow10 e ≤ (10 : Rat) ^ 300 := by
  unfold pow10
  have : (10 : Nat) ^ e ≤ 10 ^ 300 := Nat.pow_le_pow_right (by decide) h
  exact_mod_cast this

set_option exponentiation.threshold 2000 in
theorem inRange_ok (q : Rat) (n e : Nat) (hq : q = (n : Rat) / pow10 e) (hn0 : n ≠ 0) (hn : n < 10 ^ 300) (he : e ≤ 300) :
    inRange false q = .ok (.fin q) := by
  have hp := pow10_pos e
  have hp1 : (1 : Rat) ≤ pow10 e := by unfold pow10; exact_mod_cast Nat.one_le_pow _ _ (by decide)
  have hnq : (1 : Rat) ≤ (n : Rat) := by exact_mod_cast Nat.pos_of_ne_zero hn0
  have hnlt : (n : Rat) < (10 : Rat) ^ 300 := by exact_mod_cast hn
  have hup : q < dblOver := by
    have h1 : q ≤ (n : Rat) := by rw [hq, div_le_iff₀ hp]; nlinarith
    have h2 : (10 : Rat) ^ 300 ≤ dblOver := by unfold dblOver; norm_num
    linarith
  have hlo : dblTiny ≤ q := by
    have h1 : (1 : Rat) / (10 : Rat) ^ 300 ≤ q := by
      rw [hq, div_le_div_iff₀ (by positivity) hp]
      have h3 := pow10_le e he
      have h4 : (0 : Rat) ≤ (10 : Rat) ^ 300 := by positivity
      calc 1 * pow10 e ≤ 1 * (10 : Rat) ^ 300 := by linarith
        _ ≤ (n : Rat) * (10 : Rat) ^ 300 := mul_le_mul_of_nonneg_right hnq h4
    have h2 : dblTiny ≤ (1 : Rat) / (10 : Rat) ^ 300 := by unfold dblTiny; norm_num
    linarith
  unfold inRange
  have : (decide (q ≥ dblOver) || decide (q < dblTiny)) = false := by
    simp only [Bool.or_eq_false_iff, decide_eq_false_iff_not, not_le, not_lt]
    exact ⟨hup, hlo⟩
  simp [this]

theorem stod_unsigned (ip fp : Str) (hne : ip ≠ []) (hi : ∀ c ∈ ip, isDigit c = true) (hf : ∀ c ∈ fp, isDigit c = true)
    (hn : digitsVal (ip ++ fp) < 10 ^ 300) (he : fp.length ≤ 300) :
    stod (ip ++ '.' :: fp) = .ok (.fin ((digitsVal (ip ++ fp) : Rat) / pow10 fp.length)) := by
  rw [stod_decimal ip fp hne hi hf]
  unfold decValue
  by_cases h0 : digitsVal (ip ++ fp) = 0
  · simp [h0]
  · have hb : (digitsVal (ip ++ fp) == 0) = false := by simpa using h0
    have h1 : ¬ ((0 : Int) - (fp.length : Int) > 5000) := by omega
    have h2 : ¬ ((0 : Int) - (fp.length : Int) < -5000) := by omega
    simp only [hb, Bool.false_eq_true, if_false, h1, h2]
    by_cases hl : fp.length = 0
    · have h3 : (0 : Int) - (fp.length : Int) ≥ 0 := by omega
      have h4 : ((0 : Int) - (fp.length : Int)).toNat = 0 := by omega
      simp only [h3, if_true, h4]
      have : pow10 0 = 1 := by unfold pow10; norm_num
      rw [hl, this, mul_one, div_one]
      exact inRange_ok _ _ 0 (by rw [this, div_one]) h0 hn (by omega)
    · have h3 : ¬ ((0 : Int) - (fp.length : Int) ≥ 0) := by omega
      have h4 : (-(0 - (fp.length : Int))).toNat = fp.length := by omega
      simp only [h3, if_false, h4]
      exact inRange_ok _ _ _ rfl h0 hn he

/-- **a printed decimal is read back as exactly its value**, by the lenient and by the strict conversion -/
theorem stodS_printDec (fl : Flags) (d : Dec) (hd : d.OK) : stodS fl (printDec d) = .ok d.x := by
  obtain ⟨ip, fp, hne, hi, hf, hlen, hval, hpr⟩ := printDec_parts d
  have hu : stodS fl (ip ++ '.' :: fp) = .ok (.fin ((d.n : Rat) / pow10 d.e)) := by
    rw [stodS_decimal fl ip fp hne hi hf, stod_unsigned ip fp hne hi hf (by rw [hval]; exact hd.1) (by rw [hlen]; exact hd.2), hval, hlen]
  rw [hpr]
  cases hneg : d.neg
  · simp only [Bool.false_eq_true, if_false, List.nil_append, hu, Dec.x, Dec.value, hneg]
  · simp only [if_true]
    cases ip with
    | nil => exact absurd rfl hne
    | cons c r =>
      have hc := hi c List.mem_cons_self
      have : ['-'] ++ (c :: r ++ '.' :: fp) = '-' :: c :: (r ++ '.' :: fp) := rfl
      rw [this, stodS_minus fl hc]
      have hu' : stodS fl (c :: (r ++ '.' :: fp)) = .ok (.fin ((d.n : Rat) / pow10 d.e)) := hu
      rw [hu']
      simp [negR, xneg, Dec.x, Dec.value, hneg]

theorem printDec_tok (d : Dec) : Tok (printDec d) := by
  obtain ⟨ip, fp, hne, hi, hf, _, _, hpr⟩ := printDec_parts d
  rw [hpr]
  constructor
  · cases d.neg <;> simp
  · intro c hc
    simp only [List.mem_append, List.mem_cons] at hc
    rcases hc with hc | hc | rfl | hc
    · cases hneg : d.neg
      · rw [hneg] at hc; simp at hc
      · rw [hneg] at hc; simp at hc; subst hc; exact ⟨by decide, by decide⟩
    · exact ⟨digit_not_colon (hi c hc), digit_not_space (hi c hc)⟩
    · exact ⟨by decide, by decide⟩
    · exact ⟨digit_not_colon (hf c hc), digit_not_space (hf c hc)⟩

theorem natDigits_tok (n : Nat) : Tok (natDigits n) := by
  obtain ⟨h1, h2, _⟩ := natDigits_spec n
  exact ⟨h1, fun c hc => ⟨digit_not_colon (h2 c hc), digit_not_space (h2 c hc)⟩⟩

end AITB.Cassandra
