/-
  AITB.Props.C04q — the driver's replay clause covers every observation history.

  The harness replays, depth first, ALL observation sequences from every top entry through the real
  `Policy::sampleAction(id, o, h)` and the driver compares the reported (action, id) sequence with `replayAll`.
  `follow_subset_replayAll`: every step of the replay of EVERY single history (`follow`, the object of `follow_in_range`,
  `reach_id_eq_follow`, `policy_episode`) occurs in `replayAll`; `replayAll_length`: and `replayAll` contains nothing else
  (its length is the number of non-empty histories of length ≤ h, `O + O² + … + O^h`).
  `subMultiset_sound`: the "entries moved whole" clause (`subMultiset`, applied to the kept prefixes of the real extractDominated /
  Pruner and to every logged Pruner answer) is multiset inclusion.
-/
import AITB.Props.C04b
import Mathlib.Data.List.Perm.Subperm

namespace AITB.Plan

theorem follow_subset_replayAll (O : Nat) (vf : VF) : ∀ (h id : Nat) (os : List Nat), (∀ o ∈ os, o < O) →
    ∀ r ∈ follow vf h id os, r ∈ replayAll O vf h id
  | 0, _, _, _, r, hr => by simp [follow] at hr
  | h+1, id, [], _, r, hr => by simp [follow] at hr
  | h+1, id, o :: os, hos, r, hr => by
    simp only [follow, List.mem_cons] at hr
    simp only [replayAll, List.mem_flatMap, List.mem_range]
    refine ⟨o, hos o (List.mem_cons_self ..), ?_⟩
    rcases hr with rfl | hr
    · exact List.mem_cons_self ..
    · exact List.mem_cons_of_mem _
        (follow_subset_replayAll O vf h _ os (fun o' ho' => hos o' (List.mem_cons_of_mem _ ho')) r hr)

/-- number of non-empty observation histories of length ≤ h -/
def histCount (O : Nat) : Nat → Nat
  | 0 => 0
  | h+1 => O * (1 + histCount O h)

theorem length_flatMap_const {α β} (l : List α) (g : α → List β) (n : Nat) (h : ∀ x ∈ l, (g x).length = n) :
    (l.flatMap g).length = l.length * n := by
  induction l with
  | nil => simp
  | cons x xs ih =>
    simp only [List.flatMap_cons, List.length_append, List.length_cons]
    rw [h x (List.mem_cons_self ..), ih (fun y hy => h y (List.mem_cons_of_mem _ hy))]
    rw [Nat.add_mul, Nat.one_mul, Nat.add_comm]

theorem replayAll_length (O : Nat) (vf : VF) : ∀ (h id : Nat), (replayAll O vf h id).length = histCount O h
  | 0, _ => rfl
  | h+1, id => by
    simp only [replayAll, histCount]
    rw [length_flatMap_const _ _ (1 + histCount O h)]
    · simp
    · intro o _
      simp only [List.length_cons]
      rw [replayAll_length O vf h]; omega

/-- TEST: 2 observations, horizon 3: 2 + 4 + 8 = 14 calls -/
example : histCount 2 3 = 14 := by decide

theorem ventry_beq_iff (a b : VEntry) : (a == b) = true ↔ a = b := by
  cases a with | mk v1 a1 o1 => cases b with | mk v2 a2 o2 =>
  show (instBEqVEntry.beq _ _ = true) ↔ _
  unfold instBEqVEntry.beq
  simp only [VEntry.mk.injEq]
  simp [Bool.and_eq_true]

instance : LawfulBEq VEntry where
  eq_of_beq h := (ventry_beq_iff _ _).mp h
  rfl := (ventry_beq_iff _ _).mpr rfl

/-- the driver's "whole entries" clause is multiset inclusion -/
theorem subMultiset_sound : ∀ (out inp : List VEntry), subMultiset out inp = true → List.Subperm out inp
  | [], inp, _ => List.nil_subperm
  | e :: out, inp, h => by
    simp only [subMultiset] at h
    split at h
    · rename_i hc
      have hmem : e ∈ inp := List.contains_iff_mem.mp hc
      have ih := subMultiset_sound out (inp.erase e) h
      exact ((List.subperm_cons e).mpr ih).trans (List.perm_cons_erase hmem).symm.subperm
    · exact absurd h (by simp)

end AITB.Plan
