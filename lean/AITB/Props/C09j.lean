/-
  C09 part j (round 3) — "value-based action selection is unchanged when the same constant is added to every value", for the
  bandit policies that select on reward estimates / posterior draws (exact comparisons, no tolerance: no separation hypothesis):
  Thompson kernel, T3C challenger, SuccessiveRejects elimination step, recommendAction.  And the composition
  EpsilonPolicy(QGreedyPolicy) on clustered rows.
-/
import AITB.Props.C09c
import AITB.Props.C09h
import AITB.Props.C09i

namespace AITB.Pol

/-! ### Thompson kernel -/

theorem gtOpt_shift (v c : Rat) (bv : Option Rat) : gtOpt (v + c) (bv.map (· + c)) = gtOpt v bv := by
  cases bv with
  | none => rfl
  | some b =>
    simp only [gtOpt, Option.map_some]
    by_cases h : b < v
    · have : b + c < v + c := by linarith
      simp [h, this]
    · have : ¬ b + c < v + c := by intro h'; exact h (by linarith)
      simp [h, this]

theorem thLoop_shift (cnt : Nat → Nat) (val : Nat → Rat) (c : Rat) : ∀ (r a best : Nat) (bv : Option Rat),
    thLoop cnt (fun i => val i + c) r a best (bv.map (· + c)) = thLoop cnt val r a best bv := by
  intro r
  induction r with
  | zero => intro a best bv; rfl
  | succ r ih =>
    intro a best bv
    rw [thLoop, thLoop]
    by_cases h2 : cnt a < 2
    · rw [if_pos h2, if_pos h2]
    · rw [if_neg h2, if_neg h2, gtOpt_shift]
      by_cases hg : gtOpt (val a) bv = true
      · rw [if_pos hg, if_pos hg]
        exact ih (a + 1) a (some (val a))
      · rw [if_neg hg, if_neg hg]
        exact ih (a + 1) best bv

/-- **thompson_shift_invariant** — with the running maximum starting below every double (the repaired initialiser, as extracted),
    adding a constant to every posterior draw (= adding it to every recorded reward: the mean shifts, the spread does not) leaves
    the selected arm unchanged; for any number of arms, any visit counts, draws of any sign. -/
theorem thompson_shift_invariant (cnt : Nat → Nat) (val : Nat → Rat) (n : Nat) (c : Rat) :
    thompson true cnt (fun i => val i + c) n = thompson true cnt val n := by
  unfold thompson thInit
  simp only [if_true]
  exact thLoop_shift cnt val c n 0 0 none

/-- with the initialiser as first read (smallest positive double) the selection is NOT shift invariant: two arms with draws
    −3 and −1 → arm 0; shifted by +20 → arm 1 -/
theorem thompson_shift_counterexample :
    thompson false (fun _ => 2) (fun i => if i = 0 then -3 else -1) 2 = 0 ∧
    thompson false (fun _ => 2) (fun i => (if i = 0 then -3 else -1) + 20) 2 = 1 := by
  have hp : (0 : Rat) < (2 ^ 1022)⁻¹ := by positivity
  have hq : ((2 : Rat) ^ 1022)⁻¹ ≤ 1 := by
    rw [inv_le_one_iff₀]; right; exact one_le_pow₀ (by norm_num)
  constructor
  · simp only [thompson, thInit, thLoop, gtOpt, dblMin]; norm_num
    rw [if_neg (by linarith), if_neg (by linarith)]
  · simp only [thompson, thInit, thLoop, gtOpt, dblMin]; norm_num
    intro _; linarith

/-! ### T3C challenger -/

theorem t3cCost_shift (mean : Nat → Rat) (cnt : Nat → Nat) (var c : Rat) (b a : Nat) :
    t3cCost (fun i => mean i + c) cnt var b a = t3cCost mean cnt var b a := by
  unfold t3cCost
  by_cases h : mean b ≤ mean a
  · rw [if_pos h, if_pos (by linarith)]
  · rw [if_neg h, if_neg (by intro h'; exact h (by linarith))]
    have : mean b + c - (mean a + c) = mean b - mean a := by ring
    rw [this]

/-- **t3c_shift_invariant** — T3C's challenger choice depends on the reward estimates only through their differences -/
theorem t3c_shift_invariant (mean : Nat → Rat) (cnt : Nat → Nat) (var beta c : Rat) (n best : Nat) (u0 : Rat) (us : List Rat) :
    t3c (fun i => mean i + c) cnt var beta n best u0 us = t3c mean cnt var beta n best u0 us := by
  unfold t3c
  have : t3cCost (fun i => mean i + c) cnt var best = t3cCost mean cnt var best := by
    funext a; exact t3cCost_shift mean cnt var c best a
  rw [this]

/-! ### SuccessiveRejects -/

theorem srMinArm_shift (mean : Nat → Rat) (c : Rat) : ∀ (l : List Nat) (best : Nat) (bv : Rat),
    srMinArm (fun i => mean i + c) l best (bv + c) = srMinArm mean l best bv := by
  intro l
  induction l with
  | nil => intro best bv; rfl
  | cons a t ih =>
    intro best bv
    rw [srMinArm, srMinArm]
    by_cases h : mean a < bv
    · rw [if_pos h, if_pos (by linarith)]; exact ih a (mean a)
    · rw [if_neg h, if_neg (by intro h'; exact h (by linarith))]; exact ih best bv

/-- **sr_step_shift_invariant** — one `stepUpdateQ` of SuccessiveRejects (round-robin bookkeeping and, at the end of a phase, the
    elimination of the arm with the smallest estimate) is unchanged when a constant is added to every estimate -/
theorem sr_step_shift_invariant (s : SR) (nk : Nat) (mean : Nat → Rat) (c : Rat) :
    s.step nk (fun i => mean i + c) = s.step nk mean := by
  unfold SR.step
  simp only [srMinArm_shift]

/-! ### recommendAction -/

theorem recommend_shift_invariant (mean : Nat → Rat) (n : Nat) (c : Rat) :
    recommend (fun i => mean i + c) n = recommend mean n := by
  unfold recommend
  congr 1
  funext b i
  by_cases h : mean b < mean i
  · rw [if_pos h, if_pos (by linarith)]
  · rw [if_neg h, if_neg (by intro h'; exact h (by linarith))]

/-! ### EpsilonPolicy over QGreedyPolicy -/

/-- **eps_greedy_valid** — `EpsilonPolicy(QGreedyPolicy)` on a clustered row (ties inside the tolerances allowed, any magnitude),
    ε ∈ [0,1]: the mixture of the greedy queries is a distribution, the mixed table equals the mixed queries entry by entry, and every
    action keeps at least `ε/n`. -/
theorem eps_greedy_valid (q : Nat → Rat) (n : Nat) (hn : 0 < n) (hcls : Cls q n) (eps : Rat) (h0 : 0 ≤ eps) (h1 : eps ≤ 1) :
    RowValid n (epsProb eps (gProb q n) n) ∧
    (∀ a, a < n → epsPolicy eps (gPolicy q n) n a = epsProb eps (gProb q n) n a) ∧
    (∀ a, a < n → eps / (n : Rat) ≤ epsProb eps (gProb q n) n a) := by
  obtain ⟨_, _, _, _, hpol, hnn, hsum, _⟩ := greedy_classes q n hn hcls
  have hrow : RowValid n (gProb q n) := ⟨hnn, hsum⟩
  obtain ⟨hv, htab⟩ := epsilon_mixture eps (gProb q n) n hn h0 h1 hrow
  refine ⟨hv, fun a ha => ?_, fun a ha => ?_⟩
  · rw [← htab a]; unfold epsPolicy; rw [hpol a ha]
  · unfold epsProb
    have h2 : 0 ≤ (1 - eps) * gProb q n a := mul_nonneg (by linarith) (hnn a ha)
    have : eps * (1 / (n : Rat)) = eps / (n : Rat) := by ring
    linarith

end AITB.Pol
