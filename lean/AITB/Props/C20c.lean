/-
  AITB.Props.C20c — queries of the Trie model against the specification: sorted merge, the filters,
  content-level applyFilters, filter / refine / getAllIds / size.  Core Lean only.
-/
import AITB.Props.C20b
namespace AITB.Trie

theorem mem_smerge (a : Nat) (xs ys : List Nat) : a ∈ smerge xs ys ↔ a ∈ xs ∨ a ∈ ys := by
  induction xs, ys using smerge.induct with
  | case1 ys => simp [smerge]
  | case2 xs h => simp [smerge]
  | case3 x xs y ys h ih =>
    rw [smerge, if_pos h, List.mem_cons, ih]
    simp only [List.mem_cons]
    constructor
    · rintro (h | h | h)
      · exact Or.inr (Or.inl h)
      · exact Or.inl h
      · exact Or.inr (Or.inr h)
    · rintro (h | h | h)
      · exact Or.inr (Or.inl h)
      · exact Or.inl h
      · exact Or.inr (Or.inr h)
  | case4 x xs y ys h ih =>
    rw [smerge, if_neg h, List.mem_cons, ih]
    simp only [List.mem_cons]
    constructor
    · rintro (h | h | h)
      · exact Or.inl (Or.inl h)
      · exact Or.inl (Or.inr h)
      · exact Or.inr h
    · rintro ((h | h) | h)
      · exact Or.inl h
      · exact Or.inr (Or.inl h)
      · exact Or.inr (Or.inr h)

theorem length_smerge (xs ys : List Nat) : (smerge xs ys).length = xs.length + ys.length := by
  induction xs, ys using smerge.induct with
  | case1 ys => simp [smerge]
  | case2 xs h => simp [smerge]
  | case3 x xs y ys h ih => rw [smerge, if_pos h, List.length_cons, ih]; simp only [List.length_cons]; omega
  | case4 x xs y ys h ih => rw [smerge, if_neg h, List.length_cons, ih]; simp only [List.length_cons]; omega

theorem smerge_sorted (xs ys : List Nat) (hx : xs.Pairwise (· < ·)) (hy : ys.Pairwise (· < ·))
    (hd : ∀ a, a ∈ xs → a ∉ ys) : (smerge xs ys).Pairwise (· < ·) := by
  induction xs, ys using smerge.induct with
  | case1 ys => simpa [smerge] using hy
  | case2 xs h => simpa [smerge] using hx
  | case3 x xs y ys h ih =>
    rw [smerge, if_pos h, List.pairwise_cons]
    rw [List.pairwise_cons] at hy
    refine ⟨?_, ih hx hy.2 (fun a ha hb => hd a ha (List.mem_cons_of_mem _ hb))⟩
    intro a ha
    rw [mem_smerge] at ha
    rcases ha with ha | ha
    · rcases List.mem_cons.mp ha with rfl | ha'
      · exact h
      · have := (List.pairwise_cons.mp hx).1 a ha'; omega
    · exact hy.1 a ha
  | case4 x xs y ys h ih =>
    rw [smerge, if_neg h, List.pairwise_cons]
    rw [List.pairwise_cons] at hx
    refine ⟨?_, ih hx.2 hy (fun a ha hb => hd a (List.mem_cons_of_mem _ ha) hb)⟩
    intro a ha
    rw [mem_smerge] at ha
    have hxy : x ≠ y := fun e => hd x (List.mem_cons_self ..) (e ▸ List.mem_cons_self ..)
    rcases ha with ha | ha
    · exact hx.1 a ha
    · rcases List.mem_cons.mp ha with rfl | ha'
      · omega
      · have := (List.pairwise_cons.mp hy).1 a ha'; omega

/-- two strictly ascending lists with the same members are equal -/
theorem sorted_ext : ∀ (l1 l2 : List Nat), l1.Pairwise (· < ·) → l2.Pairwise (· < ·) → (∀ a, a ∈ l1 ↔ a ∈ l2) → l1 = l2
  | [], [], _, _, _ => rfl
  | [], y :: ys, _, _, h => by have := (h y).mpr (List.mem_cons_self ..); cases this
  | x :: xs, [], _, _, h => by have := (h x).mp (List.mem_cons_self ..); cases this
  | x :: xs, y :: ys, h1, h2, h => by
    rw [List.pairwise_cons] at h1 h2
    have hxy : x = y := by
      have hx := (h x).mp (List.mem_cons_self ..)
      have hy := (h y).mpr (List.mem_cons_self ..)
      rcases List.mem_cons.mp hx with e | hx'
      · exact e
      · rcases List.mem_cons.mp hy with e | hy'
        · exact e.symm
        · have := h1.1 y hy'; have := h2.1 x hx'; omega
    subst hxy
    congr 1
    apply sorted_ext xs ys h1.2 h2.2
    intro a
    constructor
    · intro ha
      rcases List.mem_cons.mp ((h a).mp (List.mem_cons_of_mem _ ha)) with e | h'
      · have := h1.1 a ha; omega
      · exact h'
    · intro ha
      rcases List.mem_cons.mp ((h a).mpr (List.mem_cons_of_mem _ ha)) with e | h'
      · have := h2.1 a ha; omega
      · exact h'


/-- a filter whose two ranges are ascending and disjoint -/
def GoodFilt (f : Filt) : Prop :=
  f.named.Pairwise (· < ·) ∧ f.unnamed.Pairwise (· < ·) ∧ ∀ a, a ∈ f.named → a ∉ f.unnamed

theorem Filt.has_iff (f : Filt) (id : Nat) : f.has id = true ↔ id ∈ f.named ∨ id ∈ f.unnamed := by
  simp [Filt.has]

theorem Filt.mem_merged (f : Filt) (id : Nat) : id ∈ f.merged ↔ f.has id = true := by
  rw [Filt.merged, mem_smerge, Filt.has_iff]

theorem Filt.isValid_iff (f : Filt) : f.isValid = true ↔ ∃ id, f.has id = true := by
  obtain ⟨n, u⟩ := f
  simp only [Filt.has_iff]
  have hv : (Filt.mk n u).isValid = true ↔ 0 < n.length + u.length := by
    simp only [Filt.isValid, Filt.size]; exact decide_eq_true_iff
  rw [hv]
  constructor
  · intro h
    cases n with
    | nil =>
      cases u with
      | nil => simp at h
      | cons b _ => exact ⟨b, Or.inr (List.mem_cons_self ..)⟩
    | cons a _ => exact ⟨a, Or.inl (List.mem_cons_self ..)⟩
  · rintro ⟨id, h | h⟩
    · have := List.length_pos_of_mem h; omega
    · have := List.length_pos_of_mem h; omega

theorem mem_insertBySize (f g : Filt) (fs : List Filt) : g ∈ insertBySize f fs ↔ g = f ∨ g ∈ fs := by
  induction fs with
  | nil => simp [insertBySize]
  | cons x xs ih =>
    simp only [insertBySize]
    split
    · simp
    · simp only [List.mem_cons, ih]
      constructor
      · rintro (h | h | h)
        · exact Or.inr (Or.inl h)
        · exact Or.inl h
        · exact Or.inr (Or.inr h)
      · rintro (h | h | h)
        · exact Or.inr (Or.inl h)
        · exact Or.inl h
        · exact Or.inr (Or.inr h)

theorem insertBySize_ne_nil (f : Filt) (fs : List Filt) : insertBySize f fs ≠ [] := by
  cases fs with
  | nil => simp [insertBySize]
  | cons x xs => simp only [insertBySize]; split <;> simp

/-- the filter built for one queried (key, value) -/
def filtOf (ids : Ids) (kv : Nat × Nat) : Filt := ⟨cell ids kv.1 kv.2, cell ids kv.1 (backIdx ids kv.1)⟩

theorem buildFilters_none (ids : Ids) (q : PF) (acc : List Filt) :
    buildFilters ids q acc = none → ∃ kv ∈ q, (filtOf ids kv).isValid = false := by
  induction q generalizing acc with
  | nil => intro h; cases h
  | cons kv q ih =>
    obtain ⟨k, v⟩ := kv
    simp only [buildFilters]
    split
    · intro h
      obtain ⟨kv', hkv', hh⟩ := ih _ h
      exact ⟨kv', List.mem_cons_of_mem _ hkv', hh⟩
    · rename_i hv
      intro _
      exact ⟨(k, v), List.mem_cons_self .., by simpa [filtOf] using hv⟩

theorem buildFilters_some (ids : Ids) (q : PF) (acc fs : List Filt) :
    buildFilters ids q acc = some fs →
      (∀ f, f ∈ fs ↔ f ∈ acc ∨ ∃ kv ∈ q, f = filtOf ids kv) ∧ (acc ≠ [] ∨ q ≠ [] → fs ≠ []) := by
  induction q generalizing acc with
  | nil =>
    intro h
    simp only [buildFilters, Option.some.injEq] at h
    subst h
    exact ⟨fun f => by simp, fun h => by simpa using h⟩
  | cons kv q ih =>
    obtain ⟨k, v⟩ := kv
    simp only [buildFilters]
    split
    · intro h
      obtain ⟨h1, h2⟩ := ih _ h
      refine ⟨fun f => ?_, fun _ => h2 (Or.inl (insertBySize_ne_nil _ _))⟩
      rw [h1 f, mem_insertBySize]
      simp only [List.mem_cons, filtOf]
      constructor
      · rintro ((h | h) | ⟨kv', hkv', h⟩)
        · exact Or.inr ⟨(k, v), Or.inl rfl, h⟩
        · exact Or.inl h
        · exact Or.inr ⟨kv', Or.inr hkv', h⟩
      · rintro (h | ⟨kv', hkv' | hkv', h⟩)
        · exact Or.inl (Or.inr h)
        · subst hkv'; exact Or.inl (Or.inl h)
        · exact Or.inr ⟨kv', hkv', h⟩
    · intro h; cases h

/-- content-level `applyFilters`: ascending, and exactly the ids present in every filter -/
theorem applyFilters_spec (fs : List Filt) (hne : fs ≠ []) (hg : ∀ f ∈ fs, GoodFilt f) :
    (applyFilters fs).Pairwise (· < ·) ∧ ∀ id, id ∈ applyFilters fs ↔ ∀ f ∈ fs, f.has id = true := by
  cases fs with
  | nil => exact absurd rfl hne
  | cons f0 rest =>
    obtain ⟨g1, g2, g3⟩ := hg f0 (List.mem_cons_self ..)
    refine ⟨(smerge_sorted _ _ g1 g2 g3).filter _, fun id => ?_⟩
    simp only [applyFilters, List.mem_filter, Filt.mem_merged, List.all_eq_true, List.mem_cons, forall_eq_or_imp]


/-- a query names existing factors with values in range (order of keys irrelevant) -/
def ValidQ (F : List Nat) (q : PF) : Prop := ∀ kv ∈ q, kv.1 < F.length ∧ kv.2 < F.getD kv.1 0

/-- entry `e` does not contradict the queried pair -/
def okAt (e : PF) (kv : Nat × Nat) : Prop := lookup e kv.1 = none ∨ lookup e kv.1 = some kv.2

theorem compatB_iff (e q : PF) : compatB e q = true ↔ ∀ kv ∈ q, okAt e kv := by
  simp only [compatB, List.all_eq_true, okAt]
  constructor
  · intro h kv hkv
    have := h kv hkv
    cases hl : lookup e kv.1 with
    | none => exact Or.inl rfl
    | some v => rw [hl] at this; simp at this; exact Or.inr (by rw [this])
  · intro h kv hkv
    rcases h kv hkv with hl | hl <;> rw [hl] <;> simp

theorem backIdx_eq {t : T} {es : Spec} (h : RI t es) {k : Nat} (hk : k < t.F.length) : backIdx t.ids k = t.F.getD k 0 := by
  simp [backIdx, h.shape.2 k hk]

theorem filtOf_has {t : T} {es : Spec} (h : RI t es) {kv : Nat × Nat} (hk : kv.1 < t.F.length) (hv : kv.2 < t.F.getD kv.1 0) (id : Nat) :
    (filtOf t.ids kv).has id = true ↔ ∃ e, (id, e) ∈ es ∧ okAt e kv := by
  rw [Filt.has_iff]
  simp only [filtOf, backIdx_eq h hk]
  rw [h.mem kv.1 kv.2 id hk (by omega), h.mem kv.1 _ id hk (Nat.le_refl _)]
  constructor
  · rintro (⟨e, he, hs⟩ | ⟨e, he, hs⟩)
    · exact ⟨e, he, Or.inr ((slot_eq_named (h.valid id e he) kv.1 kv.2 hv).mp hs)⟩
    · exact ⟨e, he, Or.inl ((slot_eq_unnamed (h.valid id e he) kv.1).mp hs)⟩
  · rintro ⟨e, he, hs | hs⟩
    · exact Or.inr ⟨e, he, (slot_eq_unnamed (h.valid id e he) kv.1).mpr hs⟩
    · exact Or.inl ⟨e, he, (slot_eq_named (h.valid id e he) kv.1 kv.2 hv).mpr hs⟩

theorem filtOf_good {t : T} {es : Spec} (h : RI t es) {kv : Nat × Nat} (hk : kv.1 < t.F.length) (hv : kv.2 < t.F.getD kv.1 0) :
    GoodFilt (filtOf t.ids kv) := by
  refine ⟨h.sorted _ _, h.sorted _ _, ?_⟩
  intro a h1 h2
  simp only [filtOf, backIdx_eq h hk] at h1 h2
  obtain ⟨e, he, hs⟩ := (h.mem kv.1 kv.2 a hk (by omega)).mp h1
  obtain ⟨e', he', hs'⟩ := (h.mem kv.1 _ a hk (Nat.le_refl _)).mp h2
  have := h.unique he he'
  subst this
  omega

theorem mem_specFilter (es : Spec) (q : PF) (id : Nat) :
    id ∈ specFilter es q ↔ ∃ e, (id, e) ∈ es ∧ compatB e q = true := by
  simp only [specFilter, List.mem_map, List.mem_filter]
  constructor
  · rintro ⟨⟨id', e⟩, ⟨hm, hc⟩, rfl⟩; exact ⟨e, hm, hc⟩
  · rintro ⟨e, hm, hc⟩; exact ⟨(id, e), ⟨hm, hc⟩, rfl⟩

theorem specFilter_sorted {t : T} {es : Spec} (h : RI t es) (q : PF) : (specFilter es q).Pairwise (· < ·) :=
  h.asc.sublist ((List.filter_sublist).map _)

/-- an id is compatible key-by-key iff its (unique) entry is compatible with the whole query -/
theorem all_keys_iff {t : T} {es : Spec} (h : RI t es) (q : PF) (hne : q ≠ []) (id : Nat) :
    (∀ kv ∈ q, ∃ e, (id, e) ∈ es ∧ okAt e kv) ↔ ∃ e, (id, e) ∈ es ∧ compatB e q = true := by
  constructor
  · intro hall
    cases q with
    | nil => exact absurd rfl hne
    | cons kv0 q' =>
      obtain ⟨e, he, _⟩ := hall kv0 (List.mem_cons_self ..)
      refine ⟨e, he, (compatB_iff e _).mpr (fun kv hkv => ?_)⟩
      obtain ⟨e', he', hok⟩ := hall kv hkv
      rw [h.unique he he']; exact hok
  · rintro ⟨e, he, hc⟩ kv hkv
    exact ⟨e, he, (compatB_iff e q).mp hc kv hkv⟩

/-- **filter = specification** (non-empty query): the returned list *is* the ascending list of
    ids of stored entries compatible with the query -/
theorem filter_spec {t : T} {es : Spec} (h : RI t es) (fb : Bool) (q : PF) (hq : ValidQ t.F q) (hne : q ≠ []) :
    t.filter fb q = some (specFilter es q) := by
  have hemp : q.isEmpty = false := by cases q with | nil => exact absurd rfl hne | cons _ _ => rfl
  simp only [T.filter, hemp, Bool.false_eq_true, if_false]
  cases hb : buildFilters t.ids q [] with
  | none =>
    obtain ⟨kv, hkv, hinv⟩ := buildFilters_none _ _ _ hb
    simp only
    congr 1
    symm
    simp only [specFilter, List.map_eq_nil_iff, List.filter_eq_nil_iff]
    rintro ⟨id, e⟩ he hc
    have hv : (filtOf t.ids kv).isValid = true := by
      rw [Filt.isValid_iff]
      exact ⟨id, (filtOf_has h (hq kv hkv).1 (hq kv hkv).2 id).mpr ⟨e, he, (compatB_iff e q).mp hc kv hkv⟩⟩
    rw [hinv] at hv; cases hv
  | some fs =>
    obtain ⟨hmem, hnn⟩ := buildFilters_some _ _ _ _ hb
    have hgood : ∀ f ∈ fs, GoodFilt f := by
      intro f hf
      rcases (hmem f).mp hf with hf | ⟨kv, hkv, rfl⟩
      · cases hf
      · exact filtOf_good h (hq kv hkv).1 (hq kv hkv).2
    obtain ⟨hsort, hm⟩ := applyFilters_spec fs (hnn (Or.inr hne)) hgood
    simp only
    congr 1
    apply sorted_ext _ _ hsort (specFilter_sorted h q)
    intro id
    rw [hm id, mem_specFilter, ← all_keys_iff h q hne id]
    constructor
    · intro hall kv hkv
      exact (filtOf_has h (hq kv hkv).1 (hq kv hkv).2 id).mp (hall _ ((hmem _).mpr (Or.inr ⟨kv, hkv, rfl⟩)))
    · intro hall f hf
      rcases (hmem f).mp hf with hf | ⟨kv, hkv, rfl⟩
      · cases hf
      · exact (filtOf_has h (hq kv hkv).1 (hq kv hkv).2 id).mpr (hall kv hkv)


theorem specFilter_nil_of_invalid {t : T} {es : Spec} (h : RI t es) (q : PF) (hq : ValidQ t.F q)
    {kv : Nat × Nat} (hkv : kv ∈ q) (hinv : (filtOf t.ids kv).isValid = false) : specFilter es q = [] := by
  simp only [specFilter, List.map_eq_nil_iff, List.filter_eq_nil_iff]
  rintro ⟨id, e⟩ he hc
  have hv : (filtOf t.ids kv).isValid = true := by
    rw [Filt.isValid_iff]
    exact ⟨id, (filtOf_has h (hq kv hkv).1 (hq kv hkv).2 id).mpr ⟨e, he, (compatB_iff e q).mp hc kv hkv⟩⟩
  rw [hinv] at hv; cases hv

/-- **refine = specification**: for an ascending id list, the ids whose stored entry is compatible
    with the query (the whole list when the query is empty) -/
theorem refine_spec {t : T} {es : Spec} (h : RI t es) (ids : List Nat) (hs : ids.Pairwise (· < ·)) (q : PF)
    (hq : ValidQ t.F q) : t.refine ids q = specRefine es ids q := by
  cases q with
  | nil => simp [T.refine, specRefine]
  | cons kv0 q' =>
    cases ids with
    | nil => simp [T.refine, specRefine]
    | cons i0 ids' =>
      have hne : (kv0 :: q') ≠ [] := by simp
      simp only [T.refine, specRefine, List.isEmpty_cons, Bool.or_self, Bool.false_eq_true, if_false]
      cases hb : buildFilters t.ids (kv0 :: q') [⟨[], i0 :: ids'⟩] with
      | none =>
        obtain ⟨kv, hkv, hinv⟩ := buildFilters_none _ _ _ hb
        rw [specFilter_nil_of_invalid h _ hq hkv hinv]
        simp
      | some fs =>
        obtain ⟨hmem, hnn⟩ := buildFilters_some _ _ _ _ hb
        have hgood : ∀ f ∈ fs, GoodFilt f := by
          intro f hf
          rcases (hmem f).mp hf with hf | ⟨kv, hkv, rfl⟩
          · simp only [List.mem_singleton] at hf
            subst hf
            exact ⟨by simp, hs, by simp⟩
          · exact filtOf_good h (hq kv hkv).1 (hq kv hkv).2
        obtain ⟨hsort, hm⟩ := applyFilters_spec fs (hnn (Or.inr hne)) hgood
        simp only
        apply sorted_ext _ _ hsort (hs.filter _)
        intro id
        rw [hm id, List.mem_filter, List.contains_iff_mem, mem_specFilter, ← all_keys_iff h _ hne id]
        constructor
        · intro hall
          refine ⟨?_, fun kv hkv => ?_⟩
          · have := hall ⟨[], i0 :: ids'⟩ ((hmem _).mpr (Or.inl (List.mem_singleton.mpr rfl)))
            rw [Filt.has_iff] at this
            simpa using this
          · exact (filtOf_has h (hq kv hkv).1 (hq kv hkv).2 id).mp (hall _ ((hmem _).mpr (Or.inr ⟨kv, hkv, rfl⟩)))
        · rintro ⟨hin, hall⟩ f hf
          rcases (hmem f).mp hf with hf | ⟨kv, hkv, rfl⟩
          · simp only [List.mem_singleton] at hf
            subst hf
            rw [Filt.has_iff]; exact Or.inr hin
          · exact (filtOf_has h (hq kv hkv).1 (hq kv hkv).2 id).mpr (hall kv hkv)

/-! getAllIds / size -/

theorem sumCells_eq (r : Row) (is : List Nat) : sumCells r is = (mergeCells r is).map List.length := by
  induction is with
  | nil => rfl
  | cons i is ih =>
    simp only [sumCells, mergeCells]
    cases r[i]? with
    | none => rfl
    | some c =>
      simp only [ih]
      cases mergeCells r is with
      | none => rfl
      | some acc => simp [length_smerge]

theorem mergeCells_spec (r : Row) (is : List Nat) (hin : ∀ s ∈ is, s < r.length) (hnd : is.Nodup)
    (hs : ∀ s, (r.getD s []).Pairwise (· < ·))
    (hd : ∀ s s' a, s ≠ s' → a ∈ r.getD s [] → a ∉ r.getD s' []) :
    ∃ L, mergeCells r is = some L ∧ L.Pairwise (· < ·) ∧ ∀ a, a ∈ L ↔ ∃ s ∈ is, a ∈ r.getD s [] := by
  induction is with
  | nil => exact ⟨[], rfl, by simp, by simp⟩
  | cons i is ih =>
    rw [List.nodup_cons] at hnd
    obtain ⟨L, hL, hsort, hmem⟩ := ih (fun s hs' => hin s (List.mem_cons_of_mem _ hs')) hnd.2
    have hi : i < r.length := hin i (List.mem_cons_self ..)
    have hget : r.getD i [] = r[i] := by simp [List.getD_eq_getElem?_getD, List.getElem?_eq_getElem hi]
    refine ⟨smerge r[i] L, by simp [mergeCells, List.getElem?_eq_getElem hi, hL], ?_, ?_⟩
    · apply smerge_sorted _ _ (hget ▸ hs i) hsort
      intro a ha hb
      obtain ⟨s, hs', has⟩ := (hmem a).mp hb
      have hne : i ≠ s := fun e => hnd.1 (e ▸ hs')
      exact hd i s a hne (hget ▸ ha) has
    · intro a
      rw [mem_smerge, hmem]
      constructor
      · rintro (h | ⟨s, hs', h⟩)
        · exact ⟨i, List.mem_cons_self .., hget ▸ h⟩
        · exact ⟨s, List.mem_cons_of_mem _ hs', h⟩
      · rintro ⟨s, hs', h⟩
        rcases List.mem_cons.mp hs' with rfl | hs''
        · exact Or.inl (hget ▸ h)
        · exact Or.inr ⟨s, hs'', h⟩

theorem minIdxGo_lt (xs : List Nat) (i bv b : Nat) (hb : b < i) : minIdxGo xs i bv b < i + xs.length := by
  induction xs generalizing i bv b with
  | nil => simpa [minIdxGo] using hb
  | cons x xs ih =>
    simp only [minIdxGo, List.length_cons]
    split
    · have := ih (i + 1) x i (by omega); omega
    · have := ih (i + 1) bv b (by omega); omega

theorem minIdx_lt (F : List Nat) (h : F ≠ []) : minIdx F < F.length := by
  cases F with
  | nil => exact absurd rfl h
  | cons x xs => have := minIdxGo_lt xs 1 x 0 (by omega); simp only [minIdx, List.length_cons]; omega

theorem minIdxGo_keep (xs : List Nat) (i bv b : Nat) (h : ∀ x ∈ xs, bv ≤ x) : minIdxGo xs i bv b = b := by
  induction xs generalizing i with
  | nil => rfl
  | cons x xs ih =>
    have := h x (List.mem_cons_self ..)
    simp only [minIdxGo]
    rw [if_neg (by omega)]
    exact ih (i + 1) (fun y hy => h y (List.mem_cons_of_mem _ hy))

/-- when the first factor is a smallest one `min_element` picks it -/
theorem minIdx_zero (x : Nat) (xs : List Nat) (h : ∀ y ∈ xs, x ≤ y) : minIdx (x :: xs) = 0 :=
  minIdxGo_keep xs 1 x 0 h

theorem mem_specIds (es : Spec) (id : Nat) : id ∈ specIds es ↔ ∃ e, (id, e) ∈ es := by
  simp only [specIds, List.mem_map]
  constructor
  · rintro ⟨⟨id', e⟩, hm, rfl⟩; exact ⟨e, hm⟩
  · rintro ⟨e, hm⟩; exact ⟨(id, e), hm, rfl⟩

/-- merging the lists of any one row yields every stored id exactly once, ascending -/
theorem allIds_row {t : T} {es : Spec} (h : RI t es) (m : Nat) (hm : m < t.F.length) :
    mergeCells (row t.ids m) (List.range (row t.ids m).length) = some (specIds es) := by
  have hlen := h.shape.2 m hm
  obtain ⟨L, hL, hsort, hmem⟩ := mergeCells_spec (row t.ids m) (List.range (row t.ids m).length)
    (fun s hs => List.mem_range.mp hs) List.nodup_range (fun s => h.sorted m s)
    (fun s s' a hne h1 h2 => by
      by_cases hs : s ≤ t.F.getD m 0
      · by_cases hs' : s' ≤ t.F.getD m 0
        · obtain ⟨e, he, hse⟩ := (h.mem m s a hm hs).mp h1
          obtain ⟨e', he', hse'⟩ := (h.mem m s' a hm hs').mp h2
          have := h.unique he he'
          subst this
          omega
        · have : (row t.ids m).getD s' [] = [] := by
            rw [List.getD_eq_getElem?_getD, List.getElem?_eq_none (by omega)]; rfl
          rw [this] at h2; cases h2
      · have : (row t.ids m).getD s [] = [] := by
          rw [List.getD_eq_getElem?_getD, List.getElem?_eq_none (by omega)]; rfl
        rw [this] at h1; cases h1)
  rw [hL]
  congr 1
  apply sorted_ext _ _ hsort h.asc
  intro a
  show a ∈ L ↔ a ∈ specIds es
  rw [hmem, mem_specIds]
  constructor
  · rintro ⟨s, hs, ha⟩
    have hs' : s ≤ t.F.getD m 0 := by have := List.mem_range.mp hs; omega
    obtain ⟨e, he, _⟩ := (h.mem m s a hm hs').mp ha
    exact ⟨e, he⟩
  · rintro ⟨e, he⟩
    have hsl := slot_le (h.valid a e he) m
    exact ⟨slot t.F e m, List.mem_range.mpr (by omega), (h.mem m _ a hm hsl).mpr ⟨e, he, rfl⟩⟩

/-- **getAllIds = all stored ids** for the loop bounded by the chosen factor's own list count -/
theorem getAllIds_spec {t : T} {es : Spec} (h : RI t es) (hF : t.F ≠ []) : t.getAllIds false = some (specIds es) := by
  simp only [T.getAllIds, loopBound, Bool.false_eq_true, if_false]
  exact allIds_row h _ (minIdx_lt _ hF)

/-- **size = number of stored entries** (same loop bound) -/
theorem size_spec {t : T} {es : Spec} (h : RI t es) (hF : t.F ≠ []) : t.size false = some es.length := by
  have := getAllIds_spec h hF
  simp only [T.getAllIds] at this
  simp only [T.size, sumCells_eq, this, Option.map_some, specIds, List.length_map]

/-- the code's loop bound `ids_[0].size()` gives the same answers when the first factor is a smallest one -/
theorem getAllIds_code_partial {t : T} {es : Spec} (h : RI t es) (x : Nat) (xs : List Nat) (hF : t.F = x :: xs)
    (hmin : ∀ y ∈ xs, x ≤ y) : t.getAllIds true = some (specIds es) ∧ t.size true = some es.length := by
  have hz : minIdx t.F = 0 := by rw [hF]; exact minIdx_zero x xs hmin
  have hne : t.F ≠ [] := by rw [hF]; simp
  have e1 : t.getAllIds true = t.getAllIds false := by simp [T.getAllIds, loopBound, hz]
  have e2 : t.size true = t.size false := by simp [T.size, loopBound, hz]
  rw [e1, e2]
  exact ⟨getAllIds_spec h hne, size_spec h hne⟩

end AITB.Trie
