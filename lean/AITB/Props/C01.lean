/-
  AITB.Props.C01 — "MDP planners return the optimal value function".
  Theorems about AITB.Model.MDP; all sizes, horizons, rational inputs.
-/
import AITB.Model.MDP
import Mathlib.Algebra.Order.Field.Rat
import Mathlib.Algebra.BigOperators.Group.Finset.Basic
import Mathlib.Algebra.Order.BigOperators.Group.Finset
import Mathlib.Algebra.BigOperators.Ring.Finset
import Mathlib.Algebra.Order.AbsoluteValue.Basic
import Mathlib.Tactic.Ring
import Mathlib.Tactic.Linarith

namespace AITB.MDP

theorem sumTo_eq (n : Nat) (f : Nat → Rat) : sumTo n f = ∑ i ∈ Finset.range n, f i := by
  induction n with
  | zero => simp [sumTo]
  | succ n ih => simp [sumTo, ih, Finset.sum_range_succ]

theorem absR_eq (q : Rat) : absR q = |q| := by
  unfold absR
  split
  · rename_i h; rw [abs_of_neg h]
  · rename_i h; rw [abs_of_nonneg (not_lt.mp h)]

theorem maxTo_ge (n : Nat) (f : Nat → Rat) : ∀ i, i ≤ n → f i ≤ maxTo n f := by
  induction n with
  | zero => intro i hi; have : i = 0 := by omega
            subst this; simp [maxTo]
  | succ n ih =>
    intro i hi
    unfold maxTo
    split
    · rename_i h
      rcases Nat.lt_or_ge i (n+1) with h1 | h1
      · exact le_of_lt (lt_of_le_of_lt (ih i (by omega)) h)
      · have : i = n+1 := by omega
        subst this; exact le_refl _
    · rename_i h
      rcases Nat.lt_or_ge i (n+1) with h1 | h1
      · exact ih i (by omega)
      · have : i = n+1 := by omega
        subst this; exact not_lt.mp h

theorem maxTo_attained (n : Nat) (f : Nat → Rat) : ∃ i, i ≤ n ∧ maxTo n f = f i := by
  induction n with
  | zero => exact ⟨0, le_refl _, rfl⟩
  | succ n ih =>
    unfold maxTo
    split
    · exact ⟨n+1, le_refl _, rfl⟩
    · obtain ⟨i, hi, h⟩ := ih
      exact ⟨i, by omega, h⟩

/-- |max f - max g| ≤ d if pointwise |f - g| ≤ d -/
theorem maxTo_lipschitz (n : Nat) (f g : Nat → Rat) (d : Rat)
    (h : ∀ i, i ≤ n → |f i - g i| ≤ d) : |maxTo n f - maxTo n g| ≤ d := by
  rw [abs_le]
  obtain ⟨i, hi, hfi⟩ := maxTo_attained n f
  obtain ⟨j, hj, hgj⟩ := maxTo_attained n g
  constructor
  · have := maxTo_ge n f j hj
    have h2 := (abs_le.mp (h j hj)).1
    linarith
  · have := maxTo_ge n g i hi
    have h2 := (abs_le.mp (h i hi)).2
    linarith

/-- transition rows are probability vectors -/
structure ValidT (m : MDP) : Prop where
  nonneg : ∀ s a s1, 0 ≤ m.T s a s1
  sum_one : ∀ s a, sumTo m.S (fun s1 => m.T s a s1) = 1

theorem qBackup_lipschitz (m : MDP) (v w : Nat → Rat) (d : Rat) (hγ0 : 0 ≤ m.γ) (hT : ValidT m)
    (hd : ∀ s, s < m.S → |v s - w s| ≤ d) (s a : Nat) :
    |qBackup m v s a - qBackup m w s a| ≤ m.γ * d := by
  unfold qBackup
  rw [sumTo_eq, sumTo_eq]
  have hT1' := hT.sum_one s a
  rw [sumTo_eq] at hT1'
  have : m.R s a + ∑ i ∈ Finset.range m.S, m.T s a i * (v i * m.γ) -
      (m.R s a + ∑ i ∈ Finset.range m.S, m.T s a i * (w i * m.γ))
      = ∑ i ∈ Finset.range m.S, m.T s a i * (m.γ * (v i - w i)) := by
    rw [add_sub_add_left_eq_sub, ← Finset.sum_sub_distrib]
    apply Finset.sum_congr rfl
    intro i _; ring
  rw [this]
  calc |∑ i ∈ Finset.range m.S, m.T s a i * (m.γ * (v i - w i))|
      ≤ ∑ i ∈ Finset.range m.S, |m.T s a i * (m.γ * (v i - w i))| := Finset.abs_sum_le_sum_abs _ _
    _ ≤ ∑ i ∈ Finset.range m.S, m.T s a i * (m.γ * d) := by
        apply Finset.sum_le_sum
        intro i hi
        rw [abs_mul, abs_mul, abs_of_nonneg (hT.nonneg s a i), abs_of_nonneg hγ0]
        apply mul_le_mul_of_nonneg_left _ (hT.nonneg s a i)
        apply mul_le_mul_of_nonneg_left _ hγ0
        exact hd i (Finset.mem_range.mp hi)
    _ = m.γ * d := by rw [← Finset.sum_mul, hT1', one_mul]

/-- **Contraction.** ‖B v − B w‖∞ ≤ γ ‖v − w‖∞ for every MDP with valid transition rows and γ ≥ 0. -/
theorem bellman_contraction (m : MDP) (v w : Nat → Rat) (d : Rat) (hγ0 : 0 ≤ m.γ) (hT : ValidT m)
    (hd : ∀ s, s < m.S → |v s - w s| ≤ d) :
    ∀ s, |bellman m v s - bellman m w s| ≤ m.γ * d := by
  intro s
  apply maxTo_lipschitz
  intro a _
  exact qBackup_lipschitz m v w d hγ0 hT hd s a

end AITB.MDP
