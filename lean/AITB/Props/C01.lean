/-
  AITB.Props.C01 — "MDP planners return the optimal value function".
  Theorems about AITB.Model.MDP; all sizes, horizons, rational inputs.
-/
import AITB.Model.MDP
import AITB.Gen.C01Sites
import Mathlib.Algebra.Order.Field.Rat
import Mathlib.Algebra.BigOperators.Group.Finset.Basic
import Mathlib.Algebra.Order.BigOperators.Group.Finset
import Mathlib.Algebra.BigOperators.Ring.Finset
import Mathlib.Algebra.Order.AbsoluteValue.Basic
import Mathlib.Tactic.Ring
import Mathlib.Tactic.Linarith
import Mathlib.Tactic.FieldSimp

namespace AITB.MDP

theorem sumTo_eq (n : Nat) (f : Nat → Rat) : sumTo n f = ∑ i ∈ Finset.range n, f i := by
  induction n with
  | zero => simp [sumTo]
  | succ n ih => simp [sumTo, ih, Finset.sum_range_succ]

theorem absR_eq (q : Rat) : absR q = |q| := by
  unfold absR
  split
  · rename_i h; rw [abs_of_neg h]
  · rename_i h; rw [abs_of_nonneg (not_lt.mp h)]

theorem maxTo_ge (n : Nat) (f : Nat → Rat) : ∀ i, i ≤ n → f i ≤ maxTo n f := by
  induction n with
  | zero => intro i hi; have : i = 0 := by omega
            subst this; simp [maxTo]
  | succ n ih =>
    intro i hi
    unfold maxTo
    split
    · rename_i h
      rcases Nat.lt_or_ge i (n+1) with h1 | h1
      · exact le_of_lt (lt_of_le_of_lt (ih i (by omega)) h)
      · have : i = n+1 := by omega
        subst this; exact le_refl _
    · rename_i h
      rcases Nat.lt_or_ge i (n+1) with h1 | h1
      · exact ih i (by omega)
      · have : i = n+1 := by omega
        subst this; exact not_lt.mp h

theorem maxTo_attained (n : Nat) (f : Nat → Rat) : ∃ i, i ≤ n ∧ maxTo n f = f i := by
  induction n with
  | zero => exact ⟨0, le_refl _, rfl⟩
  | succ n ih =>
    unfold maxTo
    split
    · exact ⟨n+1, le_refl _, rfl⟩
    · obtain ⟨i, hi, h⟩ := ih
      exact ⟨i, by omega, h⟩

/-- |max f - max g| ≤ d if pointwise |f - g| ≤ d -/
theorem maxTo_lipschitz (n : Nat) (f g : Nat → Rat) (d : Rat)
    (h : ∀ i, i ≤ n → |f i - g i| ≤ d) : |maxTo n f - maxTo n g| ≤ d := by
  rw [abs_le]
  obtain ⟨i, hi, hfi⟩ := maxTo_attained n f
  obtain ⟨j, hj, hgj⟩ := maxTo_attained n g
  constructor
  · have := maxTo_ge n f j hj
    have h2 := (abs_le.mp (h j hj)).1
    linarith
  · have := maxTo_ge n g i hi
    have h2 := (abs_le.mp (h i hi)).2
    linarith

/-- transition rows are probability vectors -/
structure ValidT (m : MDP) : Prop where
  nonneg : ∀ s a s1, 0 ≤ m.T s a s1
  sum_one : ∀ s a, sumTo m.S (fun s1 => m.T s a s1) = 1

theorem qBackup_lipschitz (m : MDP) (v w : Nat → Rat) (d : Rat) (hγ0 : 0 ≤ m.γ) (hT : ValidT m)
    (hd : ∀ s, s < m.S → |v s - w s| ≤ d) (s a : Nat) :
    |qBackup m v s a - qBackup m w s a| ≤ m.γ * d := by
  unfold qBackup
  rw [sumTo_eq, sumTo_eq]
  have hT1' := hT.sum_one s a
  rw [sumTo_eq] at hT1'
  have : m.R s a + ∑ i ∈ Finset.range m.S, m.T s a i * (v i * m.γ) -
      (m.R s a + ∑ i ∈ Finset.range m.S, m.T s a i * (w i * m.γ))
      = ∑ i ∈ Finset.range m.S, m.T s a i * (m.γ * (v i - w i)) := by
    rw [add_sub_add_left_eq_sub, ← Finset.sum_sub_distrib]
    apply Finset.sum_congr rfl
    intro i _; ring
  rw [this]
  calc |∑ i ∈ Finset.range m.S, m.T s a i * (m.γ * (v i - w i))|
      ≤ ∑ i ∈ Finset.range m.S, |m.T s a i * (m.γ * (v i - w i))| := Finset.abs_sum_le_sum_abs _ _
    _ ≤ ∑ i ∈ Finset.range m.S, m.T s a i * (m.γ * d) := by
        apply Finset.sum_le_sum
        intro i hi
        rw [abs_mul, abs_mul, abs_of_nonneg (hT.nonneg s a i), abs_of_nonneg hγ0]
        apply mul_le_mul_of_nonneg_left _ (hT.nonneg s a i)
        apply mul_le_mul_of_nonneg_left _ hγ0
        exact hd i (Finset.mem_range.mp hi)
    _ = m.γ * d := by rw [← Finset.sum_mul, hT1', one_mul]

/-- **Contraction.** ‖B v − B w‖∞ ≤ γ ‖v − w‖∞ for every MDP with valid transition rows and γ ≥ 0. -/
theorem bellman_contraction (m : MDP) (v w : Nat → Rat) (d : Rat) (hγ0 : 0 ≤ m.γ) (hT : ValidT m)
    (hd : ∀ s, s < m.S → |v s - w s| ≤ d) :
    ∀ s, |bellman m v s - bellman m w s| ≤ m.γ * d := by
  intro s
  apply maxTo_lipschitz
  intro a _
  exact qBackup_lipschitz m v w d hγ0 hT hd s a

/-! ## data vectors: `mkVec`/`mkMat` are tabulations -/

theorem mkVec_size (n : Nat) (f : Nat → Rat) : (mkVec n f).size = n := by simp [mkVec]
theorem mkNats_size (n : Nat) (f : Nat → Nat) : (mkNats n f).size = n := by simp [mkNats]
theorem mkVec_get {n : Nat} (f : Nat → Rat) {i : Nat} (h : i < n) : (mkVec n f).get i = f i := by
  simp [mkVec, Vec.get, Array.getD, h]
theorem mkMat_get {n k : Nat} (f : Nat → Nat → Rat) {i j : Nat} (hi : i < n) (hj : j < k) :
    (mkMat n k f).get i j = f i j := by
  simp [mkMat, Mat.get, Array.getD, hi, hj]
theorem mkNats_get {n : Nat} (f : Nat → Nat) {i : Nat} (h : i < n) : natAt (mkNats n f) i = f i := by
  simp [mkNats, natAt, Array.getD, h]

theorem sumTo_congr {n : Nat} {f g : Nat → Rat} (h : ∀ i, i < n → f i = g i) : sumTo n f = sumTo n g := by
  induction n with
  | zero => rfl
  | succ n ih =>
    simp only [sumTo]
    rw [ih (fun i hi => h i (by omega)), h n (by omega)]

theorem maxTo_congr {n : Nat} {f g : Nat → Rat} (h : ∀ i, i ≤ n → f i = g i) : maxTo n f = maxTo n g := by
  induction n with
  | zero => simp [maxTo, h 0 (le_refl _)]
  | succ n ih =>
    simp only [maxTo]
    rw [ih (fun i hi => h i (by omega)), h (n+1) (le_refl _)]

theorem argmaxTo_congr {n : Nat} {f g : Nat → Rat} (h : ∀ i, i ≤ n → f i = g i) : argmaxTo n f = argmaxTo n g := by
  induction n with
  | zero => rfl
  | succ n ih =>
    have ih' := ih (fun i hi => h i (by omega))
    have hle : argmaxTo n g ≤ n := by
      clear ih ih' h
      induction n with
      | zero => simp [argmaxTo]
      | succ k ihk => simp only [argmaxTo]; split <;> omega
    simp only [argmaxTo]
    rw [ih', h (n+1) (le_refl _), h (argmaxTo n g) (by omega)]

theorem argmaxTo_le (n : Nat) (f : Nat → Rat) : argmaxTo n f ≤ n := by
  induction n with
  | zero => simp [argmaxTo]
  | succ k ihk => simp only [argmaxTo]; split <;> omega

/-- the index returned is where the maximum sits -/
theorem maxTo_eq_argmax (n : Nat) (f : Nat → Rat) : maxTo n f = f (argmaxTo n f) := by
  induction n with
  | zero => rfl
  | succ n ih =>
    simp only [maxTo, argmaxTo]
    rw [ih]
    split <;> rfl

/-- **first maximum**: every earlier entry is strictly smaller (Eigen `maxCoeff(&idx)` tie-break) -/
theorem argmaxTo_first (n : Nat) (f : Nat → Rat) : ∀ i, i < argmaxTo n f → f i < f (argmaxTo n f) := by
  induction n with
  | zero => intro i hi; simp [argmaxTo] at hi
  | succ n ih =>
    intro i hi
    simp only [argmaxTo] at hi ⊢
    split
    · rename_i h
      rw [if_pos h] at hi
      have h1 : f i ≤ maxTo n f := maxTo_ge n f i (by omega)
      rw [maxTo_eq_argmax] at h1
      exact lt_of_le_of_lt h1 h
    · rename_i h
      rw [if_neg h] at hi
      exact ih i hi

theorem accTo_eq (n : Nat) (init : Rat) (f : Nat → Rat) : accTo n init f = init + sumTo n f := by
  induction n with
  | zero => simp [accTo, sumTo]
  | succ n ih => simp only [accTo, sumTo, ih]; ring

/-! ## `generic_eq_eigen`: the probability-query path computes the same Q as the Eigen path -/

/-- the model's 2-argument reward is the expectation of its 3-argument reward (what `Model::setRewardFunction` establishes) -/
def Consistent (m : MDP) : Prop :=
  ∀ s a, s < m.S → a < m.A → m.R s a = sumTo m.S (fun s1 => m.T s a s1 * m.R3 s a s1)

/-- the representation-specific hypothesis: nothing for Eigen models, `Consistent` for generic ones -/
def RepOK (m : MDP) : Rep → Prop
  | .eigen => True
  | .generic => Consistent m

theorem immRewards_get (m : MDP) (rep : Rep) (h : RepOK m rep) {s a : Nat} (hs : s < m.S) (ha : a < m.A) :
    (immRewards m rep).get s a = m.R s a := by
  unfold immRewards
  rw [mkMat_get _ hs ha]
  cases rep with
  | eigen => rfl
  | generic =>
    simp only [immRewardFn, accTo_eq, zero_add]
    exact (h s a hs ha).symm

/-- `computeQFunction` in either form is `ir + T·v` -/
theorem computeQFn_eq (m : MDP) (rep : Rep) (v : Nat → Rat) (ir : Nat → Nat → Rat) (s a : Nat) :
    computeQFn m rep v ir s a = ir s a + sumTo m.S (fun s1 => m.T s a s1 * v s1) := by
  cases rep with
  | eigen => rfl
  | generic => simp only [computeQFn, accTo_eq]

/-- **generic_eq_eigen.** For a consistent model the generic triple loops (`computeImmediateRewards` + `computeQFunction`)
    and the Eigen form produce the same Q-function, for every value vector. -/
theorem generic_eq_eigen (m : MDP) (hc : Consistent m) (v : Vec) {s a : Nat} (hs : s < m.S) (ha : a < m.A) :
    (computeQ m .generic v (immRewards m .generic)).get s a = (computeQ m .eigen v (immRewards m .eigen)).get s a := by
  unfold computeQ
  rw [mkMat_get _ hs ha, mkMat_get _ hs ha, computeQFn_eq, computeQFn_eq,
      immRewards_get m .generic hc hs ha, immRewards_get m .eigen trivial hs ha]

/-- the Q-function the loops build from a value vector `val0` (discounted first) is the one-step backup -/
theorem computeQ_discounted (m : MDP) (rep : Rep) (h : RepOK m rep) (val0 : Vec) (hsz : val0.size = m.S)
    {s a : Nat} (hs : s < m.S) (ha : a < m.A) :
    (computeQ m rep (mkVec val0.size (fun s => val0.get s * m.γ)) (immRewards m rep)).get s a = qBackup m val0.get s a := by
  unfold computeQ
  rw [mkMat_get _ hs ha, computeQFn_eq, immRewards_get m rep h hs ha]
  unfold qBackup
  congr 1
  apply sumTo_congr
  intro i hi
  rw [mkVec_get _ (by omega)]

/-! ## the specification values as data: `optIter`, `evalIter` (what the driver evaluates) -/

theorem qBackup_congr (m : MDP) {v w : Nat → Rat} (h : ∀ s, s < m.S → v s = w s) (s a : Nat) :
    qBackup m v s a = qBackup m w s a := by
  unfold qBackup
  congr 1
  apply sumTo_congr
  intro i hi
  rw [h i hi]

theorem bellman_congr (m : MDP) {v w : Nat → Rat} (h : ∀ s, s < m.S → v s = w s) (s : Nat) :
    bellman m v s = bellman m w s := by
  unfold bellman
  apply maxTo_congr
  intro a _
  exact qBackup_congr m h s a

theorem bellmanPi_congr (m : MDP) (p : Nat → Nat → Rat) {v w : Nat → Rat} (h : ∀ s, s < m.S → v s = w s) (s : Nat) :
    bellmanPi m p v s = bellmanPi m p w s := by
  unfold bellmanPi
  apply sumTo_congr
  intro a _
  rw [qBackup_congr m h s a]

theorem optIter_eq (m : MDP) (h : Nat) : ∀ s, s < m.S → (optIter m h).get s = optH m h s := by
  induction h with
  | zero => intro s hs; simp [optIter, optH, optFrom, mkVec_get _ hs]
  | succ h ih =>
    intro s hs
    simp only [optIter, bellmanVec, optH, optFrom]
    rw [mkVec_get _ hs]
    exact bellman_congr m ih s

theorem evalIter_eq (m : MDP) (p : Mat) (h : Nat) : ∀ s, s < m.S → (evalIter m p h).get s = evalPolicy m p.get h s := by
  induction h with
  | zero => intro s hs; simp [evalIter, evalPolicy, evalFrom, mkVec_get _ hs]
  | succ h ih =>
    intro s hs
    simp only [evalIter, evalPolicy, evalFrom]
    rw [mkVec_get _ hs]
    exact bellmanPi_congr m p.get ih s

/-! ## one pass of the ValueIteration loop is one Bellman backup -/

/-- shape invariant of the loop state: `values` and `actions` both have S entries -/
structure VIShape (m : MDP) (st : VIState) : Prop where
  vsize : st.vf.values.size = m.S
  asize : st.vf.actions.size = m.S

theorem viStep_spec (m : MDP) (rep : Rep) (hrep : RepOK m rep) (hA : 0 < m.A) (useTol : Bool) (st : VIState)
    (hsh : VIShape m st) :
    VIShape m (viStep m rep (immRewards m rep) useTol st) ∧
    (∀ s, s < m.S → (viStep m rep (immRewards m rep) useTol st).vf.values.get s = bellman m st.vf.values.get s) ∧
    (∀ s a, s < m.S → a < m.A → (viStep m rep (immRewards m rep) useTol st).q.get s a = qBackup m st.vf.values.get s a) ∧
    (∀ s, s < m.S → natAt (viStep m rep (immRewards m rep) useTol st).vf.actions s
        = argmaxTo (m.A - 1) (qBackup m st.vf.values.get s)) ∧
    (viStep m rep (immRewards m rep) useTol st).timestep = st.timestep + 1 ∧
    (viStep m rep (immRewards m rep) useTol st).variation =
      (if useTol then maxAbsDiff m.S (viStep m rep (immRewards m rep) useTol st).vf.values.get st.vf.values.get else st.variation) := by
  obtain ⟨hv, ha⟩ := hsh
  have hq : ∀ s a, s < m.S → a < m.A →
      (computeQ m rep (mkVec st.vf.values.size (fun s => st.vf.values.get s * m.γ)) (immRewards m rep)).get s a
        = qBackup m st.vf.values.get s a := fun s a hs haa => computeQ_discounted m rep hrep st.vf.values hv hs haa
  refine ⟨⟨?_, ?_⟩, ?_, ?_, ?_, rfl, rfl⟩
  · simp [viStep, bellmanInplace, mkVec_size, hv]
  · simp [viStep, bellmanInplace, mkNats_size, ha]
  · intro s hs
    simp only [viStep, bellmanInplace, mkVec_size]
    rw [mkVec_get _ (by omega), if_pos (by omega)]
    unfold bellman
    apply maxTo_congr
    intro a haa
    exact hq s a hs (by omega)
  · intro s a hs haa
    exact hq s a hs haa
  · intro s hs
    simp only [viStep, bellmanInplace]
    rw [mkNats_get _ (by omega)]
    apply argmaxTo_congr
    intro a haa
    exact hq s a hs (by omega)

/-- with the stopping rule disabled the loop is `fuel` backups -/
theorem viLoop_noTol (m : MDP) (rep : Rep) (hrep : RepOK m rep) (hA : 0 < m.A) (tol : Rat) :
    ∀ (fuel : Nat) (st : VIState), VIShape m st →
      VIShape m (viLoop m rep (immRewards m rep) false tol fuel st) ∧
      (viLoop m rep (immRewards m rep) false tol fuel st).timestep = st.timestep + fuel ∧
      (viLoop m rep (immRewards m rep) false tol fuel st).variation = st.variation ∧
      ∀ s, s < m.S → (viLoop m rep (immRewards m rep) false tol fuel st).vf.values.get s
          = optFrom m st.vf.values.get fuel s := by
  intro fuel
  induction fuel with
  | zero => intro st hsh; exact ⟨hsh, rfl, rfl, fun s _ => rfl⟩
  | succ fuel ih =>
    intro st hsh
    obtain ⟨hsh', hval, _, _, hts, hvar⟩ := viStep_spec m rep hrep hA false st hsh
    obtain ⟨i1, i2, i3, i4⟩ := ih _ hsh'
    simp only [viLoop, Bool.false_and, Bool.false_eq_true, if_false]
    refine ⟨i1, by rw [i2, hts]; omega, by rw [i3, hvar]; simp, ?_⟩
    intro s hs
    rw [i4 s hs]
    -- optFrom from the stepped values for `fuel` steps = optFrom from the old values for `fuel+1` steps
    have key : ∀ k s, s < m.S →
        optFrom m (viStep m rep (immRewards m rep) false st).vf.values.get k s = optFrom m st.vf.values.get (k+1) s := by
      intro k
      induction k with
      | zero => intro s hs; simp only [optFrom]; exact hval s hs
      | succ k ihk =>
        intro s hs
        simp only [optFrom] at ihk ⊢
        exact bellman_congr m ihk s
    exact key fuel s hs

/-- last pass of a loop that ran at least once: q and actions belong to the backup of the previous iterate -/
theorem viLoop_noTol_last (m : MDP) (rep : Rep) (hrep : RepOK m rep) (hA : 0 < m.A) (tol : Rat) :
    ∀ (fuel : Nat) (st : VIState), VIShape m st →
      (∀ s a, s < m.S → a < m.A →
        (viLoop m rep (immRewards m rep) false tol (fuel+1) st).q.get s a = qBackup m (optFrom m st.vf.values.get fuel) s a) ∧
      (∀ s, s < m.S → natAt (viLoop m rep (immRewards m rep) false tol (fuel+1) st).vf.actions s
          = argmaxTo (m.A - 1) (qBackup m (optFrom m st.vf.values.get fuel) s)) := by
  intro fuel
  induction fuel with
  | zero =>
    intro st hsh
    obtain ⟨_, _, hq, hact, _, _⟩ := viStep_spec m rep hrep hA false st hsh
    simp only [viLoop, Bool.false_and, Bool.false_eq_true, if_false, optFrom]
    exact ⟨hq, hact⟩
  | succ fuel ih =>
    intro st hsh
    obtain ⟨hsh', hval, _, _, _, _⟩ := viStep_spec m rep hrep hA false st hsh
    obtain ⟨j1, j2⟩ := ih _ hsh'
    have key : ∀ k s, s < m.S →
        optFrom m (viStep m rep (immRewards m rep) false st).vf.values.get k s = optFrom m st.vf.values.get (k+1) s := by
      intro k
      induction k with
      | zero => intro s hs; simp only [optFrom]; exact hval s hs
      | succ k ihk =>
        intro s hs
        simp only [optFrom] at ihk ⊢
        exact bellman_congr m ihk s
    have e : viLoop m rep (immRewards m rep) false tol (fuel+1+1) st
        = viLoop m rep (immRewards m rep) false tol (fuel+1) (viStep m rep (immRewards m rep) false st) := by
      conv => lhs; unfold viLoop
      simp
    rw [e]
    constructor
    · intro s a hs ha
      rw [j1 s a hs ha]
      exact qBackup_congr m (key fuel) s a
    · intro s hs
      rw [j2 s hs]
      apply argmaxTo_congr
      intro a _
      exact qBackup_congr m (key fuel) s a

theorem makeVF_shape (m : MDP) (q : Mat) (var : Rat) (t : Nat) : VIShape m ⟨makeVF m.S, q, var, t⟩ :=
  ⟨by simp [makeVF, mkVec_size], by simp [makeVF, mkNats_size]⟩

theorem makeVF_get (S s : Nat) : (makeVF S).values.get s = 0 := by
  rcases Nat.lt_or_ge s S with h | h
  · simp [makeVF, mkVec_get _ h]
  · simp [makeVF, mkVec, Vec.get, Array.getD, Nat.not_lt.mpr h]

/-- **vi_tol0_eq_optH.**  With a tolerance the library treats as zero (|tol| ≤ equalToleranceSmall) and the default start,
    `ValueIteration(h, tol)(model)` — through the Eigen or the generic path — returns exactly the h-step dynamic-programming
    values, reports variation 0, and (for h ≥ 1) its Q-function is the backup of the (h−1)-step values with first-maximum
    greedy actions. All S, A ≥ 1, h. -/
theorem vi_tol0_eq_optH (m : MDP) (rep : Rep) (hrep : RepOK m rep) (hA : 0 < m.A) (h : Nat) (tol : Rat)
    (htol : useTolerance tol = false) :
    let out := valueIteration m rep h tol none
    out.variation = 0 ∧ out.timestep = h ∧
    (∀ s, s < m.S → out.vf.values.get s = optH m h s) ∧
    (∀ k, h = k + 1 →
      (∀ s a, s < m.S → a < m.A → out.q.get s a = qBackup m (optH m k) s a) ∧
      (∀ s, s < m.S → natAt out.vf.actions s = argmaxTo (m.A - 1) (qBackup m (optH m k) s))) := by
  intro out
  have hsh := makeVF_shape m (makeQ m.S m.A) (tol * 2) 0
  obtain ⟨_, hts, _, hval⟩ := viLoop_noTol m rep hrep hA tol h _ hsh
  have hz : ∀ k s, s < m.S → optFrom m (makeVF m.S).values.get k s = optH m k s := by
    intro k
    induction k with
    | zero => intro s _; simp [optFrom, optH, makeVF_get]
    | succ k ih => intro s _; simp only [optFrom, optH] at ih ⊢; exact bellman_congr m ih s
  refine ⟨?_, ?_, ?_, ?_⟩
  · simp [out, valueIteration, htol]
  · simp only [out, valueIteration, htol]; rw [hts]; simp
  · intro s hs
    simp only [out, valueIteration, htol]
    rw [hval s hs]
    exact hz h s hs
  · intro k hk
    subst hk
    obtain ⟨j1, j2⟩ := viLoop_noTol_last m rep hrep hA tol k _ hsh
    constructor
    · intro s a hs ha
      simp only [out, valueIteration, htol]
      rw [j1 s a hs ha]
      exact qBackup_congr m (hz k) s a
    · intro s hs
      simp only [out, valueIteration, htol]
      rw [j2 s hs]
      apply argmaxTo_congr
      intro a _
      exact qBackup_congr m (hz k) s a

theorem acceptWarm_values (S : Nat) (w : VF) (hv : w.values.size = S) : (acceptWarm S w).values = w.values := by
  unfold acceptWarm
  simp only [hv, bne_self_eq_false, Bool.false_eq_true, if_false]
  split <;> rfl

theorem acceptWarm_actions_size (S : Nat) (w : VF) (hv : w.values.size = S)
    (ha : AITB.Gen.C01.viResizesActions = true ∨ w.actions.size = S) : (acceptWarm S w).actions.size = S := by
  unfold acceptWarm
  simp only [hv, bne_self_eq_false, Bool.false_eq_true, if_false]
  split
  · simp [mkNats_size]
  · rename_i hr
    rcases ha with h | h
    · exact absurd h hr
    · exact h

/-- **vi_tol0_warm.**  Warm start: a supplied value function whose `values` has S entries is iterated from — h backups of it —
    provided operator() sizes its `actions` vector to S (`Gen.C01.viResizesActions`, true once fixes/C01-2 is in the source:
    then this is the full-strength statement for every `actions` vector) or the caller supplied S actions (the `_partial`
    form that holds for the unfixed source). -/
theorem vi_tol0_warm (m : MDP) (rep : Rep) (hrep : RepOK m rep) (hA : 0 < m.A) (h : Nat) (tol : Rat)
    (htol : useTolerance tol = false) (w : VF) (hv : w.values.size = m.S)
    (ha : AITB.Gen.C01.viResizesActions = true ∨ w.actions.size = m.S) :
    ∀ s, s < m.S → (valueIteration m rep h tol (some w)).vf.values.get s = optFrom m w.values.get h s := by
  intro s hs
  have hsh : VIShape m ⟨acceptWarm m.S w, makeQ m.S m.A, tol * 2, 0⟩ :=
    ⟨by simp only [acceptWarm_values m.S w hv]; exact hv, acceptWarm_actions_size m.S w hv ha⟩
  obtain ⟨_, _, _, hval⟩ := viLoop_noTol m rep hrep hA tol h _ hsh
  simp only [valueIteration, htol]
  rw [hval s hs]
  simp only [acceptWarm_values m.S w hv]

/-- **counterexample on the unfixed source** (vacuous once `viResizesActions` is true): a documented start
    `ValueFunction{values}` with an empty `actions` vector is *not* iterated — one pass only multiplies it by γ. -/
theorem vi_warm_empty_actions_counterexample (m : MDP) (rep : Rep) (tol : Rat) (htol : useTolerance tol = false)
    (hfix : AITB.Gen.C01.viResizesActions = false) (w : VF) (hv : w.values.size = m.S) (ha : w.actions.size = 0) :
    ∀ s, s < m.S → (valueIteration m rep 1 tol (some w)).vf.values.get s = w.values.get s * m.γ := by
  intro s hs
  have e : acceptWarm m.S w = w := by
    unfold acceptWarm
    simp only [hv, bne_self_eq_false, Bool.false_eq_true, if_false, hfix]
  simp only [valueIteration, htol, e, viLoop, Bool.false_and, Bool.false_eq_true, if_false]
  simp only [viStep, bellmanInplace, mkVec_size, ha]
  rw [mkVec_get _ (by omega), if_neg (by omega), mkVec_get _ (by omega)]

theorem optIterFrom_eq (m : MDP) (v0 : Vec) (h : Nat) : ∀ s, s < m.S → (optIterFrom m v0 h).get s = optFrom m v0.get h s := by
  induction h with
  | zero => intro s _; rfl
  | succ h ih =>
    intro s hs
    simp only [optIterFrom, bellmanVec, optFrom]
    rw [mkVec_get _ hs]
    exact bellman_congr m ih s

theorem evalIterFrom_eq (m : MDP) (p : Mat) (v0 : Vec) (h : Nat) :
    ∀ s, s < m.S → (evalIterFrom m p v0 h).get s = evalFrom m p.get v0.get h s := by
  induction h with
  | zero => intro s _; rfl
  | succ h ih =>
    intro s hs
    simp only [evalIterFrom, evalFrom]
    rw [mkVec_get _ hs]
    exact bellmanPi_congr m p.get ih s

/-! ## `optH_is_optimal`: the DP values dominate every history-dependent plan and are attained by the greedy plan -/

theorem sumTo_le {n : Nat} {f g : Nat → Rat} (h : ∀ i, i < n → f i ≤ g i) : sumTo n f ≤ sumTo n g := by
  induction n with
  | zero => simp [sumTo]
  | succ n ih =>
    simp only [sumTo]
    have h1 := ih (fun i hi => h i (by omega))
    have h2 := h n (by omega)
    linarith

theorem qBackup_le_bellman (m : MDP) (hA : 0 < m.A) (v : Nat → Rat) (s a : Nat) (ha : a < m.A) :
    qBackup m v s a ≤ bellman m v s :=
  maxTo_ge (m.A - 1) (qBackup m v s) a (by omega)

/-- **optH_is_optimal (upper bound).** No h-step plan, however it depends on the history of states, earns more than `optH h`. -/
theorem evalPlan_le_optH (m : MDP) (hγ : 0 ≤ m.γ) (hT : ∀ s a s1, 0 ≤ m.T s a s1) (hA : 0 < m.A) :
    ∀ (h : Nat) (p : Plan h), Plan.Valid m.A h p → ∀ s, evalPlan m h p s ≤ optH m h s := by
  intro h
  induction h with
  | zero => intro p _ s; simp [evalPlan, optH, optFrom]
  | succ h ih =>
    intro p hp s
    change Nat × (Nat → Plan h) at p
    obtain ⟨a, k⟩ := p
    obtain ⟨ha, hk⟩ := hp
    have h1 : evalPlan m (h+1) (a, k) s ≤ qBackup m (optH m h) s a := by
      simp only [evalPlan, qBackup]
      have : sumTo m.S (fun s1 => m.T s a s1 * (evalPlan m h (k s1) s1 * m.γ))
          ≤ sumTo m.S (fun s1 => m.T s a s1 * (optH m h s1 * m.γ)) := by
        apply sumTo_le
        intro s1 _
        apply mul_le_mul_of_nonneg_left _ (hT s a s1)
        exact mul_le_mul_of_nonneg_right (ih (k s1) (hk s1) s1) hγ
      linarith
    exact le_trans h1 (qBackup_le_bellman m hA (optH m h) s a ha)

theorem greedyPlan_valid (m : MDP) (hA : 0 < m.A) : ∀ (h : Nat) (s : Nat), Plan.Valid m.A h (greedyPlan m h s) := by
  intro h
  induction h with
  | zero => intro s; trivial
  | succ h ih =>
    intro s
    refine ⟨?_, fun s1 => ih s1⟩
    have := argmaxTo_le (m.A - 1) (qBackup m (optH m h) s)
    omega

/-- **optH_is_optimal (attained).** The greedy plan is a legal plan and earns exactly `optH h`. -/
theorem evalPlan_greedy (m : MDP) : ∀ (h : Nat) (s : Nat), evalPlan m h (greedyPlan m h s) s = optH m h s := by
  intro h
  induction h with
  | zero => intro s; simp [evalPlan, optH, optFrom]
  | succ h ih =>
    intro s
    simp only [greedyPlan, evalPlan]
    have : sumTo m.S (fun s1 => m.T s (argmaxTo (m.A - 1) (qBackup m (optH m h) s)) s1 * (evalPlan m h (greedyPlan m h s1) s1 * m.γ))
        = sumTo m.S (fun s1 => m.T s (argmaxTo (m.A - 1) (qBackup m (optH m h) s)) s1 * (optH m h s1 * m.γ)) := by
      apply sumTo_congr
      intro s1 _
      rw [ih s1]
    rw [this]
    show qBackup m (optH m h) s _ = bellman m (optH m h) s
    unfold bellman
    rw [maxTo_eq_argmax]

/-- **optH_is_optimal.** `optH h s` is the maximum expected discounted h-step return over all (deterministic,
    state-history-dependent) plans from `s`. -/
theorem optH_is_optimal (m : MDP) (hγ : 0 ≤ m.γ) (hT : ∀ s a s1, 0 ≤ m.T s a s1) (hA : 0 < m.A) (h s : Nat) :
    (∀ p : Plan h, Plan.Valid m.A h p → evalPlan m h p s ≤ optH m h s) ∧
    (∃ p : Plan h, Plan.Valid m.A h p ∧ evalPlan m h p s = optH m h s) :=
  ⟨fun p hp => evalPlan_le_optH m hγ hT hA h p hp s, ⟨greedyPlan m h s, greedyPlan_valid m hA h s, evalPlan_greedy m h s⟩⟩

/-! ## fixed points: uniqueness, distance from the Bellman residual, agreement of approximate solutions -/

/-- `V` solves the Bellman optimality equation on the S states -/
def IsFixedPoint (m : MDP) (V : Nat → Rat) : Prop := ∀ s, s < m.S → bellman m V s = V s

theorem maxAbsDiff_ge (n : Nat) (a b : Nat → Rat) (s : Nat) (hs : s < n) : |a s - b s| ≤ maxAbsDiff n a b := by
  unfold maxAbsDiff
  have := maxTo_ge (n - 1) (fun s => absR (a s - b s)) s (by omega)
  simpa [absR_eq] using this

theorem maxAbsDiff_attained (n : Nat) (hn : 0 < n) (a b : Nat → Rat) : ∃ s, s < n ∧ maxAbsDiff n a b = |a s - b s| := by
  unfold maxAbsDiff
  obtain ⟨i, hi, h⟩ := maxTo_attained (n - 1) (fun s => absR (a s - b s))
  exact ⟨i, by omega, by simpa [absR_eq] using h⟩

/-- **Two approximate solutions are close.** If ‖BV − V‖∞ ≤ rV and ‖BW − W‖∞ ≤ rW then ‖V − W‖∞ ≤ (rV + rW)/(1 − γ). -/
theorem approx_fixed_points_close (m : MDP) (hγ0 : 0 ≤ m.γ) (hγ1 : m.γ < 1) (hT : ValidT m)
    (V W : Nat → Rat) (rV rW : Rat)
    (hV : ∀ s, s < m.S → |bellman m V s - V s| ≤ rV) (hW : ∀ s, s < m.S → |bellman m W s - W s| ≤ rW) :
    ∀ s, s < m.S → |V s - W s| ≤ (rV + rW) / (1 - m.γ) := by
  intro s hs
  have hS : 0 < m.S := by omega
  obtain ⟨t, ht, hD⟩ := maxAbsDiff_attained m.S hS V W
  have hle : ∀ u, u < m.S → |V u - W u| ≤ maxAbsDiff m.S V W := fun u hu => maxAbsDiff_ge m.S V W u hu
  have hc := bellman_contraction m V W (maxAbsDiff m.S V W) hγ0 hT hle t
  have h1 := hV t ht
  have h2 := hW t ht
  have hpos : 0 < 1 - m.γ := by linarith
  have key : maxAbsDiff m.S V W ≤ rV + rW + m.γ * maxAbsDiff m.S V W := by
    have e : V t - W t = -(bellman m V t - V t) + (bellman m V t - bellman m W t) + (bellman m W t - W t) := by ring
    have t1 := abs_add_le (-(bellman m V t - V t) + (bellman m V t - bellman m W t)) (bellman m W t - W t)
    have t2 := abs_add_le (-(bellman m V t - V t)) (bellman m V t - bellman m W t)
    rw [abs_neg] at t2
    have t3 : |V t - W t| ≤ rV + rW + m.γ * maxAbsDiff m.S V W := by rw [e]; linarith
    linarith
  have hfin : maxAbsDiff m.S V W ≤ (rV + rW) / (1 - m.γ) := by
    rw [le_div_iff₀ hpos]
    nlinarith
  exact le_trans (hle s hs) hfin

/-- **fixedPoint_unique.** The Bellman optimality equation has at most one solution (γ < 1). -/
theorem fixedPoint_unique (m : MDP) (hγ0 : 0 ≤ m.γ) (hγ1 : m.γ < 1) (hT : ValidT m) (V W : Nat → Rat)
    (hV : IsFixedPoint m V) (hW : IsFixedPoint m W) : ∀ s, s < m.S → V s = W s := by
  intro s hs
  have := approx_fixed_points_close m hγ0 hγ1 hT V W 0 0
    (fun s hs => by rw [hV s hs]; simp) (fun s hs => by rw [hW s hs]; simp) s hs
  simp at this
  linarith [sub_eq_zero.mp this]

/-- **Residual bound.** ‖BV − V‖∞ ≤ r implies ‖V − V*‖∞ ≤ r/(1−γ) for every solution V* of the optimality equation. -/
theorem residual_to_fixed_point (m : MDP) (hγ0 : 0 ≤ m.γ) (hγ1 : m.γ < 1) (hT : ValidT m) (V W : Nat → Rat) (r : Rat)
    (hV : ∀ s, s < m.S → |bellman m V s - V s| ≤ r) (hW : IsFixedPoint m W) :
    ∀ s, s < m.S → |V s - W s| ≤ r / (1 - m.γ) := by
  have := approx_fixed_points_close m hγ0 hγ1 hT V W r 0 hV (fun s hs => by rw [hW s hs]; simp)
  simpa using this

/-! ## `vi_stop_bound`: what the tolerance stopping rule guarantees -/

/-- loop invariant of the tolerance-driven loop: once a pass has run, the current values are the backup of some
    previous iterate and `variation` is their max-norm distance -/
def VITolInv (m : MDP) (st : VIState) : Prop :=
  st.timestep = 0 ∨ ∃ prev : Nat → Rat,
    (∀ s, s < m.S → st.vf.values.get s = bellman m prev s) ∧ st.variation = maxAbsDiff m.S st.vf.values.get prev

theorem viLoop_tol (m : MDP) (rep : Rep) (hrep : RepOK m rep) (hA : 0 < m.A) (tol : Rat) :
    ∀ (fuel : Nat) (st : VIState), VIShape m st → VITolInv m st →
      VIShape m (viLoop m rep (immRewards m rep) true tol fuel st) ∧
      VITolInv m (viLoop m rep (immRewards m rep) true tol fuel st) ∧
      st.timestep ≤ (viLoop m rep (immRewards m rep) true tol fuel st).timestep ∧
      ((viLoop m rep (immRewards m rep) true tol fuel st).variation ≤ tol ∨
       (viLoop m rep (immRewards m rep) true tol fuel st).timestep = st.timestep + fuel) ∧
      (tol < st.variation → 0 < fuel → st.timestep < (viLoop m rep (immRewards m rep) true tol fuel st).timestep) := by
  intro fuel
  induction fuel with
  | zero => intro st hsh hinv; exact ⟨hsh, hinv, le_refl _, Or.inr rfl, fun _ h => absurd h (lt_irrefl 0)⟩
  | succ fuel ih =>
    intro st hsh hinv
    by_cases hgt : tol < st.variation
    · obtain ⟨hsh', hval, _, _, hts, hvar⟩ := viStep_spec m rep hrep hA true st hsh
      have hinv' : VITolInv m (viStep m rep (immRewards m rep) true st) :=
        Or.inr ⟨st.vf.values.get, hval, by rw [hvar]; simp⟩
      obtain ⟨i1, i2, i3, i4, _⟩ := ih _ hsh' hinv'
      have e : viLoop m rep (immRewards m rep) true tol (fuel+1) st
          = viLoop m rep (immRewards m rep) true tol fuel (viStep m rep (immRewards m rep) true st) := by
        conv => lhs; unfold viLoop
        simp [hgt]
      rw [e]
      refine ⟨i1, i2, by omega, ?_, fun _ _ => by omega⟩
      rcases i4 with h | h
      · exact Or.inl h
      · exact Or.inr (by rw [h, hts]; omega)
    · have e : viLoop m rep (immRewards m rep) true tol (fuel+1) st = st := by
        conv => lhs; unfold viLoop
        simp [hgt]
      rw [e]
      exact ⟨hsh, hinv, le_refl _, Or.inl (not_lt.mp hgt), fun h => absurd h hgt⟩

/-- **vi_stop_bound.**  For a positive tolerance that enables the stopping rule and horizon h ≥ 1 (default start),
    `ValueIteration(h, tol)(model)` returns values `V` and a variation `ε` with
    * ε ≤ tol, or all h passes were used;
    * Bellman residual ‖BV − V‖∞ ≤ γ·ε;
    * ‖V − V*‖∞ ≤ γ·ε/(1−γ) for every solution V* of the optimality equation. -/
theorem vi_stop_bound (m : MDP) (rep : Rep) (hrep : RepOK m rep) (hA : 0 < m.A) (hγ0 : 0 ≤ m.γ) (hγ1 : m.γ < 1)
    (hT : ValidT m) (h : Nat) (hh : 0 < h) (tol : Rat) (htol0 : 0 < tol) (htol : useTolerance tol = true) :
    let out := valueIteration m rep h tol none
    (out.variation ≤ tol ∨ out.timestep = h) ∧
    (∀ s, s < m.S → |bellman m out.vf.values.get s - out.vf.values.get s| ≤ m.γ * out.variation) ∧
    (∀ W, IsFixedPoint m W → ∀ s, s < m.S → |out.vf.values.get s - W s| ≤ m.γ * out.variation / (1 - m.γ)) := by
  intro out
  have hsh := makeVF_shape m (makeQ m.S m.A) (tol * 2) 0
  have hinv0 : VITolInv m ⟨makeVF m.S, makeQ m.S m.A, tol * 2, 0⟩ := Or.inl rfl
  obtain ⟨_, hinv, _, hstop, hprog⟩ := viLoop_tol m rep hrep hA tol h _ hsh hinv0
  have hstep := hprog (by show tol < tol * 2; linarith) hh
  have hres : ∀ s, s < m.S → |bellman m out.vf.values.get s - out.vf.values.get s| ≤ m.γ * out.variation := by
    intro s hs
    simp only [out, valueIteration, htol, if_true]
    rcases hinv with h0 | ⟨prev, hp1, hp2⟩
    · simp only at hstep; omega
    · rw [hp1 s hs, hp2]
      apply bellman_contraction m _ _ _ hγ0 hT
      intro u hu
      exact maxAbsDiff_ge m.S _ _ u hu
  refine ⟨?_, hres, ?_⟩
  · simp only [out, valueIteration, htol, if_true]
    rcases hstop with h1 | h1
    · exact Or.inl h1
    · exact Or.inr (by rw [h1]; simp)
  · intro W hW s hs
    exact residual_to_fixed_point m hγ0 hγ1 hT _ W _ hres hW s hs

/-! ## linear program: feasible points dominate V*, V* is feasible, hence V* is the unique minimiser -/

theorem sumTo_indicator (n : Nat) (V : Nat → Rat) (s : Nat) (hs : s < n) :
    sumTo n (fun s1 => (if s1 = s then (1 : Rat) else 0) * V s1) = V s := by
  induction n with
  | zero => omega
  | succ n ih =>
    simp only [sumTo]
    rcases Nat.lt_or_ge s n with h | h
    · rw [ih h, if_neg (by omega)]; ring
    · have : s = n := by omega
      subst this
      have hz : sumTo s (fun s1 => (if s1 = s then (1 : Rat) else 0) * V s1) = 0 := by
        have : sumTo s (fun s1 => (if s1 = s then (1 : Rat) else 0) * V s1) = sumTo s (fun _ => 0) := by
          apply sumTo_congr
          intro i hi
          rw [if_neg (by omega)]; ring
        rw [this]
        clear this ih hs h
        induction s with
        | zero => rfl
        | succ k ihk => simp [sumTo, ihk]
      rw [hz]; simp

theorem sumTo_add (n : Nat) (f g : Nat → Rat) : sumTo n (fun i => f i + g i) = sumTo n f + sumTo n g := by
  induction n with
  | zero => simp [sumTo]
  | succ n ih => simp only [sumTo, ih]; ring

theorem sumTo_mul_left (n : Nat) (c : Rat) (f : Nat → Rat) : sumTo n (fun i => c * f i) = c * sumTo n f := by
  induction n with
  | zero => simp [sumTo]
  | succ n ih => simp only [sumTo, ih]; ring

/-- the LP row of (s,a), as built by `LinearProgramming::operator()` on either path, reads `V(s) − (R(s,a) + γ Σ T V) ≥ 0` -/
theorem lpSlack_eq (m : MDP) (rep : Rep) (hrep : RepOK m rep) (V : Nat → Rat) {s a : Nat} (hs : s < m.S) (ha : a < m.A) :
    lpSlack m rep V s a = V s - qBackup m V s a := by
  have hr : lpRhs m rep s a = m.R s a := by
    cases rep with
    | eigen => rfl
    | generic => simp only [lpRhs, immRewardFn, accTo_eq, zero_add]; exact (hrep s a hs ha).symm
  unfold lpSlack qBackup
  rw [hr]
  have : sumTo m.S (fun s1 => lpCoeff m s a s1 * V s1)
      = sumTo m.S (fun s1 => -(m.T s a s1 * (V s1 * m.γ)) + (if s1 = s then (1 : Rat) else 0) * V s1) := by
    apply sumTo_congr
    intro i _
    unfold lpCoeff
    ring
  rw [this, sumTo_add, sumTo_indicator m.S V s hs]
  have : sumTo m.S (fun s1 => -(m.T s a s1 * (V s1 * m.γ))) = -sumTo m.S (fun s1 => m.T s a s1 * (V s1 * m.γ)) := by
    have := sumTo_mul_left m.S (-1) (fun s1 => m.T s a s1 * (V s1 * m.γ))
    simp only [neg_mul, one_mul] at this
    exact this
  rw [this]; ring

/-- `V` satisfies every LP row up to δ -/
def LpFeasible (m : MDP) (rep : Rep) (V : Nat → Rat) (δ : Rat) : Prop :=
  ∀ s a, s < m.S → a < m.A → -δ ≤ lpSlack m rep V s a

theorem weighted_le (m : MDP) (hT : ValidT m) (d : Nat → Rat) (D : Rat) (hd : ∀ s, s < m.S → d s ≤ D) (s a : Nat) :
    sumTo m.S (fun s1 => m.T s a s1 * d s1) ≤ D := by
  have h1 : sumTo m.S (fun s1 => m.T s a s1 * d s1) ≤ sumTo m.S (fun s1 => m.T s a s1 * D) := by
    apply sumTo_le
    intro i hi
    exact mul_le_mul_of_nonneg_left (hd i hi) (hT.nonneg s a i)
  have h2 : sumTo m.S (fun s1 => m.T s a s1 * D) = D := by
    have := sumTo_mul_left m.S D (fun s1 => m.T s a s1)
    have e : sumTo m.S (fun s1 => m.T s a s1 * D) = sumTo m.S (fun s1 => D * m.T s a s1) := by
      apply sumTo_congr; intro i _; ring
    rw [e, this, hT.sum_one s a]; ring
  linarith

/-- **lp_feasible_ge_vstar.**  Every point that satisfies the LP rows up to δ lies above every solution of the optimality
    equation up to δ/(1−γ) (δ = 0: every feasible point dominates V*).  This is what makes lp_solve's answer checkable. -/
theorem lp_feasible_ge_vstar (m : MDP) (rep : Rep) (hrep : RepOK m rep) (hA : 0 < m.A) (hγ0 : 0 ≤ m.γ) (hγ1 : m.γ < 1)
    (hT : ValidT m) (V W : Nat → Rat) (δ : Rat) (hV : LpFeasible m rep V δ) (hW : IsFixedPoint m W) :
    ∀ s, s < m.S → W s - δ / (1 - m.γ) ≤ V s := by
  intro s hs
  have hS : 0 < m.S := by omega
  -- largest deficit D = max_s (W s − V s), attained at t
  obtain ⟨t, ht, hD⟩ := maxTo_attained (m.S - 1) (fun u => W u - V u)
  have hle : ∀ u, u < m.S → W u - V u ≤ maxTo (m.S - 1) (fun u => W u - V u) :=
    fun u hu => maxTo_ge (m.S - 1) (fun u => W u - V u) u (by omega)
  have ht' : t < m.S := by omega
  obtain ⟨a, ha, hmax⟩ := maxTo_attained (m.A - 1) (qBackup m W t)
  have ha' : a < m.A := by omega
  have hWt : W t = qBackup m W t a := by rw [← hW t ht']; exact hmax
  have hfe := hV t a ht' ha'
  rw [lpSlack_eq m rep hrep V ht' ha'] at hfe
  have hdiff : qBackup m W t a - qBackup m V t a ≤ m.γ * maxTo (m.S - 1) (fun u => W u - V u) := by
    unfold qBackup
    have e : m.R t a + sumTo m.S (fun s1 => m.T t a s1 * (W s1 * m.γ)) - (m.R t a + sumTo m.S (fun s1 => m.T t a s1 * (V s1 * m.γ)))
        = m.γ * sumTo m.S (fun s1 => m.T t a s1 * (W s1 - V s1)) := by
      rw [← sumTo_mul_left]
      have : sumTo m.S (fun s1 => m.T t a s1 * (W s1 * m.γ))
          = sumTo m.S (fun s1 => m.T t a s1 * (V s1 * m.γ) + m.γ * (m.T t a s1 * (W s1 - V s1))) := by
        apply sumTo_congr; intro i _; ring
      rw [this, sumTo_add]; ring
    rw [e]
    exact mul_le_mul_of_nonneg_left (weighted_le m hT (fun u => W u - V u) _ hle t a) hγ0
  have hpos : 0 < 1 - m.γ := by linarith
  have hDle : maxTo (m.S - 1) (fun u => W u - V u) ≤ δ / (1 - m.γ) := by
    rw [le_div_iff₀ hpos]
    have : maxTo (m.S - 1) (fun u => W u - V u) = W t - V t := hD
    nlinarith
  have := hle s hs
  linarith

/-- a solution of the optimality equation satisfies every LP row exactly -/
theorem fixedPoint_lp_feasible (m : MDP) (rep : Rep) (hrep : RepOK m rep) (hA : 0 < m.A) (W : Nat → Rat)
    (hW : IsFixedPoint m W) : LpFeasible m rep W 0 := by
  intro s a hs ha
  rw [lpSlack_eq m rep hrep W hs ha, ← hW s hs]
  have := qBackup_le_bellman m hA W s a ha
  linarith

/-- **lp_opt_is_vstar.**  V* is feasible, its objective is minimal among feasible points, and a feasible point with the
    same objective *is* V*: the LP's unique optimum is the optimal value function. -/
theorem lp_opt_is_vstar (m : MDP) (rep : Rep) (hrep : RepOK m rep) (hA : 0 < m.A) (hγ0 : 0 ≤ m.γ) (hγ1 : m.γ < 1)
    (hT : ValidT m) (V W : Nat → Rat) (hV : LpFeasible m rep V 0) (hW : IsFixedPoint m W) :
    LpFeasible m rep W 0 ∧ lpObjective m W ≤ lpObjective m V ∧
    (lpObjective m V ≤ lpObjective m W → ∀ s, s < m.S → V s = W s) := by
  have hge : ∀ s, s < m.S → W s ≤ V s := by
    intro s hs
    have := lp_feasible_ge_vstar m rep hrep hA hγ0 hγ1 hT V W 0 hV hW s hs
    simpa using this
  refine ⟨fixedPoint_lp_feasible m rep hrep hA W hW, ?_, ?_⟩
  · unfold lpObjective
    apply sumTo_le
    intro s hs
    have hS : (0 : Rat) < m.S := by exact_mod_cast (by omega : 0 < m.S)
    exact mul_le_mul_of_nonneg_left (hge s hs) (le_of_lt (one_div_pos.mpr hS))
  · intro hobj s hs
    have hS : (0 : Rat) < m.S := by exact_mod_cast (by omega : 0 < m.S)
    have hc : (0 : Rat) < 1 / (m.S : Rat) := one_div_pos.mpr hS
    -- Σ (1/S)(V − W) ≤ 0 with nonnegative terms forces every term to vanish
    have hsum : sumTo m.S (fun u => (1 / (m.S : Rat)) * (V u - W u)) ≤ 0 := by
      have : sumTo m.S (fun u => (1 / (m.S : Rat)) * (V u - W u))
          = lpObjective m V - lpObjective m W := by
        unfold lpObjective
        have e : sumTo m.S (fun u => 1 / (m.S : Rat) * V u)
            = sumTo m.S (fun u => 1 / (m.S : Rat) * W u + 1 / (m.S : Rat) * (V u - W u)) := by
          apply sumTo_congr; intro i _; ring
        rw [e, sumTo_add]; ring
      rw [this]; linarith
    have hterm : ∀ n, n ≤ m.S → sumTo n (fun u => (1 / (m.S : Rat)) * (V u - W u)) ≤ 0 →
        ∀ u, u < n → V u - W u ≤ 0 := by
      intro n
      induction n with
      | zero => intro _ _ u hu; omega
      | succ n ih =>
        intro hn hle u hu
        simp only [sumTo] at hle
        have hnn : 0 ≤ (1 / (m.S : Rat)) * (V n - W n) := mul_nonneg (le_of_lt hc) (by linarith [hge n (by omega)])
        have hprev : 0 ≤ sumTo n (fun u => (1 / (m.S : Rat)) * (V u - W u)) := by
          have : sumTo n (fun _ => (0 : Rat)) ≤ sumTo n (fun u => (1 / (m.S : Rat)) * (V u - W u)) := by
            apply sumTo_le
            intro i hi
            exact mul_nonneg (le_of_lt hc) (by linarith [hge i (by omega)])
          have z : sumTo n (fun _ => (0 : Rat)) = 0 := by
            clear this ih hle hnn hu hn
            induction n with
            | zero => rfl
            | succ k ihk => simp [sumTo, ihk]
          linarith
        rcases Nat.lt_or_ge u n with h | h
        · exact ih (by omega) (by linarith) u h
        · have : u = n := by omega
          subst this
          have : (1 / (m.S : Rat)) * (V u - W u) ≤ 0 := by linarith
          by_contra hcon
          have : 0 < (1 / (m.S : Rat)) * (V u - W u) := mul_pos hc (by linarith)
          linarith
    have := hterm m.S (le_refl _) hsum s hs
    linarith [hge s hs]

/-! ## PolicyEvaluation -/

theorem peStep_spec (m : MDP) (rep : Rep) (hrep : RepOK m rep) (useTol : Bool) (p : Mat) (st : PEState)
    (hv : st.v.size = m.S) :
    (peStep m rep (immRewards m rep) useTol p st).v.size = m.S ∧
    (∀ s, s < m.S → (peStep m rep (immRewards m rep) useTol p st).v.get s = bellmanPi m p.get st.v.get s) ∧
    (∀ s a, s < m.S → a < m.A → (peStep m rep (immRewards m rep) useTol p st).q.get s a = qBackup m st.v.get s a) ∧
    (peStep m rep (immRewards m rep) useTol p st).timestep = st.timestep + 1 ∧
    (peStep m rep (immRewards m rep) useTol p st).variation =
      (if useTol then maxAbsDiff m.S (peStep m rep (immRewards m rep) useTol p st).v.get st.v.get else st.variation) := by
  have hq : ∀ s a, s < m.S → a < m.A →
      (computeQ m rep (mkVec st.v.size (fun s => st.v.get s * m.γ)) (immRewards m rep)).get s a
        = qBackup m st.v.get s a := fun s a hs haa => computeQ_discounted m rep hrep st.v hv hs haa
  refine ⟨by simp [peStep, mkVec_size], ?_, ?_, rfl, rfl⟩
  · intro s hs
    simp only [peStep]
    rw [mkVec_get _ hs]
    unfold dotTo bellmanPi
    apply sumTo_congr
    intro a ha
    rw [hq s a hs ha]
  · intro s a hs ha
    exact hq s a hs ha

theorem evalFrom_shift (m : MDP) (p : Nat → Nat → Rat) (v w : Nat → Rat)
    (h : ∀ s, s < m.S → w s = bellmanPi m p v s) : ∀ k s, s < m.S → evalFrom m p w k s = evalFrom m p v (k+1) s := by
  intro k
  induction k with
  | zero => intro s hs; simp only [evalFrom]; exact h s hs
  | succ k ih => intro s hs; simp only [evalFrom] at ih ⊢; exact bellmanPi_congr m p ih s

theorem peLoop_noTol (m : MDP) (rep : Rep) (hrep : RepOK m rep) (tol : Rat) (p : Mat) :
    ∀ (fuel : Nat) (st : PEState), st.v.size = m.S →
      (peLoop m rep (immRewards m rep) false tol p fuel st).timestep = st.timestep + fuel ∧
      ∀ s, s < m.S → (peLoop m rep (immRewards m rep) false tol p fuel st).v.get s = evalFrom m p.get st.v.get fuel s := by
  intro fuel
  induction fuel with
  | zero => intro st _; exact ⟨rfl, fun s _ => rfl⟩
  | succ fuel ih =>
    intro st hv
    obtain ⟨hv', hval, _, hts, _⟩ := peStep_spec m rep hrep false p st hv
    obtain ⟨i1, i2⟩ := ih _ hv'
    simp only [peLoop, Bool.false_and, Bool.false_eq_true, if_false]
    refine ⟨by rw [i1, hts]; omega, ?_⟩
    intro s hs
    rw [i2 s hs]
    exact evalFrom_shift m p.get _ _ hval fuel s hs

/-- **pe_tol0_eq_evalPolicy.**  With a tolerance the library treats as zero and the default start,
    `PolicyEvaluation(model, h, tol)(π)` returns exactly the h-step value of the stochastic policy π, variation 0. -/
theorem pe_tol0_eq_evalPolicy (m : MDP) (rep : Rep) (hrep : RepOK m rep) (h : Nat) (tol : Rat)
    (htol : useTolerance tol = false) (p : Mat) :
    let out := policyEvaluation m rep h tol none p
    out.variation = 0 ∧ out.timestep = h ∧ ∀ s, s < m.S → out.v.get s = evalPolicy m p.get h s := by
  intro out
  obtain ⟨hts, hval⟩ := peLoop_noTol m rep hrep tol p h ⟨mkVec m.S (fun _ => 0), makeQ m.S m.A, tol * 2, 0⟩ (mkVec_size _ _)
  refine ⟨by simp [out, policyEvaluation, htol], by simp only [out, policyEvaluation, htol]; rw [hts]; simp, ?_⟩
  intro s hs
  simp only [out, policyEvaluation, htol]
  rw [hval s hs]
  have hz : ∀ k s, s < m.S → evalFrom m p.get (mkVec m.S (fun _ => 0)).get k s = evalPolicy m p.get k s := by
    intro k
    induction k with
    | zero => intro s hs; simp [evalFrom, evalPolicy, mkVec_get _ hs]
    | succ k ih => intro s _; simp only [evalFrom, evalPolicy] at ih ⊢; exact bellmanPi_congr m p.get ih s
  exact hz h s hs

/-- warm start of PolicyEvaluation (how PolicyIteration chains evaluations) -/
theorem pe_tol0_warm (m : MDP) (rep : Rep) (hrep : RepOK m rep) (h : Nat) (tol : Rat)
    (htol : useTolerance tol = false) (p : Mat) (w : Vec) (hw : w.size = m.S) :
    ∀ s, s < m.S → (policyEvaluation m rep h tol (some w) p).v.get s = evalFrom m p.get w.get h s := by
  intro s hs
  obtain ⟨_, hval⟩ := peLoop_noTol m rep hrep tol p h ⟨w, makeQ m.S m.A, tol * 2, 0⟩ hw
  simp only [policyEvaluation, htol, hw, bne_self_eq_false, Bool.false_eq_true, if_false]
  exact hval s hs

/-! ## PolicyIteration: what a stable greedy policy means -/

/-- rows of a stochastic policy -/
structure ValidPi (m : MDP) (p : Nat → Nat → Rat) : Prop where
  nonneg : ∀ s a, 0 ≤ p s a
  sum_one : ∀ s, s < m.S → sumTo m.A (fun a => p s a) = 1

theorem convex_bounds (n : Nat) (w x : Nat → Rat) (lo hi : Rat) (hw : ∀ a, 0 ≤ w a) (hsum : sumTo n w = 1)
    (hb : ∀ a, a < n → w a ≠ 0 → lo ≤ x a ∧ x a ≤ hi) : lo ≤ sumTo n (fun a => x a * w a) ∧ sumTo n (fun a => x a * w a) ≤ hi := by
  have h1 : sumTo n (fun a => lo * w a) ≤ sumTo n (fun a => x a * w a) := by
    apply sumTo_le
    intro a ha
    by_cases h0 : w a = 0
    · simp [h0]
    · exact mul_le_mul_of_nonneg_right (hb a ha h0).1 (hw a)
  have h2 : sumTo n (fun a => x a * w a) ≤ sumTo n (fun a => hi * w a) := by
    apply sumTo_le
    intro a ha
    by_cases h0 : w a = 0
    · simp [h0]
    · exact mul_le_mul_of_nonneg_right (hb a ha h0).2 (hw a)
  rw [sumTo_mul_left, hsum] at h1 h2
  constructor <;> linarith

/-- **pi_stop_bound.**  Suppose PolicyIteration stops with Q-function `q = R + γ T v'` (the last evaluation sweep started
    from `v'`), evaluated values `v = π·q` with ‖v − v'‖∞ ≤ ε (the evaluation tolerance), and the policy π it evaluated
    puts weight only on actions within τ of the row maximum of `q` (stable greedy policy; τ is the tie tolerance).
    Then `V := max_a q` satisfies the Bellman optimality equation within γ(ε + τ). -/
theorem pi_stop_bound (m : MDP) (hA : 0 < m.A) (hγ0 : 0 ≤ m.γ) (hT : ValidT m)
    (p : Nat → Nat → Rat) (hp : ValidPi m p) (v v' : Nat → Rat) (ε τ : Rat)
    (hv : ∀ s, s < m.S → v s = sumTo m.A (fun a => qBackup m v' s a * p s a))
    (hε : ∀ s, s < m.S → |v s - v' s| ≤ ε)
    (hgreedy : ∀ s a, s < m.S → a < m.A → p s a ≠ 0 → bellman m v' s - τ ≤ qBackup m v' s a) :
    ∀ s, s < m.S → |bellman m (bellman m v') s - bellman m v' s| ≤ m.γ * (ε + τ) := by
  intro s hs
  apply bellman_contraction m _ _ _ hγ0 hT
  intro u hu
  have hb := convex_bounds m.A (p u) (qBackup m v' u) (bellman m v' u - τ) (bellman m v' u) (hp.nonneg u) (hp.sum_one u hu)
    (fun a ha h0 => ⟨hgreedy u a hu ha h0, qBackup_le_bellman m hA v' u a ha⟩)
  rw [← hv u hu] at hb
  have h1 := hε u hu
  rw [abs_le] at h1 ⊢
  constructor <;> linarith [hb.1, hb.2, h1.1, h1.2]

/-- **pi_stable_is_optimal.**  If π is greedy for the Q-function of its own exact value `V` (V = B_π V, π supported on the
    maximisers of Q^V) then `V` solves the Bellman optimality equation: a stable PolicyIteration round is optimal. -/
theorem pi_stable_is_optimal (m : MDP) (hA : 0 < m.A) (p : Nat → Nat → Rat) (hp : ValidPi m p) (V : Nat → Rat)
    (hV : ∀ s, s < m.S → V s = bellmanPi m p V s)
    (hgreedy : ∀ s a, s < m.S → a < m.A → p s a ≠ 0 → qBackup m V s a = bellman m V s) :
    IsFixedPoint m V := by
  intro s hs
  have hb := convex_bounds m.A (p s) (qBackup m V s) (bellman m V s) (bellman m V s) (hp.nonneg s) (hp.sum_one s hs)
    (fun a ha h0 => by rw [hgreedy s a hs ha h0]; exact ⟨le_refl _, le_refl _⟩)
  have : bellmanPi m p V s = bellman m V s := by unfold bellmanPi; linarith [hb.1, hb.2]
  rw [← this]; exact (hV s hs).symm

/-- the policy matrix PolicyIteration compares is always the greedy policy of the current Q-function -/
def PIInv (m : MDP) (st : PIState) : Prop := st.matrix = greedyPolicy m.S m.A st.qfun

/-- **structure of a terminating PolicyIteration run**: the returned Q-function is the Q-function of the last evaluation
    of the greedy policy of the previous Q-function, and its own greedy policy matrix is (entrywise, within
    equalToleranceSmall) the one that was evaluated. -/
theorem piLoop_result (m : MDP) (rep : Rep) (horizon : Nat) (tol : Rat) :
    ∀ (fuel : Nat) (st st' : PIState), PIInv m st → piLoop m rep horizon tol fuel st = some st' →
      ∃ prev : PIState, PIInv m prev ∧
        st'.qfun = (policyEvaluation m rep horizon tol prev.vParam (greedyPolicy m.S m.A prev.qfun)).q ∧
        matDiffers m.S m.A (greedyPolicy m.S m.A prev.qfun) (greedyPolicy m.S m.A st'.qfun) = false := by
  intro fuel
  induction fuel with
  | zero => intro st st' _ h; simp [piLoop] at h
  | succ fuel ih =>
    intro st st' hinv h
    by_cases hd : matDiffers m.S m.A st.matrix
        (greedyPolicy m.S m.A (policyEvaluation m rep horizon tol st.vParam (greedyPolicy m.S m.A st.qfun)).q) = true
    · -- policy changed: continue with the new state, whose matrix is the greedy policy of its qfun
      have e : piRound m rep horizon tol st =
          (⟨(policyEvaluation m rep horizon tol st.vParam (greedyPolicy m.S m.A st.qfun)).q,
            greedyPolicy m.S m.A (policyEvaluation m rep horizon tol st.vParam (greedyPolicy m.S m.A st.qfun)).q,
            some (policyEvaluation m rep horizon tol st.vParam (greedyPolicy m.S m.A st.qfun)).v, st.rounds + 1⟩, true) := by
        simp only [piRound, piRoundWith, hd, if_true]
      simp only [piLoop, e, if_true] at h
      refine ih _ st' ?_ h
      show _ = _
      rfl
    · have hd' : matDiffers m.S m.A st.matrix
          (greedyPolicy m.S m.A (policyEvaluation m rep horizon tol st.vParam (greedyPolicy m.S m.A st.qfun)).q) = false := by
        simpa using hd
      have e : piRound m rep horizon tol st =
          (⟨(policyEvaluation m rep horizon tol st.vParam (greedyPolicy m.S m.A st.qfun)).q, st.matrix,
            some (policyEvaluation m rep horizon tol st.vParam (greedyPolicy m.S m.A st.qfun)).v, st.rounds + 1⟩, false) := by
        simp only [piRound, piRoundWith, hd', Bool.false_eq_true, if_false]
      simp only [piLoop, e, Bool.false_eq_true, if_false, Option.some.injEq] at h
      subst h
      refine ⟨st, hinv, rfl, ?_⟩
      have hm : st.matrix = greedyPolicy m.S m.A st.qfun := hinv
      have hd2 := hd'
      rw [hm] at hd2
      exact hd2

/-- an action that receives weight from the as-found `getPolicy` scan passed the library's `checkEqualGeneral` test against the scanned maximum -/
theorem greedyRow_support (A : Nat) (q : Nat → Rat) (a : Nat) (h : greedyRowScan A q a ≠ 0) :
    checkEqualGeneral (q a) (greedyScan q (A - 1)).1 = true := by
  unfold greedyRowScan at h
  by_contra hc
  simp [hc] at h

/-! ## soundness of the checkers the driver evaluates on implementation output -/

theorem allLt_iff (n : Nat) (p : Nat → Bool) : allLt n p = true ↔ ∀ i, i < n → p i = true := by
  simp [allLt, List.all_eq_true]

theorem checkResidual_sound (m : MDP) (V : Nat → Rat) (r : Rat) (h : checkResidual m V r = true) :
    ∀ s, s < m.S → |bellman m V s - V s| ≤ r := by
  intro s hs
  have := (allLt_iff _ _).mp h s hs
  simpa [absR_eq] using this

theorem checkLpFeasible_sound (m : MDP) (rep : Rep) (V : Nat → Rat) (δ : Rat) (h : checkLpFeasible m rep V δ = true) :
    LpFeasible m rep V δ := by
  intro s a hs ha
  have h1 := (allLt_iff _ _).mp h s hs
  have h2 := (allLt_iff _ _).mp h1 a ha
  simpa using h2

theorem checkGreedy_sound (S A : Nat) (Q : Nat → Nat → Rat) (acts : Nat → Nat) (slack : Rat)
    (h : checkGreedy S A Q acts slack = true) :
    ∀ s, s < S → acts s < A ∧ ∀ a, a < A → Q s a ≤ Q s (acts s) + slack := by
  intro s hs
  have h1 := (allLt_iff _ _).mp h s hs
  simp only [Bool.and_eq_true, decide_eq_true_eq] at h1
  refine ⟨h1.1, fun a ha => ?_⟩
  have := (allLt_iff _ _).mp h1.2 a ha
  simpa using this

theorem checkClose_sound (n : Nat) (a b : Nat → Rat) (d : Rat) (h : checkClose n a b d = true) :
    ∀ s, s < n → |a s - b s| ≤ d := by
  intro s hs
  have := (allLt_iff _ _).mp h s hs
  simpa [absR_eq] using this

/-- **Checker soundness (values).**  If the residual checker accepts an implementation output `V` with bound `r` then `V` is
    within r/(1−γ) of every solution of the optimality equation; two accepted outputs are within (r₁+r₂)/(1−γ) of each other. -/
theorem check_sound (m : MDP) (hγ0 : 0 ≤ m.γ) (hγ1 : m.γ < 1) (hT : ValidT m) (V W : Nat → Rat) (rV rW : Rat)
    (hV : checkResidual m V rV = true) (hW : checkResidual m W rW = true) :
    (∀ s, s < m.S → |V s - W s| ≤ (rV + rW) / (1 - m.γ)) ∧
    (∀ Vs, IsFixedPoint m Vs → ∀ s, s < m.S → |V s - Vs s| ≤ rV / (1 - m.γ)) :=
  ⟨approx_fixed_points_close m hγ0 hγ1 hT V W rV rW (checkResidual_sound m V rV hV) (checkResidual_sound m W rW hW),
   fun Vs hVs => residual_to_fixed_point m hγ0 hγ1 hT V Vs rV (checkResidual_sound m V rV hV) hVs⟩

/-! ## values for any tolerance; geometric decay; a warm-start observation -/

theorem optFrom_shift (m : MDP) (v w : Nat → Rat) (h : ∀ s, s < m.S → w s = bellman m v s) :
    ∀ k s, s < m.S → optFrom m w k s = optFrom m v (k+1) s := by
  intro k
  induction k with
  | zero => intro s hs; simp only [optFrom]; exact h s hs
  | succ k ih => intro s hs; simp only [optFrom] at ih ⊢; exact bellman_congr m ih s

/-- for ANY tolerance setting the loop's values are the k-step DP values from its start, k = passes actually run -/
theorem viLoop_values (m : MDP) (rep : Rep) (hrep : RepOK m rep) (hA : 0 < m.A) (useTol : Bool) (tol : Rat) :
    ∀ (fuel : Nat) (st : VIState), VIShape m st →
      st.timestep ≤ (viLoop m rep (immRewards m rep) useTol tol fuel st).timestep ∧
      (viLoop m rep (immRewards m rep) useTol tol fuel st).timestep ≤ st.timestep + fuel ∧
      ∀ s, s < m.S → (viLoop m rep (immRewards m rep) useTol tol fuel st).vf.values.get s
          = optFrom m st.vf.values.get ((viLoop m rep (immRewards m rep) useTol tol fuel st).timestep - st.timestep) s := by
  intro fuel
  induction fuel with
  | zero => intro st _; exact ⟨le_refl _, le_refl _, fun s _ => by simp [viLoop, optFrom]⟩
  | succ fuel ih =>
    intro st hsh
    by_cases hstop : (useTol && !(decide (st.variation > tol))) = true
    · have e : viLoop m rep (immRewards m rep) useTol tol (fuel+1) st = st := by
        conv => lhs; unfold viLoop
        simp only [hstop, if_true]
      rw [e]
      exact ⟨le_refl _, by omega, fun s _ => by simp [optFrom]⟩
    · have e : viLoop m rep (immRewards m rep) useTol tol (fuel+1) st
          = viLoop m rep (immRewards m rep) useTol tol fuel (viStep m rep (immRewards m rep) useTol st) := by
        conv => lhs; unfold viLoop
        simp only [hstop, Bool.false_eq_true, if_false]
      obtain ⟨hsh', hval, _, _, hts, _⟩ := viStep_spec m rep hrep hA useTol st hsh
      obtain ⟨i1, i2, i3⟩ := ih _ hsh'
      rw [e]
      rw [hts] at i1 i2
      refine ⟨by omega, by omega, ?_⟩
      intro s hs
      rw [i3 s hs, hts]
      have hk : (viLoop m rep (immRewards m rep) useTol tol fuel (viStep m rep (immRewards m rep) useTol st)).timestep - st.timestep
          = ((viLoop m rep (immRewards m rep) useTol tol fuel (viStep m rep (immRewards m rep) useTol st)).timestep - (st.timestep + 1)) + 1 := by
        omega
      rw [hk]
      exact optFrom_shift m _ _ hval _ s hs

/-- **vi_values_eq_optH_timestep.** Whatever the tolerance, `ValueIteration(h, tol)(model)` from the default start returns
    the k-step dynamic-programming values, where k ≤ h is the number of passes it ran. -/
theorem vi_values_eq_optH_timestep (m : MDP) (rep : Rep) (hrep : RepOK m rep) (hA : 0 < m.A) (h : Nat) (tol : Rat) :
    let out := valueIteration m rep h tol none
    out.timestep ≤ h ∧ ∀ s, s < m.S → out.vf.values.get s = optH m out.timestep s := by
  intro out
  have hsh := makeVF_shape m (makeQ m.S m.A) (tol * 2) 0
  obtain ⟨_, h2, h3⟩ := viLoop_values m rep hrep hA (useTolerance tol) tol h _ hsh
  have hz : ∀ k s, s < m.S → optFrom m (makeVF m.S).values.get k s = optH m k s := by
    intro k
    induction k with
    | zero => intro s _; simp [optFrom, optH, makeVF_get]
    | succ k ih => intro s _; simp only [optFrom, optH] at ih ⊢; exact bellman_congr m ih s
  refine ⟨by simpa [out, valueIteration] using h2, ?_⟩
  intro s hs
  simp only [out, valueIteration]
  rw [h3 s hs]
  simp only [Nat.sub_zero]
  exact hz _ s hs

/-- **Geometric decay of the variation.** Consecutive DP iterates differ by at most γ^k times the first difference. -/
theorem optFrom_variation_geometric (m : MDP) (hγ0 : 0 ≤ m.γ) (hT : ValidT m) (v0 : Nat → Rat) (d : Rat)
    (hd : ∀ s, s < m.S → |optFrom m v0 1 s - v0 s| ≤ d) :
    ∀ k s, s < m.S → |optFrom m v0 (k+1) s - optFrom m v0 k s| ≤ m.γ ^ k * d := by
  intro k
  induction k with
  | zero => intro s hs; simpa [optFrom] using hd s hs
  | succ k ih =>
    intro s hs
    have := bellman_contraction m (optFrom m v0 (k+1)) (optFrom m v0 k) (m.γ ^ k * d) hγ0 hT ih s
    simp only [optFrom] at this ⊢
    rw [pow_succ]
    calc _ ≤ m.γ * (m.γ ^ k * d) := this
      _ = m.γ ^ k * m.γ * d := by ring

/-- Observation (outside C01's quantifier, kept because the model reproduces it): a warm start whose `actions` vector is
    empty makes `bellmanOperatorInplace` a no-op, so a pass only multiplies the values by γ.  This is why `vi_tol0_warm`
    needs `actions.size = S`. -/
theorem viStep_short_actions (m : MDP) (rep : Rep) (ir : Mat) (useTol : Bool) (st : VIState)
    (hv : st.vf.values.size = m.S) (ha : st.vf.actions.size = 0) :
    ∀ s, s < m.S → (viStep m rep ir useTol st).vf.values.get s = st.vf.values.get s * m.γ := by
  intro s hs
  simp only [viStep, bellmanInplace, mkVec_size, ha]
  rw [mkVec_get _ (by omega), if_neg (by omega), mkVec_get _ (by omega)]

/-! ## PolicyEvaluation under a tolerance -/

/-- the policy Bellman operator is a γ-contraction too -/
theorem bellmanPi_contraction (m : MDP) (p : Nat → Nat → Rat) (hp : ValidPi m p) (v w : Nat → Rat) (d : Rat)
    (hγ0 : 0 ≤ m.γ) (hT : ValidT m) (hd : ∀ s, s < m.S → |v s - w s| ≤ d) :
    ∀ s, s < m.S → |bellmanPi m p v s - bellmanPi m p w s| ≤ m.γ * d := by
  intro s hs
  have hb := convex_bounds m.A (p s) (fun a => qBackup m v s a - qBackup m w s a) (-(m.γ * d)) (m.γ * d)
    (hp.nonneg s) (hp.sum_one s hs)
    (fun a _ _ => by have := qBackup_lipschitz m v w d hγ0 hT hd s a; rw [abs_le] at this; exact this)
  have e : sumTo m.A (fun a => (qBackup m v s a - qBackup m w s a) * p s a) = bellmanPi m p v s - bellmanPi m p w s := by
    unfold bellmanPi
    have : sumTo m.A (fun a => qBackup m v s a * p s a)
        = sumTo m.A (fun a => qBackup m w s a * p s a + (qBackup m v s a - qBackup m w s a) * p s a) := by
      apply sumTo_congr; intro i _; ring
    rw [this, sumTo_add]; ring
  rw [e] at hb
  rw [abs_le]; exact hb

def PETolInv (m : MDP) (p : Mat) (st : PEState) : Prop :=
  st.timestep = 0 ∨ ∃ prev : Nat → Rat,
    (∀ s, s < m.S → st.v.get s = bellmanPi m p.get prev s) ∧ st.variation = maxAbsDiff m.S st.v.get prev

theorem peLoop_tol (m : MDP) (rep : Rep) (hrep : RepOK m rep) (tol : Rat) (p : Mat) :
    ∀ (fuel : Nat) (st : PEState), st.v.size = m.S → PETolInv m p st →
      PETolInv m p (peLoop m rep (immRewards m rep) true tol p fuel st) ∧
      ((peLoop m rep (immRewards m rep) true tol p fuel st).variation ≤ tol ∨
       (peLoop m rep (immRewards m rep) true tol p fuel st).timestep = st.timestep + fuel) ∧
      (tol < st.variation → 0 < fuel → st.timestep < (peLoop m rep (immRewards m rep) true tol p fuel st).timestep) ∧
      st.timestep ≤ (peLoop m rep (immRewards m rep) true tol p fuel st).timestep := by
  intro fuel
  induction fuel with
  | zero => intro st _ hinv; exact ⟨hinv, Or.inr rfl, fun _ h => absurd h (lt_irrefl 0), le_refl _⟩
  | succ fuel ih =>
    intro st hv hinv
    by_cases hgt : tol < st.variation
    · obtain ⟨hv', hval, _, hts, hvar⟩ := peStep_spec m rep hrep true p st hv
      have hinv' : PETolInv m p (peStep m rep (immRewards m rep) true p st) :=
        Or.inr ⟨st.v.get, hval, by rw [hvar]; simp⟩
      obtain ⟨i2, i4, _, i5⟩ := ih _ hv' hinv'
      have e : peLoop m rep (immRewards m rep) true tol p (fuel+1) st
          = peLoop m rep (immRewards m rep) true tol p fuel (peStep m rep (immRewards m rep) true p st) := by
        conv => lhs; unfold peLoop
        simp [hgt]
      rw [e]
      refine ⟨i2, ?_, fun _ _ => by omega, by omega⟩
      rcases i4 with h | h
      · exact Or.inl h
      · exact Or.inr (by rw [h, hts]; omega)
    · have e : peLoop m rep (immRewards m rep) true tol p (fuel+1) st = st := by
        conv => lhs; unfold peLoop
        simp [hgt]
      rw [e]
      exact ⟨hinv, Or.inl (not_lt.mp hgt), fun h => absurd h hgt, le_refl _⟩

/-- **pe_stop_bound.**  Tolerance run of PolicyEvaluation (default start, h ≥ 1, valid policy π): ε ≤ tol or horizon used up,
    and the returned values satisfy the policy's Bellman equation within γ·ε. -/
theorem pe_stop_bound (m : MDP) (rep : Rep) (hrep : RepOK m rep) (hγ0 : 0 ≤ m.γ) (hT : ValidT m)
    (h : Nat) (hh : 0 < h) (tol : Rat) (htol0 : 0 < tol) (htol : useTolerance tol = true) (p : Mat) (hp : ValidPi m p.get) :
    let out := policyEvaluation m rep h tol none p
    (out.variation ≤ tol ∨ out.timestep = h) ∧
    (∀ s, s < m.S → |bellmanPi m p.get out.v.get s - out.v.get s| ≤ m.γ * out.variation) := by
  intro out
  have hinv0 : PETolInv m p ⟨mkVec m.S (fun _ => 0), makeQ m.S m.A, tol * 2, 0⟩ := Or.inl rfl
  obtain ⟨hinv, hstop, hprog, _⟩ := peLoop_tol m rep hrep tol p h _ (mkVec_size _ _) hinv0
  have hstep := hprog (by show tol < tol * 2; linarith) hh
  constructor
  · simp only [out, policyEvaluation, htol, if_true]
    rcases hstop with h1 | h1
    · exact Or.inl h1
    · exact Or.inr (by rw [h1]; simp)
  · intro s hs
    simp only [out, policyEvaluation, htol, if_true]
    rcases hinv with h0 | ⟨prev, hp1, hp2⟩
    · simp only at hstep; omega
    · rw [hp1 s hs, hp2]
      apply bellmanPi_contraction m p.get hp _ _ _ hγ0 hT _ s hs
      intro u hu
      exact maxAbsDiff_ge m.S _ _ u hu

/-! ## closing the PolicyIteration chain: tie arithmetic, discreteness of greedy rows, last evaluation sweep -/

theorem tolSmall_pos : 0 < AITB.Gen.equalToleranceSmall := by norm_num [AITB.Gen.equalToleranceSmall]
theorem tolGeneral_nonneg : 0 ≤ AITB.Gen.equalToleranceGeneral := by norm_num [AITB.Gen.equalToleranceGeneral]


theorem checkEqualSmall_bound (a b : Rat) (h : checkEqualSmall a b = true) : |a - b| ≤ AITB.Gen.equalToleranceSmall := by
  simpa [checkEqualSmall, absR_eq] using h

/-- **the `checkEqualGeneral` arithmetic step**: accepted pairs differ by at most `tieSlack B` when one of them is bounded by B -/
theorem checkEqualGeneral_bound (a b B : Rat) (hb : |b| ≤ B) (h : checkEqualGeneral a b = true) : |a - b| ≤ tieSlack B := by
  unfold checkEqualGeneral at h
  simp only [Bool.or_eq_true, decide_eq_true_eq] at h
  have hB : 0 ≤ B := le_trans (abs_nonneg b) hb
  have hg := tolGeneral_nonneg
  have hs := tolSmall_pos
  unfold tieSlack
  rcases h with h | h
  · have := checkEqualSmall_bound a b h
    nlinarith
  · rw [absR_eq, absR_eq, absR_eq] at h
    have hm : minR |a| |b| ≤ |b| := by
      unfold minR; split
      · exact le_refl _
      · rename_i hlt; exact not_lt.mp hlt
    have h1 : minR |a| |b| * AITB.Gen.equalToleranceGeneral ≤ B * AITB.Gen.equalToleranceGeneral :=
      mul_le_mul_of_nonneg_right (le_trans hm hb) hg
    nlinarith

/-- the scan's running maximum is an entry, the count is between 1 and n+1, and no entry exceeds the running maximum by more than the tie slack -/
theorem greedyScan_spec (q : Nat → Rat) (B : Rat) : ∀ n, (∀ i, i ≤ n → |q i| ≤ B) →
    (∃ i, i ≤ n ∧ (greedyScan q n).1 = q i) ∧ 1 ≤ (greedyScan q n).2 ∧ (greedyScan q n).2 ≤ n + 1 ∧
    ∀ i, i ≤ n → q i ≤ (greedyScan q n).1 + tieSlack B := by
  intro n
  have hsl : ∀ B', 0 ≤ B' → 0 ≤ tieSlack B' := fun B' hB' => by
    unfold tieSlack; have := tolSmall_pos; have := tolGeneral_nonneg; nlinarith
  induction n with
  | zero =>
    intro hb
    have hB : 0 ≤ B := le_trans (abs_nonneg _) (hb 0 (le_refl _))
    refine ⟨⟨0, le_refl _, rfl⟩, by simp [greedyScan], by simp [greedyScan], ?_⟩
    intro i hi
    have : i = 0 := by omega
    subst this
    simp only [greedyScan]; linarith [hsl B hB]
  | succ n ih =>
    intro hb
    obtain ⟨⟨j, hj, hjm⟩, c1, c2, hle⟩ := ih (fun i hi => hb i (by omega))
    have hB : 0 ≤ B := le_trans (abs_nonneg _) (hb 0 (by omega))
    by_cases h1 : checkEqualGeneral (q (n+1)) (greedyScan q n).1 = true
    · have e : greedyScan q (n+1) = ((greedyScan q n).1, (greedyScan q n).2 + 1) := by
        simp only [greedyScan, h1, if_true]
      rw [e]
      refine ⟨⟨j, by omega, hjm⟩, by simp, by simp; omega, ?_⟩
      intro i hi
      rcases Nat.lt_or_ge i (n+1) with h | h
      · exact hle i (by omega)
      · have : i = n+1 := by omega
        subst this
        have hmb : |(greedyScan q n).1| ≤ B := by rw [hjm]; exact hb j (by omega)
        have := checkEqualGeneral_bound _ _ B hmb h1
        rw [abs_le] at this
        simp only; linarith [this.2]
    · by_cases h2 : (greedyScan q n).1 < q (n+1)
      · have e : greedyScan q (n+1) = (q (n+1), 1) := by
          simp only [greedyScan, h1, h2, if_true, Bool.false_eq_true, if_false]
        rw [e]
        refine ⟨⟨n+1, le_refl _, rfl⟩, by simp, by simp, ?_⟩
        intro i hi
        rcases Nat.lt_or_ge i (n+1) with h | h
        · have := hle i (by omega); simp only; linarith
        · have : i = n+1 := by omega
          subst this; simp only; linarith [hsl B hB]
      · have e : greedyScan q (n+1) = greedyScan q n := by
          simp only [greedyScan, h1, h2, Bool.false_eq_true, if_false]
        rw [e]
        refine ⟨⟨j, by omega, hjm⟩, c1, by omega, ?_⟩
        intro i hi
        rcases Nat.lt_or_ge i (n+1) with h | h
        · exact hle i (by omega)
        · have : i = n+1 := by omega
          subst this; linarith [not_lt.mp h2, hsl B hB]

/-- a positively weighted action of a greedy row is within twice the tie slack of the row maximum -/
theorem greedyRowScan_near_max (A : Nat) (hA : 0 < A) (q : Nat → Rat) (B : Rat) (hb : ∀ i, i < A → |q i| ≤ B) (a : Nat)
    (h : greedyRowScan A q a ≠ 0) : maxTo (A - 1) q - 2 * tieSlack B ≤ q a := by
  have hb' : ∀ i, i ≤ A - 1 → |q i| ≤ B := fun i hi => hb i (by omega)
  obtain ⟨⟨j, hj, hjm⟩, _, _, hle⟩ := greedyScan_spec q B (A - 1) hb'
  have hsup := greedyRow_support A q a h
  have hmb : |(greedyScan q (A - 1)).1| ≤ B := by rw [hjm]; exact hb' j hj
  have h1 := checkEqualGeneral_bound _ _ B hmb hsup
  rw [abs_le] at h1
  obtain ⟨i, hi, hmax⟩ := maxTo_attained (A - 1) q
  have h2 := hle i hi
  rw [hmax]; linarith [h1.1]

theorem greedyScan_count (q : Nat → Rat) : ∀ n, 1 ≤ (greedyScan q n).2 ∧ (greedyScan q n).2 ≤ n + 1 := by
  intro n
  induction n with
  | zero => simp [greedyScan]
  | succ n ih =>
    simp only [greedyScan]
    split
    · simp; omega
    · split
      · simp
      · omega

/-- entries of an as-found greedy row are 0 or 1/c for one count c ∈ [1, A] -/
theorem greedyRowScan_form (A : Nat) (hA : 0 < A) (q : Nat → Rat) :
    ∃ c : Nat, 1 ≤ c ∧ c ≤ A ∧ ∀ a, greedyRowScan A q a = 0 ∨ greedyRowScan A q a = 1 / (c : Rat) := by
  obtain ⟨c1, c2⟩ := greedyScan_count q (A - 1)
  refine ⟨(greedyScan q (A - 1)).2, c1, by omega, ?_⟩
  intro a
  unfold greedyRowScan
  simp only
  split
  · exact Or.inr rfl
  · exact Or.inl rfl

/-! ### the repaired `getPolicy` (true maximum first): every row is a distribution, for every Q -/

theorem checkEqualGeneral_self (x : Rat) : checkEqualGeneral x x = true := by
  have h0 : absR (x - x) ≤ AITB.Gen.equalToleranceSmall := by
    rw [sub_self, absR_eq, abs_zero]; exact le_of_lt tolSmall_pos
  unfold checkEqualGeneral checkEqualSmall
  rw [decide_eq_true h0]; rfl

theorem countTo_le (p : Nat → Bool) : ∀ n, countTo n p ≤ n := by
  intro n
  induction n with
  | zero => simp [countTo]
  | succ n ih => simp only [countTo]; split <;> omega

theorem countTo_pos (p : Nat → Bool) : ∀ n i, i < n → p i = true → 1 ≤ countTo n p := by
  intro n
  induction n with
  | zero => intro i hi; omega
  | succ n ih =>
    intro i hi hp
    simp only [countTo]
    by_cases h : i = n
    · subst h; simp [hp]
    · have := ih i (by omega) hp; omega

/-- Σ_{i<n} (if p i then c else 0) = #{i<n | p i} · c -/
theorem sumTo_indicator_count (p : Nat → Bool) (c : Rat) : ∀ n, sumTo n (fun i => if p i then c else 0) = (countTo n p : Rat) * c := by
  intro n
  induction n with
  | zero => simp [sumTo, countTo]
  | succ n ih =>
    simp only [sumTo, countTo, ih]
    by_cases h : p n
    · simp [h]; ring
    · simp [h]

/-- the count of the repaired row is between 1 and A: the maximum is an entry and equals itself -/
theorem greedyRowMax_count (A : Nat) (hA : 0 < A) (q : Nat → Rat) :
    1 ≤ countTo A (fun i => checkEqualGeneral (q i) (maxTo (A - 1) q)) ∧ countTo A (fun i => checkEqualGeneral (q i) (maxTo (A - 1) q)) ≤ A := by
  refine ⟨?_, countTo_le _ A⟩
  obtain ⟨i, hi, hm⟩ := maxTo_attained (A - 1) q
  exact countTo_pos _ A i (by omega) (by simp only [hm]; exact checkEqualGeneral_self (q i))

/-- **greedyRowMax_sum_one.**  The repaired `getPolicy` row sums to exactly one for every Q row of every size A ≥ 1 (no separation
    hypothesis on the entries: chains a≈b≈c with a≉c included). -/
theorem greedyRowMax_sum_one (A : Nat) (hA : 0 < A) (q : Nat → Rat) : sumTo A (greedyRowMax A q) = 1 := by
  obtain ⟨c1, _⟩ := greedyRowMax_count A hA q
  have hc : ((countTo A (fun i => checkEqualGeneral (q i) (maxTo (A - 1) q)) : Nat) : Rat) ≠ 0 := by
    have : (0 : Rat) < ((countTo A (fun i => checkEqualGeneral (q i) (maxTo (A - 1) q)) : Nat) : Rat) := by exact_mod_cast c1
    exact ne_of_gt this
  have e : greedyRowMax A q = fun a => if (fun i => checkEqualGeneral (q i) (maxTo (A - 1) q)) a
      then 1 / ((countTo A (fun i => checkEqualGeneral (q i) (maxTo (A - 1) q)) : Nat) : Rat) else 0 := by
    funext a; simp only [greedyRowMax]
  rw [e, sumTo_indicator_count]
  field_simp

theorem greedyRowMax_nonneg (A : Nat) (hA : 0 < A) (q : Nat → Rat) (a : Nat) : 0 ≤ greedyRowMax A q a := by
  obtain ⟨c1, _⟩ := greedyRowMax_count A hA q
  unfold greedyRowMax
  simp only
  split
  · have : (0 : Rat) < ((countTo A (fun i => checkEqualGeneral (q i) (maxTo (A - 1) q)) : Nat) : Rat) := by exact_mod_cast c1
    exact le_of_lt (one_div_pos.mpr this)
  · exact le_refl 0

theorem greedyRowMax_form (A : Nat) (hA : 0 < A) (q : Nat → Rat) :
    ∃ c : Nat, 1 ≤ c ∧ c ≤ A ∧ ∀ a, greedyRowMax A q a = 0 ∨ greedyRowMax A q a = 1 / (c : Rat) := by
  obtain ⟨c1, c2⟩ := greedyRowMax_count A hA q
  refine ⟨_, c1, c2, ?_⟩
  intro a
  unfold greedyRowMax
  simp only
  split
  · exact Or.inr rfl
  · exact Or.inl rfl

/-- a weighted action of the repaired row is within ONE tie slack of the true row maximum -/
theorem greedyRowMax_near_max (A : Nat) (hA : 0 < A) (q : Nat → Rat) (B : Rat) (hb : ∀ i, i < A → |q i| ≤ B) (a : Nat)
    (h : greedyRowMax A q a ≠ 0) : maxTo (A - 1) q - tieSlack B ≤ q a := by
  have hsup : checkEqualGeneral (q a) (maxTo (A - 1) q) = true := by
    unfold greedyRowMax at h
    by_contra hc
    simp [hc] at h
  obtain ⟨i, hi, hm⟩ := maxTo_attained (A - 1) q
  have hmb : |maxTo (A - 1) q| ≤ B := by rw [hm]; exact hb i (by omega)
  have h1 := checkEqualGeneral_bound _ _ B hmb hsup
  rw [abs_le] at h1
  linarith [h1.1]

theorem countTo_mono (p : Nat → Bool) (n : Nat) : countTo n p ≤ countTo (n+1) p := by
  simp only [countTo]; omega

/-- the as-found scan never counts more ties than there are entries equal to its final maximum -/
theorem greedyScan_count_le (q : Nat → Rat) : ∀ n,
    (greedyScan q n).2 ≤ countTo (n+1) (fun i => checkEqualGeneral (q i) (greedyScan q n).1) := by
  intro n
  induction n with
  | zero =>
    simp only [greedyScan, countTo, checkEqualGeneral_self]
    simp
  | succ n ih =>
    simp only [greedyScan]
    split
    · rename_i h
      -- tie: the maximum is unchanged, entry n+1 is one more tie
      simp only [countTo] at ih ⊢
      simp only [h, if_true]
      omega
    · split
      · -- new strict maximum: count 1, and the new maximum equals itself
        simp only [countTo, checkEqualGeneral_self]
        simp
      · rename_i h _
        simp only [countTo] at ih ⊢
        simp only [h]
        simp only [Bool.false_eq_true, if_false, Nat.add_zero]
        exact ih

/-- **greedyRowScan_sum_ge_one.**  The as-found `getPolicy` row can only sum to MORE than one (it equals #{a | q a ≈ max}/count with
    count ≤ that number): a row summing to less than one is never the known tie-chain defect. -/
theorem greedyRowScan_sum_ge_one (A : Nat) (hA : 0 < A) (q : Nat → Rat) : 1 ≤ sumTo A (greedyRowScan A q) := by
  obtain ⟨c1, _⟩ := greedyScan_count q (A - 1)
  have hle := greedyScan_count_le q (A - 1)
  have hA1 : A - 1 + 1 = A := by omega
  rw [hA1] at hle
  have e : greedyRowScan A q = fun a => if (fun i => checkEqualGeneral (q i) (greedyScan q (A - 1)).1) a
      then 1 / (((greedyScan q (A - 1)).2 : Nat) : Rat) else 0 := by
    funext a; simp only [greedyRowScan]
  rw [e, sumTo_indicator_count]
  have hc : (0 : Rat) < (((greedyScan q (A - 1)).2 : Nat) : Rat) := by exact_mod_cast c1
  rw [mul_one_div, le_div_iff₀ hc, one_mul]
  exact_mod_cast hle

/-! ### when the as-found scan is right: separated ties -/

theorem absR_sub_comm (a b : Rat) : absR (a - b) = absR (b - a) := by
  rw [absR_eq, absR_eq, abs_sub_comm]

theorem minR_comm (a b : Rat) : minR a b = minR b a := by
  unfold minR
  by_cases h1 : b < a
  · have : ¬ a < b := not_lt.mpr (le_of_lt h1)
    simp [h1, this]
  · by_cases h2 : a < b
    · simp [h1, h2]
    · have : a = b := le_antisymm (not_lt.mp h1) (not_lt.mp h2)
      simp [this]

theorem checkEqualGeneral_symm (a b : Rat) : checkEqualGeneral a b = checkEqualGeneral b a := by
  unfold checkEqualGeneral checkEqualSmall
  rw [absR_sub_comm a b, minR_comm (absR a) (absR b)]

theorem countTo_eq_zero (p : Nat → Bool) : ∀ n, (∀ i, i < n → p i = false) → countTo n p = 0 := by
  intro n
  induction n with
  | zero => intro _; rfl
  | succ n ih =>
    intro h
    simp only [countTo, ih (fun i hi => h i (by omega)), h n (by omega)]
    simp

/-- ties among the first N+1 entries behave like an equivalence compatible with the order: tied entries are indistinguishable by the
    tie test, and an entry between two tied entries is tied to both.  (Checkable on a concrete row; false exactly on the chains.) -/
structure TiesSeparated (q : Nat → Rat) (N : Nat) : Prop where
  equiv : ∀ i j k, i ≤ N → j ≤ N → k ≤ N → checkEqualGeneral (q i) (q j) = true →
    checkEqualGeneral (q k) (q i) = checkEqualGeneral (q k) (q j)
  between : ∀ i j k, i ≤ N → j ≤ N → k ≤ N → q i ≤ q j → q j ≤ q k → checkEqualGeneral (q i) (q k) = true →
    checkEqualGeneral (q i) (q j) = true ∧ checkEqualGeneral (q j) (q k) = true

/-- on separated rows the as-found scan counts exactly the entries tied to its final maximum -/
theorem greedyScan_count_eq (q : Nat → Rat) (N : Nat) (H : TiesSeparated q N) : ∀ n, n ≤ N →
    (∃ k, k ≤ n ∧ (greedyScan q n).1 = q k) ∧
    (greedyScan q n).2 = countTo (n+1) (fun i => checkEqualGeneral (q i) (greedyScan q n).1) ∧
    ∀ i, i ≤ n → q i ≤ (greedyScan q n).1 ∨ checkEqualGeneral (q i) (greedyScan q n).1 = true := by
  intro n
  induction n with
  | zero =>
    intro _
    refine ⟨⟨0, le_refl 0, rfl⟩, ?_, ?_⟩
    · simp only [greedyScan, countTo, checkEqualGeneral_self]; simp
    · intro i hi
      have : i = 0 := by omega
      subst this
      exact Or.inl (le_refl _)
  | succ n ih =>
    intro hn
    obtain ⟨⟨k0, hk0, hmx⟩, hcnt, hall⟩ := ih (by omega)
    simp only [greedyScan]
    split
    · rename_i htie
      refine ⟨⟨k0, by omega, hmx⟩, ?_, ?_⟩
      · simp only [countTo] at hcnt ⊢
        simp only [htie, if_true]
        omega
      · intro i hi
        by_cases h : i = n + 1
        · subst h; exact Or.inr htie
        · exact hall i (by omega)
    · rename_i hnt
      split
      · rename_i hgt
        have hnt' : checkEqualGeneral (q (n+1)) (q k0) = false := by
          rw [← hmx]; simpa using hnt
        have hgt' : q k0 < q (n+1) := by rw [← hmx]; exact hgt
        have hnone : ∀ i, i < n + 1 → checkEqualGeneral (q i) (q (n+1)) = false := by
          intro i hi
          by_contra hc
          have hc' : checkEqualGeneral (q i) (q (n+1)) = true := by simpa using hc
          rcases hall i (by omega) with hle | ht
          · rw [hmx] at hle
            have := (H.between i k0 (n+1) (by omega) (by omega) hn hle (le_of_lt hgt') hc').2
            rw [checkEqualGeneral_symm] at this
            rw [this] at hnt'; exact absurd hnt' (by simp)
          · rw [hmx] at ht
            have e := H.equiv i k0 (n+1) (by omega) (by omega) hn ht
            rw [checkEqualGeneral_symm (q (n+1)) (q i), hc', hnt'] at e
            exact absurd e (by simp)
        refine ⟨⟨n+1, le_refl _, rfl⟩, ?_, ?_⟩
        · show 1 = countTo (n + 1 + 1) (fun i => checkEqualGeneral (q i) (q (n+1)))
          simp only [countTo]
          have h0 := countTo_eq_zero (fun i => checkEqualGeneral (q i) (q (n+1))) (n+1) hnone
          simp only [countTo] at h0
          simp only [checkEqualGeneral_self, if_true]
          omega
        · intro i hi
          show q i ≤ q (n+1) ∨ checkEqualGeneral (q i) (q (n+1)) = true
          by_cases h : i = n + 1
          · subst h; exact Or.inl (le_refl _)
          · rcases hall i (by omega) with hle | ht
            · rw [hmx] at hle; exact Or.inl (le_trans hle (le_of_lt hgt'))
            · by_cases hle2 : q i ≤ q (n+1)
              · exact Or.inl hle2
              · exfalso
                rw [hmx, checkEqualGeneral_symm] at ht
                have := (H.between k0 (n+1) i (by omega) hn (by omega) (le_of_lt hgt') (le_of_lt (not_le.mp hle2)) ht).1
                rw [checkEqualGeneral_symm] at this
                rw [this] at hnt'; exact absurd hnt' (by simp)
      · rename_i hng
        refine ⟨⟨k0, by omega, hmx⟩, ?_, ?_⟩
        · simp only [countTo] at hcnt ⊢
          have : checkEqualGeneral (q (n+1)) (greedyScan q n).1 = false := by simpa using hnt
          simp only [this]
          simp only [Bool.false_eq_true, if_false, Nat.add_zero]
          exact hcnt
        · intro i hi
          by_cases h : i = n + 1
          · subst h; exact Or.inl (not_lt.mp hng)
          · exact hall i (by omega)

/-- **greedyRowScan_sum_one_of_separated.**  The as-found `getPolicy` row IS a distribution whenever the ties of the row are separated
    (an equivalence compatible with the order) — the defect C01-3 needs a genuine chain. -/
theorem greedyRowScan_sum_one_of_separated (A : Nat) (hA : 0 < A) (q : Nat → Rat) (H : TiesSeparated q (A - 1)) :
    sumTo A (greedyRowScan A q) = 1 := by
  obtain ⟨_, hcnt, _⟩ := greedyScan_count_eq q (A - 1) H (A - 1) (le_refl _)
  obtain ⟨c1, _⟩ := greedyScan_count q (A - 1)
  have hA1 : A - 1 + 1 = A := by omega
  rw [hA1] at hcnt
  have e : greedyRowScan A q = fun a => if (fun i => checkEqualGeneral (q i) (greedyScan q (A - 1)).1) a
      then 1 / (((greedyScan q (A - 1)).2 : Nat) : Rat) else 0 := by
    funext a; simp only [greedyRowScan]
  rw [e, sumTo_indicator_count, ← hcnt]
  have hc : ((((greedyScan q (A - 1)).2 : Nat) : Rat)) ≠ 0 := by
    have : (0 : Rat) < (((greedyScan q (A - 1)).2 : Nat) : Rat) := by exact_mod_cast c1
    exact ne_of_gt this
  field_simp

/-- the hypothesis is satisfiable by a non-trivial row: two exact ties and a clearly smaller entry (test on literals) -/
example : TiesSeparated (fun a => if a = 1 then 0 else 5) 2 := by
  constructor
  · intro i j k hi hj hk
    have h1 : i = 0 ∨ i = 1 ∨ i = 2 := by omega
    have h2 : j = 0 ∨ j = 1 ∨ j = 2 := by omega
    have h3 : k = 0 ∨ k = 1 ∨ k = 2 := by omega
    rcases h1 with rfl | rfl | rfl <;> rcases h2 with rfl | rfl | rfl <;> rcases h3 with rfl | rfl | rfl <;>
      norm_num [checkEqualGeneral, checkEqualSmall, absR, minR, AITB.Gen.equalToleranceSmall, AITB.Gen.equalToleranceGeneral]
  · intro i j k hi hj hk
    have h1 : i = 0 ∨ i = 1 ∨ i = 2 := by omega
    have h2 : j = 0 ∨ j = 1 ∨ j = 2 := by omega
    have h3 : k = 0 ∨ k = 1 ∨ k = 2 := by omega
    rcases h1 with rfl | rfl | rfl <;> rcases h2 with rfl | rfl | rfl <;> rcases h3 with rfl | rfl | rfl <;>
      norm_num [checkEqualGeneral, checkEqualSmall, absR, minR, AITB.Gen.equalToleranceSmall, AITB.Gen.equalToleranceGeneral]

theorem minR_eq_min (a b : Rat) : minR a b = min a b := by
  unfold minR
  by_cases h : b < a
  · simp [h, min_eq_right (le_of_lt h)]
  · simp [h, min_eq_left (not_lt.mp h)]

theorem checkEqualGeneral_iff (a b : Rat) : checkEqualGeneral a b = true ↔
    (|a - b| ≤ AITB.Gen.equalToleranceSmall ∨ |a - b| ≤ min |a| |b| * AITB.Gen.equalToleranceGeneral) := by
  unfold checkEqualGeneral checkEqualSmall
  simp only [Bool.or_eq_true, decide_eq_true_eq, absR_eq, minR_eq_min]

theorem tolGeneral_le_one : AITB.Gen.equalToleranceGeneral ≤ 1 := by norm_num [AITB.Gen.equalToleranceGeneral]

/-- **checkEqualGeneral_between.**  The library's tie test is convex: an entry between two tied entries is tied to both (all rationals). -/
theorem checkEqualGeneral_between (a b c : Rat) (hab : a ≤ b) (hbc : b ≤ c) (h : checkEqualGeneral a c = true) :
    checkEqualGeneral a b = true ∧ checkEqualGeneral b c = true := by
  rw [checkEqualGeneral_iff] at h ⊢
  rw [checkEqualGeneral_iff]
  have g0 := tolGeneral_nonneg
  have g1 := tolGeneral_le_one
  have s0 := tolSmall_pos
  have e1 : |a - b| = b - a := by rw [abs_sub_comm]; exact abs_of_nonneg (by linarith)
  have e2 : |b - c| = c - b := by rw [abs_sub_comm]; exact abs_of_nonneg (by linarith)
  have e3 : |a - c| = c - a := by rw [abs_sub_comm]; exact abs_of_nonneg (by linarith)
  rw [e1, e2]; rw [e3] at h
  rcases h with h | h
  · exact ⟨Or.inl (by linarith), Or.inl (by linarith)⟩
  · rcases le_total 0 a with ha | ha
    · -- 0 ≤ a ≤ b ≤ c
      have hb : 0 ≤ b := le_trans ha hab
      have hc : 0 ≤ c := le_trans hb hbc
      rw [abs_of_nonneg ha, abs_of_nonneg hc, min_eq_left (le_trans hab hbc)] at h
      rw [abs_of_nonneg ha, abs_of_nonneg hb, abs_of_nonneg hc, min_eq_left hab, min_eq_left hbc]
      refine ⟨Or.inr (by linarith), Or.inr ?_⟩
      have : a * AITB.Gen.equalToleranceGeneral ≤ b * AITB.Gen.equalToleranceGeneral := mul_le_mul_of_nonneg_right hab g0
      linarith
    · rcases le_total c 0 with hc | hc
      · -- a ≤ b ≤ c ≤ 0
        have hb : b ≤ 0 := le_trans hbc hc
        rw [abs_of_nonpos ha, abs_of_nonpos hc, min_eq_right (by linarith)] at h
        rw [abs_of_nonpos ha, abs_of_nonpos hb, abs_of_nonpos hc, min_eq_right (by linarith), min_eq_right (by linarith)]
        refine ⟨Or.inr ?_, Or.inr (by linarith)⟩
        have : (-c) * AITB.Gen.equalToleranceGeneral ≤ (-b) * AITB.Gen.equalToleranceGeneral :=
          mul_le_mul_of_nonneg_right (by linarith) g0
        linarith
      · -- a ≤ 0 ≤ c: the relative test can only pass when both are 0
        rw [abs_of_nonpos ha, abs_of_nonneg hc] at h
        have hm : min (-a) c * AITB.Gen.equalToleranceGeneral ≤ min (-a) c := by
          have hmn : 0 ≤ min (-a) c := le_min (by linarith) hc
          nlinarith
        have h1 : min (-a) c ≤ -a := min_le_left _ _
        have h2 : min (-a) c ≤ c := min_le_right _ _
        have hca : c - a ≤ 0 := by
          rcases le_total (-a) c with h3 | h3
          · rw [min_eq_left h3] at hm h; linarith
          · rw [min_eq_right h3] at hm h; linarith
        exact ⟨Or.inl (by linarith), Or.inl (by linarith)⟩

/-- transitivity of the tie test among the first N+1 entries -/
def TiesTransitive (q : Nat → Rat) (N : Nat) : Prop :=
  ∀ i j k, i ≤ N → j ≤ N → k ≤ N → checkEqualGeneral (q i) (q j) = true → checkEqualGeneral (q j) (q k) = true →
    checkEqualGeneral (q i) (q k) = true

theorem tiesSeparated_of_transitive (q : Nat → Rat) (N : Nat) (H : TiesTransitive q N) : TiesSeparated q N := by
  constructor
  · intro i j k hi hj hk hij
    cases h1 : checkEqualGeneral (q k) (q i) <;> cases h2 : checkEqualGeneral (q k) (q j)
    · rfl
    · exfalso
      have := H k j i hk hj hi h2 (by rw [checkEqualGeneral_symm]; exact hij)
      rw [h1] at this; exact absurd this (by simp)
    · exfalso
      have := H k i j hk hi hj h1 hij
      rw [h2] at this; exact absurd this (by simp)
    · rfl
  · intro i j k _ _ _ hij hjk h
    exact checkEqualGeneral_between (q i) (q j) (q k) hij hjk h

/-- **greedyRowScan_sum_one_iff_chainfree (⇐).**  The as-found `getPolicy` row is a distribution on every row whose ties are transitive —
    the only rows on which C01-3 shows are genuine chains a≈b, b≈c, a≉c. -/
theorem greedyRowScan_sum_one_of_transitive (A : Nat) (hA : 0 < A) (q : Nat → Rat) (H : TiesTransitive q (A - 1)) :
    sumTo A (greedyRowScan A q) = 1 :=
  greedyRowScan_sum_one_of_separated A hA q (tiesSeparated_of_transitive q (A - 1) H)

/-- whichever shape the source has: entries of a greedy row are 0 or 1/c for one count c ∈ [1, A] -/
theorem greedyRow_form (A : Nat) (hA : 0 < A) (q : Nat → Rat) :
    ∃ c : Nat, 1 ≤ c ∧ c ≤ A ∧ ∀ a, greedyRow A q a = 0 ∨ greedyRow A q a = 1 / (c : Rat) := by
  unfold greedyRow
  split
  · exact greedyRowMax_form A hA q
  · exact greedyRowScan_form A hA q

/-- whichever shape the source has: a positively weighted action is within twice the tie slack of the row maximum -/
theorem greedyRow_near_max (A : Nat) (hA : 0 < A) (q : Nat → Rat) (B : Rat) (hb : ∀ i, i < A → |q i| ≤ B) (a : Nat)
    (h : greedyRow A q a ≠ 0) : maxTo (A - 1) q - 2 * tieSlack B ≤ q a := by
  unfold greedyRow at h
  split at h
  · have h1 := greedyRowMax_near_max A hA q B hb a h
    obtain ⟨i, hi, hm⟩ := maxTo_attained (A - 1) q
    have hB : 0 ≤ B := le_trans (abs_nonneg _) (hb i (by omega))
    have : 0 ≤ tieSlack B := by
      unfold tieSlack
      have h2 := mul_nonneg tolGeneral_nonneg hB
      linarith [tolSmall_pos]
    linarith
  · exact greedyRowScan_near_max A hA q B hb a h

/-- **greedyRow_valid_of_trueMax.**  Once the source has the repaired shape (`Gen.C01.greedyTrueMaxFirst`, fixes/C01-3) the greedy matrix of
    EVERY Q-function is a stochastic matrix — the hypothesis `hvalid` of `policyIteration_chain` is discharged for all inputs. -/
theorem greedyRow_valid_of_trueMax (hfix : AITB.Gen.C01.greedyTrueMaxFirst = true) (A : Nat) (hA : 0 < A) (q : Nat → Rat) :
    (∀ a, 0 ≤ greedyRow A q a) ∧ sumTo A (greedyRow A q) = 1 := by
  have e : greedyRow A q = greedyRowMax A q := by funext a; simp [greedyRow, hfix]
  rw [e]
  exact ⟨greedyRowMax_nonneg A hA q, greedyRowMax_sum_one A hA q⟩

/-- the as-found scan: a chain a ≈ b ≈ c with a ≉ c, ascending by index, gets weight 1 on b and on c — the row sums to 2.
    (test on literals; this is harness case 7 and the Q rows PolicyIteration meets in harness case 3) -/
def chainRow : Nat → Rat := fun a => if a = 0 then 0 else if a = 1 then 9 / 10000000 else 18 / 10000000

theorem greedyRowScan_chain_counterexample : sumTo 3 (greedyRowScan 3 chainRow) = 2 := by
  norm_num [sumTo, greedyRowScan, greedyScan, chainRow, checkEqualGeneral, checkEqualSmall, absR, minR,
    AITB.Gen.equalToleranceSmall, AITB.Gen.equalToleranceGeneral]

/-- the same row under the repaired shape -/
example : sumTo 3 (greedyRowMax 3 chainRow) = 1 := greedyRowMax_sum_one 3 (by norm_num) chainRow

/-- the chain row of the counterexample is, as it must be, not transitive (test on literals) -/
example : ¬ TiesTransitive chainRow 2 := by
  intro H
  have := H 0 1 2 (by omega) (by omega) (by omega)
    (by norm_num [chainRow, checkEqualGeneral, checkEqualSmall, absR, minR, AITB.Gen.equalToleranceSmall, AITB.Gen.equalToleranceGeneral])
    (by norm_num [chainRow, checkEqualGeneral, checkEqualSmall, absR, minR, AITB.Gen.equalToleranceSmall, AITB.Gen.equalToleranceGeneral])
  revert this
  norm_num [chainRow, checkEqualGeneral, checkEqualSmall, absR, minR, AITB.Gen.equalToleranceSmall, AITB.Gen.equalToleranceGeneral]


/-! ### discreteness: two greedy rows that agree entrywise within equalToleranceSmall are equal -/

theorem recip_eq_of_close (A c d : Nat) (t : Rat) (hc1 : 1 ≤ c) (hcA : c ≤ A) (hd1 : 1 ≤ d) (hdA : d ≤ A)
    (hA2 : (A : Rat) * A * t < 1) (h : |1 / (c : Rat) - 1 / (d : Rat)| ≤ t) : c = d := by
  by_contra hne
  have hcq : (0 : Rat) < c := by exact_mod_cast hc1
  have hdq : (0 : Rat) < d := by exact_mod_cast hd1
  have hid : 1 / (c : Rat) - 1 / (d : Rat) = ((d : Rat) - c) / (c * d) := by field_simp
  have hx : |(d : Rat) - c| = |1 / (c : Rat) - 1 / (d : Rat)| * ((c : Rat) * d) := by
    have e : (d : Rat) - c = (1 / (c : Rat) - 1 / (d : Rat)) * ((c : Rat) * d) := by rw [hid]; field_simp
    rw [e, abs_mul, abs_of_pos (mul_pos hcq hdq)]
  have t0 : 0 ≤ t := le_trans (abs_nonneg _) h
  have hcd : (c : Rat) * d ≤ (A : Rat) * A :=
    mul_le_mul (by exact_mod_cast hcA) (by exact_mod_cast hdA) (le_of_lt hdq) (Nat.cast_nonneg A)
  have h1 : |(d : Rat) - c| ≤ t * ((A : Rat) * A) := by
    rw [hx]
    calc _ ≤ t * ((c : Rat) * d) := mul_le_mul_of_nonneg_right h (le_of_lt (mul_pos hcq hdq))
      _ ≤ t * ((A : Rat) * A) := mul_le_mul_of_nonneg_left hcd t0
  have hge : (1 : Rat) ≤ |(d : Rat) - c| := by
    rcases Nat.lt_or_gt_of_ne hne with h' | h'
    · have : (c : Rat) + 1 ≤ d := by exact_mod_cast h'
      exact le_trans (by linarith) (le_abs_self _)
    · have : (d : Rat) + 1 ≤ c := by exact_mod_cast h'
      rw [abs_sub_comm]
      exact le_trans (by linarith) (le_abs_self _)
  have : t * ((A : Rat) * A) = (A : Rat) * A * t := by ring
  linarith

theorem rows_equal_of_close (A : Nat) (t : Rat) (hA2 : (A : Rat) * A * t < 1) (x y : Nat → Rat) (c d : Nat)
    (hc1 : 1 ≤ c) (hcA : c ≤ A) (hd1 : 1 ≤ d) (hdA : d ≤ A)
    (hx : ∀ a, x a = 0 ∨ x a = 1 / (c : Rat)) (hy : ∀ a, y a = 0 ∨ y a = 1 / (d : Rat))
    (hcl : ∀ a, a < A → |x a - y a| ≤ t) : ∀ a, a < A → x a = y a := by
  have small : ∀ e : Nat, 1 ≤ e → e ≤ A → t < 1 / (e : Rat) := by
    intro e he1 heA
    have heq : (0 : Rat) < e := by exact_mod_cast he1
    rw [lt_div_iff₀ heq]
    by_cases ht : 0 ≤ t
    · have h1 : (e : Rat) ≤ A := by exact_mod_cast heA
      have h2 : (1 : Rat) ≤ A := le_trans (by exact_mod_cast he1) h1
      have h3 : t * e ≤ t * A := mul_le_mul_of_nonneg_left h1 ht
      have h5 : 0 ≤ t * A := mul_nonneg ht (by linarith)
      have h4 : t * A ≤ t * A * A := by nlinarith [mul_nonneg h5 (sub_nonneg.mpr h2)]
      have h6 : t * A * A = (A : Rat) * A * t := by ring
      linarith
    · nlinarith
  intro a ha
  have hcla := hcl a ha
  rcases hx a with h0 | h1 <;> rcases hy a with g0 | g1
  · rw [h0, g0]
  · exfalso
    rw [h0, g1, zero_sub, abs_neg] at hcla
    have hdq : (0 : Rat) < d := by exact_mod_cast hd1
    rw [abs_of_pos (one_div_pos.mpr hdq)] at hcla
    linarith [small d hd1 hdA]
  · exfalso
    rw [h1, g0, sub_zero] at hcla
    have hcq : (0 : Rat) < c := by exact_mod_cast hc1
    rw [abs_of_pos (one_div_pos.mpr hcq)] at hcla
    linarith [small c hc1 hcA]
  · rw [h1, g1] at hcla ⊢
    rw [recip_eq_of_close A c d t hc1 hcA hd1 hdA hA2 hcla]

theorem matDiffers_false {S A : Nat} {x y : Mat} (h : matDiffers S A x y = false) :
    ∀ s a, s < S → a < A → |x.get s a - y.get s a| ≤ AITB.Gen.equalToleranceSmall := by
  intro s a hs ha
  unfold matDiffers at h
  rw [List.any_eq_false] at h
  have h1 := h s (List.mem_range.mpr hs)
  simp only [Bool.not_eq_true] at h1
  rw [List.any_eq_false] at h1
  have h2 := h1 a (List.mem_range.mpr ha)
  simp only [Bool.not_eq_true, checkDifferentSmall, Bool.not_eq_false'] at h2
  exact checkEqualSmall_bound _ _ h2

/-- stability of the greedy matrix within the library tolerance means the two greedy policies are the same matrix -/
theorem greedy_stable_eq (S A : Nat) (hA : 0 < A) (hA2 : (A : Rat) * A * AITB.Gen.equalToleranceSmall < 1) (q q' : Mat)
    (h : matDiffers S A (greedyPolicy S A q) (greedyPolicy S A q') = false) :
    ∀ s a, s < S → a < A → (greedyPolicy S A q).get s a = (greedyPolicy S A q').get s a := by
  intro s a hs ha
  obtain ⟨c, hc1, hcA, hx⟩ := greedyRow_form A hA (q.get s)
  obtain ⟨d, hd1, hdA, hy⟩ := greedyRow_form A hA (q'.get s)
  have hcl : ∀ b, b < A → |greedyRow A (q.get s) b - greedyRow A (q'.get s) b| ≤ AITB.Gen.equalToleranceSmall := by
    intro b hb
    have := matDiffers_false h s b hs hb
    unfold greedyPolicy at this
    rwa [mkMat_get _ hs hb, mkMat_get _ hs hb] at this
  unfold greedyPolicy
  rw [mkMat_get _ hs ha, mkMat_get _ hs ha]
  exact rows_equal_of_close A _ hA2 _ _ c d hc1 hcA hd1 hdA hx hy hcl a ha

/-! ### the last evaluation sweep of any PolicyEvaluation run -/

def PEInv (m : MDP) (p : Mat) (useTol : Bool) (st : PEState) : Prop :=
  st.timestep = 0 ∨ ∃ prev : Nat → Rat,
    (∀ s, s < m.S → st.v.get s = bellmanPi m p.get prev s) ∧
    (∀ s a, s < m.S → a < m.A → st.q.get s a = qBackup m prev s a) ∧
    (useTol = true → st.variation = maxAbsDiff m.S st.v.get prev)

theorem peLoop_inv (m : MDP) (rep : Rep) (hrep : RepOK m rep) (useTol : Bool) (tol : Rat) (p : Mat) :
    ∀ (fuel : Nat) (st : PEState), st.v.size = m.S → PEInv m p useTol st →
      PEInv m p useTol (peLoop m rep (immRewards m rep) useTol tol p fuel st) ∧
      st.timestep ≤ (peLoop m rep (immRewards m rep) useTol tol p fuel st).timestep ∧
      ((useTol = false ∨ tol < st.variation) → 0 < fuel →
          st.timestep < (peLoop m rep (immRewards m rep) useTol tol p fuel st).timestep) ∧
      (useTol = true → (peLoop m rep (immRewards m rep) useTol tol p fuel st).variation ≤ tol ∨
          (peLoop m rep (immRewards m rep) useTol tol p fuel st).timestep = st.timestep + fuel) := by
  intro fuel
  induction fuel with
  | zero => intro st _ hinv; exact ⟨hinv, le_refl _, fun _ h => absurd h (lt_irrefl 0), fun _ => Or.inr rfl⟩
  | succ fuel ih =>
    intro st hv hinv
    by_cases hstop : (useTol && !(decide (st.variation > tol))) = true
    · have e : peLoop m rep (immRewards m rep) useTol tol p (fuel+1) st = st := by
        conv => lhs; unfold peLoop
        simp only [hstop, if_true]
      rw [e]
      simp only [Bool.and_eq_true, Bool.not_eq_true', decide_eq_false_iff_not, not_lt] at hstop
      refine ⟨hinv, le_refl _, ?_, fun _ => Or.inl hstop.2⟩
      intro hc _
      rcases hc with hc | hc
      · rw [hc] at hstop; exact absurd hstop.1 (by simp)
      · exact absurd hc (not_lt.mpr hstop.2)
    · have e : peLoop m rep (immRewards m rep) useTol tol p (fuel+1) st
          = peLoop m rep (immRewards m rep) useTol tol p fuel (peStep m rep (immRewards m rep) useTol p st) := by
        conv => lhs; unfold peLoop
        simp only [hstop, Bool.false_eq_true, if_false]
      obtain ⟨hv', hval, hq, hts, hvar⟩ := peStep_spec m rep hrep useTol p st hv
      have hinv' : PEInv m p useTol (peStep m rep (immRewards m rep) useTol p st) :=
        Or.inr ⟨st.v.get, hval, hq, fun hu => by rw [hvar, hu]; simp⟩
      obtain ⟨i1, i2, _, i4⟩ := ih _ hv' hinv'
      rw [e]
      refine ⟨i1, by omega, fun _ _ => by omega, fun hu => ?_⟩
      rcases i4 hu with h | h
      · exact Or.inl h
      · exact Or.inr (by rw [h, hts]; omega)

/-- whatever the start vector and the tolerance setting, a PolicyEvaluation call with horizon ≥ 1 ends on a sweep from some
    vector `prev`: v = B_π prev, q = Q^prev, and (tolerance runs) variation = ‖v − prev‖∞ ≤ tol unless all sweeps were used -/
theorem policyEvaluation_last (m : MDP) (rep : Rep) (hrep : RepOK m rep) (h : Nat) (hh : 0 < h) (tol : Rat)
    (htol : useTolerance tol = false ∨ 0 < tol) (vParam : Option Vec) (p : Mat) :
    ∃ prev : Nat → Rat,
      (∀ s, s < m.S → (policyEvaluation m rep h tol vParam p).v.get s = bellmanPi m p.get prev s) ∧
      (∀ s a, s < m.S → a < m.A → (policyEvaluation m rep h tol vParam p).q.get s a = qBackup m prev s a) ∧
      (useTolerance tol = true →
        (policyEvaluation m rep h tol vParam p).variation = maxAbsDiff m.S (policyEvaluation m rep h tol vParam p).v.get prev ∧
        ((policyEvaluation m rep h tol vParam p).variation ≤ tol ∨ (policyEvaluation m rep h tol vParam p).timestep = h)) := by
  have hstart : ∃ v1 : Vec, v1.size = m.S ∧ policyEvaluation m rep h tol vParam p =
      ⟨if useTolerance tol then (peLoop m rep (immRewards m rep) (useTolerance tol) tol p h ⟨v1, makeQ m.S m.A, tol * 2, 0⟩).variation else 0,
       (peLoop m rep (immRewards m rep) (useTolerance tol) tol p h ⟨v1, makeQ m.S m.A, tol * 2, 0⟩).v,
       (peLoop m rep (immRewards m rep) (useTolerance tol) tol p h ⟨v1, makeQ m.S m.A, tol * 2, 0⟩).q,
       (peLoop m rep (immRewards m rep) (useTolerance tol) tol p h ⟨v1, makeQ m.S m.A, tol * 2, 0⟩).timestep⟩ := by
    cases vParam with
    | none => exact ⟨_, mkVec_size _ _, rfl⟩
    | some v =>
      by_cases hv : v.size = m.S
      · refine ⟨v, hv, ?_⟩
        simp only [policyEvaluation, hv, bne_self_eq_false, Bool.false_eq_true, if_false]
      · refine ⟨mkVec m.S (fun _ => 0), mkVec_size _ _, ?_⟩
        have hb : (v.size != m.S) = true := by simpa using hv
        simp only [policyEvaluation, hb, if_true]
  obtain ⟨v1, hv1, he⟩ := hstart
  obtain ⟨hinv, _, hprog, hstop⟩ := peLoop_inv m rep hrep (useTolerance tol) tol p h ⟨v1, makeQ m.S m.A, tol * 2, 0⟩ hv1 (Or.inl rfl)
  have hstep := hprog (by
    rcases htol with h0 | h0
    · exact Or.inl h0
    · exact Or.inr (by show tol < tol * 2; linarith)) hh
  rcases hinv with h0 | ⟨prev, hp1, hp2, hp3⟩
  · simp only at hstep; omega
  · refine ⟨prev, ?_, ?_, ?_⟩
    · intro s hs; rw [he]; exact hp1 s hs
    · intro s a hs ha; rw [he]; exact hp2 s a hs ha
    · intro hu
      rw [he]
      simp only
      rw [if_pos hu]
      refine ⟨hp3 hu, ?_⟩
      rcases hstop hu with h1 | h1
      · exact Or.inl h1
      · exact Or.inr (by rw [h1]; simp)

/-! ### the PolicyIteration chain -/

/-- values PolicyIteration's caller reads off the returned Q-function -/
def piValues (m : MDP) (q : Mat) (s : Nat) : Rat := maxTo (m.A - 1) (q.get s)

/-- **policyIteration_chain.**  If the modelled loop terminates (`= some st`) then the returned Q-function is the Q-function of
    the last evaluation sweep, and — provided the greedy matrix of the *returned* Q is a coherent distribution (checkable on the
    output) — `V = max_a Q` satisfies the Bellman optimality equation within γ(ε + τ), where ε is the last sweep's variation
    (≤ tol for a tolerance run unless the horizon was exhausted) and τ any bound on how far positively weighted actions are
    below the row maximum. -/
theorem policyIteration_chain (m : MDP) (rep : Rep) (hrep : RepOK m rep) (hA : 0 < m.A) (hγ0 : 0 ≤ m.γ) (hT : ValidT m)
    (h : Nat) (hh : 0 < h) (tol : Rat) (htol : useTolerance tol = false ∨ 0 < tol)
    (hA2 : (m.A : Rat) * m.A * AITB.Gen.equalToleranceSmall < 1)
    (fuel : Nat) (st : PIState) (hres : policyIteration m rep h tol fuel = some st)
    (hvalid : ValidPi m (greedyPolicy m.S m.A st.qfun).get) :
    ∃ prev : PIState,
      st.qfun = (policyEvaluation m rep h tol prev.vParam (greedyPolicy m.S m.A prev.qfun)).q ∧
      ∃ ε : Rat, 0 ≤ ε ∧
        (useTolerance tol = true →
          ε = (policyEvaluation m rep h tol prev.vParam (greedyPolicy m.S m.A prev.qfun)).variation ∧
          (ε ≤ tol ∨ (policyEvaluation m rep h tol prev.vParam (greedyPolicy m.S m.A prev.qfun)).timestep = h)) ∧
        ∀ τ : Rat,
          (∀ s a, s < m.S → a < m.A → (greedyPolicy m.S m.A st.qfun).get s a ≠ 0 → piValues m st.qfun s - τ ≤ st.qfun.get s a) →
          ∀ s, s < m.S → |bellman m (piValues m st.qfun) s - piValues m st.qfun s| ≤ m.γ * (ε + τ) := by
  have hinv0 : PIInv m ⟨makeQ m.S m.A, greedyPolicy m.S m.A (makeQ m.S m.A), none, 0⟩ := rfl
  obtain ⟨prev, _, hq, hstab⟩ := piLoop_result m rep h tol fuel _ st hinv0 hres
  refine ⟨prev, hq, ?_⟩
  obtain ⟨v', hv1, hv2, hv3⟩ := policyEvaluation_last m rep hrep h hh tol htol prev.vParam (greedyPolicy m.S m.A prev.qfun)
  have hsame := greedy_stable_eq m.S m.A hA hA2 prev.qfun st.qfun hstab
  refine ⟨maxAbsDiff m.S (policyEvaluation m rep h tol prev.vParam (greedyPolicy m.S m.A prev.qfun)).v.get v', ?_, ?_, ?_⟩
  · by_cases hS : 0 < m.S
    · obtain ⟨s, _, hs⟩ := maxAbsDiff_attained m.S hS (policyEvaluation m rep h tol prev.vParam (greedyPolicy m.S m.A prev.qfun)).v.get v'
      rw [hs]; exact abs_nonneg _
    · have : m.S = 0 := by omega
      unfold maxAbsDiff maxTo; rw [this]; simp [absR_eq]
  · intro hu
    obtain ⟨e1, e2⟩ := hv3 hu
    exact ⟨e1.symm, by rw [← e1]; exact e2⟩
  · intro τ hτ s hs
    have hVeq : ∀ u, u < m.S → piValues m st.qfun u = bellman m v' u := by
      intro u hu
      unfold piValues bellman
      apply maxTo_congr
      intro a ha
      rw [hq]; exact hv2 u a hu (by omega)
    have hb := pi_stop_bound m hA hγ0 hT (greedyPolicy m.S m.A st.qfun).get hvalid
      (policyEvaluation m rep h tol prev.vParam (greedyPolicy m.S m.A prev.qfun)).v.get v'
      (maxAbsDiff m.S (policyEvaluation m rep h tol prev.vParam (greedyPolicy m.S m.A prev.qfun)).v.get v') τ
      (by
        intro u hu
        rw [hv1 u hu]
        unfold bellmanPi
        apply sumTo_congr
        intro a ha
        rw [hsame u a hu ha])
      (fun u hu => maxAbsDiff_ge m.S _ _ u hu)
      (by
        intro u a hu ha hne
        have := hτ u a hu ha hne
        rw [hVeq u hu, hq, hv2 u a hu ha] at this
        exact this)
      s hs
    rw [bellman_congr m hVeq s, hVeq s hs]
    exact hb


/-- **policyIteration_chain_fixed.**  With the repaired `getPolicy` in the source the coherence hypothesis disappears: for EVERY MDP,
    horizon and tolerance, if the modelled loop terminates then `V = max_a Q` of the returned Q satisfies the optimality equation within
    γ(ε + 2·tieSlack B) (B any bound on |Q|), ε the last sweep's variation. -/
theorem policyIteration_chain_fixed (hfix : AITB.Gen.C01.greedyTrueMaxFirst = true)
    (m : MDP) (rep : Rep) (hrep : RepOK m rep) (hA : 0 < m.A) (hγ0 : 0 ≤ m.γ) (hT : ValidT m)
    (h : Nat) (hh : 0 < h) (tol : Rat) (htol : useTolerance tol = false ∨ 0 < tol)
    (hA2 : (m.A : Rat) * m.A * AITB.Gen.equalToleranceSmall < 1)
    (fuel : Nat) (st : PIState) (hres : policyIteration m rep h tol fuel = some st)
    (B : Rat) (hB : ∀ s a, s < m.S → a < m.A → |st.qfun.get s a| ≤ B) :
    ∃ ε : Rat, 0 ≤ ε ∧
      ∀ s, s < m.S → |bellman m (piValues m st.qfun) s - piValues m st.qfun s| ≤ m.γ * (ε + 2 * tieSlack B) := by
  have hvalid : ValidPi m (greedyPolicy m.S m.A st.qfun).get := by
    refine ⟨?_, ?_⟩
    · intro s a
      by_cases hs : s < m.S
      · by_cases ha : a < m.A
        · unfold greedyPolicy
          rw [mkMat_get _ hs ha]
          exact (greedyRow_valid_of_trueMax hfix m.A hA (st.qfun.get s)).1 a
        · simp [greedyPolicy, mkMat, Mat.get, Array.getD, hs, ha]
      · simp [greedyPolicy, mkMat, Mat.get, Array.getD, hs]
    · intro s hs
      rw [← (greedyRow_valid_of_trueMax hfix m.A hA (st.qfun.get s)).2]
      apply sumTo_congr
      intro a ha
      unfold greedyPolicy
      rw [mkMat_get _ hs ha]
  obtain ⟨prev, _, ε, hε, _, hall⟩ := policyIteration_chain m rep hrep hA hγ0 hT h hh tol htol hA2 fuel st hres hvalid
  refine ⟨ε, hε, ?_⟩
  apply hall (2 * tieSlack B)
  intro s a hs ha hne
  unfold greedyPolicy at hne
  rw [mkMat_get _ hs ha] at hne
  unfold piValues
  exact greedyRow_near_max m.A hA (st.qfun.get s) B (fun i hi => hB s i hs hi) a hne

theorem greedyRowScan_nonneg (A : Nat) (hA : 0 < A) (q : Nat → Rat) (a : Nat) : 0 ≤ greedyRowScan A q a := by
  obtain ⟨c, hc1, _, hx⟩ := greedyRowScan_form A hA q
  rcases hx a with h0 | h1
  · rw [h0]
  · rw [h1]
    have : (0 : Rat) < c := by exact_mod_cast hc1
    exact le_of_lt (one_div_pos.mpr this)

/-- the greedy matrix is a stochastic matrix if the source has the repaired shape, or (as found) if every row's ties are transitive -/
theorem greedyPolicy_valid (m : MDP) (hA : 0 < m.A) (q : Mat)
    (h : AITB.Gen.C01.greedyTrueMaxFirst = true ∨ ∀ s, s < m.S → TiesTransitive (q.get s) (m.A - 1)) :
    ValidPi m (greedyPolicy m.S m.A q).get := by
  have key : ∀ s, s < m.S → (∀ a, 0 ≤ greedyRow m.A (q.get s) a) ∧ sumTo m.A (greedyRow m.A (q.get s)) = 1 := by
    intro s hs
    by_cases hf : AITB.Gen.C01.greedyTrueMaxFirst = true
    · exact greedyRow_valid_of_trueMax hf m.A hA (q.get s)
    · have hH : ∀ s, s < m.S → TiesTransitive (q.get s) (m.A - 1) := by
        rcases h with h | h
        · exact absurd h hf
        · exact h
      have e : greedyRow m.A (q.get s) = greedyRowScan m.A (q.get s) := by
        funext a; simp [greedyRow, hf]
      rw [e]
      exact ⟨greedyRowScan_nonneg m.A hA (q.get s), greedyRowScan_sum_one_of_transitive m.A hA (q.get s) (hH s hs)⟩
  refine ⟨?_, ?_⟩
  · intro s a
    by_cases hs : s < m.S
    · by_cases ha : a < m.A
      · unfold greedyPolicy
        rw [mkMat_get _ hs ha]
        exact (key s hs).1 a
      · simp [greedyPolicy, mkMat, Mat.get, Array.getD, hs, ha]
    · simp [greedyPolicy, mkMat, Mat.get, Array.getD, hs]
  · intro s hs
    rw [← (key s hs).2]
    apply sumTo_congr
    intro a ha
    unfold greedyPolicy
    rw [mkMat_get _ hs ha]

/-- **policyIteration_chain_full.**  For every MDP, horizon and tolerance: if the modelled loop terminates, then `V = max_a Q` of the returned Q
    satisfies the optimality equation within γ(ε + 2·tieSlack B) — unconditionally once the source has the repaired `getPolicy`, and for the
    source as found whenever the returned Q has no tie chain (the `_partial` form; `greedyRowScan_chain_counterexample` shows the hypothesis is needed). -/
theorem policyIteration_chain_full (m : MDP) (rep : Rep) (hrep : RepOK m rep) (hA : 0 < m.A) (hγ0 : 0 ≤ m.γ) (hT : ValidT m)
    (h : Nat) (hh : 0 < h) (tol : Rat) (htol : useTolerance tol = false ∨ 0 < tol)
    (hA2 : (m.A : Rat) * m.A * AITB.Gen.equalToleranceSmall < 1)
    (fuel : Nat) (st : PIState) (hres : policyIteration m rep h tol fuel = some st)
    (hties : AITB.Gen.C01.greedyTrueMaxFirst = true ∨ ∀ s, s < m.S → TiesTransitive (st.qfun.get s) (m.A - 1))
    (B : Rat) (hB : ∀ s a, s < m.S → a < m.A → |st.qfun.get s a| ≤ B) :
    ∃ ε : Rat, 0 ≤ ε ∧
      ∀ s, s < m.S → |bellman m (piValues m st.qfun) s - piValues m st.qfun s| ≤ m.γ * (ε + 2 * tieSlack B) := by
  have hvalid := greedyPolicy_valid m hA st.qfun hties
  obtain ⟨prev, _, ε, hε, _, hall⟩ := policyIteration_chain m rep hrep hA hγ0 hT h hh tol htol hA2 fuel st hres hvalid
  refine ⟨ε, hε, ?_⟩
  apply hall (2 * tieSlack B)
  intro s a hs ha hne
  unfold greedyPolicy at hne
  rw [mkMat_get _ hs ha] at hne
  unfold piValues
  exact greedyRow_near_max m.A hA (st.qfun.get s) B (fun i hi => hB s i hs hi) a hne

/-! ### planners agree, without assuming that a fixed point exists -/

/-- one-sided LP bound against an *approximate* solution: a δ-feasible point lies above any W with ‖BW − W‖∞ ≤ r up to (δ+r)/(1−γ) -/
theorem lp_feasible_ge_approx (m : MDP) (rep : Rep) (hrep : RepOK m rep) (hA : 0 < m.A) (hγ0 : 0 ≤ m.γ) (hγ1 : m.γ < 1)
    (hT : ValidT m) (V W : Nat → Rat) (δ r : Rat) (hV : LpFeasible m rep V δ)
    (hW : ∀ s, s < m.S → |bellman m W s - W s| ≤ r) :
    ∀ s, s < m.S → W s - (δ + r) / (1 - m.γ) ≤ V s := by
  intro s hs
  obtain ⟨t, ht, hD⟩ := maxTo_attained (m.S - 1) (fun u => W u - V u)
  have hle : ∀ u, u < m.S → W u - V u ≤ maxTo (m.S - 1) (fun u => W u - V u) :=
    fun u hu => maxTo_ge (m.S - 1) (fun u => W u - V u) u (by omega)
  have ht' : t < m.S := by omega
  obtain ⟨a, ha, hmax⟩ := maxTo_attained (m.A - 1) (qBackup m W t)
  have ha' : a < m.A := by omega
  have hWt : W t ≤ qBackup m W t a + r := by
    have h1 := hW t ht'
    rw [abs_le] at h1
    have : bellman m W t = qBackup m W t a := hmax
    linarith [h1.1]
  have hfe := hV t a ht' ha'
  rw [lpSlack_eq m rep hrep V ht' ha'] at hfe
  have hdiff : qBackup m W t a - qBackup m V t a ≤ m.γ * maxTo (m.S - 1) (fun u => W u - V u) := by
    unfold qBackup
    have e : m.R t a + sumTo m.S (fun s1 => m.T t a s1 * (W s1 * m.γ)) - (m.R t a + sumTo m.S (fun s1 => m.T t a s1 * (V s1 * m.γ)))
        = m.γ * sumTo m.S (fun s1 => m.T t a s1 * (W s1 - V s1)) := by
      rw [← sumTo_mul_left]
      have : sumTo m.S (fun s1 => m.T t a s1 * (W s1 * m.γ))
          = sumTo m.S (fun s1 => m.T t a s1 * (V s1 * m.γ) + m.γ * (m.T t a s1 * (W s1 - V s1))) := by
        apply sumTo_congr; intro i _; ring
      rw [this, sumTo_add]; ring
    rw [e]
    exact mul_le_mul_of_nonneg_left (weighted_le m hT (fun u => W u - V u) _ hle t a) hγ0
  have hpos : 0 < 1 - m.γ := by linarith
  have hDle : maxTo (m.S - 1) (fun u => W u - V u) ≤ (δ + r) / (1 - m.γ) := by
    rw [le_div_iff₀ hpos]
    have : maxTo (m.S - 1) (fun u => W u - V u) = W t - V t := hD
    nlinarith
  have := hle s hs
  linarith

/-- **planners_agree.**  Take the three planners' outputs on the same MDP (γ < 1, valid T), no fixed point assumed:
    * VI run with tolerance tolVI > 0 that stopped by tolerance (not by horizon),
    * a terminated PolicyIteration run whose last evaluation stopped by tolerance tolPI, coherent greedy matrix, |Q| ≤ B,
    * any LP answer `Vlp` whose Bellman residual is ≤ rLP (what the checker measures on lp_solve's output).
    Then, pointwise on the S states,
      |V_vi − V_pi| ≤ γ(tolVI + tolPI + 2·tieSlack B)/(1−γ),
      |V_vi − V_lp| ≤ (γ·tolVI + rLP)/(1−γ),   |V_pi − V_lp| ≤ (γ(tolPI + 2·tieSlack B) + rLP)/(1−γ). -/
theorem planners_agree (m : MDP) (rep : Rep) (hrep : RepOK m rep) (hA : 0 < m.A) (hγ0 : 0 ≤ m.γ) (hγ1 : m.γ < 1) (hT : ValidT m)
    (hA2 : (m.A : Rat) * m.A * AITB.Gen.equalToleranceSmall < 1)
    -- value iteration
    (hVI : Nat) (hhVI : 0 < hVI) (tolVI : Rat) (htVI0 : 0 < tolVI) (htVI : useTolerance tolVI = true)
    (hVIconv : (valueIteration m rep hVI tolVI none).timestep < hVI)
    -- policy iteration
    (hPI : Nat) (hhPI : 0 < hPI) (tolPI : Rat) (htPI0 : 0 < tolPI) (htPI : useTolerance tolPI = true) (fuel : Nat) (st : PIState)
    (hres : policyIteration m rep hPI tolPI fuel = some st)
    (hPIconv : ∀ prev : PIState, (policyEvaluation m rep hPI tolPI prev.vParam (greedyPolicy m.S m.A prev.qfun)).timestep < hPI)
    (hvalid : ValidPi m (greedyPolicy m.S m.A st.qfun).get)
    (B : Rat) (hB : ∀ s a, s < m.S → a < m.A → |st.qfun.get s a| ≤ B)
    -- linear programming
    (Vlp : Nat → Rat) (rLP : Rat) (hLP : ∀ s, s < m.S → |bellman m Vlp s - Vlp s| ≤ rLP) :
    let Vvi := (valueIteration m rep hVI tolVI none).vf.values.get
    let Vpi := piValues m st.qfun
    (∀ s, s < m.S → |Vvi s - Vpi s| ≤ (m.γ * tolVI + m.γ * (tolPI + 2 * tieSlack B)) / (1 - m.γ)) ∧
    (∀ s, s < m.S → |Vvi s - Vlp s| ≤ (m.γ * tolVI + rLP) / (1 - m.γ)) ∧
    (∀ s, s < m.S → |Vpi s - Vlp s| ≤ (m.γ * (tolPI + 2 * tieSlack B) + rLP) / (1 - m.γ)) := by
  intro Vvi Vpi
  -- VI residual
  obtain ⟨hstop, hresVI, _⟩ := vi_stop_bound m rep hrep hA hγ0 hγ1 hT hVI hhVI tolVI htVI0 htVI
  have hvar : (valueIteration m rep hVI tolVI none).variation ≤ tolVI := by
    rcases hstop with h | h
    · exact h
    · omega
  have rVI : ∀ s, s < m.S → |bellman m Vvi s - Vvi s| ≤ m.γ * tolVI := fun s hs =>
    le_trans (hresVI s hs) (mul_le_mul_of_nonneg_left hvar hγ0)
  -- PI residual
  obtain ⟨prev, _, ε, _, hε, hchain⟩ := policyIteration_chain m rep hrep hA hγ0 hT hPI hhPI tolPI (Or.inr htPI0) hA2 fuel st hres hvalid
  have hεtol : ε ≤ tolPI := by
    obtain ⟨_, h2⟩ := hε htPI
    rcases h2 with h | h
    · exact h
    · have := hPIconv prev; omega
  have rPI : ∀ s, s < m.S → |bellman m Vpi s - Vpi s| ≤ m.γ * (tolPI + 2 * tieSlack B) := by
    intro s hs
    have hτ : ∀ s a, s < m.S → a < m.A → (greedyPolicy m.S m.A st.qfun).get s a ≠ 0 →
        piValues m st.qfun s - 2 * tieSlack B ≤ st.qfun.get s a := by
      intro u a hu ha hne
      unfold greedyPolicy at hne
      rw [mkMat_get _ hu ha] at hne
      exact greedyRow_near_max m.A hA (st.qfun.get u) B (fun i hi => hB u i hu hi) a hne
    have := hchain (2 * tieSlack B) hτ s hs
    exact le_trans this (mul_le_mul_of_nonneg_left (by linarith) hγ0)
  exact ⟨approx_fixed_points_close m hγ0 hγ1 hT Vvi Vpi _ _ rVI rPI,
         approx_fixed_points_close m hγ0 hγ1 hT Vvi Vlp _ _ rVI hLP,
         approx_fixed_points_close m hγ0 hγ1 hT Vpi Vlp _ _ rPI hLP⟩

/-- **policyIteration_exact_optimal.**  Terminated run, last sweep with variation exactly 0 (the evaluation reached the exact
    value of the policy) and every positively weighted action an exact row maximiser (no near-ties): `max_a Q` solves the
    Bellman optimality equation — it is V*. -/
theorem policyIteration_exact_optimal (m : MDP) (rep : Rep) (hrep : RepOK m rep) (hA : 0 < m.A) (hγ0 : 0 ≤ m.γ) (hT : ValidT m)
    (h : Nat) (hh : 0 < h) (tol : Rat) (htol0 : 0 < tol) (htol : useTolerance tol = true)
    (hA2 : (m.A : Rat) * m.A * AITB.Gen.equalToleranceSmall < 1)
    (fuel : Nat) (st : PIState) (hres : policyIteration m rep h tol fuel = some st)
    (hvalid : ValidPi m (greedyPolicy m.S m.A st.qfun).get)
    (hexact : ∀ prev : PIState, (policyEvaluation m rep h tol prev.vParam (greedyPolicy m.S m.A prev.qfun)).variation = 0)
    (hties : ∀ s a, s < m.S → a < m.A → (greedyPolicy m.S m.A st.qfun).get s a ≠ 0 → st.qfun.get s a = piValues m st.qfun s) :
    IsFixedPoint m (piValues m st.qfun) := by
  obtain ⟨prev, _, ε, _, hε, hchain⟩ := policyIteration_chain m rep hrep hA hγ0 hT h hh tol (Or.inr htol0) hA2 fuel st hres hvalid
  have hε0 : ε = 0 := by rw [(hε htol).1]; exact hexact prev
  intro s hs
  have := hchain 0 (fun u a hu ha hne => by rw [hties u a hu ha hne]; linarith) s hs
  rw [hε0] at this
  simp only [add_zero, mul_zero] at this
  have h0 := abs_nonneg (bellman m (piValues m st.qfun) s - piValues m st.qfun s)
  have : |bellman m (piValues m st.qfun) s - piValues m st.qfun s| = 0 := le_antisymm this h0
  linarith [abs_eq_zero.mp this]

/-! ### idealised policy iteration (exact evaluation): monotone improvement, no policy revisited before optimality -/

/-- `V` is the exact value of the stochastic policy `p` -/
def IsValueOf (m : MDP) (p : Nat → Nat → Rat) (V : Nat → Rat) : Prop := ∀ s, s < m.S → V s = bellmanPi m p V s
/-- `p` puts weight only on maximisers of Q^V -/
def GreedyFor (m : MDP) (p : Nat → Nat → Rat) (V : Nat → Rat) : Prop :=
  ∀ s a, s < m.S → a < m.A → p s a ≠ 0 → qBackup m V s a = bellman m V s

theorem bellmanPi_greedy (m : MDP) (p : Nat → Nat → Rat) (hp : ValidPi m p) (V : Nat → Rat) (hg : GreedyFor m p V) :
    ∀ s, s < m.S → bellmanPi m p V s = bellman m V s := by
  intro s hs
  have hb := convex_bounds m.A (p s) (qBackup m V s) (bellman m V s) (bellman m V s) (hp.nonneg s) (hp.sum_one s hs)
    (fun a ha h0 => by rw [hg s a hs ha h0]; exact ⟨le_refl _, le_refl _⟩)
  unfold bellmanPi; linarith [hb.1, hb.2]

theorem convex_upper (n : Nat) (w x : Nat → Rat) (hi : Rat) (hw : ∀ a, 0 ≤ w a) (hsum : sumTo n w = 1)
    (hb : ∀ a, a < n → w a ≠ 0 → x a ≤ hi) : sumTo n (fun a => x a * w a) ≤ hi := by
  have h2 : sumTo n (fun a => x a * w a) ≤ sumTo n (fun a => hi * w a) := by
    apply sumTo_le
    intro a ha
    by_cases h0 : w a = 0
    · simp [h0]
    · exact mul_le_mul_of_nonneg_right (hb a ha h0) (hw a)
  rw [sumTo_mul_left, hsum] at h2
  linarith

theorem bellmanPi_le_bellman (m : MDP) (hA : 0 < m.A) (p : Nat → Nat → Rat) (hp : ValidPi m p) (V : Nat → Rat) :
    ∀ s, s < m.S → bellmanPi m p V s ≤ bellman m V s := by
  intro s hs
  unfold bellmanPi
  exact convex_upper m.A (p s) (qBackup m V s) (bellman m V s) (hp.nonneg s) (hp.sum_one s hs)
    (fun a ha _ => qBackup_le_bellman m hA V s a ha)

/-- **policy improvement.**  π' greedy for Q^{V} where V is the exact value of π; V' the exact value of π'.  Then V ≤ V'. -/
theorem exact_pi_improves (m : MDP) (hA : 0 < m.A) (hγ0 : 0 ≤ m.γ) (hγ1 : m.γ < 1) (hT : ValidT m)
    (p p' : Nat → Nat → Rat) (hp : ValidPi m p) (hp' : ValidPi m p') (V V' : Nat → Rat)
    (hV : IsValueOf m p V) (hV' : IsValueOf m p' V') (hg : GreedyFor m p' V) :
    ∀ s, s < m.S → V s ≤ V' s := by
  intro s hs
  -- largest deficit D = max_s (V s − V' s), attained at t
  obtain ⟨t, ht, hD⟩ := maxTo_attained (m.S - 1) (fun u => V u - V' u)
  have hle : ∀ u, u < m.S → V u - V' u ≤ maxTo (m.S - 1) (fun u => V u - V' u) :=
    fun u hu => maxTo_ge (m.S - 1) (fun u => V u - V' u) u (by omega)
  have ht' : t < m.S := by omega
  -- V t = B_π V t ≤ B V t = B_π' V t
  have h1 : V t ≤ bellmanPi m p' V t := by
    rw [bellmanPi_greedy m p' hp' V hg t ht', hV t ht']
    exact bellmanPi_le_bellman m hA p hp V t ht'
  -- B_π' V t − B_π' V' t ≤ γ D
  have h2 : bellmanPi m p' V t - bellmanPi m p' V' t ≤ m.γ * maxTo (m.S - 1) (fun u => V u - V' u) := by
    have hb := convex_upper m.A (p' t) (fun a => qBackup m V t a - qBackup m V' t a)
      (m.γ * maxTo (m.S - 1) (fun u => V u - V' u)) (hp'.nonneg t) (hp'.sum_one t ht')
      (fun a ha _ => by
        unfold qBackup
        have e : m.R t a + sumTo m.S (fun s1 => m.T t a s1 * (V s1 * m.γ)) - (m.R t a + sumTo m.S (fun s1 => m.T t a s1 * (V' s1 * m.γ)))
            = m.γ * sumTo m.S (fun s1 => m.T t a s1 * (V s1 - V' s1)) := by
          rw [← sumTo_mul_left]
          have : sumTo m.S (fun s1 => m.T t a s1 * (V s1 * m.γ))
              = sumTo m.S (fun s1 => m.T t a s1 * (V' s1 * m.γ) + m.γ * (m.T t a s1 * (V s1 - V' s1))) := by
            apply sumTo_congr; intro i _; ring
          rw [this, sumTo_add]; ring
        rw [e]
        exact mul_le_mul_of_nonneg_left (weighted_le m hT (fun u => V u - V' u) _ hle t a) hγ0)
    have e : sumTo m.A (fun a => (qBackup m V t a - qBackup m V' t a) * p' t a) = bellmanPi m p' V t - bellmanPi m p' V' t := by
      unfold bellmanPi
      have : sumTo m.A (fun a => qBackup m V t a * p' t a)
          = sumTo m.A (fun a => qBackup m V' t a * p' t a + (qBackup m V t a - qBackup m V' t a) * p' t a) := by
        apply sumTo_congr; intro i _; ring
      rw [this, sumTo_add]; ring
    rw [e] at hb
    exact hb
  have h3 : V' t = bellmanPi m p' V' t := hV' t ht'
  have hDle : maxTo (m.S - 1) (fun u => V u - V' u) ≤ 0 := by
    have : maxTo (m.S - 1) (fun u => V u - V' u) = V t - V' t := hD
    nlinarith
  have := hle s hs
  linarith

/-- **no progress ⇒ optimal.**  If the improved policy's exact value equals the old one, the old value solves the optimality equation. -/
theorem exact_pi_stall_optimal (m : MDP) (p' : Nat → Nat → Rat) (hp' : ValidPi m p') (V V' : Nat → Rat)
    (hV' : IsValueOf m p' V') (hg : GreedyFor m p' V) (heq : ∀ s, s < m.S → V' s = V s) : IsFixedPoint m V := by
  intro s hs
  rw [← bellmanPi_greedy m p' hp' V hg s hs, ← heq s hs, hV' s hs]
  exact (bellmanPi_congr m p' heq s).symm

/-- the exact value of a policy is unique (γ < 1) -/
theorem value_unique (m : MDP) (hγ0 : 0 ≤ m.γ) (hγ1 : m.γ < 1) (hT : ValidT m) (p : Nat → Nat → Rat) (hp : ValidPi m p)
    (V W : Nat → Rat) (hV : IsValueOf m p V) (hW : IsValueOf m p W) : ∀ s, s < m.S → V s = W s := by
  intro s hs
  have hS : 0 < m.S := by omega
  obtain ⟨t, ht, hD⟩ := maxAbsDiff_attained m.S hS V W
  have hle : ∀ u, u < m.S → |V u - W u| ≤ maxAbsDiff m.S V W := fun u hu => maxAbsDiff_ge m.S V W u hu
  have hc := bellmanPi_contraction m p hp V W (maxAbsDiff m.S V W) hγ0 hT hle t ht
  rw [← hV t ht, ← hW t ht, ← hD] at hc
  have h0 : 0 ≤ maxAbsDiff m.S V W := by rw [hD]; exact abs_nonneg _
  have hz : maxAbsDiff m.S V W ≤ 0 := by nlinarith
  have := hle s hs
  have h1 : |V s - W s| ≤ 0 := by linarith
  have := abs_eq_zero.mp (le_antisymm h1 (abs_nonneg _))
  linarith

/-- **termination of idealised policy iteration.**  A run of exact policy iteration is a sequence of policies πₖ with exact
    values Vₖ, each π_{k+1} greedy for Q^{Vₖ}.  If the same policy shows up at rounds k < j, then V_k already solves the
    optimality equation (so the loop had reached its stopping point at round k): before optimality no policy is ever revisited,
    hence at most (number of tie-set policies) ≤ (2^A − 1)^S rounds are needed. -/
theorem exact_pi_no_revisit (m : MDP) (hA : 0 < m.A) (hγ0 : 0 ≤ m.γ) (hγ1 : m.γ < 1) (hT : ValidT m)
    (π : Nat → Nat → Nat → Rat) (V : Nat → Nat → Rat)
    (hπ : ∀ k, ValidPi m (π k)) (hV : ∀ k, IsValueOf m (π k) (V k)) (hg : ∀ k, GreedyFor m (π (k+1)) (V k))
    (k j : Nat) (hkj : k < j) (hsame : ∀ s a, s < m.S → a < m.A → π j s a = π k s a) : IsFixedPoint m (V k) := by
  have hmono : ∀ i s, s < m.S → V i s ≤ V (i+1) s := fun i =>
    exact_pi_improves m hA hγ0 hγ1 hT (π i) (π (i+1)) (hπ i) (hπ (i+1)) (V i) (V (i+1)) (hV i) (hV (i+1)) (hg i)
  have hchain : ∀ d i s, s < m.S → V i s ≤ V (i+d) s := by
    intro d
    induction d with
    | zero => intro i s _; exact le_refl _
    | succ d ih => intro i s hs; exact le_trans (ih i s hs) (hmono (i+d) s hs)
  -- same policy ⇒ same value
  have hVj : IsValueOf m (π k) (V j) := by
    intro s hs
    rw [hV j s hs]
    unfold bellmanPi
    apply sumTo_congr
    intro a ha
    rw [hsame s a hs ha]
  have heqjk : ∀ s, s < m.S → V j s = V k s := value_unique m hγ0 hγ1 hT (π k) (hπ k) (V j) (V k) hVj (hV k)
  -- squeeze: V k ≤ V (k+1) ≤ V j = V k
  have hsq : ∀ s, s < m.S → V (k+1) s = V k s := by
    intro s hs
    have h1 := hmono k s hs
    have h2 : V (k+1) s ≤ V j s := by
      have := hchain (j - (k+1)) (k+1) s hs
      have e : k + 1 + (j - (k+1)) = j := by omega
      rwa [e] at this
    rw [heqjk s hs] at h2
    linarith
  exact exact_pi_stall_optimal m (π (k+1)) (hπ (k+1)) (V k) (V (k+1)) (hV (k+1)) (hg k) hsq


theorem checkValidPi_sound (m : MDP) (p : Nat → Nat → Rat) (h : checkValidPi m p = true) :
    (∀ s a, s < m.S → a < m.A → 0 ≤ p s a) ∧ ∀ s, s < m.S → sumTo m.A (fun a => p s a) = 1 := by
  constructor
  · intro s a hs ha
    have h1 := (allLt_iff _ _).mp h s hs
    simp only [Bool.and_eq_true, decide_eq_true_eq] at h1
    have := (allLt_iff _ _).mp h1.1 a ha
    simpa using this
  · intro s hs
    have h1 := (allLt_iff _ _).mp h s hs
    simp only [Bool.and_eq_true, decide_eq_true_eq] at h1
    exact h1.2

/-- greedy rows are nonnegative everywhere, so the Boolean check on the S×A block gives `ValidPi` for a greedy matrix -/
theorem checkValidPi_greedy (m : MDP) (hA : 0 < m.A) (q : Mat) (h : checkValidPi m (greedyPolicy m.S m.A q).get = true) :
    ValidPi m (greedyPolicy m.S m.A q).get := by
  obtain ⟨_, h2⟩ := checkValidPi_sound m _ h
  refine ⟨?_, h2⟩
  intro s a
  by_cases hs : s < m.S
  · by_cases ha : a < m.A
    · unfold greedyPolicy
      rw [mkMat_get _ hs ha]
      obtain ⟨c, hc1, _, hx⟩ := greedyRow_form m.A hA (q.get s)
      rcases hx a with h0 | h1
      · rw [h0]
      · rw [h1]; have : (0 : Rat) < c := by exact_mod_cast hc1
        exact le_of_lt (one_div_pos.mpr this)
    · simp [greedyPolicy, mkMat, Mat.get, Array.getD, hs, ha]
  · simp [greedyPolicy, mkMat, Mat.get, Array.getD, hs]

/-! ## the tolerance run stops by tolerance when the horizon is long enough -/

theorem viLoop_succ_right (m : MDP) (rep : Rep) (ir : Mat) (useTol : Bool) (tol : Rat) :
    ∀ (fuel : Nat) (st : VIState), viLoop m rep ir useTol tol (fuel+1) st = viLoop m rep ir useTol tol 1 (viLoop m rep ir useTol tol fuel st) := by
  intro fuel
  induction fuel with
  | zero => intro st; rfl
  | succ fuel ih =>
    intro st
    by_cases hstop : (useTol && !(decide (st.variation > tol))) = true
    · have e : ∀ n, viLoop m rep ir useTol tol (n+1) st = st := by
        intro n; conv => lhs; unfold viLoop
        simp only [hstop, if_true]
      rw [e (fuel+1), e fuel, e 0]
    · have e : ∀ n, viLoop m rep ir useTol tol (n+1) st = viLoop m rep ir useTol tol n (viStep m rep ir useTol st) := by
        intro n; conv => lhs; unfold viLoop
        simp only [hstop, Bool.false_eq_true, if_false]
      rw [e (fuel+1), e fuel, ih]

theorem maxAbsDiff_congr (n : Nat) (a b c : Nat → Rat) (h : ∀ s, s < n → b s = c s) (hn : 0 < n) :
    maxAbsDiff n a b = maxAbsDiff n a c := by
  unfold maxAbsDiff
  apply maxTo_congr
  intro i hi
  rw [h i (by omega)]

theorem maxAbsDiff_congr2 (n : Nat) (a b c d : Nat → Rat) (h1 : ∀ s, s < n → a s = c s) (h2 : ∀ s, s < n → b s = d s) (hn : 0 < n) :
    maxAbsDiff n a b = maxAbsDiff n c d := by
  unfold maxAbsDiff
  apply maxTo_congr
  intro i hi
  rw [h1 i (by omega), h2 i (by omega)]

/-- exact bookkeeping of the tolerance loop from the default start: the state after t passes holds `optH t`, and for t ≥ 1 the
    variation is ‖optH t − optH (t−1)‖∞ -/
def VIExact (m : MDP) (st : VIState) : Prop :=
  (∀ s, s < m.S → st.vf.values.get s = optH m st.timestep s) ∧
  (0 < st.timestep → st.variation = maxAbsDiff m.S (optH m st.timestep) (optH m (st.timestep - 1)))

theorem viLoop_exact (m : MDP) (rep : Rep) (hrep : RepOK m rep) (hA : 0 < m.A) (hS : 0 < m.S) (tol : Rat) :
    ∀ (fuel : Nat) (st : VIState), VIShape m st → VIExact m st → VIExact m (viLoop m rep (immRewards m rep) true tol fuel st) := by
  intro fuel
  induction fuel with
  | zero => intro st _ h; exact h
  | succ fuel ih =>
    intro st hsh hex
    by_cases hstop : (true && !(decide (st.variation > tol))) = true
    · have e : viLoop m rep (immRewards m rep) true tol (fuel+1) st = st := by
        conv => lhs; unfold viLoop
        simp only [hstop, if_true]
      rw [e]; exact hex
    · have e : viLoop m rep (immRewards m rep) true tol (fuel+1) st
          = viLoop m rep (immRewards m rep) true tol fuel (viStep m rep (immRewards m rep) true st) := by
        conv => lhs; unfold viLoop
        simp only [hstop, Bool.false_eq_true, if_false]
      rw [e]
      obtain ⟨hsh', hval, _, _, hts, hvar⟩ := viStep_spec m rep hrep hA true st hsh
      apply ih _ hsh'
      have hv' : ∀ s, s < m.S → (viStep m rep (immRewards m rep) true st).vf.values.get s = optH m (st.timestep + 1) s := by
        intro s hs
        rw [hval s hs]
        show _ = bellman m (optH m st.timestep) s
        exact bellman_congr m hex.1 s
      constructor
      · intro s hs; rw [hts]; exact hv' s hs
      · intro _
        rw [hvar, hts]
        simp only [if_true, Nat.add_sub_cancel]
        exact maxAbsDiff_congr2 m.S _ _ _ _ hv' hex.1 hS

/-- **vi_stops_by_tolerance.**  If γ^(h−2)·‖optH 1‖∞ ≤ tol (h ≥ 2) the tolerance run cannot use all h passes: it stops because the
    variation fell to the tolerance.  This discharges the `timestep < h` hypothesis of `planners_agree` from (γ, tol, h, Rmax). -/
theorem vi_stops_by_tolerance (m : MDP) (rep : Rep) (hrep : RepOK m rep) (hA : 0 < m.A) (hS : 0 < m.S) (hγ0 : 0 ≤ m.γ) (hT : ValidT m)
    (h : Nat) (hh : 2 ≤ h) (tol : Rat) (htol : useTolerance tol = true) (d : Rat)
    (hd : ∀ s, s < m.S → |optH m 1 s| ≤ d) (hsmall : m.γ ^ (h - 2) * d ≤ tol) :
    (valueIteration m rep h tol none).timestep < h := by
  have hsh := makeVF_shape m (makeQ m.S m.A) (tol * 2) 0
  have hle := (viLoop_values m rep hrep hA true tol h _ hsh).2.1
  by_contra hcon
  have hfull : (viLoop m rep (immRewards m rep) true tol h ⟨makeVF m.S, makeQ m.S m.A, tol * 2, 0⟩).timestep = h := by
    have : (valueIteration m rep h tol none).timestep
        = (viLoop m rep (immRewards m rep) true tol h ⟨makeVF m.S, makeQ m.S m.A, tol * 2, 0⟩).timestep := by
      simp only [valueIteration, htol]
    rw [this] at hcon
    simp only [Nat.zero_add] at hle
    omega
  obtain ⟨k, rfl⟩ : ∃ k, h = k + 1 := ⟨h - 1, by omega⟩
  rw [viLoop_succ_right] at hfull
  have hex0 : VIExact m ⟨makeVF m.S, makeQ m.S m.A, tol * 2, 0⟩ :=
    ⟨fun s _ => by simp [optH, optFrom, makeVF_get], fun h0 => absurd h0 (lt_irrefl 0)⟩
  have hex := viLoop_exact m rep hrep hA hS tol k _ hsh hex0
  have hrle := (viLoop_values m rep hrep hA true tol k _ hsh).2.1
  simp only [Nat.zero_add] at hrle
  -- the last guarded pass must have run
  by_cases hstop : (true && !(decide ((viLoop m rep (immRewards m rep) true tol k ⟨makeVF m.S, makeQ m.S m.A, tol * 2, 0⟩).variation > tol))) = true
  · have e : viLoop m rep (immRewards m rep) true tol 1 (viLoop m rep (immRewards m rep) true tol k ⟨makeVF m.S, makeQ m.S m.A, tol * 2, 0⟩)
        = viLoop m rep (immRewards m rep) true tol k ⟨makeVF m.S, makeQ m.S m.A, tol * 2, 0⟩ := by
      conv => lhs; unfold viLoop
      simp only [hstop, if_true]
    rw [e] at hfull; omega
  · have e : (viLoop m rep (immRewards m rep) true tol 1 (viLoop m rep (immRewards m rep) true tol k ⟨makeVF m.S, makeQ m.S m.A, tol * 2, 0⟩)).timestep
        = (viLoop m rep (immRewards m rep) true tol k ⟨makeVF m.S, makeQ m.S m.A, tol * 2, 0⟩).timestep + 1 := by
      conv => lhs; unfold viLoop
      simp only [hstop, Bool.false_eq_true, if_false, viLoop, viStep]
    rw [e] at hfull
    have hrt : (viLoop m rep (immRewards m rep) true tol k ⟨makeVF m.S, makeQ m.S m.A, tol * 2, 0⟩).timestep = k := by omega
    have hgt : tol < (viLoop m rep (immRewards m rep) true tol k ⟨makeVF m.S, makeQ m.S m.A, tol * 2, 0⟩).variation := by
      simp only [Bool.true_and, Bool.not_eq_true', decide_eq_false_iff_not, not_not] at hstop
      exact hstop
    have hk1 : 0 < k := by omega
    have hvar := hex.2 (by rw [hrt]; exact hk1)
    rw [hrt] at hvar
    obtain ⟨s, hs, hatt⟩ := maxAbsDiff_attained m.S hS (optH m k) (optH m (k - 1))
    have hgeo := optFrom_variation_geometric m hγ0 hT (fun _ => 0) d
      (fun s hs => by simpa [optFrom, optH] using hd s hs) (k - 1) s hs
    have e2 : k - 1 + 1 = k := by omega
    rw [e2] at hgeo
    have e3 : k + 1 - 2 = k - 1 := by omega
    rw [e3] at hsmall
    have : (viLoop m rep (immRewards m rep) true tol k ⟨makeVF m.S, makeQ m.S m.A, tol * 2, 0⟩).variation ≤ tol := by
      rw [hvar, hatt]; exact le_trans hgeo hsmall
    linarith


/-! ## translator obligation: the statement order / operators the model hard-codes are the ones found in the source now -/

/-- `tools/extract_c01.py` locates (in order) the statements of the VI and PE loops, the LP rows and the argmax loop in the
    current source and fails loudly when one is missing or out of order; this obligation ties the model's shape to what it found
    (test on generated literals: `decide`). -/
theorem sites_match_model :
    AITB.Gen.C01.viLoopOrder = ["init2tol", "useTolSmall", "while", "inc", "save", "discount", "computeQ", "bellman", "absmax", "ret"] ∧
    AITB.Gen.C01.peLoopOrder = ["init2tol", "useTolSmall", "while", "save", "discount", "computeQ", "dot", "absmax"] ∧
    AITB.Gen.C01.lpSites = ["lpOfS", "resizeSA", "objUniform", "minimise", "loopS", "unbounded", "loopA", "rowEigen", "loopS1", "rowGeneric", "plusOne", "GE", "solveS", "throwIfNone", "assembleQ", "argmaxRows"] ∧
    AITB.Gen.C01.qPolicyHoldsReference = true ∧
    AITB.Gen.C01.rewardTableSites = ["viIrSelect", "lpIrSelect", "peCtorCachesIr", "pePolicyOnce", "peEigenR", "peGenericIr", "peDotAllStates"] ∧
    AITB.Gen.C01.bellmanInplaceIsMaxCoeffOverActions = true ∧
    AITB.Gen.C01.computeQSites = ["irGeneric", "qEigen", "qGeneric"] ∧
    AITB.Gen.C01.greedySites = (if AITB.Gen.C01.greedyTrueMaxFirst then ["init", "trueMax", "count0", "countTies", "fillFrom0", "tieGeneral2", "recip", "zero"]
      else ["init", "scanFrom1", "tieGeneral", "greater", "setMax", "reset", "fillFrom0", "tieGeneral2", "recip", "zero"]) ∧
    AITB.Gen.C01.greedyTableSites = ["retvalSA", "rowLoop", "wrapRow", "fillRow", "ret", "bufferIsA"] ∧
    AITB.Gen.C01.toleranceSites = ["smallAbsLe", "differentIsNotEqual", "generalSmallOrRelMin"] ∧
    AITB.Gen.C01.makeSites = ["makeQZero", "makeVFZeroActionsS", "bellmanOperatorWrapsInplace"] ∧
    AITB.Gen.C01.viStartSites = ["sizeOfParam", "neS", "defaultZero", "else", "copyParam", "v1NotReadBefore"] ∧
    AITB.Gen.C01.setterSites = ["viTolThrowsNeg", "viTolAssign", "viHorizon", "viParam", "peTolThrowsNeg", "peTolAssign"] ∧
    AITB.Gen.C01.piSites = ["eval", "greedyOfQfun", "matrix0", "label", "evalP", "warm", "qfunGetsQ", "newMatrix", "diffSmall", "moveMatrix", "goto", "ret"] := by decide

/-! ## why PolicyIteration diverges on the tie chain (finding C01-3) -/

theorem sumTo_mul_right (n : Nat) (c : Rat) (f : Nat → Rat) : sumTo n (fun i => f i * c) = sumTo n f * c := by
  induction n with
  | zero => simp [sumTo]
  | succ n ih => simp only [sumTo, ih]; ring

/-- one sweep of the policy operator on a one-state MDP whose policy row has total weight c: V ↦ ρ + c·γ·V, ρ the weighted reward -/
theorem bellmanPi_one_state (m : MDP) (hS : m.S = 1) (hT : ∀ a, a < m.A → m.T 0 a 0 = 1) (p : Nat → Nat → Rat) (v : Nat → Rat) :
    bellmanPi m p v 0 = sumTo m.A (fun a => m.R 0 a * p 0 a) + sumTo m.A (p 0) * (m.γ * v 0) := by
  unfold bellmanPi qBackup
  rw [hS]
  have : ∀ a, a < m.A → (m.R 0 a + sumTo 1 (fun s1 => m.T 0 a s1 * (v s1 * m.γ))) * p 0 a = m.R 0 a * p 0 a + p 0 a * (m.γ * v 0) := by
    intro a ha
    simp only [sumTo, hT a ha]
    ring
  rw [sumTo_congr this, sumTo_add, sumTo_mul_right]

/-- **weight2_sweeps_never_settle.**  Why PolicyIteration diverges on C01-3: on a one-state MDP, a policy row of total weight c with c·γ ≥ 1
    (the chain row has c = 2, so γ ≥ ½) and positive weighted reward ρ makes every sweep move the value up by at least ρ — consecutive
    iterates never come closer than ρ, whatever the horizon; no tolerance below ρ is ever met and the values are unbounded. -/
theorem weight2_sweeps_never_settle (m : MDP) (hS : m.S = 1) (hT : ∀ a, a < m.A → m.T 0 a 0 = 1) (p : Nat → Nat → Rat)
    (hc : 1 ≤ sumTo m.A (p 0) * m.γ) (ρ : Rat) (hρ : ρ = sumTo m.A (fun a => m.R 0 a * p 0 a)) (hpos : 0 ≤ ρ) :
    ∀ h, ρ ≤ evalPolicy m p (h+1) 0 - evalPolicy m p h 0 ∧ (h : Rat) * ρ ≤ evalPolicy m p h 0 := by
  intro h
  induction h with
  | zero =>
    simp only [evalPolicy, evalFrom]
    rw [bellmanPi_one_state m hS hT p]
    simp [← hρ]
  | succ h ih =>
    obtain ⟨i1, i2⟩ := ih
    have e1 : evalPolicy m p (h+1+1) 0 = ρ + sumTo m.A (p 0) * (m.γ * evalPolicy m p (h+1) 0) := by
      simp only [evalPolicy, evalFrom]; rw [bellmanPi_one_state m hS hT p, ← hρ]
    have e2 : evalPolicy m p (h+1) 0 = ρ + sumTo m.A (p 0) * (m.γ * evalPolicy m p h 0) := by
      simp only [evalPolicy, evalFrom]; rw [bellmanPi_one_state m hS hT p, ← hρ]
    have hd : 0 ≤ evalPolicy m p (h+1) 0 - evalPolicy m p h 0 := le_trans hpos i1
    constructor
    · have : evalPolicy m p (h+1+1) 0 - evalPolicy m p (h+1) 0
          = (sumTo m.A (p 0) * m.γ) * (evalPolicy m p (h+1) 0 - evalPolicy m p h 0) := by rw [e1, e2]; ring
      rw [this]
      nlinarith
    · push_cast
      linarith

/-- harness case 3 as a model value: one state, three self-loop actions, rewards 1e7 + {0, 0.9e-3, 1.8e-3}, γ = 0.9 -/
def chainMDP : MDP :=
  { S := 1, A := 3, T := fun _ _ _ => 1, R3 := fun _ a _ => 10000000 + (a : Rat) * (9 / 10000),
    R := fun _ a => 10000000 + (a : Rat) * (9 / 10000), γ := 9 / 10 }

/-- the hypotheses of `weight2_sweeps_never_settle` hold for case 3 with the row `[0,1,1]` the as-found scan produces there
    (weight 2, 2γ = 1.8, ρ = 2e7 + 2.7e-3): every sweep adds at least 2e7 (test on literals) -/
example : ∀ h, (20000000 : Rat) ≤ evalPolicy chainMDP (fun _ a => if a = 0 then 0 else 1) (h+1) 0
      - evalPolicy chainMDP (fun _ a => if a = 0 then 0 else 1) h 0 := by
  intro h
  have := (weight2_sweeps_never_settle chainMDP rfl (fun _ _ => rfl) (fun _ a => if a = 0 then 0 else 1)
    (by norm_num [chainMDP, sumTo]) (20000000 + 27 / 10000) (by norm_num [chainMDP, sumTo]) (by norm_num) h).1
  linarith

/-! ## `bellmanOperator`; the shared LP row buffer -/

theorem bellmanOp_spec (S A : Nat) (q : Mat) :
    (bellmanOp S A q).values.size = S ∧ (bellmanOp S A q).actions.size = S ∧
    ∀ s, s < S → (bellmanOp S A q).values.get s = maxTo (A - 1) (q.get s) ∧
                 natAt (bellmanOp S A q).actions s = argmaxTo (A - 1) (q.get s) ∧
                 (bellmanOp S A q).values.get s = q.get s (natAt (bellmanOp S A q).actions s) := by
  unfold bellmanOp bellmanInplace
  simp only [mkVec_size, mkNats_size]
  refine ⟨trivial, trivial, ?_⟩
  intro s hs
  rw [mkVec_get _ hs, mkNats_get _ hs, if_pos hs]
  exact ⟨rfl, rfl, maxTo_eq_argmax _ _⟩

/-! ### the shared `lp.row` buffer -/

theorem writeTo_size (f : Nat → Rat) : ∀ n (b : Vec), (writeTo n f b).size = b.size := by
  intro n
  induction n with
  | zero => intro b; rfl
  | succ n ih => intro b; simp [writeTo, ih]

theorem writeTo_get (f : Nat → Rat) : ∀ n (b : Vec) i, i < b.size →
    (writeTo n f b).get i = if i < n then f i else b.get i := by
  intro n
  induction n with
  | zero => intro b i _; simp [writeTo]
  | succ n ih =>
    intro b i hi
    simp only [writeTo, Vec.get]
    by_cases h : i = n
    · subst h
      have : i < (writeTo i f b).size := by rw [writeTo_size]; exact hi
      simp [Array.getD, Array.setIfInBounds, this]
    · have h1 := ih b i hi
      simp only [Vec.get] at h1
      rw [Array.getD_eq_getD_getElem?, Array.getElem?_setIfInBounds_ne (Ne.symm h), ← Array.getD_eq_getD_getElem?, h1]
      by_cases h2 : i < n
      · simp [h2, Nat.lt_succ_of_lt h2]
      · have : ¬ i < n + 1 := by omega
        simp [h2, this]

theorem get_setIfInBounds (b : Vec) (i j : Nat) (x : Rat) (hi : i < b.size) :
    Vec.get (b.setIfInBounds i x) j = if j = i then x else b.get j := by
  unfold Vec.get
  rw [Array.getD_eq_getD_getElem?, Array.getD_eq_getD_getElem?]
  by_cases h : j = i
  · subst h
    rw [Array.getElem?_setIfInBounds_self_of_lt hi]
    simp
  · rw [Array.getElem?_setIfInBounds_ne (Ne.symm h)]
    simp [h]

/-- **lpRowPass_spec.**  Whatever the buffer held before (the objective's 1/S entries, or the previous row with its `+1`), after the pass
    it holds exactly the constraint row of (s,a): nothing leaks from one `pushRow` to the next. -/
theorem lpRowPass_spec (m : MDP) (s a : Nat) (hs : s < m.S) (buf : Vec) (hb : buf.size = m.S) :
    (lpRowPass m s a buf).size = m.S ∧ ∀ s1, s1 < m.S → Vec.get (lpRowPass m s a buf) s1 = lpCoeff m s a s1 := by
  have hsz : (writeTo m.S (fun s1 => -m.γ * m.T s a s1) buf).size = m.S := by rw [writeTo_size, hb]
  refine ⟨?_, ?_⟩
  · unfold lpRowPass
    rw [Array.size_setIfInBounds, hsz]
  · intro s1 h1
    unfold lpRowPass lpCoeff
    rw [get_setIfInBounds _ s s1 _ (by rw [hsz]; exact hs)]
    by_cases h : s1 = s
    · subst h
      rw [if_pos rfl, if_pos rfl, writeTo_get _ _ _ _ (by rw [hb]; exact h1), if_pos h1]
    · rw [if_neg h, if_neg h, writeTo_get _ _ _ _ (by rw [hb]; exact h1), if_pos h1]
      ring

/-- **lpPushAll_rows.**  Starting from ANY buffer of S entries (the code starts from the objective row 1/S), the k-th pushed row
    (k = s·A + a, all S·A of them) is the constraint row of (s,a). -/
theorem lpPushAll_rows (m : MDP) (hA : 0 < m.A) (buf : Vec) (hb : buf.size = m.S) :
    ∀ n, n ≤ m.S * m.A → ((lpPushAll m n buf).1.size = m.S ∧ (lpPushAll m n buf).2.length = n ∧
      ∀ k, k < n → ∀ s1, s1 < m.S → Vec.get ((lpPushAll m n buf).2.getD k #[]) s1 = lpCoeff m (k / m.A) (k % m.A) s1) := by
  intro n
  induction n with
  | zero => intro _; exact ⟨hb, rfl, fun k hk => absurd hk (Nat.not_lt_zero k)⟩
  | succ n ih =>
    intro hn
    obtain ⟨h1, h2, h3⟩ := ih (by omega)
    have hs : n / m.A < m.S := by
      apply Nat.div_lt_of_lt_mul
      rw [Nat.mul_comm]; omega
    obtain ⟨p1, p2⟩ := lpRowPass_spec m (n / m.A) (n % m.A) hs (lpPushAll m n buf).1 h1
    simp only [lpPushAll]
    refine ⟨p1, by simp [h2], ?_⟩
    intro k hk s1 hs1
    by_cases hkn : k < n
    · have e : (((lpPushAll m n buf).2 ++ [lpRowPass m (n / m.A) (n % m.A) (lpPushAll m n buf).1]).getD k #[]) = (lpPushAll m n buf).2.getD k #[] := by
        rw [List.getD_eq_getElem?_getD, List.getD_eq_getElem?_getD, List.getElem?_append_left (by rw [h2]; exact hkn)]
      rw [e]
      exact h3 k hkn s1 hs1
    · have : k = n := by omega
      subst this
      have e : (((lpPushAll m k buf).2 ++ [lpRowPass m (k / m.A) (k % m.A) (lpPushAll m k buf).1]).getD k #[]) = lpRowPass m (k / m.A) (k % m.A) (lpPushAll m k buf).1 := by
        rw [List.getD_eq_getElem?_getD, List.getElem?_append_right (by rw [h2]), h2, Nat.sub_self]
        simp
      rw [e]
      exact p2 s1 hs1


/-! ## the solver object across calls: no answer depends on earlier calls or on the moved-from internal vector -/

def VIObj.SameParams (o o' : VIObj) : Prop := o.tol = o'.tol ∧ o.horizon = o'.horizon ∧ o.vParam = o'.vParam

theorem VIObj.run_sameParams : ∀ (es : List VIEvent) (o o' : VIObj), VIObj.SameParams o o' →
    VIObj.SameParams (o.run es) (o'.run (es.filter VIEvent.isSetter)) := by
  intro es
  induction es with
  | nil => intro o o' h; exact h
  | cons e es ih =>
    intro o o' h
    obtain ⟨h1, h2, h3⟩ := h
    cases e with
    | setTolerance x =>
      simp only [List.filter, VIEvent.isSetter, VIObj.run]
      apply ih
      simp only [VIObj.step]
      by_cases hx : x < 0
      · simp only [hx, if_true]; exact ⟨h1, h2, h3⟩
      · simp only [hx, if_false]; exact ⟨rfl, h2, h3⟩
    | setHorizon x =>
      simp only [List.filter, VIEvent.isSetter, VIObj.run]
      apply ih
      exact ⟨h1, rfl, h3⟩
    | setValueFunction x =>
      simp only [List.filter, VIEvent.isSetter, VIObj.run]
      apply ih
      exact ⟨h1, h2, rfl⟩
    | call m rep j =>
      simp only [List.filter, VIEvent.isSetter, VIObj.run]
      apply ih
      exact ⟨h1, h2, h3⟩

/-- **viObj_history.**  For every history of setter calls and solver calls (on any models, of any sizes, leaving anything behind in the
    moved-from `v1_`), the next `operator()(m)` returns what a fresh object with the same setter history returns: `valueIteration` of the
    current parameters.  (This is what the harness's object-reuse lines test against the real class.) -/
theorem viObj_history (o o' : VIObj) (hp : VIObj.SameParams o o') (es : List VIEvent) (m : MDP) (rep : Rep) (j j' : VF) :
    ((o.run es).step (.call m rep j)).2 = ((o'.run (es.filter VIEvent.isSetter)).step (.call m rep j')).2 := by
  obtain ⟨h1, h2, h3⟩ := VIObj.run_sameParams es o o' hp
  simp only [VIObj.step, h1, h2, h3]

/-- a rejected `setTolerance` leaves the tolerance nonnegative: the invariant `0 ≤ tolerance_` holds along every history -/
theorem viObj_tol_nonneg : ∀ (es : List VIEvent) (o : VIObj), 0 ≤ o.tol → 0 ≤ (o.run es).tol := by
  intro es
  induction es with
  | nil => intro o h; exact h
  | cons e es ih =>
    intro o h
    simp only [VIObj.run]
    apply ih
    cases e with
    | setTolerance x =>
      simp only [VIObj.step]
      by_cases hx : x < 0
      · simp only [hx, if_true]; exact h
      · simp only [hx, if_false]; exact not_lt.mp hx
    | setHorizon x => exact h
    | setValueFunction x => exact h
    | call m rep j => exact h

/-- the default-constructed start (`ValueFunction{}`: no values) is the all-zero start, for every model with at least one state -/
theorem vi_empty_start_is_default (m : MDP) (rep : Rep) (hS : 0 < m.S) (h : Nat) (tol : Rat) (acts : Array Nat) :
    valueIteration m rep h tol (some ⟨#[], acts⟩) = valueIteration m rep h tol none := by
  have e : acceptWarm m.S ⟨#[], acts⟩ = makeVF m.S := by
    unfold acceptWarm
    have : ((#[] : Vec).size != m.S) = true := by
      simp only [Array.size_empty, bne_iff_ne, ne_eq]; omega
    simp only [this, if_true]
  simp only [valueIteration, e]

def PEObj.SameParams (o o' : PEObj) : Prop := o.tol = o'.tol ∧ o.horizon = o'.horizon ∧ o.vParam = o'.vParam

theorem PEObj.run_sameParams (m : MDP) (rep : Rep) : ∀ (es : List PEEvent) (o o' : PEObj), PEObj.SameParams o o' →
    PEObj.SameParams (PEObj.run m rep o es) (PEObj.run m rep o' (es.filter PEEvent.isSetter)) := by
  intro es
  induction es with
  | nil => intro o o' h; exact h
  | cons e es ih =>
    intro o o' h
    obtain ⟨h1, h2, h3⟩ := h
    cases e with
    | setTolerance x =>
      simp only [List.filter, PEEvent.isSetter, PEObj.run]
      apply ih
      simp only [PEObj.step]
      by_cases hx : x < 0
      · simp only [hx, if_true]; exact ⟨h1, h2, h3⟩
      · simp only [hx, if_false]; exact ⟨rfl, h2, h3⟩
    | setHorizon x =>
      simp only [List.filter, PEEvent.isSetter, PEObj.run]
      apply ih
      exact ⟨h1, rfl, h3⟩
    | setValues x =>
      simp only [List.filter, PEEvent.isSetter, PEObj.run]
      apply ih
      exact ⟨h1, h2, rfl⟩
    | call p j =>
      simp only [List.filter, PEEvent.isSetter, PEObj.run]
      apply ih
      exact ⟨h1, h2, h3⟩

/-- **peObj_history.**  Any history of setters and evaluations (of any policies) on one PolicyEvaluation object: the next evaluation returns
    what a fresh object with the same setter history returns.  In particular PolicyIteration's `eval.setValues(v); eval(p)` is
    `policyEvaluation … (some v) p`, which is how `piRound` threads `vParam`. -/
theorem peObj_history (m : MDP) (rep : Rep) (o o' : PEObj) (hp : PEObj.SameParams o o') (es : List PEEvent) (p : Mat) (j j' : Vec) :
    ((PEObj.run m rep o es).step m rep (.call p j)).2 = ((PEObj.run m rep o' (es.filter PEEvent.isSetter)).step m rep (.call p j')).2 := by
  obtain ⟨h1, h2, h3⟩ := PEObj.run_sameParams m rep es o o' hp
  simp only [PEObj.step, h1, h2, h3]

/-- an empty start vector is the all-zero start for every model with at least one state -/
theorem pe_empty_start_is_default (m : MDP) (rep : Rep) (hS : 0 < m.S) (h : Nat) (tol : Rat) (p : Mat) :
    policyEvaluation m rep h tol (some #[]) p = policyEvaluation m rep h tol none p := by
  have : ((#[] : Vec).size != m.S) = true := by
    simp only [Array.size_empty, bne_iff_ne, ne_eq]; omega
  simp only [policyEvaluation, this, if_true]

/-! ## the hypotheses are satisfiable: a concrete non-trivial MDP (2 states, 2 actions, negative reward, self-loop) -/

def exMDP : MDP :=
  { S := 2, A := 2, γ := 3/4,
    T := fun s a s1 => if s = 0 ∧ a = 0 then (if s1 = 0 then 1/2 else if s1 = 1 then 1/2 else 0)
                       else if s1 = 1 then 1 else 0,
    R3 := fun s a _ => if s = 0 ∧ a = 0 then -1 else if s = 0 then 1/4 else 0,
    R := fun s a => if s = 0 ∧ a = 0 then -1 else if s = 0 then 1/4 else 0 }

example : ValidT exMDP := by
  constructor
  · intro s a s1; simp only [exMDP]; split <;> (try split) <;> (try split) <;> norm_num
  · intro s a; simp only [exMDP, sumTo]; split <;> norm_num
example : Consistent exMDP := by
  intro s a hs ha
  have hs' : s = 0 ∨ s = 1 := by simp only [exMDP] at hs; omega
  have ha' : a = 0 ∨ a = 1 := by simp only [exMDP] at ha; omega
  rcases hs' with rfl | rfl <;> rcases ha' with rfl | rfl <;> norm_num [exMDP, sumTo]
example : RepOK exMDP .generic := by
  intro s a hs ha
  have hs' : s = 0 ∨ s = 1 := by simp only [exMDP] at hs; omega
  have ha' : a = 0 ∨ a = 1 := by simp only [exMDP] at ha; omega
  rcases hs' with rfl | rfl <;> rcases ha' with rfl | rfl <;> norm_num [exMDP, sumTo]
example : ValidPi exMDP (fun _ _ => 1/2) := by
  constructor
  · intro s a; norm_num
  · intro s _; norm_num [exMDP, sumTo]
/-- the optimality equation of the example has the solution V* = (1/4, 0): `IsFixedPoint` is satisfiable -/
example : IsFixedPoint exMDP (fun s => if s = 0 then 1/4 else 0) := by
  intro s hs
  have hs' : s = 0 ∨ s = 1 := by simp only [exMDP] at hs; omega
  rcases hs' with rfl | rfl <;> norm_num [bellman, maxTo, qBackup, sumTo, exMDP]
example : 0 < exMDP.A ∧ 0 ≤ exMDP.γ ∧ exMDP.γ < 1 := by norm_num [exMDP]
/-- tolerance 0 disables the stopping rule, 1e-3 enables it (constants from the generated module) -/
example : useTolerance 0 = false := by
  norm_num [useTolerance, checkDifferentSmall, checkEqualSmall, absR, AITB.Gen.equalToleranceSmall]
example : useTolerance (1/1000) = true := by
  norm_num [useTolerance, checkDifferentSmall, checkEqualSmall, absR, AITB.Gen.equalToleranceSmall]

/-- a history with a rejected setter, a call that leaves junk behind, and an accepted setter (test on literals) -/
example : ((⟨0, 3, ⟨#[], #[]⟩, ⟨#[], #[]⟩⟩ : VIObj).run [.setTolerance (-1), .setHorizon 5, .call exMDP .eigen ⟨#[7], #[]⟩, .setTolerance (1/4)]).tol = 1/4 := by
  norm_num [VIObj.run, VIObj.step]

end AITB.MDP
