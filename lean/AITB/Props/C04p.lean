/-
  AITB.Props.C04p — the part of QMDP that IS a plan.

  Full statement (false, see `qmdp_not_a_plan`): for every VI horizon h, `QMDP(h)` returns a `Consistent` value function.
  `fromQFunction` links every observation of every entry to the single horizon-0 entry, so the entry for action `a` is a
  one-step plan exactly when its vector is `R(·,a) + γ·(future value of the zero entry) = R(·,a)`, i.e. for VI horizon 1
  (`qmdp_consistent_partial`, every POMDP with O ≥ 1).  The harness keeps the two regimes apart: a broken clause on a
  horizon-1 QMDP run is reported as `not_one_step_plan_h1`, which the open finding (kind `not_one_step_plan`) does not cover.
-/
import AITB.Props.C04

namespace AITB.Plan

theorem val_replicate_zero (S s : Nat) : val ⟨List.replicate S 0, 0, []⟩ s = 0 := by
  unfold val
  simp only [List.getD_eq_getElem?_getD]
  by_cases h : s < S
  · simp [h]
  · simp [h]

theorem fromQFunction_length (S A O : Nat) (q : Nat → Nat → Rat) : (fromQFunction S A O q).length = A := by
  simp [fromQFunction]

theorem fromQFunction_entry (S A O : Nat) (q : Nat → Nat → Rat) (a : Nat) (ha : a < A) :
    entryAt (fromQFunction S A O q) a = ⟨(List.range S).map (fun s => q s a), a, List.replicate O 0⟩ := by
  unfold entryAt fromQFunction
  simp [List.getD_eq_getElem?_getD, ha]

/-- **qmdp_consistent_partial** (VI horizon 1).  For every POMDP with O ≥ 1: the value function
    `[zero entry], fromQFunction(R)` — what `QMDP(1)` returns — is `Consistent`: action tags in range, `O` links each,
    all links in range, every vector the one-step plan of its action. -/
theorem qmdp_consistent_partial (m : Pomdp) :
    Consistent m (zeroVF m.S ++ [fromQFunction m.S m.A m.O (fun s a => m.R s a)]) := by
  intro h hh id hid
  have h0 : h = 0 := by simp [zeroVF] at hh; omega
  subst h0
  have hl1 : vlist (zeroVF m.S ++ [fromQFunction m.S m.A m.O (fun s a => m.R s a)]) 1 =
      fromQFunction m.S m.A m.O (fun s a => m.R s a) := by simp [vlist, zeroVF]
  have hl0 : vlist (zeroVF m.S ++ [fromQFunction m.S m.A m.O (fun s a => m.R s a)]) 0 =
      [⟨List.replicate m.S 0, 0, []⟩] := by simp [vlist, zeroVF]
  rw [hl1, fromQFunction_length] at hid
  unfold entry
  rw [hl1, hl0, fromQFunction_entry _ _ _ _ id hid]
  refine ⟨hid, by simp, by simp, ?_, ?_⟩
  · intro o ho
    simp [link, List.getD_eq_getElem?_getD, ho]
  · intro s hs
    have hv : val ⟨(List.range m.S).map (fun s => m.R s id), id, List.replicate m.O 0⟩ s = m.R s id := by
      simp [val, List.getD_eq_getElem?_getD, hs]
    rw [hv]
    unfold oneStep
    have hz : sumTo m.O (fun o =>
        if possible m id o then
          sumTo m.S (fun s1 => m.T id s s1 * m.Ob id s1 o *
            val (entryAt [⟨List.replicate m.S 0, 0, []⟩] (link ⟨(List.range m.S).map (fun s => m.R s id), id, List.replicate m.O 0⟩ o)) s1)
        else 0) = 0 := by
      refine Eq.trans (sumTo_congr (g := fun _ => 0) ?_) (sumTo_zero m.O)
      intro o ho
      have hlk : link ⟨(List.range m.S).map (fun s => m.R s id), id, List.replicate m.O 0⟩ o = 0 := by
        simp [link, List.getD_eq_getElem?_getD, ho]
      rw [hlk]
      split
      · refine Eq.trans (sumTo_congr (g := fun _ => 0) ?_) (sumTo_zero m.S)
        intro s1 _
        have : entryAt [⟨List.replicate m.S 0, 0, []⟩] 0 = ⟨List.replicate m.S 0, 0, []⟩ := rfl
        rw [this, val_replicate_zero]; ring
      · rfl
    show m.R s id = m.R s id + m.disc * _
    rw [hz]; ring

end AITB.Plan
