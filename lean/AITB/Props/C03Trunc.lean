/-
  AITB.Props.C03Trunc — the library's 1e-6 cut-offs on the UPPER side, with the slack they cost, proved for every history.

  Three places drop probability mass below `equalToleranceSmall`:
    * `GapMin::makeNewPomdp`: a SOSA row is left empty when the successor's mass is below the threshold, entries of the successor below the
      threshold are treated as zero by `LPInterpolation` (`zeroStates`), and returned weights below the threshold are not stored
      (`checkDifferentSmall(dist[i], 0.0)`, "Remove infinitesimal/negative values");
    * `bestPromisingAction` / `SARSOP::backupNode`: an observation whose probability is below the threshold is skipped (`continue`).
  After such a cut the stored weights reconstruct the successor only up to a non-negative RESIDUAL of small mass, so the exact hypotheses
  of the events `fibPass` / `poolAdd` (`hrec`, "skipped ⇒ exactly zero") do not hold.  Here the events are stated with the residual
  (`fibPassT`, `poolAddT`) and the invariant is proved for the lower reference LOWERED by `e` per unit of mass (`shiftV`):

      Sound m U (shiftV e L)      — every upper-bound component dominates `L − e·mass`.

  The shifted reference is still a sublinear sub-solution, with room `(1−γ)·e·mass` in `V ≤ H V` (`shift_subSol_room`); that room pays for the
  dropped mass as soon as `C · D ≤ (1−γ) · e`, where `C·mass` bounds `H L` (`C = max R / (1−γ)`) and `D` bounds the mass dropped per
  (pseudo-state, action).  `anytimeT_sound`: after ANY history of exact and truncated events the reported upper bounds are sound up to `e`.
  `truncW_residual`: the cut the library applies (weights `≤ θ` zeroed, pseudo-states of mass 1) drops at most `n·θ` per (a,o).
-/
import AITB.Props.C03GapMin
import AITB.Props.C03Gap
import AITB.Props.C03Trace

namespace AITB.POMDP3
open AITB.MDP

/-- `V` lowered by `e` per unit of mass -/
def shiftV (S : Nat) (e : Rat) (V : (Nat → Rat) → Rat) : (Nat → Rat) → Rat := fun x => V x - e * mass S x

theorem mass_add (S : Nat) (x y : Nat → Rat) : mass S (fun s => x s + y s) = mass S x + mass S y := sumTo_add S x y
theorem mass_smul (S : Nat) (c : Rat) (x : Nat → Rat) : mass S (fun s => c * x s) = c * mass S x := sumTo_mul_left S c x
theorem mass_congr (S : Nat) {x y : Nat → Rat} (h : ∀ s, s < S → x s = y s) : mass S x = mass S y := sumTo_congr h

theorem shift_sublin (S : Nat) (e : Rat) (V : (Nat → Rat) → Rat) (hV : Sublin S V) : Sublin S (shiftV S e V) where
  loc := by
    intro x y h
    unfold shiftV
    rw [hV.loc x y h, mass_congr S h]
  subadd := by
    intro x y hx hy
    unfold shiftV
    have := hV.subadd x y hx hy
    rw [mass_add]
    linarith
  homog := by
    intro c x hc hx
    unfold shiftV
    rw [hV.homog c x hc hx, mass_smul]
    ring

/-- the look-ahead on the shifted function is the look-ahead shifted by `γ·e·mass` -/
theorem qval_shift (m : POMDP) (hv : Valid m) (e : Rat) (V : (Nat → Rat) → Rat) (x : Nat → Rat) (a : Nat) :
    qval m (shiftV m.S e V) x a = qval m V x a - m.γ * e * mass m.S x := by
  unfold qval shiftV
  have h : sumTo m.O (fun o => V (bstep m x a o) - e * mass m.S (bstep m x a o))
      = sumTo m.O (fun o => V (bstep m x a o)) - e * mass m.S x := by
    rw [sumTo_sub, sumTo_mul_left, mass_bstep m hv x a]
  rw [h]; ring

theorem Hop_shift (m : POMDP) (hv : Valid m) (e : Rat) (V : (Nat → Rat) → Rat) (x : Nat → Rat) :
    Hop m (shiftV m.S e V) x = Hop m V x - m.γ * e * mass m.S x := by
  unfold Hop
  have : (qval m (shiftV m.S e V) x) = fun a => qval m V x a + (-(m.γ * e * mass m.S x)) := by
    funext a; rw [qval_shift m hv]; ring
  rw [this, maxTo_add_const]; ring

/-- **room**: the shifted function satisfies `V ≤ H V` with `(1−γ)·e·mass` to spare -/
theorem shift_subSol_room (m : POMDP) (hv : Valid m) (e : Rat) (V : (Nat → Rat) → Rat) (hsub : SubSol m V) (x : Nat → Rat) (hx : NN x) :
    shiftV m.S e V x + (1 - m.γ) * e * mass m.S x ≤ Hop m (shiftV m.S e V) x := by
  rw [Hop_shift m hv]
  unfold shiftV
  have := hsub x hx
  linarith

theorem shift_subSol (m : POMDP) (hv : Valid m) (e : Rat) (he : 0 ≤ e) (V : (Nat → Rat) → Rat) (hsub : SubSol m V) : SubSol m (shiftV m.S e V) := by
  intro x hx
  have h := shift_subSol_room m hv e V hsub x hx
  have h1 : 0 ≤ (1 - m.γ) * e * mass m.S x :=
    mul_nonneg (mul_nonneg (by have := hv.γ1; linarith) he) (mass_nonneg m.S x hx)
  linarith

/-- `H` of the shifted function stays below `C·mass` when `H L` does -/
theorem Hop_shift_le (m : POMDP) (hv : Valid m) (e : Rat) (he : 0 ≤ e) (V : (Nat → Rat) → Rat) (C : Rat)
    (hC : ∀ x, NN x → Hop m V x ≤ C * mass m.S x) (x : Nat → Rat) (hx : NN x) : Hop m (shiftV m.S e V) x ≤ C * mass m.S x := by
  rw [Hop_shift m hv]
  have h1 : 0 ≤ m.γ * e * mass m.S x := mul_nonneg (mul_nonneg hv.γ0 he) (mass_nonneg m.S x hx)
  have := hC x hx
  linarith

/-- **FastInformedBound step on a TRUNCATED table.**  The stored weights `W` reconstruct every successor up to a non-negative residual
    `d a o i` (what the 1e-6 cut-offs dropped); `D i a` bounds the mass dropped over all observations.  If `C·mass` bounds `H V` and
    `C·D i a ≤ (1−γ)·e·mass (bel i)`, one step preserves soundness of all rows w.r.t. `V − e·mass`. -/
theorem fibStepW_trunc_sound (m : POMDP) (hv : Valid m) (V : (Nat → Rat) → Rat) (hV : Sublin m.S V) (hsub : SubSol m V)
    (e C : Rat) (he : 0 ≤ e) (hC0 : 0 ≤ C) (hC : ∀ x, NN x → Hop m V x ≤ C * mass m.S x)
    (n : Nat) (bel : Nat → Nat → Rat) (hbel : ∀ i, i < n → NN (bel i))
    (R' : Nat → Nat → Rat) (hR : ∀ i, i < n → ∀ a, a < m.A → R' i a = rew m (bel i) a)
    (W : Nat → Nat → Nat → Nat → Rat) (hW0 : ∀ a o i j, 0 ≤ W a o i j)
    (d : Nat → Nat → Nat → Nat → Rat) (hd0 : ∀ a o i, NN (d a o i)) (D : Nat → Nat → Rat)
    (hrec : ∀ a, a < m.A → ∀ o, o < m.O → ∀ i, i < n → ∀ s1, s1 < m.S →
      bstep m (bel i) a o s1 = sumTo n (fun j => W a o i j * bel j s1) + d a o i s1)
    (hD : ∀ i, i < n → ∀ a, a < m.A → sumTo m.O (fun o => mass m.S (d a o i)) ≤ D i a)
    (hpay : ∀ i, i < n → ∀ a, a < m.A → C * D i a ≤ (1 - m.γ) * e * mass m.S (bel i))
    (Q : Nat → Nat → Rat) (hQ : ∀ i, i < n → ∀ a, a < m.A → qval m (shiftV m.S e V) (bel i) a ≤ Q i a) :
    ∀ i, i < n → ∀ a, a < m.A → qval m (shiftV m.S e V) (bel i) a ≤ fibStepW n m.A m.O m.γ R' W Q i a := by
  intro i hi a ha
  have hV' := shift_sublin m.S e V hV
  unfold fibStepW
  rw [hR i hi a ha]
  unfold qval
  -- per observation: value of the successor ≤ FIB term + C·(dropped mass) − room
  have key : ∀ o, o < m.O → shiftV m.S e V (bstep m (bel i) a o) ≤
      maxTo (m.A - 1) (fun a' => sumTo n (fun j => W a o i j * Q j a')) + C * mass m.S (d a o i)
        - (1 - m.γ) * e * mass m.S (bstep m (bel i) a o) := by
    intro o ho
    have hy := bstep_nonneg m hv (bel i) (hbel i hi) a o
    have hroom := shift_subSol_room m hv e V hsub _ hy
    obtain ⟨a', ha', he'⟩ := Hop_attained m hv.A0 (shiftV m.S e V) (bstep m (bel i) a o)
    have hq := Sublin_qval m hv (shiftV m.S e V) hV' a'
    have hmix : NN (fun s1 => sumTo n (fun j => W a o i j * bel j s1)) :=
      fun s1 => sumTo_nonneg (fun j hj => mul_nonneg (hW0 a o i j) (hbel j hj s1))
    have e1 : qval m (shiftV m.S e V) (bstep m (bel i) a o) a'
        = qval m (shiftV m.S e V) (fun s1 => sumTo n (fun j => W a o i j * bel j s1) + d a o i s1) a' :=
      hq.loc _ _ (fun s1 hs1 => hrec a ha o ho i hi s1 hs1)
    have h0 := hq.subadd _ _ hmix (hd0 a o i)
    have h1 := sublin_combo m.S _ hq n (fun j => W a o i j) bel (fun j _ => hW0 a o i j) hbel
    beta_reduce at h0 h1
    have h2 : sumTo n (fun j => W a o i j * qval m (shiftV m.S e V) (bel j) a') ≤ sumTo n (fun j => W a o i j * Q j a') :=
      sumTo_le (fun j hj => mul_le_mul_of_nonneg_left (hQ j hj a' ha') (hW0 a o i j))
    have h3 := maxTo_ge (m.A - 1) (fun a' => sumTo n (fun j => W a o i j * Q j a')) a' (by omega)
    beta_reduce at h3
    have h4 : qval m (shiftV m.S e V) (d a o i) a' ≤ C * mass m.S (d a o i) :=
      le_trans (qval_le_Hop m hv.A0 _ _ a' ha') (Hop_shift_le m hv e he V C hC _ (hd0 a o i))
    linarith
  have hsum := sumTo_le (f := fun o => shiftV m.S e V (bstep m (bel i) a o)) key
  have hsplit : sumTo m.O (fun o => maxTo (m.A - 1) (fun a' => sumTo n (fun j => W a o i j * Q j a')) + C * mass m.S (d a o i)
        - (1 - m.γ) * e * mass m.S (bstep m (bel i) a o))
      = sumTo m.O (fun o => maxTo (m.A - 1) (fun a' => sumTo n (fun j => W a o i j * Q j a')))
        + C * sumTo m.O (fun o => mass m.S (d a o i)) - (1 - m.γ) * e * mass m.S (bel i) := by
    rw [sumTo_sub, sumTo_add, sumTo_mul_left, sumTo_mul_left, mass_bstep m hv (bel i) a]
  rw [hsplit] at hsum
  have hDi := mul_le_mul_of_nonneg_left (hD i hi a ha) hC0
  have hp := hpay i hi a ha
  have := mul_le_mul_of_nonneg_left hsum hv.γ0
  nlinarith [hv.γ0]

/-- **per-action value of bestPromisingAction with the probability cut-off**: observations may be skipped whenever their mass is at most
    `θ`; the value still dominates the look-ahead on `V − e·mass` at a belief of mass `μ` once `C·O·θ ≤ (1−γ)·e·(μ − O·θ)`. -/
theorem promisingVal_trunc_ge (m : POMDP) (hv : Valid m) (V : (Nat → Rat) → Rat) (hsub : SubSol m V)
    (e C θ : Rat) (he : 0 ≤ e) (hC0 : 0 ≤ C) (hθ : 0 ≤ θ) (hC : ∀ x, NN x → Hop m V x ≤ C * mass m.S x)
    (x : Nat → Rat) (hx : NN x) (a : Nat) (skip : Nat → Bool) (iv : Nat → Rat)
    (h : ∀ o, o < m.O → if skip o then mass m.S (bstep m x a o) ≤ θ else Hop m (shiftV m.S e V) (bstep m x a o) ≤ iv o)
    (hpay : C * ((m.O : Rat) * θ) ≤ (1 - m.γ) * e * (mass m.S x - (m.O : Rat) * θ)) :
    qval m (shiftV m.S e V) x a ≤ promisingVal m x a skip iv := by
  unfold qval promisingVal
  -- per observation: V'(y) ≤ (skipped ? 0 : iv) + (skipped ? C·mass y + room·mass y : 0) − room·mass y
  have key : ∀ o, o < m.O → shiftV m.S e V (bstep m x a o) ≤
      (if skip o then 0 else iv o) + (if skip o then (C + (1 - m.γ) * e) * mass m.S (bstep m x a o) else 0)
        - (1 - m.γ) * e * mass m.S (bstep m x a o) := by
    intro o ho
    have hy := bstep_nonneg m hv x hx a o
    have hroom := shift_subSol_room m hv e V hsub _ hy
    have ho' := h o ho
    by_cases hs : skip o = true
    · simp only [hs, if_true] at ho' ⊢
      have := Hop_shift_le m hv e he V C hC _ hy
      have hr0 : 0 ≤ (1 - m.γ) * e * mass m.S (bstep m x a o) :=
        mul_nonneg (mul_nonneg (by have := hv.γ1; linarith) he) (mass_nonneg m.S _ hy)
      linarith
    · simp only [hs] at ho' ⊢
      simp only [Bool.false_eq_true, if_false] at ho' ⊢
      linarith
  have hsum := sumTo_le (f := fun o => shiftV m.S e V (bstep m x a o)) key
  have hsplit : sumTo m.O (fun o => (if skip o then 0 else iv o) + (if skip o then (C + (1 - m.γ) * e) * mass m.S (bstep m x a o) else 0)
        - (1 - m.γ) * e * mass m.S (bstep m x a o))
      = sumTo m.O (fun o => if skip o then 0 else iv o)
        + sumTo m.O (fun o => if skip o then (C + (1 - m.γ) * e) * mass m.S (bstep m x a o) else 0) - (1 - m.γ) * e * mass m.S x := by
    rw [sumTo_sub, sumTo_add, sumTo_mul_left, mass_bstep m hv x a]
  rw [hsplit] at hsum
  have hg : 0 ≤ 1 - m.γ := by have := hv.γ1; linarith
  have hce : 0 ≤ C + (1 - m.γ) * e := add_nonneg hC0 (mul_nonneg hg he)
  have hskip : sumTo m.O (fun o => if skip o then (C + (1 - m.γ) * e) * mass m.S (bstep m x a o) else 0)
      ≤ sumTo m.O (fun _ => (C + (1 - m.γ) * e) * θ) := by
    refine sumTo_le (fun o ho => ?_)
    have ho' := h o ho
    have hy := mass_nonneg m.S _ (bstep_nonneg m hv x hx a o)
    by_cases hs : skip o = true
    · simp only [hs, if_true] at ho' ⊢
      exact mul_le_mul_of_nonneg_left ho' hce
    · simp only [hs]
      simp only [Bool.false_eq_true, if_false]
      exact mul_nonneg hce hθ
  have hconst : sumTo m.O (fun _ => (C + (1 - m.γ) * e) * θ) = (m.O : Rat) * ((C + (1 - m.γ) * e) * θ) := by
    induction m.O with
    | zero => simp [sumTo]
    | succ k ih => simp only [sumTo, ih]; push_cast; ring
  rw [hconst] at hskip
  have := mul_le_mul_of_nonneg_left hsum hv.γ0
  nlinarith [hv.γ0]

/-! ## the event system with the cut-offs -/

/-- the events of `anytime_sound` (`exact`) plus the forms the library really executes: a per-action value that skips observations of mass at
    most `θ` at a normalised belief, and a FastInformedBound pass on a table that reconstructs the successors of its (normalised)
    pseudo-states up to residuals of total mass at most `Dmax` per (pseudo-state, action) -/
inductive StepT (m : POMDP) (θ Dmax : Rat) : AState → AState → Prop
  | exact {st st' : AState} : Step m st st' → StepT m θ Dmax st st'
  | poolAddT (st : AState) (b : Nat → Rat) (a : Nat) (skip : Nat → Bool) (iv : Nat → Rat) (hb : NN b) (hmass : mass m.S b = 1) (ha : a < m.A)
      (h : ∀ o, o < m.O → if skip o then mass m.S (bstep m b a o) ≤ θ else IsInterp m st (bstep m b a o) (iv o)) :
      StepT m θ Dmax st { st with pool := fun b' a' u => st.pool b' a' u ∨ (b' = b ∧ a' = a ∧ u = promisingVal m b a skip iv) }
  | fibPassT (st : AState) (n : Nat) (bel : Nat → Nat → Rat) (Q0 : Nat → Nat → Rat) (R' : Nat → Nat → Rat)
      (W : Nat → Nat → Nat → Nat → Rat) (d : Nat → Nat → Nat → Nat → Rat) (k : Nat)
      (hn : m.S ≤ n) (hcorner : ∀ s, s < m.S → bel s = unit s)
      (hrows : ∀ i, i < n → (i < m.S ∧ ∀ a, a < m.A → Q0 i a = st.Q i a) ∨ (∃ r, st.aug (bel i) r ∧ ∀ a, a < m.A → Q0 i a = r a))
      (hmass : ∀ i, i < n → mass m.S (bel i) = 1)
      (hR : ∀ i, i < n → ∀ a, a < m.A → R' i a = rew m (bel i) a)
      (hW0 : ∀ a o i j, 0 ≤ W a o i j) (hd0 : ∀ a o i, NN (d a o i))
      (hrec : ∀ a, a < m.A → ∀ o, o < m.O → ∀ i, i < n → ∀ s1, s1 < m.S →
        bstep m (bel i) a o s1 = sumTo n (fun j => W a o i j * bel j s1) + d a o i s1)
      (hD : ∀ i, i < n → ∀ a, a < m.A → sumTo m.O (fun o => mass m.S (d a o i)) ≤ Dmax) :
      StepT m θ Dmax st { st with
        Q := Nat.iterate (fibStepW n m.A m.O m.γ R' W) k Q0,
        aug := fun b r => ∃ i, i < n ∧ b = bel i ∧ r = Nat.iterate (fibStepW n m.A m.O m.γ R' W) k Q0 i,
        P := fun b u => ∃ i, i < n ∧ b = bel i ∧ u = maxTo (m.A - 1) (Nat.iterate (fibStepW n m.A m.O m.γ R' W) k Q0 i) }

/-- every event, exact or truncated, preserves soundness w.r.t. the lowered reference once the slack `e` pays for both cut-offs -/
theorem SoundT_step (m : POMDP) (hv : Valid m) (U L : (Nat → Rat) → Rat) (hU : SuperSol m U) (hL : Sublin m.S L) (hsub : SubSol m L)
    (e C θ Dmax : Rat) (he : 0 ≤ e) (hC0 : 0 ≤ C) (hθ : 0 ≤ θ) (hC : ∀ x, NN x → Hop m L x ≤ C * mass m.S x)
    (hpayF : C * Dmax ≤ (1 - m.γ) * e) (hpayP : C * ((m.O : Rat) * θ) ≤ (1 - m.γ) * e * (1 - (m.O : Rat) * θ))
    (st st' : AState) (hs : Sound m U (shiftV m.S e L) st) (h : StepT m θ Dmax st st') : Sound m U (shiftV m.S e L) st' := by
  have hL' := shift_sublin m.S e L hL
  have hsub' := shift_subSol m hv e he L hsub
  cases h with
  | exact hstep => exact Sound_step m hv U _ hU hL' hsub' _ _ hs hstep
  | poolAddT b a skip iv hb hmass ha h =>
    refine { hs with pool := ?_ }
    intro b' a' u hu
    rcases hu with hu | ⟨rfl, rfl, rfl⟩
    · exact hs.pool b' a' u hu
    · refine ⟨hb, ha, promisingVal_trunc_ge m hv L hsub e C θ he hC0 hθ hC b' hb a' skip iv (fun o ho => ?_) (by rw [hmass]; exact hpayP)⟩
      have ho' := h o ho
      by_cases hsk : skip o = true
      · simp only [hsk, if_true] at ho' ⊢; exact ho'
      · simp only [hsk] at ho' ⊢
        simp only [Bool.false_eq_true, if_false] at ho' ⊢
        exact isInterp_ge m hv U _ hL' st hs _ (bstep_nonneg m hv b' hb a' o) _ ho'
  | fibPassT n bel Q0 R' W d k hn hcorner hrows hmass hR hW0 hd0 hrec hD =>
    have hbel : ∀ i, i < n → NN (bel i) := by
      intro i hi
      rcases hrows i hi with ⟨hiS, _⟩ | ⟨r, hr, _⟩
      · rw [hcorner i hiS]; exact NN_unit i
      · exact (hs.aug _ r hr).1
    have h0 : ∀ i, i < n → ∀ a, a < m.A → qval m (shiftV m.S e L) (bel i) a ≤ Q0 i a := by
      intro i hi a ha
      rcases hrows i hi with ⟨hiS, hq⟩ | ⟨r, hr, hq⟩
      · rw [hq a ha, hcorner i hiS]; exact hs.q i hiS a ha
      · rw [hq a ha]; exact (hs.aug _ r hr).2 a ha
    have hk := iterate_inv (fibStepW n m.A m.O m.γ R' W) (fun Q => ∀ i, i < n → ∀ a, a < m.A → qval m (shiftV m.S e L) (bel i) a ≤ Q i a)
      (fun Q hQ => fibStepW_trunc_sound m hv L hL hsub e C he hC0 hC n bel hbel R' hR W hW0 d hd0 (fun _ _ => Dmax) hrec hD
        (fun i hi a _ => by rw [hmass i hi, mul_one]; exact hpayF) Q hQ) k Q0 h0
    refine { vecs := hs.vecs, pool := hs.pool, q := ?_, pts := ?_, aug := ?_ }
    · intro s hs' a ha
      have := hk s (by omega) a ha
      rw [hcorner s hs'] at this; exact this
    · intro b u ⟨i, hi, hb, hu⟩
      subst hb; subst hu
      refine ⟨hbel i hi, ?_⟩
      obtain ⟨a, ha, he'⟩ := Hop_attained m hv.A0 (shiftV m.S e L) (bel i)
      rw [he']
      exact le_trans (hk i hi a ha) (maxTo_ge (m.A - 1) _ a (by omega))
    · intro b r ⟨i, hi, hb, hr⟩
      subst hb; subst hr
      exact ⟨hbel i hi, fun a ha => hk i hi a ha⟩

inductive ReachT (m : POMDP) (θ Dmax : Rat) (s0 : AState) : AState → Prop
  | init : ReachT m θ Dmax s0 s0
  | step {s s' : AState} : ReachT m θ Dmax s0 s → StepT m θ Dmax s s' → ReachT m θ Dmax s0 s'

/-- **anytimeT_sound**: after every prefix of a history of exact and truncated events, every value the interpolation can return at a belief
    (GapMin's `ub`), every maximum of per-action values (SARSOP's `ub`) and the corner surface dominate `L − e·mass`; the lower-bound
    vectors are untouched by the cut-offs and stay below `U` exactly. -/
theorem anytimeT_sound (m : POMDP) (hv : Valid m) (U L : (Nat → Rat) → Rat) (hU : SuperSol m U) (hL : Sublin m.S L) (hsub : SubSol m L)
    (e C θ Dmax : Rat) (he : 0 ≤ e) (hC0 : 0 ≤ C) (hθ : 0 ≤ θ) (hC : ∀ x, NN x → Hop m L x ≤ C * mass m.S x)
    (hpayF : C * Dmax ≤ (1 - m.γ) * e) (hpayP : C * ((m.O : Rat) * θ) ≤ (1 - m.γ) * e * (1 - (m.O : Rat) * θ))
    (s0 st : AState) (h0 : Sound m U L s0) (hr : ReachT m θ Dmax s0 st) :
    (∀ b0, NN b0 → ∀ α, st.Γ α → dotS m.S b0 α ≤ U b0) ∧
    (∀ b0, NN b0 → ∀ u, IsInterp m st b0 u → L b0 - e * mass m.S b0 ≤ u) ∧
    (∀ b0, NN b0 → ∀ u, (∀ a, a < m.A → ∃ u', st.pool b0 a u' ∧ u' ≤ u) → L b0 - e * mass m.S b0 ≤ u) ∧
    (∀ x, NN x → L x - e * mass m.S x ≤ basicVal m.S m.A st.Q x) := by
  have hL' := shift_sublin m.S e L hL
  have hsub' := shift_subSol m hv e he L hsub
  -- a state sound for `L` is sound for the lowered reference
  have hle : ∀ x, NN x → ∀ a, qval m (shiftV m.S e L) x a ≤ qval m L x a := by
    intro x hx a
    rw [qval_shift m hv]
    have : 0 ≤ m.γ * e * mass m.S x := mul_nonneg (mul_nonneg hv.γ0 he) (mass_nonneg m.S x hx)
    linarith
  have hHle : ∀ x, NN x → Hop m (shiftV m.S e L) x ≤ Hop m L x := by
    intro x hx
    rw [Hop_shift m hv]
    have : 0 ≤ m.γ * e * mass m.S x := mul_nonneg (mul_nonneg hv.γ0 he) (mass_nonneg m.S x hx)
    linarith
  have h0' : Sound m U (shiftV m.S e L) s0 :=
    { vecs := h0.vecs
      q := fun s hs a ha => le_trans (hle _ (NN_unit s) a) (h0.q s hs a ha)
      pts := fun b u hb => ⟨(h0.pts b u hb).1, le_trans (hHle b (h0.pts b u hb).1) (h0.pts b u hb).2⟩
      pool := fun b a u hb => ⟨(h0.pool b a u hb).1, (h0.pool b a u hb).2.1, le_trans (hle b (h0.pool b a u hb).1 a) (h0.pool b a u hb).2.2⟩
      aug := fun b r hb => ⟨(h0.aug b r hb).1, fun a ha => le_trans (hle b (h0.aug b r hb).1 a) ((h0.aug b r hb).2 a ha)⟩ }
  have hs : Sound m U (shiftV m.S e L) st := by
    induction hr with
    | init => exact h0'
    | step _ hstep ih => exact SoundT_step m hv U L hU hL hsub e C θ Dmax he hC0 hθ hC hpayF hpayP _ _ ih hstep
  refine ⟨fun b0 hb α hα => hs.vecs α hα b0 hb, fun b0 hb u hu => ?_, fun b0 hb u hu => ?_, fun x hx => ?_⟩
  · exact le_trans (hsub' b0 hb) (isInterp_ge m hv U _ hL' st hs b0 hb u hu)
  · exact le_trans (hsub' b0 hb) (max_pool_ge_Hop m hv _ st.pool hs.pool b0 u hu)
  · exact fib_ge_v m hv _ hL' hsub' st.Q hs.q x hx

/-! ## what the library's cut costs -/

/-- `if (checkDifferentSmall(dist[i], 0.0)) m.insert(index, i) = dist[i];` on non-negative weights -/
def truncW (θ : Rat) (w : Nat → Rat) : Nat → Rat := fun j => if w j ≤ θ then 0 else w j

theorem truncW_nonneg (θ : Rat) (w : Nat → Rat) (hw : ∀ j, 0 ≤ w j) : ∀ j, 0 ≤ truncW θ w j := by
  intro j; unfold truncW; split
  · exact le_refl 0
  · exact hw j

theorem sumTo_const (n : Nat) (c : Rat) : sumTo n (fun _ => c) = (n : Rat) * c := by
  induction n with
  | zero => simp [sumTo]
  | succ k ih => simp only [sumTo, ih]; push_cast; ring

/-- **the cut of `makeNewPomdp`**: zeroing the weights that are at most `θ` in a non-negative reconstruction over `n` pseudo-states of mass 1
    leaves a non-negative residual of mass at most `n·θ` -/
theorem truncW_residual (S n : Nat) (θ : Rat) (hθ : 0 ≤ θ) (bel : Nat → Nat → Rat) (hbel : ∀ j, j < n → NN (bel j))
    (hm : ∀ j, j < n → mass S (bel j) = 1) (w : Nat → Rat) (hw : ∀ j, 0 ≤ w j) (y : Nat → Rat)
    (hrec : ∀ s, s < S → y s = sumTo n (fun j => w j * bel j s)) :
    ∃ d : Nat → Rat, NN d ∧ (∀ s, s < S → y s = sumTo n (fun j => truncW θ w j * bel j s) + d s) ∧ mass S d ≤ (n : Rat) * θ := by
  have hdiff : ∀ j, 0 ≤ w j - truncW θ w j ∧ w j - truncW θ w j ≤ θ := by
    intro j; unfold truncW; split
    · rename_i h; exact ⟨by have := hw j; linarith, by linarith⟩
    · exact ⟨by linarith, by linarith⟩
  refine ⟨fun s => sumTo n (fun j => (w j - truncW θ w j) * bel j s), fun s => ?_, fun s hs => ?_, ?_⟩
  · exact sumTo_nonneg (fun j hj => mul_nonneg (hdiff j).1 (hbel j hj s))
  · rw [hrec s hs, ← sumTo_add]
    exact sumTo_congr (fun j _ => by ring)
  · unfold mass
    rw [sumTo_comm]
    have : sumTo n (fun j => sumTo S (fun s => (w j - truncW θ w j) * bel j s)) ≤ sumTo n (fun _ => θ) := by
      refine sumTo_le (fun j hj => ?_)
      rw [sumTo_mul_left]
      have := hm j hj
      unfold mass at this
      rw [this, mul_one]
      exact (hdiff j).2
    rw [sumTo_const] at this
    exact this

/-! the slack that pays: `truncSlack γ C D = C·D/(1−γ)` (Model/POMDP3, used by the driver's `cutSlack`) -/

theorem truncSlack_pays (γ C D : Rat) (hγ : γ < 1) : C * D ≤ (1 - γ) * truncSlack γ C D := by
  unfold truncSlack
  have h : (1 - γ) ≠ 0 := by intro h; linarith
  rw [mul_div_assoc', mul_comm (1 - γ), mul_div_assoc, div_self h, mul_one]

theorem truncSlack_nonneg (γ C D : Rat) (hγ : γ < 1) (hC : 0 ≤ C) (hD : 0 ≤ D) : 0 ≤ truncSlack γ C D := by
  unfold truncSlack
  exact div_nonneg (mul_nonneg hC hD) (by linarith)

/-- the hypotheses of `truncW_residual` and of the slack are satisfiable: two pseudo-states (corners of a 2-state model), weights
    `(1/2, 1/2000000)`, threshold `1e-6` — the second weight is dropped, the residual has mass `1/2000000 ≤ 2·1e-6` (test on literals) -/
example : ∃ d : Nat → Rat, NN d ∧
    (∀ s, s < 2 → (fun s => if s = 0 then (1:Rat)/2 else if s = 1 then 1/2000000 else 0) s
      = sumTo 2 (fun j => truncW (1/1000000) (fun j => if j = 0 then (1:Rat)/2 else 1/2000000) j * unit j s) + d s) ∧
    mass 2 d ≤ ((2 : Nat) : Rat) * (1/1000000) :=
  truncW_residual 2 2 (1/1000000) (by norm_num) (fun j => unit j) (fun j _ => NN_unit j) (fun j hj => mass_unit 2 j hj)
    (fun j => if j = 0 then (1:Rat)/2 else 1/2000000) (fun j => by split <;> norm_num) _
    (fun s hs => by
      have : s = 0 ∨ s = 1 := by omega
      rcases this with rfl | rfl <;> simp [sumTo, unit])

example : (3 : Rat) * (1/1000) ≤ (1 - 1/2) * truncSlack (1/2) 3 (1/1000) := truncSlack_pays _ _ _ (by norm_num)

/-! ## the cut as the source has it (`tools/extract_c03.py` → `Gen.C03Src.gapminWeightCut`, `gapminMassCut`, `projecterObsCut`; threshold
    `Gen.equalToleranceSmall`).  The statements hold for either value of the flags, so they keep applying once the cut is removed. -/

/-- what `makeNewPomdp` stores of a weight vector returned by `LPInterpolation` -/
def libCut (w : Nat → Rat) : Nat → Rat := if Gen.C03Src.gapminWeightCut then truncW Gen.equalToleranceSmall w else w

theorem tolSmall_nonneg : (0 : Rat) ≤ Gen.equalToleranceSmall := by unfold Gen.equalToleranceSmall; norm_num

theorem libCut_nonneg (w : Nat → Rat) (hw : ∀ j, 0 ≤ w j) : ∀ j, 0 ≤ libCut w j := by
  intro j; unfold libCut; split
  · exact truncW_nonneg _ w hw j
  · exact hw j

theorem libCut_diff (w : Nat → Rat) (hw : ∀ j, 0 ≤ w j) : ∀ j, 0 ≤ w j - libCut w j ∧ w j - libCut w j ≤ Gen.equalToleranceSmall := by
  intro j; unfold libCut; split
  · unfold truncW; split
    · exact ⟨by have := hw j; linarith, by linarith⟩
    · exact ⟨by linarith, by have := tolSmall_nonneg; linarith⟩
  · exact ⟨by linarith, by have := tolSmall_nonneg; linarith⟩

/-- a row of GapMin's belief-augmented SOSA table, as stored, reconstructs the successor up to a residual of mass at most `n·1e-6` -/
theorem libCut_residual (S n : Nat) (bel : Nat → Nat → Rat) (hbel : ∀ j, j < n → NN (bel j))
    (hm : ∀ j, j < n → mass S (bel j) = 1) (w : Nat → Rat) (hw : ∀ j, 0 ≤ w j) (y : Nat → Rat)
    (hrec : ∀ s, s < S → y s = sumTo n (fun j => w j * bel j s)) :
    (∀ j, 0 ≤ libCut w j) ∧
    ∃ d : Nat → Rat, NN d ∧ (∀ s, s < S → y s = sumTo n (fun j => libCut w j * bel j s) + d s) ∧ mass S d ≤ (n : Rat) * Gen.equalToleranceSmall := by
  refine ⟨libCut_nonneg w hw, fun s => sumTo n (fun j => (w j - libCut w j) * bel j s), fun s => ?_, fun s hs => ?_, ?_⟩
  · exact sumTo_nonneg (fun j hj => mul_nonneg (libCut_diff w hw j).1 (hbel j hj s))
  · rw [hrec s hs, ← sumTo_add]
    exact sumTo_congr (fun j _ => by ring)
  · unfold mass
    rw [sumTo_comm]
    have : sumTo n (fun j => sumTo S (fun s => (w j - libCut w j) * bel j s)) ≤ sumTo n (fun _ => Gen.equalToleranceSmall) := by
      refine sumTo_le (fun j hj => ?_)
      rw [sumTo_mul_left]
      have := hm j hj
      unfold mass at this
      rw [this, mul_one]
      exact (libCut_diff w hw j).2
    rw [sumTo_const] at this
    exact this

/-- a whole successor of mass at most the threshold whose row is left empty (`checkDifferentSmall(sum, 0.0)` false) is its own residual -/
theorem massCut_residual (S n : Nat) (bel : Nat → Nat → Rat) (y : Nat → Rat) (hy : NN y) (θ : Rat) (hmass : mass S y ≤ θ) :
    ∃ d : Nat → Rat, NN d ∧ (∀ s, s < S → y s = sumTo n (fun j => (0 : Rat) * bel j s) + d s) ∧ mass S d ≤ θ := by
  refine ⟨y, hy, fun s _ => ?_, hmass⟩
  have : sumTo n (fun j => (0 : Rat) * bel j s) = 0 := by
    rw [sumTo_mul_left]; ring
  rw [this]; ring

/-- **`makeNewPomdp` as executed is an instance of `fibPassT`.**  If the interpolation weights `W` reconstruct every successor exactly
    (C12 `lpinterp_weights` + `sosa_row_reconstructs`) over `n` pseudo-states of mass 1, the table the library stores — `libCut` of every
    row — reconstructs them up to explicit residuals whose mass, summed over the observations, is at most `O·n·1e-6`: the hypotheses
    `hW0`, `hd0`, `hrec`, `hD` of the event `fibPassT` with `Dmax = O·n·equalToleranceSmall`. -/
theorem cut_table_residuals (m : POMDP) (n : Nat) (bel : Nat → Nat → Rat) (hbel : ∀ j, j < n → NN (bel j))
    (hm : ∀ j, j < n → mass m.S (bel j) = 1) (W : Nat → Nat → Nat → Nat → Rat) (hW0 : ∀ a o i j, 0 ≤ W a o i j)
    (hrec : ∀ a, a < m.A → ∀ o, o < m.O → ∀ i, i < n → ∀ s1, s1 < m.S → bstep m (bel i) a o s1 = sumTo n (fun j => W a o i j * bel j s1)) :
    (∀ a o i j, 0 ≤ libCut (W a o i) j) ∧
    ∃ d : Nat → Nat → Nat → Nat → Rat, (∀ a o i, NN (d a o i)) ∧
      (∀ a, a < m.A → ∀ o, o < m.O → ∀ i, i < n → ∀ s1, s1 < m.S →
        bstep m (bel i) a o s1 = sumTo n (fun j => libCut (W a o i) j * bel j s1) + d a o i s1) ∧
      (∀ i, i < n → ∀ a, a < m.A → sumTo m.O (fun o => mass m.S (d a o i)) ≤ (m.O : Rat) * ((n : Rat) * Gen.equalToleranceSmall)) := by
  have hdiff : ∀ (w : Nat → Rat), (∀ j, 0 ≤ w j) → ∀ j, 0 ≤ w j - libCut w j ∧ w j - libCut w j ≤ Gen.equalToleranceSmall := libCut_diff
  refine ⟨fun a o i j => libCut_nonneg _ (hW0 a o i) j,
    fun a o i s => sumTo n (fun j => (W a o i j - libCut (W a o i) j) * bel j s), fun a o i s => ?_, fun a ha o ho i hi s1 hs1 => ?_, fun i _ a _ => ?_⟩
  · exact sumTo_nonneg (fun j hj => mul_nonneg (hdiff _ (hW0 a o i) j).1 (hbel j hj s))
  · rw [hrec a ha o ho i hi s1 hs1, ← sumTo_add]
    exact sumTo_congr (fun j _ => by ring)
  · rw [← sumTo_const]
    refine sumTo_le (fun o _ => ?_)
    unfold mass
    rw [sumTo_comm]
    have : sumTo n (fun j => sumTo m.S (fun s => (W a o i j - libCut (W a o i) j) * bel j s)) ≤ sumTo n (fun _ => Gen.equalToleranceSmall) := by
      refine sumTo_le (fun j hj => ?_)
      rw [sumTo_mul_left]
      have := hm j hj
      unfold mass at this
      rw [this, mul_one]
      exact (hdiff _ (hW0 a o i) j).2
    rw [sumTo_const] at this
    exact this

/-! ## the LOWER side: `Projecter::computePossibleObservations` treats an (action, observation) pair whose probability is at most 1e-6 in every
    successor state as impossible — its projection is the bare reward share, i.e. the continuation of that observation is the zero vector -/

/-- an observation that has probability at most `θ` in every successor state carries at most `θ·mass x` -/
theorem mass_bstep_le (m : POMDP) (hv : Valid m) (x : Nat → Rat) (hx : NN x) (a o : Nat) (θ : Rat)
    (hθ : ∀ s1, s1 < m.S → m.Ob s1 a o ≤ θ) : mass m.S (bstep m x a o) ≤ θ * mass m.S x := by
  unfold mass bstep
  have h1 : sumTo m.S (fun s1 => sumTo m.S (fun s => x s * m.T s a s1) * m.Ob s1 a o)
      ≤ sumTo m.S (fun s1 => θ * sumTo m.S (fun s => x s * m.T s a s1)) := by
    refine sumTo_le (fun s1 hs1 => ?_)
    have hn : 0 ≤ sumTo m.S (fun s => x s * m.T s a s1) := sumTo_nonneg (fun s _ => mul_nonneg (hx s) (hv.T0 s a s1))
    have := mul_le_mul_of_nonneg_left (hθ s1 hs1) hn
    linarith
  have h2 : sumTo m.S (fun s1 => sumTo m.S (fun s => x s * m.T s a s1)) = sumTo m.S x := by
    rw [sumTo_comm]
    refine sumTo_congr (fun s hs => ?_)
    rw [sumTo_mul_left, hv.T1 s a hs, mul_one]
  rw [sumTo_mul_left, h2] at h1
  exact h1

/-- **point backup with the possible-observation cut**: observations flagged `skip` (probability at most `θ` in every successor state)
    continue with the zero vector, the others with vectors that are sound up to `e` per unit of mass.  If `U ≥ cL·mass`, `K ≥ 0` bounds
    `−(cL+e)` and `γ·K·O·θ ≤ (1−γ)·e`, the backed-up vector is sound up to `e` again — at every unnormalised belief, for every action. -/
theorem pointBackup_cut_sound (m : POMDP) (hv : Valid m) (U : (Nat → Rat) → Rat) (hU : SuperSol m U) (cL e K θ : Rat)
    (hcL : ∀ y, NN y → cL * mass m.S y ≤ U y) (hK0 : 0 ≤ K) (hK : -(cL + e) ≤ K) (hθ0 : 0 ≤ θ)
    (hpay : m.γ * K * ((m.O : Rat) * θ) ≤ (1 - m.γ) * e)
    (a : Nat) (ha : a < m.A) (skip : Nat → Bool) (ch : Nat → Nat → Rat)
    (hch : ∀ o, o < m.O → if skip o then ((∀ s1, s1 < m.S → m.Ob s1 a o ≤ θ) ∧ ∀ s, ch o s = 0) else LBSoundE m U e (ch o)) :
    LBSoundE m U e (backupVec m a ch) := by
  intro x hx
  rw [dotS_backupVec]
  have hmx := mass_nonneg m.S x hx
  have key : ∀ o, o < m.O → dotS m.S (bstep m x a o) (ch o) ≤
      U (bstep m x a o) + e * mass m.S (bstep m x a o) + (if skip o then K * θ * mass m.S x else 0) := by
    intro o ho
    have hy := bstep_nonneg m hv x hx a o
    have ho' := hch o ho
    by_cases hs : skip o = true
    · simp only [hs, if_true] at ho' ⊢
      have hz : dotS m.S (bstep m x a o) (ch o) = 0 := by
        unfold dotS
        rw [sumTo_congr (g := fun _ => (0 : Rat)) (fun s _ => by rw [ho'.2 s, mul_zero]), sumTo_zero]
      rw [hz]
      have h1 := hcL _ hy
      have h2 := mass_bstep_le m hv x hx a o θ ho'.1
      have h3 := mass_nonneg m.S _ hy
      have h4 : -(cL + e) * mass m.S (bstep m x a o) ≤ K * mass m.S (bstep m x a o) := mul_le_mul_of_nonneg_right hK h3
      have h5 : K * mass m.S (bstep m x a o) ≤ K * (θ * mass m.S x) := mul_le_mul_of_nonneg_left h2 hK0
      nlinarith
    · simp only [hs] at ho' ⊢
      simp only [Bool.false_eq_true, if_false] at ho' ⊢
      have := ho' _ hy
      linarith
  have hsum := sumTo_le (f := fun o => dotS m.S (bstep m x a o) (ch o)) key
  have hsplit : sumTo m.O (fun o => U (bstep m x a o) + e * mass m.S (bstep m x a o) + (if skip o then K * θ * mass m.S x else 0))
      = sumTo m.O (fun o => U (bstep m x a o)) + e * mass m.S x + sumTo m.O (fun o => if skip o then K * θ * mass m.S x else 0) := by
    rw [sumTo_add, sumTo_add, sumTo_mul_left, mass_bstep m hv x a]
  rw [hsplit] at hsum
  have hnn : 0 ≤ K * θ * mass m.S x := mul_nonneg (mul_nonneg hK0 hθ0) hmx
  have hskip : sumTo m.O (fun o => if skip o then K * θ * mass m.S x else 0) ≤ (m.O : Rat) * (K * θ * mass m.S x) := by
    rw [← sumTo_const]
    refine sumTo_le (fun o _ => ?_)
    split
    · exact le_refl _
    · exact hnn
  have h1 := qval_le_Hop m hv.A0 U x a ha
  have h2 := hU x hx
  unfold qval at h1
  have h3 := mul_le_mul_of_nonneg_left hsum hv.γ0
  have h4 := mul_le_mul_of_nonneg_left hskip hv.γ0
  have h5 := mul_le_mul_of_nonneg_right hpay hmx
  nlinarith [hv.γ0, hv.γ1]

/-- the threshold `Projecter::computePossibleObservations` has in the source: `equalToleranceSmall`, or 0 once the test is `> 0.0` -/
def projTheta : Rat := if Gen.C03Src.projecterObsCut then Gen.equalToleranceSmall else 0

theorem projTheta_nonneg : 0 ≤ projTheta := by
  unfold projTheta; split
  · exact tolSmall_nonneg
  · exact le_refl 0

/-- the point backup PBVI / PERSEUS / GapMin's inner PBVI execute (Projecter with the possible-observation test the source has) is sound up to
    `e` per unit of mass whenever `γ·K·O·projTheta ≤ (1−γ)·e`; with the test `> 0.0` (`projTheta = 0`) that is every `e ≥ 0` -/
theorem pointBackup_src_cut_sound (m : POMDP) (hv : Valid m) (U : (Nat → Rat) → Rat) (hU : SuperSol m U) (cL e K : Rat)
    (hcL : ∀ y, NN y → cL * mass m.S y ≤ U y) (hK0 : 0 ≤ K) (hK : -(cL + e) ≤ K)
    (hpay : m.γ * K * ((m.O : Rat) * projTheta) ≤ (1 - m.γ) * e)
    (a : Nat) (ha : a < m.A) (skip : Nat → Bool) (ch : Nat → Nat → Rat)
    (hch : ∀ o, o < m.O → if skip o then ((∀ s1, s1 < m.S → m.Ob s1 a o ≤ projTheta) ∧ ∀ s, ch o s = 0) else LBSoundE m U e (ch o)) :
    LBSoundE m U e (backupVec m a ch) :=
  pointBackup_cut_sound m hv U hU cL e K projTheta hcL hK0 hK projTheta_nonneg hpay a ha skip ch hch

end AITB.POMDP3
