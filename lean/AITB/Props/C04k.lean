/-
  AITB.Props.C04k — Witness::operator() as modelled (agenda loop, tried-set, variations; the witness LP an arbitrary
  oracle that answers the first query) builds point-based value functions, hence `Consistent` ones.
-/
import AITB.Props.C04h

namespace AITB.Plan

theorem addVariations_inner_U (projs : VList) (variated : VEntry) (obs : List Nat) (o skip : Nat) :
    ∀ (l : List Nat) (st : WState),
      (l.foldl (fun (st : WState) i =>
          if i = skip then st else
          if st.tried.contains (obs.set o i) then st else
          { st with tried := obs.set o i :: st.tried,
                    agenda := st.agenda ++ [addV (subV variated.values (entryAt projs skip).values) (entryAt projs i).values] }) st).U = st.U
  | [], _ => rfl
  | i :: l, st => by
    simp only [List.foldl_cons]
    rw [addVariations_inner_U projs variated obs o skip l]
    split
    · rfl
    · split <;> rfl

theorem addVariations_U (row : List VList) (variated : VEntry) (st : WState) :
    (addVariations row variated st).U = st.U := by
  unfold addVariations
  have key : ∀ (l : List Nat) (acc : WState × List Nat),
      (l.foldl (fun (acc : WState × List Nat) o =>
        ((List.range (row.getD o []).length).foldl (fun (st : WState) i =>
          if i = acc.2.getD o 0 then st else
          if st.tried.contains (acc.2.set o i) then st else
          { st with tried := acc.2.set o i :: st.tried,
                    agenda := st.agenda ++ [addV (subV variated.values (entryAt (row.getD o []) (acc.2.getD o 0)).values)
                      (entryAt (row.getD o []) i).values] }) acc.1, acc.2)) acc).1.U = acc.1.U := by
    intro l
    induction l with
    | nil => intro acc; rfl
    | cons o l ih =>
      intro acc
      simp only [List.foldl_cons]
      rw [ih]
      exact addVariations_inner_U (row.getD o []) variated acc.2 o (acc.2.getD o 0) _ acc.1
  exact key _ _

theorem witnessLoop2_U (S : Nat) (wit : VList → List Rat → Option (Nat → Rat)) (row : List VList) (a : Nat) :
    ∀ (f : Nat) (st : WState), ∃ suffix, (witnessLoop2 S wit row a f st).U = st.U ++ suffix ∧
      ∀ e ∈ suffix, ∃ b, e = crossSumBestAtBeliefRow S b row a
  | 0, st => ⟨[], by simp [witnessLoop2], by simp⟩
  | f+1, st => by
    simp only [witnessLoop2]
    split
    · exact ⟨[], by simp, by simp⟩
    · split
      · rename_i v _ b _
        split
        · -- the best vector at the witness point is already in U[a]: pop and continue
          obtain ⟨suf, h1, h2⟩ := witnessLoop2_U S wit row a f { st with agenda := st.agenda.dropLast }
          exact ⟨suf, h1, h2⟩
        · obtain ⟨suf, h1, h2⟩ := witnessLoop2_U S wit row a f
            (addVariations row (crossSumBestAtBeliefRow S b row a) { st with U := st.U ++ [crossSumBestAtBeliefRow S b row a] })
          rw [addVariations_U] at h1
          refine ⟨crossSumBestAtBeliefRow S b row a :: suf, by rw [h1]; simp, ?_⟩
          intro e he
          rcases List.mem_cons.mp he with rfl | he
          · exact ⟨b, rfl⟩
          · exact h2 e he
      · obtain ⟨suf, h1, h2⟩ := witnessLoop2_U S wit row a f { st with agenda := st.agenda.dropLast }
        exact ⟨suf, h1, h2⟩

theorem witnessAction_form (m : Pomdp) (wit : VList → List Rat → Option (Nat → Rat)) (fuel : Nat) (prev : VList) (a : Nat) :
    ∀ e ∈ witnessAction m wit fuel prev a, ∃ b,
      e = crossSumBestAtBeliefRow m.S b ((List.range m.O).map (fun o => project m prev a o)) a := by
  unfold witnessAction
  simp only []
  obtain ⟨suf, h1, h2⟩ := witnessLoop2_U m.S wit ((List.range m.O).map (fun o => project m prev a o)) a fuel
    ⟨[], [((List.range m.O).map (fun o => project m prev a o)).foldl (fun acc r => addV acc (entryAt r 0).values) (List.replicate m.S 0)],
      [List.replicate m.O 0]⟩
  rw [h1]
  intro e he
  exact h2 e (by simpa using he)

theorem witnessAction_ne_nil (m : Pomdp) (wit : VList → List Rat → Option (Nat → Rat)) (hwit : ∀ v, wit [] v ≠ none)
    (fuel : Nat) (hf : 1 ≤ fuel) (prev : VList) (a : Nat) : witnessAction m wit fuel prev a ≠ [] := by
  obtain ⟨f, rfl⟩ : ∃ f, fuel = f + 1 := ⟨fuel - 1, by omega⟩
  unfold witnessAction
  simp only [witnessLoop2, List.getLast?_singleton, List.any_nil, Bool.and_false, Bool.false_eq_true, if_false]
  split
  · rename_i b _
    obtain ⟨suf, h1, _⟩ := witnessLoop2_U m.S wit ((List.range m.O).map (fun o => project m prev a o)) a f
      (addVariations ((List.range m.O).map (fun o => project m prev a o))
        (crossSumBestAtBeliefRow m.S b ((List.range m.O).map (fun o => project m prev a o)) a)
        { U := [] ++ [crossSumBestAtBeliefRow m.S b ((List.range m.O).map (fun o => project m prev a o)) a],
          agenda := [((List.range m.O).map (fun o => project m prev a o)).foldl (fun acc r => addV acc (entryAt r 0).values) (List.replicate m.S 0)],
          tried := [List.replicate m.O 0] })
    rw [addVariations_U] at h1
    rw [h1]; simp
  · rename_i hnone
    exact absurd hnone (hwit _)

theorem witnessRun_pointBased {m : Pomdp} (wit : VList → List Rat → Option (Nat → Rat)) (hwit : ∀ v, wit [] v ≠ none)
    (pr : VList → VList) (hpr : ∀ l e, e ∈ pr l → e ∈ l) (hpr2 : ∀ l, l ≠ [] → pr l ≠ [])
    (fuel : Nat) (hf : 1 ≤ fuel) (hA : 0 < m.A) : ∀ h, PointBasedVF m (witnessRun m wit pr fuel h)
  | 0 => PointBasedVF.base _ (by simp)
  | h+1 => by
    have ih := witnessRun_pointBased wit hwit pr hpr hpr2 fuel hf hA h
    simp only [witnessRun]
    apply PointBasedVF.step _ _ ih
    · unfold witnessStep
      apply hpr2
      obtain ⟨e, he⟩ := List.exists_mem_of_ne_nil _ (witnessAction_ne_nil m wit hwit fuel hf
        (vlist (witnessRun m wit pr fuel h) ((witnessRun m wit pr fuel h).length - 1)) 0)
      intro hnil
      have : e ∈ (List.range m.A).flatMap (witnessAction m wit fuel
          (vlist (witnessRun m wit pr fuel h) ((witnessRun m wit pr fuel h).length - 1))) :=
        List.mem_flatMap.mpr ⟨0, List.mem_range.mpr hA, he⟩
      rw [hnil] at this
      simp at this
    · intro e he
      unfold witnessStep at he
      obtain ⟨a, ha, hea⟩ := List.mem_flatMap.mp (hpr _ _ he)
      obtain ⟨b, hb⟩ := witnessAction_form m wit fuel _ a e hea
      exact ⟨b, a, List.mem_range.mp ha, hb⟩

/-- **witness_consistent.**  For every witness-LP behaviour (that answers the very first query of each action), every
    entry-preserving non-emptying pruner, every POMDP with A, O ≥ 1 and every horizon, the modelled Witness algorithm
    returns a `Consistent` value function. -/
theorem witness_consistent {m : Pomdp} (wit : VList → List Rat → Option (Nat → Rat)) (hwit : ∀ v, wit [] v ≠ none)
    (pr : VList → VList) (hpr : ∀ l e, e ∈ pr l → e ∈ l) (hpr2 : ∀ l, l ≠ [] → pr l ≠ [])
    (fuel : Nat) (hf : 1 ≤ fuel) (hA : 0 < m.A) (hO : 0 < m.O) (h : Nat) : Consistent m (witnessRun m wit pr fuel h) :=
  pointBased_consistent hO (witnessRun_pointBased wit hwit pr hpr hpr2 fuel hf hA h)

end AITB.Plan
