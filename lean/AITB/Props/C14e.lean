/-
  AITB.Props.C14e — C14 continued: FactoredMatrix2D forms of the algebra, the flat expansion, and the
  single-factor-spans-all equivalences.
-/
import AITB.Props.C14d
import Mathlib.Tactic.IntervalCases

namespace AITB.Factored

/-! ## BasisMatrix / FactoredMatrix2D -/

/-- a well-formed basis matrix: one row per joint value of `tag`, one column per joint value of `atag` -/
def BM.WF (sp ac : List Nat) (b : BM) : Prop :=
  TagOK sp b.tag ∧ TagOK ac b.atag ∧ b.vals.length = spacePartial b.tag sp ∧
  ∀ i, i < b.vals.length → (b.vals.getD i []).length = spacePartial b.atag ac

theorem addMat_length : ∀ (A B : List (List Rat)), (addMat A B).length = A.length
  | [], _ => by simp [addMat]
  | _ :: _, [] => by simp [addMat]
  | a :: as, b :: bs => by simp [addMat, addMat_length as bs]

theorem addMat_getD : ∀ (A B : List (List Rat)) (i : Nat), i < A.length → i < B.length →
    (addMat A B).getD i [] = addVec 1 (A.getD i []) (B.getD i [])
  | [], _, _, h, _ => by simp at h
  | _ :: _, [], _, _, h => by simp at h
  | a :: as, b :: bs, 0, _, _ => by simp [addMat]
  | a :: as, b :: bs, i + 1, h1, h2 => by
    simpa [addMat] using addMat_getD as bs i (by simpa using h1) (by simpa using h2)

theorem mapRows_length (rowOp : List Rat → List Nat → List Rat) : ∀ (rs : List (List Rat)) (es : List (List Nat)),
    rs.length ≤ es.length → (mapRows rowOp rs es).length = rs.length
  | [], [], _ => by simp [mapRows]
  | [], _ :: _, _ => by simp [mapRows]
  | _ :: _, [], h => by simp at h
  | r :: rs, e :: es, h => by simpa [mapRows] using mapRows_length rowOp rs es (by simpa using h)

theorem mapRows_getD (rowOp : List Rat → List Nat → List Rat) : ∀ (rs : List (List Rat)) (es : List (List Nat)) (i : Nat) (e : List Nat),
    i < rs.length → es[i]? = some e → (mapRows rowOp rs es).getD i [] = rowOp (rs.getD i []) e
  | [], _, _, _, h, _ => by simp at h
  | _ :: _, [], _, _, _, h => by simp at h
  | r :: rs, e' :: es, 0, e, _, h => by simp at h; simp [mapRows, h]
  | r :: rs, e' :: es, i + 1, e, h, he => by
    simpa [mapRows] using mapRows_getD rowOp rs es i e (by simpa using h) (by simpa using he)

theorem enumTag_length (sp x T : List Nat) (hx : Valid sp x) (hT : TagOK sp T) : (enumTag sp T).length = spacePartial T sp := by
  rw [enumTag_eq sp x T hx hT]; simp

/-- `plusEqualSubset(space, actions, retval, rhs)` for `rhs.tag ⊆ retval.tag`, `rhs.actionTag ⊆ retval.actionTag`:
    value of the result at every (state, action) = sum of the two values; the shape is preserved -/
theorem bmSubsetPlus_pointwise (sp ac x a : List Nat) (ret rhs : BM) (hx : Valid sp x) (ha : Valid ac a)
    (hret : ret.WF sp ac) (hrhs : rhs.WF sp ac) (hs : rhs.tag.Sublist ret.tag) (hsa : rhs.atag.Sublist ret.atag) :
    (bmSubsetPlus sp ac ret rhs).get sp ac x a = ret.get sp ac x a + rhs.get sp ac x a ∧ (bmSubsetPlus sp ac ret rhs).WF sp ac := by
  obtain ⟨t1, t2, t3, t4⟩ := hret
  obtain ⟨r1, r2, r3, r4⟩ := hrhs
  obtain ⟨hi, _⟩ := toIndexPartial_spec sp x ret.tag hx t1.2
  obtain ⟨hj, _⟩ := toIndexPartial_spec ac a ret.atag ha t2.2
  have hi' : toIndexPartial ret.tag sp x < ret.vals.length := by rw [t3]; exact hi
  unfold bmSubsetPlus
  by_cases hlen : ret.tag.length = rhs.tag.length ∧ ret.atag.length = rhs.atag.length
  · have htag : rhs.tag = ret.tag := hs.eq_of_length hlen.1.symm
    have hatag : rhs.atag = ret.atag := hsa.eq_of_length hlen.2.symm
    have hlenv : ret.vals.length = rhs.vals.length := by rw [t3, r3, htag]
    simp only [hlen, and_self, if_true]
    constructor
    · unfold BM.get
      simp only
      rw [addMat_getD _ _ _ hi' (by rw [← hlenv]; exact hi'),
          addVec_getD 1 _ _ _ (by rw [t4 _ hi']; exact hj)
            (by rw [t4 _ hi', r4 _ (by rw [← hlenv]; exact hi'), hatag]), htag, hatag]
      ring
    · refine ⟨t1, t2, by simp only; rw [addMat_length]; exact t3, ?_⟩
      intro i hi2
      simp only at hi2 ⊢
      rw [addMat_length] at hi2
      rw [addMat_getD _ _ _ hi2 (by rw [← hlenv]; exact hi2), addVec_length]
      exact t4 i hi2
  · simp only [hlen, if_false]
    have hes : ret.vals.length ≤ (enumTag sp ret.tag).length := by rw [enumTag_length sp x _ hx t1, t3]
    have hrow : ∀ i, i < ret.vals.length → (ret.vals.getD i []).length ≤ (enumTag ac ret.atag).length := by
      intro i hi2; rw [enumTag_length ac a _ ha t2, t4 i hi2]
    constructor
    · unfold BM.get
      simp only
      rw [mapRows_getD _ _ _ _ (sel ret.tag x) hi' (enumTag_getD sp x _ hx t1)]
      unfold bmRowOp
      simp only
      rw [addEnum_getD _ _ _ _ (sel ret.atag a) (by rw [t4 _ hi']; exact hj) (enumTag_getD ac a _ ha t2),
          kpf_eq_toIndexPartial sp x _ _ hs, kpf_eq_toIndexPartial ac a _ _ hsa]
    · refine ⟨t1, t2, by simp only; rw [mapRows_length _ _ _ hes]; exact t3, ?_⟩
      intro i hi2
      simp only at hi2 ⊢
      rw [mapRows_length _ _ _ hes] at hi2
      have hsome : ∃ e, (enumTag sp ret.tag)[i]? = some e := by
        have : i < (enumTag sp ret.tag).length := by omega
        exact ⟨_, List.getElem?_eq_getElem this⟩
      obtain ⟨e, he⟩ := hsome
      rw [mapRows_getD _ _ _ _ e hi2 he]
      unfold bmRowOp
      simp only
      rw [addEnum_length_eq _ _ _ (hrow i hi2)]
      exact t4 i hi2

theorem fmGet_nil (sp ac x a : List Nat) : fmGet sp ac [] x a = 0 := rfl

theorem fmGet_cons (sp ac x a : List Nat) (b : BM) (fm : FM) : fmGet sp ac (b :: fm) x a = b.get sp ac x a + fmGet sp ac fm x a := by
  unfold fmGet
  simp only [List.foldl_cons]
  rw [foldl_add_init]; ring

theorem fmGet_append (sp ac x a : List Nat) (fm gm : FM) : fmGet sp ac (fm ++ gm) x a = fmGet sp ac fm x a + fmGet sp ac gm x a := by
  induction fm with
  | nil => simp [fmGet_nil]
  | cons b fm ih => simp only [List.cons_append, fmGet_cons, ih]; ring

def FM.WF (sp ac : List Nat) (fm : FM) : Prop := ∀ b ∈ fm, b.WF sp ac

theorem fmMergeLoop_pointwise (sp ac x a : List Nat) (basis : BM) (hx : Valid sp x) (ha : Valid ac a) (hb : basis.WF sp ac) :
    ∀ (fm fm' : FM), FM.WF sp ac fm → fmMergeLoop sp ac basis fm = some fm' →
      fmGet sp ac fm' x a = fmGet sp ac fm x a + basis.get sp ac x a ∧ FM.WF sp ac fm'
  | [], _, _, h => by simp [fmMergeLoop] at h
  | cur :: rest, fm', hwf, h => by
    have hcur : cur.WF sp ac := hwf cur (List.mem_cons_self ..)
    have hrest : FM.WF sp ac rest := fun b hb' => hwf b (List.mem_cons_of_mem _ hb')
    simp only [fmMergeLoop] at h
    by_cases hbig : basis.tag.length ≤ cur.tag.length
    · simp only [hbig, decide_true, if_true] at h
      by_cases hc : (decide (basis.atag.length ≤ cur.atag.length) && sortedContains cur.atag basis.atag && sortedContains cur.tag basis.tag) = true
      · simp only [hc, if_true, Option.some.injEq] at h
        subst h
        simp only [Bool.and_eq_true] at hc
        obtain ⟨p1, p2⟩ := bmSubsetPlus_pointwise sp ac x a cur basis hx ha hcur hb
          (sortedContains_sublist _ _ hc.2) (sortedContains_sublist _ _ hc.1.2)
        refine ⟨by rw [fmGet_cons, fmGet_cons, p1]; ring, ?_⟩
        intro b hb'
        rcases List.mem_cons.mp hb' with rfl | hb'
        · exact p2
        · exact hrest b hb'
      · simp only [hc] at h
        simp only [Bool.false_eq_true, if_false, Option.map_eq_some_iff] at h
        obtain ⟨r', hr', rfl⟩ := h
        obtain ⟨i1, i2⟩ := fmMergeLoop_pointwise sp ac x a basis hx ha hb rest r' hrest hr'
        refine ⟨by rw [fmGet_cons, fmGet_cons, i1]; ring, ?_⟩
        intro b hb'
        rcases List.mem_cons.mp hb' with rfl | hb'
        · exact hcur
        · exact i2 b hb'
    · simp only [hbig, decide_false, Bool.false_eq_true, if_false] at h
      by_cases hc : (decide (cur.atag.length ≤ basis.atag.length) && sortedContains basis.atag cur.atag && sortedContains basis.tag cur.tag) = true
      · simp only [hc, if_true, Option.some.injEq] at h
        subst h
        simp only [Bool.and_eq_true] at hc
        obtain ⟨p1, p2⟩ := bmSubsetPlus_pointwise sp ac x a basis cur hx ha hb hcur
          (sortedContains_sublist _ _ hc.2) (sortedContains_sublist _ _ hc.1.2)
        refine ⟨by rw [fmGet_cons, fmGet_cons, p1]; ring, ?_⟩
        intro b hb'
        rcases List.mem_cons.mp hb' with rfl | hb'
        · exact p2
        · exact hrest b hb'
      · simp only [hc] at h
        simp only [Bool.false_eq_true, if_false, Option.map_eq_some_iff] at h
        obtain ⟨r', hr', rfl⟩ := h
        obtain ⟨i1, i2⟩ := fmMergeLoop_pointwise sp ac x a basis hx ha hb rest r' hrest hr'
        refine ⟨by rw [fmGet_cons, fmGet_cons, i1]; ring, ?_⟩
        intro b hb'
        rcases List.mem_cons.mp hb' with rfl | hb'
        · exact hcur
        · exact i2 b hb'

/-- **plusEqual(FactoredMatrix2D, BasisMatrix)** -/
theorem fmPlusEqual_pointwise (sp ac x a : List Nat) (fm : FM) (b : BM) (hx : Valid sp x) (ha : Valid ac a)
    (hfm : FM.WF sp ac fm) (hb : b.WF sp ac) :
    fmGet sp ac (fmPlusEqual sp ac fm b) x a = fmGet sp ac fm x a + b.get sp ac x a ∧ FM.WF sp ac (fmPlusEqual sp ac fm b) := by
  unfold fmPlusEqual
  cases h : fmMergeLoop sp ac b fm with
  | some fm' => exact fmMergeLoop_pointwise sp ac x a b hx ha hb fm fm' hfm h
  | none =>
    simp only
    refine ⟨by rw [fmGet_append, fmGet_cons, fmGet_nil]; ring, ?_⟩
    intro c hc
    rcases List.mem_append.mp hc with hc | hc
    · exact hfm c hc
    · simp at hc; subst hc; exact hb

/-- **plusEqual(FactoredMatrix2D, FactoredMatrix2D)** -/
theorem fmPlusEqualFM_pointwise (sp ac x a : List Nat) (hx : Valid sp x) (ha : Valid ac a) : ∀ (rhs fm : FM),
    FM.WF sp ac fm → FM.WF sp ac rhs →
    fmGet sp ac (fmPlusEqualFM sp ac fm rhs) x a = fmGet sp ac fm x a + fmGet sp ac rhs x a
      ∧ FM.WF sp ac (fmPlusEqualFM sp ac fm rhs)
  | [], fm, hfm, _ => by simp [fmPlusEqualFM, fmGet_nil, hfm]
  | b :: rhs, fm, hfm, hr => by
    obtain ⟨i1, i2⟩ := fmPlusEqual_pointwise sp ac x a fm b hx ha hfm (hr b (List.mem_cons_self ..))
    obtain ⟨j1, j2⟩ := fmPlusEqualFM_pointwise sp ac x a hx ha rhs _ i2 (fun c hc => hr c (List.mem_cons_of_mem _ hc))
    unfold fmPlusEqualFM at j1 j2 ⊢
    simp only [List.foldl_cons]
    refine ⟨?_, j2⟩
    rw [j1, i1, fmGet_cons]; ring

/-- **FactoredMatrix2D::operator*=(double)** -/
theorem fmScale_pointwise (c : Rat) (sp ac x a : List Nat) : ∀ (fm : FM), fmGet sp ac (fmScale c fm) x a = fmGet sp ac fm x a * c
  | [] => by simp [fmScale, fmGet_nil]
  | b :: fm => by
    have ih := fmScale_pointwise c sp ac x a fm
    unfold fmScale at ih ⊢
    simp only [List.map_cons]
    rw [fmGet_cons, fmGet_cons, ih]
    have : ({ b with vals := b.vals.map (·.map (· * c)) } : BM).get sp ac x a = b.get sp ac x a * c := by
      unfold BM.get
      simp only [List.getD_eq_getElem?_getD, List.getElem?_map]
      cases b.vals[toIndexPartial b.tag sp x]? with
      | none => simp
      | some row =>
        simp only [Option.map_some, Option.getD_some, List.getElem?_map]
        cases row[toIndexPartial b.atag ac a]? <;> simp
    rw [this]; ring

/-- **backProject(ddn, FactoredVector)** is the basis-wise map, hence (by `backProject_is_expectation`) the exact
    expected next-step value of the whole factored vector -/
theorem backProjectFV_is_expectation (g : DDNGraph) (T : List Mat) (s a : List Nat)
    (hs : Valid g.S s) (ha : Valid g.A a)
    (hrow : ∀ i, i < g.S.length → sumN (g.S.getD i 0) (localP g T s a i) = 1) : ∀ (fv : FV),
    (∀ b ∈ fv, b.WF g.S ∧ b.tag.Pairwise (· < ·) ∧ BasisParentsOK g b.tag) →
    fmGet g.S g.A (backProjectFV g T fv) s a
      = sumN (space g.S) (fun id => ddnProb g T s a (toFactors g.S id) * fvGet g.S fv (toFactors g.S id))
  | [], _ => by simp [backProjectFV, fmGet_nil, fvGet_nil, sumN_zero]
  | b :: fv, h => by
    have ih := backProjectFV_is_expectation g T s a hs ha hrow fv (fun c hc => h c (List.mem_cons_of_mem _ hc))
    obtain ⟨h1, h2, h3⟩ := h b (List.mem_cons_self ..)
    unfold backProjectFV at ih ⊢
    simp only [List.map_cons]
    rw [fmGet_cons, ih, backProject_is_expectation g T b s a hs ha h1 h2 h3 hrow, ← sumN_plus]
    apply sumN_congr
    intro id _
    rw [fvGet_cons]; ring

/-! ## the flat expansion -/

/-- flat table of a factored vector: its value at `toFactors space id` for every joint index -/
def flatten (sp : List Nat) (fv : FV) : List Rat := (List.range (space sp)).map (fun id => fvGet sp fv (toFactors sp id))

theorem flatten_getD (sp : List Nat) (fv : FV) (id : Nat) (h : id < space sp) :
    (flatten sp fv).getD id 0 = fvGet sp fv (toFactors sp id) := getD_map_range _ _ _ _ h

/-- **factored = flat**: looking the joint index of `x` up in the flat table gives `getValue(x)` -/
theorem flatten_lookup (sp x : List Nat) (fv : FV) (hx : Valid sp x) :
    (flatten sp fv).getD (toIndex sp x) 0 = fvGet sp fv x := by
  rw [flatten_getD sp fv _ (toIndex_lt sp x hx), toFactors_toIndex sp x hx]

/-- the flat table of a sum / difference (repaired minusEqual) / scalar multiple is the entry-wise
    sum / difference / multiple of the flat tables -/
theorem flatten_plus (sp : List Nat) (fv rhs : FV) (hpos : ∀ d ∈ sp, 0 < d) (hfv : FV.WF sp fv) (hr : FV.WF sp rhs) (id : Nat) (h : id < space sp) :
    (flatten sp (fvPlusEqualFV sp fv rhs)).getD id 0 = (flatten sp fv).getD id 0 + (flatten sp rhs).getD id 0 := by
  rw [flatten_getD _ _ _ h, flatten_getD _ _ _ h, flatten_getD _ _ _ h]
  exact fvPlusEqualFV_pointwise sp _ fv rhs (toFactors_valid sp id hpos) hfv hr

theorem flatten_minus (sp : List Nat) (fv rhs : FV) (hpos : ∀ d ∈ sp, 0 < d) (hfv : FV.WF sp fv) (hr : FV.WF sp rhs) (id : Nat) (h : id < space sp) :
    (flatten sp (fvMinusEqualFV true sp fv rhs)).getD id 0 = (flatten sp fv).getD id 0 - (flatten sp rhs).getD id 0 := by
  rw [flatten_getD _ _ _ h, flatten_getD _ _ _ h, flatten_getD _ _ _ h]
  exact fvMinusEqualFV_pointwise sp _ fv rhs (toFactors_valid sp id hpos) hfv hr

theorem flatten_scale (sp : List Nat) (fv : FV) (c : Rat) (id : Nat) (h : id < space sp) :
    (flatten sp (fvScale c fv)).getD id 0 = (flatten sp fv).getD id 0 * c := by
  rw [flatten_getD _ _ _ h, flatten_getD _ _ _ h]
  exact fvScale_pointwise c sp _ fv

/-! ## a single factor spanning all variables is the flat table -/

theorem sel_range : ∀ (l : List Nat), sel (List.range l.length) l = l := by
  intro l
  unfold sel
  apply List.ext_getElem
  · simp
  · intro i h1 h2
    simp at h1
    simp [List.getD_eq_getElem?_getD, List.getElem?_eq_getElem h1]

/-- **single_factor_flat (vector)**: a basis whose tag names every factor stores the flat table:
    its value at `x` is `values[toIndex(space, x)]` -/
theorem single_factor_flat (sp x : List Nat) (b : BF) (hx : Valid sp x) (hb : b.tag = List.range sp.length) :
    b.get sp x = b.vals.getD (toIndex sp x) 0 ∧ fvGet sp [b] x = b.vals.getD (toIndex sp x) 0 := by
  have hl := valid_length sp x hx
  have : toIndexPartial b.tag sp x = toIndex sp x := by
    unfold toIndexPartial
    rw [hb, sel_range sp, ← hl, sel_range x, toIndexLoop_eq]
    simp
  constructor
  · unfold BF.get; rw [this]
  · rw [fvGet_cons, fvGet_nil]; unfold BF.get; rw [this]; ring

/-- **single_factor_flat (matrix)**: a basis matrix over all state factors and all agents is the flat
    |S|×|A| table (what `CooperativeModel`'s reward, or a single-basis `CooperativeQLearning` Q-function, stores) -/
theorem single_factor_flat_matrix (sp ac x a : List Nat) (b : BM) (hx : Valid sp x) (ha : Valid ac a)
    (hb : b.tag = List.range sp.length) (hba : b.atag = List.range ac.length) :
    fmGet sp ac [b] x a = (b.vals.getD (toIndex sp x) []).getD (toIndex ac a) 0 := by
  have e1 : toIndexPartial b.tag sp x = toIndex sp x := by
    unfold toIndexPartial
    rw [hb, sel_range sp, ← valid_length sp x hx, sel_range x, toIndexLoop_eq]; simp
  have e2 : toIndexPartial b.atag ac a = toIndex ac a := by
    unfold toIndexPartial
    rw [hba, sel_range ac, ← valid_length ac a ha, sel_range a, toIndexLoop_eq]; simp
  rw [fmGet_cons, fmGet_nil]
  unfold BM.get
  rw [e1, e2]; ring

/-- **single_factor_flat (DDN)**: one state factor of size `n`, one agent, every parent set = {the state factor}:
    the row of (s, a) is `a·n + s` and the transition probability is the flat table entry `T[a·n + s][s1]` -/
theorem single_factor_flat_ddn (n m s a s1 : Nat) (T : Mat) (ha : a < m) :
    let g : DDNGraph := { S := [n], A := [m], parents := [{ agents := [0], features := List.replicate m [0] }] }
    g.getId 0 [s] [a] = a * n + s ∧ ddnProb g [T] [s] [a] [s1] = T.at (a * n + s) s1 := by
  intro g
  have hstart : ∀ (k acc : Nat), k ≤ m → (startIdsOf.go [n] acc (List.replicate m [0])).getD k 0 = acc + k * n := by
    intro k
    induction k with
    | zero => intro acc _; rw [go_head]; simp
    | succ k ih =>
      intro acc hk
      rw [go_succ [n] _ acc k (by simp; omega), ih acc (by omega)]
      have : (List.replicate m [0]).getD k [] = [0] := by
        simp [List.getD_eq_getElem?_getD, show k < m by omega]
      rw [this]
      simp [spacePartial, sel, space]
      ring
  have hid : g.getId 0 [s] [a] = a * n + s := by
    show (startIdsOf [n] (List.replicate m [0])).getD (toIndexPartial [0] [m] [a]) 0
        + toIndexPartial ((List.replicate m [0]).getD (toIndexPartial [0] [m] [a]) []) [n] [s] = a * n + s
    have e1 : toIndexPartial [0] [m] [a] = a := by simp [toIndexPartial, sel, toIndexLoop]
    rw [e1]
    have e2 : (List.replicate m [0]).getD a [] = [0] := by
      simp [List.getD_eq_getElem?_getD, ha]
    rw [e2]
    have e3 : toIndexPartial [0] [n] [s] = s := by simp [toIndexPartial, sel, toIndexLoop]
    rw [e3]
    unfold startIdsOf
    rw [hstart a 0 (by omega)]
    omega
  refine ⟨hid, ?_⟩
  show (List.range 1).foldl (fun acc i => acc * ([T].getD i []).at (g.getId i [s] [a]) ([s1].getD i 0)) 1 = _
  simp only [List.range_one, List.foldl_cons, List.foldl_nil, one_mul, List.getD_cons_zero]
  rw [hid]

/-! ## single-basis CooperativeQLearning update = flat QLearning update on the summed reward -/

theorem foldl_sum_init : ∀ (l : List Rat) (a : Rat), l.foldl (· + ·) a = a + l.foldl (· + ·) 0
  | [], a => by simp
  | x :: l, a => by
    simp only [List.foldl_cons]
    rw [foldl_sum_init l (a + x), foldl_sum_init l (0 + x)]; ring

theorem coop_sum (alpha c : Rat) : ∀ (rew : List Rat),
    ((rew.zip (List.replicate rew.length (1 : Rat))).map (fun rn => alpha * (rn.1 / rn.2 + c))).foldl (· + ·) 0
      = alpha * rew.foldl (· + ·) 0 + (rew.length : Rat) * (alpha * c)
  | [] => by simp
  | r :: rew => by
    have ih := coop_sum alpha c rew
    simp only [List.length_cons, List.replicate_succ, List.zip_cons_cons, List.map_cons, List.foldl_cons]
    rw [foldl_sum_init _ (0 + _), ih, foldl_sum_init rew (0 + r)]
    push_cast
    ring

/-- **single-basis CooperativeQLearning = flat QLearning**: with one basis over all `k ≥ 1` agents (so the
    normaliser is 1 for every agent — when it is initialised, fix C14-3) and a greedy `a1` (`Q(s1,a1) = max`),
    the entry update equals `QLearning::stepUpdateQ` with the summed reward. -/
theorem coop_single_basis_is_qlearning (alpha gamma q q1 : Rat) (rew : List Rat) (hk : rew ≠ []) :
    coopUpdateSingle alpha gamma q q1 rew (List.replicate rew.length 1) = qlUpdate alpha gamma q q1 (rew.foldl (· + ·) 0) := by
  unfold coopUpdateSingle coopPerAgent qlUpdate
  have hn : (rew.length : Rat) ≠ 0 := by
    have : rew.length ≠ 0 := by cases rew with | nil => exact absurd rfl hk | cons _ _ => simp
    exact_mod_cast this
  have e : ∀ rn : Rat × Rat, alpha * (rn.1 / rn.2 + gamma * q1 / (rew.length : Rat) + (-q) / (rew.length : Rat))
      = alpha * (rn.1 / rn.2 + (gamma * q1 / (rew.length : Rat) + (-q) / (rew.length : Rat))) := fun rn => by ring
  simp only [e]
  rw [coop_sum]
  field_simp
  ring

/-! ## non-vacuity (tests on literals) -/
def exM : BM := ⟨[0, 1], [0], [[1, 2], [3, 4], [5, 6], [7, 8], [9, 10], [11, 12]]⟩
def exM2 : BM := ⟨[1], [0], [[1, 0], [0, 1], [2, 2]]⟩

example : exM.WF [2, 3] [2] ∧ exM2.WF [2, 3] [2] := by
  refine ⟨⟨⟨by decide, by decide⟩, ⟨by decide, by decide⟩, by decide, ?_⟩, ⟨⟨by decide, by decide⟩, ⟨by decide, by decide⟩, by decide, ?_⟩⟩
  · intro i hi
    have : i < 6 := hi
    interval_cases i <;> decide
  · intro i hi
    have : i < 3 := hi
    interval_cases i <;> decide
example : exM2.tag.Sublist exM.tag ∧ exM2.atag.Sublist exM.atag ∧ sortedContains exM.tag exM2.tag = true := by
  refine ⟨by decide, by decide, by simp [sortedContains, containsScan, exM, exM2]⟩
example : exM.get [2, 3] [2] [1, 2] [1] = 12 := by decide

end AITB.Factored
