/-
  AITB.Props.C10FG — FactorGraph neighbour bookkeeping (getFactor's index loop, erase's find-then-erase) is free of
  out-of-bounds reads and of `erase(end())` for EVERY history of `getFactor` / `erase` calls from an empty graph.
-/
import AITB.Model.FGCursor

namespace AITB.FGCursor

abbrev SS (l : List Nat) : Prop := l.Pairwise (· < ·)

/-- what the suffix scan pushes, for strictly sorted inputs: the variables other than `a` that are not already neighbours -/
theorem recPush_spec (a : Nat) : ∀ (n : Nat) (vs os : List Nat), vs.length + os.length ≤ n → SS vs → SS os →
    SS (recPush a vs os) ∧ ∀ z, z ∈ recPush a vs os ↔ (z ∈ vs ∧ z ≠ a ∧ z ∉ os) := by
  intro n
  induction n with
  | zero =>
    intro vs os h _ _
    have : vs = [] := List.eq_nil_of_length_eq_zero (by omega)
    subst this; simp [recPush]
  | succ n ih =>
    intro vs os h hv ho
    cases vs with
    | nil => simp [recPush]
    | cons x vs =>
      have hv' := List.pairwise_cons.mp hv
      cases os with
      | nil =>
        obtain ⟨h1, h2⟩ := ih vs [] (by simp at h ⊢; omega) hv'.2 ho
        by_cases hxa : x = a
        · rw [recPush, if_pos hxa]
          refine ⟨h1, fun z => ?_⟩
          rw [h2]; constructor
          · rintro ⟨p, q, r⟩; exact ⟨List.mem_cons_of_mem _ p, q, r⟩
          · rintro ⟨p, q, r⟩
            rcases List.mem_cons.mp p with e | e
            · exact absurd (e.trans hxa) q
            · exact ⟨e, q, r⟩
        · rw [recPush, if_neg hxa]
          refine ⟨List.pairwise_cons.mpr ⟨fun z hz => hv'.1 z ((h2 z).mp hz).1, h1⟩, fun z => ?_⟩
          rw [List.mem_cons, h2]; constructor
          · rintro (e | ⟨p, q, r⟩)
            · subst e; exact ⟨List.mem_cons_self, hxa, by simp⟩
            · exact ⟨List.mem_cons_of_mem _ p, q, r⟩
          · rintro ⟨p, q, r⟩
            rcases List.mem_cons.mp p with e | e
            · exact Or.inl e
            · exact Or.inr ⟨e, q, r⟩
      | cons y os =>
        have ho' := List.pairwise_cons.mp ho
        by_cases hxa : x = a
        · obtain ⟨h1, h2⟩ := ih vs (y :: os) (by simp at h ⊢; omega) hv'.2 ho
          rw [recPush, if_pos hxa]
          refine ⟨h1, fun z => ?_⟩
          rw [h2]; constructor
          · rintro ⟨p, q, r⟩; exact ⟨List.mem_cons_of_mem _ p, q, r⟩
          · rintro ⟨p, q, r⟩
            rcases List.mem_cons.mp p with e | e
            · exact absurd (e.trans hxa) q
            · exact ⟨e, q, r⟩
        · by_cases hlt : x < y
          · obtain ⟨h1, h2⟩ := ih vs (y :: os) (by simp at h ⊢; omega) hv'.2 ho
            rw [recPush, if_neg hxa, if_pos hlt]
            refine ⟨List.pairwise_cons.mpr ⟨fun z hz => hv'.1 z ((h2 z).mp hz).1, h1⟩, fun z => ?_⟩
            rw [List.mem_cons, h2]; constructor
            · rintro (e | ⟨p, q, r⟩)
              · subst e
                refine ⟨List.mem_cons_self, hxa, ?_⟩
                intro hm
                rcases List.mem_cons.mp hm with e | e
                · omega
                · have := ho'.1 z e; omega
              · exact ⟨List.mem_cons_of_mem _ p, q, r⟩
            · rintro ⟨p, q, r⟩
              rcases List.mem_cons.mp p with e | e
              · exact Or.inl e
              · exact Or.inr ⟨e, q, r⟩
          · by_cases heq : x = y
            · obtain ⟨h1, h2⟩ := ih vs os (by simp at h ⊢; omega) hv'.2 ho'.2
              rw [recPush, if_neg hxa, if_neg hlt, if_pos heq]
              refine ⟨h1, fun z => ?_⟩
              rw [h2]; constructor
              · rintro ⟨p, q, r⟩
                refine ⟨List.mem_cons_of_mem _ p, q, ?_⟩
                intro hm
                rcases List.mem_cons.mp hm with e | e
                · have := hv'.1 z p; omega
                · exact r e
              · rintro ⟨p, q, r⟩
                rcases List.mem_cons.mp p with e | e
                · exact absurd (by rw [e, heq]; exact List.mem_cons_self) r
                · exact ⟨e, q, fun hm => r (List.mem_cons_of_mem _ hm)⟩
            · obtain ⟨h1, h2⟩ := ih (x :: vs) os (by simp at h ⊢; omega) hv ho'.2
              rw [recPush, if_neg hxa, if_neg hlt, if_neg heq]
              refine ⟨h1, fun z => ?_⟩
              rw [h2]; constructor
              · rintro ⟨p, q, r⟩
                refine ⟨p, q, ?_⟩
                intro hm
                rcases List.mem_cons.mp hm with e | e
                · rcases List.mem_cons.mp p with e2 | e2
                  · omega
                  · have := hv'.1 z e2; omega
                · exact r e
              · rintro ⟨p, q, r⟩
                exact ⟨p, q, fun hm => r (List.mem_cons_of_mem _ hm)⟩

/-- the index loop as written computes the suffix scan: no read outside `variables` or the old part of `vNeighbors` -/
theorem nbLoop_eq_rec (vars old : List Nat) (a : Nat) :
    ∀ (fuel i j : Nat) (p : List Nat), i ≤ vars.length → j ≤ old.length → (vars.length - i) + (old.length - j) < fuel →
      nbLoop vars a old.length fuel i j (old ++ p) = some (old ++ p ++ recPush a (vars.drop i) (old.drop j)) := by
  intro fuel
  induction fuel with
  | zero => intro i j p _ _ h; omega
  | succ fuel ih =>
    intro i j p hi hj hf
    unfold nbLoop
    by_cases h1 : i < vars.length
    · have ev : vars[i]? = some vars[i] := List.getElem?_eq_getElem h1
      have dv : vars.drop i = vars[i] :: vars.drop (i+1) := List.drop_eq_getElem_cons h1
      simp only [h1, if_true, ev]
      by_cases hxa : vars[i] = a
      · simp only [hxa, if_true]
        rw [ih (i+1) j p (by omega) hj (by omega), dv]
        cases hd : old.drop j with
        | nil => rw [recPush, if_pos hxa]
        | cons y os => rw [recPush, if_pos hxa]
      · simp only [hxa, if_false]
        by_cases hjm : j = old.length
        · simp only [hjm, if_true]
          have := ih (i+1) old.length (p ++ [vars[i]]) (by omega) (Nat.le_refl _) (by omega)
          rw [← List.append_assoc] at this
          rw [this, dv, List.drop_length, recPush, if_neg hxa]
          simp
        · have hj' : j < old.length := by omega
          have eo : (old ++ p)[j]? = some old[j] := by rw [List.getElem?_append_left hj']; exact List.getElem?_eq_getElem hj'
          have dl : old.drop j = old[j] :: old.drop (j+1) := List.drop_eq_getElem_cons hj'
          simp only [hjm, if_false, eo]
          by_cases hlt : vars[i] < old[j]
          · simp only [hlt, if_true]
            have := ih (i+1) j (p ++ [vars[i]]) (by omega) hj (by omega)
            rw [← List.append_assoc] at this
            rw [this, dv, dl, recPush, if_neg hxa, if_pos hlt]
            simp
          · simp only [hlt, if_false]
            by_cases heq : vars[i] = old[j]
            · simp only [heq, if_true]
              rw [ih (i+1) (j+1) p (by omega) (by omega) (by omega), dv, dl, recPush, if_neg hxa, if_neg hlt, if_pos heq]
            · simp only [heq, if_false]
              rw [ih i (j+1) p hi (by omega) (by omega), dv, dl, recPush, if_neg hxa, if_neg hlt, if_neg heq]
    · simp only [h1, if_false]
      have : vars.drop i = [] := List.drop_eq_nil_of_le (by omega)
      rw [this]; simp [recPush]

theorem ss_nodup {l : List Nat} (h : SS l) : l.Nodup := List.Pairwise.imp (fun h => Nat.ne_of_lt h) h

/-- **mergeNeighbours_spec** — for strictly sorted operands the loop + `inplace_merge` reads nothing outside and yields the
    strictly sorted union of the old neighbours and the other variables of the factor -/
theorem mergeNeighbours_spec (old vars : List Nat) (a : Nat) (ho : SS old) (hv : SS vars) :
    ∃ l, mergeNeighbours old vars a = some l ∧ SS l ∧ ∀ z, z ∈ l ↔ (z ∈ old ∨ (z ∈ vars ∧ z ≠ a)) := by
  have hl := nbLoop_eq_rec vars old a (vars.length + old.length + 1) 0 0 [] (by omega) (by omega) (by omega)
  simp only [List.append_nil, List.drop_zero] at hl
  obtain ⟨hs, hm⟩ := recPush_spec a _ vars old (Nat.le_refl _) hv ho
  refine ⟨_, by unfold mergeNeighbours; rw [hl]; rfl, ?_, ?_⟩
  · show SS (List.merge (List.take old.length (old ++ recPush a vars old)) (List.drop old.length (old ++ recPush a vars old)) (fun x y => decide (x ≤ y)))
    rw [List.take_left, List.drop_left]
    have hle : (List.merge old (recPush a vars old) (fun x y => decide (x ≤ y))).Pairwise (fun x y => decide (x ≤ y) = true) :=
      List.pairwise_merge (fun a b c h1 h2 => by simp at *; omega) (fun a b => by simp; omega) old _
        (List.Pairwise.imp (fun h => by simp; omega) ho) (List.Pairwise.imp (fun h => by simp; omega) hs)
    have hnd : (List.merge old (recPush a vars old) (fun x y => decide (x ≤ y))).Nodup := by
      rw [List.Perm.nodup_iff (List.merge_perm_append _), List.nodup_append]
      refine ⟨ss_nodup ho, ss_nodup hs, ?_⟩
      intro x hx y hy e
      subst e
      exact ((hm x).mp hy).2.2 hx
    exact List.Pairwise.imp (fun {x y} h => by have h1 := h.1; have h2 := h.2; simp at h1; omega) (List.Pairwise.and hle hnd)
  · intro z
    show z ∈ List.merge (List.take old.length (old ++ recPush a vars old)) (List.drop old.length (old ++ recPush a vars old)) (fun x y => decide (x ≤ y)) ↔ _
    rw [List.take_left, List.drop_left, List.mem_merge, hm]
    constructor
    · rintro (h | ⟨h1, h2, _⟩)
      · exact Or.inl h
      · exact Or.inr ⟨h1, h2⟩
    · rintro (h | ⟨h1, h2⟩)
      · exact Or.inl h
      · by_cases hz : z ∈ old
        · exact Or.inl hz
        · exact Or.inr ⟨h1, h2, hz⟩

/-- the graph invariant the two operations keep: sorted duplicate-free lists, symmetric, irreflexive -/
structure Inv (nb : Nbrs) : Prop where
  sorted : ∀ v, SS (nb v)
  symm : ∀ u v, u ∈ nb v → v ∈ nb u
  irrefl : ∀ v, v ∉ nb v

theorem addAll_spec (vars : List Nat) (hv : SS vars) : ∀ (todo : List Nat) (nb : Nbrs), todo.Nodup → (∀ v, SS (nb v)) →
    ∃ nb', addAll vars nb todo = some nb' ∧
      (∀ v, v ∉ todo → nb' v = nb v) ∧
      (∀ v, v ∈ todo → SS (nb' v) ∧ ∀ z, z ∈ nb' v ↔ (z ∈ nb v ∨ (z ∈ vars ∧ z ≠ v))) := by
  intro todo
  induction todo with
  | nil => intro nb _ _; exact ⟨nb, rfl, fun _ _ => rfl, fun v h => by simp at h⟩
  | cons a t ih =>
    intro nb hnd hs
    have hnd' := List.nodup_cons.mp hnd
    obtain ⟨l, hl, hls, hlm⟩ := mergeNeighbours_spec (nb a) vars a (hs a) hv
    let nb1 : Nbrs := fun v => if v = a then l else nb v
    have hs1 : ∀ v, SS (nb1 v) := by
      intro v; show SS (if v = a then l else nb v)
      split
      · exact hls
      · exact hs v
    obtain ⟨nb', h1, h2, h3⟩ := ih nb1 hnd'.2 hs1
    refine ⟨nb', by simp only [addAll, hl, Option.bind_some]; exact h1, ?_, ?_⟩
    · intro v hvn
      have hva : v ≠ a := fun e => hvn (by rw [e]; exact List.mem_cons_self)
      rw [h2 v (fun h => hvn (List.mem_cons_of_mem _ h))]
      show (if v = a then l else nb v) = nb v
      rw [if_neg hva]
    · intro v hvt
      rcases List.mem_cons.mp hvt with e | e
      · subst e
        rw [h2 v hnd'.1]
        show SS (if v = v then l else nb v) ∧ ∀ z, z ∈ (if v = v then l else nb v) ↔ _
        rw [if_pos rfl]; exact ⟨hls, hlm⟩
      · have hva : v ≠ a := fun e' => hnd'.1 (e' ▸ e)
        have := h3 v e
        have e1 : nb1 v = nb v := by show (if v = a then l else nb v) = nb v; rw [if_neg hva]
        rw [e1] at this; exact this

/-- **addFactor_keeps_inv** -/
theorem addFactor_keeps_inv (nb : Nbrs) (vars : List Nat) (hv : SS vars) (hi : Inv nb) :
    ∃ nb', addFactor nb vars = some nb' ∧ Inv nb' := by
  obtain ⟨nb', h1, h2, h3⟩ := addAll_spec vars hv vars nb (ss_nodup hv) hi.sorted
  have mem : ∀ v z, z ∈ nb' v ↔ (z ∈ nb v ∨ (v ∈ vars ∧ z ∈ vars ∧ z ≠ v)) := by
    intro v z
    by_cases hvv : v ∈ vars
    · rw [(h3 v hvv).2 z]; constructor
      · rintro (h | ⟨p, q⟩); exact Or.inl h; exact Or.inr ⟨hvv, p, q⟩
      · rintro (h | ⟨_, p, q⟩); exact Or.inl h; exact Or.inr ⟨p, q⟩
    · rw [h2 v hvv]; constructor
      · intro h; exact Or.inl h
      · rintro (h | ⟨p, _⟩); exact h; exact absurd p hvv
  refine ⟨nb', h1, ⟨?_, ?_, ?_⟩⟩
  · intro v
    by_cases hvv : v ∈ vars
    · exact (h3 v hvv).1
    · rw [h2 v hvv]; exact hi.sorted v
  · intro u v h
    rw [mem] at h ⊢
    rcases h with h | ⟨p, q, r⟩
    · exact Or.inl (hi.symm u v h)
    · exact Or.inr ⟨q, p, fun e => r e.symm⟩
  · intro v h
    rw [mem] at h
    rcases h with h | ⟨_, _, r⟩
    · exact hi.irrefl v h
    · exact r rfl

theorem eraseAll_spec (a : Nat) : ∀ (todo : List Nat) (nb : Nbrs), todo.Nodup → a ∉ todo → (∀ aa ∈ todo, a ∈ nb aa) →
    ∃ nb', eraseAll a nb todo = some nb' ∧ (∀ v, v ∉ todo → nb' v = nb v) ∧ (∀ v, v ∈ todo → nb' v = (nb v).erase a) := by
  intro todo
  induction todo with
  | nil => intro nb _ _ _; exact ⟨nb, rfl, fun _ _ => rfl, fun v h => by simp at h⟩
  | cons aa t ih =>
    intro nb hnd hna hm
    have hnd' := List.nodup_cons.mp hnd
    have haa : aa ≠ a := fun e => hna (by rw [e]; exact List.mem_cons_self)
    have hin : a ∈ nb aa := hm aa List.mem_cons_self
    let nb1 : Nbrs := fun v => if v = aa then (nb aa).erase a else nb v
    obtain ⟨nb', h1, h2, h3⟩ := ih nb1 hnd'.2 (fun h => hna (List.mem_cons_of_mem _ h)) (by
      intro x hx
      have hxa : x ≠ aa := fun e => hnd'.1 (e ▸ hx)
      show a ∈ (if x = aa then (nb aa).erase a else nb x)
      rw [if_neg hxa]; exact hm x (List.mem_cons_of_mem _ hx))
    refine ⟨nb', ?_, ?_, ?_⟩
    · simp only [eraseAll, haa, if_false, eraseFound, List.contains_iff_mem.mpr hin, if_true, Option.bind_some]; exact h1
    · intro v hvn
      have hva : v ≠ aa := fun e => hvn (by rw [e]; exact List.mem_cons_self)
      rw [h2 v (fun h => hvn (List.mem_cons_of_mem _ h))]
      show (if v = aa then (nb aa).erase a else nb v) = nb v
      rw [if_neg hva]
    · intro v hvt
      rcases List.mem_cons.mp hvt with e | e
      · subst e
        rw [h2 v hnd'.1]
        show (if v = v then (nb v).erase a else nb v) = (nb v).erase a
        rw [if_pos rfl]
      · have hva : v ≠ aa := fun e' => hnd'.1 (e' ▸ e)
        rw [h3 v e]
        show (if v = aa then (nb aa).erase a else nb v).erase a = (nb v).erase a
        rw [if_neg hva]

/-- **eraseVar_keeps_inv** — under the invariant every `std::find` of `erase(a)` succeeds (no `erase(end())`), the range-for never
    walks the list it erases from, and the invariant is kept -/
theorem eraseVar_keeps_inv (nb : Nbrs) (a : Nat) (hi : Inv nb) : ∃ nb', eraseVar nb a = some nb' ∧ Inv nb' := by
  obtain ⟨nb1, h1, h2, h3⟩ := eraseAll_spec a (nb a) nb (ss_nodup (hi.sorted a)) (hi.irrefl a) (fun aa h => hi.symm aa a h)
  have shape : ∀ v, v ≠ a → nb1 v = (nb v).erase a := by
    intro v _
    by_cases hv : v ∈ nb a
    · exact h3 v hv
    · rw [h2 v hv]
      have : a ∉ nb v := fun h => hv (hi.symm a v h)
      exact (List.erase_of_not_mem this).symm
  have mem : ∀ v z, z ∈ (fun v => if v = a then [] else nb1 v) v ↔ (v ≠ a ∧ z ≠ a ∧ z ∈ nb v) := by
    intro v z
    show z ∈ (if v = a then [] else nb1 v) ↔ _
    by_cases hva : v = a
    · simp [hva]
    · rw [if_neg hva, shape v hva, (ss_nodup (hi.sorted v)).mem_erase_iff]; simp [hva]
  refine ⟨_, by unfold eraseVar; rw [h1]; rfl, ⟨?_, ?_, ?_⟩⟩
  · intro v
    show SS (if v = a then [] else nb1 v)
    by_cases hva : v = a
    · simp [hva]
    · rw [if_neg hva, shape v hva]; exact List.Pairwise.sublist List.erase_sublist (hi.sorted v)
  · intro u v h
    rw [mem] at h ⊢
    exact ⟨h.2.1, h.1, hi.symm u v h.2.2⟩
  · intro v h
    rw [mem] at h
    exact hi.irrefl v h.2.2

/-- a history is admissible when every `getFactor` is called with a strictly sorted variable list (the documented precondition) -/
def OpsOk : List Op → Prop
  | [] => True
  | .add vars :: t => SS vars ∧ OpsOk t
  | .erase _ :: t => OpsOk t

theorem run_keeps_inv : ∀ (ops : List Op) (nb : Nbrs), Inv nb → OpsOk ops → ∃ nb', run nb ops = some nb' ∧ Inv nb' := by
  intro ops
  induction ops with
  | nil => intro nb hi _; exact ⟨nb, rfl, hi⟩
  | cons o t ih =>
    intro nb hi hok
    cases o with
    | add vars =>
      obtain ⟨nb1, h1, hi1⟩ := addFactor_keeps_inv nb vars hok.1 hi
      obtain ⟨nb2, h2, hi2⟩ := ih nb1 hi1 hok.2
      exact ⟨nb2, by simp only [run, step, h1, Option.bind_some]; exact h2, hi2⟩
    | erase a =>
      obtain ⟨nb1, h1, hi1⟩ := eraseVar_keeps_inv nb a hi
      obtain ⟨nb2, h2, hi2⟩ := ih nb1 hi1 hok
      exact ⟨nb2, by simp only [run, step, h1, Option.bind_some]; exact h2, hi2⟩

/-- **fg_history_safe** — starting from an empty graph, EVERY history of `getFactor` (sorted variable lists) and `erase` calls
    performs no read outside a vector, no `erase(end())`, no erase under a live range-for; the neighbour relation stays
    sorted, symmetric and irreflexive. -/
theorem fg_history_safe (ops : List Op) (hok : OpsOk ops) : ∃ nb', run (fun _ => []) ops = some nb' ∧ Inv nb' :=
  run_keeps_inv ops _ ⟨fun _ => List.Pairwise.nil, fun _ _ h => by simp at h, fun _ h => by simp at h⟩ hok

/-- without symmetry `erase` does hit `end()`: variable 0 lists 1 as a neighbour but not vice versa -/
theorem eraseVar_asymmetric_witness : (eraseVar (fun v => if v = 0 then [1] else []) 0).isNone = true := by decide

example : OpsOk [.add [0, 2, 3], .add [1, 2], .erase 2, .add [0, 1], .erase 0] := by simp [OpsOk]
example : ((run (fun _ => []) [.add [0, 2, 3], .add [1, 2], .erase 2]).map (fun nb => [nb 0, nb 1, nb 2, nb 3])) = some [[3], [], [], [0]] := by
  simp [run, step, addFactor, addAll, mergeNeighbours, nbLoop, eraseVar, eraseAll, eraseFound]

end AITB.FGCursor
