import AITB.Model.Dyna2
import AITB.Props.C11
import AITB.Props.C11Traces
import Mathlib.Algebra.Order.Field.Rat
import Mathlib.Tactic.Linarith
import Mathlib.Tactic.Ring
import Mathlib.Tactic.NormNum

/-!
  AITB.Props.C11Dyna2 — theorems about the model of Dyna2 (`AITB.Model.Dyna2`): two SARSA(λ) learners
  (permanent / transient) sharing the real experience.  Unbounded: all histories `ops : List D2Op`,
  all batch sizes, all rational inputs.

  (D0) updateTraces_traces_indep, sarsalStep_traces_indep   the trace list does not depend on error / table
  (D1) d2_traces_shared            equal lambdas ⇒ both learners hold the same traces after a real step
  (D2) d2_traces_ok                both trace lists satisfy `TrOK` along every history
  (D3) d2_permanent_is_sarsal      the permanent learner = a stand-alone SARSA(λ) on the real experience
  (D4) d2_reset_eq, d2_step_keeps_equal, d2_equal_until_batch
  (D5) d2_lambda0_bounded          λP = λT = 0 ⇒ both tables stay in the hull interval
  (D6) sarsal_exceeds_interval     (test by evaluation) for λ > 0 the interval is left
-/

namespace AITB.Learn

/-! ## (D0) the trace list is independent of the error and of the table -/

theorem d2_traceLoop_indep (s a : Nat) (err err' td tol : Rat) :
    ∀ (fuel : Nat) (acc rest : List Tr) (q q' : QF) (nt : Bool),
      (traceLoop s a err td tol fuel acc rest q nt).1
          = (traceLoop s a err' td tol fuel acc rest q' nt).1 ∧
      (traceLoop s a err td tol fuel acc rest q nt).2.2
          = (traceLoop s a err' td tol fuel acc rest q' nt).2.2 := by
  intro fuel
  induction fuel with
  | zero =>
    intro acc rest q q' nt
    rw [traceLoop_zero, traceLoop_zero]
    exact ⟨rfl, rfl⟩
  | succ f ih =>
    intro acc rest q q' nt
    cases rest with
    | nil =>
      rw [traceLoop_nil, traceLoop_nil]
      exact ⟨rfl, rfl⟩
    | cons x rest =>
      by_cases hit : x.s = s ∧ x.a = a
      · rw [traceLoop_hit s a err td tol f acc x rest q nt hit,
          traceLoop_hit s a err' td tol f acc x rest q' nt hit]
        exact ih _ _ _ _ _
      · by_cases hlt : x.el * td < tol
        · cases hy : rest.getLast? with
          | none =>
            have : rest = [] := List.getLast?_eq_none_iff.1 hy
            subst this
            rw [traceLoop_pop_nil s a err td tol f acc x q nt hit hlt,
              traceLoop_pop_nil s a err' td tol f acc x q' nt hit hlt]
            exact ih _ _ _ _ _
          | some y =>
            rw [traceLoop_pop s a err td tol f acc x rest y q nt hit hlt hy,
              traceLoop_pop s a err' td tol f acc x rest y q' nt hit hlt hy]
            exact ih _ _ _ _ _
        · rw [traceLoop_keep s a err td tol f acc x rest q nt hit hlt,
            traceLoop_keep s a err' td tol f acc x rest q' nt hit hlt]
          exact ih _ _ _ _ _

/-- (D0) the trace list produced by `updateTraces` depends neither on the error nor on the table -/
theorem updateTraces_traces_indep (s a : Nat) (err err' td tol : Rat) (tr : List Tr) (q q' : QF) :
    (updateTraces s a err td tol tr q).1 = (updateTraces s a err' td tol tr q').1 := by
  obtain ⟨h1, h2⟩ := d2_traceLoop_indep s a err err' td tol tr.length [] tr q q' true
  rw [updateTraces_eq, updateTraces_eq]
  by_cases hf : (traceLoop s a err' td tol tr.length [] tr q' true).2.2 = true
  · rw [if_pos hf, if_pos (h2.trans hf)]
    show _ ++ _ = _ ++ _
    rw [h1]
  · rw [if_neg hf, if_neg (by rw [h2]; exact hf)]
    exact h1

/-- (D0) corollary for SARSA(λ): same discount and lambda ⇒ same traces, whatever the step size,
    the reward and the table -/
theorem sarsalStep_traces_indep (γ α α' lam tol : Rat) (tr : List Tr) (q q' : QF)
    (s a s1 a1 : Nat) (r r' : Rat) :
    (sarsalStep γ α lam tol tr q s a s1 a1 r).1 = (sarsalStep γ α' lam tol tr q' s a s1 a1 r').1 :=
  updateTraces_traces_indep _ _ _ _ _ _ _ _ _

/-! ## (D1) equal lambdas: the learners share their traces after every real step -/

theorem d2_traces_shared (γ α lam tol : Rat) (d : D2) (e : Smp) :
    (d2Step γ α lam lam tol d e).trT = (d2Step γ α lam lam tol d e).trP :=
  sarsalStep_traces_indep γ α α lam tol d.trP d.qT d.qP e.s e.a e.s1 e.a1 e.r e.r

/-! ## (D2) both trace lists satisfy the trace invariant along every history -/

theorem d2_sim_ok (γ α lamT tol : Rat) (hγ : 0 ≤ γ ∧ γ ≤ 1) (hl : 0 ≤ lamT ∧ lamT ≤ 1)
    (htol : tol ≤ 1) : ∀ (sims : List Smp) (st : List Tr × QF), TrOK tol st.1 →
      TrOK tol (d2Sim γ α lamT tol sims st).1
  | [], _, h => h
  | _ :: es, st, h =>
    d2_sim_ok γ α lamT tol hγ hl htol es _ (sarsalStep_ok γ α lamT tol hγ hl htol st.1 st.2 h ..)

theorem d2_apply_ok (γ α lamP lamT tol : Rat) (hγ : 0 ≤ γ ∧ γ ≤ 1) (hlP : 0 ≤ lamP ∧ lamP ≤ 1)
    (hlT : 0 ≤ lamT ∧ lamT ≤ 1) (htol : tol ≤ 1) (d : D2) (o : D2Op)
    (h : TrOK tol d.trP ∧ TrOK tol d.trT) :
    TrOK tol (d2Apply γ α lamP lamT tol d o).trP ∧ TrOK tol (d2Apply γ α lamP lamT tol d o).trT := by
  cases o with
  | step e =>
    exact ⟨sarsalStep_ok γ α lamP tol hγ hlP htol d.trP d.qP h.1 ..,
           sarsalStep_ok γ α lamT tol hγ hlT htol d.trP d.qT h.1 ..⟩
  | batch sims =>
    exact ⟨h.1, d2_sim_ok γ α lamT tol hγ hlT htol sims ([], d.qT) (TrOK_nil tol)⟩
  | reset => exact h

theorem d2_traces_ok_from (γ α lamP lamT tol : Rat) (hγ : 0 ≤ γ ∧ γ ≤ 1) (hlP : 0 ≤ lamP ∧ lamP ≤ 1)
    (hlT : 0 ≤ lamT ∧ lamT ≤ 1) (htol : tol ≤ 1) :
    ∀ (ops : List D2Op) (d : D2), TrOK tol d.trP ∧ TrOK tol d.trT →
      TrOK tol (d2Run γ α lamP lamT tol ops d).trP ∧ TrOK tol (d2Run γ α lamP lamT tol ops d).trT
  | [], _, h => h
  | o :: os, d, h =>
    d2_traces_ok_from γ α lamP lamT tol hγ hlP hlT htol os _
      (d2_apply_ok γ α lamP lamT tol hγ hlP hlT htol d o h)

/-- (D2) along every history of real steps, planning batches and resets, both learners' eligibilities
    stay in [tol, 1] and no (s,a) is stored twice -/
theorem d2_traces_ok (γ α lamP lamT tol : Rat) (hγ : 0 ≤ γ ∧ γ ≤ 1) (hlP : 0 ≤ lamP ∧ lamP ≤ 1)
    (hlT : 0 ≤ lamT ∧ lamT ≤ 1) (htol : tol ≤ 1) (ops : List D2Op) :
    TrOK tol (d2Run γ α lamP lamT tol ops D2.init).trP ∧
    TrOK tol (d2Run γ α lamP lamT tol ops D2.init).trT :=
  d2_traces_ok_from γ α lamP lamT tol hγ hlP hlT htol ops D2.init ⟨TrOK_nil tol, TrOK_nil tol⟩

/-- (test) the hypotheses of (D2) are satisfiable with a non-trivial history -/
example :
    TrOK (1/1000) (d2Run (9/10) (1/10) (1/2) (3/4) (1/1000)
      [.step ⟨0, 0, 1, 0, 1⟩, .batch [⟨1, 0, 0, 1, -1⟩, ⟨0, 1, 1, 0, 2⟩], .reset, .step ⟨1, 0, 0, 0, 0⟩]
      D2.init).trP ∧
    TrOK (1/1000) (d2Run (9/10) (1/10) (1/2) (3/4) (1/1000)
      [.step ⟨0, 0, 1, 0, 1⟩, .batch [⟨1, 0, 0, 1, -1⟩, ⟨0, 1, 1, 0, 2⟩], .reset, .step ⟨1, 0, 0, 0, 0⟩]
      D2.init).trT :=
  d2_traces_ok _ _ _ _ _ ⟨by norm_num, by norm_num⟩ ⟨by norm_num, by norm_num⟩
    ⟨by norm_num, by norm_num⟩ (by norm_num) _

/-! ## (D3) the permanent learner is a stand-alone SARSA(λ) learner on the real experience -/

/-- the real experience of a history: the `.step` payloads, in order -/
def realSteps : List D2Op → List Smp
  | [] => []
  | .step e :: os => e :: realSteps os
  | .batch _ :: os => realSteps os
  | .reset :: os => realSteps os

/-- (D3) batches and resets never touch the permanent learner; it is exactly SARSA(λP) run on the
    real samples -/
theorem d2_permanent_is_sarsal (γ α lamP lamT tol : Rat) :
    ∀ (ops : List D2Op) (d : D2),
      ((d2Run γ α lamP lamT tol ops d).trP, (d2Run γ α lamP lamT tol ops d).qP)
        = (realSteps ops).foldl
            (fun st e => sarsalStep γ α lamP tol st.1 st.2 e.s e.a e.s1 e.a1 e.r) (d.trP, d.qP)
  | [], _ => rfl
  | .step e :: os, d => by
    show ((d2Run γ α lamP lamT tol os (d2Step γ α lamP lamT tol d e)).trP,
          (d2Run γ α lamP lamT tol os (d2Step γ α lamP lamT tol d e)).qP) = _
    rw [d2_permanent_is_sarsal γ α lamP lamT tol os _]
    rfl
  | .batch sims :: os, d => by
    show ((d2Run γ α lamP lamT tol os (d2Batch γ α lamT tol d sims)).trP,
          (d2Run γ α lamP lamT tol os (d2Batch γ α lamT tol d sims)).qP) = _
    rw [d2_permanent_is_sarsal γ α lamP lamT tol os _]
    rfl
  | .reset :: os, d => by
    show ((d2Run γ α lamP lamT tol os (d2Reset d)).trP,
          (d2Run γ α lamP lamT tol os (d2Reset d)).qP) = _
    rw [d2_permanent_is_sarsal γ α lamP lamT tol os _]
    rfl

/-! ## (D4) permanent / transient tables -/

theorem d2_reset_eq (d : D2) : (d2Reset d).qT = (d2Reset d).qP := rfl

theorem d2_step_keeps_equal (γ α lam tol : Rat) (d : D2) (e : Smp) (h : d.qT = d.qP) :
    (d2Step γ α lam lam tol d e).qT = (d2Step γ α lam lam tol d e).qP := by
  show (sarsalStep γ α lam tol d.trP d.qT e.s e.a e.s1 e.a1 e.r).2
      = (sarsalStep γ α lam tol d.trP d.qP e.s e.a e.s1 e.a1 e.r).2
  rw [h]

def D2Op.isBatch : D2Op → Bool
  | .batch _ => true
  | _ => false

/-- (D4) with equal lambdas, as long as no planning batch has run the transient table equals the
    permanent one -/
theorem d2_equal_until_batch (γ α lam tol : Rat) :
    ∀ (ops : List D2Op) (d : D2), (∀ o ∈ ops, o.isBatch = false) → d.qT = d.qP →
      (d2Run γ α lam lam tol ops d).qT = (d2Run γ α lam lam tol ops d).qP
  | [], _, _, h => h
  | .step e :: os, d, hb, h =>
    d2_equal_until_batch γ α lam tol os _ (fun o ho => hb o (List.mem_cons_of_mem _ ho))
      (d2_step_keeps_equal γ α lam tol d e h)
  | .batch sims :: os, d, hb, _ => by
    have := hb (.batch sims) (List.mem_cons_self ..)
    simp [D2Op.isBatch] at this
  | .reset :: os, d, hb, _ =>
    d2_equal_until_batch γ α lam tol os _ (fun o ho => hb o (List.mem_cons_of_mem _ ho))
      (d2_reset_eq d)

/-! ## (D5) λP = λT = 0: both tables stay inside the hull interval -/

/-- one SARSA(0) step through the trace machinery: the table stays in `[lo,hi]`, keys stay distinct -/
theorem d2_sarsal0_step (lo hi γ α tol : Rat) (hγ0 : 0 ≤ γ) (hα0 : 0 ≤ α) (hα1 : α ≤ 1)
    (tr : List Tr) (q : QF) (s a s1 a1 : Nat) (r : Rat) (hc : Closed lo hi γ r)
    (hnd : (tr.map key).Nodup) (hq : Bdd lo hi q) :
    ((sarsalStep γ α 0 tol tr q s a s1 a1 r).1.map key).Nodup ∧
    Bdd lo hi (sarsalStep γ α 0 tol tr q s a s1 a1 r).2 := by
  constructor
  · exact updateTraces_nodup _ _ _ _ _ _ _ hnd
  · rw [sarsal_lambda0 γ α tol tr q hnd s a s1 a1 r]
    exact sarsaStep_Bdd lo hi γ α q s a s1 a1 r hγ0 hα0 hα1 hc hq

theorem d2_sim0_Bdd (lo hi γ α tol : Rat) (hγ0 : 0 ≤ γ) (hα0 : 0 ≤ α) (hα1 : α ≤ 1) :
    ∀ (sims : List Smp) (st : List Tr × QF), (∀ e ∈ sims, Closed lo hi γ e.r) →
      (st.1.map key).Nodup → Bdd lo hi st.2 →
      ((d2Sim γ α 0 tol sims st).1.map key).Nodup ∧ Bdd lo hi (d2Sim γ α 0 tol sims st).2
  | [], _, _, hnd, hq => ⟨hnd, hq⟩
  | e :: es, st, hc, hnd, hq =>
    have h := d2_sarsal0_step lo hi γ α tol hγ0 hα0 hα1 st.1 st.2 e.s e.a e.s1 e.a1 e.r
      (hc e (List.mem_cons_self ..)) hnd hq
    d2_sim0_Bdd lo hi γ α tol hγ0 hα0 hα1 es _ (fun x hx => hc x (List.mem_cons_of_mem _ hx)) h.1 h.2

/-- rewards (real and simulated) of one operation lie in `[rmin, rmax]` -/
def D2Op.ok (rmin rmax : Rat) : D2Op → Prop
  | .step e => rmin ≤ e.r ∧ e.r ≤ rmax
  | .batch sims => ∀ e ∈ sims, rmin ≤ e.r ∧ e.r ≤ rmax
  | .reset => True

/-- the invariant of (D5): both tables in `[lo,hi]`, permanent keys distinct -/
def d2_Inv (lo hi : Rat) (d : D2) : Prop :=
  Bdd lo hi d.qP ∧ Bdd lo hi d.qT ∧ (d.trP.map key).Nodup

theorem d2_apply0_inv (γ α tol rmin rmax : Rat) (hγ0 : 0 ≤ γ) (hγ1 : γ < 1) (hα0 : 0 ≤ α) (hα1 : α ≤ 1)
    (d : D2) (o : D2Op) (ho : o.ok rmin rmax) (h : d2_Inv (loB rmin γ) (hiB rmax γ) d) :
    d2_Inv (loB rmin γ) (hiB rmax γ) (d2Apply γ α 0 0 tol d o) := by
  obtain ⟨hP, hT, hnd⟩ := h
  cases o with
  | step e =>
    have hc := hull_closed γ rmin rmax e.r hγ0 hγ1 ho
    have p := d2_sarsal0_step _ _ γ α tol hγ0 hα0 hα1 d.trP d.qP e.s e.a e.s1 e.a1 e.r hc hnd hP
    have t := d2_sarsal0_step _ _ γ α tol hγ0 hα0 hα1 d.trP d.qT e.s e.a e.s1 e.a1 e.r hc hnd hT
    exact ⟨p.2, t.2, p.1⟩
  | batch sims =>
    have t := d2_sim0_Bdd _ _ γ α tol hγ0 hα0 hα1 sims ([], d.qT)
      (fun e he => hull_closed γ rmin rmax e.r hγ0 hγ1 (ho e he)) (by simp) hT
    exact ⟨hP, t.2, hnd⟩
  | reset => exact ⟨hP, hP, hnd⟩

theorem d2_lambda0_bounded_from (γ α tol rmin rmax : Rat) (hγ0 : 0 ≤ γ) (hγ1 : γ < 1)
    (hα0 : 0 ≤ α) (hα1 : α ≤ 1) :
    ∀ (ops : List D2Op) (d : D2), (∀ o ∈ ops, o.ok rmin rmax) →
      d2_Inv (loB rmin γ) (hiB rmax γ) d →
      d2_Inv (loB rmin γ) (hiB rmax γ) (d2Run γ α 0 0 tol ops d)
  | [], _, _, h => h
  | o :: os, d, ho, h =>
    d2_lambda0_bounded_from γ α tol rmin rmax hγ0 hγ1 hα0 hα1 os _
      (fun x hx => ho x (List.mem_cons_of_mem _ hx))
      (d2_apply0_inv γ α tol rmin rmax hγ0 hγ1 hα0 hα1 d o (ho o (List.mem_cons_self ..)) h)

/-- (D5) with both lambdas 0, Dyna2's two tables stay in the hull interval
    `[min(rmin,0), max(rmax,0)]/(1-γ)` for every history of real steps, planning batches (any
    simulated samples with rewards in range) and resets, any cut-off -/
theorem d2_lambda0_bounded (γ α tol rmin rmax : Rat) (hγ0 : 0 ≤ γ) (hγ1 : γ < 1)
    (hα0 : 0 ≤ α) (hα1 : α ≤ 1) (ops : List D2Op) (h : ∀ o ∈ ops, o.ok rmin rmax) :
    Bdd (loB rmin γ) (hiB rmax γ) (d2Run γ α 0 0 tol ops D2.init).qP ∧
    Bdd (loB rmin γ) (hiB rmax γ) (d2Run γ α 0 0 tol ops D2.init).qT := by
  have := d2_lambda0_bounded_from γ α tol rmin rmax hγ0 hγ1 hα0 hα1 ops D2.init h
    ⟨Bdd_zero γ rmin rmax hγ1, Bdd_zero γ rmin rmax hγ1, by simp [D2.init]⟩
  exact ⟨this.1, this.2.1⟩

/-- (test) the hypotheses of (D5) are satisfiable with a non-trivial history -/
example : ∀ o ∈ ([.step ⟨0, 0, 1, 0, 1⟩, .batch [⟨1, 0, 0, 1, -1⟩, ⟨0, 1, 1, 0, 2⟩], .reset,
    .step ⟨1, 0, 0, 0, 0⟩] : List D2Op), o.ok (-1) 2 := by
  intro o ho
  simp only [List.mem_cons, List.not_mem_nil, or_false] at ho
  rcases ho with rfl | rfl | rfl | rfl
  · exact ⟨by norm_num, by norm_num⟩
  · intro e he
    simp only [List.mem_cons, List.not_mem_nil, or_false] at he
    rcases he with rfl | rfl <;> exact ⟨by norm_num, by norm_num⟩
  · trivial
  · exact ⟨by norm_num, by norm_num⟩

/-- (test) … and (D5) then applies to it -/
example :
    Bdd (loB (-1) (9/10)) (hiB 2 (9/10)) (d2Run (9/10) (1/2) 0 0 (1/1000)
      [.step ⟨0, 0, 1, 0, 1⟩, .batch [⟨1, 0, 0, 1, -1⟩, ⟨0, 1, 1, 0, 2⟩], .reset, .step ⟨1, 0, 0, 0, 0⟩]
      D2.init).qT := by
  refine (d2_lambda0_bounded (9/10) (1/2) (1/1000) (-1) 2 (by norm_num) (by norm_num) (by norm_num)
    (by norm_num) _ ?_).2
  intro o ho
  simp only [List.mem_cons, List.not_mem_nil, or_false] at ho
  rcases ho with rfl | rfl | rfl | rfl
  · exact ⟨by norm_num, by norm_num⟩
  · intro e he
    simp only [List.mem_cons, List.not_mem_nil, or_false] at he
    rcases he with rfl | rfl <;> exact ⟨by norm_num, by norm_num⟩
  · trivial
  · exact ⟨by norm_num, by norm_num⟩

/-! ## (D6) (test by evaluation) SARSA(λ) with λ > 0 leaves the one-step interval -/

/-- the upper end of the hull interval for rewards ≡ 1, γ = 1/2 -/
theorem d2_hiB_one_half : hiB 1 (1/2) = 2 := by
  norm_num [hiB]

/-- the four-sample history of the counterexample; every reward is 1 -/
def d2_cexHist : List TEv := [⟨0, 0, 0, 0, 1⟩, ⟨0, 0, 0, 0, 1⟩, ⟨0, 0, 0, 0, 1⟩, ⟨1, 0, 0, 0, 1⟩]

/-- (D6) TEST BY EVALUATION / COUNTEREXAMPLE.  The boundedness clause is false for λ > 0:
    SARSA(λ = 1) with γ = 1/2, α = 1, cut-off 1/100 and all rewards 1 (interval [0, 2]) reaches
    43/16 > 2 at (0,0) after four samples. -/
theorem sarsal_exceeds_interval :
    (sarsalRun (1/2) 1 1 (1/100) d2_cexHist ([], fun _ _ => 0)).2 0 0 = 43/16 := by
  decide +kernel

theorem sarsal_exceeds_interval_gt :
    hiB 1 (1/2) < (sarsalRun (1/2) 1 1 (1/100) d2_cexHist ([], fun _ _ => 0)).2 0 0 := by
  rw [sarsal_exceeds_interval, d2_hiB_one_half]
  norm_num

/-- (D6, Dyna2 level; test by evaluation) the same four real samples fed to Dyna2 with both lambdas 1:
    permanent and transient table both hold 43/16 > 2 = hiB 1 (1/2) at (0,0), so the hypothesis
    `lamP = lamT = 0` of `d2_lambda0_bounded` cannot simply be dropped -/
theorem d2_exceeds_interval :
    (d2Run (1/2) 1 1 1 (1/100)
      [.step ⟨0, 0, 0, 0, 1⟩, .step ⟨0, 0, 0, 0, 1⟩, .step ⟨0, 0, 0, 0, 1⟩, .step ⟨1, 0, 0, 0, 1⟩]
      D2.init).qP 0 0 = 43/16 ∧
    (d2Run (1/2) 1 1 1 (1/100)
      [.step ⟨0, 0, 0, 0, 1⟩, .step ⟨0, 0, 0, 0, 1⟩, .step ⟨0, 0, 0, 0, 1⟩, .step ⟨1, 0, 0, 0, 1⟩]
      D2.init).qT 0 0 = 43/16 := by
  decide +kernel

/-- (D4, test by evaluation) the "no batch" hypothesis of `d2_equal_until_batch` is necessary: one
    planning batch makes the transient table differ from the permanent one -/
theorem d2_batch_breaks_equal :
    (d2Run (1/2) 1 0 0 (1/100) [.batch [⟨0, 0, 0, 0, 1⟩]] D2.init).qT 0 0 = 1 ∧
    (d2Run (1/2) 1 0 0 (1/100) [.batch [⟨0, 0, 0, 0, 1⟩]] D2.init).qP 0 0 = 0 := by
  decide +kernel


end AITB.Learn
