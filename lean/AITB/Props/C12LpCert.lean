/-
  AITB.Props.C12LpCert — the LP oracle inside `LPInterpolation` WITHOUT an optimality assumption.

  `lpinterp_optimal` (AITB.Props.C12InterpOpt) assumes that the LP oracle answers optimally (`LpOptimal`).
  Here that assumption is replaced by a per-instance dual certificate `y` that is checked exactly
  (`lpCertOK`, AITB.Model.C12Check): by weak duality a primal-feasible answer whose objective meets the dual
  bound of a dual-feasible `y` is optimal.  Nothing about the LP solver is assumed:

  1. `lpPrimalFeasible_sound` / `lpPrimalFeasible_iff` : the Boolean primal check decides `LpFeasible`.
  2. `lp_weak_duality`           : `dualBound rows y ≤ gains · c` for every dual-feasible `y` and feasible `c`.
  3. `lpCertOK_eps_optimal`, `lpCertOK_optimal` : an accepted certificate proves `eps`-optimality / `LpOptimal`.
  4. `certifiedLp`, `certifiedLp_optimal`, `lpinterp_optimal_certified` : wrapping an ARBITRARY oracle and an
     ARBITRARY certificate producer by the check gives an oracle for which `lpinterp_optimal` holds with no
     hypothesis on the oracle.
  5. `lpinterp_optimal_eps`      : the same statement for an oracle that is only `eps`-optimal (certificates
     computed in floating point are only nearly tight); `certifiedLpEps`, `lpinterp_optimal_certified_eps`.
  6. literal test of the checker on the harness LP (`decide +kernel`).

  No row-length side condition is needed anywhere: `dot` truncates to the shorter argument and `getD` pads with 0,
  so the sum exchange only needs `c.length ≤ gains.length`.
-/
import AITB.Props.C12InterpOpt
import Mathlib.Algebra.Order.Field.Rat
import Mathlib.Tactic.Ring
import Mathlib.Tactic.Linarith
import Mathlib.Tactic.NormNum

namespace AITB.Interp
open AITB.Prune AITB.C12Check

/-! ## 1. the Boolean primal check decides `LpFeasible` -/

theorem lpPrimalFeasible_iff (inp : LpIn) (sol : Rat × Vec) :
    lpPrimalFeasible inp sol = true ↔ LpFeasible inp sol := by
  simp [lpPrimalFeasible, LpFeasible, nonneg, and_assoc]

theorem lpPrimalFeasible_sound {inp : LpIn} {sol : Rat × Vec} (h : lpPrimalFeasible inp sol = true) :
    LpFeasible inp sol := (lpPrimalFeasible_iff inp sol).mp h

/-! ## 2. weak duality -/

theorem dualCol_nil_left (y : Vec) (j : Nat) : dualCol [] y j = 0 := by simp [dualCol, sumL]
theorem dualCol_nil_right (rows : List (Vec × Rat)) (j : Nat) : dualCol rows [] j = 0 := by simp [dualCol, sumL]
theorem dualCol_cons (r : Vec × Rat) (rows : List (Vec × Rat)) (ys : Rat) (y : Vec) (j : Nat) :
    dualCol (r :: rows) (ys :: y) j = ys * r.1.getD j 0 + dualCol rows y j := by simp [dualCol, sumL]

/-- `Σ_s y_s (row_s · c)`, the quantity that is exchanged -/
def dualMix (rows : List (Vec × Rat)) (y c : Vec) : Rat :=
  sumL (List.zipWith (fun (r : Vec × Rat) ys => ys * dot r.1 c) rows y)

theorem dualMix_nil_left (y c : Vec) : dualMix [] y c = 0 := by simp [dualMix, sumL]
theorem dualMix_nil_right (rows : List (Vec × Rat)) (c : Vec) : dualMix rows [] c = 0 := by simp [dualMix, sumL]
theorem dualMix_cons (r : Vec × Rat) (rows : List (Vec × Rat)) (ys : Rat) (y c : Vec) :
    dualMix (r :: rows) (ys :: y) c = ys * dot r.1 c + dualMix rows y c := by simp [dualMix, sumL]

/-- exchange of the two finite sums: `Σ_s y_s (row_s · c) = Σ_j (Σ_s y_s row_s[j]) c_j` -/
theorem dualMix_eq_rsum (n : Nat) (c : Vec) (hc : c.length ≤ n) : ∀ (rows : List (Vec × Rat)) (y : Vec),
    dualMix rows y c = rsum n (fun j => dualCol rows y j * c.getD j 0)
  | [], y => by simp [dualMix_nil_left, dualCol_nil_left, rsum_zero]
  | _ :: _, [] => by simp [dualMix_nil_right, dualCol_nil_right, rsum_zero]
  | r :: rows, ys :: y => by
    have h1 : rsum n (fun j => dualCol (r :: rows) (ys :: y) j * c.getD j 0) =
        rsum n (fun j => ys * (r.1.getD j 0 * c.getD j 0) + dualCol rows y j * c.getD j 0) :=
      rsum_congr _ _ _ (fun j _ => by rw [dualCol_cons]; ring)
    rw [h1, rsum_add, rsum_mul_left, ← dualMix_eq_rsum n c hc rows y, ← dot_eq_rsum_right n r.1 c hc, dualMix_cons]

/-- with non-negative multipliers, the weighted row values are below the weighted right-hand sides -/
theorem dualMix_le (c : Vec) : ∀ (rows : List (Vec × Rat)) (y : Vec), (∀ ys ∈ y, 0 ≤ ys) →
    (∀ row ∈ rows, dot row.1 c ≤ row.2) → dualMix rows y c ≤ - dualBound rows y
  | [], y, _, _ => by simp [dualMix_nil_left, dualBound, sumL]
  | _ :: _, [], _, _ => by simp [dualMix_nil_right, dualBound, sumL]
  | r :: rows, ys :: y, hy, hr => by
    have ih := dualMix_le c rows y (fun x hx => hy x (List.mem_cons_of_mem _ hx))
      (fun x hx => hr x (List.mem_cons_of_mem _ hx))
    have h1 : ys * dot r.1 c ≤ ys * r.2 :=
      mul_le_mul_of_nonneg_left (hr r (List.mem_cons_self ..)) (hy ys (List.mem_cons_self ..))
    have e : - dualBound (r :: rows) (ys :: y) = ys * r.2 + - dualBound rows y := by
      simp [dualBound, sumL]
    rw [dualMix_cons, e]
    linarith

theorem lpDualFeasible_iff (inp : LpIn) (y : Vec) :
    lpDualFeasible inp y = true ↔ y.length = inp.rows.length ∧ (∀ x ∈ y, 0 ≤ x) ∧
      ∀ j, j < inp.gains.length → 0 ≤ inp.gains.getD j 0 + dualCol inp.rows y j := by
  simp [lpDualFeasible, nonneg, and_assoc]

/-- weak duality for the LP `minimise gains·c  s.t.  row·c ≤ rhs (every row), c ≥ 0`: every dual-feasible `y`
    bounds the objective of every feasible `c` from below.  No hypothesis on the lengths of the rows is needed
    (`dot` truncates, `getD` pads with 0); `y.length = rows.length`, checked by `lpDualFeasible`, is not used
    either. -/
theorem lp_weak_duality (inp : LpIn) (y c : Vec) (hy : lpDualFeasible inp y = true)
    (hc_len : c.length = inp.gains.length) (hc : ∀ x ∈ c, 0 ≤ x)
    (hrows : ∀ row ∈ inp.rows, dot row.1 c ≤ row.2) :
    dualBound inp.rows y ≤ dot c inp.gains := by
  obtain ⟨_, hy0, hcol⟩ := (lpDualFeasible_iff inp y).mp hy
  have hcl : c.length ≤ inp.gains.length := le_of_eq hc_len
  have h0 : 0 ≤ rsum inp.gains.length (fun j => (inp.gains.getD j 0 + dualCol inp.rows y j) * c.getD j 0) := by
    have := rsum_le inp.gains.length (fun _ => 0)
      (fun j => (inp.gains.getD j 0 + dualCol inp.rows y j) * c.getD j 0)
      (fun j hj => mul_nonneg (hcol j hj) (getD_nonneg hc j))
    rwa [rsum_zero] at this
  have h1 : rsum inp.gains.length (fun j => (inp.gains.getD j 0 + dualCol inp.rows y j) * c.getD j 0) =
      dot c inp.gains + dualMix inp.rows y c := by
    rw [dualMix_eq_rsum inp.gains.length c hcl, dot_eq_rsum inp.gains.length c inp.gains hcl, ← rsum_add]
    exact rsum_congr _ _ _ (fun j _ => by ring)
  have h2 := dualMix_le c inp.rows y hy0 hrows
  linarith

/-! ## 3. an accepted certificate proves (eps-)optimality -/

theorem lpCertOK_iff (eps : Rat) (inp : LpIn) (y : Vec) (sol : Rat × Vec) :
    lpCertOK eps inp y sol = true ↔
      lpPrimalFeasible inp sol = true ∧ lpDualFeasible inp y = true ∧ sol.1 ≤ dualBound inp.rows y + eps := by
  simp [lpCertOK, and_assoc]

theorem lpCertOK_eps_optimal (eps : Rat) (inp : LpIn) (y : Vec) (sol : Rat × Vec)
    (h : lpCertOK eps inp y sol = true) :
    LpFeasible inp sol ∧ ∀ c : Vec, c.length = inp.gains.length → (∀ x ∈ c, 0 ≤ x) →
      (∀ row ∈ inp.rows, dot row.1 c ≤ row.2) → sol.1 ≤ dot c inp.gains + eps := by
  obtain ⟨hp, hd, hb⟩ := (lpCertOK_iff eps inp y sol).mp h
  refine ⟨lpPrimalFeasible_sound hp, fun c hcl hc0 hrows => ?_⟩
  have := lp_weak_duality inp y c hd hcl hc0 hrows
  linarith

theorem lpCertOK_optimal (inp : LpIn) (y : Vec) (sol : Rat × Vec) (h : lpCertOK 0 inp y sol = true) :
    LpOptimal inp sol := by
  obtain ⟨hf, ho⟩ := lpCertOK_eps_optimal 0 inp y sol h
  exact ⟨hf, fun c hcl hc0 hrows => by have := ho c hcl hc0 hrows; linarith⟩

/-- an accepted exact certificate also pins the objective: it equals the dual bound -/
theorem lpCertOK_value (inp : LpIn) (y : Vec) (sol : Rat × Vec) (h : lpCertOK 0 inp y sol = true) :
    sol.1 = dualBound inp.rows y := by
  obtain ⟨hp, hd, hb⟩ := (lpCertOK_iff 0 inp y sol).mp h
  obtain ⟨hl, h0, hr, hv⟩ := lpPrimalFeasible_sound hp
  have := lp_weak_duality inp y sol.2 hd hl h0 hr
  linarith

/-! ## 4. a certified oracle needs no assumption -/

/-- an arbitrary oracle `lp` whose answer is only passed on when the certificate `cert inp` is accepted exactly -/
def certifiedLp (lp : LpIn → Option (Rat × Vec)) (cert : LpIn → Vec) : LpIn → Option (Rat × Vec) :=
  fun inp => match lp inp with
    | some sol => if lpCertOK 0 inp (cert inp) sol then some sol else none
    | none => none

/-- the same with slack `eps` on the duality gap -/
def certifiedLpEps (eps : Rat) (lp : LpIn → Option (Rat × Vec)) (cert : LpIn → Vec) : LpIn → Option (Rat × Vec) :=
  fun inp => match lp inp with
    | some sol => if lpCertOK eps inp (cert inp) sol then some sol else none
    | none => none

theorem certifiedLpEps_spec {eps : Rat} {lp : LpIn → Option (Rat × Vec)} {cert : LpIn → Vec} {inp : LpIn}
    {sol : Rat × Vec} (h : certifiedLpEps eps lp cert inp = some sol) :
    lp inp = some sol ∧ lpCertOK eps inp (cert inp) sol = true := by
  unfold certifiedLpEps at h
  cases hl : lp inp with
  | none => rw [hl] at h; cases h
  | some s =>
    rw [hl] at h
    simp only at h
    split at h
    · rename_i hc
      cases h
      exact ⟨rfl, hc⟩
    · cases h

theorem certifiedLp_eq (lp : LpIn → Option (Rat × Vec)) (cert : LpIn → Vec) :
    certifiedLp lp cert = certifiedLpEps 0 lp cert := rfl

theorem certifiedLp_spec {lp : LpIn → Option (Rat × Vec)} {cert : LpIn → Vec} {inp : LpIn}
    {sol : Rat × Vec} (h : certifiedLp lp cert inp = some sol) :
    lp inp = some sol ∧ lpCertOK 0 inp (cert inp) sol = true :=
  certifiedLpEps_spec (eps := 0) h

/-- whatever `lp` and `cert` are, the certified oracle satisfies the `LpOptimal` contract -/
theorem certifiedLp_optimal (lp : LpIn → Option (Rat × Vec)) (cert : LpIn → Vec) :
    ∀ inp sol, certifiedLp lp cert inp = some sol → LpOptimal inp sol :=
  fun inp sol h => lpCertOK_optimal inp (cert inp) sol (certifiedLp_spec h).2

theorem certifiedLpEps_eps_optimal (eps : Rat) (lp : LpIn → Option (Rat × Vec)) (cert : LpIn → Vec) :
    ∀ inp sol, certifiedLpEps eps lp cert inp = some sol →
      LpFeasible inp sol ∧ ∀ c : Vec, c.length = inp.gains.length → (∀ x ∈ c, 0 ≤ x) →
        (∀ row ∈ inp.rows, dot row.1 c ≤ row.2) → sol.1 ≤ dot c inp.gains + eps :=
  fun inp sol h => lpCertOK_eps_optimal eps inp (cert inp) sol (certifiedLpEps_spec h).2

/-- `lpinterp_optimal` with NO hypothesis on the LP oracle: for an arbitrary oracle `lp` and an arbitrary
    certificate producer `cert`, the repaired `LPInterpolation` run with the certified oracle returns a value below
    the value of every exact primal-feasible reconstruction of the query. -/
theorem lpinterp_optimal_certified {lp : LpIn → Option (Rat × Vec)} {cert : LpIn → Vec} {point : Vec}
    {ubQ : List Vec} {A : Nat} {pts : List Vec} {vals : Vec}
    (hpt : ∀ x ∈ point, 0 ≤ x) (hpts : ∀ p ∈ pts, ∀ x ∈ p, 0 ≤ x)
    (hptlen : ∀ p ∈ pts, p.length = point.length) (hlen : vals.length = pts.length)
    (hub : ubQ.length = point.length)
    (hzpt : ∀ s, isZeroS (point.getD s 0) = true → point.getD s 0 = 0)
    (hz : ∀ p ∈ pts, ∀ s, isZeroS (p.getD s 0) = true → p.getD s 0 = 0)
    (hmass : 0 < sumL point) (hsum : ∀ p ∈ pts, sumL p = sumL point)
    (hne : lpCompat point pts ≠ [])
    {wc wp : Vec} (hprim : primalOK point wc wp pts = true)
    {v : Rat} {w' : Vec}
    (h : lpInterp repaired (certifiedLp lp cert) point ubQ A pts vals = some ⟨v, some w'⟩) :
    v ≤ weightedValue (cornerVals ubQ) wc wp vals :=
  lpinterp_optimal hpt hpts hptlen hlen hub hzpt hz hmass hsum (certifiedLp_optimal lp cert) hne hprim h

/-! ## 5. an oracle that is only `eps`-optimal

    `lp_case_opt`, `lpSol_opt` and `lpinterp_optimal` (AITB.Props.C12InterpOpt) re-proved with an additive slack
    `eps ≥ 0`.  The slack only enters the LP branch; the single-point shortcut is exact. -/

/-- the `eps`-optimality contract of an LP oracle (what `lpCertOK eps` establishes) -/
def LpEpsOptimal (eps : Rat) (inp : LpIn) (sol : Rat × Vec) : Prop :=
  LpFeasible inp sol ∧ ∀ c : Vec, c.length = inp.gains.length → (∀ x ∈ c, 0 ≤ x) →
    (∀ row ∈ inp.rows, dot row.1 c ≤ row.2) → sol.1 ≤ dot c inp.gains + eps

theorem lpEpsOptimal_zero_iff (inp : LpIn) (sol : Rat × Vec) : LpEpsOptimal 0 inp sol ↔ LpOptimal inp sol := by
  simp [LpEpsOptimal, LpOptimal]

section opt_eps
variable {lp : LpIn → Option (Rat × Vec)} {point cv : Vec} {pts : List Vec} {vals : Vec} {compat : List Nat}
  {eps : Rat}

theorem lp_case_opt_eps (hptlen : ∀ p ∈ pts, p.length = point.length)
    (hz : ∀ p ∈ pts, ∀ s, isZeroS (p.getD s 0) = true → p.getD s 0 = 0)
    (hlp : ∀ inp sol, lp inp = some sol → LpEpsOptimal eps inp sol)
    (hc : ∀ i ∈ compat, i < pts.length ∧ ∀ s, s < point.length → isZeroS (point.getD s 0) = true →
      isZeroS ((pts.getD i []).getD s 0) = true)
    {c : Vec} (hc0 : ∀ x ∈ c, 0 ≤ x) (hcl : c.length = compat.length)
    (hfeas : ∀ s ∈ lpNonZero point, mixAt c (compat.map (fun i => pts.getD i [])) s ≤ point.getD s 0)
    {sol : Rat × Vec}
    (h : lp ⟨(lpNonZero point).map (fun s => ((compat.map (fun i => pts.getD i [])).map (fun p => p.getD s 0), point.getD s 0)),
      compat.map (fun i => vals.getD i 0 - dot (sel (lpNonZero point) (pts.getD i [])) (sel (lpNonZero point) cv))⟩ = some sol) :
    sol.1 ≤ dot c (compat.map (fun i => vals.getD i 0 - dot (pts.getD i []) cv)) + eps := by
  have hopt := (hlp _ _ h).2 c (by simpa using hcl) hc0 (by
    intro row hrow
    obtain ⟨s, hs, rfl⟩ := List.mem_map.mp hrow
    simp only
    rw [dot_comm, ← mixAt_eq_dot]
    exact hfeas s hs)
  simp only at hopt
  have hg : compat.map (fun i => vals.getD i 0 - dot (sel (lpNonZero point) (pts.getD i [])) (sel (lpNonZero point) cv)) =
      compat.map (fun i => vals.getD i 0 - dot (pts.getD i []) cv) := by
    apply List.map_congr_left
    intro i hi
    have hm : pts.getD i [] ∈ pts := compat_getD_mem (fun j hj => (hc j hj).1) hi
    rw [dot_sel_nonZero cv (le_of_eq (hptlen _ hm)) (fun s hs hzs => hz _ hm s ((hc i hi).2 s hs hzs))]
  rw [hg] at hopt
  exact hopt

/-- the single-point shortcut does not call the oracle: `lpSol_opt` with the oracle that never answers -/
theorem lpSol_single_no_lp (i : Nat) :
    lpSol false lp point cv pts vals [i] = lpSol false (fun _ => none) point cv pts vals [i] := rfl

theorem lpSol_opt_eps (heps : 0 ≤ eps) (hpts : ∀ p ∈ pts, ∀ x ∈ p, 0 ≤ x)
    (hptlen : ∀ p ∈ pts, p.length = point.length)
    (hz : ∀ p ∈ pts, ∀ s, isZeroS (p.getD s 0) = true → p.getD s 0 = 0)
    (hlp : ∀ inp sol, lp inp = some sol → LpEpsOptimal eps inp sol)
    (hc : ∀ i ∈ compat, i < pts.length ∧ ∀ s, s < point.length → isZeroS (point.getD s 0) = true →
      isZeroS ((pts.getD i []).getD s 0) = true)
    (hne : compat ≠ [])
    {c : Vec} (hc0 : ∀ x ∈ c, 0 ≤ x) (hcl : c.length = compat.length)
    (hfeas : ∀ s ∈ lpNonZero point, mixAt c (compat.map (fun i => pts.getD i [])) s ≤ point.getD s 0)
    (h1 : ∀ x ∈ c, x ≤ 1)
    {sol : Rat × Vec} (h : lpSol false lp point cv pts vals compat = some sol) :
    sol.1 ≤ dot c (compat.map (fun i => vals.getD i 0 - dot (pts.getD i []) cv)) + eps := by
  rcases compat with _ | ⟨i, _ | ⟨i2, t⟩⟩
  · exact absurd rfl hne
  · -- the single-point shortcut: exact, by `lpSol_opt` for the oracle that never answers
    rw [lpSol_single_no_lp] at h
    have := lpSol_opt (lp := fun _ => none) (cv := cv) (vals := vals) hpts hptlen hz
      (fun _ _ h => by cases h) hc hne hc0 hcl hfeas h1 h
    linarith
  · exact lp_case_opt_eps hptlen hz hlp hc hc0 hcl hfeas h

end opt_eps

set_option linter.unusedVariables false in
/-- `lpinterp_optimal` for an oracle that is only `eps`-optimal (`0 ≤ eps`): the value returned by the repaired
    `LPInterpolation` exceeds the value of an exact primal-feasible reconstruction of the query by at most `eps`.
    (`hpt`, `hlen`, `hub` are not needed; they are kept so that the hypotheses are those of `lpinterp_optimal`.) -/
theorem lpinterp_optimal_eps {lp : LpIn → Option (Rat × Vec)} {eps : Rat} {point : Vec} {ubQ : List Vec} {A : Nat}
    {pts : List Vec} {vals : Vec}
    (heps : 0 ≤ eps)
    (hpt : ∀ x ∈ point, 0 ≤ x) (hpts : ∀ p ∈ pts, ∀ x ∈ p, 0 ≤ x)
    (hptlen : ∀ p ∈ pts, p.length = point.length) (hlen : vals.length = pts.length)
    (hub : ubQ.length = point.length)
    (hzpt : ∀ s, isZeroS (point.getD s 0) = true → point.getD s 0 = 0)
    (hz : ∀ p ∈ pts, ∀ s, isZeroS (p.getD s 0) = true → p.getD s 0 = 0)
    (hmass : 0 < sumL point) (hsum : ∀ p ∈ pts, sumL p = sumL point)
    (hlp : ∀ inp sol, lp inp = some sol → LpFeasible inp sol ∧ ∀ c : Vec, c.length = inp.gains.length →
      (∀ x ∈ c, 0 ≤ x) → (∀ row ∈ inp.rows, dot row.1 c ≤ row.2) → sol.1 ≤ dot c inp.gains + eps)
    (hne : lpCompat point pts ≠ [])
    {wc wp : Vec} (hprim : primalOK point wc wp pts = true)
    {v : Rat} {w' : Vec} (h : lpInterp repaired lp point ubQ A pts vals = some ⟨v, some w'⟩) :
    v ≤ weightedValue (cornerVals ubQ) wc wp vals + eps := by
  obtain ⟨hwc, hwp, hwcl, hwpl, hrec⟩ := (primalOK_iff ..).mp hprim
  have hvan := weight_zero_of_not_compat hpts hzpt hwc hwp hwpl hrec
  rw [lpInterp_eq] at h
  simp only [repaired] at h
  rw [if_neg (by simpa [List.isEmpty_iff] using hne)] at h
  cases hsol : lpSol false lp point (cornerVals ubQ) pts vals (lpCompat point pts) with
  | none => rw [hsol] at h; cases h
  | some sol =>
    obtain ⟨u, r⟩ := sol
    rw [hsol] at h
    simp only [Option.some.injEq, Out.mk.injEq] at h
    obtain ⟨rfl, _⟩ := h
    have hc := fun i (hi : i ∈ lpCompat point pts) => lpCompat_spec hi
    -- the mixture of all stored points is the mixture of the compatible ones
    have hmix : ∀ s, mixAt wp pts s = mixAt ((lpCompat point pts).map (fun i => wp.getD i 0))
        ((lpCompat point pts).map (fun i => pts.getD i [])) s := by
      intro s
      rw [mixAt_eq_dot, dot_lpCompat hwpl hvan, mixAt_eq_dot, List.map_map]
      congr 1
      apply List.map_congr_left
      intro i _
      exact getD_map_getD pts s i
    have hopt := lpSol_opt_eps (cv := cornerVals ubQ) (vals := vals) heps hpts hptlen hz hlp hc hne
      (c := (lpCompat point pts).map (fun i => wp.getD i 0))
      (by
        intro x hx
        obtain ⟨i, _, rfl⟩ := List.mem_map.mp hx
        exact getD_nonneg hwp i)
      (by simp)
      (by
        intro s hs
        rw [← hmix s]
        have h2 := hrec s (mem_lpNonZero.mp hs).1
        simp only [reconAt] at h2
        have h3 := getD_nonneg hwc s
        linarith)
      (by
        intro x hx
        obtain ⟨i, hi, rfl⟩ := List.mem_map.mp hx
        exact weight_le_one hpts hptlen hmass hsum hwc hwp hrec i (hc i hi).1)
      hsol
    simp only at hopt
    -- the value of (wc, wp) in terms of the point weights only
    have hW : weightedValue (cornerVals ubQ) wc wp vals =
        dot point (cornerVals ubQ) - dot wp (pts.map (fun p => dot p (cornerVals ubQ))) + dot wp vals := by
      simp only [weightedValue]
      rw [dot_eq_sumL_range point.length wc (cornerVals ubQ) (le_of_eq hwcl)]
      have h1 : sumL ((List.range point.length).map (fun s => wc.getD s 0 * (cornerVals ubQ).getD s 0)) =
          sumL ((List.range point.length).map (fun s => point.getD s 0 * (cornerVals ubQ).getD s 0)) -
          sumL ((List.range point.length).map (fun s => mixAt wp pts s * (cornerVals ubQ).getD s 0)) := by
        rw [← sumL_map_sub]
        apply sumL_map_congr
        intro s hs
        have h2 := hrec s (List.mem_range.mp hs)
        simp only [reconAt] at h2
        have e : wc.getD s 0 = point.getD s 0 - mixAt wp pts s := by linarith
        rw [e]; ring
      rw [h1, ← dot_eq_sumL_range point.length point (cornerVals ubQ) (le_refl _),
        sum_mixAt_mul point.length (cornerVals ubQ) wp pts (fun p hp => le_of_eq (hptlen p hp))]
    rw [hW, dot_lpCompat hwpl hvan (pts.map (fun p => dot p (cornerVals ubQ))), dot_lpCompat hwpl hvan vals]
    rw [dot_map_sub] at hopt
    have e : (lpCompat point pts).map (fun i => (pts.map (fun p => dot p (cornerVals ubQ))).getD i 0) =
        (lpCompat point pts).map (fun i => dot (pts.getD i []) (cornerVals ubQ)) :=
      List.map_congr_left (fun i _ => getD_map_dot_right _ pts i)
    rw [e]
    linarith

/-- the `eps = 0` instance of `lpinterp_optimal_eps` is `lpinterp_optimal` (consistency of the generalisation) -/
example {lp : LpIn → Option (Rat × Vec)} {point : Vec} {ubQ : List Vec} {A : Nat} {pts : List Vec} {vals : Vec}
    (hpt : ∀ x ∈ point, 0 ≤ x) (hpts : ∀ p ∈ pts, ∀ x ∈ p, 0 ≤ x)
    (hptlen : ∀ p ∈ pts, p.length = point.length) (hlen : vals.length = pts.length)
    (hub : ubQ.length = point.length)
    (hzpt : ∀ s, isZeroS (point.getD s 0) = true → point.getD s 0 = 0)
    (hz : ∀ p ∈ pts, ∀ s, isZeroS (p.getD s 0) = true → p.getD s 0 = 0)
    (hmass : 0 < sumL point) (hsum : ∀ p ∈ pts, sumL p = sumL point)
    (hlp : ∀ inp sol, lp inp = some sol → LpOptimal inp sol)
    (hne : lpCompat point pts ≠ [])
    {wc wp : Vec} (hprim : primalOK point wc wp pts = true)
    {v : Rat} {w' : Vec} (h : lpInterp repaired lp point ubQ A pts vals = some ⟨v, some w'⟩) :
    v ≤ weightedValue (cornerVals ubQ) wc wp vals := by
  have := lpinterp_optimal_eps (eps := 0) (le_refl _) hpt hpts hptlen hlen hub hzpt hz hmass hsum
    (fun inp sol hs => (lpEpsOptimal_zero_iff inp sol).mpr (hlp inp sol hs)) hne hprim h
  linarith

/-- `lpinterp_optimal_eps` with NO hypothesis on the LP oracle: arbitrary `lp`, arbitrary certificate producer,
    certificates accepted with duality gap at most `eps` -/
theorem lpinterp_optimal_certified_eps {lp : LpIn → Option (Rat × Vec)} {cert : LpIn → Vec} {eps : Rat}
    {point : Vec} {ubQ : List Vec} {A : Nat} {pts : List Vec} {vals : Vec}
    (heps : 0 ≤ eps)
    (hpt : ∀ x ∈ point, 0 ≤ x) (hpts : ∀ p ∈ pts, ∀ x ∈ p, 0 ≤ x)
    (hptlen : ∀ p ∈ pts, p.length = point.length) (hlen : vals.length = pts.length)
    (hub : ubQ.length = point.length)
    (hzpt : ∀ s, isZeroS (point.getD s 0) = true → point.getD s 0 = 0)
    (hz : ∀ p ∈ pts, ∀ s, isZeroS (p.getD s 0) = true → p.getD s 0 = 0)
    (hmass : 0 < sumL point) (hsum : ∀ p ∈ pts, sumL p = sumL point)
    (hne : lpCompat point pts ≠ [])
    {wc wp : Vec} (hprim : primalOK point wc wp pts = true)
    {v : Rat} {w' : Vec}
    (h : lpInterp repaired (certifiedLpEps eps lp cert) point ubQ A pts vals = some ⟨v, some w'⟩) :
    v ≤ weightedValue (cornerVals ubQ) wc wp vals + eps :=
  lpinterp_optimal_eps heps hpt hpts hptlen hlen hub hzpt hz hmass hsum
    (certifiedLpEps_eps_optimal eps lp cert) hne hprim h

/-! ## 6. test on literals -/

/-- test: the LP posed for the harness input (query `[1/2,1/2,0]`, compatible points `[1/4,3/4,0]`, `[3/4,1/4,0]`,
    gains `2-(1+15/4)`, `1-(3+5/4)`), its optimum `(-3, [1/2,1/2])` and the dual multipliers `7/2`, `5/2`:
    primal feasible, dual feasible (`-11/4 + 7/8 + 15/8 = 0`, `-13/4 + 21/8 + 5/8 = 0`), zero duality gap
    (`-(7/4 + 5/4) = -3`) -/
example : lpCertOK 0 ⟨[([1/4, 3/4], 1/2), ([3/4, 1/4], 1/2)], [-11/4, -13/4]⟩ [7/2, 5/2] (-3, [1/2, 1/2]) = true := by
  decide +kernel

/-- test: a wrong multiplier vector is rejected, and so is a sub-optimal answer with the right multipliers -/
example : lpCertOK 0 ⟨[([1/4, 3/4], 1/2), ([3/4, 1/4], 1/2)], [-11/4, -13/4]⟩ [3, 3] (-3, [1/2, 1/2]) = false ∧
    lpCertOK 0 ⟨[([1/4, 3/4], 1/2), ([3/4, 1/4], 1/2)], [-11/4, -13/4]⟩ [7/2, 5/2] (-11/8, [1/2, 0]) = false := by
  decide +kernel

/-- test: the certified version of the oracle `exLp` answers the harness LP, hence `LpOptimal` holds there without
    the hand proof `exLp_optimal` -/
example : certifiedLp exLp (fun _ => [7/2, 5/2]) ⟨[([1/4, 3/4], 1/2), ([3/4, 1/4], 1/2)], [-11/4, -13/4]⟩ =
    some (-3, [1/2, 1/2]) := by decide +kernel

/-- test: a nearly tight dual (`[18/5, 13/5]`, dual bound `-31/10`) is accepted with slack `1/10` and rejected
    with slack `0` -/
example : lpCertOK (1/10) ⟨[([1/4, 3/4], 1/2), ([3/4, 1/4], 1/2)], [-11/4, -13/4]⟩ [18/5, 13/5] (-3, [1/2, 1/2]) = true ∧
    lpCertOK 0 ⟨[([1/4, 3/4], 1/2), ([3/4, 1/4], 1/2)], [-11/4, -13/4]⟩ [18/5, 13/5] (-3, [1/2, 1/2]) = false := by
  decide +kernel

/-- test (end to end): the hypotheses of `lpinterp_optimal_certified` are satisfiable — harness input, the oracle
    `exLp` (no contract assumed for it) certified by the multipliers `7/2`, `5/2`; the run returns `3/2` and `3/2` is
    below the value of every exact reconstruction -/
example : lpInterp repaired (certifiedLp exLp (fun _ => [7/2, 5/2])) [1/2, 1/2, 0] [[4,2],[3,5],[1,6]] 2
      [[1/4,3/4,0],[3/4,1/4,0],[1/4,1/4,1/2]] [2,1,0] = some ⟨3/2, some [0,0,0, 1/2,1/2,0]⟩ ∧
    ∀ wc wp, primalOK [1/2, 1/2, 0] wc wp [[1/4,3/4,0],[3/4,1/4,0],[1/4,1/4,1/2]] = true →
      (3/2 : Rat) ≤ weightedValue (cornerVals [[4,2],[3,5],[1,6]]) wc wp [2,1,0] := by
  have hrun : lpInterp repaired (certifiedLp exLp (fun _ => [7/2, 5/2])) [1/2, 1/2, 0] [[4,2],[3,5],[1,6]] 2
      [[1/4,3/4,0],[3/4,1/4,0],[1/4,1/4,1/2]] [2,1,0] = some ⟨3/2, some [0,0,0, 1/2,1/2,0]⟩ := by decide +kernel
  refine ⟨hrun, fun wc wp hp => ?_⟩
  exact lpinterp_optimal_certified (lp := exLp) (cert := fun _ => [7/2, 5/2])
    (point := [1/2, 1/2, 0]) (ubQ := [[4,2],[3,5],[1,6]]) (A := 2)
    (pts := [[1/4,3/4,0],[3/4,1/4,0],[1/4,1/4,1/2]]) (vals := [2,1,0])
    (by decide +kernel) (by decide +kernel) (by decide) (by decide) (by decide)
    (by
      intro s hs
      rcases s with _ | _ | _ | s
      · revert hs; decide +kernel
      · revert hs; decide +kernel
      · rfl
      · rfl)
    (by
      intro p hp s hs
      simp only [List.mem_cons, List.not_mem_nil, or_false] at hp
      rcases hp with rfl | rfl | rfl <;> rcases s with _ | _ | _ | s <;>
        first | rfl | (revert hs; decide +kernel))
    (by decide +kernel) (by decide +kernel) (by decide +kernel) hp hrun

end AITB.Interp
