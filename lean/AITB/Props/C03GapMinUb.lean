/-
  AITB.Props.C03GapMinUb — GapMin's reported upper bound `ub = std::get<0>(LPInterpolation(initialBelief, ubQ, ubV))` and the values it
  stores for path beliefs are interpolated values (`IsInterp`) of the surface, i.e. instances of the event `pushInterp` / of the third
  conclusion of `anytime_sound` — for the C12 model of `LPInterpolation` in the reading the source has now, with the LP an arbitrary oracle
  that is only assumed to return feasible points.
-/
import AITB.Props.C03Bridge

namespace AITB.POMDP3
open AITB.MDP AITB.Prune AITB.Interp AITB.C12Check

theorem lpInterp_isInterp (m : POMDP) (hvm : Valid m) (st : AState)
    (lp : LpIn → Option (Rat × List Rat)) (point : List Rat) (ubQ : List (List Rat)) (pts : List (List Rat)) (vals : List Rat)
    (hS : point.length = m.S) (hrows : ubQ.length = point.length ∧ ∀ row ∈ ubQ, row.length = m.A)
    (hQ : ∀ s, s < m.S → ∀ a, a < m.A → st.Q s a = (ubQ.getD s []).getD a 0)
    (hP : ∀ i, i < pts.length → st.P (fnOf (pts.getD i [])) (vals.getD i 0))
    (hpt : ∀ x ∈ point, 0 ≤ x) (hlen : vals.length = pts.length) (hpts : ∀ p ∈ pts, ∀ x ∈ p, 0 ≤ x)
    (hzpt : ∀ s, isZeroS (point.getD s 0) = true → point.getD s 0 = 0)
    (hz : ∀ p ∈ pts, ∀ s, isZeroS (p.getD s 0) = true → p.getD s 0 = 0) (hptlen : ∀ p ∈ pts, p.length = point.length)
    (hlp : ∀ inp sol, lp inp = some sol → LpFeasible inp sol)
    (v : Rat) (w' : List Rat) (h : lpInterp repaired lp point ubQ m.A pts vals = some ⟨v, some w'⟩) :
    IsInterp m st (fnOf point) v := by
  obtain ⟨w, _, hw0, hwl, hrec, hv⟩ := lpinterp_weights hpt hpts hptlen hlen hrows.1 hzpt hz hlp h
  have hp : primalOK point (w.take point.length) (w.drop point.length) pts = true := by
    refine (primalOK_iff _ _ _ _).mpr ⟨fun x hx' => hw0 x (List.mem_of_mem_take hx'), fun x hx' => hw0 x (List.mem_of_mem_drop hx'), ?_, ?_, hrec⟩
    · simp [List.length_take]; omega
    · simp [List.length_drop]; omega
  exact weighted_form_isInterp m st point ubQ pts vals _ _ v hS hvm.A0 hrows hQ hP hp hv

/-- GapMin's returned `ub` dominates every lower reference at the initial belief, after any history of events -/
theorem gapmin_ub_sound (m : POMDP) (hvm : Valid m) (U L : (Nat → Rat) → Rat) (hU : SuperSol m U) (hL : Sublin m.S L) (hsub : SubSol m L)
    (s0 st : AState) (h0 : Sound m U L s0) (hr : Reach m s0 st)
    (lp : LpIn → Option (Rat × List Rat)) (b0 : List Rat) (ubQ : List (List Rat)) (pts : List (List Rat)) (vals : List Rat)
    (hS : b0.length = m.S) (hrows : ubQ.length = b0.length ∧ ∀ row ∈ ubQ, row.length = m.A)
    (hQ : ∀ s, s < m.S → ∀ a, a < m.A → st.Q s a = (ubQ.getD s []).getD a 0)
    (hP : ∀ i, i < pts.length → st.P (fnOf (pts.getD i [])) (vals.getD i 0))
    (hpt : ∀ x ∈ b0, 0 ≤ x) (hlen : vals.length = pts.length) (hpts : ∀ p ∈ pts, ∀ x ∈ p, 0 ≤ x)
    (hzpt : ∀ s, isZeroS (b0.getD s 0) = true → b0.getD s 0 = 0)
    (hz : ∀ p ∈ pts, ∀ s, isZeroS (p.getD s 0) = true → p.getD s 0 = 0) (hptlen : ∀ p ∈ pts, p.length = b0.length)
    (hlp : ∀ inp sol, lp inp = some sol → LpFeasible inp sol)
    (ub : Rat) (w' : List Rat) (h : lpInterp repaired lp b0 ubQ m.A pts vals = some ⟨ub, some w'⟩) :
    L (fnOf b0) ≤ ub :=
  (anytime_sound m hvm U L hU hL hsub s0 st h0 hr).2.2.1 (fnOf b0) (fun s => C12Check.getD_nonneg b0 hpt s) ub
    (lpInterp_isInterp m hvm st lp b0 ubQ pts vals hS hrows hQ hP hpt hlen hpts hzpt hz hptlen hlp ub w' h)

end AITB.POMDP3
