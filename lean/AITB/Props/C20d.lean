/-
  AITB.Props.C20d — FasterTrie::reconstruct for every shuffle outcome.  Core Lean only.
-/
import AITB.Props.C20c
namespace AITB.Trie

/-! ### FasterTrie::reconstruct — for every shuffle outcome -/

/-- assignment `f` gives every key of `e` the value `e` gives it -/
def Agrees (f : List Nat) (e : PF) : Prop := ∀ kv ∈ e, f.getD kv.1 0 = kv.2

theorem lookup_of_mem {lo : Nat} {e : PF} (h : KeysAsc lo e) {k v : Nat} (hm : (k, v) ∈ e) : lookup e k = some v := by
  induction e generalizing lo with
  | nil => cases hm
  | cons kv r ih =>
    obtain ⟨k0, v0⟩ := kv
    simp only [KeysAsc] at h
    simp only [lookup]
    rcases List.mem_cons.mp hm with heq | hm'
    · cases heq; simp
    · have hk : k0 ≠ k := by
        intro e; subst e
        have := lookup_none_of_lt h.2 (Nat.lt_succ_self k0)
        rw [ih h.2 hm'] at this; cases this
      rw [if_neg hk]; exact ih h.2 hm'

theorem assign_length (f : List Nat) (e : PF) : (assign f e).length = f.length := by
  induction e generalizing f with
  | nil => rfl
  | cons kv r ih => simp only [assign, List.foldl_cons] at *; rw [ih]; simp

theorem assign_get (f : List Nat) (e : PF) (lo : Nat) (h : KeysAsc lo e) (hk : ∀ kv ∈ e, kv.1 < f.length) (k : Nat) :
    (assign f e).getD k 0 = (lookup e k).getD (f.getD k 0) := by
  induction e generalizing f lo with
  | nil => rfl
  | cons kv r ih =>
    obtain ⟨k0, v0⟩ := kv
    simp only [KeysAsc] at h
    have hk0 : k0 < f.length := hk (k0, v0) (List.mem_cons_self ..)
    have : assign f ((k0, v0) :: r) = assign (f.set k0 v0) r := rfl
    rw [this, ih (f.set k0 v0) (k0 + 1) h.2 (fun kv hkv => by simpa using hk kv (List.mem_cons_of_mem _ hkv))]
    simp only [lookup]
    by_cases hkk : k0 = k
    · subst hkk
      rw [if_pos rfl, lookup_none_of_lt h.2 (Nat.lt_succ_self k0)]
      simp [List.getD_eq_getElem?_getD, hk0]
    · rw [if_neg hkk]
      congr 1
      simp [List.getD_eq_getElem?_getD, hkk]

theorem entryMatches_iff (F f : List Nat) (e : PF) :
    entryMatches F f e = true ↔ ∀ kv ∈ e, f.getD kv.1 0 < F.getD kv.1 0 → kv.2 = f.getD kv.1 0 := by
  simp only [entryMatches, List.all_eq_true]
  constructor
  · intro h kv hkv hlt
    have := h kv hkv
    simp only [Bool.not_eq_true', Bool.and_eq_false_iff, decide_eq_false_iff_not, bne_eq_false_iff_eq] at this
    rcases this with h1 | h1
    · exact absurd hlt h1
    · exact h1
  · intro h kv hkv
    simp only [Bool.not_eq_true', Bool.and_eq_false_iff, decide_eq_false_iff_not, bne_eq_false_iff_eq]
    by_cases hlt : f.getD kv.1 0 < F.getD kv.1 0
    · exact Or.inr (h kv hkv hlt)
    · exact Or.inl hlt

/-- merging a matching entry into `f`: the entry agrees with the result, and positions already set keep their value -/
theorem assign_step (F f : List Nat) (e : PF) (hv : ValidPF F e) (hlen : f.length = F.length)
    (hm : entryMatches F f e = true) :
    Agrees (assign f e) e ∧ ∀ k, f.getD k 0 < F.getD k 0 → (assign f e).getD k 0 = f.getD k 0 := by
  have hk : ∀ kv ∈ e, kv.1 < f.length := fun kv hkv => by rw [hlen]; exact (hv.2 kv hkv).1
  refine ⟨fun kv hkv => ?_, fun k hlt => ?_⟩
  · rw [assign_get f e 0 hv.1 hk, lookup_of_mem hv.1 (show (kv.1, kv.2) ∈ e from hkv)]; rfl
  · rw [assign_get f e 0 hv.1 hk]
    cases hl : lookup e k with
    | none => rfl
    | some v =>
      have := (entryMatches_iff F f e).mp hm (k, v) (lookup_mem hl) hlt
      simpa using this

/-- invariant of the reconstruction state: every witness key in `W` (the query) and every collected
    entry agrees with the assignment built so far; collected entries satisfy `P` -/
def RInv (F : List Nat) (P : Entry → Prop) (W : List PF) (s : RState) : Prop :=
  s.f.length = F.length ∧
  (∀ e, (e ∈ W ∨ ∃ id, (id, e) ∈ s.entries) → (∀ kv ∈ e, kv.2 < F.getD kv.1 0) ∧ Agrees s.f e) ∧
  ∀ e ∈ s.entries, P e

theorem RInv_step {F : List Nat} {P : Entry → Prop} {W : List PF} {s : RState} (h : RInv F P W s) (e : Entry)
    (hP : P e) (hv : ValidPF F e.2) (hm : entryMatches F s.f e.2 = true) (d : Bool) :
    RInv F P W { f := assign s.f e.2, entries := s.entries ++ [e], done := d } := by
  obtain ⟨hlen, hag, hPs⟩ := h
  obtain ⟨a1, a2⟩ := assign_step F s.f e.2 hv hlen hm
  refine ⟨by simp only [assign_length, hlen], ?_, ?_⟩
  · intro e' he'
    simp only [List.mem_append, List.mem_singleton] at he'
    have old : ∀ e0, (e0 ∈ W ∨ ∃ id, (id, e0) ∈ s.entries) → (∀ kv ∈ e0, kv.2 < F.getD kv.1 0) ∧ Agrees (assign s.f e.2) e0 := by
      intro e0 h0
      obtain ⟨b1, b2⟩ := hag e0 h0
      refine ⟨b1, fun kv hkv => ?_⟩
      have := b2 kv hkv
      rw [a2 kv.1 (by rw [this]; exact b1 kv hkv), this]
    rcases he' with hw | ⟨id, hin | heq⟩
    · exact old e' (Or.inl hw)
    · exact old e' (Or.inr ⟨id, hin⟩)
    · have : e' = e.2 := by rw [← heq]
      subst this
      exact ⟨fun kv hkv => (hv.2 kv hkv).2, a1⟩
  · intro e' he'
    simp only [List.mem_append, List.mem_singleton] at he'
    rcases he' with h' | rfl
    · exact hPs e' h'
    · exact hP

theorem RInv_done {F : List Nat} {P : Entry → Prop} {W : List PF} {s : RState} (h : RInv F P W s) (d : Bool) :
    RInv F P W { s with done := d } := h

theorem scanKeep_inv (F : List Nat) (P : Entry → Prop) (W : List PF) (b : Bucket) (s : RState)
    (hb : ∀ e ∈ b, P e ∧ ValidPF F e.2) (h : RInv F P W s) : RInv F P W (scanKeep F b s) := by
  induction b generalizing s with
  | nil => exact h
  | cons e r ih =>
    simp only [scanKeep]
    have hr : ∀ e' ∈ r, P e' ∧ ValidPF F e'.2 := fun e' he' => hb e' (List.mem_cons_of_mem _ he')
    split
    · rename_i hm
      exact ih _ hr (RInv_step h e (hb e (List.mem_cons_self ..)).1 (hb e (List.mem_cons_self ..)).2 hm true)
    · exact ih _ hr h

theorem scanRemove_inv (F : List Nat) (P : Entry → Prop) (W : List PF) (fuel : Nat) (pre rest : List Entry) (s : RState)
    (hp : ∀ e ∈ pre, P e ∧ ValidPF F e.2) (hb : ∀ e ∈ rest, P e ∧ ValidPF F e.2) (h : RInv F P W s) :
    RInv F P W (scanRemove F fuel pre rest s).2 ∧ ∀ e ∈ (scanRemove F fuel pre rest s).1, P e ∧ ValidPF F e.2 := by
  induction fuel generalizing pre rest s with
  | zero =>
    simp only [scanRemove]
    exact ⟨h, fun e he => by
      rcases List.mem_append.mp he with h' | h'
      · exact hp e (List.mem_reverse.mp h')
      · exact hb e h'⟩
  | succ fuel ih =>
    cases rest with
    | nil =>
      simp only [scanRemove]
      exact ⟨h, fun e he => hp e (List.mem_reverse.mp he)⟩
    | cons e r =>
      simp only [scanRemove]
      have he := hb e (List.mem_cons_self ..)
      have hr : ∀ e' ∈ r, P e' ∧ ValidPF F e'.2 := fun e' he' => hb e' (List.mem_cons_of_mem _ he')
      split
      · rename_i hm
        have hs' := RInv_step h e he.1 he.2 hm true
        cases hl : r.getLast? with
        | none => exact ⟨hs', fun e' he' => hp e' (List.mem_reverse.mp he')⟩
        | some l =>
          simp only
          apply ih pre (l :: r.dropLast) _ hp _ hs'
          intro e' he'
          rcases List.mem_cons.mp he' with rfl | h'
          · exact hr _ (List.mem_of_getLast? hl)
          · exact hr _ (List.dropLast_subset r h')
      · apply ih (e :: pre) r s _ hr h
        intro e' he'
        rcases List.mem_cons.mp he' with rfl | h'
        · exact he
        · exact hp e' h'


theorem removeNth_subset {α} (l : List α) (n : Nat) : ∀ x ∈ removeNth l n, x ∈ l := by
  induction l generalizing n with
  | nil => intro x hx; cases hx
  | cons y ys ih =>
    cases n with
    | zero => intro x hx; exact List.mem_cons_of_mem _ hx
    | succ n =>
      intro x hx
      simp only [removeNth] at hx
      rcases List.mem_cons.mp hx with rfl | h'
      · exact List.mem_cons_self ..
      · exact List.mem_cons_of_mem _ (ih n x h')

/-- a shuffle only rearranges: every element of the outcome comes from the input -/
theorem permute_subset {α} [Inhabited α] (fuel : Nat) (o : List Nat) (l : List α) : ∀ x ∈ (permute fuel o l).1, x ∈ l := by
  induction fuel generalizing o l with
  | zero => intro x hx; cases hx
  | succ fuel ih =>
    cases l with
    | nil => intro x hx; cases hx
    | cons y ys =>
      intro x hx
      simp only [permute] at hx
      rcases List.mem_cons.mp hx with rfl | h'
      · have hc : o.headD 0 % (y :: ys).length < (y :: ys).length := Nat.mod_lt _ (by simp)
        rw [List.getD_eq_getElem?_getD, List.getElem?_eq_getElem hc]
        exact List.getElem_mem hc
      · exact removeNth_subset _ _ x (ih _ _ x h')

theorem bucket_modBucket (keys : List (List Bucket)) (i v : Nat) (g : Bucket → Bucket) (i' v' : Nat) :
    bucket (modBucket keys i v g) i' v' = bucket keys i' v' ∨ bucket (modBucket keys i v g) i' v' = g (bucket keys i' v') := by
  simp only [bucket, modBucket, getD_modify]
  by_cases h : i = i' ∧ i' < keys.length
  · rw [if_pos h, getD_modify]
    by_cases h2 : v = v' ∧ v' < (keys.getD i' []).length
    · rw [if_pos h2]; exact Or.inr rfl
    · rw [if_neg h2]; exact Or.inl rfl
  · rw [if_neg h]; exact Or.inl rfl

/-- every entry of every bucket satisfies `Q` -/
def AllB (Q : Entry → Prop) (keys : List (List Bucket)) : Prop := ∀ i v, ∀ e ∈ bucket keys i v, Q e

theorem AllB_mod {Q : Entry → Prop} {keys : List (List Bucket)} (h : AllB Q keys) (i v : Nat) (b : Bucket)
    (hb : ∀ e ∈ b, Q e) : AllB Q (modBucket keys i v (fun _ => b)) := by
  intro i' v' e he
  rcases bucket_modBucket keys i v (fun _ => b) i' v' with h' | h'
  · rw [h'] at he; exact h i' v' e he
  · rw [h'] at he; exact hb e he

theorem reconValues_inv (F : List Nat) (P : Entry → Prop) (W : List PF) (remove : Bool) (o : Nat) (vs : List Nat)
    (keys : List (List Bucket)) (s : RState) (orc : List Nat)
    (hk : AllB (fun e => P e ∧ ValidPF F e.2) keys) (h : RInv F P W s) :
    AllB (fun e => P e ∧ ValidPF F e.2) (reconValues F remove o vs keys s orc).1 ∧
    RInv F P W (reconValues F remove o vs keys s orc).2.1 := by
  induction vs generalizing keys s orc with
  | nil => exact ⟨hk, h⟩
  | cons v vs ih =>
    simp only [reconValues]
    have hsh : ∀ e ∈ (shuffle orc (bucket keys o v)).1, P e ∧ ValidPF F e.2 :=
      fun e he => hk o v e (permute_subset _ _ _ e he)
    have key : ∀ (r : Bucket × RState), (∀ e ∈ r.1, P e ∧ ValidPF F e.2) → RInv F P W r.2 →
        AllB (fun e => P e ∧ ValidPF F e.2)
          (if r.2.done = true then (modBucket keys o v (fun _ => r.1), r.2, (shuffle orc (bucket keys o v)).2)
            else reconValues F remove o vs (modBucket keys o v (fun _ => r.1)) r.2 (shuffle orc (bucket keys o v)).2).1 ∧
        RInv F P W
          (if r.2.done = true then (modBucket keys o v (fun _ => r.1), r.2, (shuffle orc (bucket keys o v)).2)
            else reconValues F remove o vs (modBucket keys o v (fun _ => r.1)) r.2 (shuffle orc (bucket keys o v)).2).2.1 := by
      intro r hr1 hr2
      have hk' := AllB_mod hk o v r.1 hr1
      split
      · exact ⟨hk', hr2⟩
      · exact ih _ _ _ hk' hr2
    cases remove with
    | true =>
      have := scanRemove_inv F P W ((shuffle orc (bucket keys o v)).1.length + 1) [] (shuffle orc (bucket keys o v)).1 s
        (fun e he => by cases he) hsh h
      exact key (scanRemove F _ [] _ s) this.2 this.1
    | false =>
      exact key ((shuffle orc (bucket keys o v)).1, scanKeep F _ s) hsh (scanKeep_inv F P W _ s hsh h)

theorem reconFactors_inv (F : List Nat) (P : Entry → Prop) (W : List PF) (remove : Bool) (os : List Nat)
    (keys : List (List Bucket)) (s : RState) (orc : List Nat)
    (hk : AllB (fun e => P e ∧ ValidPF F e.2) keys) (h : RInv F P W s) :
    AllB (fun e => P e ∧ ValidPF F e.2) (reconFactors F remove os keys s orc).1 ∧
    RInv F P W (reconFactors F remove os keys s orc).2.1 := by
  induction os generalizing keys s orc with
  | nil => exact ⟨hk, h⟩
  | cons o os ih =>
    simp only [reconFactors]
    split
    · have := reconValues_inv F P W remove o [s.f.getD o 0] keys { s with done := true } orc hk (RInv_done h true)
      exact ih _ _ _ this.1 (RInv_done this.2 false)
    · have := reconValues_inv F P W remove o (shuffle orc (List.range (F.getD o 0))).1 keys { s with done := false }
        (shuffle orc (List.range (F.getD o 0))).2 hk (RInv_done h false)
      exact ih _ _ _ this.1 (RInv_done this.2 false)

theorem compat_of_agrees {f : List Nat} {e e' : PF} (h : Agrees f e) (h' : Agrees f e') : compatB e e' = true := by
  rw [compatB_iff]
  intro kv hkv
  unfold okAt
  cases hl : lookup e kv.1 with
  | none => exact Or.inl rfl
  | some v =>
    right
    have := h (kv.1, v) (lookup_mem hl)
    simp only at this
    rw [← this, h' kv hkv]

/-- **reconstruct_compatible**: for *every* outcome of the three shuffles (oracle `orc`), with or
    without removal, the entries returned by `FasterTrie::reconstruct` are stored entries, are each
    compatible with the query, are pairwise compatible, and all agree with the returned assignment,
    which also extends the query. -/
theorem reconstruct_compatible (t : FT) (q : PF) (remove : Bool) (orc : List Nat)
    (hkeys : ∀ i v, ∀ e ∈ bucket t.keys i v, ValidPF t.F e.2) (hq : ValidPF t.F q) :
    (∀ e ∈ (t.reconstruct q remove orc).2.1, ∃ i v, e ∈ bucket t.keys i v) ∧
    (∀ e ∈ (t.reconstruct q remove orc).2.1, compatB e.2 q = true) ∧
    (∀ e ∈ (t.reconstruct q remove orc).2.1, ∀ e' ∈ (t.reconstruct q remove orc).2.1, compatB e.2 e'.2 = true) ∧
    (∀ e ∈ (t.reconstruct q remove orc).2.1, Agrees (t.reconstruct q remove orc).2.2 e.2) ∧
    Agrees (t.reconstruct q remove orc).2.2 q := by
  let P : Entry → Prop := fun e => ValidPF t.F e.2 ∧ ∃ i v, e ∈ bucket t.keys i v
  have hk : AllB (fun e => P e ∧ ValidPF t.F e.2) t.keys := fun i v e he => ⟨⟨hkeys i v e he, i, v, he⟩, hkeys i v e he⟩
  have h0 : RInv t.F P [q] { f := assign t.F q, entries := [], done := false } := by
    refine ⟨assign_length _ _, ?_, fun e he => by cases he⟩
    intro e he
    rcases he with he | ⟨id, he⟩
    · simp only [List.mem_singleton] at he
      subst he
      refine ⟨fun kv hkv => (hq.2 kv hkv).2, fun kv hkv => ?_⟩
      rw [assign_get t.F e 0 hq.1 (fun kv hkv => (hq.2 kv hkv).1), lookup_of_mem hq.1 (show (kv.1, kv.2) ∈ e from hkv)]; rfl
    · cases he
  have hfin := (reconFactors_inv t.F P [q] remove (shuffle orc (List.range t.F.length)).1 t.keys _
      (shuffle orc (List.range t.F.length)).2 hk h0).2
  obtain ⟨_, hag, hP⟩ := hfin
  have hres : (t.reconstruct q remove orc).2.1 = (reconFactors t.F remove (shuffle orc (List.range t.F.length)).1 t.keys
      { f := assign t.F q, entries := [], done := false } (shuffle orc (List.range t.F.length)).2).2.1.entries := rfl
  have hf : (t.reconstruct q remove orc).2.2 = (reconFactors t.F remove (shuffle orc (List.range t.F.length)).1 t.keys
      { f := assign t.F q, entries := [], done := false } (shuffle orc (List.range t.F.length)).2).2.1.f := rfl
  rw [hres, hf]
  have hqa := (hag q (Or.inl (List.mem_singleton.mpr rfl))).2
  refine ⟨fun e he => (hP e he).2, fun e he => ?_, fun e he e' he' => ?_, fun e he => ?_, hqa⟩
  · exact compat_of_agrees (hag e.2 (Or.inr ⟨e.1, he⟩)).2 hqa
  · exact compat_of_agrees (hag e.2 (Or.inr ⟨e.1, he⟩)).2 (hag e'.2 (Or.inr ⟨e'.1, he'⟩)).2
  · exact (hag e.2 (Or.inr ⟨e.1, he⟩)).2


def exFT : FT := (((FT.new [2, 2]).insert [(0, 0)]).bind (fun r => r.1.insert [(1, 1)])).bind (fun r => r.1.insert [(0, 1)]) |>.map (·.1) |>.getD (FT.new [2, 2])

/-- the theorem is not vacuous: a concrete store on which reconstruction (empty query, no removal,
    oracle `[1, 0, 1]`) returns two entries (test on literals) -/
example : ((exFT.reconstruct [] false [1, 0, 1]).2.1.map (·.1)).length = 2 := by decide

end AITB.Trie
