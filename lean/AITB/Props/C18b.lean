/-
  AITB.Props.C18b — the grammar of one statement line as a declarative relation (`MatrixLine`,
  `RewardLine`), and the two directions that tie `processMatrix` / `processReward` to it:
  a well-formed line is accepted and its writes are exactly what the statement assigns (refinement),
  an accepted line is well-formed (rejection of everything else).
-/
import AITB.Props.C18a
namespace AITB.Cassandra
variable {fl : Flags}

/-! ### index tokens -/

def Sel.toList : Sel → Nat → List Nat
  | .all, max => List.range max
  | .idx i, _ => [i]

theorem mem_toList (sel : Sel) (max i : Nat) : i ∈ sel.toList max ↔ sel.covers max i = true := by
  cases sel with
  | all => simp [Sel.toList, Sel.covers]
  | idx j => simp [Sel.toList, Sel.covers]

/-- what an index token means: `*`, a declared name, or — only if it is not a declared name — a number
    below the size of the dimension -/
def Resolves (fl : Flags) (map : IDMap) (max : Nat) (tok : Str) (sel : Sel) : Prop :=
  (tok = ['*'] ∧ sel = .all) ∨
  (tok ≠ ['*'] ∧ ((∃ i, map.find tok = some i ∧ sel = .idx i) ∨
                  (map.find tok = none ∧ ∃ i, stoulS fl tok = .ok i ∧ i < max ∧ sel = .idx i)))

theorem parseIndeces_iff (tok : Str) (map : IDMap) (max : Nat) (l : List Nat) :
    parseIndeces fl tok map max = .ok l ↔ ∃ sel, Resolves fl map max tok sel ∧ l = sel.toList max := by
  constructor
  · intro h
    unfold parseIndeces at h
    split at h
    · rename_i hb
      have hs : tok = ['*'] := by simpa using hb
      exact ⟨.all, Or.inl ⟨hs, rfl⟩, (pure_ok.1 h).symm⟩
    · rename_i hb
      have hs : tok ≠ ['*'] := by simpa using hb
      split at h
      · rename_i i hf
        exact ⟨.idx i, Or.inr ⟨hs, Or.inl ⟨i, hf, rfl⟩⟩, (pure_ok.1 h).symm⟩
      · rename_i hf
        obtain ⟨v, hv, h⟩ := bind_ok.1 h
        split at h
        · cases h
        · rename_i hlt
          exact ⟨.idx v, Or.inr ⟨hs, Or.inr ⟨hf, v, hv, by omega, rfl⟩⟩, (pure_ok.1 h).symm⟩
  · rintro ⟨sel, hres, rfl⟩
    rcases hres with ⟨rfl, rfl⟩ | ⟨hs, ⟨i, hf, rfl⟩ | ⟨hf, i, hv, hlt, rfl⟩⟩
    · simp [parseIndeces, Sel.toList, pure, Except.pure]
    · have hb : (tok == ['*']) = false := by simpa using hs
      simp [parseIndeces, hb, hf, Sel.toList, pure, Except.pure]
    · have hb : (tok == ['*']) = false := by simpa using hs
      have hge : ¬ (i ≥ max) := by omega
      simp [parseIndeces, hb, hf, hv, hge, bind, Except.bind, Sel.toList, pure, Except.pure]

theorem covers_all (m i : Nat) : Sel.covers .all m i = decide (i < m) := rfl

/-! ### vectors -/

theorem mapM_ok_length {α β} (f : α → R β) (l : List α) (r : List β) (h : l.mapM f = .ok r) : r.length = l.length := by
  induction l generalizing r with
  | nil => simp [pure, Except.pure] at h; subst h; rfl
  | cons x t ih =>
    rw [List.mapM_cons] at h
    obtain ⟨y, _, h2⟩ := bind_ok.1 h
    obtain ⟨ys, h3, h4⟩ := bind_ok.1 h2
    have := pure_ok.1 h4; subst this
    simp [ih ys h3]

theorem parseVectorToks_iff (toks : List Str) (N : Nat) (vs : List XRat) :
    parseVectorToks fl toks N = .ok vs ↔ toks.length = N ∧ toks.mapM (stodS fl) = .ok vs := by
  unfold parseVectorToks
  by_cases h : toks.length = N
  · simp [h]
  · simp [h]

theorem parseVectorToks_length {toks : List Str} {N : Nat} {vs : List XRat}
    (h : parseVectorToks fl toks N = .ok vs) : vs.length = N := by
  obtain ⟨h1, h2⟩ := (parseVectorToks_iff ..).1 h
  rw [mapM_ok_length _ _ _ h2, h1]

theorem parseVector_length {s : Str} {N : Nat} {vs : List XRat} (h : parseVector fl s N = .ok vs) : vs.length = N :=
  parseVectorToks_length h

/-- wrong element count is rejected -/
theorem parseVectorToks_rejects_wrong_count (toks : List Str) (N : Nat) (h : toks.length ≠ N) :
    parseVectorToks fl toks N = .error .runtime := by
  simp [parseVectorToks, h]

/-! ### matrix rows -/

/-- the rows of a matrix statement, line by line -/
def RowsDenote (fl : Flags) (D3 : Nat) : List Str → List (List XRat) → Prop
  | [], [] => True
  | l :: ls, r :: rs => parseVector fl l D3 = .ok r ∧ RowsDenote fl D3 ls rs
  | _, _ => False

def matWrites (av : List Nat) : Nat → List (List XRat) → List Write
  | _, [] => []
  | d1, r :: rs => (av.flatMap fun a => writesVec d1 a r) ++ matWrites av (d1 + 1) rs

theorem matrixRows_iff (av : List Nat) (D3 n d1 : Nat) (rest : List Str) (ws : List Write) :
    matrixRows fl av D3 n d1 rest = .ok ws ↔
      ∃ rows, rows.length = n ∧ n ≤ rest.length ∧ RowsDenote fl D3 (rest.take n) rows ∧ ws = matWrites av d1 rows := by
  induction n generalizing d1 rest ws with
  | zero =>
    simp only [matrixRows, pure_ok]
    constructor
    · intro h; exact ⟨[], rfl, Nat.zero_le _, by simp [RowsDenote], h.symm⟩
    · rintro ⟨rows, hl, _, _, rfl⟩
      cases rows with
      | nil => rfl
      | cons _ _ => simp at hl
  | succ n ih =>
    cases rest with
    | nil =>
      simp only [matrixRows]
      constructor
      · intro h; cases h
      · rintro ⟨_, _, h, _⟩; simp at h
    | cons l rest' =>
      simp only [matrixRows]
      constructor
      · intro h
        obtain ⟨v, hv, h2⟩ := bind_ok.1 h
        obtain ⟨ws', hws, h3⟩ := bind_ok.1 h2
        obtain ⟨rows, hl, hle, hd, rfl⟩ := (ih (d1 + 1) rest' ws').1 hws
        refine ⟨v :: rows, by simp [hl], by simp; omega, ?_, ?_⟩
        · simp [RowsDenote, hv, hd]
        · have := pure_ok.1 h3; rw [← this]; rfl
      · rintro ⟨rows, hl, hle, hd, rfl⟩
        cases rows with
        | nil => simp at hl
        | cons v rows =>
          simp only [List.take_succ_cons, RowsDenote] at hd
          apply bind_ok.2
          refine ⟨v, hd.1, bind_ok.2 ⟨matWrites av (d1 + 1) rows, ?_, rfl⟩⟩
          exact (ih (d1 + 1) rest' _).2 ⟨rows, by simpa using hl, by simpa using hle, hd.2, rfl⟩

theorem lastHit_matWrites (av : List Nat) (d0 : Nat) (rows : List (List XRat)) (d1 a d3 : Nat) :
    lastHit (matWrites av d0 rows) d1 a d3 =
      if a ∈ av ∧ d0 ≤ d1 then (rows[d1 - d0]?).bind (fun r => r[d3]?) else none := by
  induction rows generalizing d0 with
  | nil => simp [matWrites, lastHit_nil]
  | cons r rs ih =>
    simp only [matWrites]
    rw [lastHit_append, ih (d0 + 1)]
    have hrow : lastHit (av.flatMap fun a => writesVec d0 a r) d1 a d3 = if d1 ∈ [d0] ∧ a ∈ av then r[d3]? else none := by
      have := lastHit_writesRow [d0] av r d1 a d3
      simpa [writesRow] using this
    rw [hrow]
    by_cases ha : a ∈ av
    · rcases Nat.lt_trichotomy d1 d0 with hlt | heq | hgt
      · have h1 : ¬ (d0 + 1 ≤ d1) := by omega
        have h2 : ¬ (d0 ≤ d1) := by omega
        have h3 : d1 ≠ d0 := by omega
        simp [ha, h1, h2, h3]
      · subst heq
        have h1 : ¬ (d1 + 1 ≤ d1) := by omega
        simp [ha, h1]
      · have h1 : d0 + 1 ≤ d1 := by omega
        have h2 : d0 ≤ d1 := by omega
        have h3 : d1 ≠ d0 := by omega
        have h4 : d1 - d0 = (d1 - (d0 + 1)) + 1 := by omega
        simp [ha, h1, h2, h3, h4]
    · simp [ha]

/-! ### one transition / observation statement line -/

/-- The supported grammar of a `T` / `O` statement, read off the tokens of the line:
    which statement the line (with the following lines `rest`) denotes and how many following lines belong to it. -/
inductive MatrixLine (fl : Flags) (D1 D2 D3 : Nat) (amap d1map d3map : IDMap) (line : Str) (rest : List Str) : Stmt → Nat → Prop
  /-- `X: a : d1 : d3 v` -/
  | entry {ta t1 t3 tv : Str} {a d1 d3 : Sel} {v : XRat} :
      countColon line = 3 →
      (tokenize colonSpace line)[1]? = some ta → (tokenize colonSpace line)[2]? = some t1 →
      (tokenize colonSpace line)[3]? = some t3 → (tokenize colonSpace line)[4]? = some tv →
      Resolves fl amap D2 ta a → Resolves fl d1map D1 t1 d1 → Resolves fl d3map D3 t3 d3 → stodS fl tv = .ok v →
      (fl.exactCounts = true → (tokenize colonSpace line).length = 5) →
      MatrixLine fl D1 D2 D3 amap d1map d3map line rest ⟨a, d1, .entry d3 v⟩ 0
  /-- `X: a : d1 v_0 … v_{D3-1}` -/
  | rowInline {ta t1 : Str} {a d1 : Sel} {vs : List XRat} :
      countColon line = 2 →
      (tokenize colonSpace line)[1]? = some ta → (tokenize colonSpace line)[2]? = some t1 →
      Resolves fl amap D2 ta a → Resolves fl d1map D1 t1 d1 →
      (tokenize colonSpace line).length = 3 + D3 → ((tokenize colonSpace line).drop 3).mapM (stodS fl) = .ok vs →
      MatrixLine fl D1 D2 D3 amap d1map d3map line rest ⟨a, d1, .row vs⟩ 0
  /-- `X: a : d1` with the D3 values on the next line -/
  | rowNext {ta t1 l : Str} {a d1 : Sel} {vs : List XRat} :
      countColon line = 2 →
      (tokenize colonSpace line)[1]? = some ta → (tokenize colonSpace line)[2]? = some t1 →
      Resolves fl amap D2 ta a → Resolves fl d1map D1 t1 d1 →
      (tokenize colonSpace line).length = 3 → D3 ≠ 0 →
      rest[0]? = some l → parseVector fl l D3 = .ok vs →
      MatrixLine fl D1 D2 D3 amap d1map d3map line rest ⟨a, d1, .row vs⟩ 1
  /-- `X: a` followed by D1 lines of D3 values -/
  | matrix {ta : Str} {a : Sel} {rows : List (List XRat)} :
      countColon line = 1 →
      (tokenize colonSpace line)[1]? = some ta → Resolves fl amap D2 ta a →
      rows.length = D1 → D1 ≤ rest.length → RowsDenote fl D3 (rest.take D1) rows →
      MatrixLine fl D1 D2 D3 amap d1map d3map line rest ⟨a, .all, .matrix rows⟩ D1

theorem RowsDenote_lengths {D3 : Nat} {ls : List Str} {rows : List (List XRat)} (h : RowsDenote fl D3 ls rows) :
    ∀ r ∈ rows, r.length = D3 := by
  induction ls generalizing rows with
  | nil => cases rows with
    | nil => simp
    | cons _ _ => simp [RowsDenote] at h
  | cons l ls ih => cases rows with
    | nil => simp [RowsDenote] at h
    | cons r rs =>
      simp only [RowsDenote] at h
      intro x hx
      rcases List.mem_cons.1 hx with rfl | hx
      · exact parseVector_length h.1
      · exact ih h.2 x hx

/-- **refinement, one T/O line**: a well-formed line is accepted whatever the flags, consumes exactly the
    lines of the statement, and its writes are, cell by cell, what the statement assigns -/
theorem processMatrix_refines (fl : Flags) {D1 D2 D3 : Nat} {amap d1map d3map : IDMap} {line : Str} {rest : List Str}
    {s : Stmt} {n : Nat} (h : MatrixLine fl D1 D2 D3 amap d1map d3map line rest s n) :
    ∃ ws, processMatrix fl D1 D2 D3 amap d1map d3map line rest = .ok (ws, n) ∧
      ∀ d1 a d3, lastHit ws d1 a d3 = s.assigns D1 D2 D3 d1 a d3 := by
  cases h with
  | @entry ta t1 t3 tv a d1 d3 v hc h1 h2 h3 h4 ra r1 r3 hv hex =>
    refine ⟨writesEntry (d1.toList D1) (a.toList D2) (d3.toList D3) v, ?_, ?_⟩
    · have pa := (parseIndeces_iff ta amap D2 _).2 ⟨a, ra, rfl⟩
      have p1 := (parseIndeces_iff t1 d1map D1 _).2 ⟨d1, r1, rfl⟩
      have p3 := (parseIndeces_iff t3 d3map D3 _).2 ⟨d3, r3, rfl⟩
      have hcnt : (fl.exactCounts && (tokenize colonSpace line).length != 5) = false := by
        cases he : fl.exactCounts with
        | false => rfl
        | true => simp [hex he]
      simp only [processMatrix, hcnt, Bool.false_eq_true, if_false, hc, at?_ok.2 h1, at?_ok.2 h2, at?_ok.2 h3, at?_ok.2 h4, pa, p1, p3, hv, bind, Except.bind, pure, Except.pure]
    · intro x y z
      rw [lastHit_writesEntry]
      simp only [mem_toList, Stmt.assigns]
      cases a.covers D2 y <;> cases d1.covers D1 x <;> cases d3.covers D3 z <;> simp
  | @rowInline ta t1 a d1 vs hc h1 h2 ra r1 hl hvs =>
    refine ⟨writesRow (d1.toList D1) (a.toList D2) vs, ?_, ?_⟩
    · have pa := (parseIndeces_iff ta amap D2 _).2 ⟨a, ra, rfl⟩
      have p1 := (parseIndeces_iff t1 d1map D1 _).2 ⟨d1, r1, rfl⟩
      have hpv : parseVectorToks fl ((tokenize colonSpace line).drop 3) D3 = .ok vs :=
        (parseVectorToks_iff ..).2 ⟨by simp [hl], hvs⟩
      simp [processMatrix, hc, at?_ok.2 h1, at?_ok.2 h2, pa, p1, bind, Except.bind, hl, hpv, pure, Except.pure]
    · intro x y z
      rw [lastHit_writesRow]
      simp only [mem_toList, Stmt.assigns]
      cases a.covers D2 y <;> cases d1.covers D1 x <;> simp
  | @rowNext ta t1 l a d1 vs hc h1 h2 ra r1 hl hD hr hv =>
    refine ⟨writesRow (d1.toList D1) (a.toList D2) vs, ?_, ?_⟩
    · have pa := (parseIndeces_iff ta amap D2 _).2 ⟨a, ra, rfl⟩
      have p1 := (parseIndeces_iff t1 d1map D1 _).2 ⟨d1, r1, rfl⟩
      simp [processMatrix, hc, at?_ok.2 h1, at?_ok.2 h2, pa, p1, bind, Except.bind, hl, hD, at?_ok.2 hr, hv, pure, Except.pure]
    · intro x y z
      rw [lastHit_writesRow]
      simp only [mem_toList, Stmt.assigns]
      cases a.covers D2 y <;> cases d1.covers D1 x <;> simp
  | @matrix ta a rows hc h1 ra hl hle hd =>
    refine ⟨matWrites (a.toList D2) 0 rows, ?_, ?_⟩
    · have pa := (parseIndeces_iff ta amap D2 _).2 ⟨a, ra, rfl⟩
      have hm : matrixRows fl (a.toList D2) D3 D1 0 rest = .ok (matWrites (a.toList D2) 0 rows) :=
        (matrixRows_iff ..).2 ⟨rows, hl, hle, hd, rfl⟩
      simp [processMatrix, hc, at?_ok.2 h1, pa, bind, Except.bind, hm, pure, Except.pure]
    · intro x y z
      rw [lastHit_matWrites]
      simp only [mem_toList, Stmt.assigns, covers_all, Nat.zero_le, and_true, Nat.sub_zero]
      by_cases hy : a.covers D2 y = true
      · by_cases hx : x < D1
        · simp only [hy, hx, decide_true, Bool.and_self, if_true]
          cases hr : rows[x]? with
          | none => rfl
          | some r => rfl
        · have : rows[x]? = none := List.getElem?_eq_none (by omega)
          simp [hy, hx, this]
      · have hy' : a.covers D2 y = false := by simpa using hy
        simp [hy']

/-- every accepted T/O line is either a well-formed statement or — only when the malformed-length branch of
    the two-colon form does not throw — a two-colon line with a wrong inline count that writes nothing -/
theorem processMatrix_ok_cases {fl : Flags}
    {D1 D2 D3 : Nat} {amap d1map d3map : IDMap} {line : Str} {rest : List Str} {ws : List Write} {n : Nat}
    (h : processMatrix fl D1 D2 D3 amap d1map d3map line rest = .ok (ws, n)) :
    (∃ s, MatrixLine fl D1 D2 D3 amap d1map d3map line rest s n) ∨
    (fl.rowLenThrows = false ∧ countColon line = 2 ∧ (tokenize colonSpace line).length ≠ 3 + D3 ∧
      (tokenize colonSpace line).length ≠ 3 ∧ n = 0 ∧ ∀ w, w ∉ ws) := by
  unfold processMatrix at h
  split at h
  · -- three colons
    rename_i hc
    simp only at h
    split at h
    · cases h
    rename_i hcnt
    have hex : fl.exactCounts = true → (tokenize colonSpace line).length = 5 := by
      intro he; simpa [he] using hcnt
    obtain ⟨ta, h1, h⟩ := bind_ok.1 h
    obtain ⟨av, hav, h⟩ := bind_ok.1 h
    obtain ⟨t1, h2, h⟩ := bind_ok.1 h
    obtain ⟨d1v, hd1, h⟩ := bind_ok.1 h
    obtain ⟨t3, h3, h⟩ := bind_ok.1 h
    obtain ⟨d3v, hd3, h⟩ := bind_ok.1 h
    obtain ⟨tv, h4, h⟩ := bind_ok.1 h
    obtain ⟨v, hv, h⟩ := bind_ok.1 h
    obtain ⟨a, ra, _⟩ := (parseIndeces_iff ..).1 hav
    obtain ⟨d1, r1, _⟩ := (parseIndeces_iff ..).1 hd1
    obtain ⟨d3, r3, _⟩ := (parseIndeces_iff ..).1 hd3
    have hn : n = 0 := by have := pure_ok.1 h; injection this with _ h2; exact h2.symm
    subst hn
    exact Or.inl ⟨_, .entry hc (at?_ok.1 h1) (at?_ok.1 h2) (at?_ok.1 h3) (at?_ok.1 h4) ra r1 r3 hv hex⟩
  · rename_i hc
    obtain ⟨ta, h1, h⟩ := bind_ok.1 h
    obtain ⟨av, hav, h⟩ := bind_ok.1 h
    obtain ⟨t1, h2, h⟩ := bind_ok.1 h
    obtain ⟨d1v, hd1, h⟩ := bind_ok.1 h
    obtain ⟨a, ra, _⟩ := (parseIndeces_iff ..).1 hav
    obtain ⟨d1, r1, _⟩ := (parseIndeces_iff ..).1 hd1
    by_cases hl : (tokenize colonSpace line).length = 3 + D3
    · simp only [hl, beq_self_eq_true, if_true] at h
      obtain ⟨vs, hvs, h⟩ := bind_ok.1 h
      have hn : n = 0 := by have := pure_ok.1 h; injection this with _ h2; exact h2.symm
      subst hn
      exact Or.inl ⟨_, .rowInline hc (at?_ok.1 h1) (at?_ok.1 h2) ra r1 hl ((parseVectorToks_iff ..).1 hvs).2⟩
    · have hb : ((tokenize colonSpace line).length == 3 + D3) = false := by simpa using hl
      simp only [hb, Bool.false_eq_true, if_false] at h
      by_cases hl3 : (tokenize colonSpace line).length = 3
      · simp only [hl3, beq_self_eq_true, if_true] at h
        obtain ⟨l, hr, h⟩ := bind_ok.1 h
        obtain ⟨vs, hvs, h⟩ := bind_ok.1 h
        have hn : n = 1 := by have := pure_ok.1 h; injection this with _ h2; exact h2.symm
        subst hn
        exact Or.inl ⟨_, .rowNext hc (at?_ok.1 h1) (at?_ok.1 h2) ra r1 hl3 (by omega) (at?_ok.1 hr) hvs⟩
      · have hb3 : ((tokenize colonSpace line).length == 3) = false := by simpa using hl3
        simp only [hb3, Bool.false_eq_true, if_false] at h
        by_cases hfl : fl.rowLenThrows = true
        · simp [hfl] at h
        · have hfl' : fl.rowLenThrows = false := by simpa using hfl
          simp only [hfl', Bool.false_eq_true, if_false] at h
          have hp := pure_ok.1 h
          injection hp with hw hn
          refine Or.inr ⟨hfl', hc, hl, hl3, hn.symm, ?_⟩
          intro w hw'
          rw [← hw] at hw'
          simp [writesRow, writesVec, enumFrom] at hw'
  · rename_i hc
    obtain ⟨ta, h1, hA⟩ := bind_ok.1 h
    obtain ⟨av, hav, hB⟩ := bind_ok.1 hA
    obtain ⟨ws', hm, hC⟩ := bind_ok.1 hB
    obtain ⟨a, ra, hav'⟩ := (parseIndeces_iff ..).1 hav
    rw [hav'] at hm
    obtain ⟨rows, hl, hle, hd, _⟩ := (matrixRows_iff ..).1 hm
    have hn : n = D1 := by have := pure_ok.1 hC; injection this with _ h2; exact h2.symm
    subst hn
    exact Or.inl ⟨_, .matrix hc (at?_ok.1 h1) ra hl hle hd⟩
  · cases h

/-- **rejection, one T/O line**: whatever `processMatrix` accepts is a well-formed line — provided the
    malformed-length branch of the two-colon form throws.  (Full strength; holds for the repaired source.) -/
theorem processMatrix_accepts_only_wellformed {fl : Flags} (hfl : fl.rowLenThrows = true)
    {D1 D2 D3 : Nat} {amap d1map d3map : IDMap} {line : Str} {rest : List Str} {ws : List Write} {n : Nat}
    (h : processMatrix fl D1 D2 D3 amap d1map d3map line rest = .ok (ws, n)) :
    ∃ s, MatrixLine fl D1 D2 D3 amap d1map d3map line rest s n := by
  rcases processMatrix_ok_cases h with hs | ⟨hf, _⟩
  · exact hs
  · rw [hfl] at hf; cases hf

/-! ### one reward statement line -/

/-- `R: a : s : s1 : o v` (the observation token must be present but is not interpreted) -/
inductive RewardLine (fl : Flags) (S A : Nat) (amap smap : IDMap) (line : Str) : Stmt → Prop
  | entry {ta t1 t3 tv : Str} {a d1 d3 : Sel} {v : XRat} :
      countColon line = 4 →
      (tokenize colonSpace line)[1]? = some ta → (tokenize colonSpace line)[2]? = some t1 →
      (tokenize colonSpace line)[3]? = some t3 → (tokenize colonSpace line)[5]? = some tv →
      Resolves fl amap A ta a → Resolves fl smap S t1 d1 → Resolves fl smap S t3 d3 → stodS fl tv = .ok v →
      (fl.exactCounts = true → (tokenize colonSpace line).length = 6) →
      RewardLine fl S A amap smap line ⟨a, d1, .entry d3 v⟩

theorem processReward_refines {S A : Nat} {amap smap : IDMap} {line : Str} {s : Stmt}
    (h : RewardLine fl S A amap smap line s) :
    ∃ ws, processReward fl S A amap smap line = .ok (ws, 0) ∧
      ∀ d1 a d3, lastHit ws d1 a d3 = s.assigns S A S d1 a d3 := by
  cases h with
  | @entry ta t1 t3 tv a d1 d3 v hc h1 h2 h3 h4 ra r1 r3 hv hex =>
    refine ⟨writesEntry (d1.toList S) (a.toList A) (d3.toList S) v, ?_, ?_⟩
    · have pa := (parseIndeces_iff ta amap A _).2 ⟨a, ra, rfl⟩
      have p1 := (parseIndeces_iff t1 smap S _).2 ⟨d1, r1, rfl⟩
      have p3 := (parseIndeces_iff t3 smap S _).2 ⟨d3, r3, rfl⟩
      have hcnt : (fl.exactCounts && (tokenize colonSpace line).length != 6) = false := by
        cases he : fl.exactCounts with
        | false => rfl
        | true => simp [hex he]
      simp only [processReward, hcnt, Bool.false_eq_true, if_false, hc, at?_ok.2 h1, at?_ok.2 h2, at?_ok.2 h3, at?_ok.2 h4, pa, p1, p3, hv, bind, Except.bind, pure, Except.pure]
    · intro x y z
      rw [lastHit_writesEntry]
      simp only [mem_toList, Stmt.assigns]
      cases a.covers A y <;> cases d1.covers S x <;> cases d3.covers S z <;> simp

theorem processReward_accepts_only_wellformed {S A : Nat} {amap smap : IDMap} {line : Str} {ws : List Write} {n : Nat}
    (h : processReward fl S A amap smap line = .ok (ws, n)) :
    n = 0 ∧ ∃ s, RewardLine fl S A amap smap line s := by
  unfold processReward at h
  split at h
  · rename_i hc
    simp only at h
    split at h
    · cases h
    rename_i hcnt
    have hex : fl.exactCounts = true → (tokenize colonSpace line).length = 6 := by
      intro he; simpa [he] using hcnt
    obtain ⟨ta, h1, h⟩ := bind_ok.1 h
    obtain ⟨av, hav, h⟩ := bind_ok.1 h
    obtain ⟨t1, h2, h⟩ := bind_ok.1 h
    obtain ⟨d1v, hd1, h⟩ := bind_ok.1 h
    obtain ⟨t3, h3, h⟩ := bind_ok.1 h
    obtain ⟨d3v, hd3, h⟩ := bind_ok.1 h
    obtain ⟨tv, h4, h⟩ := bind_ok.1 h
    obtain ⟨v, hv, h⟩ := bind_ok.1 h
    obtain ⟨a, ra, _⟩ := (parseIndeces_iff ..).1 hav
    obtain ⟨d1, r1, _⟩ := (parseIndeces_iff ..).1 hd1
    obtain ⟨d3, r3, _⟩ := (parseIndeces_iff ..).1 hd3
    have hn : n = 0 := by have := pure_ok.1 h; injection this with _ h2; exact h2.symm
    exact ⟨hn, _, .entry hc (at?_ok.1 h1) (at?_ok.1 h2) (at?_ok.1 h3) (at?_ok.1 h4) ra r1 r3 hv hex⟩
  · cases h

end AITB.Cassandra
