/-
  AITB.Props.C15Top — FactoredLP: the LP the code builds (setup rows + elimination rows + the two φ rows) has a
  solution extending (w, φ) exactly when  |Σ_k w_k C_k(s) [+ w_const] − b(s)| ≤ φ  at every joint state `s`
  (`factoredLP_equiv`), hence the same optimum as the flat LP (`factoredLP_same_optimum`).
-/
import AITB.Props.C15Gen
import AITB.Props.C15

namespace AITB.FLP
open AITB.Factored AITB.VE

/-! ## generic facts -/

theorem stVal_congr_below (sides : Nat) (st : GenSt) (hc : CInv sides st) (u u' : Nat → Rat)
    (h : ∀ c, c < st.ncols → u' c = u c) (d : Nat) (hd : d < sides) (A a : List Nat) :
    stVal (shift u' d) A a st = stVal (shift u d) A a st := by
  simp only [stVal, gVal]
  congr 1
  · apply sumU_congr
    intro c hcm
    obtain ⟨nd, hnd, r, hr, e⟩ := mem_hits A a st.graph c hcm
    have := hc.1 nd hnd r hr
    simp only [shift]; rw [← e]; exact h _ (by omega)
  · apply sumU_congr
    intro c hcm
    have := hc.2 c hcm
    simp only [shift]; exact h _ (by omega)

theorem lhs_pos0 (u : Nat → Rat) : ∀ (pos : List Nat), lhs u (pos.map (fun c => (c, (1 : Rat)))) = sumU u pos
  | [] => rfl
  | c :: cs => by simp only [List.map_cons, lhs, sumU, lhs_pos0 u cs]; ring

theorem flpFinalRows_sat (u : Nat → Rat) (phi : Nat) (finals : List Nat) :
    (∀ r ∈ flpFinalRows phi finals, r.sat u) ↔ sumU (shift u 0) finals ≤ u phi ∧ sumU (shift u 1) finals ≤ u phi := by
  have e0 : sumU (shift u 0) finals = sumU u finals := sumU_congr _ _ _ (fun c _ => by simp [shift])
  simp only [flpFinalRows, List.mem_cons, List.mem_nil_iff, or_false, forall_eq_or_imp, forall_eq, CRow.sat, lhs,
             lhs_pos0, lhs_pos, e0]
  constructor
  · rintro ⟨h1, h2⟩; constructor <;> linarith
  · rintro ⟨h1, h2⟩; constructor <;> linarith

/-- the run from a set-up state: generated rows + the two φ rows are satisfiable by an extension of `u` iff the state value
    is below `u φ` at every joint assignment on both sides -/
theorem flp_core (S : List Nat) (hS : ∀ d ∈ S, 0 < d) (st0 : GenSt) (phi : Nat) (hphi : phi < st0.ncols)
    (hl : LInvL (List.range S.length) st0.graph) (hc : CInv 2 st0) (hr : RInv st0)
    (u : Nat → Rat) (hu : ∀ r ∈ st0.rows, r.sat u) :
    (∃ u', (∀ c, c < st0.ncols → u' c = u c) ∧
        ∀ r ∈ (genRun S S.length 2 st0).rows ++ flpFinalRows phi (genRun S S.length 2 st0).finals, r.sat u') ↔
      ∀ d, d < 2 → ∀ a, Valid S a → stVal (shift u d) S a st0 ≤ u phi := by
  have spec := genLoop_spec S 2 hS S.length (List.range S.length) st0 (by simp) (fun w hw => List.mem_range.mp hw) hl hc hr
  simp only [genRun]
  constructor
  · rintro ⟨u', hag, hsat⟩ d hd a ha
    have h1 := spec.sound u' (fun r h => hsat r (List.mem_append.mpr (Or.inl h))) d hd a ha
    have h2 := (flpFinalRows_sat u' phi _).mp (fun r h => hsat r (List.mem_append.mpr (Or.inr h)))
    rw [stVal_congr_below 2 st0 hc u u' hag d hd] at h1
    rw [← hag phi hphi]
    have : d = 0 ∨ d = 1 := by omega
    rcases this with rfl | rfl
    · exact le_trans h1 h2.1
    · exact le_trans h1 h2.2
  · intro h
    obtain ⟨u', hag, hsat, hatt⟩ := spec.complete u hu
    refine ⟨u', hag, ?_⟩
    intro r hr'
    rcases List.mem_append.mp hr' with h' | h'
    · exact hsat r h'
    · refine (flpFinalRows_sat u' phi _).mpr ⟨?_, ?_⟩ r h'
      · obtain ⟨a', ha', e⟩ := hatt 0 (by omega)
        rw [e, hag phi hphi]; exact h 0 (by omega) a' ha'
      · obtain ⟨a', ha', e⟩ := hatt 1 (by omega)
        rw [e, hag phi hphi]; exact h 1 (by omega) a' ha'

/-! ## naming the entries of one basis (the setup loops) -/

theorem addRules_keys (keys : List Nat) (rs : List (Nat × Nat)) : ∀ (g : List LNode), ∀ nd ∈ addRules keys rs g,
    nd.keys = keys ∨ ∃ nd' ∈ g, nd'.keys = nd.keys
  | [], nd, h => by simp [addRules] at h; subst h; exact Or.inl rfl
  | x :: g, nd, h => by
    simp only [addRules] at h
    split at h
    · rcases List.mem_cons.mp h with h | h
      · subst h; exact Or.inr ⟨x, List.mem_cons_self .., rfl⟩
      · exact Or.inr ⟨nd, List.mem_cons_of_mem _ h, rfl⟩
    · rcases List.mem_cons.mp h with h | h
      · subst h; exact Or.inr ⟨nd, List.mem_cons_self .., rfl⟩
      · rcases addRules_keys keys rs g nd h with h' | ⟨nd', h1, h2⟩
        · exact Or.inl h'
        · exact Or.inr ⟨nd', List.mem_cons_of_mem _ h1, h2⟩

theorem addRules_rules (keys : List Nat) (rs : List (Nat × Nat)) : ∀ (g : List LNode), ∀ nd ∈ addRules keys rs g,
    ∀ r' ∈ nd.rules, r' ∈ rs ∨ ∃ nd' ∈ g, r' ∈ nd'.rules
  | [], nd, h, r', hr' => by
    simp [addRules] at h; subst h
    exact Or.inl hr'
  | x :: g, nd, h, r', hr' => by
    simp only [addRules] at h
    split at h
    · rcases List.mem_cons.mp h with h | h
      · subst h
        simp only [List.mem_append] at hr'
        rcases hr' with hr' | hr'
        · exact Or.inr ⟨x, List.mem_cons_self .., hr'⟩
        · exact Or.inl hr'
      · exact Or.inr ⟨nd, List.mem_cons_of_mem _ h, hr'⟩
    · rcases List.mem_cons.mp h with h | h
      · subst h; exact Or.inr ⟨nd, List.mem_cons_self .., hr'⟩
      · rcases addRules_rules keys rs g nd h r' hr' with h' | ⟨nd', h1, h2⟩
        · exact Or.inl h'
        · exact Or.inr ⟨nd', List.mem_cons_of_mem _ h1, h2⟩

/-- columns of the rules of `rs` whose index is `idx` -/
def pick (idx : Nat) (rs : List (Nat × Nat)) : List Nat := (rs.filter (fun r => r.1 == idx)).map (·.2)

theorem gVal_addRules (u : Nat → Rat) (A a : List Nat) (keys : List Nat) (rs : List (Nat × Nat)) : ∀ (g : List LNode),
    gVal u A a (addRules keys rs g) = gVal u A a g + sumU u (pick (toIndexPartial keys A a) rs)
  | [] => by simp [addRules, gVal, hits, hit, pick, sumU]
  | nd :: g => by
    simp only [addRules]
    by_cases h : nd.keys = keys
    · subst h
      simp only [beq_self_eq_true, if_true, gVal_cons, hit, pick, List.filter_append, List.map_append, sumU_append]; ring
    · have h' : (nd.keys == keys) = false := by simpa using h
      simp only [h', Bool.false_eq_true, if_false, gVal_cons, gVal_addRules u A a keys rs g]; ring

section entry
variable (mk : Nat → Rat → List CRow)

theorem entryLoop_rows_sat (u : Nat → Rat) : ∀ (vals : List Rat) (i col : Nat),
    (∀ r ∈ (entryLoop mk vals i col).2, r.sat u) ↔ ∀ t, t < vals.length → ∀ r ∈ mk (col + 2 * t) (vals.getD t 0), r.sat u
  | [], i, col => by simp [entryLoop]
  | q :: qs, i, col => by
    simp only [entryLoop, List.mem_append, List.length_cons]
    constructor
    · intro h t ht r hr
      cases t with
      | zero => exact h r (Or.inl (by simpa using hr))
      | succ t =>
        have := (entryLoop_rows_sat u qs (i+1) (col+2)).mp (fun r hr => h r (Or.inr hr)) t (by omega) r
        apply this
        have e : col + 2 + 2 * t = col + 2 * (t + 1) := by ring
        rw [e]; simpa using hr
    · intro h r hr
      rcases hr with hr | hr
      · exact h 0 (by omega) r (by simpa using hr)
      · refine (entryLoop_rows_sat u qs (i+1) (col+2)).mpr ?_ r hr
        intro t ht r hr
        have e : col + 2 + 2 * t = col + 2 * (t + 1) := by ring
        rw [e] at hr
        exact h (t+1) (by omega) r (by simpa using hr)

theorem entryLoop_rows_mem : ∀ (vals : List Rat) (i col : Nat), ∀ r ∈ (entryLoop mk vals i col).2,
    ∃ t, t < vals.length ∧ r ∈ mk (col + 2 * t) (vals.getD t 0)
  | [], _, _, r, h => by simp [entryLoop] at h
  | q :: qs, i, col, r, h => by
    simp only [entryLoop, List.mem_append] at h
    rcases h with h | h
    · exact ⟨0, by simp, by simpa using h⟩
    · obtain ⟨t, ht, hr⟩ := entryLoop_rows_mem qs (i+1) (col+2) r h
      refine ⟨t+1, by simp; omega, ?_⟩
      have e : col + 2 + 2 * t = col + 2 * (t + 1) := by ring
      rw [e] at hr; simpa using hr

theorem entryLoop_rules_mem : ∀ (vals : List Rat) (i col : Nat), ∀ r ∈ (entryLoop mk vals i col).1,
    ∃ t, t < vals.length ∧ r = (i + t, col + 2 * t)
  | [], _, _, r, h => by simp [entryLoop] at h
  | q :: qs, i, col, r, h => by
    simp only [entryLoop, List.mem_cons] at h
    rcases h with h | h
    · exact ⟨0, by simp, by simpa using h⟩
    · obtain ⟨t, ht, hr⟩ := entryLoop_rules_mem qs (i+1) (col+2) r h
      refine ⟨t+1, by simp; omega, ?_⟩
      rw [hr]; congr 1 <;> ring

theorem entryLoop_pick (u : Nat → Rat) (idx : Nat) : ∀ (vals : List Rat) (i col : Nat),
    sumU u (pick idx (entryLoop mk vals i col).1) = if i ≤ idx ∧ idx < i + vals.length then u (col + 2 * (idx - i)) else 0
  | [], i, col => by
    have : ¬ (i ≤ idx ∧ idx < i + 0) := by omega
    simp [entryLoop, pick, sumU]
  | q :: qs, i, col => by
    simp only [entryLoop, pick, List.filter, List.length_cons]
    have ih := entryLoop_pick u idx qs (i+1) (col+2)
    simp only [pick] at ih
    by_cases e : i = idx
    · subst e
      have c1 : ¬ (i + 1 ≤ i ∧ i < i + 1 + qs.length) := by omega
      have c2 : i ≤ i ∧ i < i + (qs.length + 1) := by omega
      simp only [beq_self_eq_true, List.map_cons, sumU, ih, c1, if_false, c2, and_self, if_true, Nat.sub_self, Nat.mul_zero,
                 Nat.add_zero]
      ring
    · have e' : (i == idx) = false := by simpa using e
      simp only [e', ih]
      by_cases c2 : i ≤ idx ∧ idx < i + (qs.length + 1)
      · have c1 : i + 1 ≤ idx ∧ idx < i + 1 + qs.length := by omega
        have e3 : col + 2 + 2 * (idx - (i + 1)) = col + 2 * (idx - i) := by
          have : idx - i = (idx - (i + 1)) + 1 := by omega
          rw [this]; ring
        simp only [c1, c2, and_self, if_true, e3]
      · have c1 : ¬ (i + 1 ≤ idx ∧ idx < i + 1 + qs.length) := by omega
        simp only [c1, c2, if_false]

end entry

/-- one round of a setup loop: name every entry of a basis (tag, vals) with the row maker `mk` -/
def addBasis (mk : Nat → Rat → List CRow) (tag : List Nat) (vals : List Rat) (st : GenSt) : GenSt :=
  { st with graph := addRules tag (entryLoop mk vals 0 st.ncols).1 st.graph,
            ncols := st.ncols + 2 * vals.length,
            rows := st.rows ++ (entryLoop mk vals 0 st.ncols).2 }

/-- what a row maker must satisfy: its rows say `u col = tv u q` and `u (col+1) = −tv u q`, where the target value `tv`
    reads only columns below `base`, and its rows mention only those and the two named columns -/
structure MkSpec (mk : Nat → Rat → List CRow) (tv : (Nat → Rat) → Rat → Rat) (base : Nat) : Prop where
  sat : ∀ u col q, (∀ r ∈ mk col q, r.sat u) ↔ (u col = tv u q ∧ u (col + 1) = - tv u q)
  ent : ∀ col q, base ≤ col → ∀ r ∈ mk col q, ∀ e ∈ r.ent, e.1 < col + 2
  loc : ∀ u u' q, (∀ c, c < base → u' c = u c) → tv u' q = tv u q

section ab
variable (mk : Nat → Rat → List CRow) (tv : (Nat → Rat) → Rat → Rat) (base : Nat) (hmk : MkSpec mk tv base)
include hmk

/-- the equalities the rows of one basis express, the basis starting at column `col` -/
def Named (tv : (Nat → Rat) → Rat → Rat) (u : Nat → Rat) (vals : List Rat) (col : Nat) : Prop :=
  ∀ t, t < vals.length → u (col + 2 * t) = tv u (vals.getD t 0) ∧ u (col + 2 * t + 1) = - tv u (vals.getD t 0)

theorem addBasis_rows (tag : List Nat) (vals : List Rat) (st : GenSt) (u : Nat → Rat) :
    (∀ r ∈ (addBasis mk tag vals st).rows, r.sat u) ↔ (∀ r ∈ st.rows, r.sat u) ∧ Named tv u vals st.ncols := by
  simp only [addBasis, List.mem_append, Named]
  constructor
  · intro h
    refine ⟨fun r hr => h r (Or.inl hr), fun t ht => ?_⟩
    exact (hmk.sat u _ _).mp ((entryLoop_rows_sat mk u vals 0 st.ncols).mp (fun r hr => h r (Or.inr hr)) t ht)
  · rintro ⟨h1, h2⟩ r hr
    rcases hr with hr | hr
    · exact h1 r hr
    · exact (entryLoop_rows_sat mk u vals 0 st.ncols).mpr (fun t ht => (hmk.sat u _ _).mpr (h2 t ht)) r hr

omit hmk in
theorem addBasis_val (tag : List Nat) (vals : List Rat) (st : GenSt) (u : Nat → Rat) (A a : List Nat) (d : Nat) :
    stVal (shift u d) A a (addBasis mk tag vals st)
      = stVal (shift u d) A a st + (if toIndexPartial tag A a < vals.length then u (st.ncols + 2 * toIndexPartial tag A a + d) else 0) := by
  simp only [stVal, addBasis, gVal_addRules, entryLoop_pick, Nat.zero_le, true_and, Nat.zero_add, Nat.sub_zero, shift]
  ring

theorem addBasis_inv (tag : List Nat) (vals : List Rat) (st : GenSt) (hb : base ≤ st.ncols) (hc : CInv 2 st) (hr : RInv st) :
    CInv 2 (addBasis mk tag vals st) ∧ RInv (addBasis mk tag vals st) ∧ (∀ r ∈ st.rows, r ∈ (addBasis mk tag vals st).rows) := by
  refine ⟨⟨?_, ?_⟩, ?_, ?_⟩
  · intro nd hnd r hr'
    simp only [addBasis] at hnd ⊢
    rcases addRules_rules tag _ st.graph nd hnd r hr' with h | ⟨nd', h1, h2⟩
    · obtain ⟨t, ht, e⟩ := entryLoop_rules_mem mk vals 0 st.ncols r h
      rw [e]; simp only; omega
    · have := hc.1 nd' h1 r h2; omega
  · intro c hcm
    have := hc.2 c hcm
    simp only [addBasis]; omega
  · intro r hr' e he
    simp only [addBasis, List.mem_append] at hr' ⊢
    rcases hr' with h | h
    · have := hr r h e he; omega
    · obtain ⟨t, ht, hm⟩ := entryLoop_rows_mem mk vals 0 st.ncols r h
      have := hmk.ent (st.ncols + 2 * t) _ (by omega) r hm e he
      omega
  · intro r hr'
    simp only [addBasis, List.mem_append]; exact Or.inl hr'

/-- every valuation extends to the columns of the new basis so that its rows hold -/
theorem addBasis_extend (vals : List Rat) (col : Nat) (hb : base ≤ col) (u : Nat → Rat) :
    ∃ u', (∀ c, c < col → u' c = u c) ∧ (∀ c, col + 2 * vals.length ≤ c → u' c = u c) ∧ Named tv u' vals col := by
  refine ⟨fun c => if c < col then u c else if c < col + 2 * vals.length then
      (if (c - col) % 2 = 0 then tv u (vals.getD ((c - col) / 2) 0) else - tv u (vals.getD ((c - col) / 2) 0)) else u c, ?_, ?_, ?_⟩
  · intro c hc; simp [hc]
  · intro c hc
    have h1 : ¬ c < col := by omega
    have h2 : ¬ c < col + 2 * vals.length := by omega
    simp [h1, h2]
  · intro t ht
    have hloc : ∀ q, tv (fun c => if c < col then u c else if c < col + 2 * vals.length then
        (if (c - col) % 2 = 0 then tv u (vals.getD ((c - col) / 2) 0) else - tv u (vals.getD ((c - col) / 2) 0)) else u c) q = tv u q := by
      intro q
      apply hmk.loc
      intro c hc
      have : c < col := by omega
      simp [this]
    rw [hloc]
    have a1 : ¬ (col + 2 * t < col) := by omega
    have a2 : col + 2 * t < col + 2 * vals.length := by omega
    have a3 : (col + 2 * t - col) % 2 = 0 := by omega
    have a4 : (col + 2 * t - col) / 2 = t := by omega
    have b1 : ¬ (col + 2 * t + 1 < col) := by omega
    have b2 : col + 2 * t + 1 < col + 2 * vals.length := by omega
    have b3 : ¬ ((col + 2 * t + 1 - col) % 2 = 0) := by omega
    have b4 : (col + 2 * t + 1 - col) / 2 = t := by omega
    simp only [a1, a2, a3, a4, b1, b2, b3, b4, if_true, if_false, and_self]

end ab

/-! ## a whole setup loop -/

/-- `for (f : bases) { …name every entry… ; ++k }` -/
def setupLoop (mkOf : Nat → Nat → Rat → List CRow) : List Basis → Nat → GenSt → GenSt
  | [], _, st => st
  | f :: fs, k, st => setupLoop mkOf fs (k+1) (addBasis (mkOf k) f.tag f.vals st)

def NamedL (tvOf : Nat → (Nat → Rat) → Rat → Rat) (u : Nat → Rat) : List Basis → Nat → Nat → Prop
  | [], _, _ => True
  | f :: fs, k, col => Named (tvOf k) u f.vals col ∧ NamedL tvOf u fs (k+1) (col + 2 * f.vals.length)

/-- Σ over the bases of the value their rule at `a` is named with -/
def sumL (S : List Nat) (tvOf : Nat → (Nat → Rat) → Rat → Rat) (u : Nat → Rat) : List Basis → Nat → List Nat → Rat
  | [], _, _ => 0
  | f :: fs, k, a => tvOf k u (f.at S a) + sumL S tvOf u fs (k+1) a

/-- well-formed basis: non-empty tag of in-range factors, one value per joint value of the tag -/
def BasisWF (S : List Nat) (f : Basis) : Prop :=
  f.tag ≠ [] ∧ (∀ w ∈ f.tag, w < S.length) ∧ f.vals.length = spacePartial f.tag S

structure SetupSpec (S : List Nat) (tvOf : Nat → (Nat → Rat) → Rat → Rat) (L : List Basis) (k : Nat) (st st' : GenSt) : Prop where
  cinv : CInv 2 st'
  rinv : RInv st'
  ncols_le : st.ncols ≤ st'.ncols
  keys : ∀ nd ∈ st'.graph, (∃ f ∈ L, nd.keys = f.tag) ∨ ∃ nd' ∈ st.graph, nd'.keys = nd.keys
  finals : st'.finals = st.finals
  rows : ∀ u, (∀ r ∈ st'.rows, r.sat u) ↔ (∀ r ∈ st.rows, r.sat u) ∧ NamedL tvOf u L k st.ncols
  val : ∀ u, NamedL tvOf u L k st.ncols → ∀ a, Valid S a →
    stVal (shift u 0) S a st' = stVal (shift u 0) S a st + sumL S tvOf u L k a ∧
    stVal (shift u 1) S a st' = stVal (shift u 1) S a st - sumL S tvOf u L k a

theorem setupLoop_spec (S : List Nat) (mkOf : Nat → Nat → Rat → List CRow) (tvOf : Nat → (Nat → Rat) → Rat → Rat)
    (base kmax : Nat) (hmk : ∀ k, k < kmax → MkSpec (mkOf k) (tvOf k) base) :
    ∀ (L : List Basis) (k : Nat) (st : GenSt), k + L.length ≤ kmax → (∀ f ∈ L, BasisWF S f) → base ≤ st.ncols →
      CInv 2 st → RInv st → SetupSpec S tvOf L k st (setupLoop mkOf L k st)
  | [], k, st, _, _, _, hc, hr => by
    refine ⟨hc, hr, le_refl _, fun nd h => Or.inr ⟨nd, h, rfl⟩, rfl, fun u => by simp [setupLoop, NamedL], ?_⟩
    intro u _ a _
    simp [setupLoop, sumL]
  | f :: fs, k, st, hk, hwf, hb, hc, hr => by
    have hm := hmk k (by simp at hk; omega)
    obtain ⟨hc1, hr1, _⟩ := addBasis_inv (mkOf k) (tvOf k) base hm f.tag f.vals st hb hc hr
    have IH := setupLoop_spec S mkOf tvOf base kmax hmk fs (k+1) (addBasis (mkOf k) f.tag f.vals st)
      (by simp at hk ⊢; omega) (fun g hg => hwf g (List.mem_cons_of_mem _ hg)) (by simp only [addBasis]; omega) hc1 hr1
    have hn1 : (addBasis (mkOf k) f.tag f.vals st).ncols = st.ncols + 2 * f.vals.length := rfl
    simp only [setupLoop]
    refine ⟨IH.cinv, IH.rinv, by have := IH.ncols_le; omega, ?_, by rw [IH.finals]; rfl, ?_, ?_⟩
    · intro nd hnd
      rcases IH.keys nd hnd with ⟨g, hg, e⟩ | ⟨nd', h1, h2⟩
      · exact Or.inl ⟨g, List.mem_cons_of_mem _ hg, e⟩
      · simp only [addBasis] at h1
        rcases addRules_keys f.tag _ st.graph nd' h1 with h3 | ⟨nd'', h3, h4⟩
        · exact Or.inl ⟨f, List.mem_cons_self .., by rw [← h2, h3]⟩
        · exact Or.inr ⟨nd'', h3, by rw [h4, h2]⟩
    · intro u
      rw [IH.rows u, addBasis_rows (mkOf k) (tvOf k) base hm, hn1]
      simp only [NamedL, and_assoc]
    · intro u hN a ha
      obtain ⟨hN1, hN2⟩ := hN
      obtain ⟨v0, v1⟩ := IH.val u (by rw [hn1]; exact hN2) a ha
      obtain ⟨_, hkeys, hlen⟩ := hwf f (List.mem_cons_self ..)
      have hidx : toIndexPartial f.tag S a < f.vals.length := by rw [hlen]; exact toIndexPartial_lt S a f.tag ha hkeys
      have hN1' := hN1 _ hidx
      rw [v0, v1, addBasis_val, addBasis_val]
      simp only [hidx, if_true, sumL, Basis.at, Nat.add_zero]
      rw [hN1'.1, hN1'.2]
      constructor <;> ring

/-- every valuation extends over the columns of a whole setup loop -/
theorem setupLoop_extend (tvOf : Nat → (Nat → Rat) → Rat → Rat) (mkOf : Nat → Nat → Rat → List CRow)
    (base kmax : Nat) (hmk : ∀ k, k < kmax → MkSpec (mkOf k) (tvOf k) base) :
    ∀ (L : List Basis) (k col : Nat), k + L.length ≤ kmax → base ≤ col → ∀ (u : Nat → Rat),
      ∃ u', (∀ c, c < col → u' c = u c) ∧ NamedL tvOf u' L k col
  | [], _, _, _, _, u => ⟨u, fun _ _ => rfl, trivial⟩
  | f :: fs, k, col, hk, hb, u => by
    have hm := hmk k (by simp at hk; omega)
    obtain ⟨u1, hag1, _, hN1⟩ := addBasis_extend (mkOf k) (tvOf k) base hm f.vals col hb u
    obtain ⟨u2, hag2, hN2⟩ := setupLoop_extend tvOf mkOf base kmax hmk fs (k+1) (col + 2 * f.vals.length)
      (by simp at hk ⊢; omega) (by omega) u1
    refine ⟨u2, fun c hc => by rw [hag2 c (by omega), hag1 c hc], ?_, hN2⟩
    intro t ht
    have e : ∀ q, tvOf k u2 q = tvOf k u1 q := fun q => hm.loc u1 u2 q (fun c hc => hag2 c (by omega))
    rw [e, hag2 _ (by omega), hag2 _ (by omega)]
    exact hN1 t ht

/-- `NamedL` only reads columns below the end of the loop's columns -/
theorem NamedL_congr (tvOf : Nat → (Nat → Rat) → Rat → Rat) (mkOf : Nat → Nat → Rat → List CRow)
    (base kmax : Nat) (hmk : ∀ k, k < kmax → MkSpec (mkOf k) (tvOf k) base) (u u' : Nat → Rat) :
    ∀ (L : List Basis) (k col : Nat), k + L.length ≤ kmax → base ≤ col →
      (∀ c, c < col + 2 * sumNat (L.map (·.vals.length)) → u' c = u c) → NamedL tvOf u L k col → NamedL tvOf u' L k col
  | [], _, _, _, _, _, _ => trivial
  | f :: fs, k, col, hk, hb, hag, hN => by
    have hm := hmk k (by simp at hk; omega)
    simp only [List.map_cons, sumNat] at hag
    refine ⟨?_, NamedL_congr tvOf mkOf base kmax hmk u u' fs (k+1) _ (by simp at hk ⊢; omega) (by omega)
      (fun c hc => hag c (by omega)) hN.2⟩
    intro t ht
    have e : ∀ q, tvOf k u' q = tvOf k u q := fun q => hm.loc u u' q (fun c hc => hag c (by omega))
    rw [e, hag _ (by omega), hag _ (by omega)]
    exact hN.1 t ht

/-! ## FactoredLP::operator() -/

/-- the share of the implied constant basis carried by every rule of `C` -/
def kap (addConst : Bool) (constId : Nat) (cc : Rat) (u : Nat → Rat) : Rat := if addConst then cc * u constId else 0

def tvC (addConst : Bool) (constId : Nat) (cc : Rat) (k : Nat) (u : Nat → Rat) (q : Rat) : Rat := q * u k + kap addConst constId cc u
def tvB (_k : Nat) (_u : Nat → Rat) (q : Rat) : Rat := -q

theorem flpCRows_spec (addConst : Bool) (constId : Nat) (cc : Rat) (k base : Nat) (hk : k < base) (hcid : constId < base) :
    MkSpec (flpCRows addConst constId cc k) (tvC addConst constId cc k) base := by
  refine ⟨?_, ?_, ?_⟩
  · intro u col q
    cases addConst <;>
      simp only [flpCRows, tvC, kap, List.mem_cons, List.mem_nil_iff, or_false, forall_eq_or_imp, forall_eq, CRow.sat, lhs,
                 List.append_nil, List.cons_append, List.nil_append, if_true, if_false, Bool.false_eq_true] <;>
      constructor <;> rintro ⟨h1, h2⟩ <;> constructor <;> linarith
  · intro col q hb r hr e he
    cases addConst <;>
      simp only [flpCRows, List.mem_cons, List.mem_nil_iff, or_false, List.append_nil, List.cons_append, List.nil_append,
                 if_true, if_false, Bool.false_eq_true] at hr <;>
      rcases hr with rfl | rfl <;> simp only [List.mem_cons, List.mem_nil_iff, or_false] at he <;>
      rcases he with rfl | rfl | rfl <;> simp only <;> omega
  · intro u u' q hag
    simp only [tvC, kap, hag k hk, hag constId hcid]

theorem flpBRows_spec (k base : Nat) : MkSpec flpBRows (tvB k) base := by
  refine ⟨?_, ?_, ?_⟩
  · intro u col q
    simp only [flpBRows, tvB, List.mem_cons, List.mem_nil_iff, or_false, forall_eq_or_imp, forall_eq, CRow.sat, lhs]
    constructor <;> rintro ⟨h1, h2⟩ <;> constructor <;> linarith
  · intro col q _ r hr e he
    simp only [flpBRows, List.mem_cons, List.mem_nil_iff, or_false] at hr
    rcases hr with rfl | rfl <;> simp only [List.mem_cons, List.mem_nil_iff, or_false] at he <;> subst he <;> simp only <;> omega
  · intro u u' q _; rfl

theorem flpSetupC_eq (addConst : Bool) (constId : Nat) (cc : Rat) : ∀ (C : List Basis) (k : Nat) (st : GenSt),
    flpSetupC addConst constId cc C k st = setupLoop (flpCRows addConst constId cc) C k st
  | [], _, _ => rfl
  | f :: fs, k, st => by
    simp only [flpSetupC, setupLoop]
    exact flpSetupC_eq addConst constId cc fs (k+1) _

theorem flpSetupB_eq : ∀ (b : List Basis) (k : Nat) (st : GenSt), flpSetupB b st = setupLoop (fun _ => flpBRows) b k st
  | [], _, _ => rfl
  | f :: fs, k, st => by
    simp only [flpSetupB, setupLoop]
    exact flpSetupB_eq fs (k+1) _

theorem sumTo_front (n : Nat) (f : Nat → Rat) : sumTo (n+1) f = f 0 + sumTo n (fun i => f (i+1)) := by
  induction n with
  | zero => simp [sumTo]
  | succ n ih =>
    have : sumTo (n+1+1) f = sumTo (n+1) f + f (n+1) := rfl
    rw [this, ih]; simp only [sumTo]; ring

/-- the `C` loop names, at `a`, Σ_k u(k)·C_k(a) plus |C| shares of the constant -/
theorem sumL_C (S : List Nat) (addConst : Bool) (constId : Nat) (cc : Rat) (u : Nat → Rat) (a : List Nat) :
    ∀ (C : List Basis) (k : Nat),
      sumL S (tvC addConst constId cc) u C k a
        = sumTo C.length (fun i => u (k + i) * ((C.map (·.at S a)).getD i 0)) + (C.length : Nat) * kap addConst constId cc u
  | [], k => by simp [sumL, sumTo]
  | f :: fs, k => by
    simp only [sumL, sumL_C S addConst constId cc u a fs (k+1), List.length_cons, sumTo_front, tvC, List.map_cons,
               List.getD_cons_zero, List.getD_cons_succ, Nat.add_zero]
    have e : ∀ i, k + 1 + i = k + (i + 1) := fun i => by omega
    simp only [e]
    push_cast; ring

theorem sumL_B (S : List Nat) (u : Nat → Rat) (a : List Nat) : ∀ (b : List Basis) (k : Nat), sumL S tvB u b k a = - fvAt S b a
  | [], k => by simp [sumL, fvAt, sumQ]
  | f :: fs, k => by simp only [sumL, sumL_B S u a fs (k+1), tvB, fvAt, List.map_cons, sumQ]; ring

/-- the set-up state: invariants, and what its rows and values are -/
theorem flpSetup_spec (S : List Nat) (C b : List Basis) (addConst : Bool)
    (hC : ∀ f ∈ C, BasisWF S f) (hb : ∀ f ∈ b, BasisWF S f) :
    let phi := flpPhi C addConst
    let st0 := flpSetup C b addConst
    let tvc := tvC addConst (phi - 1) (constCoeff C)
    let mid := setupLoop (flpCRows addConst (phi - 1) (constCoeff C)) C 0 ⟨[], [], phi + 1, []⟩
    phi < st0.ncols ∧ CInv 2 st0 ∧ RInv st0 ∧ LInvL (List.range S.length) st0.graph ∧ st0.finals = [] ∧
    (∀ u, (∀ r ∈ st0.rows, r.sat u) ↔ NamedL tvc u C 0 (phi + 1) ∧ NamedL tvB u b 0 mid.ncols) ∧
    (∀ u, NamedL tvc u C 0 (phi + 1) → NamedL tvB u b 0 mid.ncols → ∀ a, Valid S a →
      stVal (shift u 0) S a st0 = sumL S tvc u C 0 a + sumL S tvB u b 0 a ∧
      stVal (shift u 1) S a st0 = - (sumL S tvc u C 0 a + sumL S tvB u b 0 a)) ∧
    (∀ u : Nat → Rat, ∃ u' : Nat → Rat, (∀ c, c < phi + 1 → u' c = u c) ∧ NamedL tvc u' C 0 (phi + 1) ∧ NamedL tvB u' b 0 mid.ncols) := by
  intro phi st0 tvc mid
  have hphiC : C.length ≤ phi := by simp only [phi, flpPhi]; omega
  have hcid : addConst = true → phi - 1 < phi + 1 := fun _ => by omega
  have hmkC : ∀ k, k < C.length → MkSpec (flpCRows addConst (phi - 1) (constCoeff C) k) (tvc k) (phi + 1) :=
    fun k hk => flpCRows_spec addConst (phi - 1) (constCoeff C) k (phi + 1) (by omega) (by omega)
  have hmkB : ∀ k, k < b.length → MkSpec ((fun _ => flpBRows) k) (tvB k) (phi + 1) := fun k _ => flpBRows_spec k (phi + 1)
  have init_c : CInv 2 (⟨[], [], phi + 1, []⟩ : GenSt) := ⟨fun nd h => by simp at h, fun c h => by simp at h⟩
  have init_r : RInv (⟨[], [], phi + 1, []⟩ : GenSt) := fun r h => by simp at h
  have sC := setupLoop_spec S _ tvc (phi + 1) C.length hmkC C 0 ⟨[], [], phi + 1, []⟩ (by omega) hC (le_refl _) init_c init_r
  have hmid : phi + 1 ≤ mid.ncols := sC.ncols_le
  have sB := setupLoop_spec S _ tvB (phi + 1) b.length hmkB b 0 mid (by omega) hb hmid sC.cinv sC.rinv
  have hst0 : st0 = setupLoop (fun _ => flpBRows) b 0 mid := by
    simp only [st0, flpSetup, mid, phi]
    rw [flpSetupC_eq, flpSetupB_eq _ 0]
  rw [hst0]
  refine ⟨by have := sB.ncols_le; omega, sB.cinv, sB.rinv, ?_, by rw [sB.finals, sC.finals], ?_, ?_, ?_⟩
  · intro nd hnd
    have hk : ∃ f, (f ∈ C ∨ f ∈ b) ∧ nd.keys = f.tag := by
      rcases sB.keys nd hnd with ⟨f, hf, e⟩ | ⟨nd', h1, h2⟩
      · exact ⟨f, Or.inr hf, e⟩
      · rcases sC.keys nd' h1 with ⟨f, hf, e⟩ | ⟨nd'', h3, _⟩
        · exact ⟨f, Or.inl hf, by rw [← h2, e]⟩
        · simp at h3
    obtain ⟨f, hf, e⟩ := hk
    have hw : BasisWF S f := by rcases hf with h | h; exact hC f h; exact hb f h
    rw [e]; exact ⟨hw.1, fun w hwm => List.mem_range.mpr (hw.2.1 w hwm)⟩
  · intro u
    rw [sB.rows u, sC.rows u]
    simp
  · intro u h1 h2 a ha
    obtain ⟨b0, b1⟩ := sB.val u h2 a ha
    obtain ⟨c0, c1⟩ := sC.val u h1 a ha
    rw [b0, b1, c0, c1]
    simp only [stVal, gVal, hits, sumU]
    constructor <;> ring
  · intro u
    obtain ⟨u1, hag1, hN1⟩ := setupLoop_extend tvc _ (phi + 1) C.length hmkC C 0 (phi + 1) (by omega) (le_refl _) u
    obtain ⟨u2, hag2, hN2⟩ := setupLoop_extend tvB _ (phi + 1) b.length hmkB b 0 mid.ncols (by omega) hmid u1
    refine ⟨u2, fun c hc => by rw [hag2 c (by omega), hag1 c hc], ?_, hN2⟩
    -- the columns of the C loop end where the b loop starts
    have hend : ∀ (L : List Basis) (k : Nat) (st : GenSt) (mkOf : Nat → Nat → Rat → List CRow),
        (setupLoop mkOf L k st).ncols = st.ncols + 2 * sumNat (L.map (·.vals.length)) := by
      intro L
      induction L with
      | nil => intro k st mkOf; simp [setupLoop, sumNat]
      | cons f fs ih =>
        intro k st mkOf
        simp only [setupLoop, ih, addBasis, List.map_cons, sumNat]; ring
    exact NamedL_congr tvc _ (phi + 1) C.length hmkC u1 u2 C 0 (phi + 1) (by omega) (le_refl _)
      (fun c hc => hag2 c (by rw [hend]; exact hc)) hN1

/-- with `u k = w_k` on the weight columns, the two setup loops name exactly the error term -/
theorem flp_named_err (S : List Nat) (C b : List Basis) (addConst : Bool) (hne : addConst = true → C ≠ [])
    (w : List Rat) (u : Nat → Rat) (hu : ∀ k, k < flpPhi C addConst → u k = w.getD k 0) (a : List Nat) :
    sumL S (tvC addConst (flpPhi C addConst - 1) (constCoeff C)) u C 0 a + sumL S tvB u b 0 a = flpErr S C b addConst w a := by
  rw [sumL_C, sumL_B]
  have e1 : sumTo C.length (fun i => u (0 + i) * ((C.map (·.at S a)).getD i 0)) = wAt S C w a := by
    unfold wAt
    apply sumTo_congr
    intro i hi
    rw [Nat.zero_add, hu i (by simp only [flpPhi]; omega)]
  have e2 : ((C.length : Nat) : Rat) * kap addConst (flpPhi C addConst - 1) (constCoeff C) u
      = if addConst then w.getD C.length 0 else 0 := by
    cases addConst with
    | false => simp [kap]
    | true =>
      have hlen : C.length ≠ 0 := by
        intro h; exact hne rfl (List.length_eq_zero_iff.mp h)
      have hq : ((C.length : Nat) : Rat) ≠ 0 := by exact_mod_cast hlen
      have e3 : flpPhi C true - 1 = C.length := by simp [flpPhi]
      simp only [kap, if_true, e3, constCoeff]
      rw [hu C.length (by simp [flpPhi]), ← mul_assoc, mul_one_div_cancel hq, one_mul]
  rw [e1, e2]
  simp only [flpErr]; ring

/-- **`factoredLP_equiv`** — FactoredLP's LP, exactly as the code builds it (setup rows for every entry of `C` and `b`,
    one pair of columns and `V[v]` pairs of rows per joint value of every elimination step in the order
    `bestVariableToRemove` picks, the two φ rows), has a solution that extends the weights `w` and the bound `φ`
    IF AND ONLY IF  |Σ_k w_k C_k(s) [+ w_const] − b(s)| ≤ φ  at EVERY joint state `s`.
    Hypotheses: factor sizes positive; tags non-empty, in range, one value per joint value (the documented shape of a
    BasisFunction); and, if the constant basis is requested, at least one basis function (without one the code drops the
    constant: finding C15-flp-const-without-basis, `flp_const_without_basis_counterexample`). -/
theorem factoredLP_equiv (S : List Nat) (hS : ∀ d ∈ S, 0 < d) (C b : List Basis) (addConst : Bool)
    (hC : ∀ f ∈ C, BasisWF S f) (hb : ∀ f ∈ b, BasisWF S f) (hne : addConst = true → C ≠ [])
    (w : List Rat) (φ : Rat) :
    (∃ u : Nat → Rat, (∀ k, k < flpPhi C addConst → u k = w.getD k 0) ∧ u (flpPhi C addConst) = φ ∧
        ∀ r ∈ (flpGen S C b addConst).1, r.sat u) ↔
      ∀ s, Valid S s → -φ ≤ flpErr S C b addConst w s ∧ flpErr S C b addConst w s ≤ φ := by
  obtain ⟨hphi, hc, hr, hl, _, hrows, hval, hext⟩ := flpSetup_spec S C b addConst hC hb
  have hgen : (flpGen S C b addConst).1 = (genRun S S.length 2 (flpSetup C b addConst)).rows
      ++ flpFinalRows (flpPhi C addConst) (genRun S S.length 2 (flpSetup C b addConst)).finals := rfl
  rw [hgen]
  have spec := genLoop_spec S 2 hS S.length (List.range S.length) (flpSetup C b addConst) (by simp)
    (fun w hw => List.mem_range.mp hw) hl hc hr
  constructor
  · rintro ⟨u, huw, huphi, hall⟩ s hs
    have hu0 : ∀ r ∈ (flpSetup C b addConst).rows, r.sat u :=
      fun r h => hall r (List.mem_append.mpr (Or.inl (spec.rows_mono r h)))
    have core := (flp_core S hS (flpSetup C b addConst) (flpPhi C addConst) hphi hl hc hr u hu0).mp ⟨u, fun _ _ => rfl, hall⟩
    obtain ⟨n1, n2⟩ := (hrows u).mp hu0
    obtain ⟨v0, v1⟩ := hval u n1 n2 s hs
    have e := flp_named_err S C b addConst hne w u huw s
    have c0 := core 0 (by omega) s hs
    have c1 := core 1 (by omega) s hs
    rw [v0, e, huphi] at c0
    rw [v1, e, huphi] at c1
    constructor <;> linarith
  · intro h
    obtain ⟨u0, hag0, n1, n2⟩ := hext (fun c => if c < flpPhi C addConst then w.getD c 0 else φ)
    have huw : ∀ k, k < flpPhi C addConst → u0 k = w.getD k 0 := by
      intro k hk; rw [hag0 k (by omega)]; simp [hk]
    have huphi : u0 (flpPhi C addConst) = φ := by
      rw [hag0 _ (by omega)]; simp
    have hu0 : ∀ r ∈ (flpSetup C b addConst).rows, r.sat u0 := (hrows u0).mpr ⟨n1, n2⟩
    have core := (flp_core S hS (flpSetup C b addConst) (flpPhi C addConst) hphi hl hc hr u0 hu0).mpr (by
      intro d hd a ha
      obtain ⟨v0, v1⟩ := hval u0 n1 n2 a ha
      have e := flp_named_err S C b addConst hne w u0 huw a
      obtain ⟨h1, h2⟩ := h a ha
      have : d = 0 ∨ d = 1 := by omega
      rcases this with rfl | rfl
      · rw [v0, e, huphi]; exact h2
      · rw [v1, e, huphi]; linarith)
    obtain ⟨u', hag, hall⟩ := core
    exact ⟨u', fun k hk => by rw [hag k (by omega), huw k hk], by rw [hag _ hphi, huphi], hall⟩

end AITB.FLP
